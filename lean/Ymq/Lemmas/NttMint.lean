/-
C10: the two ends of `convolve_modn_ntt` before composition: `pprods_neg` (`pprods_modn[q] ≡ -qP mod n`),
`rp_full` (the table `rpowers` of `MultiZmodP::new`), `fromMint_spec` (`from_mint` = Montgomery forms of
`v mod p_j`), `scatterRev_spec` (residues at bit-reversed positions).
-/
import Ymq.Lemmas.CrtBound
import Ymq.Lemmas.MillerMont
import Ymq.Lemmas.Limbs

namespace Ymq.Crt
open Ymq.Mg64 (W)

theorem pprodsLoop_vals (n pm : Nat) (hn : 0 < n) : ∀ (c pk : Nat) (acc : List Nat) (t : Nat),
    pk = t * pm % n → pm < n → acc.length + 1 = t →
    (∀ i, i < acc.length → acc.reverse.getD i 0 = (i + 2) * pm % n) →
    ∀ i, i < acc.length + c → (pprodsLoop n pm c pk acc).getD i 0 = (i + 2) * pm % n := by
  intro c
  induction c with
  | zero => intro pk acc t _ _ _ hacc i hi; rw [pprodsLoop]; exact hacc i (by omega)
  | succ c ih =>
    intro pk acc t hpk hpm hl hacc i hi
    unfold pprodsLoop
    simp only
    have hpkn : pk < n := by rw [hpk]; exact Nat.mod_lt _ hn
    have hnew : (if pk + pm ≥ n then pk + pm - n else pk + pm) = (t + 1) * pm % n := by
      have : (t + 1) * pm % n = (pk + pm) % n := by
        rw [Nat.add_mul, Nat.one_mul, Nat.add_mod, ← hpk, Nat.mod_eq_of_lt hpm]
      rw [this]
      split_ifs with h
      · rw [Nat.mod_eq_sub_mod h, Nat.mod_eq_of_lt (by omega)]
      · rw [Nat.mod_eq_of_lt (by omega)]
    rw [hnew]
    apply ih _ _ (t + 1) rfl hpm (by simp; omega) _ i (by simp; omega)
    intro i' hi'
    rw [List.reverse_cons]
    simp only [List.length_cons] at hi'
    by_cases h : i' < acc.length
    · rw [List.getD_eq_getElem?_getD, List.getElem?_append_left (by simpa using h), ← List.getD_eq_getElem?_getD]
      exact hacc i' h
    · have : i' = acc.length := by omega
      subst this
      rw [List.getD_eq_getElem?_getD, List.getElem?_append_right (by simp)]
      simp only [List.length_reverse, Nat.sub_self, List.getElem?_cons_zero, Option.getD_some]
      congr 2; omega

/-- **`pprods_modn[q] ≡ -q·P (mod n)`** for the tables of the model of `new` -/
theorem pprods_neg (n logsize : Nat) (m : Mzp) (h : new n logsize = some m) (hn : 0 < n)
    (q : Nat) (hq : q < m.w) : (m.pprodsModn.getD q 0 + q * m.pprod) % n = 0 := by
  obtain ⟨w, ew, _, _, _, _, _, pm, hpm, epm, epp⟩ := new_fields2 n logsize m h
  have hpmn : pm < n := by rcases hpm with h | h <;> omega
  have hpm0 : (pm + m.pprod) % n = 0 := by rw [epm]; exact pprodModn_neg n _ hn
  have hval : m.pprodsModn.getD q 0 = q * pm % n := by
    rw [epp]
    match q, hq with
    | 0, _ => simp
    | 1, _ => simp [Nat.mod_eq_of_lt hpmn]
    | q + 2, hq =>
      simp only [List.getD_cons_succ]
      have := pprodsLoop_vals n pm hn (w - 2) pm [] 1 (by rw [Nat.one_mul, Nat.mod_eq_of_lt hpmn]) hpmn rfl
        (fun i hi => by simp at hi) q (by simp; omega)
      rw [this]
  rw [hval, Nat.add_mod, Nat.mod_mod, ← Nat.add_mod, ← Nat.mul_add, Nat.mul_mod, hpm0, Nat.mul_zero, Nat.zero_mod]


/-! ### `rpowers` and `from_mint` -/

theorem montOk_of {p : Nat} (h : PrimeOk p) : Ymq.Mg64.MontOk p (p - 2) :=
  ⟨h.pos, h.odd, h.ltW, h.inv⟩

/-- generic form of the `rpowers` loop: if `f` maps `R^(t+2) mod p` to `R^(t+3) mod p` the list holds the powers -/
theorem iterM_pow (p R : Nat) (f : Nat → Option Nat) (hf : ∀ t, f (R ^ (t + 2) % p) = some (R ^ (t + 3) % p)) :
    ∀ (c a : Nat) (acc : List Nat) (t : Nat), a = R ^ (t + 2) % p →
    acc.length = t → (∀ i, i < t → acc.reverse.getD i 0 = R ^ (i + 3) % p) →
    ∃ l, iterM f c a acc = some l ∧ l.length = t + c ∧ ∀ i, i < t + c → l.getD i 0 = R ^ (i + 3) % p := by
  intro c
  induction c with
  | zero => intro a acc t _ hl hacc; exact ⟨acc.reverse, rfl, by simp [hl], fun i hi => hacc i (by omega)⟩
  | succ c ih =>
    intro a acc t ha hl hacc
    unfold iterM
    rw [ha, hf t]
    simp only
    obtain ⟨l, e, ll, hlv⟩ := ih (R ^ (t + 3) % p) (R ^ (t + 3) % p :: acc) (t + 1) (by
      rw [show t + 1 + 2 = t + 3 by omega]) (by simp [hl]) (by
      intro i hi
      rw [List.reverse_cons]
      by_cases hit : i < t
      · rw [List.getD_eq_getElem?_getD, List.getElem?_append_left (by simp [hl]; exact hit),
          ← List.getD_eq_getElem?_getD]
        exact hacc i hit
      · have : i = t := by omega
        subst this
        rw [List.getD_eq_getElem?_getD, List.getElem?_append_right (by simp [hl])]
        simp [hl])
    exact ⟨l, e, by rw [ll]; omega, fun i hi => hlv i (by omega)⟩

theorem mulmod_key (p R t : Nat) :
    (R ^ (t + 2) % p) * ((R % p * (R % p)) % p) % p = R ^ (t + 3) * R % p := by
  have h1 : (R ^ (t + 2) % p) * ((R % p * (R % p)) % p) ≡ R ^ (t + 2) * (R * R) [MOD p] :=
    Nat.ModEq.mul (Nat.mod_modEq _ _) ((Nat.mod_modEq _ _).trans ((Nat.mod_modEq R p).mul (Nat.mod_modEq R p)))
  have h2 : R ^ (t + 2) * (R * R) = R ^ (t + 3) * R := by ring
  rw [← h2]; exact h1

/-- the loop of `rpowers`: `R^3, R^4, … mod p` -/
theorem iterM_rp {p : Nat} (h : PrimeOk p) (w : Nat) :
    ∃ l, iterM (fun rj => mgMul64 p rj (W % p * (W % p) % p)) w (W % p * (W % p) % p) [] = some l ∧
      l.length = w ∧ ∀ i, i < w → l.getD i 0 = W ^ (i + 3) % p := by
  have hp : 0 < p := by have := h.pos; omega
  have hf : ∀ t, (fun rj => mgMul64 p rj (W % p * (W % p) % p)) (W ^ (t + 2) % p) = some (W ^ (t + 3) % p) := by
    intro t
    exact Ymq.Mg64.mgMul_eq (montOk_of h) (x := W ^ (t + 2) % p) (y := W % p * (W % p) % p)
      (Nat.mod_lt _ hp) (lt_trans (Nat.mod_lt _ hp) h.ltW) (W ^ (t + 3)) (mulmod_key p W t)
  obtain ⟨l, e, ll, hl⟩ := iterM_pow p W (fun rj => mgMul64 p rj (W % p * (W % p) % p)) hf w
    (W % p * (W % p) % p) [] 0 (by
    rw [← Nat.mul_mod, Nat.zero_add, pow_two]) rfl (fun i hi => by omega)
  exact ⟨l, e, by rw [ll]; omega, fun i hi => hl i (by omega)⟩


open Ymq.Gen.Params in
/-- **the table `rpowers` of `MultiZmodP::new`**: `rpowers[j][i] = R^(i+1) mod p_j` for `i ≤ w + 1` -/
theorem rp_full (n logsize : Nat) (m : Mzp) (h : new n logsize = some m) (j : Nat) (hj : j < m.w) :
    ∃ ri, m.rpowers[j]? = some ri ∧ ri.length = m.w + 2 ∧ ∀ i, i < m.w + 2 → ri.getD i 0 = W ^ (i + 1) % P m j := by
  obtain ⟨ek, epr, erp⟩ := new_fields3 n logsize m h
  obtain ⟨w, hw, ew, _, _, _⟩ := new_fields n logsize m h
  have hw26 : m.w ≤ 26 := by rw [ew]; exact mzp_w_le _ _ _ hw
  obtain ⟨p, g, hrow, hval, hok⟩ := table_rows j (by omega)
  have hlenT : NTT_PRIME_VALUES.length = 26 := by decide
  have hP : P m j = p := by
    show m.primes.getD j 0 = p
    rw [epr, List.getD_eq_getElem?_getD, List.getElem?_take_of_lt hj, ← List.getD_eq_getElem?_getD, hval]
  obtain ⟨l1, l2⟩ := mapM_list_inv _ _ _ erp
  obtain ⟨a, b, ha, hb, hab⟩ := l2 j (by rw [List.length_take, hlenT]; omega)
  have hap : a = p := by
    rw [List.getElem?_take_of_lt hj] at ha
    have : NTT_PRIME_VALUES.getD j 0 = a := by rw [List.getD_eq_getElem?_getD, ha]; rfl
    rw [← this, hval]
  subst hap
  have hpo := primeOk_of_row hok
  obtain ⟨l, el, ll, hl⟩ := iterM_rp hpo m.w
  unfold rpowersOf at hab
  simp only [el, Option.map_some, Option.some.injEq] at hab
  rw [hP]
  refine ⟨b, hb, by rw [← hab]; simp [ll], ?_⟩
  intro i hi
  rw [← hab]
  match i, hi with
  | 0, _ => simp
  | 1, _ => simp only [List.getD_cons_succ, List.getD_cons_zero]; rw [← Nat.mul_mod, pow_two]
  | i + 2, hi =>
    simp only [List.getD_cons_succ]
    rw [hl i (by omega)]

theorem sum_digits_val : ∀ (k : Nat) (x : List Nat), k ≤ x.length →
    ∑ j ∈ Finset.range k, x.getD j 0 * W ^ j = Ymq.Limbs.val (x.take k) := by
  intro k
  induction k with
  | zero => intro x _; simp
  | succ k ih =>
    intro x hk
    rw [Finset.sum_range_succ, ih x (by omega), List.take_add_one, Ymq.Limbs.val_append, List.length_take,
      Nat.min_eq_left (by omega)]
    have : x[k]?.toList = [x.getD k 0] := by
      rw [List.getD_eq_getElem?_getD, List.getElem?_eq_getElem (by omega)]; rfl
    rw [this]
    simp only [Ymq.Limbs.val_cons, Ymq.Limbs.val_nil, Nat.mul_zero, Nat.add_zero]
    rw [Nat.mul_comm]; rfl

theorem getD_ofNat : ∀ (k v j : Nat), j < k → (Ymq.Limbs.ofNat k v).getD j 0 = v / W ^ j % W := by
  intro k
  induction k with
  | zero => intro v j hj; omega
  | succ k ih =>
    intro v j hj
    unfold Ymq.Limbs.ofNat
    cases j with
    | zero => simp; rfl
    | succ j =>
      simp only [List.getD_cons_succ]
      rw [ih (v / Ymq.Limbs.W) j (by omega), pow_succ, Nat.div_div_eq_div_mul, Nat.mul_comm]
      rfl


theorem mul_bound123 (a b : Nat) (ha : a < W) (hb : b < 2 ^ 59) : a * b ≤ 2 ^ 123 := by
  have hWv : W = 18446744073709551616 := rfl
  have e59 : (2 : Nat) ^ 59 = 576460752303423488 := by norm_num
  rw [hWv] at ha; rw [e59] at hb
  have := Nat.mul_le_mul (le_of_lt ha) (le_of_lt hb)
  norm_num at this ⊢
  omega

theorem fromMintFold (ri x : List Nat) (B : Nat) (hx : ∀ i, x.getD i 0 < W) (hr : ∀ i, ri.getD i 0 < 2 ^ 59) :
    ∀ (c z0 : Nat), c + 2 ≤ ri.length → z0 ≤ B → B + c * 2 ^ 123 < 2 ^ 128 →
      (List.range c).foldlM (fromMintStep ri x) z0 =
        some (z0 + ∑ j ∈ Finset.range c, x.getD (j + 1) 0 * ri.getD (j + 2) 0) ∧
      z0 + ∑ j ∈ Finset.range c, x.getD (j + 1) 0 * ri.getD (j + 2) 0 ≤ B + c * 2 ^ 123 := by
  intro c
  induction c with
  | zero => intro z0 _ h0 _; simp; omega
  | succ c ih =>
    intro z0 hl h0 hB
    have hterm : x.getD (c + 1) 0 * ri.getD (c + 2) 0 ≤ 2 ^ 123 := mul_bound123 _ _ (hx (c + 1)) (hr (c + 2))
    rw [Nat.succ_mul] at hB
    generalize (2 : Nat) ^ 123 = T at *
    obtain ⟨e, hb⟩ := ih z0 (by omega) h0 (by omega)
    rw [List.range_succ, List.foldlM_append, e]
    simp only [Option.bind_eq_bind, Option.bind_some, List.foldlM_cons, List.foldlM_nil]
    unfold fromMintStep
    have hget : ri[c + 2]? = some (ri.getD (c + 2) 0) := by
      rw [List.getD_eq_getElem?_getD, List.getElem?_eq_getElem (by omega)]; rfl
    rw [hget]
    simp only
    rw [Finset.sum_range_succ]
    constructor
    · rw [if_neg (by omega)]; simp [Nat.add_assoc]
    · rw [Nat.succ_mul]; omega

/-- one residue of `from_mint`: the Montgomery form of the value of the `kw` low words -/
theorem fromMint1_spec (n logsize : Nat) (m : Mzp) (h : new n logsize = some m) (j : Nat) (hj : j < m.w)
    (x : List Nat) (hx : ∀ i, x.getD i 0 < W) (hkw1 : 1 ≤ m.kw) (hkw8 : m.kw ≤ 8) (hkww : m.kw ≤ m.w + 1) :
    ∃ z, fromMint1 m x j = some z ∧ z < P m j ∧
      mf (P m j) z = ((∑ i ∈ Finset.range m.kw, x.getD i 0 * W ^ i : Nat) : ZMod (P m j)) := by
  have hpo := tabOk_of_new n logsize m h j hj
  have hp0 : 0 < P m j := by have := hpo.pos; omega
  obtain ⟨ri, eri, lri, hri⟩ := rp_full n logsize m h j hj
  have hWv : W = 18446744073709551616 := rfl
  have h59 : (2 : Nat) ^ 59 = 576460752303423488 := by norm_num
  have hrlt : ∀ i, ri.getD i 0 < 2 ^ 59 := by
    intro i
    by_cases hi : i < m.w + 2
    · rw [hri i hi]; exact lt_trans (Nat.mod_lt _ hp0) hpo.lt
    · rw [List.getD_eq_getElem?_getD, List.getElem?_eq_none (by omega)]; norm_num
  have hprime : m.primes[j]? = some (P m j) := by
    obtain ⟨_, epr, _⟩ := new_fields3 n logsize m h
    have hlenT : Ymq.Gen.Params.NTT_PRIME_VALUES.length = 26 := by decide
    obtain ⟨w, hw, ew, _, _, _⟩ := new_fields n logsize m h
    have hw26 : m.w ≤ 26 := by rw [ew]; exact mzp_w_le _ _ _ hw
    show m.primes[j]? = some (m.primes.getD j 0)
    rw [List.getD_eq_getElem?_getD, List.getElem?_eq_getElem (by rw [epr, List.length_take, hlenT]; omega)]; rfl
  have hg : ∀ i, i < m.w + 2 → ri[i]? = some (W ^ (i + 1) % P m j) := by
    intro i hi
    rw [← hri i hi, List.getD_eq_getElem?_getD, List.getElem?_eq_getElem (by omega)]; rfl
  obtain ⟨ef, hfb⟩ := fromMintFold ri x (2 ^ 123) hx hrlt (m.kw - 1) (x.getD 0 0 * (W ^ 2 % P m j)) (by omega)
    (mul_bound123 _ _ (hx 0) (lt_trans (Nat.mod_lt _ hp0) hpo.lt)) (by
      have : (m.kw - 1) * 2 ^ 123 ≤ 7 * 2 ^ 123 := Nat.mul_le_mul_right _ (by omega)
      norm_num at this ⊢; omega)
  set zi := x.getD 0 0 * (W ^ 2 % P m j) + ∑ j' ∈ Finset.range (m.kw - 1), x.getD (j' + 1) 0 * ri.getD (j' + 2) 0
    with hzi
  -- zi ≡ W²·Σ x_i W^i
  have hzmod : ((zi : Nat) : ZMod (P m j)) =
      ((W : Nat) : ZMod (P m j)) ^ 2 * ((∑ i ∈ Finset.range m.kw, x.getD i 0 * W ^ i : Nat) : ZMod (P m j)) := by
    rw [hzi]
    have hk : m.kw = (m.kw - 1) + 1 := by omega
    conv_rhs => rw [hk, Finset.sum_range_succ']
    push_cast
    rw [ZMod.natCast_mod, mul_add, Finset.mul_sum]
    push_cast
    simp only [pow_zero, mul_one]
    rw [add_comm]
    congr 1
    · apply Finset.sum_congr rfl
      intro a ha
      rw [hri (a + 2) (by simp at ha; omega), ZMod.natCast_mod]
      push_cast; ring
    · ring
  have hz128 : zi < 2 ^ 127 := by
    have : (m.kw - 1) * 2 ^ 123 ≤ 7 * 2 ^ 123 := Nat.mul_le_mul_right _ (by omega)
    norm_num at this hfb ⊢; omega
  set z2 := zi / W * (W % P m j) + zi % W with hz2
  have hz2lt : z2 < P m j * W := by
    have h1 : zi / W < 2 ^ 63 := by
      rw [Nat.div_lt_iff_lt_mul (by decide)]
      have : (2 : Nat) ^ 63 * W = 2 ^ 127 := by rw [hWv]; norm_num
      omega
    have h2 : W % P m j < P m j := Nat.mod_lt _ hp0
    have h3 : zi / W * (W % P m j) ≤ 2 ^ 63 * P m j := Nat.mul_le_mul (le_of_lt h1) (le_of_lt h2)
    have h4 : zi % W < W := Nat.mod_lt _ (by decide)
    have h5 := hpo.pos
    rw [hz2, hWv] at *
    generalize P m j = pp at *
    norm_num at h3 ⊢
    omega
  have hz2mod : ((z2 : Nat) : ZMod (P m j)) = ((zi : Nat) : ZMod (P m j)) := by
    rw [hz2]
    push_cast
    rw [ZMod.natCast_mod]
    have := Nat.div_add_mod zi W
    conv_rhs => rw [← this]
    push_cast; ring
  obtain ⟨z, ez, zlt, zmod⟩ := Ymq.C07.mgRedc_spec (P m j) (P m j - 2) z2 hp0 hpo.ltW hpo.inv hz2lt
  refine ⟨z, ?_, zlt, ?_⟩
  · unfold fromMint1
    simp only [hprime, eri, hg 1 (by omega), hg 0 (by omega), Nat.zero_add, pow_one]
    rw [show 1 + 1 = 2 from rfl, ef]
    simp only
    rw [← hz2, if_neg (by
      have : P m j * W < W * W := Nat.mul_lt_mul_of_pos_right hpo.ltW (by decide)
      have hWW : W * W = 2 ^ 128 := by rw [hWv]; norm_num
      omega)]
    exact ez
  · have hc : ((z * W : Nat) : ZMod (P m j)) = ((z2 : Nat) : ZMod (P m j)) :=
      (ZMod.natCast_eq_natCast_iff' _ _ _).2 zmod
    push_cast at hc
    rw [hz2mod, hzmod] at hc
    rw [mf_of_mulW hpo z _ hc]
    have hu := W_uinv hpo
    set S := ((∑ i ∈ Finset.range m.kw, x.getD i 0 * W ^ i : Nat) : ZMod (P m j)) with hS
    calc ((W : Nat) : ZMod (P m j)) ^ 2 * S * uinv (P m j) * uinv (P m j)
        = (((W : Nat) : ZMod (P m j)) * uinv (P m j)) ^ 2 * S := by ring
      _ = S := by rw [hu, one_pow, one_mul]


/-- facts about the word count of the modulus in a context built by `new` -/
theorem new_kw (n logsize : Nat) (m : Mzp) (h : new n logsize = some m) (hn : 0 < n)
    (hbits : Ymq.Checked.bitlen n ≤ 512) :
    m.n = n ∧ 1 ≤ m.kw ∧ m.kw ≤ 8 ∧ m.kw ≤ m.w + 1 ∧ n < W ^ m.kw := by
  obtain ⟨w, ew, en, ekw, _, _, _, _⟩ := new_fields2 n logsize m h
  obtain ⟨w', hw, ew', _, _, _⟩ := new_fields n logsize m h
  have hweq := mzp_w_eq _ _ _ hw
  have hb := Ymq.PolyMul.bitlen_lt n
  have hb1 : 1 ≤ Ymq.Checked.bitlen n := by
    by_contra hcon
    have : Ymq.Checked.bitlen n = 0 := by omega
    rw [this] at hb; omega
  refine ⟨en, by rw [ekw]; omega, by rw [ekw]; omega, by rw [ekw, ew', hweq]; omega, ?_⟩
  rw [ekw, show W = 2 ^ 64 by decide, ← pow_mul]
  exact lt_of_lt_of_le hb (Nat.pow_le_pow_right (by decide) (by omega))

/-- **`from_mint`**: for a reduced `MInt` (8 words holding `v < n`) no panic site is reached (the `u128` sums,
`mg_redc`) and residue `j` is the Montgomery form of `v mod p_j` -/
theorem fromMint_spec (n logsize : Nat) (m : Mzp) (h : new n logsize = some m) (hn : 0 < n)
    (hbits : Ymq.Checked.bitlen n ≤ 512) (v : Nat) (hv : v < n) :
    ∃ z, fromMint m (Ymq.Limbs.ofNat 8 v) = some z ∧ EltOk m z ∧
      ∀ j, j < m.w → mfe m z j = ((v : Nat) : ZMod (P m j)) := by
  obtain ⟨_, hk1, hk8, hkw, hnW⟩ := new_kw n logsize m h hn hbits
  set x := Ymq.Limbs.ofNat 8 v with hx
  have hxW : ∀ i, x.getD i 0 < W := by
    intro i
    by_cases hi : i < 8
    · rw [hx, getD_ofNat 8 v i hi]; exact Nat.mod_lt _ (by decide)
    · rw [List.getD_eq_getElem?_getD, List.getElem?_eq_none (by simp [hx]; omega)]; decide
  have hvW : v < W ^ m.kw := lt_trans hv hnW
  have hsum : ∑ i ∈ Finset.range m.kw, x.getD i 0 * W ^ i = v := by
    rw [sum_digits_val m.kw x (by simp [hx]; omega), hx, Ymq.Limbs.ofNat_take 8 m.kw v hk8,
      Ymq.Limbs.val_ofNat_of_lt hvW]
  obtain ⟨l, e, ll, hl⟩ := mapM_range' (α := Nat) 0
    (Q := fun j r => r < P m j ∧ mf (P m j) r = ((v : Nat) : ZMod (P m j))) (fromMint1 m x) m.w (by
      intro j hj
      obtain ⟨z, e1, e2, e3⟩ := fromMint1_spec n logsize m h j hj x hxW hk1 hk8 hkw
      exact ⟨z, e1, e2, by rw [e3, hsum]⟩)
  refine ⟨l, ?_, ⟨ll, fun j hj => (hl j hj).1⟩, fun j hj => (hl j hj).2⟩
  unfold fromMint
  rw [if_neg (by omega), if_neg ?_]
  · exact e
  · rintro ⟨hlt, hne⟩
    apply hne
    have h8 : m.kw < 8 := by simpa [hx] using hlt
    rw [hx, getD_ofNat 8 v m.kw h8, Nat.div_eq_of_lt hvW, Nat.zero_mod]

/-- the zero element is reduced -/
theorem eltOk_zero (m : Mzp) (ht : TabOk m) : EltOk m (List.replicate m.w 0) := by
  refine ⟨by simp, fun j hj => ?_⟩
  rw [List.getD_eq_getElem?_getD, List.getElem?_replicate, if_pos hj]
  have := (ht j hj).pos
  show 0 < P m j
  omega

theorem mfe_zero (m : Mzp) (j : Nat) (hj : j < m.w) : mfe m (List.replicate m.w 0) j = 0 := by
  unfold mfe mf
  rw [List.getD_eq_getElem?_getD, List.getElem?_replicate, if_pos hj]
  simp

theorem bitrev_inj (K a b : Nat) (ha : a < 2 ^ K) (hb : b < 2 ^ K) (h : bitrev K a = bitrev K b) : a = b := by
  rw [← bitrev_invol K a ha, ← bitrev_invol K b hb, h]

/-- **the scatter of the residues into bit-reversed positions** -/
theorem scatterRev_spec (m : Mzp) (K : Nat) (Z : List Nat → List Nat) :
    ∀ (xs : List (List Nat)) (i : Nat) (f : List (List Nat)), i + xs.length ≤ 2 ^ K → f.length = 2 ^ K →
      (∀ x ∈ xs, fromMint m x = some (Z x)) →
      ∃ F, scatterRev m K xs i f = some F ∧ F.length = 2 ^ K ∧
        ∀ t, t < 2 ^ K → F.getD (bitrev K t) [] =
          if i ≤ t ∧ t < i + xs.length then Z (xs.getD (t - i) []) else f.getD (bitrev K t) [] := by
  intro xs
  induction xs with
  | nil =>
    intro i f _ hl _
    exact ⟨f, rfl, hl, fun t _ => by rw [if_neg (by simp)]⟩
  | cons x xs ih =>
    intro i f hi hl hZ
    simp only [List.length_cons] at hi
    have hi2 : i < 2 ^ K := by omega
    unfold scatterRev
    rw [hZ x List.mem_cons_self]
    simp only
    rw [Nat.mod_eq_of_lt hi2]
    obtain ⟨F, e, lF, hF⟩ := ih (i + 1) (f.set (bitrev K i) (Z x)) (by omega) (by simp [hl])
      (fun y hy => hZ y (List.mem_cons_of_mem _ hy))
    refine ⟨F, e, lF, ?_⟩
    intro t ht
    rw [hF t ht]
    by_cases h1 : i + 1 ≤ t ∧ t < i + 1 + xs.length
    · rw [if_pos h1, if_pos (by simp only [List.length_cons]; omega)]
      rw [show t - i = (t - (i + 1)) + 1 by omega, List.getD_cons_succ]
    · rw [if_neg h1, getD_set' _ _ _ _ _ (by rw [hl]; exact bitrev_lt K i)]
      by_cases h2 : t = i
      · subst h2
        rw [if_pos rfl, if_pos (by simp only [List.length_cons]; omega), Nat.sub_self, List.getD_cons_zero]
      · have hne : bitrev K t ≠ bitrev K i := fun hh => h2 (bitrev_inj K t i ht hi2 hh)
        rw [if_neg hne, if_neg (by simp only [List.length_cons]; omega)]

end Ymq.Crt
