/-
C10: the transform pipeline of `convolve_modn_ntt` (two forward `ntt_inplace`, `mul`, the bit-reversal swap
loop, inverse `ntt_inplace`) is the cyclic convolution per prime (`nttPipeline_spec`): `dft_conv` (3)
instantiated by the word-level model; bit reversal is an involution (`bitrev_invol`) and the swap loop
realises it (`swapLoop_spec`).
-/
import Ymq.Lemmas.NttRoots

namespace Ymq.Crt
open Ymq.Mg64 (W mgMul mgRedc)

theorem bitrev_top : ∀ (k i : Nat), i < 2 ^ k →
    bitrev (k + 1) i = 2 * bitrev k i ∧ bitrev (k + 1) (2 ^ k + i) = 2 * bitrev k i + 1 := by
  intro k
  induction k with
  | zero =>
    intro i hi
    have : i = 0 := by simpa using hi
    subst this
    exact ⟨by decide, by decide⟩
  | succ k ih =>
    intro i hi
    have hi2 : i / 2 < 2 ^ k := by rw [pow_succ] at hi; omega
    obtain ⟨h1, h2⟩ := ih (i / 2) hi2
    have hp : 0 < 2 ^ k := Nat.pow_pos (by decide)
    constructor
    · conv_lhs => unfold bitrev
      rw [h1]
      conv_rhs => unfold bitrev
      rw [pow_succ]; ring
    · conv_lhs => unfold bitrev
      have e1 : (2 ^ (k + 1) + i) % 2 = i % 2 := by rw [pow_succ]; omega
      have e2 : (2 ^ (k + 1) + i) / 2 = 2 ^ k + i / 2 := by rw [pow_succ]; omega
      rw [e1, e2, h2]
      conv_rhs => unfold bitrev
      rw [pow_succ]; ring

theorem bitrev_invol : ∀ (k i : Nat), i < 2 ^ k → bitrev k (bitrev k i) = i := by
  intro k
  induction k with
  | zero => intro i hi; simp at hi; subst hi; rfl
  | succ k ih =>
    intro i hi
    have hi2 : i / 2 < 2 ^ k := by rw [pow_succ] at hi; omega
    have hr := bitrev_lt k (i / 2)
    have hdef : bitrev (k + 1) i = i % 2 * 2 ^ k + bitrev k (i / 2) := by conv_lhs => unfold bitrev
    obtain ⟨t1, t2⟩ := bitrev_top k (bitrev k (i / 2)) hr
    rw [hdef]
    rcases Nat.mod_two_eq_zero_or_one i with h0 | h0
    · rw [h0, Nat.zero_mul, Nat.zero_add, t1, ih _ hi2]; omega
    · rw [h0, Nat.one_mul, t2, ih _ hi2]; omega

theorem getD_set' {β : Type} (l : List β) (i k : Nat) (a d : β) (hi : i < l.length) :
    (l.set i a).getD k d = if k = i then a else l.getD k d := by
  rw [List.getD_eq_getElem?_getD, List.getD_eq_getElem?_getD, List.getElem?_set]
  by_cases h : i = k
  · subst h; simp [hi]
  · rw [if_neg h, if_neg (fun h' => h h'.symm)]

/-- the swap loop puts the vector in bit-reversed order -/
theorem swapLoop_spec (K : Nat) (v0 : List (List Nat)) (_hv0 : v0.length = 2 ^ K) :
    ∀ (c i : Nat) (cur : List (List Nat)), i + c = 2 ^ K → cur.length = 2 ^ K →
      (∀ t, t < 2 ^ K → cur.getD t [] =
        if t < i ∨ bitrev K t < i then v0.getD (bitrev K t) [] else v0.getD t []) →
      (swapLoop K c i cur).length = 2 ^ K ∧
        ∀ t, t < 2 ^ K → (swapLoop K c i cur).getD t [] = v0.getD (bitrev K t) [] := by
  intro c
  induction c with
  | zero =>
    intro i cur hic hl hinv
    refine ⟨hl, fun t ht => ?_⟩
    rw [swapLoop, hinv t ht, if_pos (Or.inl (by omega))]
  | succ c ih =>
    intro i cur hic hl hinv
    have hi : i < 2 ^ K := by omega
    unfold swapLoop
    simp only
    have hrev := bitrev_lt K i
    have hinvol := bitrev_invol K i hi
    apply ih (i + 1) _ (by omega)
    · split_ifs <;> simp [hl]
    · intro t ht
      by_cases hlt : i < bitrev K i
      · rw [if_pos hlt, getD_set' _ _ _ _ _ (by simp [hl]; exact hrev), getD_set' _ _ _ _ _ (by rw [hl]; exact hi)]
        by_cases h1 : t = bitrev K i
        · subst h1
          rw [if_pos rfl, hinv i hi, if_neg (by omega), if_pos (Or.inr (by omega)), hinvol]
        · rw [if_neg h1]
          by_cases h2 : t = i
          · subst h2
            rw [if_pos rfl, hinv _ hrev, if_neg (by rw [hinvol]; omega), if_pos (Or.inl (by omega))]
          · rw [if_neg h2, hinv t ht]
            have h3 : bitrev K t ≠ i := by
              intro h; apply h1; rw [← h, bitrev_invol K t ht]
            have : (t < i + 1 ∨ bitrev K t < i + 1) ↔ (t < i ∨ bitrev K t < i) := by omega
            simp only [this]
      · rw [if_neg hlt, hinv t ht]
        by_cases h2 : t = i
        · subst h2
          rw [if_pos (show t < t + 1 ∨ bitrev K t < t + 1 from Or.inl (by omega))]
          split_ifs with h
          · rfl
          · have : bitrev K t = t := by omega
            rw [this]
        · by_cases h3 : bitrev K t = i
          · have ht' : t = bitrev K i := by rw [← h3, bitrev_invol K t ht]
            have hti : t < i := by omega
            rw [if_pos (show t < i ∨ bitrev K t < i from Or.inl hti),
              if_pos (show t < i + 1 ∨ bitrev K t < i + 1 from Or.inl (by omega))]
          · have : (t < i + 1 ∨ bitrev K t < i + 1) ↔ (t < i ∨ bitrev K t < i) := by omega
            simp only [this]

theorem mulV_spec (m : Mzp) (ht : TabOk m) : ∀ (xs ys : List (List Nat)) (h : Nat), VecOk m xs h → VecOk m ys h →
    ∃ zs, mulV m xs ys = some zs ∧ VecOk m zs h ∧ ∀ i, i < h → ∀ j, j < m.w →
      mfe m (zs.getD i []) j = mfe m (xs.getD i []) j * mfe m (ys.getD i []) j := by
  intro xs
  induction xs with
  | nil =>
    intro ys h hx hy
    have : h = 0 := by have := hx.1; simpa using this.symm
    subst this
    have : ys = [] := List.length_eq_zero_iff.1 hy.1
    subst this
    exact ⟨[], rfl, ⟨rfl, fun e he => by cases he⟩, fun i hi => by omega⟩
  | cons x xs ih =>
    intro ys h hx hy
    cases ys with
    | nil => have := hx.1; have := hy.1; simp at *; omega
    | cons y ys =>
      obtain ⟨z, e1, hz, hzv⟩ := mulE_spec m ht x y (hx.2 x List.mem_cons_self) (hy.2 y List.mem_cons_self)
      have hh : h = xs.length + 1 := by have := hx.1; simpa using this.symm
      obtain ⟨zs, e2, hzs, hzsv⟩ := ih ys xs.length ⟨rfl, fun e he => hx.2 e (List.mem_cons_of_mem _ he)⟩
        ⟨by have := hy.1; simp at this; omega, fun e he => hy.2 e (List.mem_cons_of_mem _ he)⟩
      refine ⟨z :: zs, by simp only [mulV, e1, e2], ⟨by simp [hzs.1, hh], ?_⟩, ?_⟩
      · intro e he
        rcases List.mem_cons.1 he with rfl | he
        · exact hz
        · exact hzs.2 e he
      · intro i hi j hj
        cases i with
        | zero => simpa using hzv j hj
        | succ i => simpa using hzsv i (by omega) j hj


theorem two_unit {p : Nat} (h : PrimeOk p) : (2 : ZMod p) * (((p + 1) / 2 : Nat) : ZMod p) = 1 := by
  have h2 : 2 * ((p + 1) / 2) = p + 1 := by have := h.odd; omega
  have : ((2 * ((p + 1) / 2) : Nat) : ZMod p) = ((p + 1 : Nat) : ZMod p) := by rw [h2]
  push_cast at this
  rw [this, ZMod.natCast_self, zero_add]

open Ymq.Dft in
/-- **the transform pipeline of `convolve_modn_ntt` is the cyclic convolution per prime**: forward
`ntt_inplace` of both (bit-reversed) residue vectors, `mul`, the bit-reversal swap loop, inverse
`ntt_inplace`: no panic site, reduced residues, and residue `j` of element `i` of the result is
`Σ_a x_a·y_((i-a) mod 2^K)` in `ZMod p_j`, where `x_t`, `y_t` are the residues at the bit-reversed
positions of the inputs -/
theorem nttPipeline_spec (n logsize : Nat) (m : Mzp) (hm : new n logsize = some m) (hK : m.k ≤ 31)
    (K : Nat) (h1 : 1 ≤ K) (hk : K ≤ m.k) (f1 f2 : List (List Nat)) (hf1 : VecOk m f1 (2 ^ K))
    (hf2 : VecOk m f2 (2 ^ K)) :
    ∃ rts g1 g2 h r, rootsPacked m = some rts ∧ nttInplace m rts K f1 0 true = some g1 ∧
      nttInplace m rts K f2 0 true = some g2 ∧ mulV m g1 g2 = some h ∧
      nttInplace m rts K (swapLoop K (2 ^ K) 0 h) 0 false = some r ∧ VecOk m r (2 ^ K) ∧
      ∀ j, j < m.w → ∀ i, i < 2 ^ K →
        mfe m (r.getD i []) j =
          cyc (2 ^ K) (fun t => mfe m (f1.getD (bitrev K t) []) j) (fun t => mfe m (f2.getD (bitrev K t) []) j) i := by
  have ht := tabOk_of_new n logsize m hm
  obtain ⟨rts, erts, hr⟩ := rootsPacked_ok n logsize m hm hK
  obtain ⟨g1, e1, hg1, s1⟩ := nttInplace_spec m ht rts _ hr true K f1 0 h1 hk hf1 (by omega)
  obtain ⟨g2, e2, hg2, s2⟩ := nttInplace_spec m ht rts _ hr true K f2 0 h1 hk hf2 (by omega)
  obtain ⟨h, e3, hh, s3⟩ := mulV_spec m ht g1 g2 (2 ^ K) hg1 hg2
  obtain ⟨lsw, ssw⟩ := swapLoop_spec K h hh.1 (2 ^ K) 0 h (by omega) hh.1 (by
    intro t _; rw [if_neg (by omega)])
  have hsw : VecOk m (swapLoop K (2 ^ K) 0 h) (2 ^ K) := by
    refine ⟨lsw, ?_⟩
    intro e he
    obtain ⟨t, ht', rfl⟩ := List.getElem_of_mem he
    have ht2 : t < 2 ^ K := by rw [← lsw]; exact ht'
    have := ssw t ht2
    rw [List.getD_eq_getElem?_getD, List.getElem?_eq_getElem ht'] at this
    simp only [Option.getD_some] at this
    rw [this]
    exact hh.getD _ (bitrev_lt K t)
  obtain ⟨r, e4, hrr, s4⟩ := nttInplace_spec m ht rts _ hr false K _ 0 h1 hk hsw (by omega)
  refine ⟨rts, g1, g2, h, r, erts, e1, e2, e3, e4, hrr, ?_⟩
  intro j hj i hi
  have hpo := ht j hj
  have hω := hr.half j K true hj h1 hk
  have hω' := hr.half j K false hj h1 hk
  have hinv := hr.inv j K hj h1 hk
  have hout := s4 j hj i hi
  simp only [Bool.false_eq_true, if_false, Nat.zero_add] at hout
  have hs1 := s1 j hj
  have hs2 := s2 j hj
  simp only [if_true, mul_one] at hs1 hs2
  have hcong : fftRec K (omk m j K false) (fun t => mfe m ((swapLoop K (2 ^ K) 0 h).getD (bitrev K t) []) j) i =
      fftRec K (omk m j K false) (fun u =>
        fftRec K (omk m j K true) (fun t => mfe m (f1.getD (bitrev K t) []) j) u *
        fftRec K (omk m j K true) (fun t => mfe m (f2.getD (bitrev K t) []) j) u) i := by
    rw [fftRec_eq_dft K _ (Or.inr hω') _ i hi, fftRec_eq_dft K _ (Or.inr hω') _ i hi]
    apply dft_congr
    intro u hu
    rw [ssw _ (bitrev_lt K u), bitrev_invol K u hu, s3 u hu j hj, hs1 u hu, hs2 u hu]
  rw [hcong, fft_mul_eq_cyc K _ _ (Or.inr hω) (by omega) hinv _ _ i hi] at hout
  have h2 := two_unit hpo
  have hcancel : ((((P m j + 1) / 2 : Nat) : ZMod (P m j)) ^ K) * 2 ^ K = 1 := by
    rw [← mul_pow, mul_comm, h2, one_pow]
  set c := (((P m j + 1) / 2 : Nat) : ZMod (P m j)) ^ K with hc
  calc mfe m (r.getD i []) j = (c * 2 ^ K) * mfe m (r.getD i []) j := by rw [hcancel, one_mul]
    _ = c * (mfe m (r.getD i []) j * 2 ^ K) := by ring
    _ = c * (2 ^ K * cyc (2 ^ K) _ _ i) := by rw [hout]
    _ = (c * 2 ^ K) * cyc (2 ^ K) _ _ i := by ring
    _ = _ := by rw [hcancel, one_mul]

end Ymq.Crt
