/-
C14 "small", helper lemmas part 19 (Mathlib): Montgomery's three-term property derived from an
extended invariant `VInv` that adds the directions `V_m` to the ghost history.  What is proved here:
`VInv` (with `LInv`) IMPLIES the hypothesis `h3` of the checked inductive step.
-/
import Ymq.Lemmas.Gf2SmallLoopRun

namespace Ymq.Gf2Small
open Ymq.Gf2 Ymq.Gf2Genblock Ymq.Gf2Lanczos
open scoped Matrix

/-- the vectors not selected in any of the blocks `m, …, t-1`: `!S_m & … & !S_{t-1}` -/
def pc (Ss : List Nat) (m t : Nat) : Nat :=
  (List.range' m (t - m)).foldl (fun a l => a &&& (M64 ^^^ Ss.getD l 0)) M64

theorem foldl_and_zero (l : List Nat) (f : Nat → Nat) : l.foldl (fun a x => a &&& f x) 0 = 0 := by
  induction l with
  | nil => rfl
  | cons x l ih => simp [ih]

theorem foldl_and_assoc (l : List Nat) (f : Nat → Nat) (a b : Nat) :
    l.foldl (fun a x => a &&& f x) (a &&& b) = a &&& l.foldl (fun a x => a &&& f x) b := by
  induction l generalizing b with
  | nil => rfl
  | cons x l ih => simp only [List.foldl_cons, Nat.and_assoc, ih]

/-- peeling the first block: if nothing is left after `m+1, …` nothing is left after `m, …` -/
theorem pc_left_zero (Ss : List Nat) {m t : Nat} (hmt : m < t) (h : pc Ss (m + 1) t = 0) : pc Ss m t = 0 := by
  unfold pc at h ⊢
  rw [show t - m = (t - (m + 1)) + 1 by omega, List.range'_succ, List.foldl_cons,
    Nat.and_comm, foldl_and_assoc, h, Nat.and_zero]

theorem projS_zero : projS 0 = 0 := by
  rw [projS, ← Matrix.diagonal_zero]
  congr 1
  funext t
  rw [Nat.zero_testBit]; rfl

theorem pc_self (Ss : List Nat) (m : Nat) : pc Ss m m = M64 := by
  simp [pc]

theorem pc_succ (Ss : List Nat) {m t : Nat} (hmt : m ≤ t) :
    pc Ss m (t + 1) = pc Ss m t &&& (M64 ^^^ Ss.getD t 0) := by
  unfold pc
  rw [show t + 1 - m = (t - m) + 1 by omega, List.range'_concat, List.foldl_append]
  simp only [List.foldl_cons, List.foldl_nil]
  rw [show m + 1 * (t - m) = t by omega]

theorem pc_append (Ss : List Nat) (x : Nat) {m t : Nat} (ht : t ≤ Ss.length) :
    pc (Ss ++ [x]) m t = pc Ss m t := by
  unfold pc
  apply List.foldl_ext
  intro a l hl
  rw [List.mem_range'] at hl
  obtain ⟨i, hi, rfl⟩ := hl
  rw [getD_append_singleton, if_pos (by omega)]

theorem projS_and (a b : Nat) : projS (a &&& b) = projS a * projS b := by
  rw [projS, projS, projS, Matrix.diagonal_mul_diagonal]
  congr 1
  funext t
  rw [Nat.testBit_and]
  cases a.testBit t.1 <;> cases b.testBit t.1 <;> decide

theorem projS_compl (S : Nat) : projS (M64 ^^^ S) = 1 - projS S := by
  rw [projS, projS, ← Matrix.diagonal_one, Matrix.diagonal_sub]
  congr 1
  funext t
  have : M64.testBit t.1 = true := by
    rw [M64, Nat.testBit_two_pow_sub_one]; simp [t.2]
  rw [Nat.testBit_xor, this]
  cases S.testBit t.1 <;> decide

theorem foldlM_masks (masks : List Nat) (cnt : Nat) : ∀ (s a : Nat), 1 ≤ s → s - 1 + cnt ≤ masks.length →
    (List.range' s cnt).foldlM (fun m k => match masks[k - 1]? with
      | none => none
      | some x => some (m &&& x)) a =
    some ((List.range' (s - 1) cnt).foldl (fun a l => a &&& masks.getD l 0) a) := by
  induction cnt with
  | zero => intro s a _ _; rfl
  | succ cnt ih =>
    intro s a hs hle
    rw [List.range'_succ, List.foldlM_cons, List.range'_succ, List.foldl_cons]
    have hlt : s - 1 < masks.length := by omega
    rw [List.getElem?_eq_getElem hlt]
    have hg : masks.getD (s - 1) 0 = masks[s - 1] := by
      simp [List.getD_eq_getElem?_getD, List.getElem?_eq_getElem hlt]
    rw [hg]
    have := ih (s + 1) (a &&& masks[s - 1]) (by omega) (by omega)
    rw [show s + 1 - 1 = s - 1 + 1 by omega] at this
    exact this

/-- the mask computed by the code is the ghost mask: `masks[l] = !S_l` for `l ≥ 1` -/
theorem maskFor_eq_pc {masks Ss : List Nat} {L j : Nat} (hL : masks.length = L) (hj : j < L)
    (hrel : ∀ l, 1 ≤ l → l < L → masks.getD l 0 = M64 ^^^ Ss.getD l 0) :
    maskFor masks j L = some (pc Ss (j + 1) (L - 1)) := by
  unfold maskFor pc
  refine Eq.trans (foldlM_masks masks _ (j + 2) M64 (by omega) (by omega)) ?_
  congr 1
  rw [show j + 2 - 1 = j + 1 by omega, show L - (j + 2) = L - 1 - (j + 1) by omega]
  apply List.foldl_ext
  intro a l hl
  rw [List.mem_range'] at hl
  obtain ⟨i, hi, rfl⟩ := hl
  rw [hrel _ (by omega) (by omega)]

/-- Extended invariant: `vhist` lists every direction `V_m`; `L = st.ws.length`, `i = L - 1`.
* `recur`: the recurrence `V_{j+1} = A·W_j + V_j + Σ_{l ≤ j} W_l c_l`, read against any block `X`
  A-orthogonal to `W_0 … W_j`;
* `cc`, `dd`: against a block `X` A-orthogonal to `W_0 … W_{i-1}`, the vectors of `V_m` not selected in the
  blocks `m … i-1` are those of `V_i`, the selected ones vanish;
* `masksRel`, `purged`: `masks[l] = !S_l`, and a purged block has `!S_{j+1} & … & !S_{i-1} = 0`
  (the purge condition `mask == 0`). -/
structure VInv (k : Nat) (cols : List (List Nat)) (st : LState) (hist vhist : List (List Nat)) (Ss : List Nat) :
    Prop where
  lenVh : vhist.length = st.ws.length
  lastW : st.ws.getLast? = some (hist.getD (st.ws.length - 1) [])
  lastV : st.vs.getLast? = some (vhist.getD (st.ws.length - 1) [])
  wvLast : CM cols.length (hist.getD (st.ws.length - 1) []) =
    CM cols.length (vhist.getD (st.ws.length - 1) []) * projS (Ss.getD (st.ws.length - 1) 0)
  vOrth : ∀ l, l + 1 < st.ws.length → Q k cols (hist.getD l []) (vhist.getD (st.ws.length - 1) []) = 0
  recur : ∀ j, j + 1 < st.ws.length → ∀ X, BlockOK cols.length X → (∀ l, l ≤ j → Q k cols X (hist.getD l []) = 0) →
    (CM cols.length X)ᵀ * gramA k cols * (gramA k cols * CM cols.length (hist.getD j [])) =
      Q k cols X (vhist.getD (j + 1) []) + Q k cols X (vhist.getD j [])
  cc : ∀ m, m < st.ws.length → ∀ X, BlockOK cols.length X →
    (∀ l, l + 1 < st.ws.length → Q k cols X (hist.getD l []) = 0) →
    Q k cols X (vhist.getD m []) * projS (pc Ss m (st.ws.length - 1)) =
      Q k cols X (vhist.getD (st.ws.length - 1) []) * projS (pc Ss m (st.ws.length - 1))
  dd : ∀ m, m < st.ws.length → ∀ X, BlockOK cols.length X →
    (∀ l, l + 1 < st.ws.length → Q k cols X (hist.getD l []) = 0) →
    Q k cols X (vhist.getD m []) * (1 - projS (pc Ss m (st.ws.length - 1))) = 0
  masksRel : ∀ l, 1 ≤ l → l < st.ws.length → st.masks.getD l 0 = M64 ^^^ Ss.getD l 0
  purged : ∀ (j : Nat) (w : List Nat), st.ws[j]? = some w → w.isEmpty = true →
    j + 1 < st.ws.length ∧ pc Ss (j + 1) (st.ws.length - 1) = 0

theorem M64_ne_zero : M64 ≠ 0 := by decide

/-- a block that is no longer projected has `!S_{j+1} & … & !S_{i-1} = 0` -/
theorem VInv.notProj {k : Nat} {cols : List (List Nat)} {st : LState} {hist vhist : List (List Nat)} {Ss : List Nat}
    (hV : VInv k cols st hist vhist Ss) (hMk : st.masks.length = st.ws.length) :
    ∀ j, j < st.ws.length → ¬ Projected st.ws st.masks st.ws.length j →
      j + 1 < st.ws.length ∧ pc Ss (j + 1) (st.ws.length - 1) = 0 := by
  intro j hj hnp
  have hgD : st.ws.getD j [] = st.ws[j]'hj := by
    simp [List.getD_eq_getElem?_getD, List.getElem?_eq_getElem hj]
  by_cases he : (st.ws[j]'hj).isEmpty = true
  · exact hV.purged j _ (List.getElem?_eq_getElem hj) he
  · have hm := maskFor_eq_pc (Ss := Ss) hMk hj hV.masksRel
    have h0 : maskFor st.masks j st.ws.length = some 0 := by
      apply Classical.byContradiction
      intro hne
      exact hnp ⟨by rw [hgD]; simpa using he, hne⟩
    rw [hm] at h0
    injection h0 with h0
    refine ⟨?_, h0⟩
    apply Classical.byContradiction
    intro hlt
    have : pc Ss (j + 1) (st.ws.length - 1) = M64 := by
      unfold pc
      rw [show st.ws.length - 1 - (j + 1) = 0 by omega]; rfl
    rw [this] at h0
    exact M64_ne_zero h0

/-- Montgomery's three-term property: the blocks that are no longer projected are A-orthogonal to the
new direction `A·W_i ^ V_i` -/
theorem three_term_of_VInv {k : Nat} {cols : List (List Nat)} (hM : MatOK k cols) {Y0 : List Nat} {st : LState}
    {hist vhist : List (List Nat)} {Ss : List Nat} (hInv : LInv k cols Y0 st hist Ss)
    (hV : VInv k cols st hist vhist Ss) :
    ∀ next0, Direction k cols st next0 → ∀ j, j < st.ws.length →
      ¬ Projected st.ws st.masks st.ws.length j → Q k cols (hist.getD j []) next0 = 0 := by
  rintro next0 ⟨wl, pv, nx, hwl, hpv, hnx, rfl⟩ j hj hnp
  obtain ⟨hj1, hpc⟩ := hV.notProj hInv.wf.lenM j hj hnp
  -- the last blocks
  have ewl : wl = hist.getD (st.ws.length - 1) [] := by
    have := hV.lastW; rw [hwl] at this; injection this
  have epv : pv = vhist.getD (st.ws.length - 1) [] := by
    have := hV.lastV; rw [hpv] at this; injection this
  obtain ⟨wl', hwl', hwlOK⟩ := hInv.wf.lastW
  have : wl' = wl := by rw [hwl] at hwl'; injection hwl' with e; exact e.symm
  subst this
  obtain ⟨pv', hpv', hpvOK⟩ := hInv.wf.lastV
  have : pv' = pv := by rw [hpv] at hpv'; injection hpv' with e; exact e.symm
  subst this
  obtain ⟨nx', hnx', hnxOK⟩ := mulAabOpt_ok hM hwlOK
  have : nx' = nx := by rw [hnx] at hnx'; injection hnx' with e; exact e.symm
  subst this
  -- X = W_i is A-orthogonal to the earlier blocks
  have hXorth : ∀ l, l + 1 < st.ws.length → Q k cols wl' (hist.getD l []) = 0 := by
    intro l hl
    rw [ewl]
    exact hInv.orth (st.ws.length - 1) l (by omega) (by omega) (by omega)
  have hpcj : pc Ss j (st.ws.length - 1) = 0 := pc_left_zero Ss (by omega) hpc
  have d1 : Q k cols wl' (vhist.getD (j + 1) []) = 0 := by
    have := hV.dd (j + 1) hj1 wl' hwlOK hXorth
    rwa [hpc, projS_zero, sub_zero, Matrix.mul_one] at this
  have d0 : Q k cols wl' (vhist.getD j []) = 0 := by
    have := hV.dd j hj wl' hwlOK hXorth
    rwa [hpcj, projS_zero, sub_zero, Matrix.mul_one] at this
  have hr := hV.recur j hj1 wl' hwlOK (fun l hl => hXorth l (by omega))
  rw [d1, d0, add_zero] at hr
  -- the direction
  show (CM cols.length (hist.getD j []))ᵀ * gramA k cols *
    cellMat (List.zipWith (fun a p => a ^^^ p) nx' pv').toArray cols.length = 0
  rw [cellMat_zipWith_xor hnxOK.1 hpvOK.1, cellMat_aab hM hnx, Matrix.mul_add]
  have h2 : (CM cols.length (hist.getD j []))ᵀ * gramA k cols * cellMat pv'.toArray cols.length = 0 := by
    have := hV.vOrth j hj1
    rw [← epv] at this
    exact this
  have h1 : (CM cols.length (hist.getD j []))ᵀ * gramA k cols * (gramA k cols * cellMat wl'.toArray cols.length) = 0 := by
    have := congrArg Matrix.transpose hr
    simp only [Matrix.transpose_mul, Matrix.transpose_transpose, gramA_symm, Matrix.transpose_zero,
      Matrix.mul_assoc] at this
    simp only [Matrix.mul_assoc]
    exact this
  rw [h1, h2, add_zero]

/-- the checked inductive step with the three-term hypothesis discharged by `VInv` -/
theorem lanczosStep_checked_of_VInv {k : Nat} {cols : List (List Nat)} (hM : MatOK k cols) {Y0 ay : List Nat}
    (hay : mulAabOpt (qsOptimize k cols) Y0 = some ay) (hayOK : BlockOK cols.length ay)
    {st : LState} {hist vhist : List (List Nat)} {Ss : List Nat} (hInv : LInv k cols Y0 st hist Ss)
    (hV : VInv k cols st hist vhist Ss) :
    (∃ st', lanczosStep true (qsOptimize k cols) ay st = .finished st' ∧ st'.y = st.y ∧
      ∀ w ∈ st'.ws, w.isEmpty = false → ∃ j : Nat, st.ws[j]? = some w) ∨
    (∃ st' mk w, lanczosStep true (qsOptimize k cols) ay st = .continue st' mk ∧
      LInv k cols Y0 st' (hist ++ [w]) (Ss ++ [mk]) ∧ ∃ next next0, StepFacts k cols st hist st' mk w next next0) :=
  lanczosStep_checked_ok hM hay hayOK hInv (three_term_of_VInv hM hInv hV)

end Ymq.Gf2Small
