/-
C03 / C01 for `squfof::squfof` (src/squfof.rs), the sub-algorithm behind `Algo::Squfof`:
the model `Ymq.Squfof.squfof` (Ymq/Model/Squfof.lean, every overflow / underflow / division /
assertion site of the checked profile is a `none`) never panics on what `factor()` hands over,
and every pair it returns is a proper split.

The only parameter is the floating point seed of `isqrt`, `(m as f64).sqrt() as u64`: all theorems
that need it hold for EVERY seed within 1 of the floor square root (`SeedOK`, named hypothesis;
an IEEE-754 fact checked by the `squfof_seed` stream), and the run does not depend on which
admissible seed is used (`squfof_seed_irrelevant`).

FINDING (direct calls only): `squfof(n)` divides by zero (squfof.rs:33, both profiles) as soon as
a round `k ≥ 2` is reached with `n·k` a perfect square: `n = 2, 3, 5, …, 47` (every prime ≤ 47),
`50 = 2·5²`, `6000163058 = 2·54773²`, …  The guard `nsqrt * nsqrt == n` (squfof.rs:17) compares
with `n`, not `n·k`, so it protects round 1 only. Not reachable from `factor()`: trial division
removes the primes ≤ 199 first and `n·k` (k ≤ 50) square forces a prime factor ≤ 47 of a
non-square `n` (`squfof_no_panic_reachable`). Hence `squfof_no_panic_partial` + exact set
(`squfof_panic_iff`) + counter-witnesses instead of the full `squfof_no_panic`.
-/
import Ymq.Lemmas.SqufofTop
import Ymq.Lemmas.FactorClosed
import Ymq.Lemmas.FactorClosedExample
import Mathlib.Algebra.GCDMonoid.Nat
import Mathlib.Data.Nat.Prime.Basic

namespace Ymq.C03Squfof
open Ymq.Squfof

/-- **isqrt**: from every admissible seed `squfof::isqrt` returns the floor square root; in
particular its `n / r` never divides by zero, `r - 1` never underflows, the loop stops within the
8 iterations the model allows (3 suffice). Closes the termination gap left open in C08. -/
theorem isqrt_total {seed : Nat → Nat} (hs : SeedOK seed) {m : Nat} (hm : m < 2 ^ 64) :
    isqrt seed m = some (Nat.sqrt m) :=
  isqrt_eq hs hm

/-- the run is the same for every admissible seed -/
theorem squfof_seed_irrelevant {seed seed' : Nat → Nat} (hs : SeedOK seed) (hs' : SeedOK seed')
    (n : Nat) : squfof seed n = squfof seed' n :=
  kLoop_seed hs hs' n 50 1

/-- **C01, soundness** (every seed, every `n`, no hypothesis): a returned pair multiplies to `n`
and its first component exceeds 1 unless `n < 2` (`squfof(0) = (0, 0)`, `squfof(1) = (1, 1)`:
the square test of round 1). -/
theorem squfof_sound (seed : Nat → Nat) (n a b : Nat) (h : squfof seed n = some (some (a, b))) :
    a * b = n ∧ (2 ≤ n → 1 < a) := by
  obtain ⟨j, _, _, hres⟩ := kLoop_first n 50 1 _ h (by simp)
  rcases hres with ⟨h0, _⟩ | ⟨a', b', h1, h2⟩
  · simp at h0
  · injection h1 with h1; injection h1 with h1; injection h1 with ha hb
    subst ha hb
    obtain ⟨e, g⟩ := attempt_ret h2
    refine ⟨e, fun hn => ?_⟩
    rcases g with ⟨_, g⟩ | g
    · rcases Nat.lt_or_ge 1 a with h | h
      · exact h
      · have : a = 0 ∨ a = 1 := by omega
        rcases this with rfl | rfl <;> omega
    · exact g

/-- the shape of every returned pair: the two exits named in Lemmas/FactorClosed.lean, with the
fact `0 < p_prev < n` at the gcd exit PROVED (it was a named premise there). The round that
returns has `k < n`: round `k = n` would divide by zero first. -/
theorem squfof_exit {seed : Nat → Nat} (hs : SeedOK seed) {n a b : Nat}
    (h : squfof seed n = some (some (a, b))) : Ymq.Factor.SqufofExit n a b := by
  rcases Nat.lt_or_ge n 2 with hn2 | hn
  · -- n = 0, 1: the square test of round 1
    have hsq : Nat.sqrt n * Nat.sqrt n = n := by
      rcases (by omega : n = 0 ∨ n = 1) with rfl | rfl
      · rw [← (Nat.eq_sqrt (n := 0) (a := 0)).2 ⟨by decide, by decide⟩]
      · rw [← (Nat.eq_sqrt (n := 1) (a := 1)).2 ⟨by decide, by decide⟩]
    have h1 : attempt seed n 1 = some (.ret (Nat.sqrt n) (Nat.sqrt n)) := by
      rw [attempt_eq hs (by unfold W; omega), Nat.mul_one, if_pos hsq]
    unfold squfof at h
    rw [kLoop, h1] at h
    injection h with h; injection h with h; injection h with ha hb
    exact .square _ hsq ha.symm hb.symm
  obtain ⟨j, hj, hnext, hres⟩ := kLoop_first n 50 1 _ h (by simp)
  rcases hres with ⟨h0, _⟩ | ⟨a', b', h1, h2⟩
  · simp at h0
  injection h1 with h1; injection h1 with h1; injection h1 with ha hb
  subst ha hb
  -- the returning round has k = 1 + j < n
  have hkn : 1 + j < n := by
    by_contra hc
    have hpan : attempt seed n n = none := by
      apply attempt_square_panic hs (by omega)
      · have : n * n ≤ 50 * 50 := Nat.mul_le_mul (by omega) (by omega)
        unfold W; omega
      · rw [Nat.sqrt_eq]
      · intro he
        have : n * 2 ≤ n * n := Nat.mul_le_mul_left n hn
        omega
    rcases Nat.lt_or_ge (n - 1) j with hlt | hge
    · have := hnext (n - 1) hlt
      rw [show 1 + (n - 1) = n by omega, hpan] at this
      simp at this
    · have : 1 + j = n := by omega
      rw [this, hpan] at h2
      simp at h2
  rcases Nat.lt_or_ge (n * (1 + j)) W with hlt | hge
  · by_cases hsq : Nat.sqrt (n * (1 + j)) * Nat.sqrt (n * (1 + j)) = n * (1 + j)
    · -- a perfect square: either the square exit of round 1 or a panic
      by_cases he : n * (1 + j) = n
      · rw [attempt_eq hs hlt, if_pos (by omega)] at h2
        injection h2 with h2; injection h2 with ha hb
        exact .square _ (by omega) ha.symm hb.symm
      · rw [attempt_square_panic hs (by omega) hlt hsq he] at h2
        simp at h2
    · obtain ⟨r, hr, hcase⟩ := attempt_nonsquare hs hlt hsq
      rw [hr] at h2
      injection h2 with h2
      subst h2
      rcases hcase with ⟨hret, hsqn⟩ | hg
      · injection hret with ha hb
        exact .square _ hsqn ha hb
      · rcases hg with hg | ⟨pf, hp1, hp2, hg1, hret⟩
        · simp at hg
        · injection hret with ha hb
          have hlt2 : Nat.sqrt (n * (1 + j)) < n := by
            rw [Nat.sqrt_lt]
            exact Nat.mul_lt_mul_of_pos_left hkn (by omega)
          subst ha hb
          exact .gcd pf hp1 (by omega) rfl hg1 rfl
  · rw [attempt_stop hge] at h2
    simp at h2

/-- **C01, proper split**: for every `n ≥ 2` a returned pair is a factorisation into two factors
strictly between 1 and `n` (no hypothesis on the size of `n`: the trivial split `a = n` would need
a round `k > n`, and round `k = n` panics before). -/
theorem squfof_proper {seed : Nat → Nat} (hs : SeedOK seed) {n a b : Nat} (hn : 2 ≤ n)
    (h : squfof seed n = some (some (a, b))) :
    a * b = n ∧ 1 < a ∧ a < n ∧ 1 < b ∧ b < n := by
  have hp := (squfof_exit hs h).pairOK hn
  obtain ⟨h1, h2, h3⟩ := hp
  refine ⟨h1, h2, ?_, h3, ?_⟩
  · rcases Nat.lt_or_ge a n with h | h
    · exact h
    · have : n * 2 ≤ a * b := Nat.mul_le_mul h h3
      omega
  · rcases Nat.lt_or_ge b n with h | h
    · exact h
    · have : 2 * n ≤ a * b := Nat.mul_le_mul h2 h
      omega

/-- the model as the `squfof` field of the oracle record of Model/Factor.lean (a panic of the
model is not representable there and is mapped to `None`; `squfof_no_panic_reachable` shows it does
not occur on what `factor()` hands over) -/
def squfofField (seed : Nat → Nat) {σ : Type} (t : σ) (n : Nat) : Option (Nat × Nat) × σ :=
  ((squfof seed n).getD none, t)

/-- **C01 link**: an oracle whose `squfof` field is the model satisfies `UsesSqufofExit`, the
premise of the closed factor theorems (Props/C01Closed.lean) that was justified by K/O only;
the named fact `0 < p_prev < n` of `SqufofExit.gcd` is discharged by the invariant. -/
theorem squfof_uses_exit {seed : Nat → Nat} (hs : SeedOK seed) {σ : Type} (o : Ymq.Factor.Oracle σ)
    (ho : ∀ t n, (o.squfof t n).1 = (squfofField seed t n).1) : Ymq.Factor.UsesSqufofExit o := by
  intro t n a b h
  rw [ho] at h
  unfold squfofField at h
  cases hr : squfof seed n with
  | none => rw [hr] at h; simp at h
  | some r =>
    rw [hr] at h
    simp only [Option.getD_some] at h
    subst h
    exact squfof_exit hs hr

/-- **exactly when round `k` panics**: `n·k` fits in 64 bits, is a perfect square and is not `n`
itself (i.e. `k ≥ 2`, `n ≥ 1`): `q = nk − nsqrt² = 0` and squfof.rs:33 divides by it. Every other
round meets no overflow, underflow, division by zero or failed assertion. -/
theorem attempt_panic_iff {seed : Nat → Nat} (hs : SeedOK seed) {n k : Nat} (hk : 1 ≤ k) :
    attempt seed n k = none ↔ n * k < 2 ^ 64 ∧ IsSquare (n * k) ∧ n * k ≠ n := by
  rw [attempt_none_iff hs hk]
  have e : IsSquare (n * k) ↔ Nat.sqrt (n * k) * Nat.sqrt (n * k) = n * k := by
    rw [← Nat.exists_mul_self]
    constructor
    · rintro ⟨r, hr⟩; exact ⟨r, hr.symm⟩
    · rintro ⟨r, hr⟩; exact ⟨r, hr.symm⟩
  rw [e]
  rfl

/-- **exactly when `squfof(n)` panics**: some round `2 ≤ k ≤ 50` is reached (all earlier rounds
`continue`) with `n·k < 2^64` a perfect square. -/
theorem squfof_panic_iff {seed : Nat → Nat} (hs : SeedOK seed) (n : Nat) :
    squfof seed n = none ↔
      ∃ k, 2 ≤ k ∧ k ≤ 50 ∧ 0 < n ∧ n * k < 2 ^ 64 ∧ IsSquare (n * k) ∧
        ∀ j, 1 ≤ j → j < k → attempt seed n j = some .next := by
  constructor
  · intro h
    obtain ⟨j, hj, hnext, hres⟩ := kLoop_first n 50 1 _ h (by simp)
    rcases hres with ⟨_, h0⟩ | ⟨a', b', h1, _⟩
    · obtain ⟨p1, p2, p3⟩ := (attempt_panic_iff hs (by omega)).1 h0
      have hj0 : j ≠ 0 := by
        rintro rfl
        simp at p3
      have hn0 : 0 < n := by
        rcases Nat.eq_zero_or_pos n with rfl | h
        · simp at p3
        · exact h
      refine ⟨1 + j, by omega, by omega, hn0, p1, p2, ?_⟩
      intro i hi1 hi2
      have := hnext (i - 1) (by omega)
      rwa [show 1 + (i - 1) = i by omega] at this
    · simp at h1
  · rintro ⟨k, hk2, hk50, hn0, hlt, hsq, hnext⟩
    apply kLoop_none_of n 50 1 (k - 1) (by omega)
    · rw [show 1 + (k - 1) = k by omega]
      apply (attempt_panic_iff hs (by omega)).2 ⟨hlt, hsq, ?_⟩
      intro he
      have : n * 2 ≤ n * k := Nat.mul_le_mul_left n hk2
      omega
    · intro i hi
      exact hnext (1 + i) (by omega) (by omega)

/-- **C03, no panic (partial: the excluded set is exact by `squfof_panic_iff`)**: `squfof(n)` meets
no panic site whenever `n` is a perfect square or no `n·k`, `2 ≤ k ≤ 50`, `n·k < 2^64`, is one.
The full statement (every `n < 2^64`) is FALSE: `squfof_panics_on_2`,
`squfof_panics_on_small_primes`, `squfof_panics_on_50`, `squfof_panics_on_6000163058`. -/
theorem squfof_no_panic_partial {seed : Nat → Nat} (hs : SeedOK seed) (n : Nat)
    (h : IsSquare n ∨ ∀ k, 2 ≤ k → k ≤ 50 → n * k < 2 ^ 64 → ¬ IsSquare (n * k)) :
    ∃ r, squfof seed n = some r := by
  cases hr : squfof seed n with
  | some r => exact ⟨r, rfl⟩
  | none =>
    exfalso
    obtain ⟨k, hk2, hk50, hn0, hlt, hsq, hnext⟩ := (squfof_panic_iff hs n).1 hr
    rcases h with hsqn | h
    · -- n a perfect square: round 1 returns, it does not `continue`
      have h1 := hnext 1 (by omega) (by omega)
      obtain ⟨r, hr⟩ := hsqn
      have hlt1 : n * 1 < W := by
        have : n * 1 ≤ n * k := Nat.mul_le_mul_left n (by omega)
        unfold W; omega
      rw [attempt_eq hs hlt1, Nat.mul_one, if_pos (by rw [hr, Nat.sqrt_eq])] at h1
      simp at h1
    · exact h k hk2 hk50 hlt hsq

/-- **C03, no panic on everything `factor()` hands over**: `factor()` divides out the primes
≤ 199 before any algorithm runs (lib.rs:184-198), so the argument of `squfof::squfof` has no prime
factor ≤ 47; then no `n·k` with `k ≤ 50` is a perfect square unless `n` is one. -/
theorem squfof_no_panic_reachable {seed : Nat → Nat} (hs : SeedOK seed) (n : Nat)
    (hsmall : ∀ p, Nat.Prime p → p ≤ 47 → ¬ p ∣ n) : ∃ r, squfof seed n = some r := by
  by_cases hsqn : IsSquare n
  · exact squfof_no_panic_partial hs n (Or.inl hsqn)
  · apply squfof_no_panic_partial hs n (Or.inr ?_)
    intro k hk2 hk50 _ hsq
    apply hsqn
    -- n and k are coprime
    have hcop : Nat.Coprime n k := by
      rw [Nat.coprime_iff_gcd_eq_one, ← Nat.coprime_iff_gcd_eq_one]
      by_contra hnc
      obtain ⟨p, hp, hpn, hpk⟩ := Nat.Prime.not_coprime_iff_dvd.1 hnc
      have hple : p ≤ 50 := Nat.le_trans (Nat.le_of_dvd (by omega) hpk) hk50
      have hp47 : p ≤ 47 := by
        rcases (by omega : p ≤ 47 ∨ p = 48 ∨ p = 49 ∨ p = 50) with h | rfl | rfl | rfl
        · exact h
        · exact absurd hp (by decide)
        · exact absurd hp (by decide)
        · exact absurd hp (by decide)
      exact hsmall p hp hp47 hpn
    obtain ⟨c, hc⟩ := hsq
    have hu : IsUnit (gcd n k) := by
      rw [show gcd n k = Nat.gcd n k from rfl, hcop]
      exact isUnit_one
    obtain ⟨d, hd⟩ := exists_eq_pow_of_mul_eq_pow hu (show n * k = c ^ 2 by rw [hc]; ring)
    exact ⟨d, by rw [hd]; ring⟩

/-! ### counter-witnesses to the full statement (evaluated with the exact seed, transferred to
every admissible seed) -/

theorem squfof_panics_on_2 {seed : Nat → Nat} (hs : SeedOK seed) : squfof seed 2 = none := by
  rw [squfof_seed_irrelevant hs exactSeed_ok]
  decide +kernel

/-- every prime `p ≤ 47`: rounds `k < p` cannot split a prime, round `k = p` divides by zero -/
theorem squfof_panics_on_small_primes {seed : Nat → Nat} (hs : SeedOK seed) :
    ∀ p ∈ [2, 3, 5, 7, 11, 13, 17, 19, 23, 29, 31, 37, 41, 43, 47], squfof seed p = none := by
  intro p hp
  rw [squfof_seed_irrelevant hs exactSeed_ok]
  revert p
  decide +kernel

/-- a composite: `50 = 2·5²`, round 1 fails, round 2 has `nk = 100` -/
theorem squfof_panics_on_50 {seed : Nat → Nat} (hs : SeedOK seed) : squfof seed 50 = none := by
  rw [squfof_seed_irrelevant hs exactSeed_ok]
  decide +kernel

/-- a 33-bit composite without tiny structure: `6000163058 = 2·54773²` -/
theorem squfof_panics_on_6000163058 {seed : Nat → Nat} (hs : SeedOK seed) :
    squfof seed 6000163058 = none := by
  rw [squfof_seed_irrelevant hs exactSeed_ok]
  decide +kernel

/-! ### non-vacuity -/

/-- the seed hypothesis is satisfiable -/
example : SeedOK exactSeed := exactSeed_ok

/-- success in round 1 (the first number of the repository's own test) -/
example : squfof exactSeed 11111 = some (some (41, 271)) := by decide +kernel

/-- success that needs a multiplier: `58447 = 211·277` in round `k = 2`, `61601 = 229·269` in
round `k = 6` (both are inputs `factor()` can hand over) -/
example : squfof exactSeed 58447 = some (some (211, 277)) := by decide +kernel
example : squfof exactSeed 61601 = some (some (229, 269)) := by decide +kernel

/-- the LAST multiplier: `163³` fails in rounds 1..49 and is split in round `k = 50` -/
example : squfof exactSeed 4330747 = some (some (163, 26569)) := by decide +kernel

/-- the square exit -/
example : squfof exactSeed 49729 = some (some (223, 223)) := by decide +kernel

/-- failure: a prime runs through all 50 multipliers -/
example : squfof exactSeed 10007 = some none := by decide +kernel

/-- the `checked_mul` break: `n·2 ≥ 2^64` after a failed round 1 would need a long run; the break
itself, on the first multiplier that overflows -/
example : attempt exactSeed 18446744073709551557 2 = some .stop := by decide +kernel

/-- the hypotheses of `squfof_no_panic_reachable` / `squfof_proper` hold for a concrete input -/
example : ∃ r, squfof exactSeed 58447 = some r :=
  squfof_no_panic_partial exactSeed_ok 58447 (Or.inr (by decide +kernel))

example : 211 * 277 = 58447 ∧ 1 < 211 ∧ 211 < 58447 ∧ 1 < 277 ∧ 277 < 58447 :=
  squfof_proper exactSeed_ok (by decide) (by decide +kernel : squfof exactSeed 58447 = some (some (211, 277)))

/-! ### the model inside the control-flow model of `factor()` -/

open Ymq.Factor Ymq.Factor.Closed in
/-- the model oracle of Props/C01Closed.lean with its `squfof` field (there: constantly `None`)
replaced by the SQUFOF model -/
def sqOracle : Oracle Unit := { modelOracle with squfof := squfofField exactSeed }

open Ymq.Factor Ymq.Factor.Closed in
example : UsesSqufofExit sqOracle := squfof_uses_exit exactSeed_ok sqOracle (fun _ _ => rfl)

open Ymq.Factor Ymq.Factor.Closed in
/-- every premise of the closed factor theorems holds for it -/
example : OracleOK sqOracle :=
  oracleOK_of_models_aux (o := sqOracle) model_pp model_finalStep model_qs64 model_rho model_pm1
    model_ecm (squfof_uses_exit exactSeed_ok sqOracle (fun _ _ => rfl)) model_unexpected
    ⟨model_residual.unexpectedNotWhole⟩

open Ymq.Factor in
/-- `factor(4·58447, Algo::Squfof)`: trial division, then the modelled SQUFOF splits 211·277 with
the multiplier `k = 2`, the modelled `pseudoprime` accepts both parts -/
example : factor sqOracle 20 233788 .squfof () = .ok [2, 2, 211, 277] := by decide +kernel

end Ymq.C03Squfof
