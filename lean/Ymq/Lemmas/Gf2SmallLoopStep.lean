/-
C14 "small", helper lemmas part 14 (Mathlib): the inductive steps of block Lanczos on the model:
* `right_inverse_on_support`: a left inverse on the `S × S` block is a right inverse;
* `projStep_checked_ok`: a projection of the checked profile (mask ≠ 0) passes its assertion
  `(A·W_j)ᵗ·next = 0` when `W_j` is masked by `S_j`, `invgs[j]` is the pseudo-inverse of `W_jᵗ A W_j`
  and the earlier projections did not change `W_jᵗ A next` (A-orthogonality of the kept blocks).
-/
import Ymq.Lemmas.Gf2SmallLoopMat

namespace Ymq.Gf2Small
open Ymq.Gf2 Ymq.Gf2Genblock Ymq.Gf2Lanczos
open scoped Matrix

theorem add_self_mat {m n : Type} (X : Matrix m n (ZMod 2)) : X + X = 0 := by
  funext i j
  show X i j + X i j = 0
  rw [← two_mul, show (2 : ZMod 2) = 0 from by decide, zero_mul]

/-- over a commutative ring: `W·T = P`, both supported on the idempotent `P` ⇒ `T·W = P` -/
theorem right_inverse_on_support {N : Type} [Fintype N] [DecidableEq N] {R : Type} [CommRing R]
    (P W T : Matrix N N R) (hPP : P * P = P) (hWP : W * P = W) (hPW : P * W = W) (hTP : T * P = T)
    (hPT : P * T = T) (hWT : W * T = P) : T * W = P := by
  have h1 : (W + (1 - P)) * (T + (1 - P)) = 1 := by
    simp only [add_mul, mul_add, mul_sub, sub_mul, mul_one, one_mul, hWT, hWP, hPT, hPP]
    abel
  have h2 := mul_eq_one_comm.mp h1
  simp only [add_mul, mul_add, mul_sub, sub_mul, mul_one, one_mul, hTP, hPW, hPP] at h2
  have : T * W + (1 - P) = 1 := by
    calc T * W + (1 - P) = T * W + (W - W) + (T + (1 - P) - (T + (P - P))) := by abel
      _ = 1 := h2
  calc T * W = T * W + (1 - P) - (1 - P) := by abel
    _ = 1 - (1 - P) := by rw [this]
    _ = P := by abel

theorem projS_idem (S : Nat) : projS S * projS S = projS S := by
  rw [projS, Matrix.diagonal_mul_diagonal]
  congr 1
  funext t
  cases S.testBit t.1 <;> decide

theorem projS_transpose (S : Nat) : (projS S)ᵀ = projS S := Matrix.diagonal_transpose _

theorem gramA_symm (k : Nat) (cols : List (List Nat)) : (gramA k cols)ᵀ = gramA k cols := by
  rw [gramA, Matrix.transpose_mul, Matrix.transpose_transpose]

/-- a 64-row matrix of the model that denotes the null matrix is `SmallMat::default()` -/
theorem eq_zeros64_of_toMat {d : Mat} (hl : d.length = 64) (hlt : ∀ r ∈ d, r < 2 ^ 64)
    (h : toMat 64 d = 0) : d = zeros64 := by
  apply mat_ext hl (by simp only [zeros64, List.length_replicate])
  intro i hi
  have h0 : row zeros64 i = 0 := by
    simp only [row, zeros64, List.getD_eq_getElem?_getD, List.getElem?_replicate, hi, if_true, Option.getD_some]
  rw [h0]
  apply vec_inj (row_lt_of_mem hlt i) (Nat.two_pow_pos 64)
  rw [vec_zero]
  exact congrFun h ⟨i, hi⟩

/-- `mul_aab_opt` as `A·x` -/
theorem cellMat_aab {k : Nat} {cols : List (List Nat)} (hM : MatOK k cols) {x ax : List Nat}
    (h : mulAabOpt (qsOptimize k cols) x = some ax) :
    cellMat ax.toArray cols.length = gramA k cols * cellMat x.toArray cols.length := by
  rw [(cellMat_mulAabOpt k cols x ax hM.hk hM.hn hM.hwf h).2, gramA, Matrix.mul_assoc]

/-- the test `&w * &mul_aab(b, &x) == 0` and its variants, as a matrix identity -/
theorem blockDot_zero_of {n : Nat} {x y : List Nat} (hx : x.length = n) (hy : BlockOK n y)
    (h : (cellMat x.toArray n)ᵀ * cellMat y.toArray n = 0) : blockDot x y = some zeros64 := by
  obtain ⟨d, hd, hl, hlt⟩ := blockDot_ok hx hy
  rw [hd]
  congr 1
  apply eq_zeros64_of_toMat hl hlt
  rw [toMat_blockDot hx hy.1 hd, h]

/-- what is known about a kept block `W_j` and its pseudo-inverse -/
structure KeptOK (k : Nat) (cols : List (List Nat)) (w : List Nat) (ig : Mat) (S : Nat) : Prop where
  wOK : BlockOK cols.length w
  igLen : ig.length = 64
  masked : cellMat w.toArray cols.length * projS S = cellMat w.toArray cols.length
  igP : toMat 64 ig * projS S = toMat 64 ig
  pIg : projS S * toMat 64 ig = toMat 64 ig
  inv : toMat 64 ig * ((cellMat w.toArray cols.length)ᵀ * gramA k cols * cellMat w.toArray cols.length) = projS S

theorem KeptOK.right_inv {k : Nat} {cols : List (List Nat)} {w : List Nat} {ig : Mat} {S : Nat}
    (h : KeptOK k cols w ig S) :
    ((cellMat w.toArray cols.length)ᵀ * gramA k cols * cellMat w.toArray cols.length) * toMat 64 ig = projS S := by
  have hWt : projS S * (cellMat w.toArray cols.length)ᵀ = (cellMat w.toArray cols.length)ᵀ := by
    have := congrArg Matrix.transpose h.masked
    rwa [Matrix.transpose_mul, projS_transpose] at this
  apply right_inverse_on_support (projS S) (toMat 64 ig) _ (projS_idem S) h.igP h.pIg
  · rw [Matrix.mul_assoc, h.masked]
  · rw [← Matrix.mul_assoc, ← Matrix.mul_assoc, hWt]
  · exact h.inv

/-- one projection of the checked profile -/
theorem projStep_checked_ok {k : Nat} {cols : List (List Nat)} (hM : MatOK k cols)
    {next0 av next w : List Nat} {ig : Mat} {S : Nat} {invgs : List Mat} {masks : List Nat} {vlen j m : Nat}
    {vs ws : List (List Nat)}
    (hn0 : BlockOK cols.length next0) (hav : mulAabOpt (qsOptimize k cols) next0 = some av)
    (hnext : BlockOK cols.length next)
    (hw : ws[j]? = some w) (hne : w.isEmpty = false) (hmask : maskFor masks j vlen = some m) (hm0 : m ≠ 0)
    (hig : invgs[j]? = some ig) (hK : KeptOK k cols w ig S)
    (hcomm : (cellMat w.toArray cols.length)ᵀ * gramA k cols * cellMat next.toArray cols.length =
      (cellMat w.toArray cols.length)ᵀ * gramA k cols * cellMat next0.toArray cols.length) :
    ∃ next', projStep true (qsOptimize k cols) av invgs masks vlen (vs, ws, next) j = some (vs, ws, next') ∧
      BlockOK cols.length next' ∧
      cellMat next'.toArray cols.length = cellMat next.toArray cols.length +
        cellMat w.toArray cols.length * (toMat 64 ig *
          ((cellMat w.toArray cols.length)ᵀ * gramA k cols * cellMat next0.toArray cols.length)) ∧
      (cellMat w.toArray cols.length)ᵀ * gramA k cols * cellMat next'.toArray cols.length = 0 := by
  obtain ⟨avOK⟩ : Nonempty (BlockOK cols.length av) := by
    obtain ⟨r, hr, hrOK⟩ := mulAabOpt_ok hM hn0
    rw [hav] at hr; injection hr with hr; subst hr; exact ⟨hrOK⟩
  obtain ⟨d, hd, hdl, hdlt⟩ := blockDot_ok (x := w) hK.wOK.1 avOK
  obtain ⟨next', hn', hn'OK⟩ := blockMulAdd_ok (m := mul ig d) hnext hK.wOK.1 (mul_lt _ d hdlt)
  -- matrix forms
  have hdM : toMat 64 d = (cellMat w.toArray cols.length)ᵀ * gramA k cols * cellMat next0.toArray cols.length := by
    rw [toMat_blockDot hK.wOK.1 avOK.1 hd, cellMat_aab hM hav, Matrix.mul_assoc]
  have hn'M : cellMat next'.toArray cols.length = cellMat next.toArray cols.length +
      cellMat w.toArray cols.length * (toMat 64 ig * toMat 64 d) := by
    rw [cellMat_blockMulAdd hnext.1 hK.wOK.1 (by rw [length_mul]; exact hK.igLen) hn', toMat_mul hK.igLen hdl]
  have horth : (cellMat w.toArray cols.length)ᵀ * gramA k cols * cellMat next'.toArray cols.length = 0 := by
    rw [hn'M, Matrix.mul_add, ← Matrix.mul_assoc, ← Matrix.mul_assoc, hK.right_inv, hdM, hcomm]
    have hWt : projS S * (cellMat w.toArray cols.length)ᵀ = (cellMat w.toArray cols.length)ᵀ := by
      have := congrArg Matrix.transpose hK.masked
      rwa [Matrix.transpose_mul, projS_transpose] at this
    rw [← Matrix.mul_assoc, ← Matrix.mul_assoc, hWt]
    exact add_self_mat _
  refine ⟨next', ?_, hn'OK, by rw [hn'M, hdM], horth⟩
  -- the model
  obtain ⟨aw, haw, hawOK⟩ := mulAabOpt_ok hM hK.wOK
  have hzero : blockDot aw next' = some zeros64 := by
    apply blockDot_zero_of hawOK.1 hn'OK
    rw [cellMat_aab hM haw, Matrix.transpose_mul, gramA_symm]
    exact horth
  unfold projStep
  simp only [hw, hne, Bool.false_eq_true, if_false, hmask, if_neg hm0, hd, hig, hn', haw, hzero, bne_self_eq_false,
    Bool.and_false]

end Ymq.Gf2Small
