/-
C18 — the reference form arithmetic of the driver is the arithmetic of the class group.

`Form.compose` (Cohen, Algorithm 5.4.7 with the model's own extended gcd, followed by `Form.reduce`) is what the
Lean driver uses to re-check every relation line of the real runs (`cg_relcheck`, `relationValue`). Here:
* `xgcd_correct`: the extended gcd of the model (fuel included) returns the gcd with Bezout coefficients;
* `compose_is_composition`: for forms with positive first coefficients and the same discriminant `D` (primitive or
  not) the result has discriminant `D` and is a composition in the sense of Gauss' bilinear identity
  `f1(x1,y1) · f2(x2,y2) = f3(X, Y)`, `X`, `Y` integer bilinear forms;
* `compose_raw_identity`: the same before reduction with the explicit substitution;
* `compose_dirichlet`: when `gcd(a1, a2, (b1+b2)/2) = 1` the result is, up to proper equivalence, the Dirichlet
  composition of two forms properly equivalent to the inputs (`Comp`, the relation `relation_genuine` is stated with);
* `compose_concordant`: on literally concordant inputs it is properly equivalent to `(a1 a2, b, c)`;
* `reduce_reduced`: the fuel `reduceFuel` of the model suffices (positive definite forms): the output of `Form.reduce`
  is reduced, `-a < b ≤ a ≤ c`, `b ≥ 0` when `a = c`; `reduce_mem_reducedForms`: for a primitive form it is one of the
  forms `classNumber` counts; `reduced_unique`: two properly equivalent reduced forms are equal (the uniqueness half of
  Gauss' theorem); hence `reduce_eq_iff_pequiv` ("equal reduced forms" IS "same class") and `class_representative_unique`:
  every proper equivalence class of primitive positive definite forms of discriminant `D` contains exactly one form of
  the enumeration `reducedForms D` — `classNumber D` is the number of classes (the fact `reduced_enum` only named);
* `relation_genuine_conductor`: `relation_genuine` for a non-fundamental discriminant with the primitivity hypothesis
  discharged from the rejection of conductor primes the code performs;
* `add_equal_larges_panics`, `store_total_iff_distinct`: the `assert!(p != q)` of `CRelationSet::add`: exact condition;
* `emitted_relations_genuine`: `emit_hom` composed with `relation_genuine`: every emitted relation is genuine.
-/
import Ymq.Props.C18
import Ymq.Props.C18Forms
import Ymq.Lemmas.ClassGroupGauss
import Ymq.Lemmas.ClassGroupReduce
import Ymq.Lemmas.ClassGroupUnique
import Ymq.Lemmas.ClassGroupConductor

namespace Ymq.C18
open Ymq.ClassGroup

/-- The extended gcd of the model, `xgcd a b` for `b ≥ 0` (the only way `Form.compose` calls it on positive
definite forms): `u a + v b = g`, `g ∣ a`, `g ∣ b`, `g ≥ 0` — so `g = gcd(a, b)`; in particular the fuel
`2 (log2 |a| + log2 |b|) + 8` of the model is enough (the remainder halves every two steps). -/
theorem xgcd_correct (a b : Int) (hb : 0 ≤ b) (g u v : Int) (h : xgcd a b = (g, u, v)) :
    u * a + v * b = g ∧ g ∣ a ∧ g ∣ b ∧ 0 ≤ g ∧ (∀ d : Int, d ∣ a → d ∣ b → d ∣ g) := by
  obtain ⟨h1, h2, h3, h4⟩ := xgcd_spec a b hb g u v h
  refine ⟨h1, h2, h3, h4, ?_⟩
  intro d da db
  rw [← h1]; exact dvd_add (da.mul_left u) (db.mul_left v)

/-- `Form.compose` before the final reduction, with the explicit bilinear substitution: for `a1 ≤ a2` (the order
the algorithm works in), `e = gcd(a1, a2, s)`, `s = (b1 + b2)/2`, `v_i = a_i / e`, `σ = s / e`, there are integers
`r, m, k3` with `composeRaw f1 f2 = (v1 v2, b2 + 2 v2 r, r m - e k3)` and
`f1(x1,y1) f2(x2,y2) = g(e x1x2 - r x1y2 - m y1x2 + k3 y1y2, v1 x1y2 + v2 y1x2 + σ y1y2)`. -/
theorem compose_raw_identity (f1 f2 : Form) (h1 : 0 < f1.a) (h12 : f1.a ≤ f2.a) (hd : f1.disc = f2.disc) :
    ∃ e v1 v2 σ r m k3 : Int, 0 < e ∧ f1.a = e * v1 ∧ f2.a = e * v2 ∧ f1.b + f2.b = 2 * (e * σ) ∧
      (∀ d : Int, d ∣ f1.a → d ∣ f2.a → d ∣ e * σ → d ∣ e) ∧
      f1.composeRaw f2 = ⟨v1 * v2, f2.b + 2 * v2 * r, r * m - e * k3⟩ ∧
      (f1.composeRaw f2).disc = f1.disc ∧
      ∀ x1 y1 x2 y2 : Int, f1.eval x1 y1 * f2.eval x2 y2
        = (f1.composeRaw f2).eval (e * x1 * x2 - r * x1 * y2 - m * y1 * x2 + k3 * y1 * y2)
            (v1 * x1 * y2 + v2 * y1 * x2 + σ * y1 * y2) := by
  have hraw : f1.composeRaw f2 = composeCore f1 f2 := by
    unfold Form.composeRaw; rw [if_neg (by omega)]
  obtain ⟨e, v1, v2, σ, r, m, k3, x2, P, t, he0, hv10, hv1, hv2, h2s, hbez, F1, F2, hg⟩ :=
    composeCore_spec f1 f2 h1 hd
  have hD : f1.b * f1.b - 4 * f1.a * f1.c = f2.b * f2.b - 4 * f2.a * f2.c := by
    have := hd; simpa only [Form.disc] using this
  obtain ⟨-, hdisc, hid⟩ := gauss_identity f1.a f1.b f1.c f2.a f2.b f2.c e v1 v2 σ r m k3 (by omega) hv10
    hv1 hv2 h2s hD F1 F2
  refine ⟨e, v1, v2, σ, r, m, k3, he0, hv1, hv2, h2s, ?_, by rw [hraw, hg], ?_, ?_⟩
  · intro d d1 d2 d3
    rw [hbez, ← hv1, ← hv2]
    exact dvd_sub (dvd_sub (d3.mul_left _) (d2.mul_left _)) (d1.mul_left _)
  · rw [hraw, hg, hdisc, hd]
  · intro x1 y1 x2 y2
    rw [hraw, hg]; exact hid x1 y1 x2 y2

/-- (1) `Form.compose` IS A COMPOSITION. Forms `f1`, `f2` with positive first coefficients and the same
discriminant (no primitivity needed for this part): the form `f3 = f1.compose f2` the driver computes (Cohen 5.4.7,
own `xgcd`, then `Form.reduce` with the model's fuel) has the same discriminant and satisfies the bilinear identity
of Gauss: there are integer bilinear forms `X = bil α`, `Y = bil β` in `(x1, y1)`, `(x2, y2)` with
`f1(x1, y1) · f2(x2, y2) = f3(X, Y)` for all integers. (Explicit `X`, `Y` before reduction: `compose_raw_identity`;
the reduction composes them with the inverse of its SL2(Z) matrix.) -/
theorem compose_is_composition (f1 f2 : Form) (h1 : 0 < f1.a) (h2 : 0 < f2.a) (hd : f1.disc = f2.disc) :
    (f1.compose f2).disc = f1.disc ∧ GaussComposes f1 f2 (f1.compose f2) := by
  rw [compose_eq_raw]
  have hred := (reduce_pequiv (f1.composeRaw f2) (reduceFuel (f1.composeRaw f2))).2
  have key : (f1.composeRaw f2).disc = f1.disc ∧ GaussComposes f1 f2 (f1.composeRaw f2) := by
    unfold Form.composeRaw
    by_cases h : f1.a > f2.a
    · rw [if_pos h]
      obtain ⟨hd', hc⟩ := composeCore_gauss f2 f1 h2 hd.symm
      exact ⟨by rw [hd', hd], hc.swap⟩
    · rw [if_neg h]
      exact composeCore_gauss f1 f2 h1 hd
  exact ⟨by rw [hred.2, key.1], key.2.pequiv hred.1⟩

/-- (1') When `gcd(a1, a2, (b1 + b2)/2) = 1` (in particular for concordant forms, and whenever `gcd(a1, a2) = 1`)
`f1.compose f2` is a Dirichlet composition up to proper equivalence: `Comp f1 f2 (f1.compose f2)` — the relation
`IsProduct` / `relation_genuine` are built from. -/
theorem compose_dirichlet (f1 f2 : Form) (h1 : 0 < f1.a) (h2 : 0 < f2.a) (hd : f1.disc = f2.disc)
    (hg : gcd3 f1.a f2.a ((f1.b + f2.b) / 2) = 1) : Comp f1 f2 (f1.compose f2) := by
  rw [compose_eq_raw]
  have hred := (reduce_pequiv (f1.composeRaw f2) (reduceFuel (f1.composeRaw f2))).2.1
  have key : Comp f1 f2 (f1.composeRaw f2) := by
    unfold Form.composeRaw
    by_cases h : f1.a > f2.a
    · rw [if_pos h]
      have hg' : gcd3 f2.a f1.a ((f2.b + f1.b) / 2) = 1 := by rw [gcd3_comm12, add_comm]; exact hg
      obtain ⟨f', g', h', e1, e2, e3, a1, a2, b, c, rfl, rfl, rfl, hc⟩ :=
        composeCore_comp f2 f1 h2 (by omega) hd.symm hg'
      refine ⟨_, _, _, e2, e1, e3, a2, a1, b, c, rfl, rfl, ?_, by rw [gcd3_comm12]; exact hc⟩
      rw [mul_comm]
    · rw [if_neg h]
      exact composeCore_comp f1 f2 h1 (by omega) hd hg
  obtain ⟨f', g', h', e1, e2, e3, hdc⟩ := key
  exact ⟨f', g', h', e1, e2, e3.trans hred, hdc⟩

/-- (1'') On concordant inputs `(a1, b, a2 c)`, `(a2, b, a1 c)` with `gcd(a1, a2, b) = 1` the driver's composition is
properly equivalent to the Dirichlet composition `(a1 a2, b, c)` of `dirichlet_composition`. -/
theorem compose_concordant (a1 a2 b c : Int) (h1 : 0 < a1) (h2 : 0 < a2) (hg : gcd3 a1 a2 b = 1) :
    PEquiv ⟨a1 * a2, b, c⟩ ((⟨a1, b, a2 * c⟩ : Form).compose ⟨a2, b, a1 * c⟩) := by
  rw [compose_eq_raw]
  refine PEquiv.trans ?_ (reduce_pequiv _ _).2.1
  unfold Form.composeRaw
  simp only
  by_cases h : a1 > a2
  · rw [if_pos h]
    have := composeCore_concordant a2 a1 b c h2 (by omega) (by rw [gcd3_comm12]; exact hg)
    rwa [mul_comm a2 a1] at this
  · rw [if_neg h]
    exact composeCore_concordant a1 a2 b c h1 (by omega) hg


/-! ### reduction -/

/-- (2) THE FUEL OF `Form.reduce` SUFFICES and its output is reduced. Positive definite form (`a > 0`, `D < 0`): with the
fuel `reduceFuel f = 2 (log2 a + log2 c) + 8` of the model the result satisfies `-a < b ≤ a ≤ c`, `b ≥ 0` when `a = c`
(the boundary conventions of `Form.isReducedPrim`), is properly equivalent to `f` and has the same discriminant.
(`log2 a + 3` iterations are enough: the first coefficient halves at every swap except possibly the last one.) -/
theorem reduce_reduced (f : Form) (ha : 0 < f.a) (hd : f.disc < 0) :
    IsReducedPD (f.reduce (reduceFuel f)) ∧ PEquiv f (f.reduce (reduceFuel f)) ∧
      (f.reduce (reduceFuel f)).disc = f.disc :=
  ⟨reduceFuel_suffices f ha hd, (reduce_pequiv f _).2⟩

/-- the same for every fuel `≥ log2 a + 3` -/
theorem reduce_reduced_fuel (f : Form) (ha : 0 < f.a) (hd : f.disc < 0) (fuel : Nat)
    (hf : f.a.natAbs.log2 + 3 ≤ fuel) : IsReducedPD (f.reduce fuel) := by
  apply reduce_terminates (f.a.natAbs.log2 + 1) _ f ha hd
  · have := Nat.lt_log2_self (n := f.a.natAbs)
    have e : f.a = (f.a.natAbs : Int) := by omega
    rw [e]; exact_mod_cast this
  · omega

/-- (2') For a PRIMITIVE positive definite form the reduced form computed by the model is one of the forms enumerated
by `reducedForms` (whose number is `classNumber`): every proper equivalence class of primitive forms of discriminant
`D < 0` has a representative in the enumeration. (Uniqueness of that representative is not proved.) -/
theorem reduce_mem_reducedForms (f : Form) (ha : 0 < f.a) (hd : f.disc < 0) (hp : gcd3 f.a f.b f.c = 1) :
    f.reduce (reduceFuel f) ∈ reducedForms f.disc := by
  obtain ⟨h1, h2, h3⟩ := reduce_reduced f ha hd
  apply reducedForms_complete
  rw [← h3]
  exact isReducedPrim_of_PD h1 (pequiv_gcd3 h2 hp)


/-- (2'') UNIQUENESS OF THE REDUCED FORM (Gauss): two properly equivalent reduced positive definite forms are equal.
(A reduced form takes its minimum `a` on nonzero integer vectors, at `(±1, 0)` only when `a < c`; when `a = c` for both
forms the discriminant and `b ≥ 0` decide.) -/
theorem reduced_unique (f g : Form) (hf : IsReducedPD f) (hg : IsReducedPD g) (he : PEquiv f g) : f = g :=
  reduced_unique' hf hg he

/-- "equal reduced forms" is "same class": for positive definite forms the reductions computed by the model (with its
fuel) are equal if and only if the forms are properly equivalent. This is what makes the driver's test
`relationValue D l == principal D` a test of triviality in the class group. -/
theorem reduce_eq_iff_pequiv (f g : Form) (hf : 0 < f.a) (hfd : f.disc < 0) (hg : 0 < g.a) (hgd : g.disc < 0) :
    f.reduce (reduceFuel f) = g.reduce (reduceFuel g) ↔ PEquiv f g := by
  obtain ⟨rf, ef, _⟩ := reduce_reduced f hf hfd
  obtain ⟨rg, eg, _⟩ := reduce_reduced g hg hgd
  constructor
  · intro h
    exact ef.trans (h ▸ eg.symm)
  · intro h
    exact reduced_unique _ _ rf rg (ef.symm.trans (h.trans eg))

/-- THE ENUMERATION COUNTS CLASSES: every primitive positive definite form of discriminant `D < 0` is properly
equivalent to exactly one form of `reducedForms D`. So `classNumber D = (reducedForms D).length` (`reduced_enum`) is
the number of proper equivalence classes of primitive positive definite forms of discriminant `D` — the form class
number `h(D)`; the classical fact that `reduced_enum` only named is now a theorem. -/
theorem class_representative_unique (f : Form) (ha : 0 < f.a) (hd : f.disc < 0) (hp : gcd3 f.a f.b f.c = 1) :
    ∃ g, (g ∈ reducedForms f.disc ∧ PEquiv f g) ∧ ∀ g', g' ∈ reducedForms f.disc ∧ PEquiv f g' → g' = g := by
  obtain ⟨rf, ef, _⟩ := reduce_reduced f ha hd
  refine ⟨f.reduce (reduceFuel f), ⟨reduce_mem_reducedForms f ha hd hp, ef⟩, ?_⟩
  rintro g' ⟨hm, he⟩
  exact reduced_unique _ _ (isReducedPD_of_prim (reducedForms_sound hm)) rf (he.symm.trans ef)

/-! ### non-fundamental discriminants -/

/-- (3) `relation_genuine` FOR A NON-FUNDAMENTAL DISCRIMINANT: the primitivity hypothesis `hprim` is discharged from
what the code does. `D` is odd or `D/4 ≡ 2, 3 (mod 4)` (`h16`: what `classgroup()` guarantees for a type 1 polynomial,
since it reduces `D = 4N`, `N ≡ 1 mod 4` to `N`), the candidate primes are primes (`hfp`), every odd candidate prime
whose square divides `D` is in the conductor list (`hcond`: `classgroup()` lists the factor-base primes with `r = 0`
and `p² ∣ D`), and — NAMED HYPOTHESES about parts that are not modelled — no prime of `A` and no large prime has its
square dividing `D` (`hafs`, `hlarge`: `select_siqs_factors` is not modelled; a conductor prime above the factor base
is invisible to the code). Then a relation that was NOT rejected (`relationOf = .rel r`) is genuine. -/
theorem relation_genuine_conductor (D : Int) (type1 : Bool) (a b c x : Int) (maxprime maxlarge : Nat)
    (double : Bool) (conductor : List Nat) (fb : List (Nat × Nat)) (facs : List Nat)
    (afs : List (Nat × Nat)) (lp lq : Nat) (r : Rel)
    (hb : 0 ≤ b) (hdisc : polyDisc type1 a b c = D) (hty : type1 = true ↔ (2 : Int) ∣ D)
    (h16 : D % 2 = 1 ∨ D % 16 = 8 ∨ D % 16 = 12)
    (hfacs : ∀ p ∈ facs, FbOk D type1 conductor fb p) (hfp : ∀ q ∈ facs, q.Prime)
    (hcond : ∀ q ∈ facs, q ≠ 2 → ((q : Int) * q ∣ D) → q ∈ conductor)
    (hafs : ∀ pr ∈ afs, pr.1.Prime ∧ pr.1 ≠ 2 ∧ ¬ ((pr.1 : Int) * pr.1 ∣ D) ∧
      ∃ ref, bPlus pr.1 pr.2 type1 = some ref ∧ IsBPlus D pr.1 ref)
    (haprod : a = ((afs.map Prod.fst).prod : Nat))
    (hrel : relationOf type1 a b c x maxprime maxlarge double conductor fb facs afs lp lq = .rel r)
    (hlarge : ∀ pe, (r.large1 = some pe ∨ r.large2 = some pe) →
      pe.1.Prime ∧ pe.1 ≠ 2 ∧ ¬ ((pe.1 : Int) * pe.1 ∣ D)) :
    (∀ pe ∈ r.entries, pe.2 ≠ 0 → pe.1.Prime ∧ IsBPlus D pe.1 (theRoot D pe.1)) ∧
    ∃ L, L.Perm (expand D (theRoot D) r.entries) ∧ IsProduct D L (principal D) := by
  apply relation_genuine D type1 a b c x maxprime maxlarge double conductor fb facs afs lp lq r
    hb hdisc hty hfacs (fun pr h => ⟨(hafs pr h).1, (hafs pr h).2.1, (hafs pr h).2.2.2⟩) haprod hrel
    (fun pe h => ⟨(hlarge pe h).1, (hlarge pe h).2.1⟩)
  exact hprim_of_conductor D type1 a b c x maxprime maxlarge double conductor fb facs afs lp lq r hdisc h16 hfp
    hcond (fun pr h => ⟨(hafs pr h).1, (hafs pr h).2.2.1⟩) haprod hrel
    (fun pe h => ⟨(hlarge pe h).1, (hlarge pe h).2.2⟩)

/-! ### the `assert!(p != q)` of `CRelationSet::add` -/

/-- (4) the panic site of `CRelationSet::add` itself: a relation whose two large primes are equal fires
`assert!(p != q)` (all profiles), whatever the state of the store -/
theorem add_equal_larges_panics (s : CSet) (r : Rel) (p : Nat) (e1 e2 : Int)
    (h1 : r.large1 = some (p, e1)) (h2 : r.large2 = some (p, e2)) : add s r = none := by
  unfold add; rw [h1, h2]; simp

theorem run_none_of_equal_larges : ∀ (rs : List Rel) (s : CSet),
    (∃ r ∈ rs, ∃ p e1 e2, r.large1 = some (p, e1) ∧ r.large2 = some (p, e2)) → run s rs = none
  | [], _, h => by simp at h
  | r :: rs, s, h => by
    rw [run]
    cases ha : add s r with
    | none => rfl
    | some s' =>
      simp only
      obtain ⟨r', hr', p, e1, e2, h1, h2⟩ := h
      rcases List.mem_cons.1 hr' with rfl | hm
      · rw [add_equal_larges_panics s r' p e1 e2 h1 h2] at ha; simp at ha
      · exact run_none_of_equal_larges rs s' ⟨r', hm, p, e1, e2, h1, h2⟩

/-- (4') EXACT CONDITION for histories whose large primes are below `u32::MAX`: the store goes through the whole
history without a panic if and only if no relation has two equal large primes. (`sieve_block_poly` never builds one:
for `q = p` it stores the exponent 2 in `large1` and leaves `large2` empty.) -/
theorem store_total_iff_distinct (maxlarge : Nat) (rs : List Rel)
    (h32 : ∀ r ∈ rs, (∀ pe, r.large1 = some pe → pe.1 + 1 < 2 ^ 32) ∧ (∀ pe, r.large2 = some pe → pe.1 + 1 < 2 ^ 32)) :
    (∃ s, run { maxlarge := maxlarge } rs = some s) ↔
      ∀ r ∈ rs, ∀ pe qe, r.large1 = some pe → r.large2 = some qe → pe.1 ≠ qe.1 := by
  constructor
  · rintro ⟨s, hs⟩ r hr ⟨p, e1⟩ ⟨q, e2⟩ h1 h2 heq
    simp only at heq
    subst heq
    rw [run_none_of_equal_larges rs _ ⟨r, hr, p, e1, e2, h1, h2⟩] at hs
    simp at hs
  · intro h
    exact store_total maxlarge rs (fun r hr => ⟨(h32 r hr).1, (h32 r hr).2, h r hr⟩)

/-! ### `emit_hom` and genuine relations -/

/-- the conclusion of `relation_genuine`: the entries of `r` are primes with normalised roots and the prime forms
`[p]^{±1}` they stand for compose (iterated Dirichlet composition, up to order) to the principal form -/
def Genuine (D : Int) (r : Rel) : Prop :=
  (∀ pe ∈ r.entries, pe.2 ≠ 0 → pe.1.Prime ∧ IsBPlus D pe.1 (theRoot D pe.1)) ∧
  ∃ L, L.Perm (expand D (theRoot D) r.entries) ∧ IsProduct D L (principal D)

/-- (5) `emit_hom` COMPOSED WITH `relation_genuine`. The hypothesis of `emit_hom` ("the map kills every input
relation") is, for the map "class of the product of the prime forms", the conclusion `Genuine D r` of
`relation_genuine` / `relation_genuine_fundamental` / `relation_genuine_conductor` for every relation the sieve hands
to `add`. Without a formalised class GROUP (composition well defined on classes) it cannot be fed to `emit_hom` as a
homomorphism into an abelian group; through `emit_hom_map` it composes directly: for every history of `add` calls,
if every relation added is genuine, every relation the store emits (every line of relations.sieve) is genuine. -/
theorem emitted_relations_genuine (D : Int) (maxlarge : Nat) (rs : List Rel) (s : CSet)
    (h : run { maxlarge := maxlarge } rs = some s) (hin : ∀ r ∈ rs, Genuine D r) :
    ∀ r ∈ s.emitted, Genuine D r := by
  intro r hr
  have := emit_hom_map (fun r => Genuine D r) True maxlarge rs s h (fun r hr => eq_true (hin r hr)) r hr
  exact of_eq_true this

/-! ### non-vacuity -/

example : xgcd 240 46 = (2, -9, 47) := by decide +kernel
/-- D = -23: `(2,1,3) ∘ (2,1,3) = (2,-1,3)` (the class of order 3), `e = gcd(2,2,1) = 1` -/
example : (⟨2, 1, 3⟩ : Form).compose ⟨2, 1, 3⟩ = ⟨2, -1, 3⟩ ∧ (⟨2, 1, 3⟩ : Form).disc = -23
    ∧ gcd3 2 2 ((1 + 1) / 2) = 1 := by decide +kernel
/-- a case with `e > 1`: D = -84, `(2,2,11) ∘ (2,2,11)` = principal, `e = gcd(2,2,2) = 2` -/
example : (⟨2, 2, 11⟩ : Form).compose ⟨2, 2, 11⟩ = ⟨1, 0, 21⟩ ∧ (⟨2, 2, 11⟩ : Form).disc = -84 := by decide +kernel
/-- concordant: D = -23, (2, 1, 3) and (3, 1, 2): a1 a2 = 6, c = 1 -/
example : gcd3 2 3 1 = 1 ∧ (⟨2, 1, 3 * 1⟩ : Form).compose ⟨3, 1, 2 * 1⟩ = ⟨1, 1, 6⟩ := by decide +kernel

/-- `reduce_reduced`: D = -23, (8, -3, 1) reduces to (1, 1, 6) -/
example : (0 : Int) < (⟨8, -3, 1⟩ : Form).a ∧ (⟨8, -3, 1⟩ : Form).disc < 0 ∧
    (⟨8, -3, 1⟩ : Form).reduce (reduceFuel ⟨8, -3, 1⟩) = ⟨1, 1, 6⟩ := by decide +kernel
example : gcd3 8 (-3) 1 = 1 := by decide
/-- `reduced_unique`: (2, -1, 3) and (2, 1, 3) are both reduced, hence NOT properly equivalent (h(-23) = 3) -/
example : IsReducedPD ⟨2, 1, 3⟩ := by unfold IsReducedPD; decide
/-- `IsReducedPD` is satisfiable -/
example : IsReducedPD ⟨2, -1, 3⟩ := by unfold IsReducedPD; decide
/-- `add_equal_larges_panics` / `store_total_iff_distinct` -/
example : add { maxlarge := 1000 } ⟨[(3, 1)], some (101, 1), some (101, 1)⟩ = none := by decide
example : (run { maxlarge := 1000 } [⟨[(3, 1)], some (101, 1), some (103, 1)⟩]).isSome = true := by decide
/-- hypotheses `h16`/`hcond` of `relation_genuine_conductor` on a non-fundamental discriminant: D = -3 · 5² = -75 ≡ 1 mod 4 -/
example : ((-75 : Int) % 2 = 1) ∧ ((5 : Int) * 5 ∣ -75) ∧ 5 ∈ [5] := by decide
/-- `relation_genuine_conductor` on a real non-fundamental candidate: D = -75 = -3 · 5², polynomial x² + x + 19,
conductor list [5]: x = 1 gives P = 21 = 3 · 7 (accepted, relation `[3]^-1 [7]`), x = 2 gives P = 25 (REJECTED: 5 is a
conductor prime — the form (5, 5, 5) met there is imprimitive) -/
example : relationOf false 1 1 19 1 151 302 false [5] [(3, 0), (5, 0), (7, 3)] [3, 5, 7] [] 1 1
      = .rel ⟨[(3, -1), (7, 1)], none, none⟩ ∧
    relationOf false 1 1 19 2 151 302 false [5] [(3, 0), (5, 0), (7, 3)] [3, 5, 7] [] 1 1 = .skip ∧
    polyDisc false 1 1 19 = -75 ∧ (∀ q ∈ [3, 5, 7], q ≠ 2 → ((q : Int) * q ∣ -75) → q ∈ [5]) := by
  refine ⟨by decide +kernel, by decide +kernel, by decide, by decide⟩
/-- `Genuine` holds for the empty relation -/
example : Genuine (-23) ⟨[], none, none⟩ := by
  refine ⟨by simp [Rel.entries], [], ?_, IsProduct.nil⟩
  simp [Rel.entries, expand]

end Ymq.C18
