import Ymq.Props.C03
#print axioms Ymq.C03.factor_total
#print axioms Ymq.C03.factorImpl_total
#print axioms Ymq.C03.factor_total_of_input
