/-
C12 — sieving polynomials carry correct roots and square-root identities.
Only property theorems live here (helper lemmas: Ymq/Lemmas/Poly*.lean).

Reading guide.
* Models: Ymq/Model/SiqsPoly.lean (`prepareA`, `first`, `next`, `finish`, `polyAt s pa idx` = `Poly::first`
  followed by `idx` calls of `Poly::next`), Ymq/Model/MpqsPoly.lean, Ymq/Model/QsRoots.lean,
  Ymq/Gen/QsShift.lean (translated `next_lgblock`). `f … = some r` means that the Rust routine returns `r`
  without reaching a panic site of the checked profile.
* The factor base is data: a list of `(p, r)`; `FbOk n fb` states what `FBase::new` is expected to provide
  (primes below 2^24, `r < p`, `r² ≡ n (mod p)`); the oracle of props/c12.py checks it on every run.
* `so` is the start offset `-(M/2)` of the sieve interval: table entry `r` stands for the position `x = r + so`.
* `a2aOf n A` is `A` for type 1 polynomials (`n ≢ 1 mod 4`) and `2A` for type 2.
* `Dividers`/`Inverter`/`inv_mod` are taken at their specification (properties C08, C09).
-/
import Ymq.Lemmas.PolySiqsExact
import Ymq.Lemmas.PolyCrt
import Ymq.Lemmas.PolyWalkB
import Ymq.Lemmas.PolyUnit
import Ymq.Lemmas.PolySizesWalk
import Ymq.Lemmas.PolyWalkTotal
import Ymq.Lemmas.PolySelectNever
import Ymq.Lemmas.PolyMpqs
import Ymq.Lemmas.PolyMpqsTotal
import Ymq.Lemmas.PolyQs
import Ymq.Gen.CallSites

namespace Ymq.C12
open Ymq.SiqsPoly Ymq.PolySiqs

/-- what `FBase::new(n, ·)` provides: primes below 2^24 with a reduced square root of `n`. -/
structure FbOk (n : Int) (fb : List Prime) : Prop where
  prime : ∀ q ∈ fb, Nat.Prime q.p
  small : ∀ q ∈ fb, q.p < 2 ^ 24
  root : ∀ q ∈ fb, q.r < q.p ∧ (q.r : Int) * q.r ≡ n [ZMOD q.p]

/-! ### SIQS -/

/-- SIQS defining identities. Type 1 (`n ≢ 1 mod 4`): with `C = (B² − n)/A`,
`(Ax+B)² − n = A·(Ax² + 2Bx + C)`; type 2: with `C = (B² − n)/(4A)`,
`(2Ax+B)² − n = 4A·(Ax² + Bx + C)`. -/
theorem siqs_identity (A B n x : Int) :
    (A ∣ B * B - n → (A * x + B) ^ 2 - n = A * (A * x ^ 2 + 2 * B * x + (B * B - n) / A)) ∧
    (4 * A ∣ B * B - n →
      (2 * A * x + B) ^ 2 - n = 4 * A * (A * x ^ 2 + B * x + (B * B - n) / (4 * A))) := by
  constructor
  · intro h
    have hc : A * ((B * B - n) / A) = B * B - n := Int.mul_ediv_cancel' h
    generalize (B * B - n) / A = c at hc
    linear_combination (-1 : Int) * hc
  · intro h
    have hc : 4 * A * ((B * B - n) / (4 * A)) = B * B - n := Int.mul_ediv_cancel' h
    generalize (B * B - n) / (4 * A) = c at hc
    linear_combination (-1 : Int) * hc

example : (7 : Int) ∣ 5 * 5 - 4 ∧ (4 * 3 : Int) ∣ 7 * 7 - 13 := by decide

/-- The identity for the polynomials the model produces: whenever the stored coefficients are the
exact ones (`Exact`, see `poly_exact`), `polyVal pol x` (= `Ax² + 2Bx + C` resp. `Ax² + Bx + C`)
satisfies `(Ax+B)² − n = A·P(x)` resp. `(2Ax+B)² − n = 4A·P(x)`. -/
theorem siqs_identity_model (pol : Poly) (A : Nat) (x : Int) (hex : Exact pol A) :
    (pol.type2 = false → ((A : Int) * x + pol.b) ^ 2 - pol.n = A * polyVal pol x) ∧
    (pol.type2 = true → (2 * (A : Int) * x + pol.b) ^ 2 - pol.n = 4 * A * polyVal pol x) := by
  obtain ⟨ha, hc⟩ := hex
  constructor
  · intro ht
    rw [ht, polyM] at hc
    simp only [Bool.false_eq_true, if_false] at hc
    unfold polyVal; rw [ht, ha]
    simp only [Bool.false_eq_true, if_false]
    linear_combination (-1 : Int) * hc
  · intro ht
    rw [ht, polyM] at hc
    simp only [if_true] at hc
    unfold polyVal; rw [ht, ha]
    simp only [if_true]
    linear_combination (-1 : Int) * hc

/-- the value returned by the model of `Poly::eval` is `polyVal` -/
theorem eval_eq_polyVal (pol : Poly) (x v y : Int) (h : eval pol x = some (v, y)) :
    v = polyVal pol x := by
  unfold eval at h
  unfold polyVal
  by_cases ht : pol.type2 = true
  · simp only [ht, not_true_eq_false, if_false, if_true, Option.bind_eq_bind] at h ⊢
    cases h1 : chk256 (pol.a * x) with
    | none => simp [h1] at h
    | some ax =>
      simp only [h1, Option.bind_some] at h
      cases h2 : chk256 (ax + pol.b) with
      | none => simp [h2] at h
      | some u =>
        simp only [h2, Option.bind_some] at h
        cases h3 : chk256 (u * x) with
        | none => simp [h3] at h
        | some w =>
          simp only [h3, Option.bind_some] at h
          cases h4 : chk256 (w + pol.c) with
          | none => simp [h4] at h
          | some v' =>
            simp only [h4, Option.bind_some] at h
            cases h5 : chk256 (wrap256 (2 * ax) + pol.b) with
            | none => simp [h5] at h
            | some y' =>
              simp only [h5, Option.bind_some, Option.some.injEq, Prod.mk.injEq] at h
              rw [← h.1, chk256_some h4, chk256_some h3, chk256_some h2, chk256_some h1]; ring
  · simp only [ht, not_false_eq_true, if_true, Bool.false_eq_true, if_false, Option.bind_eq_bind] at h ⊢
    cases h1 : chk256 (pol.a * x) with
    | none => simp [h1] at h
    | some t =>
      simp only [h1, Option.bind_some] at h
      cases h2 : chk256 (t + pol.b) with
      | none => simp [h2] at h
      | some axb =>
        simp only [h2, Option.bind_some] at h
        cases h3 : chk256 (axb + pol.b) with
        | none => simp [h3] at h
        | some u =>
          simp only [h3, Option.bind_some] at h
          cases h4 : chk256 (u * x) with
          | none => simp [h4] at h
          | some w =>
            simp only [h4, Option.bind_some] at h
            cases h5 : chk256 (w + pol.c) with
            | none => simp [h5] at h
            | some v' =>
              simp only [h5, Option.bind_some, Option.some.injEq, Prod.mk.injEq] at h
              rw [← h.1, chk256_some h5, chk256_some h4, chk256_some h3, chk256_some h2,
                chk256_some h1]; ring

/-- `Poly::next`, the `u32` min trick: for `r, d < p < 2^31`,
`min(r + d, (r + d).wrapping_sub(p)) = (r + d) mod p` and
`let t = r.wrapping_sub(d); min(t, t.wrapping_add(p)) = (r − d) mod p`. -/
theorem min_trick (r d p : Nat) (hr : r < p) (hd : d < p) (hp : p < 2 ^ 31) :
    stepUp p d r = (r + d) % p ∧ stepDown p d r = (r + p - d) % p :=
  ⟨PolyBits.stepUp_eq r d p hr hd hp, PolyBits.stepDown_eq r d p hr hd hp⟩

example : stepUp 7 5 6 = 4 ∧ stepDown 7 5 3 = 5 := by decide

/-- `Poly::next`: for every `idx < 2^63` the Gray codes of `idx` and `idx + 1` differ exactly in bit
`t = trailing_zeros(idx + 1)` (`tzN`); the code's `bit` equals `t`, is a valid shift amount, and the
assertion `next_gray == prev_gray ^ (1 << bit)` holds. -/
theorem gray_step (idx : Nat) (h : idx < 2 ^ 63) :
    let pg := idx ^^^ (idx >>> 1)
    let ng := (idx + 1) ^^^ ((idx + 1) >>> 1)
    let bit := tz64 (pg ^^^ ng)
    bit = PolyBits.tzN (idx + 1) ∧ bit < 64 ∧ ng = pg ^^^ (1 <<< bit) ∧
      (∀ i, ng.testBit i = (pg.testBit i ^^ decide (bit = i))) ∧
      2 ^ bit ∣ idx + 1 ∧ ¬ 2 ^ (bit + 1) ∣ idx + 1 := by
  intro pg ng bit
  obtain ⟨h1, h2, h3, h4⟩ := PolyBits.gray_step_aux idx (by omega)
  obtain ⟨h5, h6⟩ := PolyBits.tzN_pos_spec (idx + 1) (by omega)
  refine ⟨h1, h2, h3, h4, ?_, ?_⟩
  · show 2 ^ tz64 (pg ^^^ ng) ∣ idx + 1
    rw [h1]; exact h5
  · show ¬ 2 ^ (tz64 (pg ^^^ ng) + 1) ∣ idx + 1
    rw [h1]; exact h6

/-- the step from index 11 to 12 flips bit 2 = trailing_zeros(12) -/
example : (11 : Nat) < 2 ^ 63 ∧ tz64 ((11 ^^^ (11 >>> 1)) ^^^ (12 ^^^ (12 >>> 1))) = 2 := by decide

/-- The root invariant for one prime `q = (p, r)` of the factor base with `p ∤ a2a`:
both entries are reduced, `a2a·(r1 + so) + B ≡ −r` and `a2a·(r2 + so) + B ≡ r (mod p)`. -/
def RootsOk (a2a : Nat) (so : Int) (q : Prime) (b : Int) (r12 : Nat × Nat) : Prop :=
  r12.1 < q.p ∧ r12.2 < q.p ∧
  (a2a : Int) * ((r12.1 : Int) + so) + b ≡ -(q.r : Int) [ZMOD q.p] ∧
  (a2a : Int) * ((r12.2 : Int) + so) + b ≡ (q.r : Int) [ZMOD q.p]

/-- the invariant for the whole table of a polynomial -/
def TableOk (n : Int) (fb : List Prime) (A : Nat) (so : Int) (pol : Poly) : Prop :=
  pol.rs.length = fb.length ∧
  ∀ i (h : i < fb.length) (h' : i < pol.rs.length), a2aOf n A % fb[i].p ≠ 0 →
    RootsOk (a2aOf n A) so fb[i] pol.b pol.rs[i]

private theorem soOk_of {mm : Nat} (hmm : mm < 2 ^ 32) : SoOk (mkSieve n mm).startOffset := by
  show SoOk (-((mm : Int) / 2))
  unfold SoOk; omega

private theorem tableOk_of {n : Int} {fb : List Prime} {pa : APrep} {so : Int} {pol : Poly}
    (hfb : FbOk n fb) (hw : WalkInv n fb pa so pol) : TableOk n fb pa.a so pol := by
  obtain ⟨hlen, _, _, _, hroot⟩ := hw
  refine ⟨hlen, ?_⟩
  intro i h h' hnd
  have hmem : fb[i] ∈ fb := List.getElem_mem h
  exact rootInv_modEq (hroot i h h' (hfb.prime _ hmem)
    (lt_trans (hfb.small _ hmem) (by norm_num)) hnd)

/-- `roots_inv`: the root invariant holds after `Poly::first` and is preserved by `Poly::next`
(for every prime of the factor base that does not divide `a2a`, i.e. every odd prime not dividing `A`,
and the prime 2 for type 1 polynomials). The hypothesis `WalkInv` of the second part is the
lemma-level form of the invariant (it implies `TableOk`, and is what the first part establishes). -/
theorem roots_inv (n : Int) (fb : List Prime) (f : Factors) (a mm : Nat) (pa : APrep)
    (hfb : FbOk n fb) (hn : f.n = n) (hmm : mm < 2 ^ 32)
    (hpa : prepareA f a fb (-((mm : Int) / 2)) = some pa) :
    (∀ pol, first (mkSieve n mm) pa = some pol →
      WalkInv n fb pa (-((mm : Int) / 2)) pol ∧ TableOk n fb a (-((mm : Int) / 2)) pol ∧ pol.idx = 0) ∧
    (∀ pol pol', WalkInv n fb pa (-((mm : Int) / 2)) pol → next (mkSieve n mm) pa pol = some pol' →
      WalkInv n fb pa (-((mm : Int) / 2)) pol' ∧ TableOk n fb a (-((mm : Int) / 2)) pol' ∧
        pol'.idx = pol.idx + 1) := by
  obtain ⟨B0, ds, fam, hpaa, _, _⟩ := prepareA_fam hpa
  rw [hn] at fam
  constructor
  · intro pol h
    obtain ⟨hw, hidx⟩ := first_walk (mm := mm) fam (soOk_of hmm) h
    exact ⟨hw, hpaa ▸ tableOk_of hfb hw, hidx⟩
  · intro pol pol' hw h
    obtain ⟨hw', hidx⟩ := next_walk (s := mkSieve n mm) fam (soOk_of (n := n) hmm) hw h
    exact ⟨hw', hpaa ▸ tableOk_of hfb hw', hidx⟩

/-- `roots_walk`: by induction the invariant holds for EVERY index of the Gray walk: whenever the
model produces the polynomial number `idx` of the family of `A`, its table satisfies `TableOk`
(incremental updates with wrapping arithmetic never drift). -/
theorem roots_walk (n : Int) (fb : List Prime) (f : Factors) (a mm idx : Nat) (pa : APrep) (pol : Poly)
    (hfb : FbOk n fb) (hn : f.n = n) (hmm : mm < 2 ^ 32)
    (hpa : prepareA f a fb (-((mm : Int) / 2)) = some pa)
    (hpol : polyAt (mkSieve n mm) pa idx = some pol) :
    pol.idx = idx ∧ pol.n = n ∧ pol.type2 = isType2 n ∧ TableOk n fb a (-((mm : Int) / 2)) pol := by
  obtain ⟨B0, ds, fam, hpaa, _, _⟩ := prepareA_fam hpa
  rw [hn] at fam
  obtain ⟨hw, hidx⟩ := polyAt_walk (mm := mm) fam (soOk_of hmm) idx pol hpol
  exact ⟨hidx, hw.2.2.1, hw.2.1, hpaa ▸ tableOk_of hfb hw⟩

/-- The stored `C` is exact: for a family with at least one factor, whenever the exact quotient
`(B² − n)/A` (resp. `/(4A)`) fits in an `I256`, `pol.a = A` and `A·C = B² − n` (resp. `4A·C`).
(The code asserts `pol.c.abs().bits() < 255` *before* storing the new `C`, i.e. on the previous
polynomial's value, so the size condition is a hypothesis here.) -/
theorem poly_exact (n : Int) (fb : List Prime) (f : Factors) (a mm idx : Nat) (pa : APrep) (pol : Poly)
    (hpa : prepareA f a fb (-((mm : Int) / 2)) = some pa) (hne : pa.factors.isEmpty = false)
    (hpol : polyAt (mkSieve n mm) pa idx = some pol)
    (hfit : -P255 ≤ (pol.b * pol.b - pol.n) / polyM pol.type2 a ∧
      (pol.b * pol.b - pol.n) / polyM pol.type2 a < P255) : Exact pol a := by
  obtain ⟨_, _, _, hpaa, _, _⟩ := prepareA_fam hpa
  obtain ⟨pol0, hfin, _, _, ha⟩ := polyAt_finish hne idx pol hpol
  rw [← hpaa] at hfit ⊢
  exact finish_exact hfin ha hfit

/-- `roots_exact`: for every polynomial of the Gray walk whose stored coefficients are exact, and every
prime `p = fb[i].p` of the factor base, with `P = polyVal pol` and `x` any sieve position:
* `p ∤ a2a` (odd `p ∤ A`; also `p = 2` for type 1): `p ∣ P(x + so) ⟺ x ≡ r1p[i] ∨ x ≡ r2p[i] (mod p)`;
* odd `p ∣ A`: `r1p[i] = r2p[i] < p` and `p ∣ P(x + so) ⟺ x ≡ r1p[i] (mod p)`;
* `p = 2` at index 0, type 2, `A` odd: `2 ∣ P(x + so) ⟹ x ≡ r1p[0] ∨ x ≡ r2p[0] (mod 2)` (superset).
Families with at least one factor (`hne`); the unit polynomial `A = 1` is `roots_exact_unit`. -/
theorem roots_exact (n : Int) (fb : List Prime) (f : Factors) (a mm idx : Nat) (pa : APrep) (pol : Poly)
    (hfb : FbOk n fb) (hn : f.n = n) (hmm : mm < 2 ^ 32)
    (hpa : prepareA f a fb (-((mm : Int) / 2)) = some pa) (hne : pa.factors.isEmpty = false)
    (hpol : polyAt (mkSieve n mm) pa idx = some pol) (hex : Exact pol a)
    (i : Nat) (hi : i < fb.length) (hi' : i < pol.rs.length) (x : Int) :
    (a2aOf n a % fb[i].p ≠ 0 →
      ((fb[i].p : Int) ∣ polyVal pol (x + -((mm : Int) / 2)) ↔
        (x ≡ (pol.rs[i].1 : Int) [ZMOD fb[i].p] ∨ x ≡ (pol.rs[i].2 : Int) [ZMOD fb[i].p]))) ∧
    (a2aOf n a % fb[i].p = 0 → fb[i].p ≠ 2 →
      pol.rs[i].1 = pol.rs[i].2 ∧ pol.rs[i].1 < fb[i].p ∧
      ((fb[i].p : Int) ∣ polyVal pol (x + -((mm : Int) / 2)) ↔
        x ≡ (pol.rs[i].1 : Int) [ZMOD fb[i].p])) ∧
    (fb[i].p = 2 → i = 0 → isType2 n = true → a % 2 = 1 →
      ((2 : Int) ∣ polyVal pol (x + -((mm : Int) / 2)) →
        (x ≡ (pol.rs[i].1 : Int) [ZMOD 2] ∨ x ≡ (pol.rs[i].2 : Int) [ZMOD 2]))) := by
  obtain ⟨B0, ds, fam, hpaa, _, _⟩ := prepareA_fam hpa
  rw [hn] at fam
  obtain ⟨hw, _⟩ := polyAt_walk (mm := mm) fam (soOk_of hmm) idx pol hpol
  obtain ⟨pol0, hfin, ht0, _, _⟩ := polyAt_finish hne idx pol hpol
  have hmem : fb[i] ∈ fb := List.getElem_mem hi
  have hprime := hfb.prime _ hmem
  have hp31 : fb[i].p < 2 ^ 31 := lt_trans (hfb.small _ hmem) (by norm_num)
  rw [← hpaa] at hex ⊢
  refine ⟨?_, ?_, ?_⟩
  · intro hnd
    exact exact_generic hw hex i hi hi' hprime hp31 hnd (hfb.root _ hmem).2 x
  · intro hdiv hp2
    exact exact_div (mm := mm) fam hfin hex i hi hi' hprime hdiv hp2 x
  · intro hp2 hi0 ht2 haodd
    subst hi0
    have hbodd : pol.b % 2 = 1 := hw.2.2.2.1 ht2
    exact exact_two (mm := mm) fam hfin (ht0.trans ht2) hex hbodd haodd hi hi' hp2 x

open Ymq.PolySizes in
/-- `poly_exact_domain`: on the parameter domain `SizeDom n M A nf` — `0 < n < 2^448`, `2^15 ≤ M < 2^20`
(the values of `siqs::interval_size`), `A` within a factor 4 of the target `max(2000, isqrt(2n or n/2)/(M/2))`
of `select_siqs_factors` (the widest window `select_a` ever uses), at most 32 factors — the exact `C` of
EVERY polynomial of the walk fits: `Exact pol A` holds without a size hypothesis, and `|C| < 2^254`, so the
code's `assert!(pol.c.abs().bits() < 255)`, which reads the PREVIOUS polynomial's `C`, can never fire on this
domain and never lets a truncated `C` through (it is redundant there; see `stale_c_check_witness` for what
happens outside). Also `0 ≤ B ≤ 2·nf·A`. -/
theorem poly_exact_domain (n : Int) (fb : List Prime) (f : Factors) (a mm idx : Nat) (pa : APrep) (pol : Poly)
    (hn : f.n = n) (hpa : prepareA f a fb (-((mm : Int) / 2)) = some pa) (hne : pa.factors.isEmpty = false)
    (hpol : polyAt (mkSieve n mm) pa idx = some pol) (d : SizeDom n mm a pa.factors.length) :
    Exact pol a ∧ -(2 ^ 254 : Int) < pol.c ∧ pol.c < 2 ^ 254 ∧
    0 ≤ pol.b ∧ pol.b ≤ 2 * (pa.factors.length : Int) * a ∧ a < 2 ^ 213 := by
  obtain ⟨h1, h2, h3⟩ := poly_exact_dom hn hpa hne hpol d
  obtain ⟨h4, h5⟩ := polyAt_b_le hpa hne idx pol hpol
  exact ⟨h1, h2, h3, h4, h5, dom_A_lt d⟩

/-- the witness family of the next two theorems: a 300-bit `n ≡ 3 (mod 4)` with the absurd `A = 5·7` -/
private def nW : Int := 1741878535172816664252695627013383064478395081129382887605633762352202768132695533298853231
private def fbW : List Prime := [⟨2, 1⟩, ⟨3, 1⟩, ⟨5, 1⟩, ⟨7, 2⟩, ⟨17, 5⟩, ⟨23, 2⟩, ⟨31, 14⟩, ⟨37, 7⟩]
private def selW : List Prime := [⟨3, 1⟩, ⟨5, 1⟩, ⟨7, 2⟩, ⟨17, 5⟩]

/-- `stale_c_check_witness` (outside the domain): through the public `prepare_a`/`Poly::first`/`Poly::next` with
`A = 35` for a 300-bit `n`, the exact `C ≈ −n/35` has 295 bits; the model (and the real code: corpus seed
`siqs_custom … 35 …`, both profiles) returns the polynomials number 0 and 1 WITHOUT a panic and with a stored
`C` that is not the exact one: the size check of `_finish_polynomial` reads the previous value (0 for the first
polynomial, the truncated one afterwards). `select_a` cannot produce such an `A` (`poly_exact_domain`). -/
theorem stale_c_check_witness :
    ((mkFactors nW selW).bind fun f => (prepareA f 35 fbW (-16384)).bind fun pa =>
      (polyAt (mkSieve nW 32768) pa 1).bind fun pol =>
        if polyM pol.type2 35 * pol.c ≠ pol.b * pol.b - pol.n then some () else none).isSome = true := by
  decide +kernel

/-- a 470-bit `n` and the `A` (18 factors, 0.08 % below the target) chosen for it by the real `select_a` with the
driver's own `nfactors` and `interval_size` -/
private def nBig : Int := 2801120721798084443194319083525012728238471807768780386264106652898873979939203804654861052419561097756762317772743590938885607899115726189749
private def aBig : Nat := 134255733937125049937363673407333452819852353612476957981450426063
private def selBig : List Prime := [⟨3529, 604⟩, ⟨3533, 649⟩, ⟨3539, 1604⟩, ⟨3803, 1367⟩, ⟨3943, 1554⟩, ⟨4013, 2031⟩,
  ⟨4049, 2609⟩, ⟨4051, 1374⟩, ⟨4283, 75⟩, ⟨4297, 4181⟩, ⟨4339, 354⟩, ⟨4397, 3888⟩, ⟨4423, 3389⟩, ⟨4493, 975⟩,
  ⟨4517, 3880⟩, ⟨4547, 901⟩, ⟨4603, 273⟩, ⟨4673, 1456⟩]

open Ymq.PolySizes in
/-- `size_assert_fails_470` (counter-witness to totality above 2^448): for this 470-bit `n`, interval
`M = 557056 = siqs::interval_size(470)`, and `A` within 0.1 % of the target, `prepare_a` succeeds but
`Poly::first` does not return: `_finish_polynomial` stops at `assert!(a.a.bits() + 2 * mlog < 255)`
(217 + 2·20). Every hypothesis of `SizeDom` holds except `n < 2^448`. On the real code (both profiles)
`siqs_walk <n> 1 20000 auto auto 4 0 …` panics at that assertion for every probed `n` of 466 bits and more.
When this was found `siqs::siqs` had no size guard (MPQS refuses above 448 bits, QS above 400); since the repair
`a235189` it refuses `n` above 448 bits, the bound of `siqs_walk_total`; `prepare_a`/`Poly::first` called directly
still behave as stated here. -/
theorem size_assert_fails_470 :
    (2 : Int) ^ 448 ≤ nBig ∧ siqsTarget nBig 557056 ≤ 4 * aBig ∧ aBig ≤ 4 * siqsTarget nBig 557056 ∧
    ((mkFactors nBig selBig).bind fun f =>
      (prepareA f aBig (⟨2, 1⟩ :: selBig) (-((557056 : Nat) : Int) / 2)).bind fun pa =>
        if (first (mkSieve nBig 557056) pa).isNone ∧ pa.factors.length = 18 then some () else none).isSome
      = true := by
  decide +kernel

open Ymq.PolySizes Ymq.PolyCrt in
/-- `siqs_walk_total`: totality of the SIQS polynomial preparation on the parameter domain. For a factor base as
`FBase::new` provides it, a selection of distinct primes with roots of `n`, none dividing `n` (`SelOk`, `SelNz`:
`select_siqs_factors` skips the primes with root 0), its table of inverses (`mkFactors`), `A` the product of the
selected primes dividing it (at least one; `A` odd for type 2) and `SizeDom n M A nf` (`0 < n < 2^448`,
`2^15 ≤ M < 2^20`, `target/4 ≤ A ≤ 4·target`, `nf ≤ 32`), and `A ≥ ¾·target` when `nf ≥ 5` (any tolerance divisor
≥ 4; `a_tolerance_divisor` is ≥ 20 from 111 bits on, where `nfactors` reaches 5): `prepare_a` returns, and
`Poly::first` followed by `idx` calls of `Poly::next` returns for EVERY `idx < 2^(nf−1)`. No panic site of the
checked profile is reachable: `assert!(a.bits() < 255)`, `debug_assert!(r0 <= r1)`, the two divisibility
`debug_assert`s, `assert!(b.bit(0))`, the Gray-code `assert`, `assert!(pol.b.is_positive())`,
`unreachable!("no inverse of b")`, the rounded-root `assert`, the three bit-length `assert`s, `i32`/`I256`
overflow, index bounds. Above `2^448` this fails: `size_assert_fails_470`. -/
theorem siqs_walk_total (n : Int) (sel fb : List Prime) (f : Factors) (a mm : Nat)
    (hfb : FbOk n fb) (hs : SelOk n sel) (hz : SelNz n sel) (hf : mkFactors n sel = some f)
    (ha : a = ((afsOf f a).map (·.2.p)).prod) (hne : afsOf f a ≠ [])
    (haodd : isType2 n = true → a % 2 = 1)
    (d : SizeDom n mm a (afsOf f a).length)
    (hroot : (afsOf f a).length ≥ 5 → 3 * siqsTarget n mm ≤ 4 * a) :
    ∃ pa, prepareA f a fb (-((mm : Int) / 2)) = some pa ∧ pa.factors.length = (afsOf f a).length ∧
      ∀ idx, idx < 2 ^ ((afsOf f a).length - 1) → ∃ pol, polyAt (mkSieve n mm) pa idx = some pol := by
  obtain ⟨pa, hpa⟩ := prepareA_isSome (fb := fb) hs hf ha hne
    (fun q hq => ⟨(hfb.prime q hq).pos.ne', hfb.small q hq⟩) d
  obtain ⟨_, _, _, _, _, hfac, _⟩ := prepareA_some hpa
  have hlen : pa.factors.length = (afsOf f a).length := by rw [hfac]; simp
  have hne' : pa.factors.isEmpty = false := by
    rw [hfac]
    cases h : afsOf f a with
    | nil => exact absurd h hne
    | cons x xs => simp
  have w : WalkDom n sel fb f a mm pa :=
    ⟨hfb.prime, hs, hz, hf, ha, haodd, hpa, hne', hlen ▸ d, fun h5 => hroot (hlen ▸ h5)⟩
  refine ⟨pa, hpa, hlen, ?_⟩
  intro idx hidx
  exact walk_total_aux w idx (hlen ▸ hidx)

/-- `roots_exact_unit`: the unit polynomial `A = 1` (no factor; `x² − n` for type 1, `x² + x + (1 − n)/4`
for type 2) returned by `Poly::first`: its coefficients are exact (`n` below 2^128 is asserted by the code),
every prime of the factor base not dividing `a2a` (all primes for type 1, all odd primes for type 2) has
exactly its two roots in the table, and for type 2 the prime 2 gets `(r, r + 1)`, a superset. -/
theorem roots_exact_unit (n : Int) (fb : List Prime) (f : Factors) (mm : Nat) (pa : APrep) (pol : Poly)
    (hfb : FbOk n fb) (hn : f.n = n) (hmm : mm < 2 ^ 32)
    (hpa : prepareA f 1 fb (-((mm : Int) / 2)) = some pa) (he : pa.factors.isEmpty = true)
    (hpol : first (mkSieve n mm) pa = some pol)
    (i : Nat) (hi : i < fb.length) (hi' : i < pol.rs.length) (x : Int) :
    Exact pol 1 ∧
    (a2aOf n 1 % fb[i].p ≠ 0 →
      ((fb[i].p : Int) ∣ polyVal pol (x + -((mm : Int) / 2)) ↔
        (x ≡ (pol.rs[i].1 : Int) [ZMOD fb[i].p] ∨ x ≡ (pol.rs[i].2 : Int) [ZMOD fb[i].p]))) ∧
    (fb[i].p = 2 → i = 0 → isType2 n = true →
      (x ≡ (pol.rs[i].1 : Int) [ZMOD 2] ∨ x ≡ (pol.rs[i].2 : Int) [ZMOD 2])) := by
  obtain ⟨B0, ds, fam, hpaa, _, _⟩ := prepareA_fam hpa
  rw [hn] at fam
  obtain ⟨hw, _⟩ := first_walk (mm := mm) fam (soOk_of hmm) hpol
  have hex : Exact pol 1 := unit_exact hpol he
  have hmem : fb[i] ∈ fb := List.getElem_mem hi
  refine ⟨hex, ?_, ?_⟩
  · intro hnd
    rw [← hpaa] at hex hnd
    exact exact_generic hw hex i hi hi' (hfb.prime _ hmem)
      (lt_trans (hfb.small _ hmem) (by norm_num)) hnd (hfb.root _ hmem).2 x
  · intro hp2 hi0 ht2
    subst hi0
    have hipp : 0 < pa.pps.length := by rw [fam.len]; exact hi
    obtain ⟨_, hpp, _, _⟩ := mkPP_basic (fam.pp 0 hi hipp)
    exact unit_two (s := mkSieve n mm) hpol he ht2 hipp (by rw [hpp, hp2]) hi' x

open Ymq.PolyCrt in
/-- `siqs_B_sq`: the CRT basis of `prepare_a`. For a selection of distinct primes with square roots of
`n` (`SelOk`), the table of inverses of `select_siqs_factors` (`mkFactors`), `A` the product of the
selected primes dividing it, and `prs` the pairs `[r0ⱼ, r1ⱼ]` computed by the model (`rootPairs`): for EVERY
choice `g` of one root per factor, `B = Σⱼ (if g j then r1ⱼ else r0ⱼ)` satisfies `A ∣ B² − n`; and for
type 2 (`n ≡ 1 mod 4`, `A` odd, at least one factor) `B` is odd and `4A ∣ B² − n` (the parity rule: the
roots of factor 0 are odd, all others even). In particular the code's
`debug_assert!((b*b − n) % a == 0)` and `assert!(b.bit(0))` hold for the first polynomial
(`g = fun _ => false`) and for every Gray-code combination. -/
theorem siqs_B_sq (n : Int) (sel : List Prime) (f : Factors) (a : Nat) (prs : List (Nat × Nat))
    (hs : SelOk n sel) (hf : mkFactors n sel = some f)
    (ha : a = ((afsOf f a).map (·.2.p)).prod)
    (hprs : rootPairs f a (afsOf f a) 0 (afsOf f a) = some prs) (g : Nat → Bool) :
    (a : Int) ∣ (bsum g 0 prs : Int) * (bsum g 0 prs : Int) - n ∧
    (n % 4 = 1 → a % 2 = 1 → prs ≠ [] →
      bsum g 0 prs % 2 = 1 ∧ (4 * (a : Int)) ∣ (bsum g 0 prs : Int) * (bsum g 0 prs : Int) - n) :=
  crt_B_sq hs hf ha hprs g

open Ymq.PolyCrt Ymq.PolyWalkB in
/-- `walk_B_sq`: for EVERY polynomial of the Gray walk (family with at least one factor), `B` is the sum
of the CRT roots selected by the Gray code of `idx` (`grayBits idx j` = bit `j` of `idx ^ (idx >> 1)`),
hence `A ∣ B² − n`, and for type 2 (`A` odd) `B` is odd and `4A ∣ B² − n`: the assertions
`debug_assert!(((b*b − n) % a).is_zero())` of `_finish_polynomial` and `assert!(self.b.bit(0))` of
`Poly::first`/`Poly::next` cannot fail, independently of the copies of these checks in the model. -/
theorem walk_B_sq (n : Int) (sel fb : List Prime) (f : Factors) (a mm idx : Nat) (so : Int)
    (pa : APrep) (pol : Poly) (hs : SelOk n sel) (hf : mkFactors n sel = some f)
    (ha : a = ((afsOf f a).map (·.2.p)).prod)
    (hpa : prepareA f a fb so = some pa) (hne : pa.factors.isEmpty = false)
    (hpol : polyAt (mkSieve n mm) pa idx = some pol) :
    pol.b = bsumZ (grayBits idx) 0 pa.roots ∧ (a : Int) ∣ pol.b * pol.b - n ∧
    (n % 4 = 1 → a % 2 = 1 → pol.b % 2 = 1 ∧ (4 * (a : Int)) ∣ pol.b * pol.b - n) := by
  obtain ⟨prs, hprs, _, _, _, hfac, hroots, _, _⟩ := prepareA_some hpa
  obtain ⟨_, hb⟩ := polyAt_b hne idx pol hpol
  have hbz : pol.b = ((bsum (grayBits idx) 0 prs : Nat) : Int) := by
    rw [hb, hroots]; exact bsumZ_cast _ _ _
  obtain ⟨h1, h2⟩ := crt_B_sq hs hf ha hprs (grayBits idx)
  refine ⟨hb, by rw [hbz]; exact h1, ?_⟩
  intro h4 hodd
  have hprs_ne : prs ≠ [] := by
    intro he
    obtain ⟨hl, _⟩ := rootPairs_le (f := f) (a := a) (afs := afsOf f a) _ _ _ hprs
    rw [he] at hl
    have : afsOf f a = [] := List.length_eq_zero_iff.mp hl.symm
    rw [hfac, this] at hne
    simp at hne
  obtain ⟨h3, h5⟩ := h2 h4 hodd hprs_ne
  refine ⟨by rw [hbz]; omega, by rw [hbz]; exact h5⟩

/-! #### non-vacuity of the SIQS theorems: a concrete family (n = 1050589 ≡ 5 mod 8, A = 7·11) -/

private def fbEx : List Prime := [⟨2, 1⟩, ⟨3, 1⟩, ⟨5, 2⟩, ⟨7, 1⟩, ⟨11, 1⟩, ⟨23, 8⟩]
private def selEx : List Prime := [⟨5, 2⟩, ⟨7, 1⟩, ⟨11, 1⟩]
private def fEx : Factors := (mkFactors 1050589 selEx).get (by decide)

example : FbOk 1050589 fbEx := ⟨by decide, by decide, by decide⟩

open Ymq.PolyCrt in
/-- the hypotheses of `siqs_B_sq` are satisfiable (A = 7·11, type 2) -/
example : SelOk 1050589 selEx ∧ mkFactors 1050589 selEx = some fEx ∧
    77 = ((afsOf fEx 77).map (·.2.p)).prod ∧
    (rootPairs fEx 77 (afsOf fEx 77) 0 (afsOf fEx 77)).isSome = true ∧ (1050589 : Int) % 4 = 1 := by
  refine ⟨⟨by decide, by decide, by decide⟩, ?_, by decide, by decide, by decide⟩
  unfold fEx; simp

/-- the hypotheses of `roots_inv`, `roots_walk`, `poly_exact`, `roots_exact` are satisfiable -/
example : ∃ pa pol, prepareA fEx 77 fbEx (-((32768 : Nat) : Int) / 2) = some pa ∧
    pa.factors.isEmpty = false ∧ polyAt (mkSieve 1050589 32768) pa 1 = some pol ∧ Exact pol 77 := by
  have h1 : (prepareA fEx 77 fbEx (-((32768 : Nat) : Int) / 2)).isSome = true := by decide
  obtain ⟨pa, hpa⟩ := Option.isSome_iff_exists.mp h1
  have h2 : ((prepareA fEx 77 fbEx (-((32768 : Nat) : Int) / 2)).bind fun pa =>
      (polyAt (mkSieve 1050589 32768) pa 1).bind fun pol =>
        if pa.factors.isEmpty = false ∧ pol.a = 77 ∧ polyM pol.type2 77 * pol.c = pol.b * pol.b - pol.n
        then some () else none).isSome = true := by decide
  rw [hpa] at h2
  simp only [Option.bind_some] at h2
  obtain ⟨u, hu⟩ := Option.isSome_iff_exists.mp h2
  cases hp : polyAt (mkSieve 1050589 32768) pa 1 with
  | none => rw [hp] at hu; simp at hu
  | some pol =>
    rw [hp] at hu
    simp only [Option.bind_some] at hu
    split at hu
    · rename_i hc
      exact ⟨pa, pol, hpa, hc.1, hp, hc.2.1, hc.2.2⟩
    · cases hu

/-- non-vacuity of `roots_exact_unit`: the unit forms of `n = 1022119` (type 1) and `n = 1050589` (type 2) -/
example : ((prepareA ((mkFactors 1022119 []).get (by decide)) 1 [⟨2, 1⟩, ⟨3, 1⟩, ⟨5, 2⟩, ⟨31, 7⟩] (-16384)).bind fun pa =>
    first (mkSieve 1022119 32768) pa).isSome = true ∧
    ((prepareA ((mkFactors 1050589 []).get (by decide)) 1 fbEx (-16384)).bind fun pa =>
    first (mkSieve 1050589 32768) pa).isSome = true := by decide

set_option exponentiation.threshold 1100 in
open Ymq.PolySizes Ymq.PolyCrt in
/-- non-vacuity of `siqs_walk_total` / `poly_exact_domain`: `n = 1050589`, `A = 7·11·23`, `M = 32768` (target 2000) -/
example : FbOk 1050589 fbEx ∧ SelOk 1050589 [⟨7, 1⟩, ⟨11, 1⟩, ⟨23, 8⟩] ∧ SelNz 1050589 [⟨7, 1⟩, ⟨11, 1⟩, ⟨23, 8⟩] ∧
    (∃ f, mkFactors 1050589 [⟨7, 1⟩, ⟨11, 1⟩, ⟨23, 8⟩] = some f ∧ 1771 = ((afsOf f 1771).map (·.2.p)).prod ∧
      (afsOf f 1771).length = 3) ∧
    SizeDom 1050589 32768 1771 3 := by
  refine ⟨⟨by decide, by decide, by decide⟩, ⟨by decide, by decide, by decide⟩, by unfold SelNz; decide, ?_,
    ⟨by decide, by decide, by decide, by decide, by decide, by decide, by decide⟩⟩
  have h : (mkFactors 1050589 [⟨7, 1⟩, ⟨11, 1⟩, ⟨23, 8⟩]).isSome = true := by decide
  obtain ⟨f, hf⟩ := Option.isSome_iff_exists.mp h
  refine ⟨f, hf, ?_, ?_⟩
  · have : ((mkFactors 1050589 [⟨7, 1⟩, ⟨11, 1⟩, ⟨23, 8⟩]).map fun f =>
        decide (1771 = ((afsOf f 1771).map (·.2.p)).prod)) = some true := by decide
    rw [hf] at this; simpa using this
  · have : ((mkFactors 1050589 [⟨7, 1⟩, ⟨11, 1⟩, ⟨23, 8⟩]).map fun f => (afsOf f 1771).length) = some 3 := by decide
    rw [hf] at this; simpa using this

/-! ### the choice of `A`: `select_siqs_factors` and `select_a` (Ymq/Model/SiqsSelect.lean) -/

open Ymq.SiqsSelect Ymq.PolySelect Ymq.PolySizes Ymq.PolyCrt in
/-- `select_window_assert`: for `nfacs ≥ 1`, a defined target (`mm ≥ 2`) below 2^255, `select_siqs_factors`
returns if and only if its pool — the primes of index ≥ 1 with non-zero root among the first `2·idx + 4·nfacs` of the
factor base, `idx` = number of primes with `p^nfacs < target` — has MORE than `nfacs` elements: this is exactly when
`assert!(selected_idx.len() > nfacs)` (siqs.rs, "cannot sample … primes") holds. When it returns, the target is
`siqsTarget n mm`, and the selection is a sublist of the factor base without its first prime, all roots non-zero,
of more than `nfacs` and at most `4·nfacs` primes; with `FbOk` and distinct primes it satisfies `SelOk` and
`SelNz` (the hypotheses of `siqs_B_sq`, `walk_B_sq`, `siqs_walk_total`). -/
theorem select_window_assert (fb : List Prime) (n : Int) (nfacs mm : Nat) (hnf : 0 < nfacs) :
    (∀ tgt, target n mm = some tgt → bitlen tgt < 256 →
      ((∃ r, selectFactors fb n nfacs mm = some r) ↔
        (pool fb (partitionPoint fb nfacs tgt) nfacs).length > nfacs)) ∧
    (∀ tgt sel, selectFactors fb n nfacs mm = some (tgt, sel) →
      tgt = siqsTarget n mm ∧ sel.Sublist (fb.drop 1) ∧ (∀ q ∈ sel, q.r ≠ 0) ∧
      nfacs < sel.length ∧ sel.length ≤ 4 * nfacs ∧
      (FbOk n fb → (fb.map (·.p)).Nodup → SelOk n sel ∧ SelNz n sel)) := by
  refine ⟨fun tgt ht hb => selectFactors_isSome_iff fb n nfacs mm tgt hnf ht hb, ?_⟩
  intro tgt sel h
  obtain ⟨h1, _, h3, h4, h5, h6⟩ := selectFactors_some hnf h
  refine ⟨h1, h3, h4, h5, h6, ?_⟩
  intro hfb hnd
  exact sel_ok hfb.prime hfb.root hnd h3 h4

open Ymq.SiqsSelect Ymq.PolySelect Ymq.PolySizes Ymq.PolyCrt in
/-- `select_a_sound`: every `A` returned by `select_a` (exhaustive branch for at most 5 factors and a target of at
most 66 bits, sampling loop otherwise; `nfacs ≥ 1`) is the product of `nfacs` selected primes with distinct indices.
For a selection with `SelOk` this is exactly the shape the other theorems ask for: `A = ∏ (afsOf f A)` with
`nfacs` factors (`afsOf` = the selected primes dividing `A`, as `prepare_a` finds them). On the sampling branch `A`
lies strictly inside the tolerance window of some divisor `d`, hence `A ≤ 4·target`; `target ≤ 4A` unless `d = 1`
and `3·target ≤ 4A` when `d ≥ 4` (the hypotheses of `SizeDom` / `siqs_walk_total`). -/
theorem select_a_sound (n : Int) (sel : List Prime) (f : Factors) (tgt nfacs want fuel : Nat) (as : List Nat)
    (hnf : 0 < nfacs) (hs : SelOk n sel) (hf : mkFactors n sel = some f)
    (h : selectA n tgt nfacs want (sel.map (·.p)) fuel = some as) (A : Nat) (hA : A ∈ as) :
    IsProd (sel.map (·.p)) nfacs A ∧ A = ((afsOf f A).map (·.2.p)).prod ∧ (afsOf f A).length = nfacs ∧
    (¬ (nfacs ≤ 5 ∧ bitlen tgt ≤ 66) →
      ∃ d, (tolWindow tgt d).1 < A ∧ A < (tolWindow tgt d).2 ∧ A ≤ 4 * tgt ∧
        (d ≠ 1 → tgt ≤ 4 * A) ∧ (4 ≤ d → 3 * tgt ≤ 4 * A)) := by
  obtain ⟨h1, h2⟩ := selectA_sound hnf h A hA
  obtain ⟨h3, h4⟩ := isProd_afs hs hf h1
  refine ⟨h1, h3, h4, ?_⟩
  intro hns
  obtain ⟨d, hd1, hd2⟩ := h2 hns
  obtain ⟨b1, b2, b3⟩ := tolWindow_bounds hd1 hd2
  exact ⟨d, hd1, hd2, b1, b2, b3⟩

open Ymq.SiqsSelect Ymq.PolySelect Ymq.PolySizes in
/-- `siqs_select_walk_total`: end to end. For a factor base as `FBase::new` provides it (distinct primes, 2 only in
front), `0 < n < 2^448`, `2^15 ≤ M < 2^20`, `1 ≤ nfacs ≤ 32`: whenever `select_siqs_factors` returns a selection and
`select_a` returns a list containing `A` with `target/4 ≤ A ≤ 4·target` (and `A ≥ ¾·target` for 5 factors and more),
the table of inverses exists, `prepare_a` returns, `A` has exactly `nfacs` factors and every polynomial of the Gray
walk is produced: no panic site between the choice of `A` and the sieve is reachable. -/
theorem siqs_select_walk_total (n : Int) (fb sel : List Prime) (nfacs mm want fuel tgt A : Nat) (as : List Nat)
    (hfb : FbOk n fb) (hnd : (fb.map (·.p)).Nodup) (h2 : ∀ q ∈ fb.drop 1, q.p ≠ 2)
    (hnf : 0 < nfacs) (hnf32 : nfacs ≤ 32)
    (hsel : selectFactors fb n nfacs mm = some (tgt, sel))
    (has : selectA n tgt nfacs want (sel.map (·.p)) fuel = some as) (hA : A ∈ as)
    (hn0 : 0 < n) (hn : n < 2 ^ 448) (hm1 : 32768 ≤ mm) (hm2 : mm < 2 ^ 20)
    (hlo : tgt ≤ 4 * A) (hhi : A ≤ 4 * tgt) (h34 : nfacs ≥ 5 → 3 * tgt ≤ 4 * A) :
    ∃ f pa, mkFactors n sel = some f ∧ prepareA f A fb (-((mm : Int) / 2)) = some pa ∧
      pa.factors.length = nfacs ∧
      ∀ idx, idx < 2 ^ (nfacs - 1) → ∃ pol, polyAt (mkSieve n mm) pa idx = some pol :=
  select_walk_total hfb.prime hfb.small hfb.root hnd h2 hnf hnf32 hsel has hA hn0 hn hm1 hm2 hlo hhi h34

open Ymq.SiqsSelect Ymq.PolySelect in
/-- `select_a_never_returns`: termination of the sampling loop of `select_a` is conditional. If the selection
admits fewer than `want` products of `nfacs` primes (`C(|selection|, nfacs) < want`), the model returns `none` for
EVERY number of iterations granted: the loop `while iters < 1000 * want || candidates.len() < want` can neither
reach `want` candidates nor the early exit. (The loop does not poll `should_abort`.) -/
theorem select_a_never_returns (n : Int) (tgt nfacs want : Nat) (ps : List Nat) (hnf : 0 < nfacs)
    (hsamp : ¬ (nfacs ≤ 5 ∧ bitlen tgt ≤ 66)) (hfew : Nat.choose ps.length nfacs < want) :
    ∀ fuel, selectA n tgt nfacs want ps fuel = none :=
  selectA_never hnf hsamp hfew

/-- a 150-bit `n` with the 8-prime factor base `FBase::new(n, 8)` builds (preference `fb_size = 8`) -/
private def nHang : Int := 1273723276440496174502151209271051750591428621
private def fbHang : List Prime := [⟨2, 1⟩, ⟨5, 1⟩, ⟨7, 2⟩, ⟨11, 9⟩, ⟨13, 9⟩, ⟨17, 5⟩, ⟨19, 7⟩, ⟨31, 1⟩]

open Ymq.SiqsSelect in
/-- `select_a_hang_witness`: for this `n` and factor base, with the driver's own `nfactors = 6`,
`interval_size = 32768`, `a_value_count = 98`: `select_siqs_factors` returns the 7 primes of the pool, only
`C(7, 6) = 7 < 98` products exist, and `select_a` never returns. On the real code
`siqs_select 1273723276440496174502151209271051750591428621 1 8 auto auto auto` does not answer (corpus seed). -/
theorem select_a_hang_witness :
    ∃ tgt sel, selectFactors fbHang nHang 6 32768 = some (tgt, sel) ∧ sel.length = 7 ∧
      ∀ fuel, selectA nHang tgt 6 98 (sel.map (·.p)) fuel = none := by
  have h : (selectFactors fbHang nHang 6 32768).isSome = true := by decide +kernel
  obtain ⟨⟨tgt, sel⟩, hsel⟩ := Option.isSome_iff_exists.mp h
  have hl : ((selectFactors fbHang nHang 6 32768).map fun r => r.2.length) = some 7 := by decide +kernel
  rw [hsel] at hl
  simp only [Option.map_some, Option.some.injEq] at hl
  refine ⟨tgt, sel, hsel, hl, ?_⟩
  apply select_a_never_returns nHang tgt 6 98 _ (by norm_num) (by omega)
  rw [List.length_map, hl]; decide

open Ymq.SiqsSelect in
/-- `select_assert_fires_witness`: for `n = 747329918201907168682715089996070935618991551` and its 8-prime factor
base (13 divides `n`), `nfacs = 6`: the pool has 6 elements and the assertion of `select_siqs_factors` fires
(real code: `internal error: cannot sample 6 primes from fb[0..6]`, corpus seed). -/
theorem select_assert_fires_witness :
    selectFactors [⟨2, 1⟩, ⟨3, 1⟩, ⟨5, 1⟩, ⟨7, 4⟩, ⟨11, 4⟩, ⟨13, 0⟩, ⟨19, 9⟩, ⟨23, 3⟩]
      747329918201907168682715089996070935618991551 6 32768 = none := by
  decide +kernel

open Ymq.Gen.Params in
/-- `siqs_params_in_domain`: the translated parameter functions keep the sieve inside `SizeDom` for every input of
at most 448 bits: `interval_size` lies in `[2^15, 2^20)`, `nfactors` in `[2, 17]`, and wherever `nfactors ≥ 5`
the tolerance divisor is at least 20 (so `A ≥ ¾·target` at the default tolerance). -/
theorem siqs_params_in_domain (bits : Nat) (hb : bits ≤ 448) (ud : Bool) :
    (∃ mm, siqs.interval_size bits ud = some mm ∧ 32768 ≤ mm ∧ mm < 2 ^ 20) ∧
    (∃ nf, siqs.nfactors bits = some nf ∧ 2 ≤ nf ∧ nf ≤ 17 ∧
      ∃ dv, siqs.a_tolerance_divisor bits = some dv ∧ 3 ≤ dv ∧ (5 ≤ nf → 20 ≤ dv)) := by
  have key : ∀ b ∈ List.range 449, ∀ u ∈ [true, false],
      ((siqs.interval_size b u).any fun mm => decide (32768 ≤ mm ∧ mm < 2 ^ 20)) = true ∧
      ((siqs.nfactors b).any fun nf => decide (2 ≤ nf ∧ nf ≤ 17) &&
        (siqs.a_tolerance_divisor b).any fun dv => decide (3 ≤ dv ∧ (5 ≤ nf → 20 ≤ dv))) = true := by
    decide +kernel
  obtain ⟨h1, h2⟩ := key bits (List.mem_range.mpr (by omega)) ud (by cases ud <;> simp)
  constructor
  · cases hm : siqs.interval_size bits ud with
    | none => rw [hm] at h1; simp at h1
    | some mm => rw [hm] at h1; simp at h1; exact ⟨mm, rfl, h1.1, h1.2⟩
  · cases hn : siqs.nfactors bits with
    | none => rw [hn] at h2; simp at h2
    | some nf =>
      rw [hn] at h2
      simp only [Option.any_some, Bool.and_eq_true, decide_eq_true_eq] at h2
      obtain ⟨⟨a1, a2⟩, h3⟩ := h2
      cases hd : siqs.a_tolerance_divisor bits with
      | none => rw [hd] at h3; simp at h3
      | some dv => rw [hd] at h3; simp at h3; exact ⟨nf, rfl, a1, a2, dv, rfl, h3.1, fun h5 => by omega⟩

open Ymq.SiqsSelect in
/-- non-vacuity of `select_window_assert`, `select_a_sound`, `siqs_select_walk_total`: `n = 1050589`, 3 factors,
`M = 32768`: the exhaustive branch returns `A = 7·11·23 = 1771` among the 3 values closest to the target 2000 -/
example : (fbEx.map (·.p)).Nodup ∧ (∀ q ∈ fbEx.drop 1, q.p ≠ 2) ∧
    ((selectFactors fbEx 1050589 3 32768).bind fun r =>
      (selectA 1050589 r.1 3 3 (r.2.map (·.p)) 100).bind fun as =>
        if 1771 ∈ as ∧ r.1 ≤ 4 * 1771 ∧ 1771 ≤ 4 * r.1 then some () else none).isSome = true := by
  refine ⟨by decide, by decide, by decide +kernel⟩

/-! ### MPQS -/

open Ymq.MpqsPoly Ymq.PolyMpqs in
/-- `hensel_lift`: the arithmetic of `make_poly`. For `r² ≡ n (mod D)` and `i` an inverse of `2r` modulo `D`:
`b = r + ((c·i) mod D)·D` satisfies `b² ≡ n (mod D²)`, where `c = ((n − r²)/D) mod D` when `r² ≤ n` and
`c = (D − ((r² − n)/D) mod D) mod D` when `r² > n` (tiny `n`: the branch the code takes since the repair of the
`n − h1*h1` underflow); and this is the value the model computes (`henselB`), so the code's
`debug_assert!((b * b) % (d * d) == n % (d * d))` cannot fail. `D` need not be prime (composite pseudo-squares
are covered). -/
theorem hensel_lift (n d r : Nat) :
    (∀ i, 0 < d → r * r % d = n % d → r * r ≤ n → 2 * r * i % d = 1 % d →
      (r + (n - r * r) / d % d * i % d * d) * (r + (n - r * r) / d % d * i % d * d) % (d * d)
        = n % (d * d)) ∧
    (∀ i, 0 < d → r * r % d = n % d → n < r * r → 2 * r * i % d = 1 % d →
      (r + (d - (r * r - n) / d % d) % d * i % d * d) * (r + (d - (r * r - n) / d % d) % d * i % d * d) % (d * d)
        = n % (d * d)) ∧
    (∀ b, henselB n d r = some b → b * b % (d * d) = n % (d * d)) :=
  ⟨fun i hd hr hle hi => hensel n d r i hd hr hle hi, fun i hd hr hlt hi => hensel_neg n d r i hd hr hlt hi,
    fun _ h => henselB_sq h⟩

open Ymq.MpqsPoly in
example : henselB 1000003000009 211 58 = some 43313 ∧ (henselB 55019 307 251).isSome = true := by decide +kernel

open Ymq.MpqsPoly Ymq.PolyMpqs in
/-- `mpqs_identity`: every polynomial returned by the model of `make_poly` has `A = D²` and satisfies
* `n ≡ 1 (mod 4)`: `B` odd, `(2Ax + B)² − n = 4A·(Ax² + Bx + C)`, `bb = (n + B)/2`;
* otherwise: `B = 2·bb`, `(Ax + bb)² − n = A·(Ax² + Bx + C)`;
and `dinv·D ≡ 1 (mod n)` (so that `y = |Ax + bb|·dinv` squares to `P(x)` modulo `n`). -/
theorem mpqs_identity (n d r : Nat) (pol : MpqsPoly.Poly) (h : makePoly n d r = some pol) (x : Int) :
    pol.a = d * d ∧ pol.d = d ∧ d * pol.dinv % n = 1 % n ∧
    (n % 4 = 1 → pol.b % 2 = 1 ∧ 2 * pol.bb = n + pol.b ∧
      (2 * (pol.a : Int) * x + pol.b) ^ 2 - n = 4 * pol.a * mpqsVal pol x) ∧
    (n % 4 ≠ 1 → pol.b = 2 * pol.bb ∧
      ((pol.a : Int) * x + pol.bb) ^ 2 - n = pol.a * mpqsVal pol x) := by
  obtain ⟨ok, hd, _, hdinv⟩ := makePoly_ok h
  refine ⟨by rw [ok.da, hd], hd, hdinv, ?_, ?_⟩
  · intro h4
    obtain ⟨hb, hc, hbb⟩ := ok.odd h4
    refine ⟨hb, hbb, ?_⟩
    unfold mpqsVal
    linear_combination (-1 : Int) * hc
  · intro h4
    obtain ⟨hb, hc⟩ := ok.even h4
    refine ⟨hb, ?_⟩
    unfold mpqsVal
    rw [hb]; push_cast
    linear_combination (-1 : Int) * hc

open Ymq.MpqsPoly in
example : (makePoly 1000003000009 211 58).isSome = true := by decide +kernel

open Ymq.MpqsPoly Ymq.PolyMpqs in
/-- `make_poly_total`: `make_poly(n, D, r)` returns — none of `assert!(d.bits() < 128)`, `assert!(b.bits() < 256)`,
`assert!(c.abs().bits() < 256)`, the three `debug_assert`s, the two `inv_mod(..).unwrap()`, the subtraction
`n - h1*h1`, `d*d - b` — can fail whenever: `D` odd, `1 < D < 2^127` (`mpqs` asserts `d_target.bits() < 127`),
`r < D`, `r² ≡ n (mod D)`, `gcd(2r, D) = gcd(D, n) = 1` (what `sieve_for_polys` checks before it emits `(D, r)`;
`D` need not be prime), `r² ≤ n` (implied by `D² ≤ n`), and `n < 2^254·D²` (for `n < 2^448`, the guard of `mpqs`,
this holds as soon as `D ≥ 2^97`, far below the values `≈ (2n)^(1/4)/√(M/2)` the driver uses; it also holds for
every `n < 2^254`). (`r² ≤ n` is kept as a hypothesis here; for `r² > n` the code used to underflow and now takes the
second branch of `hensel_lift`: corpus seeds `mpqs_poly 55019 1 40 32768 307`.) -/
theorem make_poly_total (n d r : Nat) (hd1 : 1 < d) (hdodd : d % 2 = 1) (hd : d < 2 ^ 127) (hr : r < d)
    (hsq : r * r % d = n % d) (hle : r * r ≤ n) (hg1 : Nat.gcd (2 * r) d = 1) (hg2 : Nat.gcd d n = 1)
    (hn1 : 1 < n) (hnd : n < 2 ^ 254 * (d * d)) : ∃ pol, makePoly n d r = some pol :=
  makePoly_isSome hd1 hdodd hd hr hsq hle hg1 hg2 hn1 hnd

set_option exponentiation.threshold 1100 in
example : (1 : Nat) < 211 ∧ 211 % 2 = 1 ∧ 211 < 2 ^ 127 ∧ 58 < 211 ∧ 58 * 58 % 211 = 1000003000009 % 211 ∧
    58 * 58 ≤ 1000003000009 ∧ Nat.gcd (2 * 58) 211 = 1 ∧ Nat.gcd 211 1000003000009 = 1 ∧
    1000003000009 < 2 ^ 254 * (211 * 211) := by decide

open Ymq.MpqsPoly Ymq.PolyMpqs in
/-- `sieve_for_polys_sound`: every pair `(D, r)` returned by `sieve_for_polys(n, bmin, width)` (any width) has
`bmin ≤ D < bmin + width`, `D ≡ 3 (mod 4)`, `r² ≡ n (mod D)`, `gcd(n mod D, D) = 1`, and no small prime `p < 200` divides
`D` except possibly `D = p` itself below `bmin`'s reach (`bmin ≤ p` and `D < 2p`): exactly the hypotheses
`make_poly_total` and `hensel_lift` need (with `D` odd since `D ≡ 3 mod 4`). -/
theorem sieve_for_polys_sound (n bmin width : Nat) : ∀ dr ∈ sieveForPolys n bmin width,
    bmin ≤ dr.1 ∧ dr.1 < bmin + width ∧ dr.1 % 4 = 3 ∧ dr.2 * dr.2 % dr.1 = n % dr.1 ∧
    Nat.gcd (n % dr.1) dr.1 = 1 ∧
    (∀ p ∈ Ymq.Gen.Primality.smallPrimes, p ∣ dr.1 → ¬ (bmin > p ∨ dr.1 ≥ 2 * p)) :=
  sieveForPolys_sound n bmin width

open Ymq.MpqsPoly in
example : sieveForPolys 1000003000009 150 100 = [(151, 49), (179, 110), (191, 20), (199, 50), (211, 58), (227, 195)] := by
  decide +kernel

open Ymq.Gen.CallSites in
/-- `callsite_offsets`: the start offsets at the call sites the harness cannot reach — `sieve_a` → `prepare_a`,
`siqs_sieve_poly` → `Sieve::new`, `SieveSIQS::new` → `offset_modp`, `mpqs_poly` → `prepare_prime`/`Sieve::new`
(expressions translated from the source, `translate/callsites.py`, which also pins the Gray-walk loop of `sieve_a`, the
chunks of 16 and `dinv_modp[idx]` of `process_poly_block`/`mpqs_poly` and the set-up loops of `qsieve()`) — all equal
`−⌊M/2⌋`, the offset `so` of every theorem here (`(mkSieve n M).startOffset`). -/
theorem callsite_offsets (n : Int) (mm : Nat) :
    siqsPrepareOffset mm = -((mm : Int) / 2) ∧ siqsSieveOffset mm = -((mm : Int) / 2) ∧
    siqsContextOffset mm = -((mm : Int) / 2) ∧ mpqsOffset mm = -((mm : Int) / 2) ∧
    (mkSieve n mm).startOffset = -((mm : Int) / 2) ∧ mpqsChunk = 16 := by
  have h1 : Int.tdiv (-(mm : Int)) 2 = -((mm : Int) / 2) := by
    rw [Int.neg_tdiv, Int.tdiv_eq_ediv_of_nonneg (by omega)]
  have h2 : -(Int.tdiv (mm : Int) 2) = -((mm : Int) / 2) := by
    rw [Int.tdiv_eq_ediv_of_nonneg (by omega)]
  exact ⟨h1, h1, h2, h1, rfl, rfl⟩

open Ymq.MpqsPoly Ymq.PolyMpqs in
/-- `prepare_prime_exact`: all three branches of `Poly::prepare_prime`, for a polynomial returned by
`make_poly`, a prime `p` of the factor base with root `r` (`r < p`, `r² ≡ n`), `dinv` as
`batch_inversion` provides it (`dinvModp`: the inverse of `D` modulo `p`, 0 when `p ∣ D`), and any
sieve position `x` (entry `r` of the table stands for the position `x = r + offset`):
* `p = 2`: the entries are `(0, 1)`: a superset of the roots;
* odd `p ∣ D`: `r1 = r2 < p` and `p ∣ P(x + offset) ⟺ x ≡ r1` — for either sign of `C`;
* odd `p ∤ D`: `r1, r2 < p` and `p ∣ P(x + offset) ⟺ x ≡ r1 ∨ x ≡ r2`. -/
theorem prepare_prime_exact (n d r0 : Nat) (pol : MpqsPoly.Poly) (hpol : makePoly n d r0 = some pol)
    (p r : Nat) (offset : Int) (hp : Nat.Prime p) (hr : r < p) (hsq : (r : Int) * r ≡ n [ZMOD p])
    (r1 r2 : Nat) (h : preparePrime pol p r (dinvModp d p) offset = some (r1, r2)) (x : Int) :
    (p = 2 → (r1, r2) = (0, 1) ∧ (x ≡ (r1 : Int) [ZMOD p] ∨ x ≡ (r2 : Int) [ZMOD p])) ∧
    (p ≠ 2 → p ∣ d → r1 = r2 ∧ r1 < p ∧
      ((p : Int) ∣ mpqsVal pol (x + offset) ↔ x ≡ (r1 : Int) [ZMOD p])) ∧
    (p ≠ 2 → ¬ p ∣ d → r1 < p ∧ r2 < p ∧
      ((p : Int) ∣ mpqsVal pol (x + offset) ↔ (x ≡ (r1 : Int) [ZMOD p] ∨ x ≡ (r2 : Int) [ZMOD p]))) := by
  obtain ⟨ok, hd, _, _⟩ := makePoly_ok hpol
  refine ⟨?_, ?_, ?_⟩
  · intro h2
    subst h2
    obtain ⟨e, hx⟩ := preparePrime_two (pol := pol) (r := r) (dinv := dinvModp d 2) (offset := offset)
    rw [e] at h
    injection h with h
    injection h with ha hb
    subst ha hb
    exact ⟨rfl, hx x⟩
  · intro h2 hpd
    have hz : dinvModp d p = 0 := by
      unfold dinvModp
      rw [PolyInv.invMod_zero hp.two_le (by rw [Nat.mod_mod]; exact Nat.mod_eq_zero_of_dvd hpd)]
      rfl
    rw [hz] at h
    exact preparePrime_div ok hp h2 (hd ▸ hpd) h x
  · intro h2 hpd
    obtain ⟨i, hi, hilt, hinv⟩ := PolyInv.invMod_prime (a := d % p) hp
      (by rw [Nat.mod_mod]; intro h0; exact hpd (Nat.dvd_of_mod_eq_zero h0))
    have hz : dinvModp d p = i := by unfold dinvModp; rw [hi]; rfl
    rw [hz] at h
    have hi0 : i ≠ 0 := by
      intro h0; rw [h0, Nat.mul_zero, Nat.zero_mod] at hinv; cases hinv
    have hdi : pol.d * i % p = 1 := by
      rw [hd, Nat.mul_mod]
      rw [Nat.mul_mod, Nat.mod_mod] at hinv
      exact hinv
    exact preparePrime_generic ok hp h2 hr hsq hi0 hdi h x

open Ymq.MpqsPoly in
/-- non-vacuity: `D = 19` lies in the factor base of `n = 1000003000009`; branches `p = 2`, `p ∣ D`, generic -/
example : ((makePoly 1000003000009 19 7).bind fun pol =>
    (preparePrime pol 2 1 (dinvModp 19 2) (-16384)).bind fun _ =>
    (preparePrime pol 19 7 (dinvModp 19 19) (-16384)).bind fun _ =>
    preparePrime pol 17 7 (dinvModp 19 17) (-16384)).isSome = true := by decide +kernel

/-! ### classical quadratic sieve -/

open Ymq.QsRoots Ymq.PolyQs in
/-- `qs_roots_exact`: for the context built by `SieveQS::new(n)` and a prime `(p, r)` of the factor base
(`r < p`, `r² ≡ n`): with `m = 2` in "only odds" mode (`n ≡ 1 mod 8`) and `m = 1` otherwise,
* forward: `p ∣ (R + m·x)² − n ⟺ x ≡ f1 ∨ x ≡ f2 (mod p)` for the pair returned by `prepare_prime_fwd`;
* backward: `p ∣ (R − m·(x+1))² − n ⟺ x ≡ b1 ∨ x ≡ b2 (mod p)` for `prepare_prime_bck`;
for every prime when `m = 1` and every odd prime when `m = 2`; in "only odds" mode the prime 2 gets
`(0, 1)`, a superset. -/
theorem qs_roots_exact (n : Nat) (q : QS) (hq : QsRoots.new n = some q) (pr : Prime)
    (hp : Nat.Prime pr.p) (hr : pr.r < pr.p) (hsq : (pr.r : Int) * pr.r ≡ (n : Int) [ZMOD pr.p])
    (x : Int) :
    q.n = n ∧ q.onlyOdds = (n % 8 == 1) ∧
    (¬ (q.onlyOdds = true ∧ pr.p = 2) →
      (∀ f1 f2, prepareFwd q pr = some (f1, f2) → f1 < pr.p ∧ f2 < pr.p ∧
        ((pr.p : Int) ∣ fwdVal q x ↔ (x ≡ (f1 : Int) [ZMOD pr.p] ∨ x ≡ (f2 : Int) [ZMOD pr.p]))) ∧
      (∀ b1 b2, prepareBck q pr = some (b1, b2) → b1 < pr.p ∧ b2 < pr.p ∧
        ((pr.p : Int) ∣ bckVal q x ↔ (x ≡ (b1 : Int) [ZMOD pr.p] ∨ x ≡ (b2 : Int) [ZMOD pr.p])))) ∧
    (q.onlyOdds = true → pr.p = 2 →
      prepareFwd q pr = some (0, 1) ∧ prepareBck q pr = some (0, 1) ∧
      (x ≡ ((0 : Nat) : Int) [ZMOD 2] ∨ x ≡ ((1 : Nat) : Int) [ZMOD 2])) := by
  have hqn : q.n = n ∧ q.onlyOdds = (n % 8 == 1) := by
    unfold QsRoots.new at hq
    dsimp only at hq
    split at hq
    · cases hq
    · split at hq
      · cases hq
      · injection hq with hq; subst hq; exact ⟨rfl, rfl⟩
  refine ⟨hqn.1, hqn.2, ?_, ?_⟩
  · intro hno
    have hodd : q.onlyOdds = true → pr.p ≠ 2 := fun h1 h2 => hno ⟨h1, h2⟩
    rw [← hqn.1] at hsq
    exact ⟨fun f1 f2 h => qs_fwd_exact hp hr hsq hodd h x,
      fun b1 b2 h => qs_bck_exact hp hr hsq hodd h x⟩
  · intro hoo hp2
    obtain ⟨p, r⟩ := pr
    simp only at hp2 hr
    subst hp2
    obtain ⟨e1, e2⟩ := qs_two (q := q) (r := r) hoo hr
    refine ⟨e1, e2, ?_⟩
    have : x % 2 = 0 ∨ x % 2 = 1 := by omega
    rcases this with h | h
    · left; exact h
    · right; exact h

open Ymq.QsRoots in
example : ((QsRoots.new 1000003000009).bind fun q =>
    (prepareFwd q ⟨17, 7⟩).bind fun _ => prepareBck q ⟨17, 7⟩).isSome = true := by decide +kernel

open Ymq.Gen.QsShift Ymq.PolyQs in
/-- `lgblock_shift`: the body of `next_lgblock` (translated from the source text) maps both roots
`r < p < 2^31` to `(r − L) mod p`, where `o = L mod p` and `L = nblocks·BLOCK_SIZE` is the size of a large
block; and `(r − L) mod p` is the right entry for the next large block: position `x` of the new block is
position `x + L` of the old one, `x + L ≡ r ⟺ x ≡ (r − L) mod p`. Hence by induction `k` shifts give
`(r − k·L) mod p`. -/
theorem lgblock_shift (nb p r1 r2 : Nat) (h1 : r1 < p) (h2 : r2 < p) (hp : p < 2 ^ 31) :
    shiftPair (blkszModp nb p) p r1 r2
      = ((r1 + p - blkszModp nb p) % p, (r2 + p - blkszModp nb p) % p) ∧
    (shiftPair (blkszModp nb p) p r1 r2).1 < p ∧ (shiftPair (blkszModp nb p) p r1 r2).2 < p ∧
    (∀ x : Int, (x + (largeBlockSize nb : Int) ≡ (r1 : Int) [ZMOD p]) ↔
      x ≡ ((shiftPair (blkszModp nb p) p r1 r2).1 : Int) [ZMOD p]) ∧
    (∀ x : Int, (x + (largeBlockSize nb : Int) ≡ (r2 : Int) [ZMOD p]) ↔
      x ≡ ((shiftPair (blkszModp nb p) p r1 r2).2 : Int) [ZMOD p]) := by
  have hppos : 0 < p := by omega
  have ho : blkszModp nb p < p := Nat.mod_lt _ hppos
  have e := shiftPair_eq (blkszModp nb p) p r1 r2 ho h1 h2 hp
  rw [e]
  exact ⟨rfl, Nat.mod_lt _ hppos, Nat.mod_lt _ hppos,
    fun x => shift_root_iff nb p r1 hppos x, fun x => shift_root_iff nb p r2 hppos x⟩

open Ymq.Gen.QsShift in
example : shiftPair (blkszModp 2 1009) 1009 5 1000 = (54, 40) := by decide

end Ymq.C12
