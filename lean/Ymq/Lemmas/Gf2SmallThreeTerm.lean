/-
C14 "small", helper lemmas part 19 (Mathlib): Montgomery's three-term property derived from an
extended invariant `VInv` that adds the directions `V_m` to the ghost history.  What is proved here:
`VInv` (with `LInv`) IMPLIES the hypothesis `h3` of the checked inductive step.  What is not proved:
that a step preserves `VInv` (see the docstring of `VInv`).
-/
import Ymq.Lemmas.Gf2SmallLoopRun

namespace Ymq.Gf2Small
open Ymq.Gf2 Ymq.Gf2Genblock Ymq.Gf2Lanczos
open scoped Matrix

/-- the vectors not selected in any of the blocks `m, …, t-1`: `!S_m & … & !S_{t-1}` -/
def pc (Ss : List Nat) (m t : Nat) : Nat :=
  (List.range' m (t - m)).foldl (fun a l => a &&& (M64 ^^^ Ss.getD l 0)) M64

theorem foldl_and_zero (l : List Nat) (f : Nat → Nat) : l.foldl (fun a x => a &&& f x) 0 = 0 := by
  induction l with
  | nil => rfl
  | cons x l ih => simp [ih]

theorem foldl_and_assoc (l : List Nat) (f : Nat → Nat) (a b : Nat) :
    l.foldl (fun a x => a &&& f x) (a &&& b) = a &&& l.foldl (fun a x => a &&& f x) b := by
  induction l generalizing b with
  | nil => rfl
  | cons x l ih => simp only [List.foldl_cons, Nat.and_assoc, ih]

/-- peeling the first block: if nothing is left after `m+1, …` nothing is left after `m, …` -/
theorem pc_left_zero (Ss : List Nat) {m t : Nat} (hmt : m < t) (h : pc Ss (m + 1) t = 0) : pc Ss m t = 0 := by
  unfold pc at h ⊢
  rw [show t - m = (t - (m + 1)) + 1 by omega, List.range'_succ, List.foldl_cons,
    Nat.and_comm, foldl_and_assoc, h, Nat.and_zero]

theorem projS_zero : projS 0 = 0 := by
  rw [projS, ← Matrix.diagonal_zero]
  congr 1
  funext t
  rw [Nat.zero_testBit]; rfl

/-- Extended invariant: `vhist` lists every direction `V_m`; `L = st.ws.length`, `i = L - 1`.
* `recur`: the recurrence `V_{j+1} = A·W_j + V_j + Σ_{l ≤ j} W_l c_l`, read against any block `X`
  A-orthogonal to `W_0 … W_j`;
* `dd`: every vector of `V_m` selected in one of the blocks `m … i-1` lies, modulo the earlier `W`'s, in
  the span of the `W`'s: against a block `X` A-orthogonal to `W_0 … W_{i-1}` it vanishes;
* `notProj`: a block that is no longer projected (purged, or consumed now) has `!S_{j+1} & … & !S_{i-1} = 0`
  (the purge condition `mask == 0`; `masks[l] = !S_l`).
NOT PROVED: preservation of `VInv` by `lanczosStep` (for `dd`: the columns of `V_{i+1}` outside `S_i` are
those of `V_i` modulo the `W`'s because `A·W_i` vanishes there; for `notProj`: `maskFor masks j L` is
`pc Ss (j+1) (L-1)`), and its base case. -/
structure VInv (k : Nat) (cols : List (List Nat)) (st : LState) (hist vhist : List (List Nat)) (Ss : List Nat) :
    Prop where
  lastW : st.ws.getLast? = some (hist.getD (st.ws.length - 1) [])
  lastV : st.vs.getLast? = some (vhist.getD (st.ws.length - 1) [])
  vOrth : ∀ l, l + 1 < st.ws.length → Q k cols (hist.getD l []) (vhist.getD (st.ws.length - 1) []) = 0
  recur : ∀ j, j + 1 < st.ws.length → ∀ X, BlockOK cols.length X → (∀ l, l ≤ j → Q k cols X (hist.getD l []) = 0) →
    (CM cols.length X)ᵀ * gramA k cols * (gramA k cols * CM cols.length (hist.getD j [])) =
      Q k cols X (vhist.getD (j + 1) []) + Q k cols X (vhist.getD j [])
  dd : ∀ m, m < st.ws.length → ∀ X, BlockOK cols.length X →
    (∀ l, l + 1 < st.ws.length → Q k cols X (hist.getD l []) = 0) →
    Q k cols X (vhist.getD m []) * (1 - projS (pc Ss m (st.ws.length - 1))) = 0
  notProj : ∀ j, j < st.ws.length → ¬ Projected st.ws st.masks st.ws.length j →
    j + 1 < st.ws.length ∧ pc Ss (j + 1) (st.ws.length - 1) = 0

/-- Montgomery's three-term property: the blocks that are no longer projected are A-orthogonal to the
new direction `A·W_i ^ V_i` -/
theorem three_term_of_VInv {k : Nat} {cols : List (List Nat)} (hM : MatOK k cols) {Y0 : List Nat} {st : LState}
    {hist vhist : List (List Nat)} {Ss : List Nat} (hInv : LInv k cols Y0 st hist Ss)
    (hV : VInv k cols st hist vhist Ss) :
    ∀ next0, Direction k cols st next0 → ∀ j, j < st.ws.length →
      ¬ Projected st.ws st.masks st.ws.length j → Q k cols (hist.getD j []) next0 = 0 := by
  rintro next0 ⟨wl, pv, nx, hwl, hpv, hnx, rfl⟩ j hj hnp
  obtain ⟨hj1, hpc⟩ := hV.notProj j hj hnp
  -- the last blocks
  have ewl : wl = hist.getD (st.ws.length - 1) [] := by
    have := hV.lastW; rw [hwl] at this; injection this
  have epv : pv = vhist.getD (st.ws.length - 1) [] := by
    have := hV.lastV; rw [hpv] at this; injection this
  obtain ⟨wl', hwl', hwlOK⟩ := hInv.wf.lastW
  have : wl' = wl := by rw [hwl] at hwl'; injection hwl' with e; exact e.symm
  subst this
  obtain ⟨pv', hpv', hpvOK⟩ := hInv.wf.lastV
  have : pv' = pv := by rw [hpv] at hpv'; injection hpv' with e; exact e.symm
  subst this
  obtain ⟨nx', hnx', hnxOK⟩ := mulAabOpt_ok hM hwlOK
  have : nx' = nx := by rw [hnx] at hnx'; injection hnx' with e; exact e.symm
  subst this
  -- X = W_i is A-orthogonal to the earlier blocks
  have hXorth : ∀ l, l + 1 < st.ws.length → Q k cols wl' (hist.getD l []) = 0 := by
    intro l hl
    rw [ewl]
    exact hInv.orth (st.ws.length - 1) l (by omega) (by omega) (by omega)
  have hpcj : pc Ss j (st.ws.length - 1) = 0 := pc_left_zero Ss (by omega) hpc
  have d1 : Q k cols wl' (vhist.getD (j + 1) []) = 0 := by
    have := hV.dd (j + 1) hj1 wl' hwlOK hXorth
    rwa [hpc, projS_zero, sub_zero, Matrix.mul_one] at this
  have d0 : Q k cols wl' (vhist.getD j []) = 0 := by
    have := hV.dd j hj wl' hwlOK hXorth
    rwa [hpcj, projS_zero, sub_zero, Matrix.mul_one] at this
  have hr := hV.recur j hj1 wl' hwlOK (fun l hl => hXorth l (by omega))
  rw [d1, d0, add_zero] at hr
  -- the direction
  show (CM cols.length (hist.getD j []))ᵀ * gramA k cols *
    cellMat (List.zipWith (fun a p => a ^^^ p) nx' pv').toArray cols.length = 0
  rw [cellMat_zipWith_xor hnxOK.1 hpvOK.1, cellMat_aab hM hnx, Matrix.mul_add]
  have h2 : (CM cols.length (hist.getD j []))ᵀ * gramA k cols * cellMat pv'.toArray cols.length = 0 := by
    have := hV.vOrth j hj1
    rw [← epv] at this
    exact this
  have h1 : (CM cols.length (hist.getD j []))ᵀ * gramA k cols * (gramA k cols * cellMat wl'.toArray cols.length) = 0 := by
    have := congrArg Matrix.transpose hr
    simp only [Matrix.transpose_mul, Matrix.transpose_transpose, gramA_symm, Matrix.transpose_zero,
      Matrix.mul_assoc] at this
    simp only [Matrix.mul_assoc]
    exact this
  rw [h1, h2, add_zero]

/-- the checked inductive step with the three-term hypothesis discharged by `VInv` -/
theorem lanczosStep_checked_of_VInv {k : Nat} {cols : List (List Nat)} (hM : MatOK k cols) {Y0 ay : List Nat}
    (hay : mulAabOpt (qsOptimize k cols) Y0 = some ay) (hayOK : BlockOK cols.length ay)
    {st : LState} {hist vhist : List (List Nat)} {Ss : List Nat} (hInv : LInv k cols Y0 st hist Ss)
    (hV : VInv k cols st hist vhist Ss) :
    (∃ st', lanczosStep true (qsOptimize k cols) ay st = .finished st' ∧ st'.y = st.y ∧
      ∀ w ∈ st'.ws, w.isEmpty = false → ∃ j : Nat, st.ws[j]? = some w) ∨
    (∃ st' mk w, lanczosStep true (qsOptimize k cols) ay st = .continue st' mk ∧
      LInv k cols Y0 st' (hist ++ [w]) (Ss ++ [mk]) ∧ ∃ next next0, StepFacts k cols st hist st' mk w next next0) :=
  lanczosStep_checked_ok hM hay hayOK hInv (three_term_of_VInv hM hInv hV)

end Ymq.Gf2Small
