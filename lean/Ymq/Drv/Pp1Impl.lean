import Ymq.Drv.Util
import Ymq.Drv.Pm1Impl
import Ymq.Model.Pp1Impl

/-!
Driver for the whole-function model of Williams P+1 (C16): `pp1::pp1`.  Answers: `panic`, `none`, or
`some f1,f2,.. rest` with the factors in the order the function returns them.  Trailing arguments are
annotations for the oracle.  Domain: `seed < n` (otherwise `from_int` trips a `debug_assert!` in the checked
profile only), `b1 < 2^32` (no wrap of `pow * p`).
-/
namespace Ymq.Drv
open Ymq.Pp1Impl

def handlePp1Impl : Handler
  | "pp1_impl" :: n :: seed :: b1 :: b2 :: _ => do
    let n ← parseNat n; let seed ← parseNat seed; let b1 ← parseNat b1; let b2 ← parseNat b2
    if b1 ≥ 2 ^ 32 ∨ n ≥ 2 ^ 1024 ∨ seed ≥ n ∨ seed ≥ 2 ^ 64 then none else
    some (showPm1Result (pp1 n seed b1 b2 pm1ImplPP))
  | _ => none

end Ymq.Drv
