/-
Lemmas about the model of `ZmodN`, part 4: cancellation of `R` modulo an odd `n`, and the
composite operations `from_int`, `to_int`, `redc_large`, `inv`.
-/
import Ymq.Lemmas.ZmodNRedc

namespace Ymq.ZmodN
open Ymq.Limbs

theorem coprime_two_of_odd (n : Nat) (h : n % 2 = 1) : Nat.gcd n 2 = 1 := by
  have h1 : Nat.gcd n 2 ∣ 2 := Nat.gcd_dvd_right n 2
  have h2 : Nat.gcd n 2 ∣ n := Nat.gcd_dvd_left n 2
  have h3 : Nat.gcd n 2 ≤ 2 := Nat.le_of_dvd (by omega) h1
  have h4 : Nat.gcd n 2 ≠ 0 := by
    intro h0; rw [h0] at h1; omega
  by_contra hne
  have : Nat.gcd n 2 = 2 := by omega
  rw [this] at h2
  omega

theorem coprime_R {c : Ctx} (h : Valid c) : Nat.gcd c.n (W ^ c.k) = 1 := by
  have h1 : Nat.Coprime c.n 2 := coprime_two_of_odd c.n h.nodd
  have h2 : Nat.Coprime c.n (2 ^ (64 * c.k)) := Nat.Coprime.pow_right _ h1
  rw [two_pow_64] at h2
  exact h2

/-- `R` can be cancelled modulo `n` -/
theorem cancel_R {c : Ctx} (h : Valid c) {a b : Nat}
    (hab : a * W ^ c.k % c.n = b * W ^ c.k % c.n) : a % c.n = b % c.n :=
  Nat.ModEq.cancel_right_of_coprime (coprime_R h) hab

theorem fromUint_length (x : Nat) : (fromUint x).length = 8 := by simp [fromUint, MW]
theorem fromUint_Wf (x : Nat) : Wf (fromUint x) := ofNat_Wf _ _
theorem fromUint_val {x : Nat} (h : x < W ^ 8) : val (fromUint x) = x := by
  simp only [fromUint, MW]; exact val_ofNat_of_lt h

/-- `ZmodN::from_int` -/
theorem fromInt_spec {c : Ctx} (h : Valid c) (x : Nat) (hx : x < c.n) :
    ∃ m, fromInt c x = some m ∧ val m < c.n ∧ val m = x * W ^ c.k % c.n ∧ m.length = 8 ∧ Wf m := by
  have hx8 : x < W ^ 8 := lt_trans hx h.nlt8
  obtain ⟨m, e1, e2, e3, e4, e5⟩ := mul_spec' h (fromUint x) c.r2 (fromUint_Wf x) (fromUint_length x)
    h.r2len (by rw [fromUint_val hx8]; exact hx) (by rw [h.r2val]; exact Nat.mod_lt _ h.npos)
  refine ⟨m, e1, e2, ?_, e4, e5⟩
  rw [fromUint_val hx8, h.r2val] at e3
  have : val m * W ^ c.k % c.n = (x * W ^ c.k) * W ^ c.k % c.n := by
    rw [e3, Nat.mul_mod, Nat.mod_mod, ← Nat.mul_mod, Nat.mul_assoc]
  have := cancel_R h this
  rw [Nat.mod_eq_of_lt e2] at this
  exact this

/-- `ZmodN::to_int` -/
theorem toInt_spec {c : Ctx} (h : Valid c) (m : List Nat) (hm : Wf m) (hlm : m.length = 8)
    (hvm : val m < c.n) :
    ∃ r, toInt c m = some r ∧ r < c.n ∧ r * W ^ c.k % c.n = val m % c.n := by
  have hv : val (m ++ zeros MW) = val m := by rw [val_append, val_zeros]; omega
  have hm8 : val m < W ^ 8 := by have := val_lt hm; rwa [hlm] at this
  have hR : 1 ≤ W ^ c.k := Nat.pow_pos W_pos
  obtain ⟨r, e1, e2, e3, _, _⟩ := redc_spec' h (m ++ zeros MW) (Wf_append.2 ⟨hm, Wf_zeros _⟩)
    (by simp [hlm, MW])
    (by rw [hv]; calc val m < c.n := hvm
          _ = c.n * 1 := by omega
          _ ≤ c.n * W ^ c.k := Nat.mul_le_mul_left _ hR)
    (by rw [hv]; exact redc_fit_of_lt h _ hm8)
  rw [hv] at e3
  exact ⟨val r, by simp [toInt, e1, toUint], e2, e3⟩

/-- `to_int (from_int x) = x` -/
theorem from_to_int' {c : Ctx} (h : Valid c) (x : Nat) (hx : x < c.n) :
    ∃ m, fromInt c x = some m ∧ toInt c m = some x := by
  obtain ⟨m, e1, e2, e3, e4, e5⟩ := fromInt_spec h x hx
  obtain ⟨r, f1, f2, f3⟩ := toInt_spec h m e5 e4 e2
  refine ⟨m, e1, ?_⟩
  rw [e3, Nat.mod_mod] at f3
  have := cancel_R h f3
  rw [Nat.mod_eq_of_lt f2, Nat.mod_eq_of_lt hx] at this
  rw [f1, this]


/-- `ZmodN::redc_large` -/
theorem redcLarge_spec' {c : Ctx} (h : Valid c) (h2n : 2 * c.n ≤ W ^ 8) (x : List Nat) (hx : Wf x)
    (hl1 : c.k ≤ x.length) (hl2 : x.length ≤ c.k + 16) (hl3 : x.length < 24)
    (hvx : val x < c.n * W ^ c.k * W ^ c.k) :
    ∃ m, redcLarge c x = some m ∧ val m < c.n ∧ val m * W ^ c.k % c.n = val x % c.n ∧
      m.length = 8 ∧ Wf m := by
  have hk := h.kle
  have hnp := h.npos
  have hR : 1 ≤ W ^ c.k := Nat.pow_pos W_pos
  have ex := val_take_drop x c.k
  have hlo := val_take_lt hx c.k
  have hlo8 : val (x.take c.k) < W ^ 8 := lt_of_lt_of_le hlo (Nat.pow_le_pow_right W_pos hk)
  have hhi : val (x.drop c.k) < c.n * W ^ c.k := by
    have : W ^ c.k * val (x.drop c.k) < W ^ c.k * (c.n * W ^ c.k) := by
      calc W ^ c.k * val (x.drop c.k) ≤ val x := by omega
        _ < c.n * W ^ c.k * W ^ c.k := hvx
        _ = W ^ c.k * (c.n * W ^ c.k) := by ring
    exact Nat.lt_of_mul_lt_mul_left this
  -- xlo
  have hvlo : val (x.take c.k ++ zeros (2 * MW - c.k)) = val (x.take c.k) := by
    rw [val_append, val_zeros]; omega
  obtain ⟨m, e1, e2, e3, e4, e5⟩ := redc_spec' h (x.take c.k ++ zeros (2 * MW - c.k))
    (Wf_append.2 ⟨Wf_take hx _, Wf_zeros _⟩)
    (by simp only [MW, List.length_append, List.length_take, zeros_length]; omega)
    (by rw [hvlo]; calc val (x.take c.k) < W ^ c.k := hlo
          _ = 1 * W ^ c.k := by omega
          _ ≤ c.n * W ^ c.k := Nat.mul_le_mul_right _ hnp)
    (by rw [hvlo]; exact redc_fit_of_lt h _ hlo8)
  rw [hvlo] at e3
  -- xhi
  have hvhi : val (x.drop c.k ++ zeros (2 * MW - (x.length - c.k))) = val (x.drop c.k) := by
    rw [val_append, val_zeros]; omega
  obtain ⟨mh, f1, f2, f3, f4, f5⟩ := redc_spec' h (x.drop c.k ++ zeros (2 * MW - (x.length - c.k)))
    (Wf_append.2 ⟨Wf_drop hx _, Wf_zeros _⟩)
    (by simp only [MW, List.length_append, List.length_drop, zeros_length]; omega)
    (by rw [hvhi]; exact hhi)
    (by rw [hvhi]; exact redc_fit_of_small h _ hhi h2n)
  rw [hvhi] at f3
  obtain ⟨t, g1, g2, g3, g4, g5⟩ := mul_spec' h mh c.r2 f5 f4 h.r2len f2
    (by rw [h.r2val]; exact Nat.mod_lt _ hnp)
  obtain ⟨r, k1, k2, k3, k4, k5⟩ := add_spec' h m t e5 g5 e4 g4 e2 g2 (by right; omega)
  unfold redcLarge
  have c1 : ¬ ¬ (x.length < 3 * MW) := by simp only [MW]; omega
  have c2 : ¬ (x.length < c.k) := by omega
  have c3 : ¬ (x.length - c.k > 2 * MW) := by simp only [MW]; omega
  simp only [c1, c2, c3, if_false, e1, f1, g1, k1]
  refine ⟨r, rfl, k2, ?_, k4, k5⟩
  -- (m + t)·R ≡ lo + hi·R
  rw [h.r2val] at g3
  have ht : val t % c.n = val mh * W ^ c.k % c.n := by
    apply cancel_R h
    rw [g3, Nat.mul_mod, Nat.mod_mod, ← Nat.mul_mod, Nat.mul_assoc]
  have : val r * W ^ c.k % c.n = (val m + val t) * W ^ c.k % c.n := by
    rw [Nat.mul_mod, k3, ← Nat.mul_mod]
  rw [this, ex, Nat.add_mul, Nat.add_mod, e3, Nat.mul_mod (val t), ht, ← Nat.mul_mod, Nat.mul_mod, f3,
    ← Nat.mul_mod, ← Nat.add_mod, Nat.mul_comm (val (x.drop c.k))]

/-- `ZmodN::inv`, relative to a specification of `arith_gcd::inv_mod` (hypothesis `hinv`). -/
theorem inv_spec' {c : Ctx} (h : Valid c) (invmod : Nat → Nat → Option Nat) (x : List Nat)
    (hinv : ∀ a, match invmod a c.n with
      | some i => i < c.n ∧ i * a % c.n = 1 % c.n
      | none => Nat.gcd a c.n ≠ 1) :
    (Nat.gcd (val x) c.n ≠ 1 ∧ inv invmod c x = some none) ∨
    (∃ r, inv invmod c x = some (some r) ∧ val r < c.n ∧
      val r * val x % c.n = W ^ c.k * W ^ c.k % c.n ∧ r.length = 8 ∧ Wf r) := by
  have hnp := h.npos
  have hi := hinv (val x)
  unfold inv
  cases hq : invmod (val x) c.n with
  | none => rw [hq] at hi; exact Or.inl ⟨hi, rfl⟩
  | some i =>
    rw [hq] at hi
    simp only [] at hi
    obtain ⟨hi1, hi2⟩ := hi
    obtain ⟨im, e1, e2, e3, e4, e5⟩ := fromInt_spec h i hi1
    obtain ⟨r, f1, f2, f3, f4, f5⟩ := mul_spec' h im c.r2 e5 e4 h.r2len e2
      (by rw [h.r2val]; exact Nat.mod_lt _ hnp)
    right
    simp only [e1, f1]
    refine ⟨r, rfl, f2, ?_, f4, f5⟩
    rw [h.r2val, e3] at f3
    have hr : val r % c.n = i * W ^ c.k * W ^ c.k % c.n := by
      apply cancel_R h
      rw [f3, Nat.mul_mod, Nat.mod_mod, Nat.mod_mod, ← Nat.mul_mod]; ring_nf
    rw [Nat.mul_mod, hr, ← Nat.mul_mod]
    have : i * W ^ c.k * W ^ c.k * val x = (i * val x) * (W ^ c.k * W ^ c.k) := by ring
    rw [this, Nat.mul_mod, hi2, ← Nat.mul_mod, Nat.one_mul]

end Ymq.ZmodN
