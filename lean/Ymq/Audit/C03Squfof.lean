import Ymq.Props.C03Squfof

#print axioms Ymq.C03Squfof.isqrt_total
#print axioms Ymq.C03Squfof.squfof_seed_irrelevant
#print axioms Ymq.C03Squfof.squfof_sound
#print axioms Ymq.C03Squfof.squfof_no_panic
#print axioms Ymq.C03Squfof.attempt_no_panic
#print axioms Ymq.C03Squfof.attempt_skips_square
#print axioms Ymq.C03Squfof.squfof_exit
#print axioms Ymq.C03Squfof.squfof_proper
#print axioms Ymq.C03Squfof.squfof_trivial_split_small_primes
#print axioms Ymq.C03Squfof.squfof_uses_exit
#print axioms Ymq.C03Squfof.sqOracle_uses_exit
