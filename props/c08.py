"""C08 — Word-level division, inversion and square-root primitives are exact.

K: every single-call request goes to the real code (harness/src/ops_arith.rs) and to the Lean
   model (lean/Ymq/Drv/Arith.lean); answers must be byte-identical.
O: Python integers (`//`, `%`, `pow`, `math.isqrt`, brute force) judge every implementation answer.
Bulk requests (`*_all`, `div_sweep`) loop inside the harness over a whole finite domain and compare
with native `/` and `%`; the oracle only accepts `ok <expected count>`.
"""
# SIZE AUDIT (quick tier), measured on cases('quick', Random(1))
#   op                                   quick max            thorough max   code supports                      boundary classes reached in quick
#   div_new/divmod64/modu63/modi64/      p: 30 bits, operand  same           p < 2^30 (assert), n: u64 / i64 /  p: prev/next prime of EVERY 2^b, b <= 30, composites, rejected values
#     modu16/mod_u128 (+ bulk ops)       64 / 128 bits                       u128                               (deterministic); n: multiples of p adjacent to 2^16..2^64, 2^127, 2^128
#   div_mod_uint/divmod_uint/inplace     1024 bits (w=4,8,16) same           BUint<4|8|16>                      all-ones / 2^(64j) +- 1 styles x every p: reached (hundreds)
#   inverter/inverter_new/inverter_all   p: 28 bits           same           p < 2^28 (debug_assert)            prev/next prime of every 2^b, b = 7..28 (deterministic)
#   inv_mod64                            64 bits              same           u64                                2^63 +- 1, 2^64 - s: 1/6 of 400 draws each: reached
#   isqrt / squfof_isqrt                 64 bits              same           u64                                every 2^k - 1, 2^k, 2^k + 1, k < 64; (2^32-1)^2 etc. (deterministic)
#   perfect_power                        64 bits              same           u64                                r^k +- 1 for r up to 2^32 - 1 (deterministic)
#   sqrt_mod (u64)                       p: 32 bits           same           p < 2^32 (products in u64)         BEFORE: p = 3 mod 4 at 2^32 - 5 once; p = 1 mod 4 next to 2^31 / 2^32 only
#                                                                                                               through rand_prime(7..32 bits) x 60 (about 2 draws of 32 bits) -> ADDED
#   pow_mod / mulmod (u64)               p: 32 bits           same           p <= 2^32                          BEFORE: random widths 2..32, (p-1)^2 next to 2^64 about 4 draws -> ADDED
#   sqrt_mod_uint                        p: 511 bits          same           p < 2^512 (products in U1024)      BEFORE: widths by rng.choice({65,100,128,129,192,256,300,384,500,511}) x 40,
#                                                                                                               never 63/64, 255/257, 447..449, 512 (the largest width) -> ADDED
#   pow_mod_uint / mulmod_uint           p: 512 bits          same           p < 2^512                          BEFORE: 60 random moduli (1..8 words) -> ADDED exact widths, (p-1)^2 next to 2^1024
#   isqrt_uint / perfect_power_uint      1024 bits            same           U1024                              BEFORE: random word counts; 2^(2h) - 1, 2^(2h), 2^(2h) + 1 only by chance -> ADDED
# Added: boundary_cases (both tiers, first).
import math
import random
from vlib.pipeline import Case
from vlib import gen

PID = "C08"
GEN = []
LEAN = ["Ymq.Props.C08"]
AUDIT = "Ymq.Audit.C08"
THEOREMS = [
    "Ymq.C08.new_no_panic",
    "Ymq.C08.new_domain",
    "Ymq.C08.recip_key",
    "Ymq.C08.recip16_key",
    "Ymq.C08.divmod64_spec",
    "Ymq.C08.modu63_spec",
    "Ymq.C08.modu16_spec",
    "Ymq.C08.modi64_spec",
    "Ymq.C08.mod_u128_spec",
    "Ymq.C08.pow_mod_spec",
    "Ymq.C08.pow_mod_spec_gt_one",
    "Ymq.C08.sqrt_mod_sound",
    "Ymq.C08.sqrt_mod_none",
    "Ymq.C08.nth_root_spec",
    "Ymq.C08.isqrt_spec",
    "Ymq.C08.squfof_isqrt_spec",
    "Ymq.C08.perfect_power_spec",
    "Ymq.C08.inverter_new_spec",
    "Ymq.C08.invert_spec",
    "Ymq.C08.invert_spec_prime",
    "Ymq.C08.inv_mod64_spec",
    "Ymq.C08.mod_uint_spec",
    "Ymq.C08.divmod_uint_spec",
    "Ymq.C08.sqrt_mod_no_panic",
    "Ymq.C08.sqrt_mod_exact",
    "Ymq.C08.perfect_power_no_panic",
    "Ymq.C08.mulmod_spec",
    "Ymq.C08.sqrt_mod_u64_factor_base",
    "Ymq.C08.sqrt_mod_uint_3mod4",
    "Ymq.C08.invert_total",
    "Ymq.C08.perfect_power_root_primitive",
    "Ymq.C08.invert_two",
]
HYPOTHESES = []
PROFILES = ["release", "chk"]
TIMEOUT = 60.0
W = 1 << 64
RULE = ("first, in both tiers, a deterministic boundary family: sqrt_mod / pow_mod / mulmod with p next to 2^16, 2^31 and 2^32 (every class of p mod 8, operands p-1 "
        "and 2^64-1), their U1024 instances with p of exactly 63..65, 127..129, 255..257, 383..385, 447..449, 499, 500, 511, 512 bits (and 513 bits: checked "
        "profile against the model), isqrt_uint / perfect_power_uint next to 2^64, 2^128, 2^256, 2^512, 2^1024; then divisors: all primes < 2^12, primes adjacent to every 2^b (b <= 30), random 30-bit primes, accepted composites, "
        "rejected values; operands: 0, p-1, p, multiples of p adjacent to 2^16..2^64, 2^127, 2^128, i64::MIN/MAX, "
        "multiword values with all-ones/zero words; whole finite domains through the bulk ops (modu16: every prime < 2^16 x every n; "
        "inverter: every x for every prime < 2^12; sqrt_mod: every residue for every prime < 2^11; thorough: 2^15 / 2^14); "
        "non-trivial = every request except operands 0/1; distinct by request line")
MODELLED = [
    "arith::Dividers::{new,modu16,divmod64,modu63,modi64,mod_u128,mod_uint,divmod_uint,divmod_uint_inplace} word-exact (Ymq/Model/Dividers.lean)",
    "arith::Inverter::{new,invert} word-exact, loop with fuel (Ymq/Model/Inverter.lean)",
    "arith::{sqrt_mod,pow_mod,mulmod,inv_mod64,perfect_power}, squfof::isqrt (Ymq/Model/Arith.lean); type width is a parameter of the generic routines",
]
UNMODELLED = [
    "num_integer::Roots::{nth_root,sqrt} (u64 and bnum instances) are modelled by the floor-root specification function nthRoot (validated by K and O only)",
    "the f64 seed `(n as f64).sqrt() as u64` of squfof::isqrt is an input of the model; the harness recomputes it and refuses a request that carries another seed",
    "bnum BUint operators (+,*,%,>>,from_str,to_string) are taken to be arithmetic on the value; u128/i128 arithmetic of rustc is arithmetic mod 2^128",
    "termination of squfof::isqrt from the floating point seed is validated by K only",
]

EXPS = [2, 3, 5, 7, 11, 13, 17, 19]
BULK = {"div_modu16_all", "div_sweep", "inverter_all", "sqrt_mod_all"}


# ------------------------------------------------------------------ helpers (plain integers)

def _sieve(n):
    s = bytearray([1]) * n
    s[0:2] = b"\0\0"
    for i in range(2, int(n ** 0.5) + 1):
        if s[i]:
            s[i * i::i] = bytearray(len(s[i * i::i]))
    return [i for i in range(n) if s[i]]


PRIMES16 = _sieve(1 << 16)


def div_ok(p):
    """accepted by Dividers::new"""
    return p == 2 or (3 <= p < (1 << 30) and (p & (p - 1)) != 0)


def iroot(n, k):
    """floor of the k-th root"""
    if n < 2:
        return n
    lo, hi = 1, 1 << (n.bit_length() // k + 1)
    while hi - lo > 1:
        mid = (lo + hi) // 2
        if mid ** k <= n:
            lo = mid
        else:
            hi = mid
    return lo


def tz(n):
    return (n & -n).bit_length() - 1


def f64_seed(n):
    return int(math.sqrt(float(n)))


# ------------------------------------------------------------------ request construction

def mk(line, tag=""):
    """flags of a request: which profiles have a defined answer, whether the spec covers it"""
    t = line.split(" ")
    op, a = t[0], t[1:]
    k, o, profiles, timeout = True, True, None, None
    if op in BULK:
        return Case(line, k=False, o=True, tag=tag, timeout=600.0)
    if op.startswith("div_"):
        n = int(a[1]) if len(a) > 1 else 0
        if op == "div_modu63" and n >= 1 << 63:
            o, profiles = False, ["chk"]          # debug_assert only
    elif op in ("inverter", "inverter_new"):
        p = int(a[0])
        x = int(a[1]) if op == "inverter" else 1
        if p == 2:
            pass                                   # dummy table, invert returns x % 2 (theorem invert_two)
        elif not div_ok(p) or x == 0:
            pass                                   # panics in both profiles, oracle expects that
        elif p >> 28 or p % 2 == 0 or math.gcd(x, p) != 1:
            o, profiles = False, ["chk"]          # only debug assertions define the answer
        elif x >= p or not gen.is_prime(p):
            o = False                              # outside the stated domain; K only
    elif op in ("sqrt_mod", "sqrt_mod_uint"):
        n, p = int(a[0]), int(a[1])
        lim = 1 << 32 if op == "sqrt_mod" else 1 << 512
        if p == 0:
            pass
        elif p >= lim:
            o, profiles = False, ["chk"]          # products may overflow: only chk is defined
        elif not gen.is_prime(p):
            o = False
        elif p % 4 != 3 and p != 2 and tz(p % W - 1 if p % W else W) >= 24:
            o = False                              # documented assert!(exp2 < 24)
    elif op in ("pow_mod", "pow_mod_uint", "mulmod", "mulmod_uint"):
        p = int(a[2])
        lim = 1 << 32 if op in ("pow_mod", "mulmod") else 1 << 512
        if p >= lim or (op.startswith("mulmod") and int(a[0]) * int(a[1]) >= lim * lim):
            o, profiles = False, ["chk"]
    elif op == "inv_mod64":
        if int(a[1]) == 0:
            o = False
    return Case(line, k=k, o=o, tag=tag, profiles=profiles, timeout=timeout)


def corpus_case(line):
    return mk(line, tag="corpus")


def u64_operands(p, rng, full):
    s = {0, 1, p - 1, p, p + 1, 2 * p - 1, (1 << 63) - 1, 1 << 63, W - 1, rng.getrandbits(64), rng.getrandbits(40)}
    # the largest multiples of p below 2^64, minus one: where the estimate overshoots
    top = (W // p) * p
    for j in range(4 if full else 2):
        s.add(top - j * p - 1)
    if full:
        for b in (16, 31, 32, 62, 63, 64):
            m = (1 << b) - (1 << b) % p
            for v in (m - 1, m, m + 1, m - p - 1, m - p, m + p - 1, m + p):
                s.add(v)
        for _ in range(6):
            s.add(rng.getrandbits(64))
            s.add(rng.getrandbits(64) >> rng.randrange(64))
    return sorted(v for v in s if 0 <= v < W)


def i64_operands(p, rng, full):
    lo = -(1 << 63)
    s = {lo, lo + 1, -1, 0, 1, -p, -p + 1, -p - 1, p, (1 << 63) - 1, -rng.getrandbits(63), rng.getrandbits(63)}
    m = (1 << 63) - (1 << 63) % p
    s |= {-m, -m + 1, -m - 1, m - 1}
    if full:
        s |= {-(m - p), -(m - p) - 1, m - p, -rng.getrandbits(62), -rng.getrandbits(20), -(p * rng.getrandbits(30))}
    return sorted(v for v in s if lo <= v < (1 << 63))


def u128_operands(p, rng, full):
    M = 1 << 128
    s = {0, p, W, W - 1, W + 1, M - 1, 1 << 127, (1 << 127) - 1, rng.getrandbits(128),
         (rng.getrandbits(64) << 64) | (W - 1 - rng.getrandbits(8))}
    for b in (64, 127, 128):
        m = (1 << b) - (1 << b) % p
        s |= {m - 1, m, m + 1}
    if full:
        for hi in (1, 2, W - 1, W - 2, 1 << 63, rng.getrandbits(64)):
            for lo in (0, 1, W - 1, W - 2, rng.getrandbits(64)):
                s.add(hi * W + lo)
        for _ in range(6):
            s.add(p * rng.getrandbits(98) + rng.choice([0, 1, p - 1]))
    return sorted(v for v in s if 0 <= v < M)


def multiword_operands(p, rng, count):
    out = []
    for _ in range(count):
        w = rng.choice([4, 8, 16])
        c = rng.randrange(6)
        if c == 0:
            n = gen.rand_words(rng, w)
        elif c == 1:                                # multiple of p next to a word boundary
            j = rng.randrange(1, w + 1)
            m = (1 << (64 * j)) - (1 << (64 * j)) % p
            n = m + rng.choice([-1, 0, 1, -p, p - 1])
        elif c == 2:                                # zero words between non-zero words
            n = sum(rng.choice([0, 0, W - 1, 1, rng.getrandbits(64)]) << (64 * i) for i in range(w))
        elif c == 3:
            n = (1 << (64 * w)) - 1 - rng.choice([0, 1, p, rng.getrandbits(64)])
        elif c == 4:
            n = p * gen.rand_words(rng, w - 1) + rng.choice([0, 1, p - 1])
        else:
            n = rng.getrandbits(rng.randrange(1, 64 * w + 1))
        n %= 1 << (64 * w)
        out.append((n, w))
    return out


def divider_set(rng, tier):
    small = [p for p in PRIMES16 if p < (1 << 12)]
    edge = set()
    for b in range(2, 31):
        edge.add(gen.prev_prime(1 << b))
        q = gen.next_prime(1 << b)
        if q < 1 << 30:
            edge.add(q)
    for _ in range(12 if tier == "quick" else 200):
        edge.add(gen.rand_prime(rng, rng.randrange(13, 31)))
    edge |= {274177, 65537, 65521, 611953}
    comps = {6, 9, 10, 12, 15, 255, 257 * 3, 65535, (1 << 30) - 1, (1 << 30) - 2, 3 << 28, (1 << 29) + 2,
             (1 << 16) + 1, (1 << 16) + 2, 0xFFFF * 3, 1023 * 1025}
    bad = [0, 1, 4, 8, 1 << 15, 1 << 16, 1 << 29, 1 << 30, (1 << 30) + 1, 1 << 31, (1 << 32) - 1]
    return small, sorted(edge), sorted(comps), bad


def sqrt_special_primes():
    """smallest prime c*2^k + 1 with c odd, for k = 1..23 (below 2^24 where one exists)"""
    out = []
    for k in range(1, 24):
        c = 1
        while not gen.is_prime(c * (1 << k) + 1):
            c += 2
        out.append((k, c * (1 << k) + 1))
    return out


def _fork(rng, label):
    """own stream for the boundary family: depends on the run's seed, leaves the stream of the older families untouched"""
    return random.Random(f"{label}:{rng.getstate()[1][:4]}")


UINT_BOUNDARY_BITS = [63, 64, 65, 127, 128, 129, 255, 256, 257, 383, 384, 385, 447, 448, 449, 499, 500, 511, 512]


def prime_below(top, cls, mod):
    """largest prime below top in the residue class cls modulo mod"""
    p = top - 1
    while not (p % mod == cls and gen.is_prime(p)):
        p -= 1
    return p


def prime_above(top, cls, mod):
    p = top + 1
    while not (p % mod == cls and gen.is_prime(p)):
        p += 1
    return p


def boundary_cases(rng, tier):
    """deterministic size classes (both tiers, yielded first): the generic routines at the ends of the range where their
    products fit the type (u64: p < 2^32, U1024: p < 2^512) and at the word boundaries below"""
    # ---- sqrt_mod, u64 instance: p next to 2^16, 2^31, 2^32 in the classes 3, 7 mod 8 (exponentiation), 5 mod 8 and 1 mod 8 (search loop)
    for b in (16, 31, 32):
        for cls in (3, 7, 5, 1):
            ps = [prime_below(1 << b, cls, 8)] + ([prime_above(1 << b, cls, 8)] if b < 32 else [])
            for p in ps:
                if p % 4 != 3 and tz(p - 1) > 12:
                    continue
                r = rng.randrange(1, p)
                non = next(n for n in range(2, 200) if pow(n, (p - 1) // 2, p) != 1)
                for n in (r * r % p, non, p - 1, W - 1, W - 1 - rng.getrandbits(20), (p - 1) * (p - 1)):
                    yield mk(f"sqrt_mod {n} {p}", tag="edge")
    yield mk(f"sqrt_mod {W - 1} {prime_above(1 << 32, 3, 4)}", tag="edge")            # above the domain: checked profile against the model
    # ---- pow_mod / mulmod, u64 instance: (p-1)^2 next to 2^64
    for p in ((1 << 32) - 1, (1 << 32) - 5, (1 << 32) - 2, (1 << 31) - 1, 1 << 31, (1 << 31) + 1, (1 << 31) + 11, 65535, 65536, 65537,
              1 << 32, (1 << 32) + 1, (1 << 32) + 15):
        for n in (p - 1, p - 2, W - 1, rng.getrandbits(64)):
            for k in (2, p - 1, W - 1, rng.getrandbits(64)):
                yield mk(f"pow_mod {n} {k} {p}", tag="edge")
        yield mk(f"mulmod {p - 1} {p - 1} {p}", tag="edge")
        yield mk(f"mulmod {p - 1} {p - 2} {p}", tag="edge")
        yield mk(f"mulmod {rng.randrange(p)} {p - 1} {p}", tag="edge")
    # ---- U1024 instances: p of exactly b bits
    for b in UINT_BOUNDARY_BITS:
        top = 1 << b
        p3 = prime_below(top - rng.getrandbits(b // 2), 3, 4)            # p = 3 mod 4: one exponentiation
        assert p3.bit_length() == b
        ps = [p3]
        if b in (64, 128, 256, 448, 512):
            ps.append(prime_below(top, 5, 8))                             # the search loop, largest prime of the class with b bits
        for p in ps:
            r = rng.randrange(1, p)
            for n in (r * r % p, rng.randrange(p), p - 1, (1 << 1024) - 1 - rng.getrandbits(64)):
                yield mk(f"sqrt_mod_uint {n} {p}", tag="edge")
        for p in (top - rng.choice([1, 3, 5, 59]), (top >> 1) + 1, p3):
            for n, k in ((p - 1, 2), (p - 1, p - 1), (p - 2, rng.getrandbits(1024)), (rng.getrandbits(1024), (1 << 1024) - 1)):
                yield mk(f"pow_mod_uint {n} {k} {p}", tag="edge")
            yield mk(f"mulmod_uint {p - 1} {p - 1} {p}", tag="edge")
            yield mk(f"mulmod_uint {p - 1} {rng.randrange(p)} {p}", tag="edge")
    # one step above the domain (p >= 2^512: the square of a residue may exceed 1024 bits): checked profile against the model
    pa = prime_above(1 << 512, 3, 4)
    yield mk(f"sqrt_mod_uint {pa - 1} {pa}", tag="edge")
    yield mk(f"pow_mod_uint {pa - 1} 3 {pa}", tag="edge")
    yield mk(f"mulmod_uint {pa - 1} {pa - 1} {pa}", tag="edge")
    # ---- isqrt / perfect_power, U1024 instance: next to the squares 2^(2h) and the ends of the type
    for h in (16, 32, 64, 96, 128, 192, 256, 384, 448, 511, 512):
        r = (1 << h) - 1
        for n in (r * r - 1, r * r, r * r + 1, r * r + 2 * r - 1, r * r + 2 * r, (r + 1) * (r + 1), (r + 1) * (r + 1) + 1):
            if n < 1 << 1024:
                yield mk(f"isqrt_uint {n}", tag="edge")
                yield mk(f"perfect_power_uint {n}", tag="edge")
    for b in (64, 128, 256, 512, 1024):
        for base in (3, 5, 7, 10, 65537):
            k = 1
            while base ** (k + 1) < 1 << b:
                k += 1
            for n in (base ** k, base ** k + 1, base ** k - 1):              # the largest power of base below 2^b
                yield mk(f"perfect_power_uint {n}", tag="edge")
        q = gen.prev_prime(1 << (b // 2))
        yield mk(f"perfect_power_uint {q * q}", tag="edge")                   # largest prime square below 2^b
        yield mk(f"isqrt_uint {q * q - 1}", tag="edge")


def cases(tier, rng, extended=False):
    yield from boundary_cases(_fork(rng, "C08-boundary"), tier)
    quick = tier == "quick"
    small, edge, comps, bad = divider_set(rng, tier)
    mult = 10 if extended else 1

    # ---------------- Dividers: constructor
    for p in small + edge + comps + bad:
        yield mk(f"div_new {p}")
    # ---------------- Dividers: word operands
    for p in small + edge + comps:
        full = p in edge or p in comps or p < 64 or extended
        for n in u64_operands(p, rng, full):
            yield mk(f"div_divmod64 {p} {n}")
            if full or n % 3 == 0:
                yield mk(f"div_modu63 {p} {n}")
        for n in i64_operands(p, rng, full):
            yield mk(f"div_modi64 {p} {n}")
        for n in sorted({0, 1, p % 65536, (p - 1) % 65536, 65535, 65535 - 65535 % p, max(0, 65535 - 65535 % p - 1),
                         rng.getrandbits(16), rng.getrandbits(16)}):
            yield mk(f"div_modu16 {p} {n}")
        for n in u128_operands(p, rng, full):
            yield mk(f"div_mod_u128 {p} {n}")
        for n, w in multiword_operands(p, rng, (6 if full else 2) * mult):
            yield mk(f"div_mod_uint {p} {n} {w}")
            yield mk(f"div_divmod_uint {p} {n} {w}")
    for p in (3, 7, 274177, edge[-1]):
        for n, w in multiword_operands(p, rng, 20):
            yield mk(f"div_inplace {p} {n} {w}")
    yield mk("div_mod_uint 274177 37714305606241449883")
    yield mk("div_divmod_uint 274177 37714305606241449883")
    for p in bad:
        yield mk(f"div_divmod64 {p} 12345")
    # ---------------- Dividers: whole domains inside the harness
    for p in PRIMES16 + [6, 9, 15, 255, 65535, 21845, 1023, 65533]:    # every prime below 2^16, both tiers
        yield mk(f"div_modu16_all {p}")
    cnt = 300 if quick else 200000
    for p in small:
        yield mk(f"div_sweep {p} {rng.getrandbits(32)} {cnt * mult}")
    for p in edge + comps:
        yield mk(f"div_sweep {p} {rng.getrandbits(32)} {cnt * 20 * mult}")

    # ---------------- Inverter
    for p in [q for q in PRIMES16 if q < (1 << 12 if quick else 1 << 15)]:
        yield mk(f"inverter_all {p}")
    for p in [q for q in PRIMES16 if q < 64]:
        yield mk(f"inverter_new {p}")
        for x in range(0, p):
            yield mk(f"inverter {p} {x}")
    ip = set()
    for b in range(7, 29):
        ip.add(gen.prev_prime(1 << b))
        q = gen.next_prime(1 << b)
        if q < 1 << 28:
            ip.add(q)
    for _ in range(20 * mult):
        ip.add(gen.rand_prime(rng, rng.randrange(8, 29)))
    for p in sorted(ip):
        yield mk(f"inverter_new {p}")
        xs = {1, 2, 3, p - 1, p - 2, (p - 1) // 2, (p + 1) // 2}
        for j in range(1, p.bit_length()):
            xs |= {1 << j, (1 << j) - 1, (1 << j) + 1}
        for _ in range(6):
            xs.add(rng.randrange(1, p))
        for x in sorted(v for v in xs if 0 < v < p):
            yield mk(f"inverter {p} {x}")
        yield mk(f"inverter {p} {p + 2}")                      # x >= p: K only
    for line in ("inverter 9 3", "inverter 15 5", "inverter 9 2", "inverter 268435459 5", "inverter 1073741789 3",
                 "inverter_new 268435459", "inverter 6 1", "inverter 8 3", "inverter 2 0", "inverter 2 7", "inverter 2 1",
                 "inverter 2 2", "inverter 2 4294967295", "inverter 2 4294967294",
                 "inverter_new 2", "inverter_new 1", "inverter_new 0"):
        yield mk(line)

    # ---------------- sqrt_mod
    lim = 1 << 11 if quick else 1 << 14
    for p in [q for q in PRIMES16 if q < lim]:
        yield mk(f"sqrt_mod_all {p}")
    for p in [q for q in PRIMES16 if q < 64]:
        for n in range(0, 2 * p):
            yield mk(f"sqrt_mod {n} {p}")
    for k, p in sqrt_special_primes():
        res = [n for n in range(2, 60) if pow(n, (p - 1) // 2, p) == 1][:3]
        non = [n for n in range(2, 60) if pow(n, (p - 1) // 2, p) != 1][:2]
        heavy = k > (16 if quick else 21)
        for n in res + non + [p - 1, 0, p, p + res[0]]:
            c = mk(f"sqrt_mod {n} {p}")
            if heavy and n in res:
                c.k = False                                     # 2^(k-1) iterations in the model: O only
            yield c
    for line in ("sqrt_mod 2 167772161", "sqrt_mod 3 167772161", "sqrt_mod 2 469762049", "sqrt_mod 5 0",
                 "sqrt_mod 3 8", "sqrt_mod 4 15", "sqrt_mod 1 1", "sqrt_mod 0 1", "sqrt_mod 7 9", "sqrt_mod 2 4294967311",
                 "sqrt_mod 18446744073709551615 4294967291"):
        yield mk(line)
    for _ in range(60 * mult):
        p = gen.rand_prime(rng, rng.randrange(7, 33))
        r = rng.randrange(p)
        for n in (r * r % p, rng.randrange(p), rng.getrandbits(64)):
            yield mk(f"sqrt_mod {n} {p}")
    for _ in range(40 * mult):
        bits = rng.choice([65, 100, 128, 129, 192, 256, 300, 384, 500, 511])
        while True:
            p = gen.rand_prime(rng, bits)
            if p % 4 == 3 or (rng.random() < 0.25 and tz(p - 1) <= 4):
                break
        r = rng.randrange(p)
        for n in (r * r % p, rng.randrange(p), p - 1, 0, gen.rand_words(rng, 16)):
            yield mk(f"sqrt_mod_uint {n} {p}")

    # ---------------- pow_mod / mulmod
    for _ in range(150 * mult):
        p = rng.choice([1, 2, 3, rng.getrandbits(rng.randrange(2, 33)) | 1, gen.rand_prime(rng, rng.randrange(3, 33))])
        n = rng.choice([0, 1, p - 1, p, rng.getrandbits(64), rng.getrandbits(20)])
        k = rng.choice([0, 1, 2, p - 1 if p > 1 else 0, rng.getrandbits(64), rng.getrandbits(10), W - 1])
        yield mk(f"pow_mod {n} {k} {p}")
        yield mk(f"mulmod {rng.randrange(p)} {rng.randrange(p)} {p}")
    for _ in range(60 * mult):
        p = gen.odd_modulus(rng, rng.randrange(1, 9)) >> rng.choice([0, 1, 7])
        p = max(p, 1)
        n = rng.choice([0, 1, p - 1, gen.rand_words(rng, 16)])
        k = rng.choice([0, 1, p - 1, gen.rand_words(rng, rng.randrange(1, 17)), (1 << 1024) - 1])
        yield mk(f"pow_mod_uint {n} {k} {p}")
        yield mk(f"mulmod_uint {rng.randrange(p)} {rng.randrange(p)} {p}")
    for line in ("pow_mod 3 5 0", "pow_mod 0 0 1", "pow_mod 0 0 7", "pow_mod 5 0 1", "pow_mod 3 100 18446744073709551557",
                 "pow_mod_uint 3 5 0", "mulmod 4294967296 4294967296 7", "mulmod 3 4 0"):
        yield mk(line)

    # ---------------- inv_mod64
    for _ in range(400 * mult):
        c = rng.randrange(6)
        if c == 0:
            p = gen.rand_prime(rng, rng.randrange(2, 65))
        elif c == 1:
            p = W - rng.choice([1, 2, 3, 59, rng.getrandbits(10) + 1])
        elif c == 2:
            p = (1 << 63) + rng.choice([-1, 0, 1, 29, -25])
        else:
            p = max(1, rng.getrandbits(rng.randrange(1, 65)))
        n = rng.choice([0, 1, 2, p - 1, p, p + 1, W - 1, 1 << 63, (1 << 63) - 1, rng.getrandbits(64), rng.randrange(p),
                        rng.randrange(p) * rng.choice([1, 2, 3, 6])])
        yield mk(f"inv_mod64 {n % W} {p}")
    for p in (1, 2, 3, 4, 9, 15, 16):
        for n in range(0, 2 * p + 1):
            yield mk(f"inv_mod64 {n} {p}")
    for line in ("inv_mod64 1 0", "inv_mod64 0 0", "inv_mod64 5 0", "inv_mod64 3 18446744073709551557",
                 "inv_mod64 18446744073709551615 7"):
        yield mk(line)

    # ---------------- perfect_power
    seen = set()
    for r in list(range(0, 42)) + [97, 1607, 65521, 65537, (1 << 16) - 1, 1 << 16, (1 << 32) - 1, 4294967291, 2642245]:
        for k in range(2, 41):
            v = r ** k
            for n in (v, v + 1, v - 1):
                if 0 <= n < W and n not in seen:
                    seen.add(n)
                    yield mk(f"perfect_power {n}")
    for n in (W - 1, W - 2, 6669042837601, 8650415919381337933, 1 << 63, 3 ** 40, 7 ** 22, 2 ** 46, 10 ** 19):
        yield mk(f"perfect_power {n}")
    for _ in range(80 * mult):
        k = rng.choice([2, 3, 4, 5, 6, 7, 9, 11, 13, 17, 19, 23, 25, 29, 38, 49])
        r = rng.choice([2, 3, 10, rng.getrandbits(rng.randrange(2, 1 + 1023 // k)) + 2])
        v = r ** k
        for n in (v, v + 1, v - 1):
            if n < 1 << 1024:
                yield mk(f"perfect_power_uint {n}")
    for n in (0, 1, 2, (1 << 1024) - 1, 1 << 1023, (1 << 512) ** 2 - 1, 3 ** 646):
        if n < 1 << 1024:
            yield mk(f"perfect_power_uint {n}")

    # ---------------- isqrt
    ns = set(range(0, 40)) | {W - 1, W - 2, (1 << 32) ** 2 - 1, (1 << 53) + 1, (1 << 53) - 1, 1 << 53, 1 << 54}
    for k in range(1, 64):
        ns |= {(1 << k) - 1, 1 << k, (1 << k) + 1}
    for _ in range(150 * mult):
        r = rng.getrandbits(rng.randrange(2, 33))
        ns |= {r * r, r * r + 1, max(0, r * r - 1), r * r + r, r * (r + 1) - 1 if r else 0, r * (r + 2), rng.getrandbits(64)}
    for r in ((1 << 32) - 1, (1 << 32) - 2, 94906265, 94906266, 3037000499, 3037000500, 4294967295, 67108864, 67108865):
        ns |= {r * r, r * r + 1, r * r - 1, r * (r + 1), r * (r + 1) - 1, r * (r + 2)}
    for n in sorted(v for v in ns if 0 <= v < W):
        yield mk(f"isqrt {n}")
        yield mk(f"squfof_isqrt {n} {f64_seed(n)}")
    for _ in range(60 * mult):
        r = gen.rand_words(rng, rng.randrange(1, 9))
        for n in (r * r, r * r + 1, max(0, r * r - 1), r * r + 2 * r, gen.rand_words(rng, 16)):
            yield mk(f"isqrt_uint {n}")
    for n in (0, 1, (1 << 1024) - 1, 1 << 1023):
        yield mk(f"isqrt_uint {n}")


# ------------------------------------------------------------------ spec oracle

def _nums(ans, k):
    t = ans.split(" ")
    if len(t) != k or not all(x.isdigit() for x in t):
        return None
    return [int(x) for x in t]


def oracle(case, ans):
    op = case.op
    a = case.args
    if op == "div_modu16_all":
        return None if ans == "ok 65536" else f"bulk check failed: {ans}"
    if op == "div_sweep":
        return None if ans == f"ok {168 + int(a[2])}" else f"bulk check failed: {ans}"
    if op == "inverter_all":
        return None if ans == f"ok {int(a[0]) - 1}" else f"bulk check failed: {ans}"
    if op == "sqrt_mod_all":
        p = int(a[0])
        want = "ok 2 0" if p == 2 else f"ok {(p + 1) // 2} {(p - 1) // 2}"
        return None if ans == want else f"bulk check failed: {ans} (want {want})"

    if op.startswith("div_"):
        p = int(a[0])
        if not div_ok(p):
            return None if ans == "panic" else f"constructor accepted p={p}: {ans}"
        if op == "div_new":
            f = _nums(ans, 6)
            if not f:
                return f"constructor refused p={p}: {ans}"
            pp, r64, m64, s64, s16, m16 = f
            if pp != p or r64 != W % p:
                return "wrong p / r64"
            if p == 2:
                return None
            e = m64 * p - (1 << (64 + s64))
            e16 = m16 * p - (1 << s16)
            return None if 0 < e <= p and 0 < e16 <= p and m64 < W and m16 <= 1 << 17 else "reciprocal out of range"
        n = int(a[1])
        if op in ("div_divmod64", "div_divmod_uint", "div_inplace"):
            if op == "div_inplace" and p == 2:
                return None                       # the in-place routine is never called with p = 2
            return None if _nums(ans, 2) == [n // p, n % p] else f"wrong quotient/remainder: {ans}"
        return None if _nums(ans, 1) == [n % p] else f"wrong remainder: {ans} (want {n % p})"

    if op == "inverter_new":
        p = int(a[0])
        if not (p == 2 or p < 1 << 28):
            return None
        t = ans.split(",")
        if p == 2:
            return None if ans == ",".join(["0"] * 8) else f"table: {ans}"
        if p % 2 == 0 or p < 3:
            return None
        ok = len(t) == 8 and all(x.isdigit() and int(x) < p and (int(x) << (8 * j + 8)) % p == p - 1
                                 for j, x in enumerate(t))
        return None if ok else f"table entry is not -2^-(8j+8) mod p: {ans}"
    if op == "inverter":
        p, x = int(a[0]), int(a[1])
        if p == 2:
            return None if ans == str(x % 2) else f"invert mod 2 must return x % 2: {ans}"
        if not div_ok(p) or x == 0:
            return None if ans == "panic" else f"expected a panic: {ans}"
        r = _nums(ans, 1)
        return None if r and r[0] < p and r[0] * x % p == 1 else f"x*r != 1 mod p: {ans}"

    if op in ("sqrt_mod", "sqrt_mod_uint"):
        n, p = int(a[0]), int(a[1])
        if p == 0:
            return None if ans == "panic" else f"expected a panic: {ans}"
        if ans == "none":
            if p == 2 or n % p == 0 or pow(n, (p - 1) // 2, p) == 1:
                return "None returned for a quadratic residue"
            return None
        if ans.startswith("some "):
            r = _nums(ans[5:], 1)
            return None if r and r[0] < p and (r[0] * r[0] - n) % p == 0 else f"r*r != n mod p: {ans}"
        return f"no value returned ({ans})"

    if op in ("pow_mod", "pow_mod_uint"):
        n, k, p = (int(x) for x in a)
        if p == 0:
            return None if ans == "panic" else f"expected a panic: {ans}"
        want = 1 if k == 0 else pow(n, k, p)        # p = 1, k = 0 returns 1 (documented in the theorem)
        return None if _nums(ans, 1) == [want] else f"wrong power: {ans} (want {want})"
    if op in ("mulmod", "mulmod_uint"):
        x, y, p = (int(v) for v in a)
        if p == 0:
            return None if ans == "panic" else f"expected a panic: {ans}"
        return None if _nums(ans, 1) == [x * y % p] else f"wrong product: {ans}"

    if op == "inv_mod64":
        n, p = int(a[0]), int(a[1])
        if math.gcd(n, p) != 1:
            return None if ans == "none" else f"inverse reported although gcd != 1: {ans}"
        if not ans.startswith("some "):
            return f"no inverse reported: {ans}"
        r = _nums(ans[5:], 1)
        return None if r and r[0] < p and (r[0] * n - 1) % p == 0 else f"n*r != 1 mod p: {ans}"

    if op in ("perfect_power", "perfect_power_uint"):
        n = int(a[0])
        if ans == "none":
            bad = [e for e in EXPS if iroot(n, e) ** e == n]
            return f"None although n is a perfect power with exponent {bad[0]}" if bad else None
        if ans.startswith("some "):
            v = _nums(ans[5:], 2)
            if not (v and v[1] >= 2 and v[0] ** v[1] == n):
                return f"r^k != n: {ans}"
            # the recursion on the root: for n >= 2 the returned root is not an e-th power for a tried e
            bad = [e for e in EXPS if n >= 2 and iroot(v[0], e) ** e == v[0]]
            return f"returned root {v[0]} is itself a perfect power (exponent {bad[0]})" if bad else None
        return f"no value returned ({ans})"

    if op in ("isqrt", "isqrt_uint", "squfof_isqrt"):
        n = int(a[0])
        return None if _nums(ans, 1) == [math.isqrt(n)] else f"wrong square root: {ans}"
    return "unknown op"


# ------------------------------------------------------------------ input distribution (branch labels)

def klass(case, ans):
    """op + the branch of the model the request reaches (recomputed here only for reporting)"""
    op, a = case.op, case.args
    if ans in ("panic", "hang", "abort") or ans.startswith("seed-mismatch"):
        return f"{op}/{ans.split(' ')[0]}"
    try:
        if op in BULK:
            return op
        if op.startswith("div_"):
            p = int(a[0])
            if op == "div_new":
                return op + ("/p=2" if p == 2 else "/prime" if gen.is_prime(p) else "/composite")
            n = int(a[1])
            if p == 2:
                return op + "/p=2"
            m127 = (1 << 127) // p
            sz = m127.bit_length()
            m64, s64, r64 = (m127 >> (sz - 64)) + 1, 127 - sz, W % p
            if op in ("div_divmod64", "div_modu63"):
                q = (n * m64) >> (64 + s64)
                return op + ("/corrected" if q * p > n else "/exact")
            if op == "div_modi64":
                return op + ("/neg-multiple" if n < 0 and n % p == 0 else "/neg" if n < 0 else "/nonneg")
            if op == "div_modu16":
                return op + ("/p<2^16" if p < 65536 else "/p>=2^16")

            def fold(hi, lo):
                pr = hi * r64 + lo
                s = (pr % W) + (pr >> 64) * r64
                return (s % W + r64, True) if s >= W else (s, False)
            if op == "div_mod_u128":
                if n >> 64 == 0:
                    return op + "/one-word"
                return op + ("/carry" if fold(n >> 64, n % W)[1] else "/no-carry")
            w = int(a[2]) if len(a) > 2 else 16
            ds = [(n >> (64 * i)) % W for i in range(w)][::-1]
            if op == "div_mod_uint":
                pol, lab = ds[0], set()
                for d in ds[1:]:
                    if pol == 0:
                        pol = d
                        lab.add("z")
                    else:
                        pol, c = fold(pol, d)
                        lab.add("c" if c else "f")
                return op + "/" + "".join(sorted(lab))
            carry, lab = 0, set()
            for d in ds:
                if d == 0 and carry == 0:
                    lab.add("skip")
                else:
                    lab.add("carry" if carry else "first")
                carry = (carry * W + d) % p
            return op + "/" + "+".join(sorted(lab))
        if op == "inverter":
            p, x = int(a[0]), int(a[1])
            if p == 2:
                return op + "/p=2"
            return op + ("/x-even" if x % 2 == 0 else "/x-odd") + ("/x>=p" if x >= p else "")
        if op in ("sqrt_mod", "sqrt_mod_uint"):
            n, p = int(a[0]), int(a[1])
            if n % p == 0:
                return op + "/zero"
            if p == 2:
                return op + "/p=2"
            br = "/3mod4" if p % 4 == 3 else "/tonelli-e%d" % tz(p - 1)
            return op + br + ("/none" if ans == "none" else "/some")
        if op in ("pow_mod", "pow_mod_uint"):
            return op + ("/k=0" if int(a[1]) == 0 else "/p=1" if int(a[2]) == 1 else "")
        if op == "inv_mod64":
            big = int(a[0]) >= 1 << 63 or int(a[1]) >= 1 << 63
            return op + ("/none" if ans == "none" else "/some") + ("/operand>=2^63" if big else "")
        if op in ("perfect_power", "perfect_power_uint"):
            if ans == "none":
                return op + "/none"
            k = int(ans.split(" ")[2])
            return op + ("/n<2" if int(a[0]) < 2 else "/prime-exp" if k in EXPS else "/nested")
        if op == "squfof_isqrt":
            n, r = int(a[0]), int(a[1])
            if n < 4:
                return op + "/n<4"
            it = 0
            while True:
                q = n // r
                if q == r:
                    return op + f"/q=r/it{it}"
                if q == r + 1:
                    return op + f"/q=r+1/it{it}"
                if q == r - 1:
                    return op + f"/q=r-1/it{it}"
                r = (r + q) // 2
                it += 1
    except Exception:
        return op + "/?"
    return op


def nontrivial(case, ans):
    return any(x not in ("0", "1", "-") for x in case.args[1:]) or len(case.args) == 1


CLAIM = ("Lean theorems for all inputs of the word-exact models: Dividers::new accepts exactly p = 2 and 3 <= p < 2^30 not a "
         "power of two and its reciprocals satisfy 0 < m*p - 2^s <= p; divmod64 / modu63 / modu16 / modi64 / mod_u128 / "
         "mod_uint / divmod_uint return the exact quotient and remainder for every operand without reaching a panic site; "
         "Inverter::invert terminates and returns the inverse for every odd 3 <= p < 2^28 and 0 < x < p coprime to p, and "
         "returns x % 2 for p = 2 (dummy table); pow_mod = n^k mod p; sqrt_mod returns a root exactly when one exists "
         "(prime p = 3 mod 4 or p < 2^24, square fits the type); inv_mod64 is exact on all of u64 x u64 (p > 0); "
         "squfof::isqrt returns the floor square root whenever its loop exits. perfect_power (r^k = n, k >= 2, root not a "
         "perfect power for the tried exponents, None only for non-powers, termination) is proved RELATIVE TO the floor-root "
         "specification function nthRoot; nth_root_spec / isqrt_spec are facts about that specification function, not about "
         "code: the library root routines (num_integer / bnum nth_root, sqrt = arith::isqrt) are tied by K/O only. "
         "The models are tied to the code by differential runs in both build profiles (every branch label of the models "
         "is reached) and a Python big-integer oracle judges every implementation answer, including whole finite domains "
         "through bulk requests.")
LEVEL_NOTE = ("Trusted: Lean kernel (+propext, Classical.choice, Quot.sound), the hand-written models' correspondence to the "
              "Rust code (sampled by the harness, not proved), Python integers in the oracle. bnum operators and "
              "num_integer roots are modelled as Nat arithmetic / floor roots; termination of squfof::isqrt from its "
              "floating-point seed is checked by runs only.")
TECHNIQUE = "Lean 4 proof about hand models + differential correspondence check + spec oracle"
