/-
SIQS (C12): the sampling loop of `select_a` cannot return when the selection admits fewer than `want` products.
-/
import Ymq.Lemmas.PolySelectTotal
import Mathlib.Data.Finset.Powerset
import Mathlib.Data.Finset.Sort
namespace Ymq.PolySelect
open Ymq.SiqsPoly Ymq.SiqsSelect Ymq.PolySizes Ymq.PolyCrt

/-- at most `C(m, k)` distinct numbers are products of `k` entries of `ps` with distinct indices -/
theorem isProd_card (ps : List Nat) (k : Nat) (cands : List Nat) (hnd : cands.Nodup)
    (h : ∀ A ∈ cands, IsProd ps k A) : cands.length ≤ Nat.choose ps.length k := by
  classical
  let g : Finset Nat → Nat := fun S => S.prod fun i => ps.getD i 0
  have hsub : cands.toFinset ⊆ (Finset.powersetCard k (Finset.range ps.length)).image g := by
    intro A hA
    obtain ⟨idxs, h1, h2, h3, h4⟩ := h A (List.mem_toFinset.mp hA)
    refine Finset.mem_image.mpr ⟨idxs.toFinset, ?_, ?_⟩
    · rw [Finset.mem_powersetCard]
      refine ⟨?_, by rw [List.toFinset_card_of_nodup h1, h2]⟩
      intro i hi
      exact Finset.mem_range.mpr (h3 i (List.mem_toFinset.mp hi))
    · show (idxs.toFinset.prod fun i => ps.getD i 0) = A
      rw [h4, List.prod_toFinset _ h1]
  calc cands.length = cands.toFinset.card := (List.toFinset_card_of_nodup hnd).symm
    _ ≤ ((Finset.powersetCard k (Finset.range ps.length)).image g).card := Finset.card_le_card hsub
    _ ≤ (Finset.powersetCard k (Finset.range ps.length)).card := Finset.card_image_le
    _ = Nat.choose ps.length k := by rw [Finset.card_powersetCard, Finset.card_range]

theorem insertSorted_sorted (x : Nat) : ∀ (l : List Nat), l.Pairwise (· < ·) → (insertSorted x l).Pairwise (· < ·) := by
  intro l
  induction l with
  | nil => intro _; simp [insertSorted]
  | cons y ys ih =>
    intro h
    rw [insertSorted]
    obtain ⟨h1, h2⟩ := List.pairwise_cons.mp h
    split
    · rename_i hlt
      refine List.pairwise_cons.mpr ⟨?_, h⟩
      intro z hz
      rcases List.mem_cons.mp hz with rfl | hz
      · exact hlt
      · exact lt_trans hlt (h1 z hz)
    · split
      · exact h
      · rename_i hnlt hne
        refine List.pairwise_cons.mpr ⟨?_, ih h2⟩
        intro z hz
        rcases insertSorted_mem _ _ _ hz with rfl | hz
        · omega
        · exact h1 z hz

theorem tryJ_sorted (ps mask : List Nat) (prod amin amax : Nat) : ∀ (js cands r : List Nat),
    cands.Pairwise (· < ·) → tryJ ps mask prod amin amax js cands = some r → r.Pairwise (· < ·) := by
  intro js
  induction js with
  | nil => intro cands r hc h; simp [tryJ] at h; subst h; exact hc
  | cons j js ih =>
    intro cands r hc h
    rw [tryJ] at h
    split at h
    · exact ih cands r hc h
    · dsimp only at h
      split at h
      · cases h
      · refine ih _ r ?_ h
        split
        · exact insertSorted_sorted _ _ hc
        · exact hc

/-- the sampling loop cannot return when fewer than `want` products exist -/
theorem sampleLoop_none (tgt nfacs want div0 : Nat) (ps : List Nat) (hnf : 0 < nfacs)
    (hfew : Nat.choose ps.length nfacs < want) :
    ∀ (fuel iters rng div : Nat) (cands : List Nat), div ≤ div0 → cands.Pairwise (· < ·) →
      (∀ A ∈ cands, CandOk ps nfacs tgt div0 A) →
      sampleLoop tgt nfacs want ps fuel iters rng div cands = none := by
  intro fuel
  induction fuel with
  | zero => intro iters rng div cands _ _ _; simp [sampleLoop]
  | succ fuel ih =>
    intro iters rng div cands hdiv hsort hc
    have hlen : ∀ (c : List Nat), c.Pairwise (· < ·) → (∀ A ∈ c, CandOk ps nfacs tgt div0 A) → c.length < want := by
      intro c hs hcc
      have hnd : c.Nodup := hs.imp (fun h => Nat.ne_of_lt h)
      exact lt_of_le_of_lt (isProd_card ps nfacs c hnd (fun A hA => (hcc A hA).1)) hfew
    cases hres : sampleLoop tgt nfacs want ps (fuel + 1) iters rng div cands with
    | none => rfl
    | some as =>
      exfalso
      rw [sampleLoop] at hres
      split at hres
      · rename_i hexit
        exact hexit (Or.inr (hlen cands hsort hc))
      · dsimp only at hres
        split at hres
        · cases hres
        · generalize hd' : (if (iters + 1) % (Ymq.Gen.SiqsSel.widenEvery * want) = 0 ∧ cands.length < want
              then max div 1 - 1 else div) = div' at hres
          have hdiv' : div' ≤ div0 := by rw [← hd']; split <;> omega
          split at hres
          · cases hres
          · split at hres
            · cases hres
            · rename_i rng' mask prod hdraw
              split at hres
              · cases hres
              · split at hres
                · cases hres
                · split at hres
                  · cases hres
                  · rename_i idx hidx
                    split at hres
                    · cases hres
                    · rename_i cands' htry
                      obtain ⟨hm, hml⟩ := drawLoop_ok ps _ _ _ _ _ _ ⟨List.nodup_nil, by simp, by simp⟩ hdraw
                      simp only [List.length_nil, Nat.zero_add] at hml
                      have hc' : ∀ A ∈ cands', CandOk ps nfacs tgt div0 A := by
                        refine tryJ_ok ps nfacs tgt div0 div' mask prod hdiv' hm (by omega)
                          _ cands cands' ?_ hc htry
                        intro j hj
                        split at hj
                        · have := List.mem_of_mem_drop hj
                          have := List.mem_range.mp this
                          omega
                        · exact List.mem_range.mp hj
                      have hsort' := tryJ_sorted _ _ _ _ _ _ _ _ hsort htry
                      have hl' := hlen cands' hsort' hc'
                      split at hres
                      · rename_i hearly
                        have : Ymq.Gen.SiqsSel.earlyMult = 2 := rfl
                        rw [this] at hearly
                        omega
                      · rw [ih _ _ _ _ hdiv' hsort' hc'] at hres
                        cases hres

/-- `select_a` (sampling branch) never returns, whatever the number of iterations granted, when the selection
admits fewer than `want` products of `nfacs` primes -/
theorem selectA_never {n : Int} {tgt nfacs want : Nat} {ps : List Nat} (hnf : 0 < nfacs)
    (hsamp : ¬ (nfacs ≤ Ymq.Gen.SiqsSel.smallNf ∧ bitlen tgt ≤ Ymq.Gen.SiqsSel.smallBits))
    (hfew : Nat.choose ps.length nfacs < want) : ∀ fuel, selectA n tgt nfacs want ps fuel = none := by
  intro fuel
  unfold selectA
  rw [if_neg (by omega)]
  split
  · rfl
  · rename_i div _
    split
    · rfl
    · exact sampleLoop_none tgt nfacs want div ps hnf hfew fuel 0 _ div [] (le_refl _) List.Pairwise.nil (by simp)

end Ymq.PolySelect
