//! The factoring entry point (C01-C05).
//!
//! `factor <n> <alg> [key=value ...]` with keys
//!    threads=<t>  fb=<u32>  lf=<u64>  dbl=<0|1>  isz=<u32>
//!    abortpolls=<k>   abort predicate returns true from its k-th poll on (k = 0: always)
//!    abortms=<ms>     abort predicate returns true once <ms> milliseconds have elapsed
//! answer: `<result> | <trace> | polls=<total polls> late=<polls answered true> lat_ms=<ms between first true poll and return> foreign=<k>`
//!   blind_ms = (abortms only) time between the instant the predicate starts answering true and its next call (or the return):
//!             the request is pending and nobody looks; after_flip = kind of the first trace event after that instant (the stage
//!             that was running)
//!   foreign = abort decisions of factor_impl (trace events `abort`) that were NOT taken by calling the installed predicate
//!             (the predicate logs every call; a decision must directly follow a call with the same answer); 0 without predicate
//!   result = `ok f1,f2,...` | `failure`   (a panic answers `panic` for the whole line)
//!   trace  = sub-algorithm results recorded by yamaquasi::verif_hooks (events `;`, fields `:`)
use crate::util::*;
use std::sync::atomic::{AtomicU64, Ordering};
use std::sync::Arc;
use std::time::Instant;
use yamaquasi::{factor, Algo, Preferences, Verbosity};

/// Removes the `poll <ans>` markers that the installed abort predicate pushes on every call and counts the
/// `abort <n> <ans>` events (decisions of factor_impl) that do not directly follow a call with the same answer:
/// such a decision consulted something else than the caller's predicate.
pub fn strip_polls(tr: Vec<String>) -> (Vec<String>, u64) {
    let (out, foreign, _) = strip_polls_flip(tr);
    (out, foreign)
}

/// Same, and also removes the `flip` marker (pushed by a timer thread at the instant a time-based abort predicate
/// starts answering true) and reports the kind of the first sub-algorithm event recorded after it: the stage that was
/// running when the request arrived (`-` when there is no marker or nothing follows it).
pub fn strip_polls_flip(tr: Vec<String>) -> (Vec<String>, u64, String) {
    let mut out = Vec::with_capacity(tr.len());
    let mut foreign = 0u64;
    let mut prev: Option<String> = None;
    let mut flipped = false;
    let mut after = "-".to_string();
    for e in tr {
        if e == "flip" {
            flipped = true;
            continue;
        }
        if e.starts_with("poll ") {
            prev = Some(e);
            continue;
        }
        if flipped && after == "-" {
            after = e.split(' ').next().unwrap_or("-").to_string();
        }
        if let Some(rest) = e.strip_prefix("abort ") {
            let ans = rest.rsplit(' ').next().unwrap_or("");
            if prev.as_deref() != Some(&format!("poll {ans}")[..]) {
                foreign += 1;
            }
        }
        prev = None;
        out.push(e);
    }
    (out, foreign, after)
}

pub fn algo_of(s: &str) -> Option<Algo> {
    use std::str::FromStr;
    Algo::from_str(s).ok()
}

pub fn handle(op: &str, a: &[&str]) -> Option<String> {
    match op {
        "factor" => {
            let n = uint_of(a.first()?)?;
            let alg = algo_of(a.get(1)?)?;
            let mut prefs = Preferences::default();
            prefs.verbosity = Verbosity::Silent;
            let polls = Arc::new(AtomicU64::new(0));
            let late = Arc::new(AtomicU64::new(0));
            let first_true_us = Arc::new(AtomicU64::new(0));
            let start = Instant::now();
            for kv in &a[2..] {
                let (k, v) = kv.split_once('=')?;
                match k {
                    "threads" => prefs.threads = Some(v.parse().ok()?),
                    "fb" => prefs.fb_size = Some(v.parse().ok()?),
                    "lf" => prefs.large_factor = Some(v.parse().ok()?),
                    "dbl" => prefs.use_double = Some(v == "1"),
                    "isz" => prefs.interval_size = Some(v.parse().ok()?),
                    "abortpolls" | "abortms" => {
                        let lim: u64 = v.parse().ok()?;
                        let by_time = k == "abortms";
                        let (polls, late, ft) = (polls.clone(), late.clone(), first_true_us.clone());
                        prefs.should_abort = Some(Box::new(move || {
                            let c = polls.fetch_add(1, Ordering::SeqCst);
                            let now = start.elapsed().as_micros() as u64;
                            let fire = if by_time { now >= lim * 1000 } else { c >= lim };
                            if fire {
                                late.fetch_add(1, Ordering::SeqCst);
                                let _ = ft.compare_exchange(0, now.max(1), Ordering::SeqCst, Ordering::SeqCst);
                            }
                            yamaquasi::verif_hooks::ev(format!("poll {fire}"));
                            fire
                        }));
                    }
                    _ => return None,
                }
            }
            yamaquasi::verif_hooks::start();
            // time-based predicate: a timer thread marks the instant of the request in the trace
            let finished = Arc::new(std::sync::atomic::AtomicBool::new(false));
            let flip_ms: Option<u64> = a[2..].iter().find_map(|kv| kv.strip_prefix("abortms=").and_then(|v| v.parse().ok()));
            if let Some(ms) = flip_ms {
                let fin = finished.clone();
                std::thread::spawn(move || {
                    let el = start.elapsed().as_millis() as u64;
                    if ms > el {
                        std::thread::sleep(std::time::Duration::from_millis(ms - el));
                    }
                    if !fin.load(Ordering::SeqCst) {
                        yamaquasi::verif_hooks::ev("flip".to_string());
                    }
                });
            }
            let r = std::panic::catch_unwind(std::panic::AssertUnwindSafe(|| factor(n, alg, &prefs)));
            let end = start.elapsed().as_micros() as u64;
            finished.store(true, Ordering::SeqCst);
            let (tr, foreign, after_flip) = strip_polls_flip(yamaquasi::verif_hooks::take());
            // time during which the request was pending without the predicate being consulted
            let blind_ms = match flip_ms {
                Some(ms) if end > ms * 1000 => {
                    let ft = first_true_us.load(Ordering::SeqCst);
                    ((if ft == 0 { end } else { ft.min(end) }).saturating_sub(ms * 1000)) / 1000
                }
                _ => 0,
            };
            let foreign = if prefs.should_abort.is_some() { foreign } else { 0 };
            let trace = if tr.is_empty() {
                "-".to_string()
            } else {
                tr.iter().map(|e| e.replace(' ', ":")).collect::<Vec<_>>().join(";")
            };
            let res = match r {
                Ok(Ok(v)) => format!("ok {}", show_list(&v)),
                Ok(Err(_)) => "failure".to_string(),
                Err(_) => "panic".to_string(),
            };
            let ft = first_true_us.load(Ordering::SeqCst);
            let lat = if ft == 0 { 0 } else { (end - ft.min(end)) / 1000 };
            Some(format!(
                "{res} | {trace} | polls={} late={} lat_ms={} foreign={foreign} blind_ms={blind_ms} after_flip={after_flip}",
                polls.load(Ordering::SeqCst),
                late.load(Ordering::SeqCst),
                lat
            ))
        }
        // `factor_sweep <alg> <lo> <hi>`: every n in [lo, hi) through factor(); the answers are judged
        // here with naive trial division (independent of yamaquasi): product, order, primality of
        // every element. answer: `n=<count> bad_product=<k> composite=<k> failure=<k> panic=<k> first=<n|->`
        "factor_sweep" => {
            let alg = algo_of(a.first()?)?;
            let lo: u64 = a.get(1)?.parse().ok()?;
            let hi: u64 = a.get(2)?.parse().ok()?;
            let mut prefs = Preferences::default();
            prefs.verbosity = Verbosity::Silent;
            let naive_prime = |x: u64| -> bool {
                if x < 2 {
                    return false;
                }
                let mut d = 2u64;
                while d * d <= x {
                    if x % d == 0 {
                        return false;
                    }
                    d += 1;
                }
                true
            };
            let (mut bad, mut comp, mut fail, mut pan) = (0u64, 0u64, 0u64, 0u64);
            let mut first: Option<u64> = None;
            for n in lo..hi {
                let r = std::panic::catch_unwind(std::panic::AssertUnwindSafe(|| {
                    factor(n.into(), alg, &prefs)
                }));
                let mut isbad = false;
                match r {
                    Ok(Ok(v)) => {
                        let v: Vec<u64> = v.iter().map(|x| x.digits()[0]).collect();
                        let prod: u128 = v.iter().map(|&x| x as u128).product();
                        let sorted = v.windows(2).all(|w| w[0] <= w[1]);
                        let shape_ok = if n == 0 { v == vec![0] } else { prod == n as u128 && sorted };
                        if !shape_ok {
                            bad += 1;
                            isbad = true;
                        } else if n >= 2 && !v.iter().all(|&x| naive_prime(x)) {
                            comp += 1;
                            isbad = true;
                        }
                    }
                    Ok(Err(_)) => {
                        // a prime input never fails; a failure on composite input is a give-up
                        fail += 1;
                        isbad = true;
                    }
                    Err(_) => {
                        pan += 1;
                        isbad = true;
                    }
                }
                if isbad && first.is_none() {
                    first = Some(n);
                }
            }
            Some(format!(
                "n={} bad_product={bad} composite={comp} failure={fail} panic={pan} first={}",
                hi.saturating_sub(lo),
                first.map(|x| x.to_string()).unwrap_or("-".into())
            ))
        }
        // `abort_scan <n> <alg> <threads|0> <maxpolls>`: one run with a predicate that never fires counts the
        // polls P of the run; then one run per flip instant k = 0..=min(P, maxpolls) (predicate true from its
        // k-th poll on). answer: `polls=<P> runs=<k> bad=<k:kind,...|-> maxlat_ms=<ms> incomplete=<runs that left a composite or failed>`
        // kind `foreign`: factor_impl took an abort decision without calling the installed predicate (see strip_polls)
        "abort_scan" => {
            let n = uint_of(a.first()?)?;
            let alg = algo_of(a.get(1)?)?;
            let threads: usize = a.get(2)?.parse().ok()?;
            let maxpolls: u64 = a.get(3)?.parse().ok()?;
            let run = |limit: Option<u64>| -> (String, u64, u64) {
                let mut prefs = Preferences::default();
                prefs.verbosity = Verbosity::Silent;
                if threads > 0 {
                    prefs.threads = Some(threads);
                }
                let polls = Arc::new(AtomicU64::new(0));
                let first_true_us = Arc::new(AtomicU64::new(0));
                let start = Instant::now();
                {
                    let (polls, ft) = (polls.clone(), first_true_us.clone());
                    prefs.should_abort = Some(Box::new(move || {
                        let c = polls.fetch_add(1, Ordering::SeqCst);
                        let fire = limit.map_or(false, |l| c >= l);
                        if fire {
                            let now = start.elapsed().as_micros() as u64;
                            let _ = ft.compare_exchange(0, now.max(1), Ordering::SeqCst, Ordering::SeqCst);
                        }
                        yamaquasi::verif_hooks::ev(format!("poll {fire}"));
                        fire
                    }));
                }
                yamaquasi::verif_hooks::start();
                let r = std::panic::catch_unwind(std::panic::AssertUnwindSafe(|| factor(n, alg, &prefs)));
                let end = start.elapsed().as_micros() as u64;
                let (_, foreign) = strip_polls(yamaquasi::verif_hooks::take());
                let ft = first_true_us.load(Ordering::SeqCst);
                let lat = if ft == 0 { 0 } else { (end - ft.min(end)) / 1000 };
                let kind = match r {
                    Ok(Ok(v)) => {
                        let prod = v.iter().fold(yamaquasi::Uint::ONE, |acc, x| acc * *x);
                        if prod != n || v.windows(2).any(|w| w[0] > w[1]) {
                            "wrong".to_string()
                        } else if v.iter().all(|&x| yamaquasi::pseudoprime(x)) {
                            "ok".to_string()
                        } else {
                            "partial".to_string()
                        }
                    }
                    Ok(Err(_)) => "failure".to_string(),
                    Err(_) => "panic".to_string(),
                };
                let kind = if foreign > 0 && kind != "panic" && kind != "wrong" { "foreign".to_string() } else { kind };
                (kind, polls.load(Ordering::SeqCst), lat)
            };
            let (k0, p, _) = run(None);
            let mut bad = vec![];
            if k0 != "ok" && k0 != "partial" && k0 != "failure" {
                bad.push(format!("noabort:{k0}"));
            }
            let (mut maxlat, mut incomplete, mut runs) = (0u64, 0u64, 0u64);
            for k in 0..=p.min(maxpolls) {
                let (kind, _, lat) = run(Some(k));
                runs += 1;
                maxlat = maxlat.max(lat);
                match kind.as_str() {
                    "ok" => {}
                    "partial" | "failure" => incomplete += 1,
                    other => bad.push(format!("{k}:{other}")),
                }
            }
            Some(format!(
                "polls={p} runs={runs} bad={} maxlat_ms={maxlat} incomplete={incomplete}",
                if bad.is_empty() { "-".to_string() } else { bad.join(",") }
            ))
        }
        // `rho_fail_search <plo> <phi>`: all n = p*q with primes plo <= p <= q < phi: does pollard_rho::rho fail?
        "rho_fail_search" => {
            let plo: u64 = a.first()?.parse().ok()?;
            let phi: u64 = a.get(1)?.parse().ok()?;
            let ps: Vec<u64> = (plo..phi).filter(|&x| yamaquasi::isprime64(x)).collect();
            let mut fails = vec![];
            let mut count = 0u64;
            for (i, &p) in ps.iter().enumerate() {
                for &q in &ps[i..] {
                    let Some(n) = p.checked_mul(q) else { continue };
                    count += 1;
                    if yamaquasi::pollard_rho::rho(&n.into(), Verbosity::Silent).is_none() {
                        if fails.len() < 20 {
                            fails.push(n);
                        }
                    }
                }
            }
            Some(format!("pairs={count} fails={}", show_list(&fails)))
        }
        _ => None,
    }
}
