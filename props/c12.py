"""C12 — sieving polynomials carry correct roots and square-root identities.

SIQS (siqs.rs: prepare_a, Poly::first/next, _finish_polynomial, Poly::eval), MPQS (mpqs.rs: make_poly,
Poly::prepare_prime, Poly::eval, batch_inversion) and the classical sieve (qsieve.rs: SieveQS::new,
prepare_prime_fwd/bck; next_lgblock through the translator translate/qsshift.py).

Request lines (harness/src/ops_poly.rs); every answer is `HEADER | BODY`:
  siqs_walk n k fbsize nfacs mm want aidx step tail maxpolys
  mpqs_poly n k fbsize mm d
  mpqs_batchinv n k fbsize d1,d2,...
  qs_roots n k fbsize
The header carries what the real code chose (factor base + square roots, selection of A factors, A);
`followup` turns it into the request for the Lean model (lean/Ymq/Drv/Poly.lean), whose answer must equal
the body byte for byte (K).  The oracle (O) re-derives everything the property states from the numbers in
the answer with plain Python integers.
"""
import hashlib
import math
from vlib.pipeline import Case
from vlib import gen

PID = "C12"
GEN = ["qsshift", "siqssel", "callsites"]
LEAN = ["Ymq.Props.C12"]
AUDIT = "Ymq.Audit.C12"
THEOREMS = ["Ymq.C12." + t for t in (
    "siqs_identity siqs_identity_model eval_eq_polyVal siqs_B_sq walk_B_sq min_trick gray_step roots_inv roots_walk poly_exact poly_exact_domain siqs_walk_total stale_c_check_witness size_assert_fails_470 roots_exact roots_exact_unit select_window_assert select_a_sound siqs_select_walk_total select_a_never_returns select_a_hang_witness select_assert_fires_witness siqs_params_in_domain hensel_lift mpqs_identity make_poly_total sieve_for_polys_sound callsite_offsets prepare_prime_exact qs_roots_exact lgblock_shift").split()]
HYPOTHESES = []
PROFILES = ["release", "chk"]
TIMEOUT = 60.0
SELECT_FUEL = 20000   # iterations of the sampling loop of select_a granted to the model, per requested A value
BRUTE = 400          # primes up to this bound: the root set is enumerated over all residues

RULE = ("in BOTH tiers every op at n*k of exactly 63,64,65,127,128,129,255,256,257,258,300,384,447,448 bits (QS: ..399,400), batch inversion "
        "with D of 64..127 bits; then: n = product of two random primes, the residue class mod 8 forced (1, 3, 5, 7; 2 and 6 through even multipliers), 24..200 bits quick / "
        "..400 bits thorough, multiplier k in {3,5,7,11,13,15,17,21,35,2,6} for a third of them; SIQS: parameters of the real driver (auto) or "
        "forced factor base 16..6000 (thorough 20000) primes, nfacs 0 and 2..14, interval 16k..512k, 1-3 A values per n, every Gray index for "
        "nfacs <= 6 else every 64th + the last 16, per polynomial all primes of the factor base; MPQS: D prime 3 mod 4 next to the driver's "
        "target, D inside the factor base for tiny n (both signs of C), composite pseudo-squares D = (k+1)(2k+1), batches of up to 16 D; QS: "
        "forward/backward roots incl. only-odds mode; out-of-domain make_poly inputs (D^2 > n) in the checked profile, model compared only; "
        "oracle: root sets enumerated over all residues for p <= 400, above that both entries are checked to be roots and completeness follows "
        "from the degree (two distinct roots, or a double root iff p | n; one root when p | A resp. p | D); distinct = distinct request lines "
        "with at least one polynomial")
MODELLED = [
    "siqs::{prepare_a, Poly::first, Poly::next, _finish_polynomial, Poly::eval, SieveSIQS::new (offsets, nsqrt)} and the table of inverses "
    "of select_siqs_factors (Ymq/Model/SiqsPoly.lean): u32 wrap-around of the min trick, I256/i32 overflow, every assert/debug_assert/"
    "unreachable!/unwrap as `none`",
    "siqs::{select_siqs_factors (target, pool, window, assertion), select_a (exhaustive branch, sampling loop with the built-in xorshift "
    "generator, tolerance widening, early exit, fuel = non-termination)} (Ymq/Model/SiqsSelect.lean); seed, shifts and loop constants "
    "translated from the source (translate/siqssel.py -> Ymq/Gen/SiqsSel.lean), a_tolerance_divisor from Ymq/Gen/Params.lean (C20)",
    "mpqs::{make_poly, Poly::prepare_prime (p = 2, p | D, generic), Poly::eval} and the specification of Workspace::batch_inversion "
    "(Ymq/Model/MpqsPoly.lean)",
    "qsieve::SieveQS::{new, prepare_prime_fwd, prepare_prime_bck, nblocks} (Ymq/Model/QsRoots.lean); the closure next_lgblock is "
    "translated from the source text (translate/qsshift.py -> Ymq/Gen/QsShift.lean)",
]
UNMODELLED = [
    "FBase::new enters as data (primes and square roots are taken from the real code's answer); the oracle checks r^2 = n mod p, r < p and "
    "primality for every entry of every run",
    "the walk ops take the selection and A from the real code's answer (or from the generator: siqs_custom); select_siqs_factors and select_a "
    "are compared separately (siqs_select) on the same factor bases",
    "Dividers::{mod_uint, divmod64, modu63, modi64}, arith::inv_mod64, Inverter::invert, arith_gcd::inv_mod are taken at their specification "
    "(exact remainder / modular inverse): properties C08 and C09",
    "next_lgblock is local to qsieve(): tied to the source by the translator, not by differential runs; the arrays of the model are one "
    "record per prime (array of structs) where the Rust code has one array per quantity",
    "driver loops that no hook can call and that the harness therefore re-implements (their shape is pinned by translate/callsites.py, an "
    "ExtractError breaks the check): siqs::sieve_a (prepare_a with -(mm as i64)/2, Poly::first, the loop `if idx > 0 { pol.next }`, "
    "SieveSIQS::new arguments) in ops_poly.rs siqs_body; the loop of process_poly_block (nested fn of mpqs()) in the hook vh_poly_block "
    "(chunks of 16, batch_inversion, one Workspace) around the REAL mpqs_poly (make_poly, dinv_modp[idx], start offset, prepare_prime, "
    "sieve); qsieve()'s set-up loop for the backward roots (the forward roots go through the real init_sieve_for_test); the single-"
    "polynomial ops mpqs_poly / mpqs_batchinv call prepare_prime and batch_inversion directly with a fresh workspace",
    "bnum U1024/U256/I256 operators and num_integer::sqrt are modelled as the mathematical operations with explicit range checks; "
    "slice::sort_by_key/sort as a stable merge sort, BTreeSet as a strictly increasing list",
    "the model has the semantics of the checked profile: where the release profile continues instead (debug_assert-only checks) "
    "the comparison is run in the checked profile only",
]

SMALL_PRIMES = [p for p in range(2, 200) if all(p % q for q in range(2, p))]
MULTS = [3, 5, 7, 11, 13, 15, 17, 21, 35, 2, 6]


# ---------------------------------------------------------------- parsing

def split_answer(ans):
    if " | " in ans:
        h, b = ans.split(" | ", 1)
    elif ans.endswith(" |"):
        h, b = ans[:-2], ""
    else:
        return None, ans
    return dict(t.split("=", 1) for t in h.split(" ") if "=" in t), b


def ints(s):
    return [] if s == "-" else [int(x) for x in s.split(",")]


def pairs(s):
    return [] if s == "-" else [tuple(int(y) for y in x.split(":")) for x in s.split(",")]


_SENT = set()


def followup(case, ans):
    """model request + expected answer. The pipeline asks once per profile; when the checked profile gives the same
    answer as the release profile the identical (request, expected) pair is not sent to the model a second time."""
    fu = _followup(case, ans)
    if fu is None:
        return None
    key = hashlib.blake2b((fu[0] + "\0" + fu[1]).encode(), digest_size=12).digest()
    if key in _SENT:
        return None
    _SENT.add(key)
    return fu


def _followup(case, ans):
    h, body = split_answer(ans)
    if h is None or body == "no-d":
        return None
    op = case.op
    a = case.args
    if body in ("sel-panic", "no-a"):
        if op != "siqs_walk" or "want" not in h:
            return None
        # the selection failed in the real code: the model of select_siqs_factors / select_a must fail the same way
        want = int(h["want"])
        return (f"siqs_select_class_m {h['N']} {h['nf']} {h['mm']} {want} {SELECT_FUEL * max(want, 1) + 100} {h['fb']} {h['sq']}", body)
    if op in ("siqs_walk", "siqs_custom"):
        if "a" not in h:
            return None
        sq = dict(zip(h["fb"].split(","), h["sq"].split(",")))
        sel = h["sel"]
        selr = "-" if sel == "-" else ",".join(sq[p] for p in sel.split(","))
        spec = a[7:10] if op == "siqs_walk" else a[6:9]
        return (f"siqs_walk_m {h['N']} {h['mm']} {h['so']} {h['fb']} {h['sq']} {sel} {selr} {h['a']} {spec[0]} {spec[1]} {spec[2]}", body)
    if op == "siqs_select":
        want = int(h["want"])
        return (f"siqs_select_m {h['N']} {h['nf']} {h['mm']} {want} {SELECT_FUEL * max(want, 1) + 100} {h['fb']} {h['sq']}", body)
    if op == "mpqs_poly":
        return (f"mpqs_poly_m {h['N']} {h['d']} {h['r']} {h['so']} {h['fb']} {h['sq']}", body)
    if op == "mpqs_batchinv":
        return (f"mpqs_batchinv_m {h['ds']} {h['fb']}", body)
    if op == "mpqs_block":
        return (f"mpqs_block_m {h['N']} {h['so']} {h['fb']} {h['sq']} {h['dbase']} {h['dstride']} {a[6]}", body)
    if op == "qs_roots":
        return (f"qs_roots_m {h['N']} {h['fb']} {h['sq']}", body)
    return None


# ---------------------------------------------------------------- oracle

def check_fbase(N, fb, sq):
    if len(fb) != len(sq) or not fb:
        return "factor base and root table differ in length"
    for p, s in zip(fb, sq):
        if s >= p or (s * s - N) % p:
            return f"factor base: r={s} is not a reduced square root of n modulo p={p}"
        if not gen.is_prime(p):
            return f"factor base: {p} is not prime"
    if fb != sorted(set(fb)):
        return "factor base not strictly increasing"
    return None


def root_set_msg(what, p, f, lead, lin, const, r1, r2, superset_only=False):
    """f: residue -> value of the polynomial at that sieve position (integer); lead/lin/const: coefficients of the
    polynomial in the position variable, used for the degree argument when p is too large for enumeration."""
    if superset_only:
        have = {r1 % p, r2 % p}
        for x in range(p):
            if f(x) % p == 0 and x not in have:
                return f"{what}: p={p} residue {x} is a root but the table holds ({r1},{r2})"
        return None
    if r1 >= p or r2 >= p:
        return f"{what}: p={p} root not reduced ({r1},{r2})"
    if p <= BRUTE:
        want = {x for x in range(p) if f(x) % p == 0}
        if want != {r1, r2}:
            return f"{what}: p={p} roots {sorted(want)} but the table holds ({r1},{r2})"
        return None
    if f(r1) % p or f(r2) % p:
        return f"{what}: p={p} table entry ({r1},{r2}) is not a root"
    # completeness: a polynomial of degree d over the field F_p has at most d roots
    if lead % p:
        disc = lin * lin - 4 * lead * const
        if r1 == r2 and disc % p:
            return f"{what}: p={p} two distinct roots exist but the table holds ({r1},{r2})"
    elif lin % p:
        if r1 != r2:
            return f"{what}: p={p} divides the leading coefficient, single root expected, table holds ({r1},{r2})"
    else:
        return f"{what}: p={p} polynomial is constant modulo p"
    return None


def oracle_siqs(case, h, body):
    N = int(h["N"])
    fb, sq = ints(h["fb"]), ints(h["sq"])
    msg = check_fbase(N, fb, sq)
    if msg:
        return msg
    if body in ("sel-panic", "no-a"):
        # no polynomial was handed to the sieve. With the driver's own parameters this must not happen; with forced parameters it
        # is compared with the model only.
        if case.op == "siqs_walk" and case.args[2:6] == ["auto"] * 4:
            return f"selection of A failed ({body}) with the driver's own parameters"
        return None
    toks = body.split(" ")
    if toks[-1] == "panic":
        # forced (unrealistic) parameter combinations trip the size assertions of _finish_polynomial: no polynomial is
        # handed to the sieve, which is not a statement about roots. With the driver's own parameters it is reported.
        if case.op == "siqs_walk" and case.args[2:5] == ["auto", "auto", "auto"]:
            return "panic while preparing polynomials with the driver's own parameters (A=%s)" % h.get("a")
        toks = toks[:-1]
        if len(toks) < 8:
            return None
    if toks[0] != "A":
        return "malformed answer"
    A = int(toks[1])
    so = int(h["so"])
    kv = dict(t.split("=", 1) for t in toks[2:8])
    af = ints(kv["af"])
    if math.prod(af) != A:
        return f"A={A} is not the product of its listed factors {af}"
    if any(p not in fb for p in af) or len(set(af)) != len(af):
        return f"factors of A={A} not distinct members of the factor base"
    # CRT basis: roots[i] squares to n modulo p_i and vanishes modulo the other factors
    for i, (r0, r1) in enumerate(pairs(kv["roots"])):
        for j, p in enumerate(af):
            for r in (r0, r1):
                if (i == j and (r * r - N) % p) or (i != j and r % p):
                    return f"A={A}: CRT root {r} (factor {i}) wrong modulo {p}"
    type2 = N % 4 == 1
    i = 8
    seen = 0
    while i < len(toks):
        if toks[i] != "P" or i + 8 >= len(toks):
            return "malformed polynomial record"
        idx, kind, B, C, root = (int(x) for x in toks[i + 1:i + 6])
        r1p, r2p = ints(toks[i + 6]), ints(toks[i + 7])
        ev = [tuple(int(y) for y in x.split(":")) for x in toks[i + 8].split(",")]
        i += 9
        seen += 1
        where = f"A={A} index={idx}"
        if case.op == "siqs_custom" and abs((B * B - N) // ((4 if type2 else 1) * A)) >> 255:
            # A chosen by the generator far below n / 2^255: the exact C does not fit an I256 and is stored truncated (the code
            # checks the size of the previous polynomial's C only). Outside the domain of the size theorems; model compared only.
            continue
        if kind != (2 if type2 else 1):
            return f"{where}: polynomial kind {kind} for n mod 4 = {N % 4}"
        if len(r1p) != len(fb) or len(r2p) != len(fb):
            return f"{where}: root table length"
        if type2:
            P = lambda x: A * x * x + B * x + C
            lin0 = B
            for x, v, y in ev:
                if (2 * A * x + B) ** 2 - N != 4 * A * P(x):
                    return f"{where}: (2Ax+B)^2 - n != 4A P(x) at x={x} (B={B} C={C})"
                if v != P(x) or (y * y - 4 * A * v) % N:
                    return f"{where}: eval({x}) = ({v},{y}) does not satisfy y^2 = 4A P(x) mod n"
            if B % 2 == 0:
                return f"{where}: B={B} even for a type 2 polynomial"
        else:
            P = lambda x: A * x * x + 2 * B * x + C
            lin0 = 2 * B
            for x, v, y in ev:
                if (A * x + B) ** 2 - N != A * P(x):
                    return f"{where}: (Ax+B)^2 - n != A P(x) at x={x} (B={B} C={C})"
                if v != P(x) or (y * y - 4 * A * v) % N:
                    return f"{where}: eval({x}) = ({v},{y}) does not satisfy y^2 = 4A P(x) mod n"
        # coefficients of Q(t) = P(t + so)
        lead, lin, const = A, 2 * A * so + lin0, P(so)
        for p, r1, r2 in zip(fb, r1p, r2p):
            m = root_set_msg(where, p, lambda t: P(t + so), lead, lin, const, r1, r2, superset_only=(p == 2))
            if m:
                return m + f" (n={N})"
    if seen == 0 and not body.endswith("panic"):
        return "no polynomial in the answer"
    return None


def check_mpqs_poly(N, fb, so, d, toks, kv, r=None):
    """one polynomial record `M a b c bb d dinv` (+ optional dinv=, roots=, ev=): identities, Hensel lift, root tables"""
    a, b, c, bb, dd, dinv = (int(x) for x in toks[1:7])
    where = f"D={d}"
    if r is not None and (r * r - N) % d:
        return f"D={d}: r={r} is not a square root of n"
    if a != d * d or dd != d:
        return f"{where}: A != D^2"
    if dinv * d % N != 1 % N:
        return f"{where}: dinv is not the inverse of D modulo n"
    P = lambda x: a * x * x + b * x + c
    pts = [so, -1, 0, 1, 7, -so - 1]
    if N % 4 == 1:
        if b % 2 == 0 or (b * b - N) % (4 * d * d):
            return f"{where}: B={b} is not an odd square root of n modulo 4D^2"
        if any((2 * a * x + b) ** 2 - N != 4 * a * P(x) for x in pts):
            return f"{where}: (2Ax+B)^2 - n != 4A P(x)"
    else:
        if b % 2 or ((b // 2) ** 2 - N) % (d * d) or bb != b // 2:
            return f"{where}: B/2={b // 2} is not a square root of n modulo D^2"
        if any((a * x + b // 2) ** 2 - N != a * P(x) for x in pts):
            return f"{where}: (Ax+B/2)^2 - n != A P(x)"
    if (2 * bb - b) % N:
        return f"{where}: bb is not B/2 modulo n"
    if "ev" in kv:
        for x, v, y in (tuple(int(t) for t in e.split(":")) for e in kv["ev"].split(",")):
            if v != P(x) or (y * y - v) % N:
                return f"{where}: eval({x}) = ({v},{y}) does not satisfy y^2 = P(x) mod n"
    if "dinv" in kv:
        for p, v in zip(fb, ints(kv["dinv"])):
            if (d % p == 0 and v != 0) or (d % p and (v >= p or v * d % p != 1)):
                return f"{where}: batch inverse {v} of D modulo {p}"
    lead, lin, const = a, 2 * a * so + b, P(so)
    for p, (r1, r2) in zip(fb, pairs(kv["roots"])):
        m = root_set_msg(where, p, lambda t: P(t + so), lead, lin, const, r1, r2, superset_only=(p == 2))
        if m:
            return m + f" (n={N})"
    return None


def oracle_mpqs(case, h, body):
    N = int(h["N"])
    fb, sq = ints(h["fb"]), ints(h["sq"])
    msg = check_fbase(N, fb, sq)
    if msg:
        return msg
    if body in ("sel-panic", "no-d"):
        return None
    toks = body.split(" ")
    d, r, so = int(h["d"]), int(h["r"]), int(h["so"])
    if toks[-1] == "panic":
        if (r * r - N) % d:
            return f"D={d}: r={r} is not a square root of n"
        return f"panic while preparing the polynomial D={d}"
    kv = dict(t.split("=", 1) for t in toks[7:])
    return check_mpqs_poly(N, fb, so, d, toks, kv, r)


def oracle_block(case, h, body):
    """sieve_for_polys with a real width, then the polynomials as the real mpqs_poly prepared them (one workspace)"""
    N = int(h["N"])
    fb, sq = ints(h["fb"]), ints(h["sq"])
    msg = check_fbase(N, fb, sq)
    if msg:
        return msg
    toks = body.split(" ")
    if toks[-1] == "panic":
        return "panic while processing a block of polynomials"
    so, dbase, dstride = int(h["so"]), int(h["dbase"]), int(h["dstride"])
    drs = pairs(toks[0].split("=", 1)[1])
    last = dbase - 1
    for d, r in drs:
        if not (dbase <= d < dbase + dstride) or d <= last:
            return f"D={d} outside the block [{dbase}, {dbase + dstride}) or not increasing"
        last = d
        if d % 4 != 3:
            return f"D={d} is not 3 modulo 4"
        if r >= d or (r * r - N) % d:
            return f"D={d}: r={r} is not a reduced square root of n modulo D"
        if math.gcd(d, N) != 1:
            return f"D={d} shares a factor with n"
        if any(d % p == 0 and d != p for p in SMALL_PRIMES):
            return f"D={d} has a small prime factor"
    # completeness of the sieve: every admissible D of the block is listed
    have = {d for d, _ in drs}
    for d in range(dbase, dbase + dstride):
        if d % 4 == 3 and d not in have and math.gcd(d, N) == 1 and not any(d % p == 0 and (dbase > p or d >= 2 * p) for p in SMALL_PRIMES):
            rr = pow(N % d, (d + 1) // 4, d)
            if (rr * rr - N) % d == 0:
                return f"D={d} (root {rr}) is missing from the block"
    i, npol = 1, 0
    while i < len(toks):
        if toks[i] != "M" or i + 7 >= len(toks):
            return "malformed polynomial record"
        rec = toks[i:i + 7]
        kv = dict([toks[i + 7].split("=", 1)])
        if npol >= len(drs):
            return "more polynomials than D values"
        d, r = drs[npol]
        m = check_mpqs_poly(N, fb, so, d, rec, kv, r)
        if m:
            return m
        npol += 1
        i += 8
    if npol != min(len(drs), int(case.args[6])):
        return f"{npol} polynomials processed for {len(drs)} D values"
    return None


def oracle_select(case, h, body):
    """what the rest of the property relies on: the selection consists of distinct primes of the factor base (not the first one)
    with non-zero root, and every A is a product of exactly nfacs distinct selected primes; the list is increasing, without
    repetition and at most `want` long; on the sampling path A lies below 4 * target"""
    N = int(h["N"])
    fb, sq = ints(h["fb"]), ints(h["sq"])
    msg = check_fbase(N, fb, sq)
    if msg:
        return msg
    if body.endswith("sel-panic") or body.endswith("a-panic"):
        if case.args[2:6] == ["auto"] * 4:
            return "panic in select_siqs_factors/select_a with the driver's own parameters"
        return None
    kv = dict(t.split("=", 1) for t in body.split(" "))
    tgt, sel, As = int(kv["tgt"]), ints(kv["sel"]), ints(kv["as"])
    nf, want = int(h["nf"]), int(h["want"])
    roots = dict(zip(fb, sq))
    if any(p not in roots or roots[p] == 0 or p == fb[0] for p in sel) or sel != sorted(set(sel)):
        return "selection is not an increasing list of factor base primes with non-zero root"
    if nf and len(sel) <= nf:
        return "selection not larger than nfacs"
    if As != sorted(set(As)) or len(As) > max(want, 1):
        return "A values not increasing / more than requested"
    if not As and case.args[2:6] == ["auto"] * 4:
        return "no A value with the driver's own parameters"
    small = nf <= 5 and tgt.bit_length() <= 66
    for A in As:
        fac = [p for p in sel if A % p == 0]
        if math.prod(fac) != A or len(fac) != nf:
            return f"A={A} is not a product of {nf} distinct selected primes"
        if nf and not small and not 0 < A < 4 * tgt:
            return f"A={A} outside (0, 4 target)"
    return None


def oracle_batchinv(case, h, body):
    fb = ints(h["fb"])
    ds = ints(h["ds"])
    rows = body.split(" ")
    if rows[-1] == "panic":
        return "panic in batch_inversion"
    if len(rows) != len(ds):
        return "row count"
    for d, row in zip(ds, rows):
        for p, v in zip(fb, ints(row)):
            if (d % p == 0 and v != 0) or (d % p and (v >= p or v * d % p != 1)):
                return f"batch inverse {v} of D={d} modulo {p}"
    return None


def oracle_qs(case, h, body):
    N = int(h["N"])
    fb, sq = ints(h["fb"]), ints(h["sq"])
    msg = check_fbase(N, fb, sq)
    if msg:
        return msg
    toks = body.split(" ")
    if toks[-1] == "panic":
        return "panic while preparing the classical sieve"
    R, n2mn = int(toks[1]), int(toks[2])
    odds = toks[3] == "true"
    kv = dict(t.split("=", 1) for t in toks[5:])
    r0 = math.isqrt(N)
    if odds != (N % 8 == 1) or R != (r0 + (1 - r0 % 2) if odds else r0) or n2mn != R * R - N:
        return f"rounded square root {R} / only_odds {odds}"
    m = 2 if odds else 1
    for p, (f1, f2), (b1, b2) in zip(fb, pairs(kv["fwd"]), pairs(kv["bck"])):
        sup = odds and p == 2
        # forward: position x is the candidate (R + m x)^2 - n
        msg = root_set_msg("forward", p, lambda x: (R + m * x) ** 2 - N, m * m, 2 * m * R, R * R - N, f1, f2, sup)
        if msg:
            return msg + f" (n={N})"
        # backward: position x is the candidate (R - m (x + 1))^2 - n
        msg = root_set_msg("backward", p, lambda x: (R - m * (x + 1)) ** 2 - N, m * m, -2 * m * (R - m), (R - m) ** 2 - N, b1, b2, sup)
        if msg:
            return msg + f" (n={N})"
    return None


def oracle(case, ans):
    if ans == "hang" and case.op == "siqs_select" and case.args[3:5] != ["auto", "auto"]:
        return None                     # forced nfacs / interval size: termination of select_a is conditional (select_a_never_returns)
    if ans in ("panic", "abort", "hang", "?"):
        return f"no answer ({ans})"
    h, body = split_answer(ans)
    if h is None:
        return "malformed answer"
    try:
        if case.op in ("siqs_walk", "siqs_custom"):
            return oracle_siqs(case, h, body)
        if case.op == "siqs_select":
            return oracle_select(case, h, body)
        if case.op == "mpqs_poly":
            return oracle_mpqs(case, h, body)
        if case.op == "mpqs_batchinv":
            return oracle_batchinv(case, h, body)
        if case.op == "mpqs_block":
            return oracle_block(case, h, body)
        if case.op == "qs_roots":
            return oracle_qs(case, h, body)
    except (ValueError, KeyError, IndexError) as e:
        return f"malformed answer ({e!r})"
    return "unknown op"


# ---------------------------------------------------------------- generators

def semiprime(rng, bits, cls):
    """product of two primes with `bits` bits in the residue class cls modulo 8 (cls odd)"""
    for _ in range(10000):
        pb = max(3, bits // 2 + rng.randint(-bits // 8, bits // 8))
        p = gen.rand_prime(rng, pb)
        q = gen.rand_prime(rng, max(3, bits - pb))
        if p != q and p * q % 8 == cls and abs((p * q).bit_length() - bits) <= 1:
            return p * q
    raise RuntimeError("no semiprime found")


def walk_spec(nf, big=False):
    """(step, tail, maxpolys): every index for nfacs <= 6, else every 64th and the last 16 of the first 2048 polynomials
    (the answers are kept in memory by the pipeline: a 20000-prime table is 200 kB per polynomial)"""
    if nf <= 6:
        return (1, 0, 1 << 20)
    return (128, 16, 1024) if big else (64, 16, 2048)


def nfactors(bits):
    for hi, v in ((64, 2), (89, 3), (119, 4), (149, 5), (169, 6), (199, 7)):
        if bits <= hi:
            return v
    return bits // 25


def fb_auto(bits):
    """params::factor_base_size (integer part only; used to keep forced sizes realistic)"""
    if bits < 160:
        return ((20 + bits % 20) << (bits // 20)) // 3
    rt = math.isqrt(256 * bits)
    return (12 + rt % 12) << (rt // 12 - 10)


def siqs_cases(rng, tier, scale):
    maxbits = 200 if tier == "quick" else 400
    sizes = [24, 32, 40, 48, 56, 64, 72, 80, 96, 110, 128, 150, 170, 200] + ([230, 260, 300, 330, 360, 400] if maxbits > 200 else [])
    for cls in (1, 3, 5, 7):
        for j in range(14 * scale):
            bits = sizes[(j * 5 + cls) % len(sizes)] if j < len(sizes) else rng.choice(sizes)
            n = semiprime(rng, bits, cls)
            k = rng.choice(MULTS) if j % 3 == 2 else 1
            nb = (n * k).bit_length()
            nf_auto = nfactors(nb)
            style = rng.randrange(5)
            if style <= 1 and nb <= 210:
                # the parameters the real driver would use
                fbs, nf, mm = "auto", "auto", "auto"
                nfv = nf_auto
                want = "auto" if nb <= 150 else 8
            else:
                fa = max(16, min(fb_auto(nb), 6000 if tier == "quick" else 10000))
                fbs = max(16, rng.choice([fa, fa, fa // 2, fa // 3, 2 * fa]))
                nfv = max(2, min(14, nf_auto + rng.choice([-1, 0, 0, 1]))) if style < 4 else rng.choice([2, 2, 3])
                if fbs <= 24:
                    nfv = min(nfv, 2)
                elif fbs <= 80:
                    nfv = min(nfv, 3)
                nf = nfv
                mm = rng.choice([16384, 32768, 32768, 65536, 98304, 524288]) if nb < 250 else rng.choice([262144, 524288])
                want = rng.choice([1, 3, 8])
            step, tail, mx = walk_spec(nfv, big=(fbs == "auto" and nb > 190) or (fbs != "auto" and fbs > 3000))
            for aidx in range(1 if tier == "quick" and j % 2 else 3):
                yield Case(f"siqs_walk {n} {k} {fbs} {nf} {mm} {want} {aidx} {step} {tail} {mx}", k=False, tag=f"k{k}")
    # A = 1 (the unit form used by the class group code): small n only
    for cls in (1, 3, 5, 7):
        n = semiprime(rng, rng.choice([24, 40, 64, 100, 120]), cls)
        yield Case(f"siqs_walk {n} 1 {rng.choice([16, 40, 120])} 0 32768 1 0 1 0 1", k=False, tag="unit")
    # even n*k (multiplier 2/6) and primes of the factor base dividing n*k
    for _ in range(4 * scale):
        n = semiprime(rng, rng.choice([40, 64, 96]), rng.choice([1, 3, 5, 7]))
        k = rng.choice([2, 6, 3 * 5 * 7, 11 * 13])
        yield Case(f"siqs_walk {n} {k} 80 3 32768 3 0 1 0 64", k=False, tag=f"k{k}")


def qr_indices(N, count):
    """indices (in FBase order: primes for which N is a square, 2 first) of the first `count` primes of the factor base with a
    non-zero root; mirrors nothing of yamaquasi: plain Legendre symbols"""
    out, idx, p = [], 0, 2
    while len(out) < count:
        if p == 2 or N % p == 0 or pow(N, (p - 1) // 2, p) == 1:
            if p != 2 and N % p:
                out.append((idx, p))
            idx += 1
        p = gen.next_prime(p)
    return out


def siqs_custom_cases(rng, tier, scale):
    """A chosen here (not by select_a): products of 1..8 factor-base primes, also far away from the optimal size, so that the
    size assertions of _finish_polynomial are reached on both sides (the model must predict the same panics)"""
    for _ in range(12 * scale):
        bits = rng.choice([24, 40, 64, 100, 150, 200, 257, 300, 448] + ([330, 400, 460, 500] if tier != "quick" else []))
        n = semiprime(rng, bits, rng.choice([1, 3, 5, 7]))
        k = rng.choice([1, 1, 3])
        N = n * k
        fbs = rng.choice([16, 40, 80, 200])
        cand = qr_indices(N, fbs // 2)
        if fbs >= 80 and rng.randrange(2):
            cand = cand[len(cand) // 2:]
        nf = rng.choice([1, 2, 3, 4, 5, 6, 8])
        sel = sorted(rng.sample(cand, min(len(cand), rng.choice([nf + 1, 2 * nf, 4 * nf]))))
        if len(sel) < nf:
            continue
        chosen = rng.sample(sel, nf)
        a = math.prod(p for _, p in chosen)
        mm = rng.choice([4096, 32768, 65536, 524288])
        step, tail, mx = (1, 0, 64)
        yield Case(f"siqs_custom {n} {k} {fbs} {mm} {','.join(str(i) for i, _ in sel)} {a} {step} {tail} {mx}", k=False, tag="custom")
    # A that is not the product of selected primes / has a square factor: prepare_a must fail the same way
    for _ in range(3 * scale):
        n = semiprime(rng, rng.choice([40, 64, 100]), rng.choice([1, 3, 5, 7]))
        cand = qr_indices(n, 12)
        sel = sorted(rng.sample(cand, 6))
        a = sel[0][1] * sel[1][1] * rng.choice([sel[0][1], 1009, 2, 1])
        yield Case(f"siqs_custom {n} 1 40 32768 {','.join(str(i) for i, _ in sel)} {a} 1 0 8", k=False, o=False, profiles=["chk"],
                   tag="custom-bad")


def siqs_select_cases(rng, tier, scale):
    """select_siqs_factors + select_a (deterministic: the generator of select_a has a fixed seed)"""
    maxbits = 200 if tier == "quick" else 424
    sizes = [24, 40, 56, 64, 72, 89, 90, 100, 119, 120, 140, 149, 150, 170, 200] + ([230, 260, 300, 330, 360, 400, 424] if maxbits > 200 else [])
    for j in range(10 * scale):
        bits = sizes[j % len(sizes)]
        n = semiprime(rng, bits, rng.choice([1, 3, 5, 7]))
        k = rng.choice([1, 1, 3, 5])
        style = rng.randrange(4)
        if style == 0 and bits <= 150:
            yield Case(f"siqs_select {n} {k} auto auto auto auto", k=False, tag="sel-auto")
        else:
            fa = fb_auto((n * k).bit_length())
            fbs = max(8, rng.choice([fa, fa // 2, fa // 8, 2 * fa, 40, 16]))
            fbs = min(fbs, 8000)
            nf = "auto" if style < 3 else max(1, nfactors((n * k).bit_length()) + rng.choice([-2, -1, 1, 2]))
            mm = "auto" if style < 3 else rng.choice([4096, 32768, 262144])
            # forced nfacs / interval: select_a may not terminate (no poll, no bound): short watchdog, a hang is not judged
            yield Case(f"siqs_select {n} {k} {fbs} {nf} {mm} {rng.choice([1, 3, 8, 20])}", k=False, tag="sel",
                       timeout=(None if style < 3 else 8))
    # 17 factors (n*k of 425..448 bits): more than 64 selected primes (the mask of select_a, 64 bits wide before the fix e726329)
    for _ in range(2 if tier == "quick" else 6):
        n = semiprime(rng, rng.choice([430, 440, 447]), rng.choice([1, 3, 5, 7]))
        yield Case(f"siqs_select {n} 1 6000 auto auto 4", k=False, tag="sel-17")


def d_primes_3mod4(lo, count, N=None):
    """primes D = 3 mod 4 from lo on; with N: only those modulo which N is a non-zero square (the ones
    sieve_for_polys keeps)"""
    out = []
    p = gen.next_prime(max(lo, 2) - 1)
    while len(out) < count:
        if p % 4 == 3 and (N is None or (N % p and pow(N, (p - 1) // 2, p) == 1)):
            out.append(p)
        p = gen.next_prime(p)
    return out


def pseudo_square_ds():
    """composite D = (k+1)(2k+1), both prime and above 200, D = 3 mod 4: half of the residues are Fermat liars"""
    out = []
    k = 210
    while len(out) < 12:
        p, q = k + 1, 2 * k + 1
        if gen.is_prime(p) and gen.is_prime(q) and p * q % 4 == 3:
            out.append(p * q)
        k += 2
    return out


def mpqs_cases(rng, tier, scale):
    maxbits = 200 if tier == "quick" else 400
    # D around the value the real code would choose
    for cls in (1, 3, 5, 7):
        for j in range(5 * scale):
            bits = min(maxbits, rng.choice([40, 56, 64, 80, 96, 128, 160, 200, 256, 320, 400]))
            n = semiprime(rng, bits, cls)
            k = rng.choice(MULTS[:9]) if j % 3 == 2 else 1
            N = n * k
            mm = rng.choice([32768, 65536, 131072])
            target = math.isqrt(math.isqrt(N >> 1 if N % 4 == 1 else N << 1) // (mm // 2))
            fbs = rng.choice([24, 80, 240, 800, 2000][:2 + min(3, bits // 50)])
            for d in d_primes_3mod4(max(3, target - rng.randrange(50)), 8, N)[::2]:
                yield Case(f"mpqs_poly {n} {k} {fbs} {mm} {d}", k=False, tag=f"k{k}")
    # tiny n, D inside the factor base: C of either sign
    small_d = [p for p in SMALL_PRIMES if p % 4 == 3] + d_primes_3mod4(200, 10)
    for _ in range(25 * scale):
        bits = rng.choice([17, 18, 20, 22, 24, 27, 30, 34, 40])
        n = semiprime(rng, bits, rng.choice([1, 3, 5, 7]))
        k = rng.choice([1, 1, 3, 5, 2])
        ok = [d for d in small_d if n * k % d and pow(n * k, (d - 1) // 2, d) == 1]
        for d in rng.sample(ok, min(4, len(ok))):
            yield Case(f"mpqs_poly {n} {k} {rng.choice([16, 40, 64])} 32768 {d}", k=False, tag="tiny")
    for n in (117298, 100003488, 47053, 1022117, 2445956099):
        for d in [d for d in small_d if d * d < n and n % d and pow(n, (d - 1) // 2, d) == 1][:8]:
            yield Case(f"mpqs_poly {n} 1 40 32768 {d}", k=False, tag="tiny")
    # composite pseudo-squares
    for d in pseudo_square_ds():
        found = 0
        for _ in range(400):
            n = semiprime(rng, rng.choice([44, 48, 64, 90]), rng.choice([1, 3, 5, 7]))
            if math.gcd(n, d) == 1:
                r = pow(n, (d + 1) // 4, d)
                if (r * r - n) % d == 0:
                    yield Case(f"mpqs_poly {n} 1 {rng.choice([40, 200])} 32768 {d}", k=False, tag="pseudo-square")
                    found += 1
                    if found >= 3 * scale:
                        break
    # batches of D values as process_poly_block forms them (chunks of 16, the last one shorter)
    for _ in range(12 * scale):
        n = semiprime(rng, rng.choice([24, 40, 64, 100]), rng.choice([1, 3, 5, 7]))
        cnt = rng.choice([1, 2, 5, 15, 16])
        ds = d_primes_3mod4(rng.choice([3, 3, 50, 150, 1000, 10 ** 6]), 40)
        ds = rng.sample(ds, cnt)
        if rng.randrange(2):
            ds[rng.randrange(cnt)] = rng.choice(pseudo_square_ds())
        yield Case(f"mpqs_batchinv {n} 1 {rng.choice([16, 64, 400])} {','.join(map(str, ds))}", k=False, tag="batch")


def mpqs_block_cases(rng, tier, scale):
    """blocks of D values with the widths the driver uses (polystride = 200, or 50*20/7*bits(d_target)), 17..40 polynomials so that
    the chunks of 16 and the reuse of the workspace (dinv_modp[idx], recycled sieve) are exercised"""
    maxbits = 200 if tier == "quick" else 400
    for j in range(6 * scale):
        bits = min(maxbits, rng.choice([24, 32, 40, 64, 90, 128, 160, 200, 260, 330, 400]))
        n = semiprime(rng, bits, rng.choice([1, 3, 5, 7]))
        k = rng.choice([1, 1, 3, 5, 2])
        N = n * k
        mm = 32768 if bits <= 129 else rng.choice([32768, 65536])
        a_target = math.isqrt(N >> 1 if N % 4 == 1 else N << 1) // (mm // 2)
        d_target = max(3, math.isqrt(a_target))
        stride = 200 if N.bit_length() <= 32 else 50 * 20 // 7 * d_target.bit_length()
        base = d_target - min(d_target // 10, stride) if d_target >= 20 else d_target
        base += stride * rng.choice([0, 0, 1, 3])
        fbs = rng.choice([24, 80, 240, 800][:2 + min(2, bits // 60)])
        yield Case(f"mpqs_block {n} {k} {fbs} {mm} {base} {stride} {rng.choice([17, 20, 33, 40])}", k=False, tag="block")
    # small bases: D inside the factor base, D below the small primes (offset 2p rule of the sieve)
    for _ in range(2 * scale):
        n = semiprime(rng, rng.choice([24, 30, 40]), rng.choice([1, 3, 5, 7]))
        yield Case(f"mpqs_block {n} 1 40 32768 {rng.choice([3, 3, 7, 50, 150])} 200 33", k=False, tag="block-small")


def mpqs_outside(rng, scale):
    """make_poly called with D^2 > n (r^2 > n): the second branch of the Hensel lift (before its repair `n - h1*h1` underflowed)"""
    for _ in range(6 * scale):
        n = semiprime(rng, rng.choice([17, 18, 20]), rng.choice([1, 3, 5, 7]))
        for d in d_primes_3mod4(rng.choice([700, 1100, 3000]), 4, n):
            yield Case(f"mpqs_poly {n} 1 24 32768 {d}", k=False, tag="outside")


def qs_cases(rng, tier, scale):
    maxbits = 200 if tier == "quick" else 400
    for cls in (1, 3, 5, 7):
        for j in range(8 * scale):
            bits = min(maxbits, rng.choice([20, 24, 32, 40, 56, 64, 80, 100, 128, 160, 200, 300, 400]))
            n = semiprime(rng, bits, cls)
            k = rng.choice(MULTS) if j % 3 == 2 else 1
            fbs = rng.choice([8, 24, 80, 240, 800, 2000][:3 + min(3, bits // 40)])
            yield Case(f"qs_roots {n} {k} {fbs}", k=False, tag=f"k{k}")
    for n in (47053, 1022117, 11592209, 2445956099, 4294967291 * 4294967279):
        yield Case(f"qs_roots {n} 1 24", k=False, tag="tiny")


def exact_n(rng, bits, cls, k=1):
    """n (product of two primes) in the residue class cls mod 8 such that n*k has EXACTLY `bits` bits"""
    nb = bits - k.bit_length() + 1
    for _ in range(20000):
        pb = nb // 2 + rng.randint(-nb // 8, nb // 8)
        p, q = gen.rand_prime(rng, max(3, pb)), gen.rand_prime(rng, max(3, nb - pb))
        for n in (p * q, p * gen.next_prime(q)):
            if n % 8 == cls and (n * k).bit_length() == bits:
                return n
    raise RuntimeError("no n found")


# bit lengths of n*k straddling the word boundaries of the mixed u64 / u128 / U256 / Uint (1024 bit) arithmetic of the polynomial
# code, and the ends of the supported ranges (MPQS and SIQS refuse above 448 bits, QS above 400)
BOUNDARY_BITS = [63, 64, 65, 127, 128, 129, 255, 256, 257, 258, 300, 384, 447, 448]
QS_BOUNDARY_BITS = [63, 64, 65, 127, 128, 129, 255, 256, 257, 258, 300, 384, 399, 400]


def boundary_cases(rng, tier):
    """every op, in BOTH tiers, at every boundary size of n*k (with and without multiplier, all classes mod 8 over the list):
    the oracle judges r^2 = n (mod D), the identities and the root tables for each of them"""
    reps = 1 if tier == "quick" else 3
    for rep in range(reps):
        for i, bits in enumerate(BOUNDARY_BITS):
            cls = (1, 3, 5, 7)[(i + rep) % 4]
            k = 1 if (i + rep) % 3 else rng.choice([3, 5, 7, 11])
            n = exact_n(rng, bits, cls, k)
            N = n * k
            assert N.bit_length() == bits
            # --- SIQS: driver's own nfactors / interval size; factor base large enough for the window of A factors
            fbs = "auto" if bits <= 129 else 1000
            nfv = nfactors(bits)
            step, tail, mx = walk_spec(nfv, big=bits > 300)
            yield Case(f"siqs_walk {n} {k} {fbs} auto auto 3 {rep} {step} {tail} {mx}", k=False, tag=f"edge{bits}")
            yield Case(f"siqs_select {n} {k} {fbs} auto auto 3", k=False, tag=f"edge{bits}")
            # --- MPQS: D next to the driver's target (D crosses 64 bits near 290 bits of n), one block with the driver's stride
            mm = 32768
            a_target = math.isqrt(N >> 1 if N % 4 == 1 else N << 1) // (mm // 2)
            d_target = max(3, math.isqrt(a_target))
            for d in d_primes_3mod4(max(3, d_target - rng.randrange(50)), 4, N)[::2]:
                yield Case(f"mpqs_poly {n} {k} {rng.choice([40, 240])} {mm} {d}", k=False, tag=f"edge{bits}")
            stride = 200 if bits <= 32 else (50 if bits <= 256 else 200) * 20 // 7 * d_target.bit_length()
            base = d_target - min(d_target // 10, stride) if d_target >= 20 else d_target
            yield Case(f"mpqs_block {n} {k} 80 {mm} {base} {min(stride, 8000)} 20", k=False, tag=f"edge{bits}")
        for i, bits in enumerate(QS_BOUNDARY_BITS):
            cls = (1, 3, 5, 7)[(i + rep + 1) % 4]
            k = 1 if (i + rep) % 3 else rng.choice([3, 5, 7])
            n = exact_n(rng, bits, cls, k)
            yield Case(f"qs_roots {n} {k} {rng.choice([80, 800])}", k=False, tag=f"edge{bits}")
    # batch inversion with D above 64 bits (the two-word path of Dividers::mod_u128) and near the u128 / 127-bit limits
    for bitsd in (64, 65, 96, 126, 127):
        ds = [gen.rand_prime(rng, bitsd) for _ in range(rng.choice([3, 16]))]
        ds[0] = (1 << bitsd) - rng.choice([1, 3, 5]) if bitsd < 127 else (1 << 127) - 1
        n = exact_n(rng, 257, 3)
        yield Case(f"mpqs_batchinv {n} 1 {rng.choice([64, 400])} {','.join(map(str, ds))}", k=False, tag="batch-wide")


def cases(tier, rng, extended=False):
    scale = 4 if tier == "quick" else 5
    if extended:
        scale *= 4
    yield from boundary_cases(rng, tier)
    yield from siqs_cases(rng, tier, scale)
    yield from siqs_custom_cases(rng, tier, scale)
    yield from siqs_select_cases(rng, tier, scale)
    yield from mpqs_cases(rng, tier, scale)
    yield from mpqs_block_cases(rng, tier, scale)
    yield from mpqs_outside(rng, scale)
    yield from qs_cases(rng, tier, scale)


def corpus_case(line):
    if line.startswith("!chk "):
        return Case(line[5:], k=False, o=False, profiles=["chk"])
    if line.startswith("!noo "):
        return Case(line[5:], k=False, o=False)
    if line.startswith("!hang "):
        return Case(line[6:], k=False, o=False, profiles=["release"], timeout=4)
    return Case(line, k=False)


# ---------------------------------------------------------------- distribution

def klass(case, ans):
    h, body = split_answer(ans)
    op = case.op
    if h is None:
        return f"{op}/{ans[:12]}"
    N = int(h["N"])
    tags = []
    if body in ("sel-panic", "no-a", "no-d"):
        return f"{op}/{body}"
    if body.endswith("panic"):
        tags.append("panic")
    if op in ("siqs_walk", "siqs_custom"):
        toks = body.split(" ")
        nf = len(ints(toks[2].split("=", 1)[1])) if len(toks) > 2 else "?"
        if op == "siqs_custom":
            tags.append("custom")
            if len(toks) > 12 and toks[8] == "P" and abs(int(toks[12])) >> 253:
                tags.append("C-oversize")
        fbn = len(h["fb"].split(","))
        tags.append("fb<=100" if fbn <= 100 else "fb<=1000" if fbn <= 1000 else "fb>1000")
        if case.args[1] != "1":
            tags.append("mult")
        if "0" in h["sq"].split(",")[1:]:
            tags.append("p|n")
        if N % 4 == 1:
            tags.append("t2-Ceven" if N % 8 == 1 else "t2-Codd")
        return f"siqs/n8={N % 8}/nf={nf}/" + "/".join(tags)
    if op == "siqs_select":
        nf = int(h["nf"])
        path = "small" if "tgt=" in body and nf <= 5 and int(body.split("tgt=")[1].split(" ")[0]).bit_length() <= 66 else "sampling"
        res = "sel-panic" if body.endswith("sel-panic") else "a-panic" if body.endswith("a-panic") else "ok"
        return f"select/nf={nf}/{path}/{res}"
    if op == "mpqs_poly":
        d = int(h["d"])
        toks = body.split(" ")
        fb = ints(h["fb"])
        if any(d % p == 0 for p in fb):
            tags.append("D-in-fb")
            if len(toks) > 3 and toks[0] == "M":
                tags.append("C>0" if int(toks[3]) > 0 else "C<0")
        if not gen.is_prime(d):
            tags.append("composite-D")
        if case.args[1] != "1":
            tags.append("mult")
        return f"mpqs/n8={N % 8}/" + "/".join(tags)
    if op == "mpqs_block":
        n_d = 0 if body.startswith("drs=- ") or body == "drs=-" else body.split(" ")[0].count(",") + 1
        npol = body.count(" M ")
        return f"mpqs_block/n8={N % 8}/D={'0' if n_d == 0 else '1-16' if n_d <= 16 else '17+'}/polys={'<=16' if npol <= 16 else '17+'}" + ("/panic" if tags else "")
    if op == "qs_roots":
        if N % 8 == 1:
            tags.append("only-odds")
        if case.args[1] != "1":
            tags.append("mult")
        return f"qs/n8={N % 8}/" + "/".join(tags)
    return op + "/" + "/".join(tags)


def nontrivial(case, ans):
    h, body = split_answer(ans)
    return h is not None and body not in ("sel-panic", "no-a", "no-d")


CLAIM = ("Lean theorems about line-by-line models of the polynomial preparation of the three sieves. SIQS: the defining identities; the CRT "
         "basis of prepare_a (every combination of roots squares to n mod A, parity rule for type 2); B of every polynomial of the Gray walk is "
         "the Gray-selected sum; the Gray-code step; the u32 min trick; the root invariant after first, preserved by next, hence at every "
         "index; exactness of the tables (two roots for primes not dividing a2a, the single root for odd primes dividing A, a superset for "
         "p = 2, also for the unit polynomial A = 1). Second pass: on the parameter domain (0 < n < 2^448, 2^15 <= M < 2^20 as "
         "interval_size gives, target/4 <= A <= 4 target, A >= 3/4 target from 5 factors on) prepare_a, first and every next return "
         "(siqs_walk_total: all size assertions, rounded root, inverses, overflow checks), the stored C is exact and below 2^254 "
         "(poly_exact_domain); select_siqs_factors returns iff its pool has more than nfacs primes, select_a returns products of nfacs "
         "distinct selected primes inside a tolerance window, and from the outputs of both the walk is total end to end "
         "(siqs_select_walk_total); counter-witnesses checked by the kernel and reproduced on the real code: the size assertion fails for a "
         "470-bit n with the driver's own parameters, an absurd A lets a truncated C through, select_a never returns for an 8-prime factor "
         "base (for all fuel), the window assertion fires. MPQS: Hensel lift (also composite D), identities and totality of make_poly, all "
         "three branches of prepare_prime. QS: forward/backward roots incl. only-odds mode, root shift of next_lgblock. The models are tied "
         "to the code by differential runs (release and checked profiles) on what the real code builds; a Python oracle enumerates root "
         "sets and checks the identities on every polynomial of the run.")
LEVEL_NOTE = ("Trusted: Lean kernel (+propext, Classical.choice, Quot.sound); the correspondence of the hand models to the Rust code (sampled, not "
              "proved: every run compares A-data, B, C, rounded root, both root tables and five evaluations per polynomial, and target, selection "
              "and A lists of the selection code, byte for byte); the translators (next_lgblock, select constants, parameter functions); "
              "Dividers/Inverter/inv_mod/inv_mod64 at their specification (C08, C09); the factor base as data (FbOk, checked by the oracle on "
              "every run). Totality is proved on the stated domain only: above 2^448 and for absurd preferences (fb_size = 8) the witnesses "
              "show real panics / non-termination; termination of select_a's sampling loop in general depends on its generator and is not "
              "proved (a necessary condition is). For MPQS totality needs n < 2^254 D^2 and r^2 <= n as explicit hypotheses.")
TECHNIQUE = "Lean 4 proof about a hand model + differential correspondence check + spec oracle"
