import Ymq.Drv.Util
import Ymq.Model.SmoothBase

/-! Driver ops of C17 (same request lines as harness/src/ops_primes.rs). -/
namespace Ymq.Drv
open Ymq.Primes

/-- order-sensitive checksum shared with the harness and the Python oracle -/
def primesHash (l : List Nat) : Nat :=
  l.foldl (fun h x => (h * 1000003 + x) % (2 ^ 61 - 1)) 0

def primesSummary (l : List Nat) : String :=
  let last := match l.getLast? with | some x => toString x | none => "-"
  s!"n={l.length} last={last} h={primesHash l}"

def primesBlockSummary (l : List Nat) : String :=
  match l.head?, l.getLast? with
  | some a, some b => s!"{l.length}:{a}:{b}:{primesHash l}"
  | _, _ => s!"{l.length}:-:-:{primesHash l}"

/-- summaries of blocks `0..=b` walked one after the other, then the state -/
def primesSeqWalk : Nat → PrimeSieve → List String → Option (List String × PrimeSieve)
  | 0, ps, acc => some (acc.reverse, ps)
  | k + 1, ps, acc =>
    match ps.next with
    | none => none
    | some (blk, ps') => primesSeqWalk k ps' (primesBlockSummary blk :: acc)

def primesShowEv : Ymq.Pm1.Ev → String
  | .small e => s!"s{e}"
  | .large e => s!"l{e}"

def primesParseBool (s : String) : Option Bool :=
  if s = "1" ∨ s = "true" then some true else if s = "0" ∨ s = "false" then some false else none

def handlePrimes : Handler
  | ["primes", k] => do
    let k ← parseNat k
    if k ≥ 2 ^ 32 then none
    some (match primes k with | none => "panic" | some l => primesSummary l)
  | ["primes_list", k] => do
    let k ← parseNat k
    if k ≥ 2 ^ 32 then none
    some (match primes k with | none => "panic" | some l => showList l)
  | ["primesieve_block", b] => do
    let b ← parseNat b
    if b > 70000 then none
    some (match blockAt b with | none => "panic" | some l => showList l)
  | ["primesieve_seq", b] => do
    let b ← parseNat b
    if b > 70000 then none
    some (match PrimeSieve.new with
      | none => "panic"
      | some ps =>
        match primesSeqWalk (b + 1) ps [] with
        | none => "panic"
        | some (parts, ps') => ",".intercalate parts ++ s!"|{primesHash ps'.offsets}|{ps'.bc}")
  | ["sb_new", b1, lg] => do
    let b1 ← parseNat b1
    let lg ← primesParseBool lg
    some (match Ymq.SmoothBase.new b1 lg with
      | none => "panic"
      | some (f, l) => showList f ++ "|" ++ showList l)
  | ["pm1base"] =>
    some (match Ymq.PM1Base.new with
      | none => "panic"
      | some (f, l) => showList f ++ "|" ++ primesBlockSummary l)
  | ["pm1_exponents", b1] => do
    let b1 ← parseNat b1
    if b1 ≥ 2 ^ 64 then none
    some (match Ymq.Pm1.stage1 Ymq.Pm1.THR b1 with
      | none => "panic"
      | some evs => showList (evs.map primesShowEv))
  -- model only: the stream for another flush threshold of the 1024-bit block
  | ["pm1_model_thr", thr, b1] => do
    let thr ← parseNat thr
    let b1 ← parseNat b1
    some (match Ymq.Pm1.stage1 thr b1 with
      | none => "panic"
      | some evs => showList (evs.map primesShowEv))
  | _ => none

end Ymq.Drv
