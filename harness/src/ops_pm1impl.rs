//! Pollard P-1 as a whole (C16): `pm1_impl`, `pm1_quick`, `pm1_only` and `pm1_stage2_polyeval` on the real
//! code; the Lean side answers with the whole-function model (lean/Ymq/Model/Pm1Impl.lean).
//! A result is printed as `none` or `some f1,f2,.. rest` with the factors IN THE ORDER RETURNED.
//! Trailing arguments of the requests are annotations read by the oracle only.
use crate::util::*;
use yamaquasi::arith_montgomery::ZmodN;
use yamaquasi::pollard_pm1 as pm1;
use yamaquasi::{Uint, Verbosity};

fn show(r: Option<(Vec<Uint>, Uint)>) -> String {
    match r {
        None => "none".to_string(),
        Some((fs, rest)) => format!("some {} {}", show_list(&fs), rest),
    }
}

pub fn handle(op: &str, a: &[&str]) -> Option<String> {
    match (op, a) {
        ("pm1_impl", [n, b1, b2, ..]) => {
            let n = uint_of(n)?;
            Some(show(pm1::pm1_impl(&n, u64_of(b1)?, u64_of(b2)? as f64, Verbosity::Silent)))
        }
        ("pm1_quick_full", [n, ..]) => Some(show(pm1::pm1_quick(&uint_of(n)?, Verbosity::Silent))),
        ("pm1_only_full", [n, ..]) => Some(show(pm1::pm1_only(&uint_of(n)?, Verbosity::Silent))),
        ("pm1_polyeval", [n, b2, g]) => {
            let n = uint_of(n)?;
            if !n.bit(0) || n < Uint::from(3u64) || n.bits() > 512 {
                return None;
            }
            let zn = ZmodN::new(n);
            let g = zn.from_int(uint_of(g)? % n);
            let (fs, rest) = pm1::verif_hooks_stage2::vh_pm1_stage2_polyeval(&zn, u64_of(b2)? as f64, g);
            Some(format!("{} {}", show_list(&fs), rest))
        }
        _ => None,
    }
}
