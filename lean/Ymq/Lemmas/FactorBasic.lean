/- Elementary lemmas about the helper functions of the Factor model. -/
import Ymq.Model.Factor
import Mathlib.Data.List.Sort
import Mathlib.Algebra.BigOperators.Group.List.Basic
import Mathlib.Algebra.BigOperators.Ring.List

namespace Ymq.Factor

theorem insertSorted_perm (x : Nat) (l : List Nat) : (insertSorted x l).Perm (x :: l) := by
  induction l with
  | nil => simp [insertSorted]
  | cons y ys ih =>
    unfold insertSorted
    split
    · exact List.Perm.refl _
    · exact (List.Perm.cons y ih).trans (List.Perm.swap x y ys)

theorem sortNat_perm (l : List Nat) : (sortNat l).Perm l := by
  induction l with
  | nil => simp [sortNat]
  | cons x xs ih => exact (insertSorted_perm x _).trans (List.Perm.cons x ih)

theorem insertSorted_sorted (x : Nat) (l : List Nat) (h : l.Pairwise (· ≤ ·)) :
    (insertSorted x l).Pairwise (· ≤ ·) := by
  induction l with
  | nil => simp [insertSorted]
  | cons y ys ih =>
    unfold insertSorted
    split
    · rename_i hxy
      refine List.Pairwise.cons ?_ h
      intro z hz
      rcases List.mem_cons.mp hz with rfl | hz
      · exact hxy
      · exact le_trans hxy (List.rel_of_pairwise_cons h hz)
    · rename_i hxy
      have hyx : y ≤ x := by omega
      refine List.Pairwise.cons ?_ (ih (List.Pairwise.of_cons h))
      intro z hz
      have := (insertSorted_perm x ys).mem_iff.mp hz
      rcases List.mem_cons.mp this with rfl | hz'
      · exact hyx
      · exact List.rel_of_pairwise_cons h hz'

theorem sortNat_sorted (l : List Nat) : (sortNat l).Pairwise (· ≤ ·) := by
  induction l with
  | nil => simp [sortNat]
  | cons x xs ih => exact insertSorted_sorted x _ ih

theorem sortNat_prod (l : List Nat) : (sortNat l).prod = l.prod := (sortNat_perm l).prod_eq

theorem prod_zero_of_mem : ∀ (l : List Nat), 0 ∈ l → l.prod = 0
  | [], h => by simp at h
  | x :: xs, h => by
    rcases List.mem_cons.mp h with h | h
    · subst h; simp
    · simp [prod_zero_of_mem xs h]

end Ymq.Factor
