/-
Lemmas for the residue number system `MultiZmodP` (property C10): uniqueness of the CRT
reconstruction quotient, the value assembled by `_crt` modulo `n`, and the error analysis of the
truncated quotient estimate. These are statements about numbers (`Fin w`-indexed families); the
identification of the words read by `Ymq.Crt.qEstimate` with the quantities below is tied to the
code by the K/O streams (`mzp_crt`, `mzp_redc`), not proved.
-/
import Ymq.Gen.Params
import Mathlib.Data.Nat.ChineseRemainder
import Mathlib.Algebra.BigOperators.Fin
import Mathlib.Algebra.Order.BigOperators.Group.Finset
import Mathlib.Algebra.Order.BigOperators.GroupWithZero.List
import Mathlib.Tactic.Ring
import Mathlib.Tactic.Linarith

namespace Ymq.Crt
open Finset

/-- `P / p_i` is divisible by every other prime of a pairwise coprime list. -/
theorem dvd_prod_div (ps : List Nat) (hco : ps.Pairwise Nat.Coprime) (hpos : ∀ p ∈ ps, 0 < p)
    (i j : Fin ps.length) (hij : i ≠ j) : ps.get j ∣ ps.prod / ps.get i := by
  have hi : ps.get i ∣ ps.prod := List.dvd_prod (List.get_mem _ _)
  have hj : ps.get j ∣ ps.prod := List.dvd_prod (List.get_mem _ _)
  have hcop : Nat.Coprime (ps.get j) (ps.get i) := by
    rcases lt_or_gt_of_ne hij with h | h
    · exact (List.pairwise_iff_get.1 hco i j h).symm
    · exact List.pairwise_iff_get.1 hco j i h
  obtain ⟨c, hc⟩ := hi
  rw [hc, Nat.mul_div_cancel_left _ (hpos _ (List.get_mem _ _))]
  rw [hc] at hj
  exact hcop.dvd_of_dvd_mul_left hj

/-- **CRT reconstruction**: if `0 ≤ V < P = ∏ p_i` (pairwise coprime) and `V ≡ xs_i · (P/p_i) (mod p_i)`
with `xs_i < p_i` (this is `xs_i = x_i · (P/p_i)⁻¹ mod p_i` for the residues `x_i` of `V`), then
`V = Σ xs_i · (P/p_i) - q·P` for exactly one `q`, and `q < w`. -/
theorem crt_unique' (ps : List Nat) (hw : 0 < ps.length) (hco : ps.Pairwise Nat.Coprime)
    (hpos : ∀ p ∈ ps, 0 < p) (xs : Fin ps.length → Nat) (hxs : ∀ i, xs i < ps.get i) (V : Nat)
    (hV : V < ps.prod) (hc : ∀ i, V ≡ xs i * (ps.prod / ps.get i) [MOD ps.get i]) :
    ∃! q, q < ps.length ∧ V + q * ps.prod = ∑ i, xs i * (ps.prod / ps.get i) := by
  set P := ps.prod with hP
  set S := ∑ i, xs i * (P / ps.get i) with hS
  have hPpos : 0 < P := List.prod_pos (fun p hp => hpos p hp)
  -- S ≡ V modulo every p_j
  have h1 : ∀ j, S ≡ V [MOD ps.get j] := by
    intro j
    refine Nat.ModEq.trans ?_ (hc j).symm
    rw [hS, ← Finset.add_sum_erase _ _ (Finset.mem_univ j)]
    have : ∑ i ∈ Finset.univ.erase j, xs i * (P / ps.get i) ≡ 0 [MOD ps.get j] := by
      rw [Nat.modEq_zero_iff_dvd]
      apply Finset.dvd_sum
      intro i hi
      exact Dvd.dvd.mul_left (dvd_prod_div ps hco hpos i j (Finset.ne_of_mem_erase hi)) _
    have := Nat.ModEq.add_left (xs j * (P / ps.get j)) this
    simpa using this
  have h2 : S ≡ V [MOD P] := (Nat.modEq_list_prod_iff hco).2 h1
  -- S < w * P
  have h3 : S < ps.length * P := by
    have hterm : ∀ i ∈ (Finset.univ : Finset (Fin ps.length)), xs i * (P / ps.get i) < P := by
      intro i _
      have hi : ps.get i ∣ P := List.dvd_prod (List.get_mem _ _)
      have hpi := hpos _ (List.get_mem ps i)
      have hq : 0 < P / ps.get i := Nat.div_pos (Nat.le_of_dvd hPpos hi) hpi
      calc xs i * (P / ps.get i) < ps.get i * (P / ps.get i) := Nat.mul_lt_mul_of_pos_right (hxs i) hq
        _ = P := Nat.mul_div_cancel' hi
    have hne : (Finset.univ : Finset (Fin ps.length)).Nonempty := ⟨⟨0, hw⟩, Finset.mem_univ _⟩
    have := Finset.sum_lt_sum_of_nonempty hne hterm
    simpa [hS] using this
  have hVmod : S % P = V := by
    have := h2
    unfold Nat.ModEq at this
    rw [this, Nat.mod_eq_of_lt hV]
  refine ⟨S / P, ⟨Nat.div_lt_of_lt_mul (by rwa [Nat.mul_comm] at h3), ?_⟩, ?_⟩
  · have := Nat.div_add_mod S P
    rw [hVmod] at this
    rw [Nat.mul_comm (S / P) P]; omega
  · rintro q ⟨_, hq⟩
    have : S = V + q * P := hq.symm
    rw [this, Nat.add_mul_div_right _ _ hPpos, Nat.div_eq_of_lt hV, Nat.zero_add]

/-- the value assembled by `_crt` is congruent to `V` modulo `n` when `q` is the right quotient:
`T = qp + Σ xs_j · c_j` with `c_j ≡ P/p_j`, `qp ≡ -q·P (mod n)`. -/
theorem crt_value' {w : Nat} (n P q V : Nat) (xs cp c : Fin w → Nat) (qp : Nat)
    (hrec : V + q * P = ∑ i, xs i * cp i) (hcn : ∀ i, c i ≡ cp i [MOD n])
    (hqp : qp + q * P ≡ 0 [MOD n]) :
    qp + ∑ i, xs i * c i ≡ V [MOD n] := by
  have h1 : ∑ i, xs i * c i ≡ ∑ i, xs i * cp i [MOD n] := by
    unfold Nat.ModEq
    rw [Finset.sum_nat_mod, Finset.sum_nat_mod (f := fun i => xs i * cp i)]
    congr 1
    apply Finset.sum_congr rfl
    intro i _
    exact (hcn i).mul_left (xs i)
  have h2 : qp + ∑ i, xs i * c i + q * P ≡ V + q * P [MOD n] := by
    rw [hrec]
    have := Nat.ModEq.add hqp h1
    rw [Nat.zero_add] at this
    refine Nat.ModEq.trans ?_ this
    rw [Nat.add_right_comm]
  exact Nat.ModEq.add_right_cancel' _ h2


/-- **Quotient estimate of `_crt`** (error analysis shared by its three precision branches).
`S = Σ xs_i·c_i = q·P + V` with `V < P/2`; the code keeps of every `c_i = P/p_i` only the word(s)
above a scale `M` (`M = W^(plen-2)`, `2^32·W^(plen-2)` or `2^32·W^(plen-3)` depending on the
branch), rounds up (`c_i / M + 1`), sums `top = Σ xs_i·(c_i/M + 1)` and returns
`(top >> 64) / hi` where `hi = ⌊P / (2^64·M)⌋` is the truncated top of `P`. If `Σ xs_i ≤ 2^64`
and `2q + 3 ≤ hi`, that is exactly `q`. -/
theorem q_estimate' {w : Nat} (P q V M hi Wd : Nat) (xs c : Fin w → Nat)
    (hM : 0 < M) (hWd : 0 < Wd) (hhi : 0 < hi)
    (hS : V + q * P = ∑ i, xs i * c i) (hV : 2 * V < P)
    (hlo : hi * Wd * M ≤ P) (hup : P < (hi + 1) * Wd * M)
    (hxs : ∑ i, xs i ≤ Wd) (hq : 2 * q + 3 ≤ hi) :
    (∑ i, xs i * (c i / M + 1)) / Wd / hi = q := by
  set top := ∑ i, xs i * (c i / M + 1) with htop
  have ha : ∑ i, xs i * c i ≤ top * M := by
    rw [htop, Finset.sum_mul]
    apply Finset.sum_le_sum
    intro i _
    have : c i ≤ (c i / M + 1) * M := by
      have := Nat.div_add_mod (c i) M
      have := Nat.mod_lt (c i) hM
      nlinarith
    calc xs i * c i ≤ xs i * ((c i / M + 1) * M) := Nat.mul_le_mul_left _ this
      _ = xs i * (c i / M + 1) * M := by ring
  have hb : top * M ≤ ∑ i, xs i * c i + M * ∑ i, xs i := by
    rw [htop, Finset.sum_mul, Finset.mul_sum, ← Finset.sum_add_distrib]
    apply Finset.sum_le_sum
    intro i _
    have : c i / M * M ≤ c i := Nat.div_mul_le_self _ _
    calc xs i * (c i / M + 1) * M = xs i * (c i / M * M) + M * xs i := by ring
      _ ≤ xs i * c i + M * xs i := by
        have := Nat.mul_le_mul_left (xs i) this
        omega
  rw [Nat.div_div_eq_div_mul]
  have hpos : 0 < Wd * hi := Nat.mul_pos hWd hhi
  apply Nat.div_eq_of_lt_le
  · -- q * (Wd * hi) ≤ top
    have : q * (Wd * hi) * M ≤ top * M := by
      calc q * (Wd * hi) * M = q * (hi * Wd * M) := by ring
        _ ≤ q * P := Nat.mul_le_mul_left _ hlo
        _ ≤ V + q * P := Nat.le_add_left _ _
        _ = ∑ i, xs i * c i := hS
        _ ≤ top * M := ha
    exact Nat.le_of_mul_le_mul_right this hM
  · -- top < (q + 1) * (Wd * hi)
    have h1 : 2 * (top * M) < 2 * ((q + 1) * (Wd * hi) * M) := by
      have hMW : M * ∑ i, xs i ≤ M * Wd := Nat.mul_le_mul_left _ hxs
      have hP : (2 * q + 1) * P < (2 * q + 1) * ((hi + 1) * Wd * M) :=
        Nat.mul_lt_mul_of_pos_left hup (by omega)
      have hkey : (2 * q + 1) * ((hi + 1) * Wd * M) + 2 * (M * Wd) ≤ 2 * ((q + 1) * (Wd * hi) * M) := by
        have : (2 * q + 1) * (hi + 1) + 2 ≤ 2 * (q + 1) * hi := by nlinarith
        calc (2 * q + 1) * ((hi + 1) * Wd * M) + 2 * (M * Wd)
            = ((2 * q + 1) * (hi + 1) + 2) * (Wd * M) := by ring
          _ ≤ 2 * (q + 1) * hi * (Wd * M) := Nat.mul_le_mul_right _ this
          _ = 2 * ((q + 1) * (Wd * hi) * M) := by ring
      have hrw : (2 * q + 1) * P = 2 * (q * P) + P := by ring
      nlinarith
    have h2 : top * M < (q + 1) * (Wd * hi) * M := by omega
    exact Nat.lt_of_mul_lt_mul_right h2

/-! ### the prime table -/

open Ymq.Gen.Params

/-- `t` modular squarings -/
def sqIter (p : Nat) : Nat → Nat → Nat
  | 0, x => x % p
  | t + 1, x => sqIter p t (x * x % p)

theorem sqIter_eq (p t x : Nat) : sqIter p t x = x ^ 2 ^ t % p := by
  induction t generalizing x with
  | zero => simp [sqIter]
  | succ t ih =>
    rw [sqIter, ih, pow_succ, Nat.mul_comm (2 ^ t) 2, pow_mul, pow_two, ← Nat.pow_mod]

/-- facts about one row `(p, g)` of `NTT_PRIMES`: `p ≡ 1 (mod 2^49)`, `2^58 < p < 2^59`,
`p·(p-2) ≡ -1 (mod 2^64)` (the Montgomery constant used by `mg_mul64`), and `g^(2^31) ≡ -1 (mod p)`
(so `g` has order exactly `2^32` and every `g^(2^(32-k))` is a principal `2^k`-th root of unity) -/
def RowOk (r : Nat × Nat) : Prop :=
  r.1 % 2 ^ 49 = 1 ∧ 2 ^ 58 < r.1 ∧ r.1 < 2 ^ 59 ∧ (r.1 * (r.1 - 2) + 1) % 2 ^ 64 = 0 ∧
  sqIter r.1 31 r.2 = r.1 - 1

instance (r : Nat × Nat) : Decidable (RowOk r) := by unfold RowOk; infer_instance

theorem rows_ok : ∀ r ∈ NTT_PRIMES, RowOk r := by decide +kernel

theorem primes_coprime : NTT_PRIME_VALUES.Pairwise Nat.Coprime := by decide +kernel

end Ymq.Crt
