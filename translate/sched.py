#!/usr/bin/env python3
"""Shape of the worker protocol of the multi-threaded sieves (properties C04, C05): WHERE, in a work unit of
siqs() (one A value, `sieve_a`) and of mpqs() (one block of polynomials, `process_poly_block`), the source

  * polls the caller's abort predicate            `prefs.abort()`                       -> K.poll
  * reads a completion flag (may be stale)        `.done.load(` / `.gap.load(`          -> K.check
  * adds relations under the write lock           call of siqs_sieve_poly / mpqs_poly   -> K.add
    (the callee must reach `rels.write().unwrap().add(` and contain no other protocol action)
  * decides completion and publishes it           `.done.store(true`                    -> K.publish
    (`s.finished()` of mpqs.rs is inlined: its own tokens, in source order)

in source order, split into: what runs once before the per-polynomial loop (`pre`), the loop body (`body`),
what runs after it (`post`); the driver's own tokens around the call of the unit function are put in front of
`pre` / behind `post`. One shape for the thread-pool branch and one for the sequential branch of each driver.
The shapes are emitted as data (Ymq/Gen/SchedShape.lean); Props/C04Shape.lean proves the protocol theorems for
EVERY shape and discharges, by `decide` on the generated data, the side conditions that matter (a unit polls the
abort predicate outside its polynomial loop; relations are added in the loop body only, once per polynomial;
the loop body publishes completion). Moving or deleting one of these actions in the source changes the
generated data and breaks the corresponding obligation."""
import re, sys, os
sys.path.insert(0, os.path.dirname(os.path.abspath(__file__)))
from common import *
from rustexpr import find_fn, _match_brace, strip_comments

TOK = re.compile(
    r"(?P<poll>\bprefs\s*\.\s*abort\s*\(\s*\))"
    r"|(?P<check>\b(?:done|gap)\s*\.\s*load\s*\()"
    r"|(?P<publish>\bdone\s*\.\s*store\s*\(\s*true\b)"
    r"|(?P<call>\b(?P<callee>[A-Za-z_][A-Za-z_0-9]*)\s*\()"
)

# anything else that touches the shared state must be known to the translator
OTHER_SHARED = re.compile(r"\bdone\s*\.\s*(?!load\b|store\b)[a-z_]+\s*\(|\bdone\s*\.\s*store\s*\(\s*(?!true\b)"
                          r"|\brels\s*\.\s*write\s*\(")


def strip_hooks(s):
    """remove `#[cfg(yamaquasi_verif)]` + the single statement it guards (observers, audited by vlib/hook_audit.py)"""
    return re.sub(r"#\[cfg\(yamaquasi_verif\)\]\s*[^;{]*;", "", s)


def reacts(text, pos, what):
    """the token at `pos` must sit in the condition of an `if` whose block starts by leaving the unit (`return` / `break`):
    the model's Act.poll / Act.check END the worker's unit when they see `true`; a poll whose answer is ignored, or used for
    something else, is not the modelled action"""
    i = text.rfind("if ", 0, pos)
    if i < 0 or re.search(r"[{};]", text[i:pos]):
        raise ExtractError(f"{what}: a poll / flag read that is not the condition of an `if`")
    depth, j = 0, pos
    while j < len(text):
        ch = text[j]
        if ch == "(":
            depth += 1
        elif ch == ")":
            depth -= 1
        elif ch == "{" and depth <= 0:
            break
        elif ch == ";" and depth <= 0:
            raise ExtractError(f"{what}: a poll / flag read whose `if` has no block")
        j += 1
    blk = text[j:_match_brace(text, j)]
    if not re.match(r"\{\s*(return\b|break\b)", blk):
        raise ExtractError(f"{what}: the block guarded by a poll / flag read does not start with `return` or `break`")


def tokens(text, inline, what, check_reaction=True):
    """protocol tokens of `text` in source order; calls of functions named in `inline` are replaced by the
    entry of `inline` (a list of tokens or a marker string)"""
    out = []
    for m in TOK.finditer(text):
        if m.group("poll"):
            if check_reaction:
                reacts(text, m.start(), what)
            out.append("poll")
        elif m.group("check"):
            if check_reaction:
                reacts(text, m.start(), what)
            out.append("check")
        elif m.group("publish"):
            out.append("publish")
        else:
            c = m.group("callee")
            if c in inline:
                v = inline[c]
                if isinstance(v, list) and check_reaction and any(t in ("poll", "check") for t in v):
                    reacts(text, m.start(), what)      # e.g. `if s.finished() { return; }`
                out.extend(v if isinstance(v, list) else [v])
    if OTHER_SHARED.search(text):
        raise ExtractError(f"{what}: an access to the shared flags / store that the translator does not know")
    return out


def block_after(text, pattern, what):
    """(start, end) of the `{...}` block that follows the unique match of `pattern`"""
    ms = list(re.finditer(pattern, text, flags=re.S))
    if len(ms) != 1:
        raise ExtractError(f"{what}: {len(ms)} matches (exactly one expected)")
    b = text.index("{", ms[0].end() - 1) if text[ms[0].end() - 1] == "{" else text.index("{", ms[0].end())
    return b, _match_brace(text, b)


def adder(source, fname, what):
    """the function `fname` adds relations: it reaches `rels.write().unwrap().add(` (directly or through
    sieve_block_poly) and performs no other protocol action"""
    f = strip_hooks(find_fn(source, fname))
    inner = strip_hooks(find_fn(source, "sieve_block_poly"))
    for name, t in ((fname, f), ("sieve_block_poly", inner)):
        toks = [m.lastgroup for m in TOK.finditer(t) if m.lastgroup in ("poll", "check", "publish")]
        if toks:
            raise ExtractError(f"{what}: {name} performs protocol actions {toks}")
    if not re.search(r"\bsieve_block_poly\s*\(", f):
        raise ExtractError(f"{what}: {fname} no longer calls sieve_block_poly")
    n = len(re.findall(r"\brels\s*\.\s*write\s*\(\s*\)\s*\.\s*unwrap\s*\(\s*\)\s*\.\s*add\s*\(", inner))
    if n != 1:
        raise ExtractError(f"{what}: sieve_block_poly has {n} locked adds (1 expected)")


def unit_shape(fn_text, add_callee, inline, what):
    """(pre, body, post) of a unit function: `body` is the innermost `for` loop that contains the add call"""
    t = strip_hooks(fn_text)
    calls = [m for m in re.finditer(r"\b" + add_callee + r"\s*\(", t)]
    calls = [m for m in calls if not re.match(r"fn\s", t[max(0, m.start() - 3):m.start()])]
    if len(calls) != 1:
        raise ExtractError(f"{what}: {len(calls)} calls of {add_callee} (1 expected)")
    pos = calls[0].start()
    # innermost enclosing for-loop
    best = None
    for m in re.finditer(r"\bfor\b[^{;]*\{", t):
        b = m.end() - 1
        e = _match_brace(t, b)
        if b < pos < e and (best is None or b > best[0]):
            best = (b, e, m.start())
    if best is None:
        raise ExtractError(f"{what}: the call of {add_callee} is not inside a for loop")
    b, e, fs = best
    inl = dict(inline)
    inl[add_callee] = "add"
    # loops nested around the body loop must not carry protocol actions of their own
    outer_before, outer_after = t[:fs], t[e:]
    body = tokens(t[b:e], inl, what + " (loop body)")
    pre = tokens(outer_before, inl, what + " (before the loop)")
    post = tokens(outer_after, inl, what + " (after the loop)")
    for m in re.finditer(r"\bfor\b[^{;]*\{", t):
        b2 = m.end() - 1
        e2 = _match_brace(t, b2)
        if b2 < b and e2 >= e:      # an enclosing loop
            if tokens(t[b2:fs], inl, what) or tokens(t[e:e2], inl, what):
                raise ExtractError(f"{what}: protocol actions in a loop around the polynomial loop")
    if "add" in pre or "add" in post:
        raise ExtractError(f"{what}: add outside the loop")
    return pre, body, post


def driver_shapes(fn_text, pool_pat, closure_pat, seq_loop_pat, unit_callee, unit, what):
    t = strip_hooks(fn_text)
    b, e = block_after(t, pool_pat, what + ": thread-pool branch")
    mt = t[b:e]
    m = re.match(r"\s*else\s*\{", t[e:])
    if not m:
        raise ExtractError(f"{what}: no sequential branch after the thread-pool branch")
    sb = e + m.end() - 1
    st = t[sb:_match_brace(t, sb)]
    cb, ce = block_after(mt, closure_pat, what + ": worker closure")
    closure = mt[cb:ce]
    if tokens(mt[:cb], {}, what) or tokens(mt[ce:], {}, what):
        raise ExtractError(f"{what}: protocol actions in the thread-pool branch outside the worker closure")
    lb, le = block_after(st, seq_loop_pat, what + ": sequential loop")
    if tokens(st[:lb], {}, what) or tokens(st[le:], {}, what):
        raise ExtractError(f"{what}: protocol actions in the sequential branch outside its loop")

    def assemble(region, w):
        toks = tokens(region, {unit_callee: "UNIT", **FIN}, w)
        if toks.count("UNIT") != 1:
            raise ExtractError(f"{w}: {toks.count('UNIT')} calls of {unit_callee} (1 expected)")
        i = toks.index("UNIT")
        return toks[:i] + unit[0], unit[1], unit[2] + toks[i + 1:]

    return assemble(closure, what + " worker closure"), assemble(st[lb:le], what + " sequential loop")


FIN = {}


def lean_shape(name, sh, doc):
    f = lambda ks: "[" + ", ".join("K." + k for k in ks) + "]"
    return (f"/-- {doc} -/\ndef {name} : Shape :=\n  {{ pre := {f(sh[0])}, body := {f(sh[1])}, post := {f(sh[2])} }}\n")


def run():
    global FIN
    siqs = src("src/siqs.rs")
    mpqs = src("src/mpqs.rs")
    # ---- siqs
    FIN = {}
    adder(siqs, "siqs_sieve_poly", "siqs")
    unit = unit_shape(find_fn(siqs, "sieve_a"), "siqs_sieve_poly", {}, "siqs::sieve_a")
    siqs_mt, siqs_st = driver_shapes(
        find_fn(siqs, "siqs"), r"if let Some\(pool\) = tpool\.as_ref\(\) \{", r"\.par_iter\(\)\s*\.for_each\(\s*\|[^|]*\|\s*\{",
        r"\bfor a_int in a_ints \{", "sieve_a", unit, "siqs()")
    # ---- mpqs: finished() = read `done`; else look at the store and maybe publish
    fin = tokens(strip_hooks(find_fn(mpqs, "finished")), {}, "SieveMPQS::finished")
    if fin != ["check", "publish"]:
        raise ExtractError(f"SieveMPQS::finished: protocol actions {fin} ([check, publish] expected)")
    FIN = {"finished": fin}
    adder(mpqs, "mpqs_poly", "mpqs")
    unit = unit_shape(find_fn(mpqs, "process_poly_block"), "mpqs_poly", FIN, "mpqs::process_poly_block")
    mfn = find_fn(mpqs, "mpqs")
    # the nested unit function is not part of the driver's own control flow
    nested = find_fn(mpqs, "process_poly_block")
    mfn_own = strip_hooks(mfn).replace(strip_hooks(nested), "")
    if "fn process_poly_block" in mfn_own:
        raise ExtractError("mpqs(): cannot separate the nested process_poly_block")
    mpqs_mt, mpqs_st = driver_shapes(
        mfn_own, r"if let Some\(pool\) = tpool \{", r"\.into_par_iter\(\)\s*\.for_each\(\s*\|[^|]*\|\s*\{",
        r"\bfor blkno in 0\.\. \{", "process_poly_block", unit, "mpqs()")
    # ---- ecm: a work unit is one curve (closure `do_curve`), no shared store; both branches map do_curve over the seeds
    ecm = src("src/ecm.rs")
    efn = strip_hooks(find_fn(ecm, "ecm", params=r"\s*\("))
    cb, ce = block_after(efn, r"let do_curve = \|seed: u32\| \{", "ecm(): do_curve closure")
    ecm_unit = tokens(efn[cb:ce], {}, "ecm::do_curve")
    rest = efn[:cb] + efn[ce:]
    if tokens(rest, {}, "ecm() outside do_curve"):
        raise ExtractError("ecm(): protocol actions outside the do_curve closure")
    if len(re.findall(r"\bdo_curve\s*\(", rest)) != 2:
        raise ExtractError("ecm(): do_curve is not called exactly once per branch")
    if not re.search(r"seeds\s*\.\s*par_iter\(\)\s*\.\s*map\(\s*\|&k\|\s*do_curve\(k\)\s*\)", rest) or \
       not re.search(r"for s in seeds \{\s*if let Some\(res\) = do_curve\(s\)", rest):
        raise ExtractError("ecm(): the two loops over the seeds no longer have the known form")
    ecm_shape = (ecm_unit, [], [])
    body = ("namespace Ymq.Gen.SchedShape\n\n"
            "/-- kinds of protocol actions found in the source -/\n"
            "inductive K | poll | check | add | publish\n  deriving DecidableEq, Repr\n\n"
            "/-- a work unit: `pre`, then `body` once per polynomial, then `post` -/\n"
            "structure Shape where\n  pre : List K\n  body : List K\n  post : List K\n  deriving Repr\n\n"
            + lean_shape("siqsMt", siqs_mt, "siqs.rs, thread pool: the par_iter closure over the A values, around sieve_a") + "\n"
            + lean_shape("siqsSt", siqs_st, "siqs.rs, sequential: the `for a_int in a_ints` loop, around sieve_a") + "\n"
            + lean_shape("mpqsMt", mpqs_mt, "mpqs.rs, thread pool: the into_par_iter closure over block numbers, around process_poly_block") + "\n"
            + lean_shape("mpqsSt", mpqs_st, "mpqs.rs, sequential: the `for blkno in 0..` loop, around process_poly_block") + "\n"
            + lean_shape("ecmCurve", ecm_shape, "ecm.rs: one curve (closure do_curve), mapped over the seeds by both branches; no shared store") + "\n"
            "def all : List (String × Shape) :=\n"
            "  [(\"siqs-mt\", siqsMt), (\"siqs-st\", siqsSt), (\"mpqs-mt\", mpqsMt), (\"mpqs-st\", mpqsSt)]\n\n"
            "end Ymq.Gen.SchedShape\n")
    write_gen("SchedShape", body, ["src/siqs.rs", "src/mpqs.rs", "src/ecm.rs"])
    return f"siqs-mt={siqs_mt} siqs-st={siqs_st} mpqs-mt={mpqs_mt} mpqs-st={mpqs_st} ecm={ecm_shape}"


if __name__ == "__main__":
    main(run)
