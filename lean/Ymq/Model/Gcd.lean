/-
Model of src/arith_gcd.rs (multiprecision Lehmer-style gcd, modular inverse).

Conventions (as in Model/Mg64.lean): machine words are `Nat`, `i64`/`BInt<N>` values are `Int`
together with an explicit range check at every arithmetic operation that panics on overflow in
the checked profile (`none` = the real code panics); loops take fuel.

* `reduce64`, `top64`, `mulword`, `dot_product` are word-exact (u64 / i64 / digit arrays);
* `BUint<N>` values are `Nat < 2^(64N)`, `BInt<N>` values are `Int` in `[-2^(64N-1), 2^(64N-1))`;
  the bnum operators `/ % * + - << cmp bits cast_from` on whole big integers are modelled by the
  corresponding `Nat`/`Int` operations (+ range check where bnum panics on overflow);
* `num_integer::Integer::extended_gcd` on `i64` is modelled step by step (the cofactors it
  returns are part of the result), `Integer::gcd` on `i64` as `Nat.gcd`.
No Mathlib import: this file is linked into the native driver.
-/
namespace Ymq.Gcd

/-- 2^64 -/
def W : Nat := 18446744073709551616

/-- 2^63 -/
def I63 : Int := 9223372036854775808

/-- `2^(64 N)`: number of values of `BUint<N>` -/
def M (N : Nat) : Nat := 2 ^ (64 * N)

/-- bit length (`u64::bits`, `BUint::bits`) -/
def bits (n : Nat) : Nat := if n = 0 then 0 else Nat.log2 n + 1

/-- result of an `i64` operation in the checked profile -/
def chkI64 (z : Int) : Option Int := if -I63 ≤ z ∧ z < I63 then some z else none

/-- result of a `BInt<N>` operation in the checked profile -/
def chkB (N : Nat) (z : Int) : Option Int :=
  if -((M N / 2 : Nat) : Int) ≤ z ∧ z < ((M N / 2 : Nat) : Int) then some z else none

/-- result of a `BUint<N>` addition / multiplication in the checked profile -/
def chkU (N : Nat) (z : Nat) : Option Nat := if z < M N then some z else none

/-- `v as i64` for a `u64` value -/
def asI64 (v : Nat) : Int := if v < 9223372036854775808 then (v : Int) else (v : Int) - (W : Int)

/-- `BInt::<N>::cast_from(q)` for `q : BUint<N>` (two's complement reinterpretation) -/
def castB (N : Nat) (q : Nat) : Int := if q < M N / 2 then (q : Int) else (q : Int) - (M N : Int)

/-! ### reduce64 -/

/-- the four debug assertions after the `while` loop of `reduce64` -/
def reduce64Exit (a b c d : Int) : Option (Int × Int × Int × Int) :=
  if a.natAbs ≤ 2 ^ 36 ∧ b.natAbs ≤ 2 ^ 36 ∧ c.natAbs ≤ 2 ^ 36 ∧ d.natAbs ≤ 2 ^ 36
  then some (a, b, c, d) else none

/-- i64 expression `p * c - a` with overflow checks (checked profile) -/
def mulSub64 (p c a : Int) : Option Int :=
  match chkI64 (p * c) with
  | none => none
  | some t => chkI64 (t - a)

/-- i64 expression `a - q * c` with overflow checks -/
def subMul64 (a q c : Int) : Option Int :=
  match chkI64 (q * c) with
  | none => none
  | some t => chkI64 (a - t)

/-- outcome of one iteration of the `while` loop of `reduce64` -/
inductive R64Step
  | brk
  | cont (a b c d : Int) (u v : Nat)

/-- body of the `while` loop (including the two debug assertions at its end) -/
def reduce64Body (x y : Nat) (a b c d : Int) (u v : Nat) : Option R64Step :=
  if u < v then
    -- (a, b, c, d, u, v) = (c, d, a, b, v, u)
    if c * x + d * y ≠ v ∨ a * x + b * y ≠ u then none else some (.cont c d a b v u)
  else
    let q := asI64 (u / v)
    let r := u % v
    match chkI64 (q + 1) with
    | none => none
    | some q1 =>
      if c = -I63 ∨ d = -I63 then none        -- `abs` overflows
      else if bits (q1 % (W : Int)).toNat + bits (max c.natAbs d.natAbs) > 36 then some .brk
      else if r > v / 2 then
        match mulSub64 q1 c a, mulSub64 q1 d b with
        | some c', some d' =>
          if c * x + d * y ≠ v ∨ c' * x + d' * y ≠ ((v - r : Nat) : Int) then none
          else some (.cont c d c' d' v (v - r))
        | _, _ => none
      else
        match subMul64 a q c, subMul64 b q d with
        | some c', some d' =>
          if c * x + d * y ≠ v ∨ c' * x + d' * y ≠ (r : Int) then none
          else some (.cont c d c' d' v r)
        | _, _ => none

/-- the `while` loop with fuel -/
def reduce64Loop (x y : Nat) : Nat → Int → Int → Int → Int → Nat → Nat →
    Option (Int × Int × Int × Int)
  | 0, _, _, _, _, _, _ => none
  | f + 1, a, b, c, d, u, v =>
    if u / 2 ^ 24 > 0 ∧ v / 2 ^ 24 > 0 then
      match reduce64Body x y a b c d u v with
      | none => none
      | some .brk => reduce64Exit a b c d
      | some (.cont a' b' c' d' u' v') => reduce64Loop x y f a' b' c' d' u' v'
    else reduce64Exit a b c d

/-- fuel of the `while` loop: one swap + at most 41 halvings of `v` -/
def reduce64Fuel : Nat := 70

/-- `reduce64(x, y)` -/
def reduce64 (x y : Nat) : Option (Int × Int × Int × Int) :=
  reduce64Loop x y reduce64Fuel 1 0 0 1 x y

/-! ### digit arrays, top64, mulword, dot_product -/

/-- `n.digits()` of a `BUint<N>` (little endian) -/
def toDigits : Nat → Nat → List Nat
  | 0, _ => []
  | N + 1, n => n % W :: toDigits N (n / W)

/-- `BUint::from_digits` -/
def ofDigits : List Nat → Nat
  | [] => 0
  | d :: t => d + W * ofDigits t

/-- `top64(digs, bits)`: bits `bits-64 .. bits` of the number -/
def top64 (digs : List Nat) (bts : Nat) : Option Nat :=
  let w := bts / 64
  if bts < 64 then none                         -- debug_assert (release: index underflow)
  else if bts % 64 = 0 then digs[w - 1]?
  else
    match digs[w - 1]?, digs[w]? with
    | some xtop1, some xtop2 =>
      some ((xtop2 * 2 ^ (64 - bts % 64)) % W ||| (xtop1 / 2 ^ (bts % 64)))
    | _, _ => none

/-- loop of `mulword` on the digits from index `i` on (`sz - i` words left), then `nd[sz] = carry` -/
def mulwordAux (w : Nat) : Nat → List Nat → Nat → Option (List Nat)
  | 0, ds, carry =>
    if carry > 0 then
      match ds with
      | [] => none                              -- nd[sz] out of range
      | _ :: t => some (carry :: t)
    else some ds
  | _ + 1, [], _ => none                        -- nd[i] out of range
  | sz + 1, d :: t, carry =>
    let nw := d * w + carry
    match mulwordAux w sz t (nw / W) with
    | none => none
    | some r => some (nw % W :: r)

/-- `mulword::<N>(w, sz, n)` -/
def mulword (N w sz n : Nat) : Option Nat :=
  match mulwordAux w sz (toDigits N n) 0 with
  | none => none
  | some r => some (ofDigits r)

/-- `i64::signum` -/
def sgn (a : Int) : Int := if a > 0 then 1 else if a < 0 then -1 else 0

/-- `dot_product::<N>(sz, a, x, b, y)` : `(|a x + b y|, sign was inverted)` -/
def dotProduct (N sz : Nat) (a : Int) (x : Nat) (b : Int) (y : Nat) : Option (Nat × Bool) :=
  let au := a.natAbs
  let bu := b.natAbs
  match mulword N au sz x, mulword N bu sz y with
  | some ax, some bY =>
    if sgn a * sgn b < 0 then
      let neg := (decide (ax > bY) && decide (a < 0)) || (decide (ax < bY) && decide (b < 0))
      some (if ax ≥ bY then ax - bY else bY - ax, neg)
    else
      match chkU N (ax + bY) with
      | none => none
      | some s => some (s, decide (a < 0) || decide (b < 0))
  | _, _ => none

/-! ### `Integer::extended_gcd` on i64 -/

/-- the `while !r.0.is_zero()` loop; state `r = (r0, r1)`, `s = (s0, s1)`, `t = (t0, t1)` -/
def egcdLoop : Nat → Int → Int → Int → Int → Int → Int → Option (Int × Int × Int)
  | 0, _, _, _, _, _, _ => none
  | f + 1, r0, r1, s0, s1, t0, t1 =>
    if r0 = 0 then
      if r1 ≥ 0 then some (r1, s1, t1)
      else
        match chkI64 (0 - r1), chkI64 (0 - s1), chkI64 (0 - t1) with
        | some g, some s, some t => some (g, s, t)
        | _, _, _ => none
    else
      match chkI64 (Int.tdiv r1 r0) with
      | none => none
      | some q =>
        match chkI64 (q * r0), chkI64 (q * s0), chkI64 (q * t0) with
        | some qr, some qs, some qt =>
          match chkI64 (r1 - qr), chkI64 (s1 - qs), chkI64 (t1 - qt) with
          | some r', some s', some t' => egcdLoop f r' r0 s' s0 t' t0
          | _, _, _ => none
        | _, _, _ => none

def egcdFuel : Nat := 200

/-- `Integer::extended_gcd(&x0, &y0)` : `(gcd, x, y)` -/
def egcdI64 (x0 y0 : Int) : Option (Int × Int × Int) := egcdLoop egcdFuel y0 x0 0 1 1 0

/-! ### gcd_internal -/

/-- `BInt` expression `p * A + q * C` evaluated left to right with overflow checks -/
def lin2 (N : Nat) (p A q C : Int) : Option Int :=
  match chkB N (p * A), chkB N (q * C) with
  | some pa, some qc => chkB N (pa + qc)
  | _, _ => none

/-- `BInt` expression `A - q * C` -/
def subMul (N : Nat) (A q C : Int) : Option Int :=
  match chkB N (q * C) with
  | some qc => chkB N (A - qc)
  | none => none

/-- `BInt` expression `q * C - A` -/
def mulSub (N : Nat) (q C A : Int) : Option Int :=
  match chkB N (q * C) with
  | some qc => chkB N (qc - A)
  | none => none

/-- which branch one iteration of the main loop takes (reported by the driver for coverage) -/
inductive Branch | retX | retY | small | fallback | lehmer
  deriving DecidableEq, Repr

structure St where
  A : Int
  B : Int
  C : Int
  D : Int
  x : Nat
  y : Nat

/-- outcome of one loop iteration -/
inductive Step
  | ret (d : Nat) (u v : Int)
  | next (s : St)

/-- the swap `if y >= x` at the top of the loop -/
def swapSt (s : St) : St :=
  if s.y ≥ s.x then { A := s.C, B := s.D, C := s.A, D := s.B, x := s.y, y := s.x } else s

/-- multiprecision quotient step (the `continue` branch).
`K` is the width (in words) of the `BInt` cofactors: the real code has `K = N`; the parameter only
exists so that theorems can tell cofactor overflow apart from every other panic site. -/
def fallbackStep (N K : Nat) (ext : Bool) (s : St) : Option St :=
  let x := s.x
  let y := s.y
  if ext then
    let q := x / y
    match chkU N (q * y) with
    | none => none
    | some qy =>
      if x < qy then none
      else
        let r := x - qy
        if (r * 2) % M N > y then
          -- (x, y) = (y, y - r)
          if y < r then none
          else
            match chkB K (castB N q + 1) with
            | none => none
            | some q1 =>
              match mulSub K q1 s.C s.A, mulSub K q1 s.D s.B with
              | some c, some d => some { A := s.C, B := s.D, C := c, D := d, x := y, y := y - r }
              | _, _ => none
        else
          let qi := castB N q
          match subMul K s.A qi s.C, subMul K s.B qi s.D with
          | some c, some d => some { A := s.C, B := s.D, C := c, D := d, x := y, y := r }
          | _, _ => none
  else some { s with x := y, y := x % y }

/-- 64-bit lattice reduction step on the top words -/
def lehmerStep (N K : Nat) (ext : Bool) (s : St) (bts xtop ytop : Nat) : Option St :=
  match reduce64 xtop ytop with
  | none => none
  | some (a, b, c, d) =>
    let size := (bts + 63) / 64
    match dotProduct N size a s.x b s.y, dotProduct N size c s.x d s.y with
    | some (axby, negx), some (cxdy, negy) =>
      if ext then
        match lin2 K a s.A b s.C, lin2 K a s.B b s.D, lin2 K c s.A d s.C, lin2 K c s.B d s.D with
        | some aa, some bb, some cc, some dd =>
          match (if negx then chkB K (-aa) else some aa), (if negx then chkB K (-bb) else some bb),
                (if negy then chkB K (-cc) else some cc), (if negy then chkB K (-dd) else some dd) with
          | some aa, some bb, some cc, some dd =>
            some { A := aa, B := bb, C := cc, D := dd, x := axby, y := cxdy }
          | _, _, _, _ => none
        | _, _, _, _ => none
      else some { s with x := axby, y := cxdy }
    | _, _ => none

/-- which branch the iteration starting in state `s` takes -/
def branchOf (N : Nat) (s0 : St) : Branch :=
  let s := swapSt s0
  let lx := bits s.x
  let ly := bits s.y
  if lx = 0 then .retY
  else if ly = 0 then .retX
  else if lx < 64 ∧ ly < 64 then .small
  else
    let bts := max lx ly
    match top64 (toDigits N s.y) bts with
    | none => .fallback
    | some ytop =>
      if lx + 36 ≥ N * 64 ∨ ly + 36 ≥ N * 64 ∨ ytop < 2 ^ 32 then .fallback else .lehmer

/-- one iteration of the `loop` of `gcd_internal::<N, EXT>` -/
def gcdStep (N K : Nat) (ext : Bool) (s0 : St) : Option Step :=
  let s := swapSt s0
  let lx := bits s.x
  let ly := bits s.y
  if lx = 0 then some (.ret s.y s.C s.D)
  else if ly = 0 then some (.ret s.x s.A s.B)
  else if lx < 64 ∧ ly < 64 then
    -- x0 = x.digits()[0] as i64, y0 likewise (both below 2^63)
    if ext then
      match egcdI64 (asI64 (s.x % W)) (asI64 (s.y % W)) with
      | none => none
      | some (g, ex, ey) =>
        match lin2 K ex s.A ey s.C, lin2 K ex s.B ey s.D with
        | some u, some v => some (.ret (g % (W : Int)).toNat u v)
        | _, _ => none
    else some (.ret (Nat.gcd (s.x % W) (s.y % W)) 0 0)
  else
    let bts := max lx ly
    match top64 (toDigits N s.x) bts, top64 (toDigits N s.y) bts with
    | some xtop, some ytop =>
      if lx + 36 ≥ N * 64 ∨ ly + 36 ≥ N * 64 ∨ ytop < 2 ^ 32 then
        (fallbackStep N K ext s).map Step.next
      else (lehmerStep N K ext s bts xtop ytop).map Step.next
    | _, _ => none

/-- the `loop` with fuel -/
def gcdLoop (N K : Nat) (ext : Bool) : Nat → St → Option (Nat × Int × Int)
  | 0, _ => none
  | f + 1, s =>
    match gcdStep N K ext s with
    | none => none
    | some (.ret d u v) => some (d, u, v)
    | some (.next s') => gcdLoop N K ext f s'

/-- fuel that always suffices (`gcd_terminates`): the product `x*y < 2^(128 N)` shrinks by a
factor `3/4` at least in every iteration. -/
def gcdFuel (N : Nat) : Nat := 3 * (128 * N) + 3

def initSt (n p : Nat) : St := { A := 1, B := 0, C := 0, D := 1, x := n, y := p }

/-- `gcd_internal::<N, EXT>(n, p)` -/
def gcdInternal (N : Nat) (ext : Bool) (n p : Nat) : Option (Nat × Int × Int) :=
  gcdLoop N N ext (gcdFuel N) (initSt n p)

/-- `big_gcd::<N>(n, p)` -/
def bigGcd (N n p : Nat) : Option Nat :=
  if p = 0 then some n
  else if n = 0 then some p
  else
    match gcdInternal N false n p with
    | none => none
    | some (d, _, _) => some d

inductive InvRes
  | ok (x : Nat)
  | err (d : Nat)
  deriving DecidableEq, Repr

/-- `inv_mod::<N>(n, p)` -/
def invMod (N n p : Nat) : Option InvRes :=
  if p = 0 then none                            -- assert!(!p.is_zero())
  else if n = 0 then (if p = 1 then some (.ok 0) else some (.err p))
  else
    match gcdInternal N true n p with
    | none => none
    | some (d, u, _) =>
      if d ≠ 1 then some (.err d)
      else if u < 0 then
        match chkB N (-u) with                  -- u.abs()
        | none => none
        | some ua => some (.ok (p - ua.toNat % p))
      else some (.ok (u.toNat % p))

/-- sequence of branches taken by the main loop (driver only: evidence of branch coverage) -/
def branchTrace (N K : Nat) (ext : Bool) : Nat → St → List Branch
  | 0, _ => []
  | f + 1, s =>
    branchOf N s ::
      match gcdStep N K ext s with
      | some (.next s') => branchTrace N K ext f s'
      | _ => []

end Ymq.Gcd
