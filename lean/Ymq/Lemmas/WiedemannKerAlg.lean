/-
The kernel path over `ZMod p`: the Krylov loop of `ker_pbig` produces the true Krylov sequence
whenever it returns, the Horner loop evaluates the polynomial read from Berlekamp–Massey at `M`,
and for a matrix that is singular modulo `p` the code's two coefficient tests make that polynomial
the reversed characteristic polynomial — so the assert `M v = 0` cannot fail (Cayley–Hamilton).
-/
import Ymq.Lemmas.WiedemannKer
import Ymq.Lemmas.WiedemannBM
import Ymq.Lemmas.BerlekampMasseyMg

namespace Ymq.Wied
open Matrix Polynomial

variable {p : ℕ}

/-- `mulpbig` in matrix form -/
theorem mulpBig_matrix (w : ℕ) (m : Mat) (hcols : ∀ r ∈ m, ∀ je ∈ r, je.1 < m.length) (p : ℕ)
    (hp : (p : Int) < 2 ^ (w - 1)) (v : List ℕ) (hv : ∀ j, v.getD j 0 < p) (z : List ℕ)
    (h : mulpBig w m p v = some z) (hn : 0 < m.length) :
    0 < p ∧ RedVec p m.length z ∧ colOf p m.length z = matOf p m.length m * colOf p m.length v := by
  have hvI : ∀ j, ((v.getD j 0 : ℕ) : Int) < 2 ^ (w - 1) := fun j =>
    lt_trans (by exact_mod_cast hv j) hp
  obtain ⟨h0, z1, z2⟩ := mulpBig_exact w m p hp v hvI z h hn
  have hp0 : 0 < p := Nat.pos_of_ne_zero h0
  have hp' : (0 : Int) < p := by exact_mod_cast hp0
  refine ⟨hp0, ⟨z1, fun j => ?_⟩, ?_⟩
  · by_cases hj : j < m.length
    · rw [z2 j hj]
      have h1 := Int.emod_lt_of_pos (rowDot (fun j => v.getD j 0) (m.getD j [])) hp'
      have h2 := Int.emod_nonneg (rowDot (fun j => v.getD j 0) (m.getD j [])) (ne_of_gt hp')
      omega
    · rw [getD_of_le _ _ (by omega)]; exact hp0
  · rw [← mulp_matrix m.length m hcols v hp0]
    ext i k
    have g0 : (rowDot (fun j => v.getD j 0) [] % (p : Int)).toNat = 0 := by simp [rowDot, sumSel]
    show ((z.getD i.val 0 : ℕ) : ZMod p) = (((m.map _).getD i.val 0 : ℕ) : ZMod p)
    rw [getD_map_zero _ g0, z2 i.val i.isLt]

/-- the Krylov loop of `ker_pbig`, forwards -/
def fwdBig (w : ℕ) (m : Mat) (p : ℕ) : ℕ → List ℕ → Option (List ℕ)
  | 0, _ => some []
  | c + 1, v =>
    match v[0]? with
    | none => none
    | some v0 =>
      if c = 0 then some [v0]
      else
        match mulpBig w m p v with
        | none => none
        | some u => (fwdBig w m p c u).map (v0 :: ·)

theorem krylovBig_eq_fwd (w : ℕ) (m : Mat) (p : ℕ) : ∀ (f : ℕ) (v seq : List ℕ),
    seq.length < 2 * m.length → 2 * m.length - seq.length ≤ f →
    krylovBig w m p f v seq = (fwdBig w m p (2 * m.length - seq.length) v).map (seq.reverse ++ ·)
  | 0, _, _, h1, h2 => by omega
  | f + 1, v, seq, h1, h2 => by
    obtain ⟨c, hc⟩ : ∃ c, 2 * m.length - seq.length = c + 1 := ⟨2 * m.length - seq.length - 1, by omega⟩
    rw [hc]
    unfold krylovBig fwdBig
    cases hv : v[0]? with
    | none => simp
    | some v0 =>
      simp only
      by_cases hl : (v0 :: seq).length = 2 * m.length
      · have hc0 : c = 0 := by simp at hl; omega
        simp [hl, hc0]
      · have hc0 : ¬ c = 0 := by simp at hl; omega
        simp only [hl, hc0, if_false]
        cases hm : mulpBig w m p v with
        | none => simp
        | some u =>
          simp only
          rw [krylovBig_eq_fwd w m p f u (v0 :: seq) (by simp at hl ⊢; omega) (by simp; omega)]
          have : 2 * m.length - (v0 :: seq).length = c := by simp; omega
          rw [this]
          cases fwdBig w m p c u with
          | none => simp
          | some l => simp

theorem fwdBig_exact (w : ℕ) (n : ℕ) (hn : 1 ≤ n) (m : Mat) (hm : m.length = n)
    (hcols : ∀ r ∈ m, ∀ je ∈ r, je.1 < m.length) (hp : (p : Int) < 2 ^ (w - 1))
    (V : Matrix (Fin n) (Fin 1) (ZMod p)) :
    ∀ (c : ℕ) (v out : List ℕ) (k : ℕ), fwdBig w m p c v = some out → v.length = n →
      (∀ j, ((v.getD j 0 : ℕ) : Int) < 2 ^ (w - 1)) →
      v.getD 0 0 < p → colOf p n v = matOf p n m ^ k * V →
      out.length = c ∧ (∀ x ∈ out, x < p) ∧
        ∀ t, t < c → ((out.getD t 0 : ℕ) : ZMod p) = (matOf p n m ^ (k + t) * V) ⟨0, hn⟩ 0
  | 0, _, out, _, h, _, _, _, _ => by
    simp [fwdBig] at h; subst h; exact ⟨rfl, by simp, fun t ht => by omega⟩
  | c + 1, v, out, k, h, hl, hb, h0, hV => by
    have hv0 : v[0]? = some (v.getD 0 0) := by
      have : 0 < v.length := by omega
      simp [List.getD_eq_getElem?_getD, List.getElem?_eq_getElem this]
    have hhead : ((v.getD 0 0 : ℕ) : ZMod p) = (matOf p n m ^ k * V) ⟨0, hn⟩ 0 := by
      rw [← hV]; rfl
    unfold fwdBig at h
    rw [hv0] at h
    simp only at h
    by_cases hc : c = 0
    · subst hc
      simp at h
      subst h
      refine ⟨rfl, by simpa using h0, fun t ht => ?_⟩
      have : t = 0 := by omega
      subst this
      simpa using hhead
    · rw [if_neg hc] at h
      cases hmu : mulpBig w m p v with
      | none => rw [hmu] at h; simp at h
      | some u =>
        rw [hmu] at h
        simp only at h
        cases hf : fwdBig w m p c u with
        | none => rw [hf] at h; simp at h
        | some out' =>
          rw [hf] at h
          have : out = v.getD 0 0 :: out' := by simpa using h.symm
          subst this
          obtain ⟨_, z1, z2⟩ := mulpBig_exact w m p hp v hb u hmu (by omega)
          have hp0 : 0 < p := by omega
          have hp' : (0 : Int) < p := by exact_mod_cast hp0
          have hured : ∀ j, u.getD j 0 < p := by
            intro j
            by_cases hj : j < m.length
            · rw [z2 j hj]
              have h1 := Int.emod_lt_of_pos (rowDot (fun j => v.getD j 0) (m.getD j [])) hp'
              have h2 := Int.emod_nonneg (rowDot (fun j => v.getD j 0) (m.getD j [])) (ne_of_gt hp')
              omega
            · rw [getD_of_le _ _ (by omega)]; exact hp0
          have hucol : colOf p n u = matOf p n m * colOf p n v := by
            subst hm
            rw [← mulp_matrix m.length m hcols v hp0]
            ext i k'
            have g0 : (rowDot (fun j => v.getD j 0) [] % (p : Int)).toNat = 0 := by
              simp [rowDot, sumSel]
            show ((u.getD i.val 0 : ℕ) : ZMod p) = (((m.map _).getD i.val 0 : ℕ) : ZMod p)
            rw [getD_map_zero _ g0, z2 i.val i.isLt]
          obtain ⟨e2, e3, e4⟩ := fwdBig_exact w n hn m hm hcols hp V c u out' (k + 1) hf
            (by omega) (fun j => lt_trans (by exact_mod_cast hured j) hp)
            (hured 0) (by rw [hucol, hV, ← Matrix.mul_assoc, ← pow_succ'])
          refine ⟨by simp [e2], ?_, ?_⟩
          · intro x hx
            rcases List.mem_cons.mp hx with rfl | hx
            · exact h0
            · exact e3 x hx
          · intro t ht
            cases t with
            | zero => simpa using hhead
            | succ t =>
              have := e4 t (by omega)
              have e : k + (t + 1) = k + 1 + t := by omega
              rw [e]
              simpa using this


/-- the value of the Horner loop after `k` steps: `Σ_{t ≤ k} cp_t · M^(k-t) · v0` -/
noncomputable def hornerVal (n : ℕ) (M : Matrix (Fin n) (Fin n) (ZMod p))
    (V0 : Matrix (Fin n) (Fin 1) (ZMod p)) (cp : List ℕ) (k : ℕ) : Matrix (Fin n) (Fin 1) (ZMod p) :=
  ∑ t ∈ Finset.range (k + 1), ((cp.getD t 0 : ℕ) : ZMod p) • (M ^ (k - t) * V0)

theorem hornerVal_succ (n : ℕ) (M : Matrix (Fin n) (Fin n) (ZMod p))
    (V0 : Matrix (Fin n) (Fin 1) (ZMod p)) (cp : List ℕ) (k : ℕ) :
    hornerVal n M V0 cp (k + 1) =
      M * hornerVal n M V0 cp k + ((cp.getD (k + 1) 0 : ℕ) : ZMod p) • V0 := by
  unfold hornerVal
  rw [Finset.sum_range_succ, Matrix.mul_sum]
  congr 1
  · apply Finset.sum_congr rfl
    intro t ht
    have : t < k + 1 := Finset.mem_range.mp ht
    rw [Matrix.mul_smul, ← Matrix.mul_assoc, ← pow_succ', show k + 1 - t = k - t + 1 by omega]
  · simp

theorem hornerBig_val (w : ℕ) (m : Mat) (hcols : ∀ r ∈ m, ∀ je ∈ r, je.1 < m.length) (p : ℕ)
    (hp : (p : Int) < 2 ^ (w - 1)) (cp v0 : List ℕ) (hn : 0 < m.length) :
    ∀ (c i : ℕ) (v out : List ℕ), hornerBig w m p cp v0 c (i + 1) v = some out →
      RedVec p m.length v →
      colOf p m.length v = hornerVal m.length (matOf p m.length m) (colOf p m.length v0) cp i →
      colOf p m.length out =
        hornerVal m.length (matOf p m.length m) (colOf p m.length v0) cp (i + c)
  | 0, i, v, out, h, _, hv => by
    simp [hornerBig] at h; subst h; simpa using hv
  | c + 1, i, v, out, h, hred, hv => by
    unfold hornerBig at h
    cases h1 : mulpBig w m p v with
    | none => rw [h1] at h; simp at h
    | some u =>
      rw [h1] at h; simp only at h
      cases h2 : cp[i + 1]? with
      | none => rw [h2] at h; simp at h
      | some ci =>
        rw [h2] at h; simp only at h
        by_cases hp0 : p = 0
        · rw [if_pos hp0] at h; simp at h
        · rw [if_neg hp0] at h
          obtain ⟨_, _, hu⟩ := mulpBig_matrix w m hcols p hp v hred.2 u h1 hn
          have hci : ci = cp.getD (i + 1) 0 := by
            simp [List.getD_eq_getElem?_getD, h2]
          have hnew : colOf p m.length ((List.range m.length).map
              (fun j => (u.getD j 0 + ci * v0.getD j 0) % p)) =
              hornerVal m.length (matOf p m.length m) (colOf p m.length v0) cp (i + 1) := by
            rw [hornerVal_succ, ← hv, ← hu]
            ext a b
            show ((((List.range m.length).map _).getD a.val 0 : ℕ) : ZMod p) = _
            have ha : a.val < (List.range m.length).length := by simp
            simp only [List.getD_eq_getElem?_getD, List.getElem?_map,
              List.getElem?_range a.isLt, Option.map_some, Option.getD_some]
            rw [ZMod.natCast_mod]
            simp only [Matrix.add_apply, Matrix.smul_apply, smul_eq_mul, colOf, Nat.cast_add,
              Nat.cast_mul, hci, List.getD_eq_getElem?_getD]
          have hred' : RedVec p m.length ((List.range m.length).map
              (fun j => (u.getD j 0 + ci * v0.getD j 0) % p)) := by
            refine ⟨by simp, fun j => ?_⟩
            by_cases hj : j < m.length
            · simp only [List.getD_eq_getElem?_getD, List.getElem?_map, List.getElem?_range hj,
                Option.map_some, Option.getD_some]
              exact Nat.mod_lt _ (Nat.pos_of_ne_zero hp0)
            · rw [getD_of_le _ _ (by simp; omega)]
              exact Nat.pos_of_ne_zero hp0
          have := hornerBig_val w m hcols p hp cp v0 hn c (i + 1) _ out h hred' hnew
          rw [this, show i + 1 + c = i + (c + 1) by omega]


/-- Cayley–Hamilton for the Horner value: if the coefficients read are those of the reversed
characteristic polynomial of a singular `M`, then `M · (Σ_{t<n} cp_t M^(n-1-t) v0) = 0`. -/
theorem mul_hornerVal_eq_zero (n : ℕ) (hn : 1 ≤ n) [Fact p.Prime]
    (M : Matrix (Fin n) (Fin n) (ZMod p)) (V0 : Matrix (Fin n) (Fin 1) (ZMod p)) (cp : List ℕ)
    (hcp : ∀ t, t ≤ n → ((cp.getD t 0 : ℕ) : ZMod p) = M.charpoly.reverse.coeff t)
    (h0 : M.charpoly.coeff 0 = 0) :
    M * hornerVal n M V0 cp (n - 1) = 0 := by
  have hdeg : M.charpoly.natDegree = n := by
    rw [charpoly_natDegree_eq_dim, Fintype.card_fin]
  have hCH := Matrix.aeval_self_charpoly M
  rw [aeval_eq_sum_range, hdeg, Finset.sum_range_succ', h0, zero_smul, add_zero] at hCH
  unfold hornerVal
  rw [show n - 1 + 1 = n by omega, Matrix.mul_sum]
  have e : ∀ t ∈ Finset.range n,
      M * (((cp.getD t 0 : ℕ) : ZMod p) • (M ^ (n - 1 - t) * V0)) =
        (fun s => (M.charpoly.coeff (s + 1) • M ^ (s + 1)) * V0) (n - 1 - t) := by
    intro t ht
    have ht' := Finset.mem_range.mp ht
    rw [hcp t (by omega), coeff_reverse, hdeg, revAt_le (by omega), Matrix.mul_smul,
      ← Matrix.mul_assoc, ← pow_succ']
    simp only [Matrix.smul_mul]
    rw [show n - 1 - t + 1 = n - t by omega]
  rw [Finset.sum_congr rfl e,
    Finset.sum_range_reflect (fun s => (M.charpoly.coeff (s + 1) • M ^ (s + 1)) * V0) n,
    ← Matrix.sum_mul, hCH, Matrix.zero_mul]

/-- **singular matrices**: Berlekamp–Massey does not panic on the Krylov sequence, the polynomial
it returns has `charpoly[size] = 0` (so `assert!(c0.is_zero())` holds), and when
`charpoly[size - 1] ≠ 0` it is the reversed characteristic polynomial, so that the product `M v`
checked by the first final assert vanishes. -/
theorem kerBig_singular (w : ℕ) [hpf : Fact p.Prime] (hlt : p < 2 ^ 244)
    (hp : (p : Int) < 2 ^ (w - 1)) (hw : (65537 : Int) ≤ 2 ^ (w - 1)) (m : Mat)
    (hcols : ∀ r ∈ m, ∀ je ∈ r, je.1 < m.length) (hn : 1 ≤ m.length)
    (hdet : (matOf p m.length m).det = 0) (seq : List ℕ)
    (h1 : krylovBig w m p (2 * m.length + 1) (startVec m.length 0 1) [] = some seq)
    (h2 : Ymq.BM.TwoTerms seq) :
    ∃ cp, Ymq.BM.bmBig p seq = some cp ∧ cp.length = 2 * m.length ∧ cp.getD m.length 0 = 0 ∧
      (cp.getD (m.length - 1) 0 ≠ 0 → ∀ v0 v z, RedVec p m.length v0 →
        hornerBig w m p cp v0 (m.length - 1) 1 v0 = some v → mulpBig w m p v = some z →
        ∀ x ∈ z, x = 0) := by
  have hprime : p.Prime := hpf.out
  have hp1 : 1 < p := hprime.one_lt
  -- the Krylov sequence
  rw [krylovBig_eq_fwd w m p _ _ [] (by simp; omega) (by simp)] at h1
  simp only [List.length_nil, Nat.sub_zero, List.reverse_nil, List.nil_append] at h1
  cases hf : fwdBig w m p (2 * m.length) (startVec m.length 0 1) with
  | none => rw [hf] at h1; simp at h1
  | some out0 =>
    rw [hf] at h1
    have : out0 = seq := by simpa using h1
    subst this
    have hs1 : (startVec m.length 0 1).getD 0 0 < p := by
      obtain ⟨n', hn'⟩ : ∃ n', m.length = n' + 1 := ⟨m.length - 1, by omega⟩
      rw [hn']; simp [startVec]; omega
    obtain ⟨k2, k3, k4⟩ := fwdBig_exact w m.length hn m rfl hcols hp
      (colOf p m.length (startVec m.length 0 1)) (2 * m.length) (startVec m.length 0 1) out0 0 hf
      (startVec_length _ 0 1)
      (fun j => by
        have := startVec_lt m.length 0 1 j
        have h' : ((( startVec m.length 0 1).getD j 0 : ℕ) : Int) < 65537 := by exact_mod_cast this
        linarith)
      hs1 (by simp)
    have hs : ∀ k, k < 2 * m.length → ((out0.getD k 0 : ℕ) : ZMod p) =
        krylovSeq (matOf p m.length m) (e0 p m.length) (colOf p m.length (startVec m.length 0 1)) k := by
      intro k hk
      rw [krylovSeq_e0 m.length hn, k4 k hk, zero_add]
    obtain ⟨out, A, c1, c2, c3, c4, c5, c6, _⟩ := wied_core (Ymq.BM.bigOps_ok p hlt) hn
      (matOf p m.length m) (e0 p m.length) (colOf p m.length (startVec m.length 0 1)) out0 k2 k3 hs h2
    -- degrees
    set T := (matOf p m.length m).charpoly.reverse with hT
    have hTn : T.coeff m.length = 0 := by
      have := reverse_charpoly_coeff_top (matOf p m.length m)
      rw [hdet] at this
      have hpow : ((-1 : ZMod p)) ^ m.length ≠ 0 := pow_ne_zero _ (neg_ne_zero.mpr one_ne_zero)
      exact (mul_eq_zero.mp this.symm).resolve_left hpow
    have hTne : T ≠ 0 := by
      intro h; have := reverse_charpoly_coeff_zero (matOf p m.length m); rw [← hT, h] at this
      simp at this
    have hOne : Ymq.BM.toPoly p out ≠ 0 := fun h => hTne (by rw [c6, h, zero_mul])
    have hAne : A ≠ 0 := fun h => hTne (by rw [c6, h, mul_zero])
    have hdT : T.natDegree ≤ m.length - 1 := by
      rw [natDegree_le_iff_coeff_eq_zero]
      intro N hN
      by_cases hNn : N = m.length
      · rw [hNn]; exact hTn
      · exact coeff_eq_zero_of_natDegree_lt
          (lt_of_le_of_lt (reverse_charpoly_natDegree_le _) (by omega))
    have hd := natDegree_mul hOne hAne
    rw [← c6] at hd
    have hred : Ymq.BM.Red p out := Ymq.BM.red_of_mem hprime.pos out c3
    have hcn : out.getD m.length 0 = 0 := by
      have : (Ymq.BM.toPoly p out).coeff m.length = 0 :=
        coeff_eq_zero_of_natDegree_lt (by omega)
      rw [Ymq.BM.coeff_toPoly] at this
      exact (Ymq.BM.cast_eq_zero_of_lt (hred m.length)).mp this
    refine ⟨out, c1, c2, hcn, fun htop v0 v z hv0 hh hm => ?_⟩
    -- full degree n - 1: out = T
    have htop' : (Ymq.BM.toPoly p out).coeff (m.length - 1) ≠ 0 := by
      rw [Ymq.BM.coeff_toPoly]
      intro h; exact htop ((Ymq.BM.cast_eq_zero_of_lt (hred _)).mp h)
    have hdO : m.length - 1 ≤ (Ymq.BM.toPoly p out).natDegree := le_natDegree_of_ne_zero htop'
    have hdA : A.natDegree = 0 := by omega
    obtain ⟨a, rfl⟩ : ∃ a, A = C a := ⟨A.coeff 0, eq_C_of_natDegree_eq_zero hdA⟩
    have hc0 := congrArg (fun P => P.coeff 0) c6
    simp only [mul_coeff_zero, coeff_C_zero, ← hT] at hc0
    rw [hT, reverse_charpoly_coeff_zero, Ymq.BM.coeff_toPoly] at hc0
    have h01 : Ymq.BM.co p out 0 = 1 := by unfold Ymq.BM.co Ymq.BM.gd; rw [c4]; simp
    rw [h01, one_mul] at hc0
    have hfull : Ymq.BM.toPoly p out = T := by rw [c6, ← hc0, C_1, mul_one]
    have hcp : ∀ t, t ≤ m.length → ((out.getD t 0 : ℕ) : ZMod p) = T.coeff t := by
      intro t _; rw [← hfull, Ymq.BM.coeff_toPoly]; rfl
    have hχ0 : (matOf p m.length m).charpoly.coeff 0 = 0 := by
      have := det_eq_sign_charpoly_coeff (matOf p m.length m)
      rw [hdet, Fintype.card_fin] at this
      have hpow : ((-1 : ZMod p)) ^ m.length ≠ 0 := pow_ne_zero _ (neg_ne_zero.mpr one_ne_zero)
      exact (mul_eq_zero.mp this.symm).resolve_left hpow
    -- Horner value
    have hinit : colOf p m.length v0 =
        hornerVal m.length (matOf p m.length m) (colOf p m.length v0) out 0 := by
      unfold hornerVal
      rw [Finset.sum_range_one, c4]
      simp
    have hval := hornerBig_val w m hcols p hp out v0 (by omega) (m.length - 1) 0 v0 v hh hv0 hinit
    obtain ⟨hp0, zred, zcol⟩ := mulpBig_matrix w m hcols p hp v
      (hornerBig_red w m p out v0 _ _ _ _ hh hv0).2 z hm (by omega)
    rw [hval, zero_add, mul_hornerVal_eq_zero m.length hn (matOf p m.length m) _ out hcp hχ0] at zcol
    intro x hx
    obtain ⟨i, hi, rfl⟩ := List.getElem_of_mem hx
    have hi' : i < m.length := by rw [← zred.1]; exact hi
    have hzi : z.getD i 0 = z[i] := by
      simp [List.getD_eq_getElem?_getD, List.getElem?_eq_getElem hi]
    have := congrFun (congrFun zcol ⟨i, hi'⟩) 0
    have h' : ((z.getD i 0 : ℕ) : ZMod p) = 0 := this
    rw [← hzi]
    exact (Ymq.BM.cast_eq_zero_of_lt (zred.2 i)).mp h'

end Ymq.Wied
