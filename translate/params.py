#!/usr/bin/env python3
"""C20 (and the data tables of C16): every parameter function, parameter table and hard-wired
(curves, B1, B2) arm of yamaquasi, translated from the Rust source into

  lean/Ymq/Gen/Stage2.lean   stage-2 tables, nearest-row selection, hard-wired ECM / P-1 arms
                             (pure data: importable without the C20 proofs)
  lean/Ymq/Gen/Params.lean   the parameter functions as checked `Option Nat` functions of the
                             bit length (+ flags), the factor-base tables, NTT primes, the
                             convolution dispatch, constants, and `evalParam` (driver entry)

Nothing is copied by hand: a construct the parser (rustexpr.py) does not understand, a function
that disappeared or a statement that no longer has the expected shape raises ExtractError.
"""
import re, sys, os
sys.path.insert(0, os.path.dirname(os.path.abspath(__file__)))
from common import *
import rustexpr as rx
from rustexpr import Emitter, parse_fn_text, parse_expr_text, find_fn, find_const, const_table, const_value, const_eval

T3 = ("slice", ("tuple", ("u32", "u32", "u32")))


def norm(s):
    return re.sub(r"\s+", " ", s).strip()


def rewrite(text, rules, what):
    """apply (regex, replacement) rewrites; each must match at least once"""
    for pat, rep in rules:
        text, n = re.subn(pat, rep, text)
        if n == 0:
            raise ExtractError(f"{what}: expected source pattern /{pat}/ not found")
    return text


def lean_rows(rows):
    return "[\n  " + ",\n  ".join("(" + ", ".join(str(x) for x in r) + ")" for r in rows) + "]"


# ---------------------------------------------------------------------------- Stage2.lean

def runs_of(e, callee):
    """flatten `None | f(args) | { f(args) } | a.or_else(|| b) | a?` into a list of argument lists"""
    if e.k == "path" and e.segs == ["None"]:
        return []
    if e.k == "paren":
        return runs_of(e.e, callee)
    if e.k == "try":
        return runs_of(e.e, callee)
    if e.k == "block" and not e.stmts and e.value is not None:
        return runs_of(e.value, callee)
    if e.k == "call" and e.f.k == "path" and e.f.segs[-1] == callee:
        return [e.args]
    if e.k == "mcall" and e.name == "or_else" and len(e.args) == 1 and e.args[0].k == "closure" \
            and not e.args[0].params:
        return runs_of(e.e, callee) + runs_of(e.args[0].body, callee)
    raise ExtractError(f"hard-wired arm: unsupported expression shape ({e.k})")


def find_match_on_bits(body):
    """the `match n.bits() { .. }` of a function body (as value, or in a `let`, possibly under `?`)"""
    cands = []
    for s in body.stmts:
        if s.k == "let":
            cands.append(s.e)
    if body.value is not None:
        cands.append(body.value)
    out = []
    for c in cands:
        while c.k in ("try", "paren"):
            c = c.e
        if c.k == "match" and c.e.k == "mcall" and c.e.name == "bits" and c.e.e.k == "path" and c.e.e.segs == ["n"]:
            out.append(c)
    if len(out) != 1:
        raise ExtractError(f"expected exactly one `match n.bits()`, found {len(out)}")
    return out[0]


def arms_of(fn_text, callee, arg_slots, uint_bits, env=None, guard_var=None):
    """-> rows (lo, hi, guard, [tuple of constants]) ; guard: 0 none, 1 `if guard_var`, 2 `if !guard_var`"""
    f = parse_fn_text(fn_text)
    m = find_match_on_bits(f.body)
    rows = []
    for arm in m.arms:
        p = arm.pat
        if p.k == "prange":
            lo, hi = p.lo, (p.hi if p.hi is not None else uint_bits)
        elif p.k == "pwild":
            lo, hi = 0, uint_bits
        else:
            raise ExtractError(f"{f.name}: unsupported arm pattern {p.k}")
        g = 0
        if arm.guard is not None:
            ge = arm.guard
            if guard_var and ge.k == "path" and ge.segs == [guard_var]:
                g = 1
            elif guard_var and ge.k == "un" and ge.op == "!" and ge.e.k == "path" and ge.e.segs == [guard_var]:
                g = 2
            else:
                raise ExtractError(f"{f.name}: unsupported match guard")
        runs = []
        for args in runs_of(arm.body, callee):
            runs.append(tuple(const_eval(args[i], env) for i in arg_slots))
        rows.append((lo, hi, g, runs))
    # arms must cover 0..=uint_bits (rustc guarantees exhaustiveness; we re-check the ranges read)
    covered = set()
    for lo, hi, g, _ in rows:
        covered.update(range(lo, min(hi, uint_bits) + 1))
    if covered != set(range(uint_bits + 1)):
        raise ExtractError(f"{f.name}: arms do not cover 0..={uint_bits}")
    return rows


def lean_arms(rows):
    def run(r):
        return "(" + ", ".join(str(x) for x in r) + ")"
    return "[\n  " + ",\n  ".join(
        f"({lo}, {hi}, {g}, [" + ", ".join(run(r) for r in runs) + "])" for lo, hi, g, runs in rows) + "]"


STAGE2_FN = norm("""(b2: f64) -> (f64, u64, u64) { *STAGE2_PARAMS .iter() .min_by(|x, y|
 (x.0 - b2).abs().total_cmp(&(y.0 - b2).abs())) .unwrap() }""")


def check_stage2_fn(source, what):
    t = norm(find_fn(source, "stage2_params"))
    t = t[t.index("("):]
    if norm(t.replace(" ", "")) != norm(STAGE2_FN.replace(" ", "")):
        raise ExtractError(f"{what}::stage2_params no longer is `min_by |row.0 - b2|` over STAGE2_PARAMS")


def gen_stage2(report):
    lib = src("src/lib.rs")
    m = must(r"pub type Uint = arith::U(\d+);", rx.strip_comments(lib), "lib.rs `pub type Uint`")
    uint_bits = int(m.group(1))
    params = src("src/params.rs")
    pm1 = src("src/pollard_pm1.rs")
    ecm = src("src/ecm.rs")
    ecm128 = src("src/ecm128.rs")
    pp1 = src("src/pp1.rs")
    t_ecm = const_table(params, "STAGE2_PARAMS", 3)
    t_pm1 = const_table(pm1, "STAGE2_PARAMS", 3)
    check_stage2_fn(params, "params")
    check_stage2_fn(pm1, "pollard_pm1")
    # which table each consumer uses
    must(r"use crate::params::stage2_params;", ecm, "ecm.rs imports params::stage2_params")
    must(r"use crate::params::stage2_params;", ecm128, "ecm128.rs imports params::stage2_params")
    must(r"params::stage2_params\(b2\)", pp1, "pp1.rs uses params::stage2_params")
    if re.search(r"params::", rx.strip_comments(pm1)):
        raise ExtractError("pollard_pm1.rs now refers to params:: (it used its own stage-2 table)")
    multieval = const_value(pm1, "MULTIEVAL_THRESHOLD")
    pm1s = rx.strip_comments(pm1)
    must(r"if b2 > MULTIEVAL_THRESHOLD \{\s*let \(mut f2, n2\) = pm1_stage2_polyeval\(&zn, b2, g\);", pm1s,
         "pm1_impl: polyeval switch")
    m = must(r"if d1 < (\d+) \{\s*let mut buffer = zn\.one\(\);", rx.strip_comments(ecm), "ecm_curve: `if d1 < 4000` switch")
    ecm_poly_d1 = int(m.group(1))
    # consumers' asserts on (d1, d2): presence is checked so that the theorems stay about the real code
    must(r"assert!\(d1 % 6 == 0\);", pm1s, "pm1_stage2_polyeval: assert d1 % 6 == 0")
    must(r"assert!\(d2 & \(d2 - 1\) == 0\);", pm1s, "pm1_stage2_polyeval: assert d2 power of two")
    must(r"let znx = PolyRing::new\(zn, d2 / 2\);\s*let mzp = znx\.mzp\(\)\.unwrap\(\);", pm1s,
         "pm1_stage2_polyeval: PolyRing::new(zn, d2 / 2) + unwrap")
    must(r"p\[i\] = zn\.mul\(&p\[i\], &negsteps\[i\]\);", pm1s, "pm1_stage2_polyeval: negsteps[i] for i < p.len()")
    must(r"while b < d1 \{\s*b \+= 2;\s*if b % 3 == 0 \|\| Integer::gcd\(&b, &d1\) != 1 \{\s*continue;", pm1s,
         "pm1_stage2_polyeval: baby-step loop")
    must(r"assert!\(d1 % 6 == 0\);", rx.strip_comments(pp1), "pp1: assert d1 % 6 == 0")
    must(r"assert!\(b1 > 3\);", pm1s, "pm1_impl: assert b1 > 3")
    for nm, s in (("ecm", ecm), ("ecm128", ecm128)):
        must(r"for b in 1\.\.d1 / 2 \{\s*if Integer::gcd\(&b, &d1\) == 1 \{\s*bs\.push\(b\);", rx.strip_comments(s),
             f"{nm}: baby-step list")
        must(r"assert_eq!\(bs\[0\], 1\);", rx.strip_comments(s), f"{nm}: assert bs[0] == 1")

    ecm_auto = arms_of(find_fn(ecm, "ecm_auto"), "ecm", (1, 2, 3), uint_bits)
    f_only = parse_fn_text(find_fn(ecm, "ecm_only"))
    if f_only.body.stmts or f_only.body.value is None:
        raise ExtractError("ecm_only: body is no longer a single or_else chain")
    ecm_only = [tuple(const_eval(a[i]) for i in (1, 2, 3)) for a in runs_of(f_only.body.value, "ecm")]
    must(r"let multiplier = if try_harder \{ n\.bits\(\) as usize \} else \{ 1 \};", rx.strip_comments(ecm128),
         "ecm128: multiplier")
    e128_1 = arms_of(find_fn(ecm128, "ecm128"), "ecm", (1, 2, 3), uint_bits, {"multiplier": 1}, "try_harder")
    e128_3 = arms_of(find_fn(ecm128, "ecm128"), "ecm", (1, 2, 3), uint_bits, {"multiplier": 3}, "try_harder")
    for a, b in zip(e128_1, e128_3):
        for ra, rb in zip(a[3], b[3]):
            if rb[0] != 3 * ra[0] or ra[1:] != rb[1:]:
                raise ExtractError("ecm128: curve count is not `constant * multiplier`")
    # ecm_semiprime: if n >> 52 == 0 {..} else if n >> 58 == 0 {..} else {..}
    fsp = parse_fn_text(find_fn(ecm128, "ecm_semiprime"))
    semi = []
    node = None
    for s in fsp.body.stmts:
        if s.k == "let" and s.e.k == "if":
            node = s.e
    if node is None:
        raise ExtractError("ecm_semiprime: if chain not found")
    while True:
        c = node.c
        if not (c.k == "bin" and c.op == "==" and c.r.k == "int" and c.r.v == 0 and c.l.k == "bin" and c.l.op == ">>"
                and c.l.l.k == "path" and c.l.l.segs == ["n"] and c.l.r.k == "int"):
            raise ExtractError("ecm_semiprime: unexpected condition")
        (args,) = runs_of(node.th, "ecm")
        semi.append((c.l.r.v,) + tuple(const_eval(args[i]) for i in (1, 2, 3)))
        if node.el is None:
            raise ExtractError("ecm_semiprime: missing else")
        if node.el.k == "if":
            node = node.el
            continue
        (args,) = runs_of(node.el, "ecm")
        semi.append((64,) + tuple(const_eval(args[i]) for i in (1, 2, 3)))
        break
    pm1_quick = arms_of(find_fn(pm1, "pm1_quick"), "pm1_impl", (1, 2), uint_bits)
    pm1_only = arms_of(find_fn(pm1, "pm1_only"), "pm1_impl", (1, 2), uint_bits)

    out = f"""import Ymq.Model.Checked

namespace Ymq.Gen.Stage2
open Ymq.Checked

/-- `Uint::BITS` (lib.rs: `pub type Uint = arith::U{uint_bits}`); open-ended arms `a..` end here. -/
def uintBits : Nat := {uint_bits}

/-- `params::STAGE2_PARAMS` rows (B2, d1, d2): used by ECM (ecm.rs, ecm128.rs) and P+1 (pp1.rs). -/
def ecmTable : List (Nat × Nat × Nat) := {lean_rows(t_ecm)}

/-- `pollard_pm1::STAGE2_PARAMS` rows (B2, d1, d2): used by P-1 only. -/
def pm1Table : List (Nat × Nat × Nat) := {lean_rows(t_pm1)}

/-- `params::stage2_params(b2)` for `b2 = num/den` (nearest row by |row.0 - b2|, first on ties). -/
def stage2Select (num den : Nat) : Option (Nat × Nat × Nat) := nearestRow ecmTable num den

/-- `pollard_pm1::stage2_params(b2)` for `b2 = num/den`. -/
def pm1Stage2Select (num den : Nat) : Option (Nat × Nat × Nat) := nearestRow pm1Table num den

/-- `pollard_pm1::MULTIEVAL_THRESHOLD`: `pm1_impl` runs `pm1_stage2_polyeval` iff `b2 > ` this. -/
def multievalThreshold : Nat := {multieval}

/-- `ecm::ecm_curve`: quadratic stage 2 iff `d1 < ` this, otherwise `Poly::roots_eval`. -/
def ecmPolyevalD1 : Nat := {ecm_poly_d1}

/-! Hard-wired arms. A row is `(lo, hi, guard, runs)`: the arm is taken for `lo ≤ n.bits() ≤ hi`
(first matching row wins, as in the Rust `match`); `guard`: 0 = none, 1 = `if try_harder`,
2 = `if !try_harder`; `runs` = the successive attempts (`a.or_else(|| b)`), empty = `None`. -/

/-- `ecm::ecm_auto`: runs are (curves, B1, B2). -/
def ecmAutoArms : List (Nat × Nat × Nat × List (Nat × Nat × Nat)) := {lean_arms(ecm_auto)}

/-- `ecm::ecm_only` (no size dispatch): successive (curves, B1, B2). -/
def ecmOnlyRuns : List (Nat × Nat × Nat) := {lean_rows(ecm_only)}

/-- `ecm128::ecm128`: runs are (c, B1, B2) with curves = c · multiplier,
multiplier = `if try_harder {{ n.bits() }} else {{ 1 }}`. -/
def ecm128Arms : List (Nat × Nat × Nat × List (Nat × Nat × Nat)) := {lean_arms(e128_1)}

/-- `ecm128::ecm_semiprime`: (s, curves, B1, B2): first row with `n >> s == 0` (s = 64: else). -/
def ecmSemiprimeArms : List (Nat × Nat × Nat × Nat) := {lean_rows(semi)}

/-- `pollard_pm1::pm1_quick`: runs are (B1, B2). -/
def pm1QuickArms : List (Nat × Nat × Nat × List (Nat × Nat)) := {lean_arms(pm1_quick)}

/-- `pollard_pm1::pm1_only`: runs are (B1, B2). -/
def pm1OnlyArms : List (Nat × Nat × Nat × List (Nat × Nat)) := {lean_arms(pm1_only)}

end Ymq.Gen.Stage2
"""
    write_gen("Stage2", out, ["src/params.rs", "src/pollard_pm1.rs", "src/ecm.rs", "src/ecm128.rs", "src/pp1.rs", "src/lib.rs"])
    report.append(f"Stage2.lean: uintBits={uint_bits}; params::STAGE2_PARAMS {len(t_ecm)} rows; "
                  f"pollard_pm1::STAGE2_PARAMS {len(t_pm1)} rows; MULTIEVAL_THRESHOLD={multieval}; ecm d1 switch={ecm_poly_d1}")
    report.append(f"  arms: ecm_auto {len(ecm_auto)} ({sum(len(r[3]) for r in ecm_auto)} runs), ecm_only {len(ecm_only)} runs, "
                  f"ecm128 {len(e128_1)}, ecm_semiprime {len(semi)}, pm1_quick {len(pm1_quick)}, pm1_only {len(pm1_only)}")
    return uint_bits


# ---------------------------------------------------------------------------- Params.lean

# (module, file, function, parameters replaced by their bit length, text rewrites, note)
FUNCTIONS = [
    ("params", "src/params.rs", "select_fb_size", (), [], None),
    ("params", "src/params.rs", "factor_base_size", ("n",), [], None),
    ("params", "src/params.rs", "qs_fb_size", (), [], None),
    ("params", "src/params.rs", "mpqs_fb_size", (), [], None),
    ("params", "src/params.rs", "clsgrp_fb_size", (), [], None),
    ("siqs", "src/siqs.rs", "fb_size", ("n",),
     [(r"n\.low_u64\(\) % 8 == 1", "n_mod8_is1"), (r"use_double: bool\)", "use_double: bool, n_mod8_is1: bool)")],
     "the test `n.low_u64() % 8 == 1` is the extra flag `n_mod8_is1`; `n >> 2` is `bits - 2` (truncated)"),
    ("siqs", "src/siqs.rs", "nfactors", ("n",), [], None),
    ("siqs", "src/siqs.rs", "a_value_count", ("n",), [], None),
    ("siqs", "src/siqs.rs", "a_tolerance_divisor", ("n",), [], None),
    ("siqs", "src/siqs.rs", "interval_size", ("n",), [], None),
    ("siqs", "src/siqs.rs", "large_prime_factor", ("n",), [], None),
    ("siqs", "src/siqs.rs", "double_large_factor", ("n",), [], None),
    ("mpqs", "src/mpqs.rs", "mpqs_interval_size", ("n",), [], None),
    ("mpqs", "src/mpqs.rs", "large_prime_factor", ("n",), [], None),
    ("mpqs", "src/mpqs.rs", "double_large_factor", ("n",), [], None),
    ("qsieve", "src/qsieve.rs", "large_prime_factor", ("n",), [], None),
    ("qsieve", "src/qsieve.rs", "max_large_prime", (), [], None),
    ("qsieve", "src/qsieve.rs", "nblocks", ("n",),
     [(r"\(&self\)", "(n: &Uint)"), (r"self\.n\.bits\(\)", "n.bits()")], "`self.n` is the parameter `n`"),
    ("classgroup", "src/classgroup.rs", "a_params", (), [], None),
    ("classgroup", "src/classgroup.rs", "interval_size", (), [], None),
    ("classgroup", "src/classgroup.rs", "large_prime_factor", (), [], None),
    ("classgroup", "src/classgroup.rs", "double_large_factor", ("n",), [], None),
]


def synth_functions(report):
    """functions assembled from statements of larger functions (statement shape checked by regex)"""
    out = []
    fb = rx.strip_comments(src("src/fbase.rs"))
    body = rx.find_fn(src("src/fbase.rs"), "primes")
    m = must(r"pub fn primes\(n: u32\) -> Vec<u32> \{\s*let bound = (.*?) as usize;\s*let mut sieve = vec!\[false; bound / 2\];",
             body, "fbase::primes: `let bound = ... as usize; let mut sieve = vec![false; bound / 2]`")
    must(r"let p = 2 \* i \+ 1;\s*primes\.push\(p as u32\);", body, "fbase::primes: p = 2i+1 < bound")
    out.append(("fbase", "primes_bound", f"fn primes_bound(n: u32) -> usize {{ {m.group(1)} as usize }}", (),
                "first statement of `fbase::primes(n)`: every prime it returns is `2i+1 < bound`"))
    new = rx.find_fn(src("src/fbase.rs"), "new", r"\(n: Int, size: u32\)")
    m = must(r"let ps = primes\((.*?)\);", new, "FBase::new: `let ps = primes(2 * size + 40)`")
    out.append(("fbase", "candidate_count", f"fn candidate_count(size: u32) -> u32 {{ {m.group(1)} }}", (),
                "argument of `primes(..)` in `FBase::new(n, size)`"))
    m = must(r"prepared\.truncate\((.*?)\);\s*for \(p, r, div\) in prepared", new, "FBase::new: `prepared.truncate(..)`")
    expr = rewrite(m.group(1), [(r"prepared\.len\(\)", "prepared_len")], "FBase::new truncate")
    out.append(("fbase", "padded_len", f"fn padded_len(size: u32, prepared_len: usize) -> usize {{ {expr} }}", (),
                "argument of `prepared.truncate(..)` in `FBase::new`: number of primes kept"))
    must(r"assert!\(primes\.len\(\) % 8 == 0\);", new, "FBase::new: assert len % 8 == 0")
    # single large prime bound of the four sieves (maxlarge): statements of the main functions
    FAC = r"prefs\.large_factor\.unwrap_or\(large_prime_factor\((?:&n|adjsize)\)\)"
    for mod in ("siqs", "classgroup"):
        body = rx.strip_comments(src(f"src/{mod}.rs"))
        m = must(r"(let maxprime = fbase\.bound\(\) as u64;)\s*(let maxlarge: u64 = maxprime \* " + FAC + r";)\s*"
                 r"(let maxlarge = [^;]*;)\s*let maxdouble = if use_double \{\s*(maxprime \* maxprime \* double_large_factor\(&[nd]\))\s*\} else \{\s*0\s*\};",
                 body, f"{mod}: maxprime/maxlarge/maxdouble statements")
        stm = rewrite(" ".join(m.group(i) for i in (1, 2, 3)), [(r"fbase\.bound\(\)", "bound"), (FAC, "factor")], f"{mod} maxlarge")
        out.append((mod, "maxlarge", f"fn maxlarge(bound: u32, factor: u64) -> u64 {{ {stm} maxlarge }}", (),
                    f"statements of `{mod}::{mod}`: single large prime bound from `fbase.bound()` and the large prime factor"))
        stm = rewrite(m.group(1) + " " + m.group(4), [(r"fbase\.bound\(\)", "bound"), (r"double_large_factor\(&[nd]\)", "dfactor")], f"{mod} maxdouble")
        out.append((mod, "maxdouble", f"fn maxdouble(bound: u32, dfactor: u64) -> u64 {{ {stm} }}", (),
                    f"statements of `{mod}::{mod}`: double large prime bound (when `use_double`)"))
    body = rx.strip_comments(src("src/mpqs.rs"))
    m = must(r"(let maxprime = fbase\.bound\(\) as u64;)\s*(let mut maxlarge: u64 = maxprime \* " + FAC + r";)\s*"
             r"(if maxlarge > u32::MAX as u64 \{[^}]*\})\s*(if use_double && maxlarge < 2 \* maxprime \{[^}]*\})\s*if prefs\.verbose",
             body, "mpqs: maxprime/maxlarge statements")
    stm = rewrite(" ".join(m.groups()), [(r"fbase\.bound\(\)", "bound"), (FAC, "factor")], "mpqs maxlarge")
    out.append(("mpqs", "maxlarge", f"fn maxlarge(bound: u32, factor: u64, use_double: bool) -> u64 {{ {stm} maxlarge }}", (),
                "statements of `mpqs::mpqs`: single large prime bound"))
    m = must(r"let max_cofactor: u64 = if s\.use_double \{\s*(maxprime \* maxprime \* double_large_factor\(&s\.n\))\s*\} else if maxlarge > maxprime",
             body, "mpqs: max_cofactor")
    stm = rewrite(m.group(1), [(r"double_large_factor\(&s\.n\)", "dfactor")], "mpqs maxdouble")
    out.append(("mpqs", "maxdouble", f"fn maxdouble(maxprime: u64, dfactor: u64) -> u64 {{ {stm} }}", (),
                "`mpqs::sieve_block_poly`: double large prime bound (when `use_double`)"))
    qsb = rx.strip_comments(src("src/qsieve.rs"))
    must(r"let maxlarge: u64 = max_large_prime\(\s*fbase\.bound\(\),\s*" + FAC + r",?\s*\);\s*let qs = SieveQS::new\(n, &fbase, maxlarge, use_double\);",
         qsb, "qsieve: maxlarge = max_large_prime(fbase.bound(), factor)")
    m = must(r"let max_cofactor = if s\.use_double \{\s*(maxlarge \* maxprime \* 2)\s*\} else if maxlarge > maxprime", qsb, "qsieve: max_cofactor")
    out.append(("qsieve", "max_cofactor_double", f"fn max_cofactor_double(maxlarge: u64, maxprime: u64) -> u64 {{ {m.group(1)} }}", (),
                "`qsieve::sieve_block`: cofactor bound with double large primes"))
    # the consumers of maxlarge
    must(r"if cofactor > maxlarge \* maxlarge \{", fb, "fbase::cofactor: maxlarge * maxlarge")
    for mod in ("siqs", "mpqs", "classgroup"):
        must(r"assert!\(maxlarge == \(maxlarge as u32\) as u64\);", rx.strip_comments(src(f"src/{mod}.rs")), f"{mod}: assert maxlarge fits u32")
    # MultiZmodP::new
    fft = src("src/arith_fft.rs")
    mz = rx.strip_comments(fft)
    m = must(r"pub fn new\(zn: &'a ZmodN, logsize: u32\) -> Self \{\s*(let need = [^;]*;)\s*(let w = [^;]*;)\s*"
             r"let primes: Vec<u64> = NTT_PRIMES\[\.\.w\]\.iter\(\)\.map\(\|p\| p\.0\)\.collect\(\);\s*"
             r"(assert!\(w as u128 \* \(primes\[w - 1\] as u128\) < 1 << 64\);)", mz, "MultiZmodP::new prologue")
    stm = " ".join(m.groups())
    stm = rewrite(stm, [(r"zn\.n\.bits\(\)", "n.bits()"), (r"primes\[w - 1\]", "NTT_PRIME_VALUES[w - 1]")], "MultiZmodP::new")
    stm = stm.replace("assert!(w as u128", "assert!(w <= NTT_PRIMES_LEN); assert!(w as u128")
    out.append(("arith_fft", "mzp_w", f"fn mzp_w(n: &Uint, logsize: u32) -> usize {{ {stm} w }}", ("n",),
                "prologue of `MultiZmodP::new(zn, logsize)`: the number `w` of NTT primes; the slice "
                "`NTT_PRIMES[..w]` is the inserted `assert!(w <= NTT_PRIMES_LEN)`"))
    must(r"assert!\(pprod\.bits\(\) >= 2 \* zn\.n\.bits\(\) \+ logsize\);", mz, "MultiZmodP::new: pprod assert")
    # convolve_modn dispatch
    cv = rx.find_fn(fft, "convolve_modn")
    m = must(r"let \(fsize, logpack, stride\) = (match \(zn\.n\.bits\(\), size\) \{.*?\n    \});\s*assert!\(zn\.n\.bits\(\) <= (\d+)\);",
             cv, "convolve_modn: dispatch match + assert")
    disp = rewrite(m.group(1), [(r"zn\.n\.bits\(\)", "n.bits()")], "convolve_modn dispatch")
    disp = re.sub(r'panic!\("[^"]*"\)', "panic!()", disp)
    out.append(("arith_fft", "convolve_dispatch",
                f"fn convolve_dispatch(n: &Uint, size: usize) -> (usize, u32, usize) {{ {disp} }}", ("n",),
                "the `(zn.n.bits(), size)` dispatch of `convolve_modn`: (fsize, logpack, stride)"))
    conv_max_bits = int(m.group(2))
    fsizes = re.findall(r"(\d+) => _convolve_modn::<(\d+)>\(zn, size, logpack, stride, p1, p2, res, offset\),", cv)
    if len(fsizes) < 1:
        raise ExtractError("convolve_modn: fsize -> N table not found")
    report.append(f"synthesized: fbase::primes_bound, fbase::candidate_count, fbase::padded_len, arith_fft::mzp_w, "
                  f"arith_fft::convolve_dispatch; convolve fsize->N {fsizes}")
    return out, conv_max_bits, [(int(a), int(b)) for a, b in fsizes]


def gen_params(report, uint_bits):
    # ---- constants
    sieve = src("src/sieve.rs")
    block_size = const_value(sieve, "BLOCK_SIZE")
    mint_words = const_value(src("src/arith_montgomery.rs"), "MINT_WORDS")
    fft_threshold = const_value(src("src/arith_poly.rs"), "FFT_THRESHOLD")
    max_multiplier = const_value(src("src/fbase.rs"), "MAX_MULTIPLIER")
    fbs = rx.strip_comments(src("src/fbase.rs"))
    m = must(r"pub idx_by_log: \[usize; ([^\]]*)\],", fbs, "FBase.idx_by_log length")
    idx_by_log_len = const_eval(parse_expr_text(m.group(1)))
    must(r"for idx in log\.\.=l \{\s*idx_by_log\[idx\] = primes\.len\(\);", fbs, "FBase::new: idx_by_log[idx] for idx <= bitlen(p)")
    sv = rx.strip_comments(sieve)
    must(r"for log in 0\.\.=maxlog \{\s*let idx1 = fbase\.idx_by_log\[log\];\s*let idx2 = fbase\.idx_by_log\[log \+ 1\];", sv,
         "Sieve::new: idx_by_log[log + 1] for log <= bitlen(maxprime)")
    m = must(r"pub const fn new\(p: u32\) -> Self \{\s*assert!\(p >> (\d+) == 0\);", rx.strip_comments(src("src/arith.rs")),
             "Dividers::new: assert p >> 30 == 0")
    dividers_bits = int(m.group(1))
    m = must(r"if n\.bits\(\) > (\d+) \{\s*if prefs\.verbose\(Verbosity::Info\) \{\s*eprintln!\(\"Number \{n\} too large for classical quadratic sieve!\"\);\s*\}\s*return vec!\[\];", rx.strip_comments(src("src/qsieve.rs")),
             "qsieve: size limit")
    qs_max_bits = int(m.group(1))
    must(r"assert!\(MAX_MULTIPLIER \* MAX_MULTIPLIER < 1 << 16\);", fbs, "select_multiplier assert")
    must(r"for k in 1\.\.min\(2 \* n\.bits\(\), MAX_MULTIPLIER\) \{", fbs, "select_multiplier: k < MAX_MULTIPLIER")
    libs = rx.strip_comments(src("src/lib.rs"))
    m = must(r"if n\.bits\(\) > ([^{]*?) \{\s*return Err\(", libs, "factor(): refusal of oversize inputs")
    lib_max_bits = const_eval(parse_expr_text(m.group(1)), {"MINT_WORDS": mint_words})
    m = must(r"if n\.bits\(\) > (\d+) \{\s*if prefs\.verbose\(Verbosity::Info\) \{\s*eprintln!\(\"Number \{n\} too large for quadratic sieve!\"\);",
             rx.strip_comments(src("src/mpqs.rs")), "mpqs: size limit")
    mpqs_max_bits = int(m.group(1))
    # which size each driver passes to its parameter functions (original n or n * multiplier)
    sq = rx.strip_comments(src("src/siqs.rs"))
    m = must(r"let \(norig, n\) = \(n, n \* Uint::from\(k\)\);\s*if n\.bits\(\) > (\d+) \{\s*if prefs\.verbose\(Verbosity::Info\) \{\s*eprintln!\(\"Number \{n\} too large for quadratic sieve!\"\);\s*\}\s*"
             r"return Ok\(vec!\[\]\);\s*\}\s*let use_double = prefs\.use_double\.unwrap_or\(n\.bits\(\) > 256\);", sq,
             "siqs: size limit, parameters are taken from n * k")
    siqs_max_bits = int(m.group(1))
    # select_a: bit mask over the primes selected by select_siqs_factors (4 * nfacs of them)
    m = must(r"let mut mask = 0u(\d+);", sq, "select_a: mask type")
    select_a_mask_bits = int(m.group(1))
    m = must(r"max\(pool\.len\(\), (\d+) \* nfacs\) - \1 \* nfacs\.\.pool\.len\(\)\s*\} else \{\s*let imin = max\(idx, 2 \* nfacs\) - 2 \* nfacs;\s*imin\.\.imin \+ \1 \* nfacs",
             sq, "select_siqs_factors: 4 * nfacs primes selected")
    select_per_nfac = int(m.group(1))
    must(r"if mask & \(1 << g\) == 0 \{\s*mask \|= 1 << g;", sq, "select_a: mask indexed by the selected primes")
    must(r"let mlog = usize::BITS - usize::leading_zeros\(s\.interval_size\);\s*assert!\(a\.a\.bits\(\) \+ 2 \* mlog < 255\);\s*"
         r"assert!\(pol\.b\.bits\(\) \+ mlog < 255\);\s*assert!\(pol\.c\.abs\(\)\.bits\(\) < 255\);", sq,
         "siqs _finish_polynomial: 256-bit assertions")
    must(r"let mut amin = f\.target - f\.target / div as u64;\s*let mut amax = f\.target \+ f\.target / div as u64;", sq,
         "select_a: A within target/div of the target")
    must(r"let target = max\(\s*Uint::from\(2000u64\),", sq, "select_siqs_factors: target >= 2000")
    must(r"unwrap_or\(params::mpqs_fb_size\(norig\.bits\(\), use_double\)\)", rx.strip_comments(src("src/mpqs.rs")),
         "mpqs: fb size from the original n")
    must(r"unwrap_or\(params::qs_fb_size\(norig\.bits\(\), use_double\)\)", rx.strip_comments(src("src/qsieve.rs")),
         "qsieve: fb size from the original n")
    m = must(r"if p >= 1 << (\d+) \{\s*return None;\s*\}\s*let div = arith::Dividers::new\(p\);", fbs,
             "prepare_factor_base: 24-bit filter before Dividers::new")
    fb_prime_bits = int(m.group(1))
    # polyring
    ap = rx.strip_comments(src("src/arith_poly.rs"))
    must(r"if size >= FFT_THRESHOLD \{\s*let logsize = usize::BITS - usize::leading_zeros\(size - 1\);\s*"
         r"let mzp = MultiZmodP::new\(zn, logsize \+ 1\);", ap, "PolyRing::new")
    fftsrc = rx.strip_comments(src("src/arith_fft.rs"))
    m = must(r"assert!\(l <= (\d+) \* N\);", fftsrc, "mulfft: assert l <= 256 * N")
    fft_roots_per_word = int(m.group(1))
    m = must(r"let mut ω = NTT_PRIMES\[i\]\.1 as u128;\s*for _ in logsize\.\.(\d+) \{\s*ω = \(ω \* ω\) % \(pi as u128\);", fftsrc,
             "MultiZmodP::new: root of order 2^logsize from an element of order 2^32")
    ntt_root_log = int(m.group(1))
    must(r"arith_montgomery::mg_mul\(p, p - 2, x, y\)", fftsrc, "mg_mul64 uses p - 2 as -1/p mod 2^64")
    must(r"assert!\(mzp\.k >= logsize\);", fftsrc, "convolve_modn_ntt: assert mzp.k >= logsize")
    ntt = const_table(src("src/arith_fft.rs"), "NTT_PRIMES", 2)
    must(r"debug_assert!\(x\.len\(\) < 3 \* MINT_WORDS\);", rx.strip_comments(src("src/arith_montgomery.rs")),
         "redc_large: debug_assert x.len() < 3 * MINT_WORDS")
    must(r"assert!\(n\.bits\(\) <= 64 \* MINT_WORDS as u32\);", rx.strip_comments(src("src/arith_montgomery.rs")),
         "ZmodN::new: assert n.bits() <= 64 * MINT_WORDS")

    tables = {}
    for nm in ("QS_FBSIZES", "MPQS_FBSIZES", "CLASSGROUP_FBSIZES"):
        ty, _ = find_const(src("src/params.rs"), nm)
        if norm(ty) != "&[(u32, u32, u32)]":
            raise ExtractError(f"{nm}: unexpected type {ty}")
        tables[nm] = const_table(src("src/params.rs"), nm, 3)

    synth, conv_max_bits, fsizes = synth_functions(report)

    lines = ["import Ymq.Model.Checked", "", "namespace Ymq.Gen.Params", "open Ymq.Checked", ""]

    def const(nm, v, doc):
        lines.append(f"/-- {doc} -/\ndef {nm} : Nat := {v}\n")
    const("BLOCK_SIZE", block_size, "`sieve::BLOCK_SIZE`")
    const("MINT_WORDS", mint_words, "`arith_montgomery::MINT_WORDS`; `ZmodN::new` asserts `n.bits() ≤ 64 * MINT_WORDS`")
    const("FFT_THRESHOLD", fft_threshold, "`arith_poly::FFT_THRESHOLD`: `PolyRing::new(zn, size)` has an NTT context iff `size ≥` this")
    const("MAX_MULTIPLIER", max_multiplier, "`fbase::MAX_MULTIPLIER`")
    const("IDX_BY_LOG_LEN", idx_by_log_len, "length of `FBase::idx_by_log` (`24 + 2`): `FBase::new` writes index `bitlen p`, "
          "`Sieve::new` reads index `bitlen(maxprime) + 1`")
    const("FB_PRIME_BITS", fb_prime_bits, "`prepare_factor_base` drops every prime `p >= 1 << 24` before `Dividers::new(p)`: "
          "all factor base primes (and `FBase::bound()`) are below 2^24")
    const("DIVIDERS_MAX_BITS", dividers_bits, "`Dividers::new(p)` asserts `p >> 30 == 0`")
    const("LIB_MAX_BITS", lib_max_bits, "`factor()` refuses `n.bits() >` this (`64 * MINT_WORDS - 12`)")
    const("SIQS_MAX_BITS", siqs_max_bits, "`siqs::siqs` refuses `(n * k).bits() >` this")
    const("SELECT_A_MASK_BITS", select_a_mask_bits, "`siqs::select_a` tracks the selected primes in a mask of this many bits")
    const("SELECT_PER_NFAC", select_per_nfac, "`select_siqs_factors` selects `4 * nfacs` primes")
    const("MPQS_MAX_BITS", mpqs_max_bits, "`mpqs::mpqs` refuses `(n * k).bits() >` this")
    const("QS_MAX_BITS", qs_max_bits, "`qsieve::qsieve` refuses `n.bits() >` this")
    const("CONVOLVE_MAX_BITS", conv_max_bits, "`convolve_modn` asserts `zn.n.bits() ≤` this after the dispatch")
    const("FFT_ROOTS_PER_WORD", fft_roots_per_word, "`mulfft::<N>` asserts `l ≤ 256 * N` (ω = √2 has order 256·N modulo 2^(64N)+1)")
    const("NTT_ROOT_LOG", ntt_root_log, "`MultiZmodP::new` squares the listed element `32 - logsize` times: it must have order 2^32")
    const("UINT_BITS", uint_bits, "`Uint::BITS`")
    lines.append("/-- `arith_fft::NTT_PRIMES`: (p, element of order 2^32) -/")
    lines.append(f"def NTT_PRIMES : List (Nat × Nat) := {lean_rows(ntt)}\n")
    lines.append("def NTT_PRIME_VALUES : List Nat := NTT_PRIMES.map (·.1)\n")
    lines.append(f"def NTT_PRIMES_LEN : Nat := {len(ntt)}\n")
    lines.append("/-- `convolve_modn`: FFT word size in bits -> const parameter `N` of `_convolve_modn::<N>` -/")
    lines.append(f"def CONVOLVE_FSIZE_N : List (Nat × Nat) := {lean_rows(fsizes)}\n")
    for nm, rows in tables.items():
        lines.append(f"/-- `params::{nm}`: (bit size, factor base without / with double large primes) -/")
        lines.append(f"def params.{nm} : List (Nat × Nat × Nat) := {lean_rows(rows)}\n")
    lines.append("def fbTables : List (List (Nat × Nat × Nat)) := [params.QS_FBSIZES, params.MPQS_FBSIZES, params.CLASSGROUP_FBSIZES]\n")

    consts = {
        "BLOCK_SIZE": ("BLOCK_SIZE", "usize"),
        "QS_FBSIZES": ("params.QS_FBSIZES", T3),
        "MPQS_FBSIZES": ("params.MPQS_FBSIZES", T3),
        "CLASSGROUP_FBSIZES": ("params.CLASSGROUP_FBSIZES", T3),
        "NTT_PRIME_VALUES": ("NTT_PRIME_VALUES", ("slice", "u64")),
        "NTT_PRIMES_LEN": ("NTT_PRIMES_LEN", "usize"),
    }
    registry = {}       # module -> {fn: (lean, ptys, rty)}
    entries = []        # (op name, lean name, ptys, rty)
    ops_used = set()

    def translate(mod, fname, text, uints, note, origin):
        f = parse_fn_text(text)
        em = Emitter(funcs=dict(registry.get("params", {}), **registry.get(mod, {})), consts=consts)
        lean_name = f"{mod}.{fname}"
        doc = f"`{mod}::{fname}` ({origin})" + (f"; {note}" if note else "")
        code, ptys, rty = em.function(f, lean_name, uint_params=uints, doc=doc)
        ops_used.update(em.ops_used)
        registry.setdefault(mod, {})[fname] = (lean_name, ptys, rty)
        entries.append((f"{mod}::{fname}", lean_name, ptys, rty))
        lines.append(code)
        report.append(f"  {mod}::{fname}({', '.join(str(p) if not isinstance(p, tuple) else 'table' for p in ptys)}) -> {rty if not isinstance(rty, tuple) else 'tuple'}")

    report.append("Params.lean functions:")
    for mod, path, fname, uints, rules, note in FUNCTIONS:
        text = find_fn(src(path), fname)
        if rules:
            text = rewrite(text, rules, f"{mod}::{fname}")
        translate(mod, fname, text, uints, note, path)
    for mod, fname, text, uints, note in synth:
        translate(mod, fname, text, uints, note, "assembled from statements, see translate/params.py")

    # ---- driver entry point
    lines.append("/-- driver entry: `fn` applied to numeric arguments (booleans: 0/1; a table argument is an index into\n"
                 "`fbTables`); `none` = unknown function, `some none` = the model panics. -/")
    lines.append("def evalParam (fn : String) (a : List Nat) : Option (Option (List Nat)) :=\n  match fn, a with")
    for op, lean_name, ptys, rty in entries:
        xs = [f"x{i}" for i in range(len(ptys))]
        args = []
        guard = []
        for x, pt in zip(xs, ptys):
            if pt == "bool":
                args.append(f"({x} != 0)")
            elif isinstance(pt, tuple) and pt[0] == "slice":
                args.append(f"(fbTables.getD {x} [])")
            else:
                args.append(x)
        if isinstance(rty, tuple) and rty[0] == "tuple":
            n = len(rty[1])
            res = "[" + ", ".join(rx.proj("r", i, n) for i in range(n)) + "]"
        else:
            res = "[r]"
        lines.append(f"  | \"{op}\", [{', '.join(xs)}] => some (({' '.join([lean_name] + args)}).map fun r => {res})")
    lines.append("  | _, _ => none\n")
    lines.append("end Ymq.Gen.Params\n")
    write_gen("Params", "\n".join(lines),
              ["src/params.rs", "src/siqs.rs", "src/mpqs.rs", "src/qsieve.rs", "src/classgroup.rs", "src/fbase.rs",
               "src/arith.rs", "src/arith_fft.rs", "src/arith_poly.rs", "src/arith_montgomery.rs", "src/sieve.rs"])
    report.append(f"constants: BLOCK_SIZE={block_size} MINT_WORDS={mint_words} FFT_THRESHOLD={fft_threshold} "
                  f"MAX_MULTIPLIER={max_multiplier} IDX_BY_LOG_LEN={idx_by_log_len} DIVIDERS_MAX_BITS={dividers_bits} "
                  f"QS_MAX_BITS={qs_max_bits} CONVOLVE_MAX_BITS={conv_max_bits} NTT_PRIMES={len(ntt)}")
    report.append("tables: " + ", ".join(f"{k} {len(v)} rows" for k, v in tables.items()))
    report.append("checked operations used: " + ", ".join(sorted(ops_used)))
    return len(entries)


def run():
    report = []
    ub = gen_stage2(report)
    n = gen_params(report, ub)
    print("\n".join(report))
    return f"{n} functions translated"


if __name__ == "__main__":
    main(run)
