/-
Driver ops of property C10 (same request lines as harness/src/ops_polyfft.rs).
* `pf_*` public entry points are answered by the schoolbook specification (Ymq/Model/PolySpec.lean);
* `pf_kron`, `pf_kron_raw` by the Kronecker mechanism model over the exact cyclic product;
* `fint_*` by the word-exact `FInt` model; `mzp_*` by the model of `MultiZmodP`.
-/
import Ymq.Drv.Util
import Ymq.Model.PolySpec
import Ymq.Model.FInt
import Ymq.Model.Kronecker
import Ymq.Model.Crt
import Ymq.Model.Ntt
import Ymq.Model.PolyMul
import Ymq.Model.PolySeries
import Ymq.Model.PolyTree

namespace Ymq.Drv
open Ymq.PolySpec

/-- operand: explicit list, `-`, or `g:<len>:<seed>:<kind>` -/
def parsePoly (n : Nat) (s : String) : Option (Array Nat) :=
  if s = "-" then some #[]
  else if s.startsWith "g:" then
    match s.splitOn ":" with
    | [_, len, seed, kind] => do
      let len ← parseNat len
      let seed ← parseNat seed
      (Array.range len).mapM fun i => genCoef n seed i kind
    | _ => none
  else (parseNatList s).map List.toArray

def showArr (a : Array Nat) : String := showList a.toList

def showSel (n : Nat) (a : Array Nat) : List String → Option String
  | [] => some (showArr a)
  | [idx] => do
    let ix ← parseNatList idx
    some (showList (ix.map fun i => coef a i))
  | [idx, x] => do
    -- checksum over every entry: Σ a[i]·x^i mod n
    let ix ← parseNatList idx
    let x ← parseNat x
    some (showList (ix.map fun i => coef a i) ++ s!" chk={eval n a x}")
  | _ => none

def showOptList : Option (List Nat) → String
  | none => "panic"
  | some a => showList a

def showOptArr : Option (Array Nat) → String
  | none => "panic"
  | some a => showArr a

/-! FInt encoding: the `N` words followed by the top word -/

def parseFI (N : Nat) (s : String) : Option Ymq.FInt.FI := do
  let l ← parseNatList s
  if l.length ≠ N + 1 then none
  else if l.any (· ≥ Ymq.Limbs.W) then none
  else some ⟨l.take N, l.getD N 0⟩

def showFI (x : Ymq.FInt.FI) : String := showList (x.ws ++ [x.top])

def showOptFI : Option Ymq.FInt.FI → String
  | none => "panic"
  | some x => showFI x

def parseFIs (N : Nat) (s : String) : Option (List Ymq.FInt.FI) :=
  if s = "-" then some [] else (s.splitOn "/").mapM (parseFI N)

def showFIs (l : List Ymq.FInt.FI) : String :=
  if l.isEmpty then "-" else "/".intercalate (l.map showFI)

def handleFInt (N : Nat) : List String → Option String
  | ["fint_reduce", x] => do let x ← parseFI N x; some (showOptFI (Ymq.FInt.reduce x))
  | ["fint_add", x, y] => do
    let x ← parseFI N x; let y ← parseFI N y; some (showOptFI (Ymq.FInt.add x y))
  | ["fint_sub", x, y] => do
    let x ← parseFI N x; let y ← parseFI N y; some (showOptFI (Ymq.FInt.sub x y))
  | ["fint_mul", x, y] => do
    let x ← parseFI N x; let y ← parseFI N y; some (showOptFI (Ymq.FInt.mul x y))
  | ["fint_add_assign", x, y] => do
    let x ← parseFI N x; let y ← parseFI N y; some (showOptFI (Ymq.FInt.addAssign x y))
  | ["fint_sub_assign", x, y] => do
    let x ← parseFI N x; let y ← parseFI N y; some (showOptFI (Ymq.FInt.subAssign x y))
  | ["fint_add_small", x, y] => do
    let x ← parseFI N x; let y ← parseNat y; some (showOptFI (Ymq.FInt.addSmall x y))
  | ["fint_shl", x, s] => do
    let x ← parseFI N x; let s ← parseNat s; some (showOptFI (Ymq.FInt.shl x s))
  | ["fint_shr", x, s] => do
    let x ← parseFI N x; let s ← parseNat s; some (showOptFI (Ymq.FInt.shr x s))
  | ["fint_twiddle", x, i, k] => do
    let x ← parseFI N x; let i ← parseNat i; let k ← parseNat k
    some (showOptFI (Ymq.FInt.twiddle x i k))
  | ["fint_butterfly", x, y] => do
    let x ← parseFI N x; let y ← parseFI N y
    some (match Ymq.FInt.butterfly x y with
      | none => "panic"
      | some (a, b) => showFI a ++ " " ++ showFI b)
  | ["fint_fft", k, fwd, src] => do
    let k ← parseNat k
    let src ← parseFIs N src
    let fwd := fwd = "true" || fwd = "1"
    some (match Ymq.FInt.fft k src 0 fwd with
      | none => "panic"
      | some l => showFIs l)
  | ["fint_mulfft", x, y] => do
    let x ← parseFIs N x; let y ← parseFIs N y
    some (match Ymq.FInt.mulfft N x y with
      | none => "panic"
      | some l => showFIs l)
  | _ => none

/-- Montgomery context of a modulus: (words, R mod n, R⁻¹ mod n) -/
def mont (n : Nat) : Option (Nat × Nat × Nat) :=
  let k := (Ymq.Checked.bitlen n + 63) / 64
  let r := Ymq.Kronecker.W ^ k % n
  (invMod r n).map fun ri => (k, r, ri)

def toMont (n r : Nat) (p : Array Nat) : Array Nat := p.map fun c => c * r % n
def ofMont (n ri : Nat) (p : Array Nat) : Array Nat := p.map fun c => c * ri % n

def showMzp (m : Ymq.Crt.Mzp) : String :=
  let rp := ",".intercalate (m.rpowers.map fun l => ":".intercalate (l.map toString))
  s!"{m.w} {m.k} {m.plen} {showList m.primes} {showList m.crtPinv} {m.pprod} {showList m.crtP} " ++
  s!"{showList m.crtPModn} {showList m.pprodsModn} {rp}"

/-- the flat word vector of the code as elements of `w` residues -/
def chunkW (w : Nat) : Nat → List Nat → List (List Nat)
  | 0, _ => []
  | _ + 1, [] => []
  | f + 1, l => l.take w :: chunkW w f (l.drop w)

/-- `convolve_modn_ntt` through the word-level model (root tables, `from_mint`, `ntt_inplace`, `_crt`)
up to this size; beyond it the driver answers with the specification model -/
def NTT_MODEL_MAX : Nat := 4096

def handlePolyFft : Handler
  | "pf_convolve" :: n :: size :: offset :: reslen :: p :: q :: rest => do
    let n ← parseNat n; let size ← parseNat size; let offset ← parseNat offset
    let reslen ← parseNat reslen
    let p ← parsePoly n p; let q ← parsePoly n q
    showSel n (convolve n size offset reslen p q) rest
  | "pf_convolve_ntt" :: n :: logk :: size :: offset :: reslen :: p :: q :: rest => do
    let n ← parseNat n; let size ← parseNat size; let offset ← parseNat offset
    let reslen ← parseNat reslen; let logk ← parseNat logk
    let p ← parsePoly n p; let q ← parsePoly n q
    if size ≤ NTT_MODEL_MAX ∧ logk ≤ 15 ∧ 0 < size then
      -- mechanism model on the Montgomery residues held in the MInts
      let (_, r, ri) ← mont n
      match Ymq.Crt.new n logk with
      | none => some "panic"
      | some m =>
        match Ymq.Crt.rootsPacked m with
        | none => some "panic"
        | some rts =>
          let words (a : Array Nat) : List (List Nat) := (toMont n r a).toList.map (Ymq.Limbs.ofNat 8)
          match Ymq.Crt.convolveNtt m rts ri size (words p) (words q) reslen offset with
          | none => some "panic"
          | some res => showSel n (ofMont n ri res.toArray) rest
    else showSel n (convolve n size offset reslen p q) rest
  | ["pf_kron", n, size, offset, reslen, p, q] => do
    let n ← parseNat n; let size ← parseNat size; let offset ← parseNat offset
    let reslen ← parseNat reslen
    let p ← parsePoly n p; let q ← parsePoly n q
    let (k, r, ri) ← mont n
    some (showOptArr ((Ymq.Kronecker.convolve true Ymq.Kronecker.cycFft n k ri (Ymq.Checked.bitlen n)
      size (toMont n r p) (toMont n r q) reslen offset).map (ofMont n ri)))
  | ["pf_kron_raw", nn, logpack, stride, n, size, offset, reslen, p, q] => do
    let nn ← parseNat nn; let logpack ← parseNat logpack; let stride ← parseNat stride
    let n ← parseNat n; let size ← parseNat size; let offset ← parseNat offset
    let reslen ← parseNat reslen
    let p ← parsePoly n p; let q ← parsePoly n q
    let (k, r, ri) ← mont n
    some (showOptArr ((Ymq.Kronecker.convolveModn true (Ymq.Kronecker.cycFft nn) n k ri nn
      size logpack stride (toMont n r p) (toMont n r q) reslen offset).map (ofMont n ri)))
  | ["pf_from_roots", n, ringsize, roots] => do
    let n ← parseNat n; let ringsize ← parseNat ringsize; let roots ← parsePoly n roots
    some (showOptList (Ymq.PolyMul.fromRoots (Ymq.PolyMul.Ctx.new ringsize) (Ymq.PolyMul.natOps n) roots.toList))
  | ["pf_roots_eval", n, a, b] => do
    let n ← parseNat n; let a ← parsePoly n a; let b ← parsePoly n b
    some (showOptList (Ymq.PolyMul.rootsEval (Ymq.PolyMul.natOps n) a.toList b.toList))
  | ["pf_multi_eval", n, ringsize, p, pts] => do
    let n ← parseNat n; let ringsize ← parseNat ringsize; let p ← parsePoly n p; let pts ← parsePoly n pts
    some (showOptList (Ymq.PolyMul.multiEval (Ymq.PolyMul.Ctx.new ringsize) (Ymq.PolyMul.natOps n)
      p.toList pts.toList))
  | ["pf_eval", n, p, x] => do
    let n ← parseNat n; let p ← parsePoly n p; let x ← parseNat x
    some (toString (eval n p x))
  | ["pf_mul_karatsuba", n, p, q] => do
    -- mechanism model (Ymq/Model/PolyMul.lean); its equality with the schoolbook product is a theorem
    let n ← parseNat n; let p ← parsePoly n p; let q ← parsePoly n q
    some (showOptList (Ymq.PolyMul.mulKaratsuba (Ymq.PolyMul.natOps n) p.toList q.toList))
  | ["pf_karatsuba_raw", n, zlen, tmplen, p, q] => do
    -- Poly::karatsuba on zero-filled buffers of the given lengths (hook)
    let n ← parseNat n; let zlen ← parseNat zlen; let tmplen ← parseNat tmplen
    let p ← parsePoly n p; let q ← parsePoly n q
    some (showOptList ((Ymq.PolyMul.karatsuba (Ymq.PolyMul.natOps n) Ymq.PolyMul.FUEL (List.replicate zlen 0)
      p.toList q.toList (List.replicate tmplen 0)).map (·.1)))
  | ["pf_mul_basic", n, p, q] => do
    let n ← parseNat n; let p ← parsePoly n p; let q ← parsePoly n q
    some (showOptList (Ymq.PolyMul.basicMul (Ymq.PolyMul.natOps n) (List.replicate (2 * p.size) 0) p.toList q.toList))
  | ["pf_mul_fft", n, ringsize, p, q] => do
    -- mechanism model (Ymq/Model/PolySeries.lean, `mulFft`); its NTT step is refined by the word-level model
    let n ← parseNat n; let ringsize ← parseNat ringsize; let p ← parsePoly n p; let q ← parsePoly n q
    some (showOptList (Ymq.PolyMul.mulFft (Ymq.PolyMul.Ctx.new ringsize) (Ymq.PolyMul.natOps n) p.toList q.toList))
  | ["pf_longmul", n, ringsize, p, q] => do
    let n ← parseNat n; let ringsize ← parseNat ringsize; let p ← parsePoly n p; let q ← parsePoly n q
    some (showOptList (Ymq.PolyMul.longmul (Ymq.PolyMul.Ctx.new ringsize) (Ymq.PolyMul.natOps n)
      (p.size + q.size) (6 * max p.size q.size + 6) p.toList q.toList))
  | ["pf_middlemul", n, ringsize, p, q] => do
    let n ← parseNat n; let ringsize ← parseNat ringsize; let p ← parsePoly n p; let q ← parsePoly n q
    some (showOptList (Ymq.PolyMul.middlemulPub (Ymq.PolyMul.Ctx.new ringsize) (Ymq.PolyMul.natOps n)
      p.toList q.toList))
  | ["pf_div_mod_xn", n, ringsize, p, q] => do
    let n ← parseNat n; let ringsize ← parseNat ringsize; let p ← parsePoly n p; let q ← parsePoly n q
    some (showOptList (Ymq.PolyMul.divModXnPub (Ymq.PolyMul.Ctx.new ringsize) (Ymq.PolyMul.natOps n)
      p.toList q.toList))
  | ["pf_inv_mod_xn", n, ringsize, p] => do
    let n ← parseNat n; let ringsize ← parseNat ringsize; let p ← parsePoly n p
    some (showOptList (Ymq.PolyMul.invModXn (Ymq.PolyMul.Ctx.new ringsize) (Ymq.PolyMul.natOps n)
      Ymq.PolyMul.FUEL p.toList (6 * p.size)))
  -- `pfm_*` twins: the same models run with the Montgomery operations `montOps` on the raw integers held by
  -- the `MInt`s (what the theorems `*_mont`, `mont_ops_hom`, `fft_*_refines` are about)
  | ["pfm_mul_karatsuba", n, p, q] => do
    let n ← parseNat n; let p ← parseNatList p; let q ← parseNatList q; let (k, _, ri) ← mont n
    some (showOptList (Ymq.PolyMul.mulKaratsuba (Ymq.PolyMul.montOps n k ri) p q))
  | ["pfm_mul_fft", n, ringsize, p, q] => do
    let n ← parseNat n; let ringsize ← parseNat ringsize; let p ← parseNatList p; let q ← parseNatList q
    let (k, _, ri) ← mont n
    some (showOptList (Ymq.PolyMul.mulFft (Ymq.PolyMul.Ctx.new ringsize) (Ymq.PolyMul.montOps n k ri) p q))
  | ["pfm_longmul", n, ringsize, p, q] => do
    let n ← parseNat n; let ringsize ← parseNat ringsize; let p ← parseNatList p; let q ← parseNatList q
    let (k, _, ri) ← mont n
    some (showOptList (Ymq.PolyMul.longmul (Ymq.PolyMul.Ctx.new ringsize) (Ymq.PolyMul.montOps n k ri)
      (p.length + q.length) (6 * max p.length q.length + 6) p q))
  | ["pfm_middlemul", n, ringsize, p, q] => do
    let n ← parseNat n; let ringsize ← parseNat ringsize; let p ← parseNatList p; let q ← parseNatList q
    let (k, _, ri) ← mont n
    some (showOptList (Ymq.PolyMul.middlemulPub (Ymq.PolyMul.Ctx.new ringsize) (Ymq.PolyMul.montOps n k ri) p q))
  | ["pfm_div_mod_xn", n, ringsize, p, q] => do
    let n ← parseNat n; let ringsize ← parseNat ringsize; let p ← parseNatList p; let q ← parseNatList q
    let (k, _, ri) ← mont n
    some (showOptList (Ymq.PolyMul.divModXnPub (Ymq.PolyMul.Ctx.new ringsize) (Ymq.PolyMul.montOps n k ri) p q))
  | ["pfm_inv_mod_xn", n, ringsize, p] => do
    let n ← parseNat n; let ringsize ← parseNat ringsize; let p ← parseNatList p; let (k, _, ri) ← mont n
    some (showOptList (Ymq.PolyMul.invModXn (Ymq.PolyMul.Ctx.new ringsize) (Ymq.PolyMul.montOps n k ri)
      Ymq.PolyMul.FUEL p (6 * p.length)))
  | ["pfm_from_roots", n, ringsize, roots] => do
    let n ← parseNat n; let ringsize ← parseNat ringsize; let roots ← parseNatList roots; let (k, _, ri) ← mont n
    some (showOptList (Ymq.PolyMul.fromRoots (Ymq.PolyMul.Ctx.new ringsize) (Ymq.PolyMul.montOps n k ri) roots))
  | ["pfm_roots_eval", n, a, b] => do
    let n ← parseNat n; let a ← parseNatList a; let b ← parseNatList b; let (k, _, ri) ← mont n
    some (showOptList (Ymq.PolyMul.rootsEval (Ymq.PolyMul.montOps n k ri) a b))
  | ["pfm_multi_eval", n, ringsize, p, pts] => do
    let n ← parseNat n; let ringsize ← parseNat ringsize; let p ← parseNatList p; let pts ← parseNatList pts
    let (k, _, ri) ← mont n
    some (showOptList (Ymq.PolyMul.multiEval (Ymq.PolyMul.Ctx.new ringsize) (Ymq.PolyMul.montOps n k ri) p pts))
  | ["mzp_new", n, logk] => do
    let n ← parseNat n; let logk ← parseNat logk
    some (match Ymq.Crt.new n logk with
      | none => "panic"
      | some m => showMzp m)
  | ["mzp_from_mint", n, logk, x] => do
    let n ← parseNat n; let logk ← parseNat logk; let x ← parseNat x
    some (match Ymq.Crt.new n logk with
      | none => "panic"
      | some m =>
        match Ymq.Crt.fromMint m (Ymq.Limbs.ofNat 8 x) with
        | none => "panic"
        | some l => showList l)
  | ["mzp_crt", n, logk, xs] => do
    let n ← parseNat n; let logk ← parseNat logk; let xs ← parseNatList xs
    some (match Ymq.Crt.new n logk with
      | none => "panic"
      | some m =>
        match Ymq.Crt.crt m xs with
        | none => "panic"
        | some l => showList l)
  | ["mzp_redc", n, logk, xs] => do
    let n ← parseNat n; let logk ← parseNat logk; let xs ← parseNatList xs
    let (_, _, ri) ← mont n
    some (match Ymq.Crt.new n logk with
      | none => "panic"
      | some m =>
        match Ymq.Crt.redc m ri xs with
        | none => "panic"
        | some v => toString v)
  | ["mzp_roots", n, logk, log] => do
    let n ← parseNat n; let logk ← parseNat logk; let log ← parseNat log
    some (match Ymq.Crt.new n logk with
      | none => "panic"
      | some m =>
        match Ymq.Crt.rootsPacked m with
        | none => "panic"
        | some rts =>
          match rts[log]? with
          | none => "panic"
          | some l => showList l.flatten)
  | ["mzp_ntt", n, logk, k, fwd, v] => do
    let n ← parseNat n; let logk ← parseNat logk; let k ← parseNat k; let v ← parseNatList v
    let fwd := fwd = "true" || fwd = "1"
    some (match Ymq.Crt.new n logk with
      | none => "panic"
      | some m =>
        match Ymq.Crt.rootsPacked m with
        | none => "panic"
        | some rts =>
          match Ymq.Crt.nttInplace m rts k (chunkW m.w v.length v) 0 fwd with
          | none => "panic"
          | some l => showList l.flatten)
  | op :: nn :: rest =>
    if op.startsWith "fint_" then do
      let nn ← parseNat nn
      handleFInt nn (op :: rest)
    else none
  | _ => none

end Ymq.Drv
