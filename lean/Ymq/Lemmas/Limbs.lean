/-
Lemmas of the shared limb library (Ymq/Model/Limbs.lean): the value of a little-endian word
list and the exact arithmetic meaning of the carry rows. Everything is stated with `val`
so that a word-level routine is proved by (1) rewriting each row with its `_spec` equation and
(2) a `Nat` argument about the values.

Main statements
* `val_append`, `val_lt`, `val_ofNat`, `ofNat_val`, `ofNat_take`, `ofNat_drop`, `val_tail`, `headD_mod`
* `addc_spec`   : `val lo + W^len·carry = val xs + val ys + c`
* `compl_val`   : `val (compl l) + val l + 1 = W^len`   (so `subc` computes `x - y + W^len`)
* `macRow_spec` : `val lo + W^len·carry = a·val ys + val zs + c`
* `addWord_spec`: rippling a carry word adds it to the value; it succeeds iff the sum fits
* `ltWords_spec`: the top-down word comparison decides `val xs < val ns`
-/
import Ymq.Model.Limbs
import Mathlib.Tactic.Ring
import Mathlib.Tactic.Linarith

namespace Ymq.Limbs

theorem W_pos : 0 < W := by decide

@[simp] theorem val_nil : val [] = 0 := rfl
@[simp] theorem val_cons (a : Nat) (l : List Nat) : val (a :: l) = a + W * val l := rfl

theorem val_append (a b : List Nat) : val (a ++ b) = val a + W ^ a.length * val b := by
  induction a with
  | nil => simp
  | cons x xs ih => simp [ih, pow_succ]; ring

theorem Wf_nil : Wf [] := by intro a h; cases h
theorem Wf_cons {a : Nat} {l : List Nat} : Wf (a :: l) ↔ a < W ∧ Wf l := by
  unfold Wf; simp

theorem Wf_append {a b : List Nat} : Wf (a ++ b) ↔ Wf a ∧ Wf b := by
  unfold Wf; simp [or_imp, forall_and]

theorem Wf_take {l : List Nat} (h : Wf l) (k : Nat) : Wf (l.take k) :=
  fun a ha => h a (List.mem_of_mem_take ha)
theorem Wf_drop {l : List Nat} (h : Wf l) (k : Nat) : Wf (l.drop k) :=
  fun a ha => h a (List.mem_of_mem_drop ha)
theorem Wf_tail {l : List Nat} (h : Wf l) : Wf l.tail :=
  fun a ha => h a (List.mem_of_mem_tail ha)

theorem val_lt {l : List Nat} (h : Wf l) : val l < W ^ l.length := by
  induction l with
  | nil => simp
  | cons a l ih =>
    have ⟨ha, hl⟩ := Wf_cons.1 h
    have := ih hl
    simp only [val_cons, List.length_cons, pow_succ]
    nlinarith

theorem val_zeros (k : Nat) : val (zeros k) = 0 := by
  induction k with
  | zero => rfl
  | succ k ih => simp [zeros, List.replicate_succ] at *; exact Or.inr ih

theorem Wf_zeros (k : Nat) : Wf (zeros k) := by
  intro a ha; simp [zeros] at ha; rw [ha.2]; exact W_pos

@[simp] theorem zeros_length (k : Nat) : (zeros k).length = k := by simp [zeros]


/-! ### ofNat -/

@[simp] theorem ofNat_length (k x : Nat) : (ofNat k x).length = k := by
  induction k generalizing x with
  | zero => rfl
  | succ k ih => simp [ofNat, ih]

theorem ofNat_Wf (k x : Nat) : Wf (ofNat k x) := by
  induction k generalizing x with
  | zero => exact Wf_nil
  | succ k ih => exact Wf_cons.2 ⟨Nat.mod_lt _ W_pos, ih _⟩

theorem val_ofNat (k x : Nat) : val (ofNat k x) = x % W ^ k := by
  induction k generalizing x with
  | zero => simp [ofNat, Nat.mod_one]
  | succ k ih =>
    simp only [ofNat, val_cons, ih]
    rw [pow_succ, Nat.mul_comm (W ^ k) W, Nat.mod_mul]

theorem val_ofNat_of_lt {k x : Nat} (h : x < W ^ k) : val (ofNat k x) = x := by
  rw [val_ofNat, Nat.mod_eq_of_lt h]

theorem ofNat_take (m k x : Nat) (h : k ≤ m) : (ofNat m x).take k = ofNat k x := by
  induction k generalizing m x with
  | zero => simp [ofNat]
  | succ k ih =>
    cases m with
    | zero => omega
    | succ m => simp [ofNat, ih m (x / W) (by omega)]

theorem ofNat_val {l : List Nat} (h : Wf l) : ofNat l.length (val l) = l := by
  induction l with
  | nil => rfl
  | cons a l ih =>
    have ⟨ha, hl⟩ := Wf_cons.1 h
    simp only [List.length_cons, ofNat, val_cons]
    rw [Nat.add_mul_mod_self_left, Nat.mod_eq_of_lt ha, Nat.add_mul_div_left _ _ W_pos,
      Nat.div_eq_of_lt ha, Nat.zero_add, ih hl]

/-- drop of ofNat = ofNat of the quotient -/
theorem ofNat_drop (m k x : Nat) (h : k ≤ m) : (ofNat m x).drop k = ofNat (m - k) (x / W ^ k) := by
  induction k generalizing m x with
  | zero => simp
  | succ k ih =>
    cases m with
    | zero => omega
    | succ m =>
      simp only [ofNat, List.drop_succ_cons]
      rw [ih m (x / W) (by omega), Nat.div_div_eq_div_mul, pow_succ, Nat.mul_comm W]
      congr 1; omega

theorem headD_mod (l : List Nat) (h : Wf l) (hl : l ≠ []) : l.headD 0 = val l % W := by
  cases l with
  | nil => exact absurd rfl hl
  | cons a l =>
    have ⟨ha, _⟩ := Wf_cons.1 h
    simp [Nat.add_mul_mod_self_left, Nat.mod_eq_of_lt ha]

theorem val_tail (l : List Nat) (h : Wf l) : val l.tail = val l / W := by
  cases l with
  | nil => simp
  | cons a l =>
    have ⟨ha, _⟩ := Wf_cons.1 h
    simp [Nat.add_mul_div_left _ _ W_pos, Nat.div_eq_of_lt ha]

/-! ### rows -/

theorem addc_spec (xs ys : List Nat) (c : Nat) (h : xs.length = ys.length) :
    val (addc xs ys c).1 + W ^ xs.length * (addc xs ys c).2 = val xs + val ys + c ∧
    (addc xs ys c).1.length = xs.length ∧ Wf (addc xs ys c).1 := by
  induction xs generalizing ys c with
  | nil => cases ys with
    | nil => simp [addc, Wf_nil]
    | cons y ys => simp at h
  | cons x xs ih => cases ys with
    | nil => simp at h
    | cons y ys =>
      simp only [List.length_cons, Nat.add_right_cancel_iff] at h
      obtain ⟨h1, h2, h3⟩ := ih ys ((x + y + c) / W) h
      simp only [addc, val_cons, List.length_cons, h2, true_and]
      refine ⟨?_, Wf_cons.2 ⟨Nat.mod_lt _ W_pos, h3⟩⟩
      have := Nat.div_add_mod (x + y + c) W
      rw [pow_succ]
      nlinarith

theorem macRow_spec (a : Nat) (ys zs : List Nat) (c : Nat) (h : ys.length = zs.length) :
    val (macRow a ys zs c).1 + W ^ ys.length * (macRow a ys zs c).2 = a * val ys + val zs + c ∧
    (macRow a ys zs c).1.length = ys.length ∧ Wf (macRow a ys zs c).1 := by
  induction ys generalizing zs c with
  | nil => cases zs with
    | nil => simp [macRow, Wf_nil]
    | cons z zs => simp at h
  | cons y ys ih => cases zs with
    | nil => simp at h
    | cons z zs =>
      simp only [List.length_cons, Nat.add_right_cancel_iff] at h
      obtain ⟨h1, h2, h3⟩ := ih zs ((a * y + z + c) / W) h
      simp only [macRow, val_cons, List.length_cons, h2, true_and]
      refine ⟨?_, Wf_cons.2 ⟨Nat.mod_lt _ W_pos, h3⟩⟩
      have := Nat.div_add_mod (a * y + z + c) W
      rw [pow_succ]
      nlinarith

theorem compl_length (l : List Nat) : (compl l).length = l.length := by simp [compl]

theorem compl_val (l : List Nat) (h : Wf l) : val (compl l) + val l + 1 = W ^ l.length := by
  induction l with
  | nil => simp [compl]
  | cons a l ih =>
    have ⟨ha, hl⟩ := Wf_cons.1 h
    have := ih hl
    simp only [compl, List.map_cons, val_cons, List.length_cons, pow_succ] at *
    have e : W - 1 - a + a + 1 = W := by omega
    generalize W - 1 - a = t at *
    generalize val (List.map (fun y => W - 1 - y) l) = vc at *
    have e2 : W * (vc + val l + 1) = W * W ^ l.length := by rw [this]
    nlinarith

theorem compl_Wf (l : List Nat) : Wf (compl l) := by
  intro a ha
  simp only [compl, List.mem_map] at ha
  obtain ⟨y, _, rfl⟩ := ha
  have := W_pos
  omega


/-! ### carry ripple and comparison -/

theorem Wf_reverse {l : List Nat} : Wf l.reverse ↔ Wf l := by unfold Wf; simp

theorem addWord_zero (l : List Nat) : addWord l 0 = some l := by
  cases l <;> rfl

theorem addWord_spec (l : List Nat) (c : Nat) (h : Wf l) :
    (∀ r, addWord l c = some r → val r = val l + c ∧ r.length = l.length ∧ Wf r) ∧
    (val l + c < W ^ l.length → ∃ r, addWord l c = some r) := by
  induction l generalizing c with
  | nil =>
    cases c with
    | zero => simp [addWord, Wf_nil]
    | succ c => simp [addWord]
  | cons a as ih =>
    have ⟨ha, hl⟩ := Wf_cons.1 h
    cases c with
    | zero =>
      rw [addWord_zero]
      exact ⟨fun r hr => by cases hr; exact ⟨rfl, rfl, h⟩, fun _ => ⟨_, rfl⟩⟩
    | succ c =>
      obtain ⟨ih1, ih2⟩ := ih ((a + (c + 1)) / W) hl
      have hdm := Nat.div_add_mod (a + (c + 1)) W
      constructor
      · intro r hr
        simp only [addWord] at hr
        cases hq : addWord as ((a + (c + 1)) / W) with
        | none => rw [hq] at hr; cases hr
        | some r' =>
          rw [hq] at hr
          cases hr
          obtain ⟨e1, e2, e3⟩ := ih1 r' hq
          refine ⟨?_, by simp [e2], Wf_cons.2 ⟨Nat.mod_lt _ W_pos, e3⟩⟩
          simp only [val_cons, e1]
          nlinarith
      · intro hlt
        simp only [val_cons, List.length_cons, pow_succ] at hlt
        have : val as + (a + (c + 1)) / W < W ^ as.length := by
          have h2 : (a + (c + 1) + W * val as) / W < W ^ as.length :=
            Nat.div_lt_of_lt_mul (by linarith)
          rw [Nat.add_mul_div_left _ _ W_pos] at h2
          omega
        obtain ⟨r', hr'⟩ := ih2 this
        exact ⟨(a + (c + 1)) % W :: r', by simp only [addWord, hr']⟩

theorem ltBE_spec (xs ns : List Nat) (hlen : xs.length = ns.length) (hx : Wf xs) (hn : Wf ns) :
    ltBE xs ns = decide (val xs.reverse < val ns.reverse) := by
  induction xs generalizing ns with
  | nil => cases ns with
    | nil => simp [ltBE]
    | cons n ns => simp at hlen
  | cons x xs ih => cases ns with
    | nil => simp at hlen
    | cons n ns =>
      simp only [List.length_cons, Nat.add_right_cancel_iff] at hlen
      have ⟨_, hxs⟩ := Wf_cons.1 hx
      have ⟨_, hns⟩ := Wf_cons.1 hn
      have hA := val_lt (Wf_reverse.2 hxs)
      have hB := val_lt (Wf_reverse.2 hns)
      simp only [List.length_reverse] at hA hB
      simp only [ltBE, List.reverse_cons, val_append, val_cons, val_nil, List.length_reverse,
        Nat.mul_zero, Nat.add_zero]
      rw [← hlen] at hB ⊢
      have hih := ih ns hlen hxs hns
      clear ih
      generalize val xs.reverse = A at *
      generalize val ns.reverse = B at *
      generalize W ^ xs.length = P at *
      by_cases hxn : x = n
      · subst hxn
        simp only [if_true]
        rw [hih]
        simp
      · simp only [hxn, if_false]
        by_cases hlt : x < n
        · have : P * (x + 1) ≤ P * n := Nat.mul_le_mul_left _ hlt
          simp only [hlt, decide_true]
          symm; rw [decide_eq_true_iff]; nlinarith
        · have hgt : n < x := by omega
          have : P * (n + 1) ≤ P * x := Nat.mul_le_mul_left _ hgt
          simp only [hlt, decide_false]
          symm; rw [decide_eq_false_iff_not]; nlinarith

theorem ltWords_spec (xs ns : List Nat) (hlen : xs.length = ns.length) (hx : Wf xs) (hn : Wf ns) :
    ltWords xs ns = decide (val xs < val ns) := by
  unfold ltWords
  rw [ltBE_spec _ _ (by simp [hlen]) (Wf_reverse.2 hx) (Wf_reverse.2 hn)]
  simp

/-! ### take / drop / zero words -/

theorem val_take_drop (x : List Nat) (k : Nat) : val x = val (x.take k) + W ^ k * val (x.drop k) := by
  by_cases h : k ≤ x.length
  · conv_lhs => rw [← List.take_append_drop k x]
    rw [val_append, List.length_take, Nat.min_eq_left h]
  · simp [List.take_of_length_le (show x.length ≤ k by omega), List.drop_eq_nil_of_le (show x.length ≤ k by omega)]

theorem allZero_of_val_eq_zero (l : List Nat) (h : val l = 0) : allZero l = true := by
  induction l with
  | nil => rfl
  | cons a l ih =>
    simp only [val_cons] at h
    have ha : a = 0 := by omega
    have hl : val l = 0 := by
      have : W * val l = 0 := by omega
      rcases Nat.mul_eq_zero.1 this with h | h
      · exact absurd h (by decide)
      · exact h
    simp only [allZero, List.all_cons, ha, beq_self_eq_true, Bool.true_and]
    exact ih hl

theorem val_take_lt {x : List Nat} (h : Wf x) (k : Nat) : val (x.take k) < W ^ k := by
  have h1 := val_lt (Wf_take h k)
  have h2 : (x.take k).length ≤ k := by rw [List.length_take]; exact Nat.min_le_left _ _
  exact lt_of_lt_of_le h1 (Nat.pow_le_pow_right W_pos h2)

/-- if the value is below `W^k` the words from index `k` on are zero -/
theorem val_drop_eq_zero {x : List Nat} {k : Nat} (hv : val x < W ^ k) : val (x.drop k) = 0 := by
  have e := val_take_drop x k
  by_contra hne
  have : 1 ≤ val (x.drop k) := Nat.pos_of_ne_zero hne
  have : W ^ k * 1 ≤ W ^ k * val (x.drop k) := Nat.mul_le_mul_left _ this
  omega

theorem drop_cons_getD (x : List Nat) (k : Nat) (h : k < x.length) :
    x.drop k = x.getD k 0 :: x.drop (k + 1) := by
  rw [List.drop_eq_getElem_cons h]; simp [List.getD_eq_getElem?_getD, List.getElem?_eq_getElem h]

theorem ofNat_zero (m : Nat) : ofNat m 0 = zeros m := by
  induction m with
  | zero => rfl
  | succ m ih => simp [ofNat, ih, zeros, List.replicate_succ]

theorem allZero_zeros (m : Nat) : allZero (zeros m) = true := by
  simp [allZero, zeros]

end Ymq.Limbs
