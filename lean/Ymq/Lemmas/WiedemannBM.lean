/-
Berlekamp–Massey on a Krylov sequence: the returned vector divides the reversed characteristic
polynomial; it equals it when its degree is `n` (then `charpoly[size]` is `(-1)^n det M`), and
when its degree is smaller and `det M ≠ 0` the sequence has linear complexity below `n`.
-/
import Ymq.Lemmas.WiedemannAlg
import Ymq.Lemmas.BerlekampMasseyMinimal
import Ymq.Model.Wiedemann

namespace Ymq.Wied
open Polynomial Matrix Ymq.BM

variable {p : ℕ} {o : Ops} {κ : ZMod p} {n : ℕ}

/-- the run of the shared loop on a Krylov sequence of length `2n` with two non-zero terms -/
theorem wied_core [Fact p.Prime] (ok : OpsOK o p κ) (hn : 1 ≤ n)
    (M : Matrix (Fin n) (Fin n) (ZMod p)) (w : Matrix (Fin 1) (Fin n) (ZMod p))
    (v : Matrix (Fin n) (Fin 1) (ZMod p)) (seq : List ℕ) (hlen : seq.length = 2 * n)
    (hr : ∀ x ∈ seq, x < p)
    (hs : ∀ k, k < 2 * n → ((seq.getD k 0 : ℕ) : ZMod p) = krylovSeq M w v k)
    (h2 : TwoTerms seq) :
    ∃ out A, core o seq = some out ∧ out.length = 2 * n ∧ (∀ x ∈ out, x < p) ∧
      out.getD 0 0 = 1 ∧ (∀ j, n < j → out.getD j 0 = 0) ∧
      M.charpoly.reverse = toPoly p out * A ∧
      ∀ i, n ≤ i + A.natDegree → i < 2 * n → (toPoly p out * toPoly p seq).coeff i = 0 := by
  have hp : 0 < p := (Fact.out : p.Prime).pos
  have hred := red_of_mem hp seq hr
  obtain ⟨i, j, hij, hi, hj⟩ := h2
  have hS : ∀ k, k < 2 * n → (toPoly p seq).coeff k = krylovSeq M w v k := by
    intro k hk; rw [coeff_toPoly]; exact hs k hk
  have hT0 : M.charpoly.reverse.coeff 0 ≠ 0 := by
    rw [reverse_charpoly_coeff_zero]; exact one_ne_zero
  have hTa : ∀ i, n ≤ i → i < seq.length →
      (M.charpoly.reverse * toPoly p seq).coeff i = 0 := by
    intro i h1 h2; rw [hlen] at h2
    exact reverse_charpoly_annihilates M w v _ hS i h1 h2
  obtain ⟨out, e, hne⟩ := core_complete ok seq hred hij hi hj M.charpoly.reverse hT0
    (by rw [hlen]; have := reverse_charpoly_natDegree_le M; omega)
    (fun i h1 h2 => hTa i (by rw [hlen] at h1; omega) h2)
  obtain ⟨s1, s2, s3, _, _⟩ := core_sound_list ok seq hr out e hne
  obtain ⟨A, a1, a2, a3⟩ := core_minimal_dvd ok seq hred hij hi hj M.charpoly.reverse hT0 n
    (by rw [hlen]) (reverse_charpoly_natDegree_le M) hTa out e
  exact ⟨out, A, e, by rw [s1, hlen], s2, s3, a2, a1,
    fun i h1 h2 => a3 i h1 (by rw [hlen]; exact h2)⟩

/-- full complexity: the returned vector is the reversed characteristic polynomial -/
theorem wied_full [Fact p.Prime] (M : Matrix (Fin n) (Fin n) (ZMod p)) (out : List ℕ)
    (A : (ZMod p)[X]) (h0 : out.getD 0 0 = 1)
    (hA : M.charpoly.reverse = toPoly p out * A) (htop : ((out.getD n 0 : ℕ) : ZMod p) ≠ 0) :
    toPoly p out = M.charpoly.reverse := by
  have hTne : M.charpoly.reverse ≠ 0 := by
    intro h; have := reverse_charpoly_coeff_zero M; rw [h] at this; simp at this
  have hOne : toPoly p out ≠ 0 := fun h => hTne (by rw [hA, h, zero_mul])
  have hAne : A ≠ 0 := fun h => hTne (by rw [hA, h, mul_zero])
  have hdO : n ≤ (toPoly p out).natDegree := by
    apply le_natDegree_of_ne_zero
    rw [coeff_toPoly]; exact htop
  have hd := natDegree_mul hOne hAne
  rw [← hA] at hd
  have hdT := reverse_charpoly_natDegree_le M
  have hdA : A.natDegree = 0 := by omega
  obtain ⟨a, rfl⟩ : ∃ a, A = C a := ⟨A.coeff 0, eq_C_of_natDegree_eq_zero hdA⟩
  have hc0 := congrArg (fun P => P.coeff 0) hA
  simp only [mul_coeff_zero, coeff_C_zero, reverse_charpoly_coeff_zero, coeff_toPoly] at hc0
  have : co p out 0 = 1 := by unfold co gd; rw [h0]; simp
  rw [this, one_mul] at hc0
  rw [hA, ← hc0, C_1, mul_one]

/-- the value read by `_detp4` in the full-complexity case -/
theorem wied_det_of_full [Fact p.Prime] (M : Matrix (Fin n) (Fin n) (ZMod p)) (out : List ℕ)
    (h : toPoly p out = M.charpoly.reverse) :
    M.det = (-1) ^ n * ((out.getD n 0 : ℕ) : ZMod p) := by
  rw [reverse_charpoly_coeff_top, ← h, coeff_toPoly]; rfl

/-- deficient case with `det M ≠ 0`: the cofactor `A` has positive degree -/
theorem wied_deficient [Fact p.Prime] (M : Matrix (Fin n) (Fin n) (ZMod p)) (out : List ℕ)
    (A : (ZMod p)[X]) (hz : ∀ j, n < j → out.getD j 0 = 0)
    (hA : M.charpoly.reverse = toPoly p out * A) (htop : ((out.getD n 0 : ℕ) : ZMod p) = 0)
    (hdet : M.det ≠ 0) (hn : 1 ≤ n) : 1 ≤ A.natDegree := by
  have hTn : M.charpoly.reverse.coeff n ≠ 0 := by
    intro h0
    apply hdet
    rw [reverse_charpoly_coeff_top, h0, mul_zero]
  have hTne : M.charpoly.reverse ≠ 0 := fun h => hTn (by rw [h]; simp)
  have hOne : toPoly p out ≠ 0 := fun h => hTne (by rw [hA, h, zero_mul])
  have hAne : A ≠ 0 := fun h => hTne (by rw [hA, h, mul_zero])
  have hdT : n ≤ M.charpoly.reverse.natDegree := le_natDegree_of_ne_zero hTn
  have hdO : (toPoly p out).natDegree ≤ n - 1 := by
    rw [natDegree_le_iff_coeff_eq_zero]
    intro N hN
    rw [coeff_toPoly]
    by_cases hNn : N = n
    · subst hNn; exact htop
    · unfold co gd; rw [hz N (by omega)]; simp
  have hd := natDegree_mul hOne hAne
  rw [← hA] at hd
  omega

end Ymq.Wied
