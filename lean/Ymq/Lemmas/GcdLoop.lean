/- Main loop of `gcd_internal`: loop invariant and partial correctness. -/
import Ymq.Lemmas.GcdReduce
import Ymq.Lemmas.GcdWords

namespace Ymq.Gcd

/-- loop invariant: `(x, y)` generate the same ideal as `(n, p)`, and (extended variant) the
cofactor rows express `x` and `y` — a row whose value is `0` may be arbitrary: it is only produced
when the quotient does not fit `BInt<N>` and is never used. -/
structure GInv (ext : Bool) (n p : Nat) (s : St) : Prop where
  g : Nat.gcd s.x s.y = Nat.gcd n p
  xrel : ext = true → s.x = 0 ∨ (s.x : Int) = s.A * n + s.B * p
  yrel : ext = true → s.y = 0 ∨ (s.y : Int) = s.C * n + s.D * p

theorem GInv_init (ext : Bool) (n p : Nat) : GInv ext n p (initSt n p) :=
  ⟨rfl, fun _ => Or.inr (by simp [initSt]), fun _ => Or.inr (by simp [initSt])⟩

theorem GInv_swap {ext : Bool} {n p : Nat} {s : St} (h : GInv ext n p s) : GInv ext n p (swapSt s) := by
  unfold swapSt
  split
  · exact ⟨by rw [Nat.gcd_comm]; exact h.g, h.yrel, h.xrel⟩
  · exact h

theorem castB_eq {N q : Nat} (h : q < M N / 2) : castB N q = (q : Int) := by
  unfold castB; rw [if_pos h]

/-- quotient step, extended variant -/
theorem fallbackStep_ext {N : Nat} {n p : Nat} {s s' : St} (hN : 0 < N)
    (h : fallbackStep N K true s = some s') (hy0 : s.y ≠ 0)
    (hx : (s.x : Int) = s.A * n + s.B * p) (hy : (s.y : Int) = s.C * n + s.D * p) :
    Nat.gcd s'.x s'.y = Nat.gcd s.x s.y ∧ (s'.x : Int) = s'.A * n + s'.B * p ∧
    (s'.y = 0 ∨ (s'.y : Int) = s'.C * n + s'.D * p) := by
  unfold fallbackStep at h
  simp only [if_true] at h
  generalize hq : s.x / s.y = q at h
  split at h
  · simp at h
  · rename_i qy hqy
    obtain ⟨rfl, hqyM⟩ := chkU_some hqy
    split at h
    · simp at h
    · rename_i hle
      have hle' : q * s.y ≤ s.x := by omega
      -- the quotient fits `BInt<N>` unless y = 1 (and then the remainder is 0)
      have hcast : q < M N / 2 ∨ (s.y = 1 ∧ s.x - q * s.y = 0) := by
        by_cases hc : q < M N / 2
        · exact Or.inl hc
        · right
          have hy1 : s.y = 1 := by
            by_contra hne
            have h2 : 2 ≤ s.y := by omega
            have : M N ≤ q * s.y := by
              have : M N ≤ q * 2 := by
                have : M N % 2 = 0 := by
                  unfold M
                  have : 64 * N = (64 * N - 1) + 1 := by omega
                  rw [this, Nat.pow_succ]; omega
                omega
              exact Nat.le_trans this (Nat.mul_le_mul_left q h2)
            omega
          refine ⟨hy1, ?_⟩
          rw [hy1] at hq ⊢
          simp at hq; omega
      split at h
      · rename_i hbr
        split at h
        · simp at h
        · rename_i hyr
          split at h
          · simp at h
          · rename_i q1 hq1
            split at h
            · rename_i c d hc hd
              simp at h; subst h
              simp only
              have hq1' := (chkB_some hq1).1
              have hcq : castB N q = (q : Int) := by
                rcases hcast with hc' | ⟨_, hr0⟩
                · exact castB_eq hc'
                · exfalso; rw [hr0] at hbr; simp at hbr
              rw [hcq] at hq1'
              have ey : ((s.y - (s.x - q * s.y) : Nat) : Int) = -(s.x : Int) + ((q : Int) + 1) * s.y := by
                push_cast [hle', Nat.le_of_not_lt hyr]; ring
              refine ⟨?_, hy, Or.inr ?_⟩
              · refine nat_gcd_unimodular' 0 1 (-1) ((q : Int) + 1) s.x s.y _ _ (Or.inl (by ring))
                  (Or.inl (by ring)) (Or.inl ?_)
                rw [ey]; ring
              · rw [ey, mulSub_some hc, mulSub_some hd, hq1', hx, hy]; ring
            · simp at h
      · rename_i hbr
        split at h
        · rename_i c d hc hd
          simp at h; subst h
          simp only
          have ey : ((s.x - q * s.y : Nat) : Int) = (s.x : Int) - (q : Int) * s.y := by
            push_cast [hle']; ring
          refine ⟨?_, hy, ?_⟩
          · refine nat_gcd_unimodular' 0 1 1 (-(q : Int)) s.x s.y _ _ (Or.inr (by ring))
              (Or.inl (by ring)) (Or.inl ?_)
            rw [ey]; ring
          · rcases hcast with hc' | ⟨_, hr0⟩
            · right
              rw [ey, subMul_some hc, subMul_some hd, castB_eq hc', hx, hy]; ring
            · left; exact hr0
        · simp at h

/-- quotient step, plain variant -/
theorem fallbackStep_noext {N : Nat} {s s' : St} (h : fallbackStep N K false s = some s') :
    Nat.gcd s'.x s'.y = Nat.gcd s.x s.y := by
  unfold fallbackStep at h
  simp at h; subst h
  simp only
  rw [Nat.gcd_comm, ← Nat.gcd_rec, Nat.gcd_comm]

theorem negIf_some {N : Nat} {neg : Bool} {z r : Int}
    (h : (if neg = true then chkB N (-z) else some z) = some r) : r = if neg then -z else z := by
  cases neg
  · simp at h; simp [h]
  · simp at h; simp [(chkB_some h).1]

/-- 64-bit lattice reduction step -/
theorem lehmerStep_spec {N : Nat} {ext : Bool} {n p : Nat} {s s' : St} {bts xtop ytop : Nat}
    (h : lehmerStep N K ext s bts xtop ytop = some s') (hxt : xtop < W) (hyt : ytop < W)
    (hxs : s.x < W ^ ((bts + 63) / 64)) (hys : s.y < W ^ ((bts + 63) / 64))
    (hx : ext = true → (s.x : Int) = s.A * n + s.B * p)
    (hy : ext = true → (s.y : Int) = s.C * n + s.D * p) :
    Nat.gcd s'.x s'.y = Nat.gcd s.x s.y ∧
    (ext = true → (s'.x : Int) = s'.A * n + s'.B * p ∧ (s'.y : Int) = s'.C * n + s'.D * p) := by
  unfold lehmerStep at h
  split at h
  · simp at h
  · rename_i a b c d hred
    have hdet := reduce64_det hred hxt hyt
    simp only at h
    split at h
    · rename_i axby negx cxdy negy hd1 hd2
      have e1 := dotProduct_some hd1 hxs hys
      have e2 := dotProduct_some hd2 hxs hys
      have hg : Nat.gcd axby cxdy = Nat.gcd s.x s.y := by
        refine nat_gcd_unimodular' a b c d s.x s.y _ _ hdet ?_ ?_
        · cases negx <;> simp at e1 <;> omega
        · cases negy <;> simp at e2 <;> omega
      split at h
      · rename_i hext
        split at h
        · rename_i aa bb cc dd haa hbb hcc hdd
          split at h
          · rename_i aa' bb' cc' dd' haa' hbb' hcc' hdd'
            simp at h; subst h
            refine ⟨hg, fun _ => ?_⟩
            simp only
            rw [negIf_some haa', negIf_some hbb', negIf_some hcc', negIf_some hdd',
              lin2_some haa, lin2_some hbb, lin2_some hcc, lin2_some hdd]
            have hx' := hx hext
            have hy' := hy hext
            constructor
            · cases negx <;> simp at e1 ⊢
              · rw [← e1, hx', hy']; ring
              · have : (axby : Int) = -(a * s.x + b * s.y) := by omega
                rw [this, hx', hy']; ring
            · cases negy <;> simp at e2 ⊢
              · rw [← e2, hx', hy']; ring
              · have : (cxdy : Int) = -(c * s.x + d * s.y) := by omega
                rw [this, hx', hy']; ring
          · simp at h
        · simp at h
      · rename_i hext
        simp at h; subst h
        exact ⟨hg, fun he => absurd he hext⟩
    · simp at h

theorem egcdI64_spec {X Y g ex ey : Int} (h : egcdI64 X Y = some (g, ex, ey)) :
    g = ex * X + ey * Y ∧ g = (Int.gcd X Y : Int) := by
  have := egcdLoop_spec X Y _ _ _ _ _ _ _ _ _ _ h (by ring) (by ring)
  rw [Int.gcd_comm] at this; exact this

theorem lt_of_bits_lt_64 {x : Nat} (h : bits x < 64) : x < 9223372036854775808 := by
  have h1 := lt_two_pow_bits x
  have h2 : 2 ^ bits x ≤ 2 ^ 63 := Nat.pow_le_pow_right (by decide) (by omega)
  have : (2 : Nat) ^ 63 = 9223372036854775808 := by norm_num
  omega

/-- an iteration that returns, returns the gcd with valid cofactors -/
theorem gcdStep_ret {N : Nat} {ext : Bool} {n p : Nat} {s0 : St} {d : Nat} {u v : Int}
    (h : gcdStep N K ext s0 = some (.ret d u v)) (hinv : GInv ext n p s0) :
    d = Nat.gcd n p ∧ (ext = true → u * n + v * p = d) := by
  have hs := GInv_swap hinv
  unfold gcdStep at h
  simp only at h
  generalize swapSt s0 = s at h hs
  split at h
  · rename_i hlx
    simp at h; obtain ⟨rfl, rfl, rfl⟩ := h
    have hx0 := bits_eq_zero.1 hlx
    have hg := hs.g; rw [hx0, Nat.gcd_zero_left] at hg
    refine ⟨hg, fun he => ?_⟩
    rcases hs.yrel he with h0 | hr
    · rw [h0] at hg
      have hn : n = 0 := Nat.eq_zero_of_gcd_eq_zero_left hg.symm
      have hp : p = 0 := Nat.eq_zero_of_gcd_eq_zero_right hg.symm
      simp [hn, hp, h0]
    · rw [hr]
  · rename_i hlx
    split at h
    · rename_i hly
      simp at h; obtain ⟨rfl, rfl, rfl⟩ := h
      have hy0 := bits_eq_zero.1 hly
      have hg := hs.g; rw [hy0, Nat.gcd_zero_right] at hg
      refine ⟨hg, fun he => ?_⟩
      rcases hs.xrel he with h0 | hr
      · exact absurd (bits_eq_zero.2 h0) hlx
      · rw [hr]
    · rename_i hly
      split at h
      · rename_i hsm
        have hxs := lt_of_bits_lt_64 hsm.1
        have hys := lt_of_bits_lt_64 hsm.2
        have hxW : s.x % W = s.x := Nat.mod_eq_of_lt (by unfold W; omega)
        have hyW : s.y % W = s.y := Nat.mod_eq_of_lt (by unfold W; omega)
        rw [hxW, hyW] at h
        split at h
        · rename_i hext
          rw [asI64_small hxs, asI64_small hys] at h
          split at h
          · simp at h
          · rename_i g ex ey he
            obtain ⟨hg1, hg2⟩ := egcdI64_spec he
            split at h
            · rename_i u' v' hu hv
              simp at h; obtain ⟨rfl, rfl, rfl⟩ := h
              have hgn : (g : Int) = ((Nat.gcd s.x s.y : Nat) : Int) := by
                rw [hg2]; simp [Int.gcd]
              have hx0 : s.x ≠ 0 := fun h0 => hlx (bits_eq_zero.2 h0)
              have hle : Nat.gcd s.x s.y ≤ s.x := Nat.gcd_le_left _ (Nat.pos_of_ne_zero hx0)
              have hd : (g % (W : Int)).toNat = Nat.gcd s.x s.y := by
                have hW : (W : Int) = 18446744073709551616 := by simp [W]
                rw [hW, Int.emod_eq_of_lt (by omega) (by omega), hgn]; simp
              refine ⟨by rw [hd, hs.g], fun he' => ?_⟩
              rw [hd, ← hgn, hg1, lin2_some hu, lin2_some hv]
              rcases hs.xrel he' with h0 | hxr
              · exact absurd h0 hx0
              · rcases hs.yrel he' with h0 | hyr
                · exact absurd (bits_eq_zero.2 h0) hly
                · rw [hxr, hyr]; ring
            · simp at h
        · rename_i hext
          simp at h; obtain ⟨rfl, rfl, rfl⟩ := h
          exact ⟨hs.g, fun he => absurd he hext⟩
      · split at h
        · split at h
          · simp [Option.map] at h
            split at h <;> simp at h
          · simp [Option.map] at h
            split at h <;> simp at h
        · simp at h

/-- an iteration that continues keeps the invariant -/
theorem gcdStep_next {N : Nat} {ext : Bool} {n p : Nat} {s0 s' : St} (hN : 0 < N)
    (h : gcdStep N K ext s0 = some (.next s')) (hinv : GInv ext n p s0) : GInv ext n p s' := by
  have hs := GInv_swap hinv
  unfold gcdStep at h
  simp only at h
  generalize swapSt s0 = s at h hs
  split at h
  · simp at h
  · rename_i hlx
    split at h
    · simp at h
    · rename_i hly
      have hx0 : s.x ≠ 0 := fun h0 => hlx (bits_eq_zero.2 h0)
      have hy0 : s.y ≠ 0 := fun h0 => hly (bits_eq_zero.2 h0)
      have hxr : ext = true → (s.x : Int) = s.A * n + s.B * p := fun he =>
        (hs.xrel he).resolve_left hx0
      have hyr : ext = true → (s.y : Int) = s.C * n + s.D * p := fun he =>
        (hs.yrel he).resolve_left hy0
      split at h
      · split at h
        · split at h
          · simp at h
          · split at h <;> simp at h
        · simp at h
      · split at h
        · rename_i xtop ytop hxt hyt
          split at h
          · -- multiprecision quotient
            simp only [Option.map_eq_some_iff, Step.next.injEq] at h
            obtain ⟨s'', hfb, rfl⟩ := h
            cases ext
            · exact ⟨by rw [fallbackStep_noext hfb]; exact hs.g, fun he => by simp at he,
                fun he => by simp at he⟩
            · obtain ⟨h1, h2, h3⟩ := fallbackStep_ext (n := n) (p := p) hN hfb hy0 (hxr rfl) (hyr rfl)
              exact ⟨by rw [h1]; exact hs.g, fun _ => Or.inr h2, fun _ => h3⟩
          · -- Lehmer step
            simp only [Option.map_eq_some_iff, Step.next.injEq] at h
            obtain ⟨s'', hl, rfl⟩ := h
            have hxtW := top64_lt hxt (toDigits_lt N s.x)
            have hytW := top64_lt hyt (toDigits_lt N s.y)
            have hxs : s.x < W ^ ((max (bits s.x) (bits s.y) + 63) / 64) :=
              lt_W_pow_of_bits (Nat.le_max_left _ _)
            have hys : s.y < W ^ ((max (bits s.x) (bits s.y) + 63) / 64) :=
              lt_W_pow_of_bits (Nat.le_max_right _ _)
            obtain ⟨h1, h2⟩ := lehmerStep_spec (n := n) (p := p) hl hxtW hytW hxs hys hxr hyr
            exact ⟨by rw [h1]; exact hs.g, fun he => Or.inr (h2 he).1, fun he => Or.inr (h2 he).2⟩
        · simp at h

/-- partial correctness of the main loop: whenever it returns, the result is the gcd with valid
Bezout cofactors (extended variant) -/
theorem gcdLoop_spec {N : Nat} {ext : Bool} {n p : Nat} (hN : 0 < N) :
    ∀ (f : Nat) (s : St) (d : Nat) (u v : Int), gcdLoop N K ext f s = some (d, u, v) →
    GInv ext n p s → d = Nat.gcd n p ∧ (ext = true → u * n + v * p = d) := by
  intro f
  induction f with
  | zero => intro s d u v h; simp [gcdLoop] at h
  | succ f ih =>
    intro s d u v h hinv
    unfold gcdLoop at h
    split at h
    · simp at h
    · rename_i d' u' v' hstep
      simp at h; obtain ⟨rfl, rfl, rfl⟩ := h
      exact gcdStep_ret hstep hinv
    · rename_i s' hstep
      exact ih s' d u v h (gcdStep_next hN hstep hinv)

end Ymq.Gcd
