/-
The stream of blocks of `PrimeSieve` (C17): a sieve whose small primes are all primes below 2^16
and whose offsets are those of block `b` returns exactly the primes of
`[65536·b, 65536·(b+1))` in increasing order and is then in the same relation with `b + 1`.
-/
import Mathlib.Tactic.NormNum.Prime
import Ymq.Lemmas.PrimesBlock

namespace Ymq.Primes

/-- the increasing list of the primes in `[a, a + n)` -/
def primesFrom (a n : Nat) : List Nat :=
  ((List.range n).map (a + ·)).filter (fun x => decide x.Prime)

theorem primesBelow_append (a n : Nat) : primesBelow (a + n) = primesBelow a ++ primesFrom a n := by
  unfold primesBelow primesFrom
  rw [List.range_add, List.filter_append]

theorem mem_primesBelow {p m : Nat} : p ∈ primesBelow m ↔ p < m ∧ p.Prime := by
  simp [primesBelow]

theorem mem_primesFrom {p a n : Nat} : p ∈ primesFrom a n ↔ (a ≤ p ∧ p < a + n) ∧ p.Prime := by
  unfold primesFrom
  rw [List.mem_filter, List.mem_map]
  simp only [List.mem_range, decide_eq_true_eq]
  constructor
  · rintro ⟨⟨i, hi, rfl⟩, hp⟩
    exact ⟨⟨by omega, by omega⟩, hp⟩
  · rintro ⟨⟨h1, h2⟩, hp⟩
    exact ⟨⟨p - a, by omega, by omega⟩, hp⟩

theorem primesBelow_sorted (m : Nat) : (primesBelow m).Pairwise (· < ·) := by
  unfold primesBelow
  exact List.Pairwise.filter _ List.pairwise_lt_range

theorem primesFrom_sorted (a n : Nat) : (primesFrom a n).Pairwise (· < ·) := by
  unfold primesFrom
  apply List.Pairwise.filter
  rw [List.pairwise_map]
  exact List.Pairwise.imp (fun h => by omega) List.pairwise_lt_range

/-- in block `b ∈ [1, 65535]`, a number is prime iff no prime below 2^16 divides it -/
theorem block_prime_iff (b i : Nat) (hb1 : 1 ≤ b) (hb : b < 65536) (hi : i < 65536) :
    (65536 * b + i).Prime ↔ ¬ ∃ p ∈ primesBelow 65536, (65536 * b + i) % p = 0 := by
  constructor
  · rintro hN ⟨p, hp, hd⟩
    rw [mem_primesBelow] at hp
    have := Nat.Prime.eq_one_or_self_of_dvd hN p (Nat.dvd_of_mod_eq_zero hd)
    have := hp.2.two_le
    omega
  · intro hno
    by_contra hnp
    have hN1 : 65536 * b + i ≠ 1 := by omega
    have hq := Nat.minFac_prime hN1
    have hqd := Nat.minFac_dvd (65536 * b + i)
    have hqq := Nat.minFac_sq_le_self (by omega : 0 < 65536 * b + i) hnp
    apply hno
    refine ⟨(65536 * b + i).minFac, ?_, Nat.mod_eq_zero_of_dvd hqd⟩
    rw [mem_primesBelow]
    refine ⟨?_, hq⟩
    by_contra hge
    have h1 : 65536 ≤ (65536 * b + i).minFac := by omega
    have h2 : 65536 * 65536 ≤ (65536 * b + i).minFac ^ 2 := by
      rw [Nat.pow_two]; exact Nat.mul_le_mul h1 h1
    omega

theorem collect_general (s : Array Bool) (a n : Nat) (hs : s.size = n)
    (h : ∀ i, i < n → (s[i]! = false ↔ (a + i).Prime)) :
    collect s a = primesFrom a n := by
  unfold collect primesFrom
  rw [hs, List.filter_map]
  apply congrArg
  apply List.filter_congr
  intro i hi
  rw [List.mem_range] at hi
  have := h i hi
  simp only [Function.comp]
  by_cases hp : (a + i).Prime
  · simp [this.mpr hp, hp]
  · have hf : ¬ s[i]! = false := fun hc => hp (this.mp hc)
    simp [hf, hp]

/-- the block built from a flag array in which exactly the multiples of the small primes are set -/
theorem collect_spec (s : Array Bool) (b : Nat) (hs : s.size = 65536) (hb1 : 1 ≤ b)
    (hb : b < 65536)
    (hfl : ∀ i, i < 65536 → (flag s i = true ↔
      ∃ p ∈ primesBelow 65536, (65536 * b + i) % p = 0)) :
    collect s (b * 65536) = primesFrom (65536 * b) 65536 := by
  rw [Nat.mul_comm b 65536]
  apply collect_general s (65536 * b) 65536 hs
  intro i hi
  have h1 := hfl i hi
  have h2 := block_prime_iff b i hb1 hb hi
  show flag s i = false ↔ _
  rw [h2, ← h1]
  cases flag s i <;> simp

/-- the sieve is about to produce block `b`: its small primes are all primes below 2^16 and its
offsets are those of block `b` -/
structure Good (ps : PrimeSieve) (b : Nat) : Prop where
  smalls : ps.smalls = primesBelow 65536
  offsets : ps.offsets = ps.smalls.map (off b)
  bc : ps.bc = b

/-- **One block.** -/
theorem next_spec (ps : PrimeSieve) (b : Nat) (h : Good ps b) (hb1 : 1 ≤ b) (hb : b < 65536) :
    ∃ ps', ps.next = some (primesFrom (65536 * b) 65536, ps') ∧ Good ps' (b + 1) := by
  have hsm : ∀ p ∈ ps.smalls, 0 < p ∧ p ≤ 65536 := by
    intro p hp
    rw [h.smalls, mem_primesBelow] at hp
    exact ⟨hp.2.pos, by omega⟩
  obtain ⟨s', hs', hsz', hfl'⟩ :=
    sieveStep_spec b ps.smalls (Array.replicate 65536 false) (by simp) hsm
  have hcol : collect s' (ps.bc * 65536) = primesFrom (65536 * b) 65536 := by
    rw [h.bc, collect_spec s' b hsz' hb1 hb]
    intro i hi
    rw [hfl' i hi, flag_replicate 65536 i hi, h.smalls]
    simp
  refine ⟨{ ps with offsets := ps.smalls.map (off (b + 1)), bc := ps.bc + 1 }, ?_,
    ⟨h.smalls, rfl, by simp [h.bc]⟩⟩
  unfold PrimeSieve.next
  rw [if_neg (by rw [h.bc]; omega), if_neg (by rw [h.bc]; omega), h.offsets, hs']
  simp only
  rw [hcol]

/-- nothing after block 65535 -/
theorem next_end (ps : PrimeSieve) (h : ps.bc = 65536) : ps.next = some ([], ps) := by
  unfold PrimeSieve.next
  rw [if_pos h]

theorem primesBelow_succ_of_not_prime (m : Nat) (h : ¬ m.Prime) :
    primesBelow (m + 1) = primesBelow m := by
  rw [primesBelow_succ, if_neg h]

/-- 65521 is the largest prime below 2^16 -/
theorem primesBelow_65536 : primesBelow 65536 = primesBelow 65521 ++ [65521] := by
  rw [show (65536 : Nat) = 65535 + 1 from rfl, primesBelow_succ_of_not_prime _ (by norm_num)]
  rw [show (65535 : Nat) = 65534 + 1 from rfl, primesBelow_succ_of_not_prime _ (by norm_num)]
  rw [show (65534 : Nat) = 65533 + 1 from rfl, primesBelow_succ_of_not_prime _ (by norm_num)]
  rw [show (65533 : Nat) = 65532 + 1 from rfl, primesBelow_succ_of_not_prime _ (by norm_num)]
  rw [show (65532 : Nat) = 65531 + 1 from rfl, primesBelow_succ_of_not_prime _ (by norm_num)]
  rw [show (65531 : Nat) = 65530 + 1 from rfl, primesBelow_succ_of_not_prime _ (by norm_num)]
  rw [show (65530 : Nat) = 65529 + 1 from rfl, primesBelow_succ_of_not_prime _ (by norm_num)]
  rw [show (65529 : Nat) = 65528 + 1 from rfl, primesBelow_succ_of_not_prime _ (by norm_num)]
  rw [show (65528 : Nat) = 65527 + 1 from rfl, primesBelow_succ_of_not_prime _ (by norm_num)]
  rw [show (65527 : Nat) = 65526 + 1 from rfl, primesBelow_succ_of_not_prime _ (by norm_num)]
  rw [show (65526 : Nat) = 65525 + 1 from rfl, primesBelow_succ_of_not_prime _ (by norm_num)]
  rw [show (65525 : Nat) = 65524 + 1 from rfl, primesBelow_succ_of_not_prime _ (by norm_num)]
  rw [show (65524 : Nat) = 65523 + 1 from rfl, primesBelow_succ_of_not_prime _ (by norm_num)]
  rw [show (65523 : Nat) = 65522 + 1 from rfl, primesBelow_succ_of_not_prime _ (by norm_num)]
  rw [show (65522 : Nat) = 65521 + 1 from rfl, primesBelow_succ, if_pos (by norm_num)]

/-- **Start of the stream**, given that the model's `primes(6542)` is the list of all primes below
2^16 (hypothesis `HSmall`): `new` passes its assertion, the first block is that list and the sieve
is then ready for block 1. -/
theorem new_spec (HSmall : primes 6542 = some (primesBelow 65536)) :
    ∃ ps0 ps1, PrimeSieve.new = some ps0 ∧ ps0.next = some (primesBelow 65536, ps1) ∧
      Good ps1 1 := by
  have hlast : (primesBelow 65536).getLast? = some 65521 := by
    rw [primesBelow_65536]; simp
  have hpos : ∀ p ∈ primesBelow 65536, 0 < p := by
    intro p hp
    rw [mem_primesBelow] at hp
    exact hp.2.pos
  unfold PrimeSieve.new
  rw [HSmall]
  simp only
  rw [if_pos hlast]
  generalize hL : primesBelow 65536 = L at *
  refine ⟨{ smalls := L, offsets := L.map (fun p => p - 1 - 65535 % p), bc := 0 },
    { smalls := L, offsets := L.map (fun p => p - 1 - 65535 % p), bc := 1 }, rfl, ?_, ?_⟩
  · unfold PrimeSieve.next
    simp only
    rw [if_neg (by decide), if_pos trivial]
  · constructor
    · exact hL.symm
    · show L.map (fun p => p - 1 - 65535 % p) = L.map (off 1)
      apply List.map_congr_left
      intro p hp
      exact off_init p (hpos p hp)
    · rfl

/-- the small primes of a fresh sieve -/
theorem new_smalls (HSmall : primes 6542 = some (primesBelow 65536)) :
    ∃ ps0, PrimeSieve.new = some ps0 ∧ ps0.smalls = primesBelow 65536 := by
  have hlast : (primesBelow 65536).getLast? = some 65521 := by
    rw [primesBelow_65536]; simp
  unfold PrimeSieve.new
  rw [HSmall]
  simp only
  rw [if_pos hlast]
  generalize primesBelow 65536 = L
  exact ⟨{ smalls := L, offsets := L.map (fun p => p - 1 - 65535 % p), bc := 0 }, rfl, rfl⟩

end Ymq.Primes
