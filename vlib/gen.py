"""Input generators shared by the property modules (all randomness from one random.Random)."""
import random

W = 1 << 64


def is_prime(n):
    """Deterministic Miller-Rabin for n < 3.3e24 (independent of yamaquasi), BPSW-free."""
    if n < 2:
        return False
    small = [2, 3, 5, 7, 11, 13, 17, 19, 23, 29, 31, 37, 41]
    for p in small:
        if n % p == 0:
            return n == p
    d, s = n - 1, 0
    while d % 2 == 0:
        d //= 2
        s += 1
    bases = small if n < 3317044064679887385961981 else small + [43, 47, 53, 59, 61, 67, 71, 73, 79, 83, 89, 97]
    for a in bases:
        x = pow(a, d, n)
        if x in (1, n - 1):
            continue
        for _ in range(s - 1):
            x = x * x % n
            if x == n - 1:
                break
        else:
            return False
    return True


def rand_prime(rng, bits):
    assert bits >= 2
    while True:
        p = rng.getrandbits(bits) | (1 << (bits - 1)) | 1
        if bits == 2:
            p = rng.choice([2, 3])
        if is_prime(p):
            return p


def next_prime(n):
    n += 1
    while not is_prime(n):
        n += 1
    return n


def prev_prime(n):
    n -= 1
    while n >= 2 and not is_prime(n):
        n -= 1
    return n


def word_patterns(rng):
    """interesting 64-bit words"""
    return [0, 1, 2, W - 1, W - 2, 1 << 63, (1 << 63) - 1, (1 << 63) + 1, 1 << 32, (1 << 32) - 1,
            (1 << 32) + 1, rng.getrandbits(64), rng.getrandbits(32), rng.getrandbits(64) | (1 << 63)]


def rand_words(rng, k, style=None):
    """k-word integer (little endian value) with structured words"""
    style = style or rng.choice(["rand", "ones", "zeros", "mixed", "single"])
    ws = []
    for i in range(k):
        if style == "rand":
            w = rng.getrandbits(64)
        elif style == "ones":
            w = W - 1
        elif style == "zeros":
            w = 0
        elif style == "single":
            w = 1 << rng.randrange(64)
        else:
            w = rng.choice(word_patterns(rng))
        ws.append(w)
    return sum(w << (64 * i) for i, w in enumerate(ws))


def odd_modulus(rng, k, style=None):
    """odd modulus with exactly k words (top word non-zero), bit length <= cap"""
    style = style or rng.choice(["rand", "top-minus", "half-plus", "ones", "mixed", "single", "small-top"])
    small = rng.choice([1, 3, 5, 7, 9, 15, 17, 59, 189, 255, 257, 65537, rng.getrandbits(20) | 1])
    if style == "top-minus":
        n = (1 << (64 * k)) - small
    elif style == "half-plus":
        n = (1 << (64 * k - 1)) + small
    elif style == "ones":
        n = (1 << (64 * k)) - 1
    elif style == "single":
        n = (1 << (64 * (k - 1) + rng.randrange(1, 64))) + 1
    elif style == "small-top":
        n = rand_words(rng, k - 1, "rand") + (rng.choice([1, 2, 3, rng.getrandbits(8) | 1]) << (64 * (k - 1))) if k > 1 else rng.getrandbits(rng.randrange(2, 64)) | 1
    else:
        n = rand_words(rng, k, style)
        n |= 1 << (64 * (k - 1) + rng.randrange(64))
    n |= 1
    n &= (1 << (64 * k)) - 1
    if n.bit_length() <= 64 * (k - 1):
        n |= 1 << (64 * (k - 1))
    if n < 3:
        n = 3
    return n


def residue(rng, n):
    c = rng.randrange(8)
    if c == 0:
        return 0
    if c == 1:
        return 1 % n
    if c == 2:
        return n - 1
    if c == 3:
        return n // 2
    if c == 4:
        return max(0, n - 1 - rng.getrandbits(8)) % n
    return rng.randrange(n)
