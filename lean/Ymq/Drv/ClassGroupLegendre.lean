import Ymq.Drv.Util
import Ymq.Model.ClassGroupLegendre

/-
Driver op for the model of `legendre` (src/classgroup.rs, property C18).
  cg_legendre d p   -> the i32 returned by `legendre(&d, p)`; `panic` where the model is `none`.
Malformed requests (`d ≥ 2^1024`, `p ≥ 2^32`: not a `Uint`/`u32`) are not answered (`?`), as in the harness.
-/
namespace Ymq.Drv
open Ymq.ClassGroup

def handleClassGroupLegendre : Handler
  | ["cg_legendre", d, p] => do
    let d ← parseNat d; let p ← parseNat p
    if d ≥ 2 ^ 1024 ∨ p ≥ 2 ^ 32 then none
    else some (match legendre d p with
      | none => "panic"
      | some r => toString r)
  | _ => none

end Ymq.Drv
