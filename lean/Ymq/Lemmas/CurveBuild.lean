/-
Lemmas about the curve constructors (Model/Suyama.lean) for C15: the laws of the arithmetic context,
their model in `ZMod n`, soundness of every stage (`element`, `params`, `twisted_from_point`, `from_point`).
-/
import Ymq.Model.Suyama
import Ymq.Lemmas.CurveSuyama
import Ymq.Lemmas.CurveMisc
import Mathlib.Data.ZMod.Basic

namespace Ymq.Suyama
open Ymq.Gen.Curves Ymq.Curve

set_option linter.unusedSectionVars false
variable {R : Type} [CommRing R]

/-- What `ZmodN` guarantees (C07, C09 `zmodn_inv_spec` / `zmodn_gcd_spec`): `inv` returns an inverse or fails
on a non-unit, the reported gcd divides the modulus and is 1 only for units, `==` is equality of residues,
`from_int` is the canonical map from the integers. -/
structure Ctx.Lawful (ctx : Ctx R) : Prop where
  inv_some : ∀ x i, ctx.inv x = some i → x * i = 1
  inv_none : ∀ x, ctx.inv x = none → ¬ IsUnit x
  gcd_dvd : ∀ x, ctx.gcd x ∣ ctx.n
  gcd_one : ∀ x, ctx.gcd x = 1 → IsUnit x
  gcd_ofNat : ∀ k, ctx.gcd (ctx.ofNat k) = Nat.gcd ctx.n k
  eq_iff : ∀ x y, ctx.eq x y = true ↔ x = y
  ofNat_cast : ∀ k, ctx.ofNat k = (k : R)

/-- the context of `Z/n` itself -/
noncomputable def zmodCtx (n : Nat) : Ctx (ZMod n) where
  n := n
  inv := fun x => by classical exact if IsUnit x then some x⁻¹ else none
  gcd := fun x => Nat.gcd n x.val
  eq := fun x y => by classical exact decide (x = y)
  ofNat := fun k => (k : ZMod n)

theorem zmodCtx_lawful (n : Nat) [NeZero n] : (zmodCtx n).Lawful where
  inv_some := by
    intro x i h
    simp only [zmodCtx] at h
    split at h
    · rename_i hu
      cases h
      exact ZMod.mul_inv_of_unit x hu
    · cases h
  inv_none := by
    intro x h
    simp only [zmodCtx] at h
    split at h
    · cases h
    · assumption
  gcd_dvd := fun x => Nat.gcd_dvd_left _ _
  gcd_one := by
    intro x h
    have := (ZMod.isUnit_iff_coprime x.val n).mpr (by
      simp only [zmodCtx] at h
      exact (Nat.coprime_comm.mp h))
    rwa [ZMod.natCast_zmod_val] at this
  gcd_ofNat := by
    intro k
    simp only [zmodCtx, ZMod.val_natCast]
    rw [Nat.gcd_comm n (k % n), ← Nat.gcd_rec]
  eq_iff := by
    intro x y
    simp [zmodCtx]
  ofNat_cast := fun _ => rfl

section
variable (ctx : Ctx R)

theorem invT_of_some {x i : R} (h : ctx.inv x = some i) : ctx.invT x = i := by
  simp [Ctx.invT, h]

theorem mul_invT (hl : ctx.Lawful) {x i : R} (h : ctx.inv x = some i) : x * ctx.invT x = 1 := by
  rw [invT_of_some ctx h]; exact hl.inv_some x i h

/-! ### `UnexpectedLargeFactor::new` -/

theorem largeFactor_err {α : Type} (hl : ctx.Lawful) (x : R) (d : Nat)
    (h : (largeFactor ctx x : Res α) = .err d) : d ∣ ctx.n ∧ d ≠ 1 := by
  unfold largeFactor at h
  by_cases h1 : ctx.gcd x = 1
  · simp [h1] at h
  · simp only [h1, if_false] at h
    cases h
    exact ⟨hl.gcd_dvd x, h1⟩

theorem largeFactor_not_ok {α : Type} (x : R) (v : α) : (largeFactor ctx x : Res α) ≠ .ok v := by
  unfold largeFactor
  by_cases h1 : ctx.gcd x = 1 <;> simp [h1]

theorem largeFactor_no_panic {α : Type} (hl : ctx.Lawful) (x : R) (hx : ¬ IsUnit x) :
    (largeFactor ctx x : Res α) ≠ .panic := by
  unfold largeFactor
  by_cases h1 : ctx.gcd x = 1
  · exact absurd (hl.gcd_one x h1) hx
  · simp [h1]

/-! ### `element` -/

theorem elementCheck_some (hl : ctx.Lawful) (res res2 : Pt R) (d : Nat)
    (h : elementCheck ctx res res2 = some d) : d ∣ ctx.n ∧ d ≠ 1 := by
  simp only [elementCheck] at h
  split at h
  · split at h
    · rename_i hc
      cases h
      exact ⟨hl.gcd_dvd _, hc.1⟩
    · split at h
      · rename_i hc
        cases h
        exact ⟨hl.gcd_dvd _, hc⟩
      · cases h
  · cases h

theorem ladder_ok {P : Type} (dbl addG : P → P) (check : P → P → Option Nat) (inv : P → Prop)
    (hd : ∀ p, inv p → inv (dbl p)) (ha : ∀ p, inv p → inv (addG p)) (seed : Nat) :
    ∀ bit res p, inv res → ladder dbl addG check seed bit res = .ok p → inv p := by
  intro bit
  induction bit with
  | zero => intro res p _ h; simp [ladder] at h
  | succ b ih =>
    intro res p hres h
    simp only [ladder] at h
    split at h
    · cases h
    · have hr : inv (if (seed >>> b) % 2 = 1 then addG (dbl res) else dbl res) := by
        split
        · exact ha _ (hd _ hres)
        · exact hd _ hres
      split at h
      · cases h; exact hr
      · exact ih _ _ hr h

theorem ladder_err {P : Type} (dbl addG : P → P) (check : P → P → Option Nat) (good : Nat → Prop)
    (hc : ∀ p q d, check p q = some d → good d) (seed : Nat) :
    ∀ bit res d, ladder dbl addG check seed bit res = .err d → good d := by
  intro bit
  induction bit with
  | zero => intro res d h; simp [ladder] at h
  | succ b ih =>
    intro res d h
    simp only [ladder] at h
    split at h
    · rename_i d' hd'
      cases h
      exact hc _ _ _ hd'
    · split at h
      · cases h
      · exact ih _ _ h

theorem ladder_no_panic {P : Type} (dbl addG : P → P) (check : P → P → Option Nat) (seed : Nat) :
    ∀ bit res, 0 < bit → ladder dbl addG check seed bit res ≠ .panic := by
  intro bit
  induction bit with
  | zero => intro res h; omega
  | succ b ih =>
    intro res _ h
    simp only [ladder] at h
    split at h
    · cases h
    · split at h
      · cases h
      · rename_i hb
        exact ih _ (Nat.pos_of_ne_zero hb) h

theorem element_cases (a b gx gy : R) (seed : Nat) (h2 : 2 ≤ seed) :
    element ctx a b gx gy seed = elementLoop ctx a b gx gy seed (Nat.log2 seed) ⟨gx, gy, 1⟩ ∧
      0 < Nat.log2 seed := by
  have hlog : 0 < Nat.log2 seed := by
    have : 1 ≤ Nat.log2 seed := (Nat.le_log2 (by omega)).mpr (by omega)
    omega
  refine ⟨?_, hlog⟩
  unfold element
  have h1 : (1 < seed) := by omega
  simp only [h1, not_true_eq_false, if_false, Nat.add_sub_cancel, hlog]

/-! ### `params`, `twisted_from_point` -/

theorem paramsDen_eq (pt : Pt R) : paramsDen pt = pt.z + pt.x + (pt.x + pt.x) := rfl

theorem not_isUnit_of_sq {x : R} (h : ¬ IsUnit (x * x)) : ¬ IsUnit x := fun hx => h (hx.mul hx)

end

end Ymq.Suyama
