"""C16, Williams P+1 end to end: requests that compare the WHOLE value returned by pp1::pp1 (factor list in the order returned,
cofactor) with the whole-function model lean/Ymq/Model/Pp1Impl.lean (K), and judge it independently (O).

Request lines (harness/src/ops_pp1impl.rs, lean/Ymq/Drv/Pp1Impl.lean); everything after the bounds is an annotation for the oracle:
  pp1_impl n seed b1 b2 one p l        n = p*q, p + 1 = s*l, s | stage-1 exponent of b1, l prime > b1, seed^2 - 4 a non-residue mod p,
                                       l | order of the seed's Lucas element; q out of reach
  pp1_impl n seed b1 b2 minus p l      the same with p - 1 = s*l and seed^2 - 4 a residue mod p (P+1 degenerates to P-1)
  pp1_impl n seed b1 b2 two p1 p2 l    p1 + 1 | stage-1 exponent (found in stage 1, the ring shrinks), p2 as `p` above (stage 2): both
  pp1_impl n seed b1 b2 blocks p1 p2   both found in stage 1, by gcd checks of different sieve blocks (b1 > 65536): order [p1, p2]
  pp1_impl n seed b1 b2 sq p           p*p | n, p + 1 | stage-1 exponent
  pp1_impl n seed b1 b2 free           no promise (same missing prime, same batch, `g == 1` exit, strong n, entry panics)
The helper module `H` is props/c16.py (number theory, constructed primes, coverage as the oracle reads it from the loops).
"""
import math
from vlib.pipeline import Case

OPS = ("pp1_impl",)
BLOCK = 65536
SEEDS = (3, 5, 6, 7, 9, 10, 11, 13)


def _case(req, tag):
    return Case(req, tag=tag, timeout=60.0)


def _v_at(H, seed, e, p):
    return H.lucas_v(seed, e, p)


def _smooth_pp1(H, rng, b1, seed, top=None, sign=+1, tries=6000):
    """p prime with p + sign fully inside the stage-1 exponent (prime powers < b1; `top`, a prime <= b1, dividing the order of the
    seed's element), seed^2 - 4 a non-residue (sign = +1) / residue (sign = -1) mod p"""
    for _ in range(tries):
        s = H.smooth_part(rng, min(b1, 500), False, rng.choice([16, 24, 30]))
        if top:
            if s % top == 0:
                continue
            s *= top
        p = s - sign
        if p < 1000 or not H.is_prime(p) or H.jacobi(seed * seed - 4, p) != -sign:
            continue
        if not H.divides_stage1(s, b1):
            continue
        if top and _v_at(H, seed, s // top, p) == 2:
            continue
        if _v_at(H, seed, s, p) != 2:
            continue
        return p
    return None


def _minus_prime(H, rng, b1, l, tries=6000):
    """(p, seed): p - 1 = s*l, seed^2 - 4 a non-zero residue mod p, l | order of the seed's element (which divides p - 1)"""
    for _ in range(tries):
        s = H.smooth_part(rng, b1, False, rng.choice([8, 16, 24]))
        p = s * l + 1
        if p.bit_length() > 120 or p < 7 or not H.is_prime(p):
            continue
        for seed in SEEDS:
            if H.jacobi(seed * seed - 4, p) == 1 and _v_at(H, seed, (p - 1) // l, p) != 2:
                return p, seed
    return None


def grid_ls(H, rng, b1, b2):
    """primes at the rims of what stage 2 covers: first prime above B1, first / last giant step, the last covered value, the first
    prime outside, far outside"""
    _, d1, d2 = H.nearest("pp1", b2)
    eff = H.sym_eff(d1, d2)

    def ok_down(x):
        x = H.prev_prime(x + 1)
        while math.gcd(x, d1) != 1:
            x = H.prev_prime(x)
        return x

    def ok_up(x):
        x = H.next_prime(x)
        while math.gcd(x, d1) != 1:
            x = H.next_prime(x)
        return x
    out = [("first>b1", ok_up(b1)), ("giant1", ok_up(max(b1, d1 // 2))), ("giant-last", ok_down(eff)),
           ("giant-last-lo", ok_up(max(b1, (d2 - 1) * d1 + d1 // 2))), ("outside-first", ok_up(eff)),
           ("outside-far", ok_up((d2 + 2) * d1)), ("random", ok_down(rng.randrange(b1 + 50, eff)))]
    return [(nm, l) for nm, l in out if l > b1]


def _g1_cases():
    """V_4(seed) = 1 mod n (an element of order 24 modulo every prime factor): the `g == 1` exit of stage 1 at the first prime"""
    out = []
    for n in (23 * 47, 23 * 71, 47 * 71, 23 * 47 * 71):
        for seed in range(3, n):
            if (seed * seed - 2) ** 2 % n == 3 % n:                # V_4 = (s^2 - 2)^2 - 2 = 1
                out.append((n, seed))
                break
    return out


def cases(tier, rng, H, extended=False):
    quick = tier == "quick" and not extended
    q96 = lambda: H.big_q(rng, 96)
    runs = [(600, 30000), (100, 8000), (2000, 120000)] + ([] if quick else [(1500, 30000), (600, 400000), (3000, 1200000)])
    # --- one prime, stage 2 at the rims of the grid
    for (b1, b2) in runs:
        for name, l in grid_ls(H, rng, b1, b2):
            r = H.make_pp1_prime(rng, b1, l)
            if r:
                p, seed = r
                yield _case(f"pp1_impl {p * q96()} {seed} {b1} {b2} one {p} {l}", f"one/{name}")
    # --- P+1 degenerating to P-1 (seed^2 - 4 a residue): the same rims
    for (b1, b2) in runs[:2] if quick else runs:
        for name, l in grid_ls(H, rng, b1, b2):
            r = _minus_prime(H, rng, b1, l)
            if r:
                p, seed = r
                yield _case(f"pp1_impl {p * q96()} {seed} {b1} {b2} minus {p} {l}", f"minus/{name}")
    # --- fully smooth p + 1 / p - 1: found in stage 1
    for (b1, b2) in [(600, 30000), (2000, 120000)]:
        for seed in (3, 9):
            for sign in (+1, -1):
                p = _smooth_pp1(H, rng, b1, seed, H.prev_prime(b1 - rng.randrange(0, b1 // 3)), sign)
                if p:
                    yield _case(f"pp1_impl {p * q96()} {seed} {b1} {b2} sq {p}", f"stage1/{'plus' if sign > 0 else 'minus'}")
    # --- a stage-1 factor AND a stage-2 factor: the ring shrinks (fewer words) between the stages
    for (b1, b2) in [(600, 30000), (2000, 120000), (70000, 400000)] + ([] if quick else [(100, 8000), (600, 400000)]):
        ls = grid_ls(H, rng, b1, b2)
        for name, l in (ls[:3] + ls[4:5] if quick else ls):
            r = H.make_pp1_prime(rng, b1, l)
            if not r:
                continue
            p2, seed = r
            p1 = _smooth_pp1(H, rng, b1, seed, H.prev_prime(min(b1, 60000)))
            if p1 and p1 != p2:
                for qbits in (96, 40):                                  # 40: the shrunk ring has fewer 64-bit words than n
                    yield _case(f"pp1_impl {p1 * p2 * H.big_q(rng, qbits)} {seed} {b1} {b2} two {p1} {p2} {l}", f"two/{name}/q{qbits}")
    # --- stage-1 factors found by the gcd checks of different sieve blocks (b1 > 65536): the ring shrinks inside stage 1
    for (b1, b2) in [(70000, 30000), (140000, 400000)]:
        for seed in (3, 5):
            p1 = _smooth_pp1(H, rng, b1, seed, H.prev_prime(60000 - rng.randrange(0, 2000)))
            p2 = _smooth_pp1(H, rng, b1, seed, H.next_prime(BLOCK + rng.randrange(0, 1000)))
            p3 = _smooth_pp1(H, rng, b1, seed, H.prev_prime(b1 - rng.randrange(0, 1000)))
            if p1 and p2 and p1 != p2:
                yield _case(f"pp1_impl {p1 * p2 * q96()} {seed} {b1} {b2} blocks {p1} {p2}", "blocks/2")
                if p3 and p3 not in (p1, p2):
                    yield _case(f"pp1_impl {p1 * p2 * p3} {seed} {b1} {b2} free", "blocks/complete")
    # --- a square factor
    for (b1, b2) in [(600, 30000), (2000, 120000)]:
        p = _smooth_pp1(H, rng, b1, 3, H.prev_prime(b1 - rng.randrange(0, b1 // 2)))
        if p:
            yield _case(f"pp1_impl {p * p * q96()} 3 {b1} {b2} sq {p}", "square")
            yield _case(f"pp1_impl {p * p} 3 {b1} {b2} free", "square-only")
    # --- every factor caught by the same value / by the same batch
    for (b1, b2) in [(600, 30000), (100, 8000)]:
        _, d1, d2 = H.nearest("pp1", b2)
        l = H.prev_prime(rng.randrange(max(b1, d1 // 2) + 2, H.sym_eff(d1, d2)))
        ra, rb = H.make_pp1_prime(rng, b1, l), H.make_pp1_prime(rng, b1, l)
        if ra and rb and ra[0] != rb[0] and ra[1] == rb[1]:
            yield _case(f"pp1_impl {ra[0] * rb[0]} {ra[1]} {b1} {b2} free", "same/stage2")
        rc = H.make_pp1_prime(rng, b1, H.next_prime(l))
        if ra and rc and ra[0] != rc[0] and ra[1] == rc[1]:
            yield _case(f"pp1_impl {ra[0] * rc[0]} {ra[1]} {b1} {b2} free", "batch/stage2")
            yield _case(f"pp1_impl {ra[0] * rc[0] * q96()} {ra[1]} {b1} {b2} free", "batch/stage2+strong")
        pa, pb = _smooth_pp1(H, rng, b1, 3, 83), _smooth_pp1(H, rng, b1, 3, 89)
        if pa and pb and pa != pb:
            yield _case(f"pp1_impl {pa * pb} 3 {b1} {b2} free", "batch/stage1")
            yield _case(f"pp1_impl {pa * pb * q96()} 3 {b1} {b2} free", "batch/stage1+strong")
    # --- the `g == 1` exit (order 24 at b1 = 5..8: 2^2 is the power of 2), seed = 2 (g - 2 = 0 from the start)
    for (n, seed) in _g1_cases():
        for b1 in (5, 8):
            yield _case(f"pp1_impl {n} {seed} {b1} 8000 free", "g=1")
    yield _case(f"pp1_impl {q96() * H.big_q(rng, 80)} 2 600 30000 free", "seed=2")
    # --- nothing to find
    for (b1, b2) in [(600, 30000), (100, 8000)]:
        yield _case(f"pp1_impl {q96() * H.big_q(rng, 80)} 3 {b1} {b2} free", "nothing")
    # --- panic sites of the entry: b1 <= 3, even n
    yield _case(f"pp1_impl {q96() * H.big_q(rng, 80)} 3 3 30000 free", "b1<=3")
    yield _case(f"pp1_impl {2 * q96()} 3 600 30000 free", "even")


def _ann_ok(H, n, seed, b1, p, l, sign):
    if not (n % p == 0 and H.is_prime(p) and H.is_prime(l) and l > b1 and (p + sign) % l == 0):
        return False
    if H.jacobi(seed * seed - 4, p) != -sign or not H.divides_stage1((p + sign) // l, b1):
        return False
    return H.lucas_v(seed, (p + sign) // l, p) != 2


def oracle(case, ans, H):
    a = case.args
    n, seed, b1, b2 = int(a[0]), int(a[1]), int(a[2]), int(a[3])
    kind, ann = a[4], [int(x) for x in a[5:]]
    if ans == "panic":
        if b1 <= 3 or n % 2 == 0:
            return None                          # assert!(b1 > 3), ZmodN::new(even)
        return "panic on an odd n with b1 > 3"
    if ans in ("abort", "hang", "?"):
        return f"no answer ({ans})"
    msg = H.check_split(n, ans)
    if msg:
        return msg
    r = H.parse_split(ans)
    fs, rest = r if r else ([], n)
    if kind in ("one", "minus"):
        p, l = ann
        if not _ann_ok(H, n, seed, b1, p, l, +1 if kind == "one" else -1):
            return None
        if H.covered("pp1", b1, b2, l) and p not in fs and rest != p:       # rest == p: p is the cofactor, separated
            return (f"P+1 (seed={seed}, B1={b1}, B2={b2}) must separate p = {p}: p {'+' if kind == 'one' else '-'} 1 = (stage-1 part) * {l} "
                    f"and {l} is covered by stage 2")
    elif kind == "two":
        p1, p2, l = ann
        if p1 not in fs:
            return f"the stage-1 factor {p1} (p1 + 1 divides the stage-1 exponent) is not returned"
        # rest == p2: stage 1 found every other prime (complete split, `check_gcd_factors` returns at once), p2 is the cofactor
        if _ann_ok(H, n, seed, b1, p2, l, +1) and H.covered("pp1", b1, b2, l) and p2 not in fs and rest != p2:
            return f"the stage-2 factor {p2} (missing prime {l} covered) is not returned although stage 1 found {p1}"
    elif kind == "blocks":
        p1, p2 = ann
        if p1 not in fs or p2 not in fs:
            return "a factor whose order divides the stage-1 exponent is not returned"
    elif kind == "sq":
        (p,) = ann
        if rest % p == 0 or not any(f % p == 0 for f in fs):
            return f"p = {p} (order divides the stage-1 exponent) is not separated from the cofactor"
    return None


def klass(case, ans):
    short = ans.split(" ")[0] if ans else ""
    nf = ans.split(" ")[1].count(",") + 1 if short == "some" else 0
    return f"{case.op}/{case.tag}/{short}{nf if nf else ''}"
