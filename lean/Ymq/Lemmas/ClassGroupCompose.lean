/-
Binary quadratic forms for property C18: values, substitutions, proper equivalence (explicit
SL2(Z) matrices), Dirichlet composition of concordant forms with the bilinear Gauss identity,
iterated composition (`IsProduct`, `dirichlet_chain`), and the identification of the forms
`(p, y, ·)` met along a sieved relation with the prime forms `[p]^{±1}` according to the tests of
`classgroup::sieve_block_poly` (`modSigned`, `bit1`).
-/
import Ymq.Lemmas.ClassGroupSign
import Mathlib.Tactic.LinearCombination

namespace Ymq.ClassGroup

/-! ### forms: values, substitutions, proper equivalence -/

/-- the value `f(x, y)` -/
def Form.eval (f : Form) (x y : Int) : Int := f.a * x * x + f.b * x * y + f.c * y * y

/-- the substitution `g(X, Y) = f(pX + qY, rX + sY)` -/
def Form.act (f : Form) (p q r s : Int) : Form :=
  ⟨f.a * p * p + f.b * p * r + f.c * r * r,
   2 * f.a * p * q + f.b * (p * s + q * r) + 2 * f.c * r * s,
   f.a * q * q + f.b * q * s + f.c * s * s⟩

theorem Form.act_eval (f : Form) (p q r s X Y : Int) :
    (f.act p q r s).eval X Y = f.eval (p * X + q * Y) (r * X + s * Y) := by
  simp only [Form.eval, Form.act]; ring

theorem Form.act_disc (f : Form) (p q r s : Int) :
    (f.act p q r s).disc = (p * s - q * r) ^ 2 * f.disc := by
  simp only [Form.disc, Form.act]; ring

theorem Form.act_act (f : Form) (p q r s p' q' r' s' : Int) :
    (f.act p q r s).act p' q' r' s'
      = f.act (p * p' + q * r') (p * q' + q * s') (r * p' + s * r') (r * q' + s * s') := by
  simp only [Form.act, Form.mk.injEq]
  refine ⟨by ring, by ring, by ring⟩

theorem Form.act_one (f : Form) : f.act 1 0 0 1 = f := by
  obtain ⟨a, b, c⟩ := f
  simp only [Form.act, Form.mk.injEq]
  refine ⟨by ring, by ring, by ring⟩

/-- proper equivalence: `g = f ∘ M` for some `M ∈ SL2(Z)` -/
def PEquiv (f g : Form) : Prop := ∃ p q r s : Int, p * s - q * r = 1 ∧ g = f.act p q r s

theorem PEquiv.refl (f : Form) : PEquiv f f := ⟨1, 0, 0, 1, by ring, (Form.act_one f).symm⟩

theorem PEquiv.trans {f g h : Form} (h1 : PEquiv f g) (h2 : PEquiv g h) : PEquiv f h := by
  obtain ⟨p, q, r, s, hd, rfl⟩ := h1
  obtain ⟨p', q', r', s', hd', rfl⟩ := h2
  refine ⟨_, _, _, _, ?_, Form.act_act f p q r s p' q' r' s'⟩
  linear_combination (p' * s' - q' * r') * hd + hd'

theorem PEquiv.symm {f g : Form} (h1 : PEquiv f g) : PEquiv g f := by
  obtain ⟨p, q, r, s, hd, rfl⟩ := h1
  refine ⟨s, -q, -r, p, by linear_combination hd, ?_⟩
  rw [Form.act_act]
  have e1 : p * s + q * -r = 1 := by linear_combination hd
  have e2 : p * -q + q * p = 0 := by ring
  have e3 : r * s + s * -r = 0 := by ring
  have e4 : r * -q + s * p = 1 := by linear_combination hd
  rw [e1, e2, e3, e4, Form.act_one]

theorem PEquiv.disc_eq {f g : Form} (h : PEquiv f g) : g.disc = f.disc := by
  obtain ⟨p, q, r, s, hd, rfl⟩ := h
  rw [Form.act_disc, hd]; ring

/-- properly equivalent forms represent the same integers -/
theorem PEquiv.represents {f g : Form} (h : PEquiv f g) (X Y : Int) :
    ∃ x y, f.eval x y = g.eval X Y := by
  obtain ⟨p, q, r, s, _, rfl⟩ := h
  exact ⟨_, _, (Form.act_eval f p q r s X Y).symm⟩

/-- translation `(a, b, c) ↦ (a, b + 2ak, ak² + bk + c)` -/
theorem pequiv_translate (a b c k : Int) : PEquiv ⟨a, b, c⟩ ⟨a, b + 2 * a * k, a * k * k + b * k + c⟩ := by
  refine ⟨1, k, 0, 1, by ring, ?_⟩
  simp only [Form.act, Form.mk.injEq]
  refine ⟨by ring, by ring, by ring⟩

/-- `(a, b, c) ~ (c, -b, a)` -/
theorem pequiv_swap (a b c : Int) : PEquiv ⟨a, b, c⟩ ⟨c, -b, a⟩ := by
  refine ⟨0, -1, 1, 0, by ring, ?_⟩
  simp only [Form.act, Form.mk.injEq]
  refine ⟨by ring, by ring, by ring⟩

/-- two forms with the same nonzero first coefficient, the same middle coefficient and the same
discriminant are equal -/
theorem form_ext_disc {f g : Form} (ha : f.a = g.a) (hb : f.b = g.b) (h0 : f.a ≠ 0)
    (hd : f.disc = g.disc) : f = g := by
  obtain ⟨a, b, c⟩ := f
  obtain ⟨a', b', c'⟩ := g
  simp only [Form.disc] at *
  subst ha; subst hb
  have : 4 * a * (c - c') = 0 := by linear_combination -hd
  have hc : c - c' = 0 := by
    rcases mul_eq_zero.1 this with h | h
    · exfalso; omega
    · exact h
  simp only [Form.mk.injEq, true_and]
  omega

/-- a form whose middle coefficient is congruent mod `2a` to `b'` is properly equivalent to the
form `(a, b', ·)` of the same discriminant -/
theorem pequiv_of_congr {f g : Form} (ha : f.a = g.a) (h0 : f.a ≠ 0) (hd : f.disc = g.disc)
    (hb : (2 * f.a) ∣ g.b - f.b) : PEquiv f g := by
  obtain ⟨k, hk⟩ := hb
  have h1 := pequiv_translate f.a f.b f.c k
  have : (⟨f.a, f.b + 2 * f.a * k, f.a * k * k + f.b * k + f.c⟩ : Form) = g := by
    apply form_ext_disc
    · exact ha
    · simp only; linear_combination -hk
    · exact h0
    · rw [← hd, ← (PEquiv.disc_eq h1)]
  rw [this] at h1
  exact h1


/-! ### Dirichlet composition of concordant forms -/

/-- `h` is the Dirichlet composition of the concordant forms `f = (a₁, b, a₂c)` and
`g = (a₂, b, a₁c)`: `h = (a₁a₂, b, c)`, with `gcd(a₁, a₂, b) = 1` (the condition under which the
bilinear substitution of `dirComp_gauss` is a composition in the sense of Gauss, art. 235). -/
def DirComp (f g h : Form) : Prop :=
  ∃ a1 a2 b c : Int, f = ⟨a1, b, a2 * c⟩ ∧ g = ⟨a2, b, a1 * c⟩ ∧ h = ⟨a1 * a2, b, c⟩ ∧ gcd3 a1 a2 b = 1

/-- the bilinear Gauss identity behind Dirichlet composition -/
theorem dirComp_gauss {f g h : Form} (hc : DirComp f g h) :
    ∃ a1 a2 b c : Int, f = ⟨a1, b, a2 * c⟩ ∧ g = ⟨a2, b, a1 * c⟩ ∧ ∀ x1 y1 x2 y2 : Int,
      f.eval x1 y1 * g.eval x2 y2
        = h.eval (x1 * x2 - c * y1 * y2) (a1 * x1 * y2 + a2 * y1 * x2 + b * y1 * y2) := by
  obtain ⟨a1, a2, b, c, rfl, rfl, rfl, _⟩ := hc
  refine ⟨a1, a2, b, c, rfl, rfl, ?_⟩
  intro x1 y1 x2 y2
  simp only [Form.eval]; ring

theorem DirComp.disc {f g h : Form} (hc : DirComp f g h) : f.disc = h.disc ∧ g.disc = h.disc := by
  obtain ⟨a1, a2, b, c, rfl, rfl, rfl, _⟩ := hc
  simp only [Form.disc]
  constructor <;> ring

/-- composition of classes: `h` is (equivalent to) the Dirichlet composition of forms equivalent to `f`, `g` -/
def Comp (f g h : Form) : Prop :=
  ∃ f' g' h', PEquiv f f' ∧ PEquiv g g' ∧ PEquiv h' h ∧ DirComp f' g' h'

theorem Comp.disc {f g h : Form} (hc : Comp f g h) : f.disc = h.disc ∧ g.disc = h.disc := by
  obtain ⟨f', g', h', h1, h2, h3, h4⟩ := hc
  have := h4.disc
  rw [← h1.disc_eq, ← h2.disc_eq, h3.disc_eq]
  exact this

/-- `IsProduct D l g`: the class of `g` is the product of the classes of the forms of `l`
(iterated composition starting from the principal form) -/
inductive IsProduct (D : Int) : List Form → Form → Prop
  | nil : IsProduct D [] (principal D)
  | cons {f g h : Form} {l : List Form} : IsProduct D l g → Comp f g h → IsProduct D (f :: l) h
  | equiv {g h : Form} {l : List Form} : IsProduct D l g → PEquiv g h → IsProduct D l h

theorem principal_disc {D : Int} (hD : D % 4 = 0 ∨ D % 4 = 1) : (principal D).disc = D := by
  unfold principal Form.disc
  simp only
  rcases hD with h | h
  · have h2 : D % 2 = 0 := by omega
    rw [h2]
    have : (0 * 0 - D) / 4 = -(D / 4) := by omega
    rw [this]; omega
  · have h2 : D % 2 = 1 := by omega
    rw [h2]
    omega

/-- every form involved in a product has the discriminant `D` -/
theorem IsProduct.disc {D : Int} (hD : D % 4 = 0 ∨ D % 4 = 1) {l : List Form} {g : Form}
    (h : IsProduct D l g) : g.disc = D ∧ ∀ f ∈ l, f.disc = D := by
  induction h with
  | nil => exact ⟨principal_disc hD, by simp⟩
  | cons _ hc ih =>
    obtain ⟨h1, h2⟩ := hc.disc
    refine ⟨by rw [← h2]; exact ih.1, ?_⟩
    intro f hf
    rcases List.mem_cons.1 hf with rfl | hf
    · rw [h1, ← h2]; exact ih.1
    · exact ih.2 f hf
  | equiv _ he ih => exact ⟨by rw [he.disc_eq]; exact ih.1, ih.2⟩

/-- replacing the factors by equivalent forms -/
theorem IsProduct.congr {D : Int} {l : List Form} {g : Form} (h : IsProduct D l g) :
    ∀ l', List.Forall₂ PEquiv l l' → IsProduct D l' g := by
  induction h with
  | nil => intro l' h; cases h; exact .nil
  | cons _ hc ih =>
    intro l' h
    cases h with
    | cons hab hrest =>
      obtain ⟨f', g', h', h1, h2, h3, h4⟩ := hc
      exact .cons (ih _ hrest) ⟨f', g', h', hab.symm.trans h1, h2, h3, h4⟩
  | equiv _ he ih => intro l' h; exact .equiv (ih _ h) he

/-- a form `(1, b, c)` of discriminant `D` is equivalent to the principal form -/
theorem pequiv_principal {D b c : Int} (hD : D % 4 = 0 ∨ D % 4 = 1) (hd : b * b - 4 * c = D) :
    PEquiv (principal D) ⟨1, b, c⟩ := by
  apply pequiv_of_congr
  · rfl
  · simp [principal]
  · rw [principal_disc hD]; simp only [Form.disc]; linarith
  · simp only [principal]
    -- b ≡ D (mod 2)
    have : (b - D % 2) % 2 = 0 := by
      have h4 : b * b % 2 = b % 2 := by
        rcases Int.emod_two_eq_zero_or_one b with h | h
        · obtain ⟨k, hk⟩ : ∃ k, b = 2 * k := ⟨b / 2, by omega⟩
          rw [hk]; have : 2 * k * (2 * k) = 2 * (2 * k * k) := by ring
          omega
        · obtain ⟨k, hk⟩ : ∃ k, b = 2 * k + 1 := ⟨b / 2, by omega⟩
          rw [hk]; have : (2 * k + 1) * (2 * k + 1) = 2 * (2 * k * k + 2 * k) + 1 := by ring
          omega
      omega
    exact ⟨(b - D % 2) / 2, by omega⟩

/-- the form with first coefficient `q` and middle coefficient `b` of discriminant `D` -/
def formQB (D q b : Int) : Form := ⟨q, b, (b * b - D) / (4 * q)⟩

/-- coprimality along the chain: `gcd(q, ∏ rest, b) = 1` at every step -/
def ChainCoprime (b : Int) : List Int → Prop
  | [] => True
  | q :: qs => gcd3 q qs.prod b = 1 ∧ ChainCoprime b qs

/-- Iterated Dirichlet composition: if `b² - 4 (∏ qs) c = D`, the form `(∏ qs, b, c)` is the product of
the forms `(q, b, ·)`, `q ∈ qs`. -/
theorem dirichlet_chain {D b : Int} (hD : D % 4 = 0 ∨ D % 4 = 1) : ∀ (qs : List Int) (c : Int),
    (∀ q ∈ qs, q ≠ 0) → ChainCoprime b qs → b * b - 4 * qs.prod * c = D →
    IsProduct D (qs.map fun q => formQB D q b) ⟨qs.prod, b, c⟩
  | [], c, _, _, hd => by
    simp only [List.map_nil, List.prod_nil] at hd ⊢
    exact .equiv .nil (pequiv_principal hD (by linarith))
  | q :: qs, c, h0, hcop, hd => by
    have hq : q ≠ 0 := h0 q List.mem_cons_self
    simp only [List.prod_cons] at hd
    have ih := dirichlet_chain hD qs (q * c) (fun x hx => h0 x (List.mem_cons_of_mem _ hx)) hcop.2
      (by linear_combination hd)
    simp only [List.map_cons, List.prod_cons]
    refine .cons ih ⟨_, _, _, PEquiv.refl _, PEquiv.refl _, PEquiv.refl _, q, qs.prod, b, c, ?_, rfl, rfl, hcop.1⟩
    unfold formQB
    simp only [Form.mk.injEq, true_and]
    have : b * b - D = 4 * q * (qs.prod * c) := by linear_combination hd
    rw [this, Int.mul_ediv_cancel_left _ (by omega : 4 * q ≠ 0)]


/-! ### the forms `(p, y, ·)` are the prime forms, with the sign the code emits -/

theorem formQB_disc {D q b : Int} (_hq : q ≠ 0) (h : (4 * q) ∣ b * b - D) : (formQB D q b).disc = D := by
  unfold formQB Form.disc
  simp only
  have := Int.mul_ediv_cancel' h
  linear_combination -this

theorem primeForm_eq (D : Int) (p b : Nat) : primeForm D p b = formQB D p b := rfl

theorem primeForm_conj_eq (D : Int) (p b : Nat) : (primeForm D p b).conj = formQB D p (-(b : Int)) := by
  unfold primeForm Form.conj formQB
  simp

/-- `y² ≡ D (mod 4)` forces `y ≡ D (mod 2)` -/
theorem parity_of_sq {y D : Int} (h : (4 : Int) ∣ y * y - D) : (2 : Int) ∣ y - D := by
  obtain ⟨m, hm⟩ := h
  rcases Int.emod_two_eq_zero_or_one y with h | h
  · obtain ⟨k, hk⟩ : ∃ k, y = 2 * k := ⟨y / 2, by omega⟩
    subst hk
    have : D = 2 * (2 * k * k - 2 * m) := by linear_combination -hm
    exact ⟨k - (2 * k * k - 2 * m), by linear_combination -this⟩
  · obtain ⟨k, hk⟩ : ∃ k, y = 2 * k + 1 := ⟨y / 2, by omega⟩
    subst hk
    have : D = 2 * (2 * k * k + 2 * k - 2 * m) + 1 := by linear_combination -hm
    exact ⟨k - (2 * k * k + 2 * k - 2 * m), by linear_combination -this⟩

theorem two_mul_dvd {p : Nat} {x : Int} (hodd : p % 2 = 1) (h2 : (2 : Int) ∣ x) (hp : (p : Int) ∣ x) :
    (2 * (p : Int)) ∣ x := by
  apply IsCoprime.mul_dvd _ h2 hp
  refine ⟨-((p / 2 : Nat) : Int), 1, ?_⟩
  have : (p : Int) = 2 * ((p / 2 : Nat) : Int) + 1 := by omega
  linarith

/-- Odd prime `p` with normalised root `ρ`, `4p ∣ y² - D` (that is `p` divides the norm `(y² - D)/4`):
the form `(p, y, ·)` is the prime form `[p] = (p, ρ, ·)` when `y mod p = ρ` — the test of
`sieve_block_poly` — and its conjugate otherwise. Ramified primes (`p ∣ D`) included. -/
theorem primeForm_of_modSigned {D : Int} {p ρ : Nat} {y : Int} (hp : p.Prime) (hodd : p % 2 = 1)
    (hρ : IsBPlus D p ρ) (hy : (4 * (p : Int)) ∣ y * y - D) :
    (modSigned y p = ρ → PEquiv (formQB D p y) (primeForm D p ρ)) ∧
    (modSigned y p ≠ ρ → PEquiv (formQB D p y) (primeForm D p ρ).conj) := by
  have hp0 : (p : Int) ≠ 0 := by have := hp.pos; omega
  have hyp : (p : Int) ∣ y * y - D := Dvd.dvd.trans (Dvd.intro_left 4 rfl) hy
  have hy4 : (4 : Int) ∣ y * y - D := Dvd.dvd.trans (Dvd.intro _ rfl) hy
  have hpar := parity_of_sq hy4
  have hmd := modSigned_dvd y hp.pos
  obtain ⟨hle, hρ2, hρ4⟩ := hρ
  have hd1 : (formQB D p y).disc = D := formQB_disc hp0 hy
  constructor
  · intro hm
    rw [primeForm_eq]
    refine pequiv_of_congr (f := formQB D p y) (g := formQB D p ρ) rfl hp0 ?_ ?_
    · rw [hd1, formQB_disc hp0 hρ4]
    · simp only [formQB]
      rw [hm] at hmd
      have h2 : (2 : Int) ∣ (ρ : Int) - y := by
        have := Int.dvd_sub hρ2 hpar
        have e : (ρ : Int) - D - (y - D) = (ρ : Int) - y := by ring
        rwa [e] at this
      exact two_mul_dvd hodd h2 ((dvd_neg.2 hmd).mul_left 1 |> fun h => by simpa using h)
  · intro hm
    have hc : modSigned y p = p - ρ := by
      rcases modSigned_cases hp ⟨hle, hρ2, hρ4⟩ hyp with h | h
      · exact absurd h hm
      · exact h
    rw [primeForm_conj_eq]
    have hρ4' : (4 * (p : Int)) ∣ (-(ρ : Int)) * (-(ρ : Int)) - D := by
      have : (-(ρ : Int)) * (-(ρ : Int)) = (ρ : Int) * ρ := by ring
      rw [this]; exact hρ4
    refine pequiv_of_congr (f := formQB D p y) (g := formQB D p (-(ρ : Int))) rfl hp0 ?_ ?_
    · rw [hd1, formQB_disc hp0 hρ4']
    · simp only [formQB]
      rw [hc] at hmd
      have hcast : ((p - ρ : Nat) : Int) = (p : Int) - ρ := by omega
      rw [hcast] at hmd
      have h2 : (2 : Int) ∣ -(ρ : Int) - y := by
        obtain ⟨u, hu⟩ := hρ2
        obtain ⟨v, hv⟩ := hpar
        exact ⟨-u - v - D, by linear_combination -hu - hv⟩
      apply two_mul_dvd hodd h2
      obtain ⟨w, hw⟩ := hmd
      exact ⟨-1 - w, by linear_combination -hw⟩

/-- `p = 2` with normalised root `ρ ∈ {0, 1, 2}`, `8 ∣ y² - D`: the form `(2, y, ·)` is `[2] = (2, ρ, ·)`
when bit 1 of `y` is clear (`y mod 4 ∈ {0, 1}`), its conjugate when it is set — the rule of
`sieve_block_poly`. (`ρ = 0, 2`: `2 ∣ D`, the class has order ≤ 2 and both statements hold.) -/
theorem primeForm_of_bit1 {D : Int} {ρ : Nat} {y : Int} (hρ : IsBPlus D 2 ρ)
    (hy : (4 * ((2 : Nat) : Int)) ∣ y * y - D) :
    (bit1 y = false → PEquiv (formQB D (2 : Nat) y) (primeForm D 2 ρ)) ∧
    (bit1 y = true → PEquiv (formQB D (2 : Nat) y) (primeForm D 2 ρ).conj) := by
  obtain ⟨hle, hρ2, hρ4⟩ := hρ
  have h20 : ((2 : Nat) : Int) ≠ 0 := by norm_num
  have hd1 : (formQB D (2 : Nat) y).disc = D := formQB_disc h20 hy
  -- y = 4k + r
  obtain ⟨k, r, hk, hr0, hr4⟩ : ∃ k r : Int, y = 4 * k + r ∧ 0 ≤ r ∧ r < 4 :=
    ⟨y / 4, y % 4, by omega, by omega, by omega⟩
  obtain ⟨m, hm⟩ := hy
  obtain ⟨n, hn⟩ := hρ4
  have key : r * r - (ρ : Int) * ρ = 8 * (m - n - 2 * k * k - k * r) := by
    push_cast at hm hn
    subst hk
    linear_combination hm - hn
  generalize (m - n - 2 * k * k - k * r) = t at key
  have hb : bit1 y = decide (r ≥ 2) := by
    unfold bit1
    have : y % 4 = r := by omega
    rw [this]
  constructor
  · intro h
    rw [hb] at h
    have hr2 : r < 2 := by simpa using h
    rw [primeForm_eq]
    refine pequiv_of_congr (f := formQB D (2 : Nat) y) (g := formQB D (2 : Nat) ρ) rfl h20 ?_ ?_
    · rw [hd1, formQB_disc h20 ⟨n, hn⟩]
    · simp only [formQB]
      have : r = 0 ∨ r = 1 := by omega
      interval_cases ρ <;> rcases this with rfl | rfl <;> omega
  · intro h
    rw [hb] at h
    have hr2 : 2 ≤ r := by simpa using h
    rw [primeForm_conj_eq]
    have hρ4' : (4 * ((2 : Nat) : Int)) ∣ (-(ρ : Int)) * (-(ρ : Int)) - D :=
      ⟨n, by linear_combination hn⟩
    refine pequiv_of_congr (f := formQB D (2 : Nat) y) (g := formQB D (2 : Nat) (-(ρ : Int))) rfl h20 ?_ ?_
    · rw [hd1, formQB_disc h20 hρ4']
    · simp only [formQB]
      have : r = 2 ∨ r = 3 := by omega
      interval_cases ρ <;> rcases this with rfl | rfl <;> omega

/-- existence of the normalised root of any `p ≥ 1` dividing the norm `(y² - D)/4` -/
theorem exists_isBPlus {D : Int} {p : Nat} {y : Int} (hp : 0 < p) (hy : (4 * (p : Int)) ∣ y * y - D) :
    ∃ b, IsBPlus D p b := by
  have hp' : (0 : Int) < p := by exact_mod_cast hp
  obtain ⟨k, b0, hk, h0, h1⟩ : ∃ k b0 : Int, y = 2 * p * k + b0 ∧ 0 ≤ b0 ∧ b0 < 2 * p :=
    ⟨y / (2 * p), y % (2 * p), (Int.mul_ediv_add_emod y (2 * p)).symm,
      Int.emod_nonneg _ (by omega), Int.emod_lt_of_pos _ (by omega)⟩
  obtain ⟨m, hm⟩ := hy
  have hb0 : (4 * (p : Int)) ∣ b0 * b0 - D :=
    ⟨m - p * k * k - k * b0, by subst hk; linear_combination hm⟩
  have hpar : (2 : Int) ∣ b0 - D := parity_of_sq (Dvd.dvd.trans (Dvd.intro _ rfl) hb0)
  by_cases hle : b0 ≤ p
  · refine ⟨b0.toNat, by omega, ?_, ?_⟩
    · rw [Int.toNat_of_nonneg h0]; exact hpar
    · rw [Int.toNat_of_nonneg h0]; exact hb0
  · have hc : (((2 * p - b0).toNat : Nat) : Int) = 2 * p - b0 := Int.toNat_of_nonneg (by omega)
    refine ⟨(2 * p - b0).toNat, by omega, ?_, ?_⟩
    · rw [hc]
      obtain ⟨u, hu⟩ := hpar
      exact ⟨p - b0 + u, by linear_combination hu⟩
    · rw [hc]
      obtain ⟨u, hu⟩ := hb0
      exact ⟨p - b0 + u, by linear_combination hu⟩

end Ymq.ClassGroup
