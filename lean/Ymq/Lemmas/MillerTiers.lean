/-
`isprime64` and `pseudoprime` as Boolean combinations of plain modular Miller tests (C06):
the tier loop of `isprime64`, its small-table branch, the split `p - 1 = d 2^s` of `pseudoprime`.
-/
import Ymq.Lemmas.MillerSpec

namespace Ymq.Mg64
open Ymq.Pseudoprime (millerBase SPRP)
open Ymq.Gen.Primality

/-- the context `isprime64` builds for `p` -/
def ctxOf (p pinv : Nat) : Ctx :=
  { p := p, pinv := pinv, r1 := (W - p) % p, r2 := (W - p) % p * ((W - p) % p) % p,
    tz := tz64 (p - 1), podd := p / 2 ^ tz64 (p - 1) }

/-- the tier loop of `isprime64` over the plain modular Miller test -/
def runTiersN (p s d : Nat) : List (Nat × List Nat) → Bool
  | [] => true
  | (thr, bases) :: ts =>
    if thr = 0 ∨ p / 2 ^ thr ≠ 0 then bases.all (millerBase p s d) && runTiersN p s d ts
    else runTiersN p s d ts

theorem allMiller_cons (c : Ctx) (b : Nat) (bs : List Nat) (v : Bool) (h : miller c b = some v) :
    allMiller c (b :: bs) = if v then allMiller c bs else some false := by
  simp [allMiller, h]

theorem runTiers_cons (c : Ctx) (thr : Nat) (bases : List Nat) (ts : List (Nat × List Nat))
    (v : Bool) (h : allMiller c bases = some v) :
    runTiers c ((thr, bases) :: ts) =
      if thr = 0 ∨ c.p / 2 ^ thr ≠ 0 then (if v then runTiers c ts else some false)
      else runTiers c ts := by
  simp [runTiers, h]

theorem runTiers_skip (c : Ctx) (thr : Nat) (bases : List Nat) (ts : List (Nat × List Nat))
    (h : ¬ (thr = 0 ∨ c.p / 2 ^ thr ≠ 0)) :
    runTiers c ((thr, bases) :: ts) = runTiers c ts := by
  simp only [runTiers]; rw [if_neg h]

theorem isprime64_step (p : Nat) (c : Ctx) (h1 : ¬ p < smallPrimes.getLast!) (h2 : p % 2 = 1)
    (h3 : mkCtx p = some c) : isprime64 p = runTiers c tiers := by
  unfold isprime64
  rw [if_neg h1, if_neg (by simp [h2]), h3]
  rfl

section
variable {p pinv : Nat} (h : MontOk p pinv)
include h

theorem allMiller_eq (h3 : 2 < p) : ∀ bs : List Nat, (∀ b ∈ bs, b < p) →
    allMiller (ctxOf p pinv) bs =
      some (bs.all (millerBase p (tz64 (p - 1)) (p / 2 ^ tz64 (p - 1)))) := by
  obtain ⟨_, _, _, _, hd⟩ := tz_podd_spec p h3 h.odd h.lt
  intro bs
  induction bs with
  | nil => intro _; rfl
  | cons b bs ih =>
    intro hb
    have hm := miller_eq_millerBase h (tz64 (p - 1)) (p / 2 ^ tz64 (p - 1)) b hd
      (hb b (List.mem_cons_self))
    rw [allMiller_cons (ctxOf p pinv) b bs _ hm, ih (fun b' hb' => hb b' (List.mem_cons_of_mem _ hb'))]
    rw [List.all_cons]
    cases millerBase p (tz64 (p - 1)) (p / 2 ^ tz64 (p - 1)) b <;> simp

theorem runTiers_eq (h3 : 2 < p) : ∀ ts : List (Nat × List Nat), (∀ t ∈ ts, ∀ b ∈ t.2, b < p) →
    runTiers (ctxOf p pinv) ts = some (runTiersN p (tz64 (p - 1)) (p / 2 ^ tz64 (p - 1)) ts) := by
  intro ts
  induction ts with
  | nil => intro _; rfl
  | cons t ts ih =>
    intro hb
    obtain ⟨thr, bases⟩ := t
    have ih' := ih (fun t' ht' => hb t' (List.mem_cons_of_mem _ ht'))
    have ha := allMiller_eq h h3 bases (hb (thr, bases) List.mem_cons_self)
    rw [runTiers_cons _ thr bases ts _ ha, ih']
    simp only [runTiersN]
    have : (ctxOf p pinv).p = p := rfl
    rw [this]
    by_cases c : thr = 0 ∨ p / 2 ^ thr ≠ 0
    · rw [if_pos c, if_pos c]
      cases bases.all (millerBase p (tz64 (p - 1)) (p / 2 ^ tz64 (p - 1))) <;> simp
    · rw [if_neg c, if_neg c]

end

/-- the small-table branch is exact (decided on the generated table) -/
theorem smallTable_exact : ∀ p, p < 199 → (smallPrimes.contains p = true ↔ Nat.Prime p) := by
  decide +kernel

theorem smallTable_last : smallPrimes.getLast! = 199 := by decide

theorem smallTable_even : ∀ p, p < 199 → p % 2 = 0 → smallPrimes.contains p = decide (p = 2) := by
  decide +kernel

/-- every Miller base of `isprime64` is a positive number below the table bound 199 -/
theorem tiers_bases_small : ∀ t ∈ tiers, ∀ b ∈ t.2, 0 < b ∧ b < 199 := by decide

/-- `isprime64` on odd `p ≥ 199`: no panic, and the answer is the conjunction of the plain
Miller tests of the active tiers. -/
theorem isprime64_odd_eq (p : Nat) (h199 : 199 ≤ p) (hodd : p % 2 = 1) (hlt : p < W) :
    isprime64 p = some (runTiersN p (tz64 (p - 1)) (p / 2 ^ tz64 (p - 1)) tiers) := by
  obtain ⟨pinv, hok, hmk⟩ := mkCtx_spec p (by omega) hodd hlt
  rw [isprime64_step p _ (by rw [smallTable_last]; omega) hodd hmk]
  exact runTiers_eq hok (by omega) tiers
    (fun t ht b hb => lt_of_lt_of_le (tiers_bases_small t ht b hb).2 h199)

theorem isprime64_small (p : Nat) (h : p < 199) : isprime64 p = some (smallPrimes.contains p) := by
  unfold isprime64; rw [if_pos (by rw [smallTable_last]; exact h)]

/-- a prime passes every tier -/
theorem runTiersN_prime (p s d : Nat) (hp : Nat.Prime p) (hpd : p - 1 = d * 2 ^ s)
    (hd : d < 2 ^ 1024) : ∀ ts : List (Nat × List Nat), (∀ t ∈ ts, ∀ b ∈ t.2, 0 < b ∧ b < p) →
    runTiersN p s d ts = true := by
  intro ts
  induction ts with
  | nil => intro _; rfl
  | cons t ts ih =>
    intro hb
    obtain ⟨thr, bases⟩ := t
    have ih' := ih (fun t' ht' => hb t' (List.mem_cons_of_mem _ ht'))
    have hall : bases.all (millerBase p s d) = true := by
      rw [List.all_eq_true]
      intro b hbm
      obtain ⟨b0, bp⟩ := hb (thr, bases) List.mem_cons_self b hbm
      exact Ymq.Pseudoprime.millerBase_prime p s d b hp hpd
        (fun hdv => by have := Nat.le_of_dvd b0 hdv; omega) hd
    simp only [runTiersN, hall, ih', Bool.and_self, ite_self]

/-- bases of the tiers whose threshold is at most `k` -/
def basesUpTo (k : Nat) (ts : List (Nat × List Nat)) : List Nat :=
  (ts.filter (fun t => t.1 ≤ k)).flatMap (·.2)

/-- if `p` passes the tier loop, it passes the Miller test for every base of a tier that is
active for `p` (in particular every tier with `2^thr ≤ p`). -/
theorem runTiersN_true (p s d k : Nat) (hk : 2 ^ k ≤ p) : ∀ ts : List (Nat × List Nat),
    runTiersN p s d ts = true → ∀ b ∈ basesUpTo k ts, millerBase p s d b = true := by
  intro ts
  induction ts with
  | nil => intro _ b hb; simp [basesUpTo] at hb
  | cons t ts ih =>
    obtain ⟨thr, bases⟩ := t
    intro hrun b hb
    simp only [runTiersN] at hrun
    by_cases c : thr = 0 ∨ p / 2 ^ thr ≠ 0
    · rw [if_pos c, Bool.and_eq_true, List.all_eq_true] at hrun
      simp only [basesUpTo, List.filter_cons] at hb
      by_cases c2 : thr ≤ k
      · simp only [c2, decide_true, if_true, List.flatMap_cons, List.mem_append] at hb
        rcases hb with hb | hb
        · exact hrun.1 b hb
        · exact ih hrun.2 b hb
      · simp only [c2, decide_false] at hb
        exact ih hrun.2 b hb
    · rw [if_neg c] at hrun
      simp only [basesUpTo, List.filter_cons] at hb
      have c2 : ¬ thr ≤ k := by
        intro hle
        apply c
        right
        have : 2 ^ thr ≤ p := le_trans (Nat.pow_le_pow_right (by decide) hle) hk
        have := Nat.div_pos this (by positivity)
        omega
      simp only [c2, decide_false] at hb
      exact ih hrun b hb

/-- generated constants: the bases used from 0, 2^20 and 2^40 on contain the sets for which the
literature bounds ψ₂, ψ₅, ψ₁₂ are stated.  Moving a threshold up or dropping a base in the Rust
source makes one of these `decide`s fail. -/
theorem tiers_cover_0 : ∀ b ∈ [2, 3], b ∈ basesUpTo 0 tiers := by decide
theorem tiers_cover_20 : ∀ b ∈ [2, 3, 5, 7, 11], b ∈ basesUpTo 20 tiers := by decide
theorem tiers_cover_40 :
    ∀ b ∈ [2, 3, 5, 7, 11, 13, 17, 19, 23, 29, 31, 37], b ∈ basesUpTo 40 tiers := by decide

/-- the split `p - 1 = (p >> s) 2^s` whenever `2^s` divides `p - 1`, `s ≥ 1` -/
theorem shift_split (p s : Nat) (hp : 0 < p) (hs : 1 ≤ s) (hdvd : (p - 1) % 2 ^ s = 0) :
    p - 1 = p / 2 ^ s * 2 ^ s := by
  have e1 := Nat.div_add_mod (p - 1) (2 ^ s)
  rw [hdvd] at e1
  have h2s : 1 < 2 ^ s := Nat.one_lt_two_pow (by omega)
  have e2 : p / 2 ^ s = (p - 1) / 2 ^ s := by
    have : p = 2 ^ s * ((p - 1) / 2 ^ s) + 1 := by omega
    conv_lhs => rw [this]
    rw [Nat.mul_add_div (by omega), Nat.div_eq_of_lt h2s, Nat.add_zero]
  rw [e2, Nat.mul_comm]; omega

/-- the split used by `pseudoprime`: `s = (p.low_u64() - 1).trailing_zeros()` (64 when the low
word is 1) always gives an exact `p - 1 = (p >> s) 2^s`, although `p >> s` may be even. -/
theorem pp_split (p : Nat) (hodd : p % 2 = 1) :
    p - 1 = p / 2 ^ tz64 (p % W - 1) * 2 ^ tz64 (p % W - 1) := by
  have hW0 : 0 < W := by decide
  have hl : p % W % 2 = 1 := by
    rw [Nat.mod_mod_of_dvd p (by decide : 2 ∣ W)]; exact hodd
  have hlW : p % W < W := Nat.mod_lt _ hW0
  have e0 := Nat.div_add_mod p W
  rcases Nat.eq_zero_or_pos (p % W - 1) with h0 | h0
  · rw [h0]
    have : tz64 0 = 64 := by decide
    rw [this, ← W_eq]
    apply shift_split p 64 (by omega) (by omega)
    rw [← W_eq]
    have : p - 1 = W * (p / W) := by omega
    rw [this, Nat.mul_mod_right]
  · obtain ⟨a, b, c⟩ := tz64_spec (p % W - 1) h0 (by omega)
    generalize tz64 (p % W - 1) = s at *
    have hs : 1 ≤ s := le_of_pow_dvd_of_odd_quot (p % W - 1) 1 s (by simp; omega) b c
    apply shift_split p s (by omega) hs
    have hsW : 2 ^ s ∣ W := by rw [W_eq]; exact pow_dvd_pow 2 (by omega)
    have : p - 1 = W * (p / W) + (p % W - 1) := by omega
    rw [this]
    exact (Nat.dvd_iff_mod_eq_zero).1
      (dvd_add (dvd_mul_of_dvd_left hsW _) (Nat.dvd_of_mod_eq_zero b))

/-- `SPRP` is decided by the executable plain Miller test (used to evaluate `SPRP` on literals) -/
theorem sprp_iff_millerBase (n b : Nat) (h3 : 2 < n) (hodd : n % 2 = 1) (hlt : n < W) :
    SPRP n b ↔ millerBase n (tz64 (n - 1)) (n / 2 ^ tz64 (n - 1)) b = true := by
  obtain ⟨_, _, hpd, hd, hd64⟩ := tz_podd_spec n h3 hodd hlt
  exact (Ymq.Pseudoprime.millerBase_iff_SPRP n _ _ b h3 hodd hd hpd
    (lt_trans hd64 (Nat.pow_lt_pow_right (by decide) (by decide)))).symm

theorem smallPrimes_small : ∀ b ∈ smallPrimes, 0 < b ∧ b < W := by decide

end Ymq.Mg64
