/-
Model of src/squfof.rs (Shanks's square forms factorization on `u64`): `squfof`, `maybe_square`
and (through `Ymq.Arith.squfofIsqrt`, Model/Arith.lean) `isqrt`.

Line-by-line over `Nat` with explicit `u64` semantics. Every site where the checked profile
(overflow-checks + debug-assertions) would panic returns `none`:

  squfof.rs:15  `n.checked_mul(k)`                    NOT a panic: `break` (`Step.stop`)
  squfof.rs:16  `isqrt(nk)`                           `isqrt` (division by zero / overflow inside)
  squfof.rs:17  `nsqrt * nsqrt`                       overflow
  squfof.rs:21  `3 * isqrt(nsqrt)`                    overflow
  squfof.rs:25  `nk - nsqrt * nsqrt`                  underflow
  squfof.rs:26  `if q == 0 { continue }`              (repair f24afb6: before it, the next division divided by zero
                                                      whenever n*k was a perfect square, k >= 2)
  squfof.rs:37  `(nsqrt + p_prev) / q`                overflow, DIVISION BY ZERO
  squfof.rs:38  `b * q - p_prev`                      overflow, underflow
  squfof.rs:41  `q_prev + b * (p_prev - p)`           overflow (twice)
  squfof.rs:43  `q_prev - b * (p - p_prev)`           overflow, underflow
  squfof.rs:45  `maybe_square(qnext)`                 `(n + 1)` overflow (evaluated only when the
                                                      first conjunct holds: `&&` short-circuits)
  squfof.rs:46  `isqrt(qnext)`, `qsqrt * qsqrt`
  squfof.rs:59  `(nsqrt - p_prev) / q_sqrt`           underflow, DIVISION BY ZERO
  squfof.rs:60  `b * q_sqrt + p_prev`                 overflow (twice)
  squfof.rs:62  `(nk - p_prev * p_prev) / q_prev`     overflow, underflow, division by zero
  squfof.rs:68-75  same body as 37-44
  squfof.rs:87  `assert_eq!(n % f, 0)`                assertion (`f > 1` so no `% 0`)

What is a parameter / a specification function:
* the floating point seed of `isqrt`, `(n as f64).sqrt() as u64`, is the parameter
  `seed : Nat → Nat` of every definition (the theorems quantify over all seeds within 1 of the
  floor square root, `SeedOK`); the Newton loop itself is `Ymq.Arith.sqLoop`;
* `num_integer::Integer::gcd` (library code, binary gcd on `u64`, cannot panic) is `Nat.gcd`.

Loops: `for i in 1..=iters` is recursion on fuel = `iters` with the counter `i` explicit; when
the range is exhausted (only possible for `iters = 0`) the code falls through with the values the
variables have at that point (`q_sqrt = 0`): that is what the fuel-0 equations return.
Note squfof.rs:17 compares `nsqrt * nsqrt` with `n` although `nsqrt = isqrt(n * k)`: modelled as is.
No Mathlib import.
-/
import Ymq.Model.Arith

namespace Ymq.Squfof

/-- 2^64 -/
def W : Nat := 18446744073709551616

/-- iterations allowed to the Newton loop of `isqrt` (3 suffice from an admissible seed:
`Ymq.Squfof.isqrt_eq`) -/
def isqrtFuel : Nat := 8

/-- `isqrt(n)` (squfof.rs:99-115) with the f64 seed `seed n`. -/
def isqrt (seed : Nat → Nat) (n : Nat) : Option Nat :=
  Ymq.Arith.squfofIsqrt isqrtFuel n (seed n)

/-- `maybe_square(n)` (squfof.rs:94-96):
`(n & 6 == 0 || n & 7 == 4) && (n + 1) % 5 <= 2`. -/
def maybeSquare (n : Nat) : Option Bool :=
  if n % 8 = 0 ∨ n % 8 = 1 ∨ n % 8 = 4 then
    if n + 1 ≥ W then none                               -- n + 1 overflows
    else some (decide ((n + 1) % 5 ≤ 2))
  else some false

/-- the common body of both `for` loops (squfof.rs:37-44 and 68-75): `(p, qnext)`. -/
def step (nsqrt pPrev qPrev q : Nat) : Option (Nat × Nat) :=
  if nsqrt + pPrev ≥ W then none                         -- nsqrt + p_prev
  else if q = 0 then none                                -- / q
  else
    let b := (nsqrt + pPrev) / q
    if b * q ≥ W then none                               -- b * q
    else if b * q < pPrev then none                      -- b * q - p_prev
    else
      let p := b * q - pPrev
      if pPrev > p then
        if b * (pPrev - p) ≥ W then none                 -- b * (p_prev - p)
        else if qPrev + b * (pPrev - p) ≥ W then none    -- q_prev + …
        else some (p, qPrev + b * (pPrev - p))
      else
        if b * (p - pPrev) ≥ W then none                 -- b * (p - p_prev)
        else if qPrev < b * (p - pPrev) then none        -- q_prev - …
        else some (p, qPrev - b * (p - pPrev))

/-- result of the first loop: `none` = `continue 'kloop`, `some (q_sqrt, p_prev)` = the values
after the loop (after `break`, or the initial ones when the range was empty). -/
abbrev FwdRes := Option (Nat × Nat)

/-- first loop (squfof.rs:32-57), arguments: fuel, `i`, `p_prev`, `q_prev`, `q`. -/
def fwdLoop (seed : Nat → Nat) (nsqrt iters : Nat) :
    Nat → Nat → Nat → Nat → Nat → Option FwdRes
  | 0, _, pPrev, _, _ => some (some (0, pPrev))          -- range exhausted: q_sqrt is still 0
  | f + 1, i, pPrev, qPrev, q =>
    if i = iters then some none                          -- continue 'kloop
    else
      match step nsqrt pPrev qPrev q with
      | none => none
      | some (p, qnext) =>
        match maybeSquare qnext with
        | none => none
        | some false => fwdLoop seed nsqrt iters f (i + 1) p q qnext
        | some true =>
          match isqrt seed qnext with
          | none => none
          | some qsqrt =>
            if qsqrt * qsqrt ≥ W then none               -- qsqrt * qsqrt
            else if qnext = qsqrt * qsqrt ∧ i % 2 = 1 then some (some (qsqrt, p))
            else fwdLoop seed nsqrt iters f (i + 1) p q qnext

/-- second loop (squfof.rs:63-83): `none` = `continue 'kloop`, `some p_prev` = value after it. -/
def invLoop (nsqrt iters : Nat) : Nat → Nat → Nat → Nat → Nat → Option (Option Nat)
  | 0, _, pPrev, _, _ => some (some pPrev)               -- range exhausted
  | f + 1, i, pPrev, qPrev, q =>
    if i = iters then some none                          -- continue 'kloop
    else
      match step nsqrt pPrev qPrev q with
      | none => none
      | some (p, qnext) =>
        if p = pPrev then some (some pPrev)              -- break
        else invLoop nsqrt iters f (i + 1) p q qnext

/-- what one round of `'kloop` does -/
inductive Step where
  | ret (a b : Nat)        -- return Some((a, b))
  | next                   -- continue 'kloop (or fall out of its body)
  | stop                   -- break (checked_mul failed)
  deriving DecidableEq, Repr

/-- the part of the body after the first loop (squfof.rs:59-89) -/
def finish (n nk nsqrt iters qSqrt pPrev : Nat) : Option Step :=
  if nsqrt < pPrev then none                             -- nsqrt - p_prev
  else if qSqrt = 0 then none                            -- / q_sqrt
  else
    let b := (nsqrt - pPrev) / qSqrt
    if b * qSqrt ≥ W then none                           -- b * q_sqrt
    else if b * qSqrt + pPrev ≥ W then none              -- … + p_prev
    else
      let p0 := b * qSqrt + pPrev
      if p0 * p0 ≥ W then none                           -- p_prev * p_prev
      else if nk < p0 * p0 then none                     -- nk - …
      else
        let q1 := (nk - p0 * p0) / qSqrt                 -- / q_prev (= q_sqrt ≠ 0)
        match invLoop nsqrt iters iters 1 p0 qSqrt q1 with
        | none => none
        | some none => some .next
        | some (some pf) =>
          let f := Nat.gcd n pf
          if f > 1 then
            if n % f ≠ 0 then none                       -- assert_eq!(n % f, 0)
            else some (.ret f (n / f))
          else some .next

/-- dispatch on the way the first loop was left (`continue 'kloop` / fall through) -/
def afterFwd (n nk nsqrt iters : Nat) : Option FwdRes → Option Step
  | none => none
  | some none => some .next
  | some (some (qSqrt, pPrev)) => finish n nk nsqrt iters qSqrt pPrev

/-- body of `'kloop` for the multiplier `k` (squfof.rs:15-89) -/
def attempt (seed : Nat → Nat) (n k : Nat) : Option Step :=
  if n * k ≥ W then some .stop                           -- checked_mul: break
  else
    let nk := n * k
    match isqrt seed nk with
    | none => none
    | some nsqrt =>
      if nsqrt * nsqrt ≥ W then none                     -- nsqrt * nsqrt
      else if nsqrt * nsqrt = n then some (.ret nsqrt nsqrt)
      else
        match isqrt seed nsqrt with
        | none => none
        | some r =>
          if 3 * r ≥ W then none                         -- 3 * isqrt(nsqrt)
          else
            let iters := 3 * r
            if nk < nsqrt * nsqrt then none              -- nk - nsqrt * nsqrt
            else if nk - nsqrt * nsqrt = 0 then some .next -- q == 0: continue (fix f24afb6)
            else
              afterFwd n nk nsqrt iters
                (fwdLoop seed nsqrt iters iters 1 nsqrt 1 (nk - nsqrt * nsqrt))

/-- `'kloop: for k in ..`, arguments: number of multipliers left, `k`. -/
def kLoop (seed : Nat → Nat) (n : Nat) : Nat → Nat → Option (Option (Nat × Nat))
  | 0, _ => some none
  | f + 1, k =>
    match attempt seed n k with
    | none => none
    | some .stop => some none
    | some (.ret a b) => some (some (a, b))
    | some .next => kLoop seed n f (k + 1)

/-- `squfof(n)` (squfof.rs:11-92): `none` = panic, `some none` = `None`, `some (some (a, b))`. -/
def squfof (seed : Nat → Nat) (n : Nat) : Option (Option (Nat × Nat)) := kLoop seed n 50 1

/-- the exact seed (floor square root by bisection, `Ymq.Arith.isqrt`): used by the examples;
`Ymq.Squfof.squfof_seed_irrelevant` shows every admissible seed gives the same run. -/
def exactSeed (n : Nat) : Nat := Ymq.Arith.isqrt n

/-! ### tracing variant (driver only): multiplier and loop counters of the deciding round -/

/-- number of iterations the first loop ran before leaving (same recursion as `fwdLoop`) -/
def fwdCount (seed : Nat → Nat) (nsqrt iters : Nat) : Nat → Nat → Nat → Nat → Nat → Nat
  | 0, i, _, _, _ => i
  | f + 1, i, pPrev, qPrev, q =>
    if i = iters then i
    else
      match step nsqrt pPrev qPrev q with
      | none => i
      | some (p, qnext) =>
        match maybeSquare qnext, isqrt seed qnext with
        | some true, some qsqrt =>
          if qnext = qsqrt * qsqrt ∧ i % 2 = 1 then i
          else fwdCount seed nsqrt iters f (i + 1) p q qnext
        | _, _ => fwdCount seed nsqrt iters f (i + 1) p q qnext

/-- first `k` whose round does not `continue` (or 51), with the outcome of that round -/
def traceK (seed : Nat → Nat) (n : Nat) : Nat → Nat → Nat × Option Step
  | 0, k => (k, some .next)
  | f + 1, k =>
    match attempt seed n k with
    | some .next => traceK seed n f (k + 1)
    | r => (k, r)

end Ymq.Squfof
