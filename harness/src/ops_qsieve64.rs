//! `qsieve64::qsieve` (C03/qs64). Same answers as lean/Ymq/Drv/Qsieve64.lean.
//!
//!   qs64_k n               -> the multiplier chosen by the real `select_multiplier`
//!   qs64_rels n            -> k=<k> <body>          (body as below; the model needs k: follow-up request)
//!   qs64_rels n k          -> <body> = early a,b | fb=<p,..> sq=<r,..> rels=<rel;..|-> | panic
//!                             (`?k=<real k>` when k is not the multiplier the real code selects)
//!   qs64 n                 -> k=<k> kernel=<i,i;i,..|-> <result>
//!   qs64 n k kernel        -> <result> = none | some a b | panic        (kernel is ignored here: the real
//!                             solver computes it; it is an input of the model only)
//! `rels` are the relations the real function hands to `relations::final_step`, recorded by the
//! existing observer of that function (relations.rs `verif_hooks::observe_final_step`); the kernel
//! vectors by `observe_kernel`. No hook inside qsieve64.rs is needed: `select_multiplier` is public.
use crate::util::*;
use std::panic::{catch_unwind, AssertUnwindSafe};
use yamaquasi::fbase::FBase;
use yamaquasi::relations::verif_hooks as vh;
use yamaquasi::{qsieve64, Verbosity};

fn run(n: u64) -> (Option<Option<(u64, u64)>>, Vec<String>) {
    vh::final_start();
    let r = catch_unwind(AssertUnwindSafe(|| qsieve64::qsieve(n, Verbosity::Silent)));
    let log = vh::final_take();
    (r.ok(), log)
}

fn rels_body(n: u64, k: u32) -> String {
    let (r, log) = run(n);
    // a panic AFTER the call of final_step (inside it, or in the lines after it) does not concern the
    // relations: they were recorded at the call
    let step = log.iter().rev().find(|t| t.starts_with("step|"));
    match (step, r) {
        (None, None) => "panic".to_string(),
        (None, Some(Some((a, b)))) => format!("early {a},{b}"),
        (None, Some(None)) => "none-without-final-step".to_string(),
        (Some(st), _) => {
            let f: Vec<&str> = st.splitn(4, '|').collect();
            let fb = FBase::new64(n.wrapping_mul(k as u64));
            let dash = |s: &str| if s.is_empty() { "-".to_string() } else { s.to_string() };
            // primes as recorded at the call; square roots recomputed (deterministic)
            format!("fb={} sq={} rels={}", dash(f[2]), show_list(&fb.sqrts), dash(f[3]))
        }
    }
}

fn result_body(n: u64) -> (String, String) {
    let (r, log) = run(n);
    let kernel = log
        .iter()
        .rev()
        .find_map(|t| t.strip_prefix("kernel|"))
        .unwrap_or("");
    let kernel = if kernel.is_empty() { "-".to_string() } else { kernel.to_string() };
    let res = match r {
        None => "panic".to_string(),
        Some(None) => "none".to_string(),
        Some(Some((a, b))) => format!("some {a} {b}"),
    };
    (kernel, res)
}

pub fn handle(op: &str, a: &[&str]) -> Option<String> {
    match (op, a) {
        ("qs64_k", [n]) => Some(qsieve64::select_multiplier(u64_of(n)?).0.to_string()),
        ("qs64_rels", [n]) => {
            let n = u64_of(n)?;
            let k = qsieve64::select_multiplier(n).0;
            Some(format!("k={k} {}", rels_body(n, k)))
        }
        ("qs64_rels", [n, k]) => {
            let n = u64_of(n)?;
            let k: u32 = k.parse().ok()?;
            let kr = qsieve64::select_multiplier(n).0;
            if kr != k {
                return Some(format!("?k={kr}"));
            }
            Some(rels_body(n, k))
        }
        ("qs64", [n]) => {
            let n = u64_of(n)?;
            let k = qsieve64::select_multiplier(n).0;
            let (kernel, res) = result_body(n);
            Some(format!("k={k} kernel={kernel} {res}"))
        }
        ("qs64", [n, k, _kernel]) => {
            let n = u64_of(n)?;
            let k: u32 = k.parse().ok()?;
            let kr = qsieve64::select_multiplier(n).0;
            if kr != k {
                return Some(format!("?k={kr}"));
            }
            Some(result_body(n).1)
        }
        _ => None,
    }
}
