/-
Finite-sum lemmas behind the Kronecker substitution (property C10), independent of the model:
base-`B` digits of a digit sum, the exact product of two packed words as a sum of digits, the
bound on a digit, and the re-indexing theorem `scatter_sum`: scattering digit `j` of product word
`i` to index `(i·A + j) mod size` and adding gives the cyclic product modulo `X^size - 1`.
-/
import Mathlib.Algebra.BigOperators.Group.Finset.Basic
import Mathlib.Algebra.BigOperators.Ring.Finset
import Mathlib.Algebra.BigOperators.Intervals
import Mathlib.Algebra.Order.BigOperators.Group.Finset
import Mathlib.Tactic.Ring
import Mathlib.Tactic.Linarith

namespace Ymq.Kronecker
open Finset

/-- `Σ_{a<L} Σ_{j<A} h(a·A + j) = Σ_{u<L·A} h u` -/
theorem sum_block (L A : Nat) (h : Nat → Nat) :
    ∑ a ∈ range L, ∑ j ∈ range A, h (a * A + j) = ∑ u ∈ range (L * A), h u := by
  induction L with
  | zero => simp
  | succ L ih => rw [sum_range_succ, ih, Nat.succ_mul, sum_range_add]

/-- value of the packed word `a`: `Σ_{j<A} f(a·A + j)·B^j` -/
def packVal (A B : Nat) (f : Nat → Nat) (a : Nat) : Nat := ∑ j ∈ range A, f (a * A + j) * B ^ j

/-- digit `j` of the exact product word `i`: the sum of the coefficient products
`f(a·A + j1)·g(b·A + j2)` over `a + b ≡ i (mod L)`, `j1 + j2 = j` -/
def digitSum (A L : Nat) (f g : Nat → Nat) (i j : Nat) : Nat :=
  ∑ a ∈ range L, ∑ j1 ∈ range A, ∑ j2 ∈ range A,
    if j1 + j2 = j then f (a * A + j1) * g ((i + L - a) % L * A + j2) else 0

/-- the exact cyclic product word `i` of the packed operands -/
def wordProd (A B L : Nat) (f g : Nat → Nat) (i : Nat) : Nat :=
  ∑ a ∈ range L, packVal A B f a * packVal A B g ((i + L - a) % L)

theorem wordProd_eq_digits (A B L : Nat) (f g : Nat → Nat) (i : Nat) :
    wordProd A B L f g i = ∑ j ∈ range (2 * A - 1), digitSum A L f g i j * B ^ j := by
  unfold wordProd digitSum packVal
  -- right-hand side: push B^j inside and sum j out
  have hr : ∀ j, (∑ a ∈ range L, ∑ j1 ∈ range A, ∑ j2 ∈ range A,
      if j1 + j2 = j then f (a * A + j1) * g ((i + L - a) % L * A + j2) else 0) * B ^ j =
      ∑ a ∈ range L, ∑ j1 ∈ range A, ∑ j2 ∈ range A,
      if j1 + j2 = j then f (a * A + j1) * g ((i + L - a) % L * A + j2) * B ^ j else 0 := by
    intro j
    simp only [Finset.sum_mul, ite_mul, zero_mul]
  simp only [hr]
  rw [Finset.sum_comm]
  apply Finset.sum_congr rfl
  intro a _
  rw [Finset.sum_comm, Finset.sum_mul_sum]
  apply Finset.sum_congr rfl
  intro j1 hj1
  rw [Finset.sum_comm]
  apply Finset.sum_congr rfl
  intro j2 hj2
  rw [Finset.sum_ite_eq]
  have : j1 + j2 ∈ range (2 * A - 1) := by
    simp only [mem_range] at *; omega
  rw [if_pos this, pow_add]
  ring

/-- base-`B` digits of `Σ_{j<m} d j · B^j` when every `d j < B` -/
theorem digits_of_sum (B m : Nat) (d : Nat → Nat) (hd : ∀ j < m, d j < B) :
    (∑ j ∈ range m, d j * B ^ j) < B ^ m ∧
    ∀ j < m, (∑ j ∈ range m, d j * B ^ j) / B ^ j % B = d j := by
  induction m with
  | zero => simp
  | succ m ih =>
    obtain ⟨h1, h2⟩ := ih (fun j hj => hd j (by omega))
    have hB : 0 < B := by have := hd m (by omega); omega
    have hBm : 0 < B ^ m := Nat.pow_pos hB
    rw [sum_range_succ]
    refine ⟨?_, ?_⟩
    · have := hd m (by omega)
      calc ∑ x ∈ range m, d x * B ^ x + d m * B ^ m < B ^ m + d m * B ^ m := by omega
        _ = (d m + 1) * B ^ m := by ring
        _ ≤ B * B ^ m := Nat.mul_le_mul_right _ (by omega)
        _ = B ^ (m + 1) := by rw [pow_succ]; ring
    · intro j hj
      rcases Nat.lt_or_ge j m with hjm | hjm
      · have e : d m * B ^ m = B ^ j * (d m * B ^ (m - j - 1) * B) := by
          have hp : B ^ m = B ^ j * B ^ (m - j - 1) * B := by
            rw [← pow_add, ← pow_succ]; congr 1; omega
          rw [hp]; ring
        rw [e, Nat.add_mul_div_left _ _ (Nat.pow_pos hB), Nat.add_mul_mod_self_right]
        exact h2 j hjm
      · have : j = m := by omega
        subst this
        rw [Nat.add_mul_div_right _ _ hBm, Nat.div_eq_of_lt h1, Nat.zero_add]
        exact Nat.mod_eq_of_lt (hd j (by omega))


theorem sum_ite_add_le (A j1 j c : Nat) (t : Nat → Nat) (ht : ∀ j2, t j2 ≤ c) :
    ∑ j2 ∈ range A, (if j1 + j2 = j then t j2 else 0) ≤ c := by
  calc ∑ j2 ∈ range A, (if j1 + j2 = j then t j2 else 0)
      ≤ ∑ j2 ∈ range A, (if j2 = j - j1 then c else 0) := by
        apply Finset.sum_le_sum
        intro j2 _
        by_cases h : j1 + j2 = j
        · rw [if_pos h, if_pos (by omega)]; exact ht j2
        · rw [if_neg h]; exact Nat.zero_le _
    _ ≤ c := by
        rw [Finset.sum_ite_eq']
        split_ifs <;> omega

/-- every digit is at most `L·A` coefficient products -/
theorem digitSum_le (A L c : Nat) (f g : Nat → Nat) (hfg : ∀ u v, f u * g v ≤ c) (i j : Nat) :
    digitSum A L f g i j ≤ L * A * c := by
  unfold digitSum
  calc _ ≤ ∑ a ∈ range L, ∑ j1 ∈ range A, c := by
        apply Finset.sum_le_sum; intro a _
        apply Finset.sum_le_sum; intro j1 _
        exact sum_ite_add_le A j1 j c _ (fun j2 => hfg _ _)
    _ = L * A * c := by simp [Finset.sum_const, Nat.mul_assoc]

theorem sub_mod_cases (i a L : Nat) (hi : i < L) (ha : a < L) :
    (i + L - a) % L = if a ≤ i then i - a else i + L - a := by
  split_ifs with h
  · have : i + L - a = i - a + L := by omega
    rw [this, Nat.add_mod_right, Nat.mod_eq_of_lt (by omega)]
  · exact Nat.mod_eq_of_lt (by omega)

theorem add_mod_cases (a b L : Nat) (ha : a < L) (hb : b < L) :
    (a + b) % L = if a + b < L then a + b else a + b - L := by
  split_ifs with h
  · exact Nat.mod_eq_of_lt h
  · rw [Nat.mod_eq_sub_mod (by omega), Nat.mod_eq_of_lt (by omega)]

/-- coefficient `k` of the cyclic product modulo `X^size - 1` -/
def cycSum (size : Nat) (f g : Nat → Nat) (k : Nat) : Nat :=
  ∑ u ∈ range size, f u * g ((k + size - u) % size)

theorem cycSum_eq_double (size : Nat) (f g : Nat → Nat) (k : Nat) (hk : k < size) :
    cycSum size f g k =
      ∑ u ∈ range size, ∑ v ∈ range size, if (u + v) % size = k then f u * g v else 0 := by
  unfold cycSum
  apply Finset.sum_congr rfl
  intro u hu
  have hu' : u < size := by simpa using hu
  have hv0 : (k + size - u) % size < size := Nat.mod_lt _ (by omega)
  rw [Finset.sum_eq_single ((k + size - u) % size)]
  · rw [if_pos]
    rw [sub_mod_cases k u size hk hu']
    split_ifs with h
    · have : u + (k - u) = k := by omega
      rw [this, Nat.mod_eq_of_lt hk]
    · have : u + (k + size - u) = k + size := by omega
      rw [this, Nat.add_mod_right, Nat.mod_eq_of_lt hk]
  · intro v hv hne
    have hv' : v < size := by simpa using hv
    rw [if_neg]
    intro hcon
    apply hne
    rw [add_mod_cases u v size hu' hv'] at hcon
    rw [sub_mod_cases k u size hk hu']
    split_ifs at hcon ⊢ <;> omega
  · intro h; exact absurd (by simpa using hv0) h


theorem mod_mul_add (x L A r : Nat) : (x % L * A + r) % (L * A) = (x * A + r) % (L * A) := by
  conv_rhs => rw [← Nat.div_add_mod x L]
  have : (L * (x / L) + x % L) * A + r = x % L * A + r + L * A * (x / L) := by ring
  rw [this, Nat.add_mul_mod_self_left]

/-- **Re-indexing of the Kronecker product.** Scattering digit `j` of product word `i` to the
output index `(i·A + j) mod size` (`size = L·A`) and adding up gives exactly the cyclic product. -/
theorem scatter_sum (A L : Nat) (hL : 0 < L) (f g : Nat → Nat) (k : Nat) (hk : k < L * A) :
    ∑ i ∈ range L, ∑ j ∈ range (2 * A - 1),
        (if (i * A + j) % (L * A) = k then digitSum A L f g i j else 0) = cycSum (L * A) f g k := by
  rw [cycSum_eq_double _ _ _ _ hk]
  -- step 1: sum the digit index out
  have step1 : ∀ i ∈ range L, ∑ j ∈ range (2 * A - 1),
      (if (i * A + j) % (L * A) = k then digitSum A L f g i j else 0) =
      ∑ a ∈ range L, ∑ j1 ∈ range A, ∑ j2 ∈ range A,
        if (i * A + (j1 + j2)) % (L * A) = k then f (a * A + j1) * g ((i + L - a) % L * A + j2) else 0 := by
    intro i _
    unfold digitSum
    have hpush : ∀ j, (if (i * A + j) % (L * A) = k then
        (∑ a ∈ range L, ∑ j1 ∈ range A, ∑ j2 ∈ range A,
          if j1 + j2 = j then f (a * A + j1) * g ((i + L - a) % L * A + j2) else 0) else 0) =
        ∑ a ∈ range L, ∑ j1 ∈ range A, ∑ j2 ∈ range A,
          if j1 + j2 = j then
            (if (i * A + j) % (L * A) = k then f (a * A + j1) * g ((i + L - a) % L * A + j2) else 0)
          else 0 := by
      intro j
      split_ifs with h <;> simp
    simp only [hpush]
    rw [Finset.sum_comm]
    apply Finset.sum_congr rfl; intro a _
    rw [Finset.sum_comm]
    apply Finset.sum_congr rfl; intro j1 hj1
    rw [Finset.sum_comm]
    apply Finset.sum_congr rfl; intro j2 hj2
    rw [Finset.sum_ite_eq]
    have : j1 + j2 ∈ range (2 * A - 1) := by
      simp only [mem_range] at *; omega
    rw [if_pos this]
  rw [Finset.sum_congr rfl step1]
  -- step 2: for fixed a, replace i by b = (i - a) mod L
  rw [Finset.sum_comm]
  have step2 : ∀ a ∈ range L, ∑ i ∈ range L, ∑ j1 ∈ range A, ∑ j2 ∈ range A,
      (if (i * A + (j1 + j2)) % (L * A) = k then f (a * A + j1) * g ((i + L - a) % L * A + j2) else 0) =
      ∑ b ∈ range L, ∑ j1 ∈ range A, ∑ j2 ∈ range A,
        if ((a * A + j1) + (b * A + j2)) % (L * A) = k then f (a * A + j1) * g (b * A + j2) else 0 := by
    intro a ha
    have ha' : a < L := by simpa using ha
    apply Finset.sum_nbij' (fun i => (i + L - a) % L) (fun b => (a + b) % L)
    · intro i _; simp only [mem_range]; exact Nat.mod_lt _ hL
    · intro b _; simp only [mem_range]; exact Nat.mod_lt _ hL
    · intro i hi
      have hi' : i < L := by simpa using hi
      rw [sub_mod_cases i a L hi' ha']
      split_ifs with h
      · rw [add_mod_cases a (i - a) L ha' (by omega)]; split_ifs <;> omega
      · rw [add_mod_cases a (i + L - a) L ha' (by omega)]; split_ifs <;> omega
    · intro b hb
      have hb' : b < L := by simpa using hb
      rw [add_mod_cases a b L ha' hb']
      split_ifs with h
      · rw [sub_mod_cases (a + b) a L h ha']; split_ifs <;> omega
      · rw [sub_mod_cases (a + b - L) a L (by omega) ha']; split_ifs <;> omega
    · intro i hi
      have hi' : i < L := by simpa using hi
      apply Finset.sum_congr rfl; intro j1 _
      apply Finset.sum_congr rfl; intro j2 _
      have hcond : (i * A + (j1 + j2)) % (L * A) =
          (a * A + j1 + ((i + L - a) % L * A + j2)) % (L * A) := by
        have e : a * A + j1 + ((i + L - a) % L * A + j2) =
            (a + (i + L - a) % L) * A + (j1 + j2) := by ring
        rw [e, ← mod_mul_add (a + (i + L - a) % L)]
        congr 3
        rw [sub_mod_cases i a L hi' ha']
        split_ifs with h
        · rw [add_mod_cases a (i - a) L ha' (by omega)]; split_ifs <;> omega
        · rw [add_mod_cases a (i + L - a) L ha' (by omega)]; split_ifs <;> omega
      rw [hcond]
  rw [Finset.sum_congr rfl step2]
  -- step 3: merge (a, j1) into u and (b, j2) into v
  have step3 : ∀ a ∈ range L, ∑ b ∈ range L, ∑ j1 ∈ range A, ∑ j2 ∈ range A,
      (if ((a * A + j1) + (b * A + j2)) % (L * A) = k then f (a * A + j1) * g (b * A + j2) else 0) =
      ∑ j1 ∈ range A, ∑ v ∈ range (L * A),
        if ((a * A + j1) + v) % (L * A) = k then f (a * A + j1) * g v else 0 := by
    intro a _
    rw [Finset.sum_comm]
    apply Finset.sum_congr rfl; intro j1 _
    exact sum_block L A (fun v => if ((a * A + j1) + v) % (L * A) = k then f (a * A + j1) * g v else 0)
  rw [Finset.sum_congr rfl step3]
  exact sum_block L A (fun u => ∑ v ∈ range (L * A), if (u + v) % (L * A) = k then f u * g v else 0)

end Ymq.Kronecker
