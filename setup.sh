#!/bin/sh
# Build the framework from files on disk only (offline). cwd = /verif
set -e
cd "$(dirname "$0")"
export CARGO_NET_OFFLINE=true
for t in translate/*.py; do
  case "$t" in */common.py|*/rustexpr.py) continue;; esac
  python3 "$t" || echo "translator $t failed (reported again by the checks that need it)"
done
(cd lean && lake build Ymq ymqdrv 2>&1 | tail -3)
(cd harness && cargo build --release 2>&1 | tail -1 && cargo build --profile chk 2>&1 | tail -1)
echo setup-done
