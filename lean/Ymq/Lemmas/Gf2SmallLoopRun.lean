/-
C14 "small", helper lemmas part 18 (Mathlib): the loop with fuel (`lanczosLoop`).
* release profile: the loop never panics from a well-formed state (`lanczosLoop_release`);
* checked profile: the loop never panics as long as every block of the history is still projected
  (no purge yet): then the three-term hypothesis of the inductive step is vacuous
  (`lanczosLoop_checked_unpurged`).
-/
import Ymq.Lemmas.Gf2SmallLoopBase

namespace Ymq.Gf2Small
open Ymq.Gf2 Ymq.Gf2Genblock Ymq.Gf2Lanczos
open scoped Matrix

/-- `n` iterations of the main loop that all continued -/
inductive IterN (dbg : Bool) (b : SparseOpt) (ay : List Nat) : Nat → LState → LState → Prop
  | zero (st : LState) : IterN dbg b ay 0 st st
  | succ {n : Nat} {st st' st'' : LState} {mk : Nat} :
      lanczosStep dbg b ay st = .continue st' mk → IterN dbg b ay n st' st'' → IterN dbg b ay (n + 1) st st''

/-- release profile: the loop returns, or it ran out of fuel after `fuel` iterations that all continued -/
theorem lanczosLoop_release {k : Nat} {cols : List (List Nat)} (hM : MatOK k cols) {ay : List Nat}
    (hay : BlockOK cols.length ay) (fuel : Nat) :
    ∀ (st : LState) (acc : List (Nat × List Nat × List Nat)), WFL cols.length st →
    lanczosLoop false (qsOptimize k cols) ay fuel st acc = none →
    ∃ st', IterN false (qsOptimize k cols) ay fuel st st' := by
  induction fuel with
  | zero => intro st _ _ _; exact ⟨st, .zero st⟩
  | succ fuel ih =>
    intro st acc hwf hnone
    unfold lanczosLoop at hnone
    rcases lanczosStep_release_ok hM hay hwf with ⟨st', hs, _⟩ | ⟨st', mk, hs, hwf'⟩
    · rw [hs] at hnone; simp at hnone
    · rw [hs] at hnone
      simp only [] at hnone
      obtain ⟨st'', hit⟩ := ih st' _ hwf' hnone
      exact ⟨st'', .succ hs hit⟩

/-- every block of the history is still projected: nothing purged, nothing consumed -/
def AllProjected (st : LState) : Prop :=
  ∀ j, j < st.ws.length → Projected st.ws st.masks st.ws.length j

/-- the assertions after the loop (`w * mul_aab(b, y) == 0` for every block not purged) -/
theorem afterLoop_ok {k : Nat} {cols : List (List Nat)} (hM : MatOK k cols) {Y0 : List Nat} {st st' : LState}
    {hist : List (List Nat)} {Ss : List Nat} (hInv : LInv k cols Y0 st hist Ss) (hy : st'.y = st.y)
    (hsub : ∀ w ∈ st'.ws, w.isEmpty = false → ∃ j : Nat, st.ws[j]? = some w) :
    ∃ ayy, mulAabOpt (qsOptimize k cols) st'.y = some ayy ∧
      ∀ w ∈ st'.ws, w.isEmpty = false → blockDot w ayy = some zeros64 := by
  obtain ⟨ayy, hayy, hayyOK⟩ := mulAabOpt_ok hM hInv.wf.yOK
  refine ⟨ayy, by rw [hy]; exact hayy, ?_⟩
  intro w hw hne
  obtain ⟨j, hj⟩ := hsub w hw hne
  obtain ⟨e, ig, _, hK⟩ := hInv.kept j w hj hne
  have hjl : j < st.ws.length := (List.getElem?_eq_some_iff.mp hj).1
  apply blockDot_zero_of hK.wOK.1 hayyOK
  rw [cellMat_aab hM hayy, ← Matrix.mul_assoc]
  have := hInv.yAll j hjl
  rw [← e] at this
  exact this

/-- checked profile: the loop returns, or ran out of fuel, or reached (without panic, the invariant
still holding) a state in which some block is no longer projected -/
theorem lanczosLoop_checked_unpurged {k : Nat} {cols : List (List Nat)} (hM : MatOK k cols) {Y0 ay : List Nat}
    (hay : mulAabOpt (qsOptimize k cols) Y0 = some ay) (hayOK : BlockOK cols.length ay) (fuel : Nat) :
    ∀ (st : LState) (hist : List (List Nat)) (Ss : List Nat) (acc : List (Nat × List Nat × List Nat)),
    LInv k cols Y0 st hist Ss →
    lanczosLoop true (qsOptimize k cols) ay fuel st acc = none →
    (∃ st', IterN true (qsOptimize k cols) ay fuel st st') ∨
    (∃ n st' hist' Ss', n ≤ fuel ∧ IterN true (qsOptimize k cols) ay n st st' ∧ LInv k cols Y0 st' hist' Ss' ∧
      ¬ AllProjected st') := by
  induction fuel with
  | zero => intro st _ _ _ _ _; exact Or.inl ⟨st, .zero st⟩
  | succ fuel ih =>
    intro st hist Ss acc hInv hnone
    by_cases hall : AllProjected st
    · unfold lanczosLoop at hnone
      rcases lanczosStep_checked_ok hM hay hayOK hInv (fun _ _ j hj hnp => absurd (hall j hj) hnp) with
        ⟨st', hs, hy, hsub⟩ | ⟨st', mk, w, hs, hInv', _⟩
      · rw [hs] at hnone
        simp only [] at hnone
        obtain ⟨ayy, hayy, hz⟩ := afterLoop_ok hM hInv hy hsub
        rw [hayy] at hnone
        simp only [] at hnone
        split at hnone
        · rename_i hcond
          simp only [Bool.true_and, List.any_eq_true, Bool.and_eq_true, Bool.not_eq_true', bne_iff_ne, ne_eq] at hcond
          obtain ⟨w, hw, hne, hnz⟩ := hcond
          exact absurd (hz w hw hne) hnz
        · cases hnone
      · rw [hs] at hnone
        simp only [] at hnone
        rcases ih st' _ _ _ hInv' hnone with ⟨st'', hit⟩ | ⟨n, st'', hist', Ss', hn, hit, hI, hnp⟩
        · exact Or.inl ⟨st'', .succ hs hit⟩
        · exact Or.inr ⟨n + 1, st'', hist', Ss', by omega, .succ hs hit, hI, hnp⟩
    · exact Or.inr ⟨0, st, hist, Ss, by omega, .zero st, hInv, hall⟩

/-- the `Y` returned by the release loop has one 64-bit word per column -/
theorem lanczosLoop_release_y {k : Nat} {cols : List (List Nat)} (hM : MatOK k cols) {ay : List Nat}
    (hay : BlockOK cols.length ay) (fuel : Nat) :
    ∀ (st st' : LState) (acc its : List (Nat × List Nat × List Nat)), WFL cols.length st →
    lanczosLoop false (qsOptimize k cols) ay fuel st acc = some (st', its) → BlockOK cols.length st'.y := by
  induction fuel with
  | zero => intro st st' acc its _ h; simp [lanczosLoop] at h
  | succ fuel ih =>
    intro st st' acc its hwf h
    unfold lanczosLoop at h
    rcases lanczosStep_release_ok hM hay hwf with ⟨st1, hs, hy⟩ | ⟨st1, mk, hs, hwf'⟩
    · rw [hs] at h
      simp only [Bool.false_and, Bool.false_eq_true, if_false, Option.some.injEq, Prod.mk.injEq] at h
      rw [← h.1, hy]; exact hwf.yOK
    · rw [hs] at h
      simp only [] at h
      exact ih st1 st' _ its hwf' h

end Ymq.Gf2Small
