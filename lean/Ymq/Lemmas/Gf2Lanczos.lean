/-
C14 helper lemmas, part 4: the final stage of `kernel_lanczos` (`lanczosFinal_spec`): for every
block `Y`, every vector kept by the final stage is non-zero and annihilated by `B`, because
`B·(Y·k) = (B·Y)·k` and `k` is in the kernel of the bit columns of `B·Y` (`kernelGauss_mem`).
-/
import Ymq.Lemmas.Gf2Gauss
import Ymq.Lemmas.Gf2Sparse
namespace Ymq.Gf2

theorem byBits_eq (blk : List Nat) :
    byBits blk = (List.range' 0 64).map (fun j => blk.map (fun w => w.testBit j)) := by
  simp [byBits, List.range_eq_range']

theorem rect_byBits (blk : List Nat) : Rect blk.length (byBits blk) := by
  intro c hc
  simp only [byBits, List.mem_map] at hc
  obtain ⟨j, _, rfl⟩ := hc
  simp

theorem length_byBits (blk : List Nat) : (byBits blk).length = 64 := by simp [byBits]

theorem bitAt_denseCol (k : Nat) (col : List Nat) (i : Nat) :
    bitAt ((List.range k).map (colParity col)) i = (decide (i < k) && colParity col i) := by
  simp only [bitAt, List.getD, List.getElem?_map]
  by_cases h : i < k
  · simp [h]
  · simp [h]

/-- `(B · (Y·kv))[i]` as a double sum -/
theorem bitAt_mulVec_YK (k : Nat) (cols : List (List Nat)) (y : List Nat) (kv : BVec) (i j : Nat)
    (hj : j + cols.length ≤ y.length) :
    xsum (List.zipWith (fun c b => (b && bitAt c i)) (denseOfSparse k cols)
        ((y.drop j).map (fun w => dotBits w kv))) =
      (decide (i < k) && xsum ((List.range' j cols.length).zipWith
        (fun c col => (colParity col i && dotBits (cell y.toArray c) kv)) cols)) := by
  induction cols generalizing j with
  | nil => simp [denseOfSparse]
  | cons col cols ih =>
    have hjl : j < y.length := by simp at hj; omega
    have hcell : cell y.toArray j = y[j] := by simp [cell, hjl]
    rw [List.drop_eq_getElem_cons hjl]
    simp only [denseOfSparse, List.map_cons, List.zipWith_cons_cons, xsum_cons, List.length_cons,
      List.range'_succ] at ih ⊢
    rw [ih (j + 1) (by simp at hj ⊢; omega), bitAt_denseCol, hcell]
    cases decide (i < k) <;> cases colParity col i <;> cases dotBits y[j] kv <;> simp

/-! ### removal of the null vectors -/

theorem mem_swapRemove {α} (l : List α) (i : Nat) (a : α) (h : a ∈ swapRemove l i) : a ∈ l := by
  unfold swapRemove at h
  cases hl : l.getLast? with
  | none => rw [hl] at h; exact h
  | some last =>
    rw [hl] at h
    rcases List.mem_or_eq_of_mem_set h with h | rfl
    · exact List.dropLast_subset l h
    · exact List.mem_of_getLast? hl

theorem length_swapRemove {α} (l : List α) (i : Nat) (h : l ≠ []) : (swapRemove l i).length = l.length - 1 := by
  unfold swapRemove
  cases hl : l.getLast? with
  | none => simp [List.getLast?_eq_none_iff] at hl; exact absurd hl h
  | some last => simp

theorem getElem_swapRemove {α} (l : List α) (i idx : Nat) (hidx : idx < l.length - 1)
    (h2 : idx < (swapRemove l i).length) :
    (swapRemove l i)[idx] = if idx = i then l[l.length - 1]'(by omega) else l[idx]'(by omega) := by
  have hne : l ≠ [] := by intro h; subst h; simp at hidx
  have hlast : l.getLast? = some (l[l.length - 1]'(by omega)) := by
    rw [List.getLast?_eq_getElem?]
    exact List.getElem?_eq_getElem (by omega)
  simp only [swapRemove, hlast] at h2 ⊢
  rw [List.getElem_set]
  split
  · rename_i he; simp [he]
  · rename_i he
    have : ¬ idx = i := fun h => he h.symm
    simp [this]

theorem popNull_spec (n : Nat) (basis : List BVec) (hn : n ≤ basis.length)
    (h : ∀ idx (hi : idx < basis.length), n ≤ idx → isZero basis[idx] = false) :
    ∀ v ∈ popNull n basis, v ∈ basis ∧ isZero v = false := by
  induction n generalizing basis with
  | zero =>
    intro v hv
    simp only [popNull] at hv
    obtain ⟨idx, hi, rfl⟩ := List.getElem_of_mem hv
    exact ⟨hv, h idx hi (by omega)⟩
  | succ n ih =>
    intro v hv
    have hnl : n < basis.length := by omega
    simp only [popNull, List.getElem?_eq_getElem hnl] at hv
    split at hv
    · rename_i hz
      have hne : basis ≠ [] := by intro h; subst h; simp at hnl
      have hlen := length_swapRemove basis n hne
      have := ih (swapRemove basis n) (by omega) (fun idx hi hge => by
        rw [hlen] at hi
        rw [getElem_swapRemove basis n idx hi (by omega)]
        split
        · exact h _ (by omega) (by omega)
        · exact h idx (by omega) (by omega)) v hv
      exact ⟨mem_swapRemove _ _ _ this.1, this.2⟩
    · rename_i hz
      exact ih basis (by omega) (fun idx hi hge => by
        by_cases he : idx = n
        · subst he; simpa using hz
        · exact h idx hi (by omega)) v hv


theorem rect_denseOfSparse (k : Nat) (cols : List (List Nat)) : Rect k (denseOfSparse k cols) := by
  intro c hc
  simp only [denseOfSparse, List.mem_map] at hc
  obtain ⟨col, _, rfl⟩ := hc
  simp

theorem optMul_some_inv (k : Nat) (cols : List (List Nat)) (y blk : List Nat)
    (h : optMul (qsOptimize k cols) y = some blk) : y.length = cols.length ∧ 64 ≤ k := by
  constructor
  · apply Classical.byContradiction
    intro hy
    have hy' : ¬ cols.length = y.length := fun h => hy h.symm
    simp [optMul, qsOptimize, hy'] at h
  · apply Classical.byContradiction
    intro hk
    have hk' : k < 64 := by omega
    unfold optMul at h
    by_cases hy' : (qsOptimize k cols).ny ≠ y.length
    · rw [if_pos hy'] at h; simp at h
    · rw [if_neg hy'] at h
      cases hb : blockDot (qsOptimize k cols).block y with
      | none => rw [hb] at h; simp at h
      | some d =>
        rw [hb] at h
        have : (qsOptimize k cols).nx < 64 := hk'
        simp only [this, if_true] at h
        simp at h

/-- Final stage of `kernel_lanczos`, for every block `y`. -/
theorem lanczosFinal_spec (k : Nat) (cols : List (List Nat)) (y : List Nat) (basis : List BVec)
    (hk : k ≤ U32) (hn : cols.length ≤ U32) (hwf : ∀ col ∈ cols, ∀ a ∈ col, a < k)
    (h : lanczosFinal k cols y = some basis) :
    ∀ v ∈ basis, v.length = cols.length ∧ isZero v = false ∧
      mulVec k (denseOfSparse k cols) v = List.replicate k false := by
  unfold lanczosFinal at h
  cases ho : optMul (qsOptimize k cols) y with
  | none => simp [ho] at h
  | some blk =>
    obtain ⟨hy, hk64⟩ := optMul_some_inv k cols y blk ho
    obtain ⟨blk', ho', hlen, hbits⟩ := optMul_spec k cols y hk64 hk hn hy hwf
    rw [ho] at ho'
    injection ho' with ho'
    subst ho'
    cases hg : kernelGauss (byBits blk) with
    | none => simp [ho, hg] at h
    | some ker =>
      simp only [ho, hg, Option.some.injEq] at h
      subst h
      intro v hv
      obtain ⟨hvm, hvz⟩ := popNull_spec ker.length (ker.map (fun kv => y.map (fun w => dotBits w kv)))
        (by simp) (fun idx hi hge => by simp at hi; omega) v hv
      obtain ⟨kv, hkv, rfl⟩ := List.mem_map.mp hvm
      refine ⟨by simp [hy], hvz, ?_⟩
      obtain ⟨hkl, hker, _⟩ := kernelGauss_mem (rect_byBits blk) hg kv hkv
      rw [length_byBits] at hkl
      -- row `i` of `B·Y` is orthogonal to `kv`
      have hrow : ∀ i, dotFrom (fun t => (blk.getD i 0).testBit t) 0 kv = false := by
        intro i
        have := bitAt_mulVec blk.length (byBits blk) kv (rect_byBits blk) i
        rw [hker, bitAt_replicate_false, byBits_eq] at this
        rw [← zipWith_byBits blk i 0 64 kv (by omega)]
        exact this.symm
      apply bvec_ext
      · rw [length_mulVec _ _ _ (rect_denseOfSparse k cols)]; simp
      · intro i
        rw [bitAt_replicate_false, bitAt_mulVec _ _ _ (rect_denseOfSparse k cols)]
        have := bitAt_mulVec_YK k cols y kv i 0 (by omega)
        simp only [List.drop_zero] at this
        rw [this]
        by_cases hik : i < k
        · have h1 := hrow i
          rw [dotFrom_congr _ (fun t => prodBitFrom y.toArray i t 0 cols) _ _ (fun t => by
            rw [hbits i t]; simp [hik])] at h1
          rw [dotFrom_prodBitFrom] at h1
          simp [h1]
        · simp [hik]

end Ymq.Gf2
