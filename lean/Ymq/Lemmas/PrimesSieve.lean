/-
Correctness of `fbase::primes` (C17): the odd-only sieve of Eratosthenes with the `p² > bound`
shortcut and first marked multiple `3p` leaves exactly the odd primes unmarked; the output is the
increasing list of all primes below `2·(bound/2)` truncated to `n` entries.
-/
import Mathlib.Data.Nat.Prime.Basic
import Ymq.Lemmas.PrimesFlags

namespace Ymq.Primes

/-- the increasing list of all primes `< m` -/
def primesBelow (m : Nat) : List Nat := (List.range m).filter (fun x => decide x.Prime)

theorem primesBelow_add (a b : Nat) : ∃ X, primesBelow (a + b) = primesBelow a ++ X := by
  unfold primesBelow
  rw [List.range_add, List.filter_append]
  exact ⟨_, rfl⟩

theorem primesBelow_succ (m : Nat) :
    primesBelow (m + 1) = if m.Prime then primesBelow m ++ [m] else primesBelow m := by
  unfold primesBelow
  rw [List.range_succ, List.filter_append]
  by_cases h : m.Prime
  · simp [h]
  · simp [h]

/-- two more numbers, the second of which is even -/
theorem primesBelow_step (i : Nat) (hi : 1 ≤ i) :
    primesBelow (2 * (i + 1) + 1) =
      if (2 * i + 1).Prime then primesBelow (2 * i + 1) ++ [2 * i + 1] else primesBelow (2 * i + 1) := by
  have h2 : ¬ (2 * i + 2).Prime := by
    intro h
    have := (Nat.Prime.eq_one_or_self_of_dvd h 2 ⟨i + 1, by ring⟩)
    omega
  have e : 2 * (i + 1) + 1 = (2 * i + 1 + 1) + 1 := by ring
  rw [e, primesBelow_succ, if_neg (by simpa using h2), primesBelow_succ]

/-- marks present when the outer loop reaches index `i`: the odd multiples `≥ 3p` of the odd
primes `p < 2i+1` with `p² ≤ bnd` -/
def MarkInv (bnd : Nat) (s : Array Bool) (i : Nat) : Prop :=
  ∀ j, j < s.size → (flag s j = true ↔
    ∃ p t, p.Prime ∧ p ≠ 2 ∧ p < 2 * i + 1 ∧ p * p ≤ bnd ∧ 2 * j + 1 = (2 * t + 3) * p)

/-- Eratosthenes: when the loop reaches an index, it is unmarked iff its number is prime -/
theorem unmarked_iff_prime (bnd : Nat) (s : Array Bool) (i : Nat) (h : MarkInv bnd s i)
    (hi1 : 1 ≤ i) (hi : i < s.size) (hb : 2 * s.size ≤ bnd) :
    flag s i = false ↔ (2 * i + 1).Prime := by
  constructor
  · intro hf
    by_contra hnp
    have hn1 : 2 * i + 1 ≠ 1 := by omega
    have hq := Nat.minFac_prime hn1
    have hqd := Nat.minFac_dvd (2 * i + 1)
    have hqq := Nat.minFac_sq_le_self (by omega : 0 < 2 * i + 1) hnp
    set q := (2 * i + 1).minFac with hqdef
    obtain ⟨m, hm⟩ := hqd
    have hq2 : q ≠ 2 := by
      intro h2; rw [h2] at hm; omega
    have hq3 : 3 ≤ q := by
      have := hq.two_le; omega
    -- m ≥ q, m odd
    have hqm : q ≤ m := by
      have h1 : q * q ≤ q * m := by rw [← hm, ← Nat.pow_two]; exact hqq
      exact Nat.le_of_mul_le_mul_left h1 (by omega)
    have hmodd : m % 2 = 1 := by
      rcases Nat.mod_two_eq_zero_or_one m with h0 | h1
      · exfalso
        have : (q * m) % 2 = 0 := by rw [Nat.mul_mod, h0]; simp
        rw [← hm] at this; omega
      · exact h1
    have : flag s i = true := by
      rw [h i hi]
      refine ⟨q, (m - 3) / 2, hq, hq2, ?_, ?_, ?_⟩
      · have : q * 3 ≤ q * m := Nat.mul_le_mul_left _ (by omega)
        rw [← hm] at this; omega
      · have : q * q ≤ 2 * i + 1 := by rw [← Nat.pow_two]; exact hqq
        omega
      · have e : 2 * ((m - 3) / 2) + 3 = m := by omega
        rw [e, hm, Nat.mul_comm]
    rw [hf] at this; exact absurd this (by decide)
  · intro hp
    by_contra hf
    have hf' : flag s i = true := by
      cases h' : flag s i
      · exact absurd h' hf
      · rfl
    obtain ⟨p, t, hpp, _, _, _, he⟩ := (h i hi).mp hf'
    have hd : p ∣ 2 * i + 1 := ⟨2 * t + 3, by rw [he, Nat.mul_comm]⟩
    rcases Nat.Prime.eq_one_or_self_of_dvd hp p hd with h1 | h1
    · exact absurd h1 hpp.one_lt.ne'
    · rw [← h1] at he
      have : (2 * t + 3) * p = 2 * (t * p) + 3 * p := by ring
      have := hpp.two_le
      omega

theorem markInv_init (bnd len : Nat) : MarkInv bnd (Array.replicate len false) 1 := by
  intro j hj
  rw [flag_replicate len j (by simpa using hj)]
  constructor
  · intro h; exact absurd h (by decide)
  · rintro ⟨p, t, hp, hp2, hlt, _, _⟩
    have := hp.two_le
    omega

/-- the next index when no new prime is sieved with (composite index, or `p² > bnd`) -/
theorem markInv_skip (bnd : Nat) (s : Array Bool) (i : Nat) (h : MarkInv bnd s i)
    (hskip : ¬ (2 * i + 1).Prime ∨ (2 * i + 1) * (2 * i + 1) > bnd) : MarkInv bnd s (i + 1) := by
  intro j hj
  rw [h j hj]
  constructor
  · rintro ⟨p, t, hp, hp2, hlt, hb, he⟩
    exact ⟨p, t, hp, hp2, by omega, hb, he⟩
  · rintro ⟨p, t, hp, hp2, hlt, hb, he⟩
    refine ⟨p, t, hp, hp2, ?_, hb, he⟩
    by_contra hge
    have hcases : p = 2 * i + 1 ∨ p = 2 * i + 2 := by omega
    rcases hcases with hc | hc
    · rcases hskip with hs | hs
      · rw [hc] at hp; exact hs hp
      · rw [hc] at hb; omega
    · have := Nat.Prime.eq_one_or_self_of_dvd hp 2 ⟨i + 1, by rw [hc]; ring⟩
      omega

/-- the next index after sieving with the prime `2i+1` -/
theorem markInv_mark (bnd : Nat) (s : Array Bool) (i : Nat) (h : MarkInv bnd s i)
    (hp : (2 * i + 1).Prime) (hi1 : 1 ≤ i) (hsq : ¬ (2 * i + 1) * (2 * i + 1) > bnd) :
    (markFrom s.size s (2 * i + 1 + (2 * i + 1) / 2) (2 * i + 1)).size = s.size ∧
    MarkInv bnd (markFrom s.size s (2 * i + 1 + (2 * i + 1) / 2) (2 * i + 1)) (i + 1) := by
  have hfuel : s.size ≤ 2 * i + 1 + (2 * i + 1) / 2 + s.size * (2 * i + 1) := by
    have : s.size * 1 ≤ s.size * (2 * i + 1) := Nat.mul_le_mul_left _ (by omega)
    omega
  obtain ⟨hsz, hfl⟩ := markFrom_spec (2 * i + 1) s.size s _ hfuel
  refine ⟨hsz, ?_⟩
  intro j hj
  rw [hsz] at hj
  rw [hfl j hj, h j hj]
  have hk : 2 * i + 1 + (2 * i + 1) / 2 = 3 * i + 1 := by omega
  rw [hk]
  constructor
  · rintro (⟨p, t, hpp, hp2, hlt, hb, he⟩ | ⟨t, ht⟩)
    · exact ⟨p, t, hpp, hp2, by omega, hb, he⟩
    · refine ⟨2 * i + 1, t, hp, by omega, by omega, by omega, ?_⟩
      rw [ht]; ring
  · rintro ⟨p, t, hpp, hp2, hlt, hb, he⟩
    by_cases hlt' : p < 2 * i + 1
    · exact Or.inl ⟨p, t, hpp, hp2, hlt', hb, he⟩
    · have hcases : p = 2 * i + 1 ∨ p = 2 * i + 2 := by omega
      rcases hcases with hc | hc
      · right
        refine ⟨t, ?_⟩
        rw [hc] at he
        have e : (2 * t + 3) * (2 * i + 1) = 2 * (3 * i + 1 + t * (2 * i + 1)) + 1 := by ring
        rw [e] at he
        omega
      · have := Nat.Prime.eq_one_or_self_of_dvd hpp 2 ⟨i + 1, by rw [hc]; ring⟩
        omega

theorem take_prefix_of_length {α} (A X : List α) (n : Nat) (h : A.length = n) :
    (A ++ X).take n = A.take n := by
  rw [List.take_append_of_le_length (by omega)]

/-- **Main loop.** From any index `i` with the sieve in the state `MarkInv` and the primes below
`2i+1` collected, the loop returns a vector whose first `n` entries are the first `n` entries of
the list of all primes below `2·len + 1`. -/
theorem primesLoop_spec (n bnd len : Nat) (hlen : 2 * len ≤ bnd) :
    ∀ f i (s : Array Bool) (acc : Array Nat), s.size = len → 1 ≤ i → i ≤ len → len ≤ i + f →
      MarkInv bnd s i → acc.toList = primesBelow (2 * i + 1) →
      (primesLoop n bnd f i s acc).toList.take n = (primesBelow (2 * len + 1)).take n := by
  intro f
  induction f with
  | zero =>
    intro i s acc _ _ hile hfuel _ hacc
    have : i = len := by omega
    subst this
    simp only [primesLoop]
    rw [hacc]
  | succ f ih =>
    intro i s acc hs hi1 hile hfuel hinv hacc
    rw [primesLoop]
    by_cases hlt : i < s.size
    · rw [if_pos hlt]
      have hstep := primesBelow_step i hi1
      have hiff := unmarked_iff_prime bnd s i hinv hi1 hlt (by rw [hs]; exact hlen)
      by_cases hfl : s[i]! = false
      · rw [if_pos hfl]
        have hprime : (2 * i + 1).Prime := hiff.mp hfl
        rw [if_pos hprime] at hstep
        have hacc' : (acc.push (2 * i + 1)).toList = primesBelow (2 * (i + 1) + 1) := by
          rw [hstep, Array.toList_push, hacc]
        simp only
        by_cases hbrk : (acc.push (2 * i + 1)).size = n
        · rw [if_pos hbrk]
          obtain ⟨X, hX⟩ := primesBelow_add (2 * (i + 1) + 1) (2 * len + 1 - (2 * (i + 1) + 1))
          have e : 2 * (i + 1) + 1 + (2 * len + 1 - (2 * (i + 1) + 1)) = 2 * len + 1 := by omega
          rw [e] at hX
          rw [hX, ← hacc']
          rw [take_prefix_of_length _ X n (by simpa using hbrk)]
        · rw [if_neg hbrk]
          by_cases hsq : (2 * i + 1) * (2 * i + 1) > bnd
          · rw [if_pos hsq]
            exact ih (i + 1) s _ hs (by omega) (by omega) (by omega)
              (markInv_skip bnd s i hinv (Or.inr hsq)) hacc'
          · rw [if_neg hsq]
            obtain ⟨hsz, hinv'⟩ := markInv_mark bnd s i hinv hprime hi1 hsq
            exact ih (i + 1) _ _ (by rw [hsz, hs]) (by omega) (by omega) (by omega) hinv' hacc'
      · rw [if_neg hfl]
        have hnp : ¬ (2 * i + 1).Prime := fun hp => hfl (hiff.mpr hp)
        rw [if_neg hnp] at hstep
        exact ih (i + 1) s acc hs (by omega) (by omega) (by omega)
          (markInv_skip bnd s i hinv (Or.inl hnp)) (by rw [hstep, hacc])
    · rw [if_neg hlt]
      have : i = len := by omega
      subst this
      rw [hacc]

end Ymq.Primes
