/-
`squfof::isqrt` from an admissible floating point seed: the Newton loop returns the floor square
root within 3 iterations and meets no panic site (division by zero, `r - 1`, overflow).
(`Ymq.Arith.sqLoop_some`, Lemmas/Arith.lean, is the partial-correctness half.)
-/
import Ymq.Model.Squfof
import Ymq.Lemmas.Arith
import Mathlib.Tactic.Ring
import Mathlib.Tactic.Linarith
import Mathlib.Data.Nat.Sqrt

namespace Ymq.Squfof
open Ymq.Arith (sqLoop squfofIsqrt)

/-- the hypothesis on the f64 seed `(m as f64).sqrt() as u64`: within 1 of the floor square root
(the values observed are `⌊√m⌋` and `⌊√m⌋ + 1`; the lower neighbour is allowed as well). -/
def SeedOK (seed : Nat → Nat) : Prop :=
  ∀ m, 4 ≤ m → m < W → Nat.sqrt m ≤ seed m + 1 ∧ seed m ≤ Nat.sqrt m + 1

theorem W_eq : Ymq.Limbs.W = W := rfl

/-- one unfolding of the Newton loop away from the panic sites -/
theorem sqLoop_step (n f r : Nat) (hr : 0 < r) (h1 : r + 1 < W) (h2 : r + n / r < W) :
    sqLoop n (f + 1) r =
      if n / r = r then some r
      else if n / r = r + 1 then some r
      else if n / r = r - 1 then some (r - 1)
      else sqLoop n f ((r + n / r) / 2) := by
  rw [sqLoop]
  have a : ¬ r = 0 := by omega
  have b : ¬ r + 1 ≥ Ymq.Limbs.W := by rw [W_eq]; omega
  have c : ¬ r + n / r ≥ Ymq.Limbs.W := by rw [W_eq]; omega
  simp only [if_neg a, if_neg b, if_neg c]

section
set_option linter.unusedSectionVars false
variable {n t : Nat} (hn : n < W) (ht1 : t * t ≤ n) (ht2 : n < (t + 1) * (t + 1))
include hn ht1 ht2

theorem t_lt : t < 4294967296 := by
  by_contra h
  have : 4294967296 * 4294967296 ≤ t * t := Nat.mul_le_mul (by omega) (by omega)
  unfold W at hn
  omega

/-- at `r = t` when `n / t ∈ {t, t + 1}` -/
theorem sqLoop_at_t (f : Nat) (ht : 0 < t) (hq : n / t = t ∨ n / t = t + 1) :
    sqLoop n (f + 1) t = some t := by
  have hb := t_lt hn ht1 ht2
  rw [sqLoop_step n f t ht (by unfold W; omega) (by unfold W; omega)]
  rcases hq with hq | hq
  · rw [if_pos hq]
  · rw [if_neg (by omega), if_pos hq]

/-- at `r = t + 1` when `n / (t + 1) = t` -/
theorem sqLoop_at_t1 (f : Nat) (hq : n / (t + 1) = t) :
    sqLoop n (f + 1) (t + 1) = some t := by
  have hb := t_lt hn ht1 ht2
  rw [sqLoop_step n f (t + 1) (by omega) (by unfold W; omega) (by unfold W; omega)]
  rw [if_neg (by omega), if_neg (by omega), if_pos (by omega)]
  rfl

theorem div_t_bounds (ht : 0 < t) : t ≤ n / t ∧ n / t ≤ t + 2 := by
  constructor
  · exact (Nat.le_div_iff_mul_le ht).2 ht1
  · have : n / t < t + 3 := by
      rw [Nat.div_lt_iff_lt_mul ht]
      nlinarith
    omega

theorem div_t1_bounds (ht : 0 < t) : t ≤ n / (t + 1) + 1 ∧ n / (t + 1) ≤ t := by
  constructor
  · have : t - 1 ≤ n / (t + 1) := by
      rw [Nat.le_div_iff_mul_le (by omega)]
      obtain ⟨s, rfl⟩ : ∃ s, t = s + 1 := ⟨t - 1, by omega⟩
      simp only [Nat.add_sub_cancel]
      nlinarith
    omega
  · have : n / (t + 1) < t + 1 := by
      rw [Nat.div_lt_iff_lt_mul (by omega)]
      exact ht2
    omega

/-- from the exact root: at most 2 iterations -/
theorem sqLoop_from_t (f : Nat) (ht : 0 < t) : sqLoop n (f + 2) t = some t := by
  have hb := t_lt hn ht1 ht2
  obtain ⟨b1, b2⟩ := div_t_bounds hn ht1 ht2 ht
  rcases (by omega : n / t = t ∨ n / t = t + 1 ∨ n / t = t + 2) with hq | hq | hq
  · exact sqLoop_at_t hn ht1 ht2 (f + 1) ht (Or.inl hq)
  · exact sqLoop_at_t hn ht1 ht2 (f + 1) ht (Or.inr hq)
  · rw [sqLoop_step n (f + 1) t ht (by unfold W; omega) (by unfold W; omega)]
    rw [if_neg (by omega), if_neg (by omega), if_neg (by omega), hq]
    have e : (t + (t + 2)) / 2 = t + 1 := by omega
    rw [e]
    apply sqLoop_at_t1 hn ht1 ht2
    -- n ≥ t (t + 2), so n / (t + 1) = t
    have h3 : t * (t + 2) ≤ n := by
      have := Nat.div_mul_le_self n t
      rw [hq] at this
      nlinarith
    obtain ⟨c1, c2⟩ := div_t1_bounds hn ht1 ht2 ht
    have : t ≤ n / (t + 1) := by
      rw [Nat.le_div_iff_mul_le (by omega)]
      nlinarith
    omega

/-- from the root plus one: at most 2 iterations -/
theorem sqLoop_from_t1 (f : Nat) (ht : 0 < t) : sqLoop n (f + 2) (t + 1) = some t := by
  have hb := t_lt hn ht1 ht2
  obtain ⟨c1, c2⟩ := div_t1_bounds hn ht1 ht2 ht
  rcases (by omega : n / (t + 1) = t ∨ n / (t + 1) + 1 = t) with hq | hq
  · exact sqLoop_at_t1 hn ht1 ht2 (f + 1) hq
  · rw [sqLoop_step n (f + 1) (t + 1) (by omega) (by unfold W; omega) (by unfold W; omega)]
    rw [if_neg (by omega), if_neg (by omega), if_neg (by omega)]
    have e : (t + 1 + n / (t + 1)) / 2 = t := by omega
    rw [e]
    apply sqLoop_at_t hn ht1 ht2 f ht
    left
    -- n < t (t + 1), so n / t = t
    have h3 : n < t * (t + 1) := by
      have := Nat.lt_mul_div_succ n (show 0 < t + 1 by omega)
      have e2 : n / (t + 1) + 1 = t := hq
      rw [e2] at this
      nlinarith
    obtain ⟨b1, b2⟩ := div_t_bounds hn ht1 ht2 ht
    have : n / t < t + 1 := by
      rw [Nat.div_lt_iff_lt_mul ht]
      nlinarith
    omega

/-- from the root minus one (`t ≥ 5`): at most 3 iterations -/
theorem sqLoop_from_tm1 (f : Nat) (ht : 5 ≤ t) : sqLoop n (f + 3) (t - 1) = some t := by
  have hb := t_lt hn ht1 ht2
  obtain ⟨s, rfl⟩ : ∃ s, t = s + 1 := ⟨t - 1, by omega⟩
  simp only [Nat.add_sub_cancel]
  have l1 : s + 2 ≤ n / s := by
    rw [Nat.le_div_iff_mul_le (by omega)]
    nlinarith
  have l2 : n / s ≤ s + 4 := by
    have : n / s < s + 5 := by
      rw [Nat.div_lt_iff_lt_mul (by omega)]
      nlinarith
    omega
  rw [sqLoop_step n (f + 2) s (by omega) (by unfold W; omega) (by unfold W; omega)]
  rw [if_neg (by omega), if_neg (by omega), if_neg (by omega)]
  rcases (by omega : (s + n / s) / 2 = s + 1 ∨ (s + n / s) / 2 = s + 1 + 1) with e | e
  · rw [e]; exact sqLoop_from_t hn ht1 ht2 f (by omega)
  · rw [e]; exact sqLoop_from_t1 hn ht1 ht2 f (by omega)

end

/-- small arguments, every seed within 1 of the root: by evaluation -/
def smallCheck : Bool :=
  (List.range 36).all fun n => (List.range 6).all fun t => (List.range 8).all fun r0 =>
    !(decide (4 ≤ n) && decide (t * t ≤ n) && decide (n < (t + 1) * (t + 1)) && decide (t ≤ r0 + 1)
        && decide (r0 ≤ t + 1))
      || sqLoop n 3 r0 == some t

theorem smallCheck_true : smallCheck = true := by decide +kernel

theorem sqLoop_small : ∀ n < 36, ∀ t < 6, ∀ r0 < 8, 4 ≤ n → t * t ≤ n → n < (t + 1) * (t + 1) →
    t ≤ r0 + 1 → r0 ≤ t + 1 → sqLoop n 3 r0 = some t := by
  intro n hn t ht r0 hr h1 h2 h3 h4 h5
  have h := smallCheck_true
  unfold smallCheck at h
  rw [List.all_eq_true] at h
  have h := h n (List.mem_range.2 hn)
  rw [List.all_eq_true] at h
  have h := h t (List.mem_range.2 ht)
  rw [List.all_eq_true] at h
  have h := h r0 (List.mem_range.2 hr)
  simp only [Bool.or_eq_true, Bool.not_eq_true', Bool.and_eq_false_iff, decide_eq_false_iff_not,
    beq_iff_eq] at h
  rcases h with h | h
  · omega
  · exact h

/-- more fuel does not change a result -/
theorem sqLoop_mono (n : Nat) : ∀ (f r x : Nat), sqLoop n f r = some x → sqLoop n (f + 1) r = some x := by
  intro f
  induction f with
  | zero => intro r x h; simp [sqLoop] at h
  | succ f ih =>
    intro r x h
    rw [sqLoop] at h ⊢
    simp only [] at h ⊢
    split_ifs at h ⊢ with h0 h1 h2 h3 h4 h5
    · exact h
    · exact h
    · exact h
    · exact ih _ _ h

theorem sqLoop_mono' (n r x : Nat) (f g : Nat) (h : sqLoop n f r = some x) :
    sqLoop n (f + g) r = some x := by
  induction g with
  | zero => exact h
  | succ g ih => exact sqLoop_mono n _ _ _ ih

/-- **isqrt is total and exact**: from every admissible seed the Newton loop of `squfof::isqrt`
returns the floor square root (no division by zero, no underflow of `r - 1`, no overflow). -/
theorem isqrt_eq {seed : Nat → Nat} (hs : SeedOK seed) {m : Nat} (hm : m < W) :
    isqrt seed m = some (Nat.sqrt m) := by
  unfold isqrt squfofIsqrt
  by_cases h4 : m < 4
  · rw [if_pos h4]
    have : m = 0 ∨ m = 1 ∨ m = 2 ∨ m = 3 := by omega
    rcases this with rfl | rfl | rfl | rfl <;>
      exact congrArg some (Nat.eq_sqrt.2 ⟨by decide, by decide⟩)
  · rw [if_neg h4]
    obtain ⟨s1, s2⟩ := hs m (by omega) hm
    have ht1 := Nat.sqrt_le m
    have ht2 : m < (Nat.sqrt m + 1) * (Nat.sqrt m + 1) := Nat.lt_succ_sqrt m
    generalize Nat.sqrt m = t at *
    generalize seed m = r0 at *
    have htpos : 0 < t := by
      rcases Nat.eq_zero_or_pos t with h | h
      · subst h; omega
      · exact h
    unfold isqrtFuel
    by_cases hsmall : t < 6
    · have hm36 : m < 36 := by nlinarith
      have := sqLoop_small m hm36 t hsmall r0 (by omega) (by omega) ht1 ht2 s1 s2
      exact sqLoop_mono' m r0 t 3 5 this
    · rcases (by omega : r0 = t ∨ r0 = t + 1 ∨ r0 = t - 1) with e | e | e
      · rw [e]; exact sqLoop_from_t hm ht1 ht2 6 htpos
      · rw [e]; exact sqLoop_from_t1 hm ht1 ht2 6 htpos
      · rw [e]; exact sqLoop_from_tm1 hm ht1 ht2 5 (by omega)

theorem isqrt_some_spec {seed : Nat → Nat} {m r : Nat} (h : isqrt seed m = some r) :
    r * r ≤ m ∧ m < (r + 1) * (r + 1) :=
  Ymq.Arith.squfofIsqrt_some _ _ _ _ h

end Ymq.Squfof
