//! Prime enumeration and smoothness exponent blocks (C17): fbase::primes, fbase::PrimeSieve,
//! ecm::SmoothBase::new, pollard_pm1::PM1Base::new and the stage-1 exponent stream of pm1_impl.
use crate::util::*;
use std::cell::RefCell;
use std::str::FromStr;
use yamaquasi::fbase::{self, PrimeSieve};
use yamaquasi::{Uint, Verbosity};

const HM: u128 = (1u128 << 61) - 1;

/// order-sensitive checksum shared with the Lean driver and the Python oracle
fn hash<I: IntoIterator<Item = u64>>(it: I) -> u64 {
    let mut h: u128 = 0;
    for x in it {
        h = (h * 1000003 + x as u128) % HM;
    }
    h as u64
}

fn summary(l: &[u32]) -> String {
    let last = match l.last() {
        Some(x) => x.to_string(),
        None => "-".to_string(),
    };
    format!("n={} last={} h={}", l.len(), last, hash(l.iter().map(|&x| x as u64)))
}

/// A PrimeSieve that remembers how many blocks it has produced, with running statistics over
/// everything it has produced since `PrimeSieve::new()`. It is only a cache: every op below is
/// defined as if a fresh PrimeSieve had been walked from the start.
struct Walker {
    sieve: Box<PrimeSieve>,
    calls: usize,      // number of next() calls made
    current: Vec<u32>, // result of the last call
    count: u64,        // total number of values over the first min(calls, 65536) calls
    increasing: bool,  // all values so far strictly increasing
    last: u32,
    empty_blocks: usize, // empty results among the first 65536 calls
}

impl Walker {
    fn new() -> Self {
        Walker {
            sieve: Box::new(PrimeSieve::new()),
            calls: 0,
            current: vec![],
            count: 0,
            increasing: true,
            last: 0,
            empty_blocks: 0,
        }
    }
    fn step(&mut self) {
        let b = self.sieve.next();
        self.current.clear();
        self.current.extend_from_slice(b);
        if self.calls < 65536 {
            self.count += self.current.len() as u64;
            if self.current.is_empty() {
                self.empty_blocks += 1;
            }
            for &p in &self.current {
                if p <= self.last {
                    self.increasing = false;
                }
                self.last = p;
            }
        }
        self.calls += 1;
    }
}

thread_local! {
    static WALKER: RefCell<Option<Walker>> = RefCell::new(None);
}

/// runs f on a walker that has made at most `maxcalls` calls; the walker is dropped if f panics
fn with_walker<T>(maxcalls: usize, f: impl FnOnce(&mut Walker) -> T) -> T {
    let w = WALKER.with(|c| c.borrow_mut().take());
    let mut w = match w {
        Some(w) if w.calls <= maxcalls => w,
        _ => Walker::new(),
    };
    let r = f(&mut w);
    WALKER.with(|c| *c.borrow_mut() = Some(w));
    r
}

fn blocksummary(l: &[u32]) -> String {
    let (f, la) = match (l.first(), l.last()) {
        (Some(a), Some(b)) => (a.to_string(), b.to_string()),
        _ => ("-".to_string(), "-".to_string()),
    };
    format!("{}:{}:{}:{}", l.len(), f, la, hash(l.iter().map(|&x| x as u64)))
}

/// A 63-bit safe prime n = 2r + 1 (r prime): the order of 2 modulo n is r or 2r, so the
/// stage-1 loop of pm1_impl never stops early for B1 < r (no factor found, g != 1).
const SAFE_PRIME: &str = "9223372036854771239";

pub fn handle(op: &str, a: &[&str]) -> Option<String> {
    match (op, a) {
        ("primes", [k]) => Some(summary(&fbase::primes(u32_of(k)?))),
        ("primes_list", [k]) => Some(show_list(&fbase::primes(u32_of(k)?))),
        // block b (0-based) of a fresh PrimeSieve = result of its (b+1)-th next() call
        ("primesieve_block", [b]) => {
            let b: usize = b.parse().ok()?;
            if b > 70000 {
                return None;
            }
            Some(with_walker(b + 1, |w| {
                while w.calls < b + 1 {
                    w.step();
                }
                show_list(&w.current)
            }))
        }
        // blocks 0..=b walked one after the other: summaries, then the rolling state
        ("primesieve_seq", [b]) => {
            let b: usize = b.parse().ok()?;
            if b > 70000 {
                return None;
            }
            let mut s = PrimeSieve::new();
            let mut parts = vec![];
            for _ in 0..=b {
                parts.push(blocksummary(s.next()));
            }
            let (offs, bc) = fbase::verif_hooks::primesieve_state(&s);
            Some(format!(
                "{}|{}|{}",
                parts.join(","),
                hash(offs.iter().map(|&x| x as u64)),
                bc
            ))
        }
        // all 65536 blocks, then three more calls
        ("primesieve_walk", []) => Some(with_walker(65536, |w| {
            while w.calls < 65536 {
                w.step();
            }
            let mut ends = vec![];
            for _ in 0..3 {
                w.step();
                ends.push(w.current.len());
            }
            format!(
                "blocks=65536 count={} increasing={} last={} empty_blocks={} end={}",
                w.count,
                w.increasing,
                w.last,
                w.empty_blocks,
                show_list(&ends)
            )
        })),
        ("sb_new", [b1, lg]) => {
            let b1: usize = b1.parse().ok()?;
            let sb = yamaquasi::ecm::SmoothBase::new(b1, bool_of(lg)?);
            let (f, l) = yamaquasi::ecm::verif_hooks::smoothbase_parts(&sb);
            Some(format!("{}|{}", show_list(f), show_list(l)))
        }
        ("pm1base", []) => {
            let pb = yamaquasi::pollard_pm1::PM1Base::new();
            let (f, l) = yamaquasi::pollard_pm1::verif_hooks::vh_pm1base_parts(&pb);
            Some(format!("{}|{}", show_list(f), blocksummary(l)))
        }
        // exponents passed to exp_modn (s) / exp_modn_large (l) by stage 1 of pm1_impl, in order
        // (recorded at the entry of these functions, hook in pollard_pm1.rs)
        ("pm1_exponents", [b1]) => {
            let b1 = u64_of(b1)?;
            let n = Uint::from_str(SAFE_PRIME).ok()?;
            yamaquasi::pollard_pm1::verif_hooks::vh_rec_start();
            let r = std::panic::catch_unwind(|| {
                yamaquasi::pollard_pm1::pm1_impl(&n, b1, 0.0, Verbosity::Silent)
            });
            let mut evs = yamaquasi::pollard_pm1::verif_hooks::vh_rec_take();
            // stage 1 ends with the exp_modn_large call made at `stop`; what follows (one
            // exp_modn(g, p_prev) at the start of stage 2) is not part of the stream
            if let Some(i) = evs.iter().rposition(|(small, _)| !*small) {
                evs.truncate(i + 1);
            }
            match r {
                Err(_) => Some("panic".to_string()),
                Ok(Some(_)) => Some("unexpected-factor".to_string()),
                Ok(None) => Some(show_list(
                    &evs.iter()
                        .map(|(small, e)| format!("{}{}", if *small { "s" } else { "l" }, e))
                        .collect::<Vec<_>>(),
                )),
            }
        }
        _ => None,
    }
}
