/-
C13 helper lemmas: `rehash` re-establishes the bucket shapes (`TShape` / `LShape`) with the new roots: the single loop
of `rehashStep` over the factor base, seen from one table, is the loop over the primes of the class of the table.
-/
import Ymq.Lemmas.SieveShapeClosed

namespace Ymq.SieveLog
open Ymq.Sieve

/-- a loop over `0..n` seen through a projection that only the indices of a window `[lo, hi)` modify. -/
theorem foldlM_window {σ τ : Type} (step : σ → Nat → Option σ) (proj : σ → Option τ) (f : τ → Nat → Option τ)
    (lo hi : Nat)
    (hout : ∀ s i s', step s i = some s' → (i < lo ∨ hi ≤ i) → proj s' = proj s)
    (hin : ∀ s i s' t, step s i = some s' → lo ≤ i → i < hi → proj s = some t →
      ∃ t', f t i = some t' ∧ proj s' = some t')
    (s : σ) (t : τ) (hs : proj s = some t) :
    ∀ (n : Nat) (s' : σ), (List.range' 0 n).foldlM step s = some s' →
      ∃ t', (List.range' lo (min n hi - lo)).foldlM f t = some t' ∧ proj s' = some t' := by
  intro n
  induction n with
  | zero => intro s' h; simp at h; subst h; exact ⟨t, by simp, hs⟩
  | succ n ih =>
    intro s' h
    rw [List.range'_concat, List.foldlM_append] at h
    simp only [bind, Option.bind_eq_some_iff, List.foldlM_cons, List.foldlM_nil, pure, Nat.zero_add, Nat.one_mul] at h
    obtain ⟨s1, hs1, s2, hs2, hst⟩ := h
    simp only [Option.some.injEq] at hst
    subst hst
    obtain ⟨t1, hf1, hp1⟩ := ih s1 hs1
    by_cases hc : lo ≤ n ∧ n < hi
    · obtain ⟨t2, hf2, hp2⟩ := hin s1 n s2 t1 hs2 hc.1 hc.2 hp1
      refine ⟨t2, ?_, hp2⟩
      have e : min (n + 1) hi - lo = (min n hi - lo) + 1 := by omega
      have e2 : lo + 1 * (min n hi - lo) = n := by omega
      rw [e, List.range'_concat, List.foldlM_append, hf1, e2]
      simp [hf2]
    · have e : min (n + 1) hi - lo = min n hi - lo := by omega
      rw [e]
      exact ⟨t1, hf1, by rw [hout s1 n s2 hs2 (by omega)]; exact hp1⟩

section
variable {fb : FB} {r1 r2 : Array Nat} {interval : Nat}

theorem rehashTable_offs {t t' : Table} {pidx p : Nat} (hp : fb.primes[pidx]? = some p)
    (h : rehashTable r1 r2 interval p pidx t = some t') :
    (offsV fb r1 r2 interval pidx).foldlM (fun (t : Table) off => t.add off (pidx % 2 ^ 32)) t = some t' := by
  unfold rehashTable at h
  simp only [Option.bind_eq_bind, Option.bind_eq_some_iff] at h
  obtain ⟨o1, h1, o2, h2, offsets, ho, hf⟩ := h
  unfold offsV
  simp only [hp, h1, h2, ho, Option.getD_some]
  exact hf

theorem rehashLTable_offs {t t' : LTable} {pidx p : Nat} (hp : fb.primes[pidx]? = some p)
    (h : rehashLTable r1 r2 interval p pidx t = some t') :
    (offsV fb r1 r2 interval pidx).foldlM (fun (t : LTable) off => t.add off pidx) t = some t' := by
  unfold rehashLTable at h
  simp only [Option.bind_eq_bind, Option.bind_eq_some_iff] at h
  obtain ⟨o1, h1, o2, h2, offsets, ho, hf⟩ := h
  unfold offsV
  simp only [hp, h1, h2, ho, Option.getD_some]
  exact hf

theorem bitlen_ge16_of_big {p : Nat} (h : ¬ p < BLOCK) : 16 ≤ bitlen p := by
  by_contra hc
  have := (bitlen_lt_succ_iff p 15).1 (by omega)
  simp only [BLOCK] at h
  omega

theorem big_of_bitlen_ge16 {p : Nat} (h : 16 ≤ bitlen p) : ¬ p < BLOCK := by
  intro hc
  have := (bitlen_lt_succ_iff p 15).2 (by simp only [BLOCK] at hc; omega)
  omega

/-- one step of the loop of `rehash`, seen from size-class table `ti`. -/
theorem rehashStep_tables (hfb : fb.WF) {st st' : Array Table × Array LTable} {pidx ti idx1 idx2 : Nat} (hti : ti < 3)
    (hi1 : fb.ibl[ti + 16]? = some idx1) (hi2 : fb.ibl[ti + 16 + 1]? = some idx2)
    (h : rehashStep fb r1 r2 interval st pidx = some st') :
    ((pidx < idx1 ∨ idx2 ≤ pidx) → st'.1[ti]? = st.1[ti]?) ∧
    (idx1 ≤ pidx → pidx < idx2 → ∀ t, st.1[ti]? = some t →
      ∃ t', (offsV fb r1 r2 interval pidx).foldlM (fun (t : Table) off => t.add off (pidx % 2 ^ 32)) t = some t' ∧
        st'.1[ti]? = some t') := by
  obtain ⟨tables, ltables⟩ := st
  unfold rehashStep at h
  simp only [Option.bind_eq_bind, Option.bind_eq_some_iff] at h
  obtain ⟨p, hp, h⟩ := h
  have hcl := hfb.class_of hp hi1 hi2
  by_cases hsmall : p < BLOCK
  · simp only [hsmall, if_true, Option.some.injEq] at h
    subst h
    refine ⟨fun _ => rfl, ?_⟩
    intro a b t ht
    have := hcl.1 ⟨a, b⟩
    exact absurd hsmall (big_of_bitlen_ge16 (by omega))
  · simp only [hsmall, if_false] at h
    have h16 := bitlen_ge16_of_big hsmall
    by_cases hv : bitlen p < VLARGE_LOG
    · simp only [hv, if_true] at h
      have hl : ¬ bitlen p < LARGE_LOG := by simp only [LARGE_LOG]; omega
      simp only [hl, if_false, Option.bind_eq_some_iff, Option.some.injEq] at h
      obtain ⟨tables', hm, rfl⟩ := h
      obtain ⟨x, y, hx, hf, _, hy, hne⟩ := modifyM_spec hm
      simp only [LARGE_LOG, VLARGE_LOG] at hv hx hy hne
      constructor
      · intro hout
        have : ¬ bitlen p = ti + 16 := fun e => by have := hcl.2 e; omega
        exact hne ti (by omega)
      · intro a b t ht
        have e := hcl.1 ⟨a, b⟩
        have : bitlen p - 16 = ti := by omega
        rw [this] at hx hy
        simp only at ht
        rw [ht] at hx
        have := Option.some.inj hx; subst this
        exact ⟨y, rehashTable_offs hp hf, hy⟩
    · simp only [hv, if_false, Option.bind_eq_some_iff, Option.some.injEq] at h
      obtain ⟨ltables', _, rfl⟩ := h
      simp only [VLARGE_LOG] at hv
      refine ⟨fun _ => rfl, ?_⟩
      intro a b t ht
      have := hcl.1 ⟨a, b⟩
      omega

/-- one step of the loop of `rehash`, seen from large table `li`. -/
theorem rehashStep_ltables (hfb : fb.WF) {st st' : Array Table × Array LTable} {pidx li idx1 idx2 : Nat}
    (hi1 : fb.ibl[li + 19]? = some idx1) (hi2 : fb.ibl[li + 19 + 1]? = some idx2)
    (h : rehashStep fb r1 r2 interval st pidx = some st') :
    ((pidx < idx1 ∨ idx2 ≤ pidx) → st'.2[li]? = st.2[li]?) ∧
    (idx1 ≤ pidx → pidx < idx2 → ∀ t, st.2[li]? = some t →
      ∃ t', (offsV fb r1 r2 interval pidx).foldlM (fun (t : LTable) off => t.add off pidx) t = some t' ∧
        st'.2[li]? = some t') := by
  obtain ⟨tables, ltables⟩ := st
  unfold rehashStep at h
  simp only [Option.bind_eq_bind, Option.bind_eq_some_iff] at h
  obtain ⟨p, hp, h⟩ := h
  have hcl := hfb.class_of hp hi1 hi2
  by_cases hsmall : p < BLOCK
  · simp only [hsmall, if_true, Option.some.injEq] at h
    subst h
    refine ⟨fun _ => rfl, ?_⟩
    intro a b t ht
    have := hcl.1 ⟨a, b⟩
    exact absurd hsmall (big_of_bitlen_ge16 (by omega))
  · simp only [hsmall, if_false] at h
    have h16 := bitlen_ge16_of_big hsmall
    by_cases hv : bitlen p < VLARGE_LOG
    · simp only [hv, if_true] at h
      have hl : ¬ bitlen p < LARGE_LOG := by simp only [LARGE_LOG]; omega
      simp only [hl, if_false, Option.bind_eq_some_iff, Option.some.injEq] at h
      obtain ⟨tables', _, rfl⟩ := h
      simp only [VLARGE_LOG] at hv
      refine ⟨fun _ => rfl, ?_⟩
      intro a b t ht
      have := hcl.1 ⟨a, b⟩
      omega
    · simp only [hv, if_false, Option.bind_eq_some_iff, Option.some.injEq] at h
      obtain ⟨ltables', hm, rfl⟩ := h
      obtain ⟨x, y, hx, hf, _, hy, hne⟩ := modifyM_spec hm
      simp only [VLARGE_LOG] at hv hx hy hne
      constructor
      · intro hout
        have : ¬ bitlen p = li + 19 := fun e => by have := hcl.2 e; omega
        exact hne li (by omega)
      · intro a b t ht
        have e := hcl.1 ⟨a, b⟩
        have : bitlen p - 19 = li := by omega
        rw [this] at hx hy
        simp only at ht
        rw [ht] at hx
        have := Option.some.inj hx; subst this
        exact ⟨y, rehashLTable_offs hp hf, hy⟩

end

theorem bucket_reset_nil {t : Table} {b : Nat} {bk : List (Nat × Nat)} (h : t.bucket b = some bk) :
    t.reset.bucket b = some [] := by
  apply bucket_of_zero_blens
  unfold Table.bucket at h
  cases hb : t.blens[b]? with
  | none => rw [hb] at h; simp at h
  | some v =>
    have := (Array.getElem?_eq_some_iff.1 hb).1
    simp [Table.reset, Array.getElem?_replicate, this]

theorem lbucket_reset_nil {t : LTable} {b : Nat} {bk : List (Nat × Nat)} (h : t.bucket b = some bk) :
    t.reset.bucket b = some [] := by
  apply lbucket_of_zero_len
  unfold LTable.bucket at h
  cases hb : t.lengths[b]? with
  | none => rw [hb] at h; simp at h
  | some v =>
    have := (Array.getElem?_eq_some_iff.1 hb).1
    simp [LTable.reset, Array.getElem?_replicate, this]

/-- `rehash` re-establishes the two shapes with the new roots (whatever offsets functions described the old
contents). -/
theorem rehash_shape {fb : FB} (hfb : fb.WF) {r1 r2 : Array Nat} {OT OV : Nat → List Nat} {n : Nat} {s s' : State}
    (hT : TShape fb OT n s.tables) (hL : LShape fb OV n s.ltables) (hn : s.nblocks = n) (hn0 : n ≠ 0)
    (hwf : ∀ (ti : Nat) (t : Table), s.tables[ti]? = some t → t.WF) (hsz : s.tables.size ≤ 3)
    (h : rehash fb s r1 r2 = some s') :
    TShape fb (offsV fb r1 r2 (n * BLOCK)) n s'.tables ∧ LShape fb (offsV fb r1 r2 (n * BLOCK)) n s'.ltables := by
  unfold rehash at h
  have hn0' : ¬ s.nblocks = 0 := by rw [hn]; exact hn0
  simp only [hn0', if_false, Option.bind_eq_bind, Option.bind_eq_some_iff, Option.some.injEq] at h
  obtain ⟨⟨tables, ltables⟩, hf, rfl⟩ := h
  rw [hn] at hf
  simp only
  constructor
  · intro tidx t ht
    -- the table existed before (sizes are kept by the loop): find it through the window lemma
    by_cases hex : ∃ t0, s.tables[tidx]? = some t0
    · obtain ⟨t0, ht0⟩ := hex
      have hti : tidx < 3 := by have := (Array.getElem?_eq_some_iff.1 ht0).1; omega
      obtain ⟨idx1, idx2, hi1, hi2, hbk0⟩ := hT tidx t0 ht0
      have hle12 := hfb.ibl_mono (by omega : tidx + 16 ≤ tidx + 17) hi1 hi2
      have hle2 := hfb.ibl_le _ _ hi2
      have hproj : (s.tables.map Table.reset, s.ltables.map LTable.reset).1[tidx]? = some t0.reset := by
        simp [Array.getElem?_map, ht0]
      obtain ⟨t', hfold, hpr⟩ := foldlM_window (rehashStep fb r1 r2 (n * BLOCK))
        (fun st : Array Table × Array LTable => st.1[tidx]?)
        (fun (t : Table) pidx => (offsV fb r1 r2 (n * BLOCK) pidx).foldlM
          (fun (t : Table) off => t.add off (pidx % 2 ^ 32)) t) idx1 idx2
        (fun st i st' hst ho => (rehashStep_tables hfb hti hi1 hi2 hst).1 ho)
        (fun st i st' t hst h1 h2 hp => (rehashStep_tables hfb hti hi1 hi2 hst).2 h1 h2 t hp)
        _ t0.reset hproj fb.primes.size _ hf
      simp only at hpr
      rw [ht] at hpr
      have := Option.some.inj hpr; subst this
      have hmin : min fb.primes.size idx2 - idx1 = idx2 - idx1 := by omega
      rw [hmin] at hfold
      obtain ⟨_, _, hbk⟩ := table_class_shape (offsV fb r1 r2 (n * BLOCK)) _ (fun t pidx t' hst => hst) _
        t0.reset t (Table.reset_WF t0 (hwf tidx t0 ht0).2) hfold
      refine ⟨idx1, idx2, hi1, hi2, ?_⟩
      intro b hb
      obtain ⟨bk0, hb0, _, _⟩ := hbk0 b hb
      obtain ⟨ext, e1, e2, e3⟩ := hbk b [] (bucket_reset_nil hb0)
      rw [List.nil_append] at e1
      exact ⟨ext, e1, e2, fun hz => e3 (by rw [hz, Table.reset_nOverflows])⟩
    · -- impossible: the loop keeps absent entries absent
      exfalso
      have hnone : s.tables[tidx]? = none := by
        cases hh : s.tables[tidx]? with
        | none => rfl
        | some v => exact absurd ⟨v, hh⟩ hex
      have hkeep : ∀ (L : List Nat) (st st' : Array Table × Array LTable), L.foldlM (rehashStep fb r1 r2 (n * BLOCK)) st = some st' →
          st'.1.size = st.1.size := by
        intro L
        induction L with
        | nil => intro st st' h; simp at h; subst h; rfl
        | cons a rest ih =>
          intro st st' h
          rw [List.foldlM_cons] at h
          simp only [bind, Option.bind_eq_some_iff] at h
          obtain ⟨st1, h1, h2⟩ := h
          rw [ih st1 st' h2]
          obtain ⟨tb, ltb⟩ := st
          unfold rehashStep at h1
          simp only [Option.bind_eq_bind, Option.bind_eq_some_iff] at h1
          obtain ⟨p, _, h1⟩ := h1
          split_ifs at h1
          · have := Option.some.inj h1; subst this; rfl
          · simp only [Option.bind_eq_some_iff, Option.some.injEq] at h1
            obtain ⟨tb', hm, rfl⟩ := h1
            obtain ⟨_, _, _, _, hs, _, _⟩ := modifyM_spec hm
            exact hs
          · simp only [Option.bind_eq_some_iff, Option.some.injEq] at h1
            obtain ⟨ltb', _, rfl⟩ := h1
            rfl
      have hs := hkeep _ _ _ hf
      simp only [Array.size_map] at hs
      have h1 := (Array.getElem?_eq_some_iff.1 ht).1
      have h2 : ¬ tidx < s.tables.size := by
        intro hc
        rw [Array.getElem?_eq_getElem hc] at hnone
        simp at hnone
      omega
  · intro tidx t ht
    by_cases hex : ∃ t0, s.ltables[tidx]? = some t0
    · obtain ⟨t0, ht0⟩ := hex
      obtain ⟨idx1, idx2, hi1, hi2, hbk0⟩ := hL tidx t0 ht0
      have hle12 := hfb.ibl_mono (by omega : tidx + 19 ≤ tidx + 20) hi1 hi2
      have hle2 := hfb.ibl_le _ _ hi2
      have hproj : (s.tables.map Table.reset, s.ltables.map LTable.reset).2[tidx]? = some t0.reset := by
        simp [Array.getElem?_map, ht0]
      obtain ⟨t', hfold, hpr⟩ := foldlM_window (rehashStep fb r1 r2 (n * BLOCK))
        (fun st : Array Table × Array LTable => st.2[tidx]?)
        (fun (t : LTable) pidx => (offsV fb r1 r2 (n * BLOCK) pidx).foldlM
          (fun (t : LTable) off => t.add off pidx) t) idx1 idx2
        (fun st i st' hst ho => (rehashStep_ltables hfb hi1 hi2 hst).1 ho)
        (fun st i st' t hst h1 h2 hp => (rehashStep_ltables hfb hi1 hi2 hst).2 h1 h2 t hp)
        _ t0.reset hproj fb.primes.size _ hf
      simp only at hpr
      rw [ht] at hpr
      have := Option.some.inj hpr; subst this
      have hmin : min fb.primes.size idx2 - idx1 = idx2 - idx1 := by omega
      rw [hmin] at hfold
      obtain ⟨_, _, hbk⟩ := ltable_class_shape (offsV fb r1 r2 (n * BLOCK)) _ (fun t pidx t' hst => hst) _
        t0.reset t (LTable.reset_WF t0) hfold
      refine ⟨idx1, idx2, hi1, hi2, ?_⟩
      intro b hb
      obtain ⟨bk0, hb0, _, _⟩ := hbk0 b hb
      obtain ⟨ext, e1, e2, e3⟩ := hbk b [] (lbucket_reset_nil hb0)
      rw [List.nil_append] at e1
      exact ⟨ext, e1, e2, fun hz => e3 (by rw [hz]; simp [LTable.reset])⟩
    · exfalso
      have hnone : s.ltables[tidx]? = none := by
        cases hh : s.ltables[tidx]? with
        | none => rfl
        | some v => exact absurd ⟨v, hh⟩ hex
      have hkeep : ∀ (L : List Nat) (st st' : Array Table × Array LTable), L.foldlM (rehashStep fb r1 r2 (n * BLOCK)) st = some st' →
          st'.2.size = st.2.size := by
        intro L
        induction L with
        | nil => intro st st' h; simp at h; subst h; rfl
        | cons a rest ih =>
          intro st st' h
          rw [List.foldlM_cons] at h
          simp only [bind, Option.bind_eq_some_iff] at h
          obtain ⟨st1, h1, h2⟩ := h
          rw [ih st1 st' h2]
          obtain ⟨tb, ltb⟩ := st
          unfold rehashStep at h1
          simp only [Option.bind_eq_bind, Option.bind_eq_some_iff] at h1
          obtain ⟨p, _, h1⟩ := h1
          split_ifs at h1
          · have := Option.some.inj h1; subst this; rfl
          · simp only [Option.bind_eq_some_iff, Option.some.injEq] at h1
            obtain ⟨tb', _, rfl⟩ := h1
            rfl
          · simp only [Option.bind_eq_some_iff, Option.some.injEq] at h1
            obtain ⟨ltb', hm, rfl⟩ := h1
            obtain ⟨_, _, _, _, hs, _, _⟩ := modifyM_spec hm
            exact hs
      have hs := hkeep _ _ _ hf
      simp only [Array.size_map] at hs
      have h1 := (Array.getElem?_eq_some_iff.1 ht).1
      have h2 : ¬ tidx < s.ltables.size := by
        intro hc
        rw [Array.getElem?_eq_getElem hc] at hnone
        simp at hnone
      omega

end Ymq.SieveLog
