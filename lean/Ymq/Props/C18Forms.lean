/-
C18 — "a sieved relation is a genuine relation": the theory of composition of binary quadratic
forms that the class group sieve rests on, proved for the model `relationOf` of
`classgroup::sieve_block_poly` (Ymq/Model/ClassGroup.lean), stated with forms directly.

* `value_form_equiv`: a form is properly equivalent to `(f(x,1), -(b+2ax), a)` and to `(a, b+2ax, f(x,1))`
  (explicit SL2(Z) matrices);
* `dirichlet_composition`: `(a₁, b, a₂c) ∘ (a₂, b, a₁c) = (a₁a₂, b, c)` with the bilinear Gauss identity;
* `concordant_product`: the form `(∏ qᵢ, b, c)` is the iterated composition of the forms `(qᵢ, b, ·)`;
* `prime_form_sign_odd`, `prime_form_sign_two`: the form `(p, y, ·)` is the prime form `[p]` or its
  conjugate exactly according to the test of the code (`y mod p` against `b_plus`; bit 1 of `y`);
* `relation_genuine`: the exponent vector emitted by `relationOf` (conversion loop, factors of `A`
  from `Poly::factors`, merge loop, large primes), read as a list of prime forms `[p]^{±1}`, composes
  to the principal form; `relation_genuine_fundamental`: the same for a fundamental discriminant
  without the primitivity hypothesis;
* `reduce_pequiv`: `Form.normalize` / `Form.reduce` (the reference arithmetic of the driver) are proper
  equivalences, hence preserve the discriminant.
-/
import Ymq.Lemmas.ClassGroupGenuine

namespace Ymq.C18
open Ymq.ClassGroup

/-- (1) If `m = f(x, 1)` for `f = (a, b, c)`, then `f` is properly equivalent to `(m, -(b + 2ax), a)`
(the comment of `sieve_block_poly`: "q is equivalent to (V, -Bx, A)") and to `(a, b + 2ax, m)`,
by the matrices `[[x, -1], [1, 0]]` and `[[1, x], [0, 1]]`. -/
theorem value_form_equiv (a b c x : Int) :
    PEquiv ⟨a, b, c⟩ ⟨(⟨a, b, c⟩ : Form).eval x 1, -(b + 2 * a * x), a⟩ ∧
    PEquiv ⟨a, b, c⟩ ⟨a, b + 2 * a * x, (⟨a, b, c⟩ : Form).eval x 1⟩ := by
  constructor
  · refine ⟨x, -1, 1, 0, by norm_num, ?_⟩
    simp only [Form.act, Form.eval, Form.mk.injEq]
    refine ⟨trivial, by ring, by ring⟩
  · have := pequiv_translate a b c x
    have e : a * x * x + b * x + c = (⟨a, b, c⟩ : Form).eval x 1 := by simp only [Form.eval]; ring
    rwa [e] at this

/-- (2) Dirichlet composition of concordant forms: `(a₁, b, a₂c)`, `(a₂, b, a₁c)` and `(a₁a₂, b, c)`
have the same discriminant and satisfy the bilinear Gauss identity
`f₁(x₁,y₁) f₂(x₂,y₂) = f₃(x₁x₂ - c y₁y₂, a₁x₁y₂ + a₂y₁x₂ + b y₁y₂)`. -/
theorem dirichlet_composition (a1 a2 b c : Int) :
    let f1 : Form := ⟨a1, b, a2 * c⟩
    let f2 : Form := ⟨a2, b, a1 * c⟩
    let f3 : Form := ⟨a1 * a2, b, c⟩
    f1.disc = f3.disc ∧ f2.disc = f3.disc ∧ ∀ x1 y1 x2 y2 : Int,
      f1.eval x1 y1 * f2.eval x2 y2
        = f3.eval (x1 * x2 - c * y1 * y2) (a1 * x1 * y2 + a2 * y1 * x2 + b * y1 * y2) := by
  simp only [Form.disc, Form.eval]
  refine ⟨by ring, by ring, ?_⟩
  intro x1 y1 x2 y2
  ring

/-- (3a) Iterated composition: if `b² - 4 (∏ qs) c = D` (`D ≡ 0, 1 mod 4`), all `q ≠ 0`, and
`gcd(q, ∏ rest, b) = 1` at every step, the form `(∏ qs, b, c)` is the product (in the sense of
`IsProduct`: iterated Dirichlet composition up to proper equivalence, starting from the principal
form) of the forms `(q, b, (b² - D)/4q)`, `q ∈ qs`. -/
theorem concordant_product (D b : Int) (hD : D % 4 = 0 ∨ D % 4 = 1) (qs : List Int) (c : Int)
    (h0 : ∀ q ∈ qs, q ≠ 0) (hcop : ChainCoprime b qs) (hd : b * b - 4 * qs.prod * c = D) :
    IsProduct D (qs.map fun q => formQB D q b) ⟨qs.prod, b, c⟩ :=
  dirichlet_chain hD qs c h0 hcop hd

/-- every form of a product has the discriminant `D`, and so has the product -/
theorem product_disc (D : Int) (hD : D % 4 = 0 ∨ D % 4 = 1) (l : List Form) (g : Form)
    (h : IsProduct D l g) : g.disc = D ∧ ∀ f ∈ l, f.disc = D :=
  h.disc hD

/-- (3b) Odd prime `p` (ramified primes included) with normalised root `ρ` (`Prime::b_plus`), `y` with
`4p ∣ y² - D`: the form `(p, y, ·)` of discriminant `D` is properly equivalent to the prime form
`[p] = (p, ρ, ·)` when `y mod p = ρ` (the code then emits `+e`), and to its conjugate otherwise (the
code emits `-e`). -/
theorem prime_form_sign_odd (D : Int) (p ρ : Nat) (y : Int) (e : Nat) (hp : p.Prime) (hodd : p % 2 = 1)
    (hρ : IsBPlus D p ρ) (hy : (4 * (p : Int)) ∣ y * y - D) :
    (signedExp p ρ y e = some (e : Int) ∧ PEquiv (formQB D p y) (primeForm D p ρ)) ∨
    (signedExp p ρ y e = some (-(e : Int)) ∧ PEquiv (formQB D p y) (primeForm D p ρ).conj) := by
  have h := primeForm_of_modSigned hp hodd hρ hy
  have hyp : (p : Int) ∣ y * y - D := Dvd.dvd.trans (Dvd.intro_left 4 rfl) hy
  unfold signedExp
  simp only
  by_cases hm : modSigned y p = ρ
  · left; exact ⟨by rw [if_pos hm], h.1 hm⟩
  · right
    have hc : modSigned y p = p - ρ := by
      rcases modSigned_cases hp hρ hyp with h' | h'
      · exact absurd h' hm
      · exact h'
    exact ⟨by rw [if_neg hm, if_pos hc], h.2 hm⟩

/-- (3c) `p = 2` with normalised root `ρ`, `8 ∣ y² - D`: `(2, y, ·)` is `[2]` when bit 1 of `y` is clear
(positive exponent in the code) and its conjugate when it is set. -/
theorem prime_form_sign_two (D : Int) (ρ : Nat) (y : Int) (hρ : IsBPlus D 2 ρ)
    (hy : (8 : Int) ∣ y * y - D) :
    (bit1 y = false ∧ PEquiv (formQB D 2 y) (primeForm D 2 ρ)) ∨
    (bit1 y = true ∧ PEquiv (formQB D 2 y) (primeForm D 2 ρ).conj) := by
  have h := primeForm_of_bit1 hρ (by simpa using hy)
  cases hb : bit1 y
  · left; exact ⟨rfl, by simpa using h.1 hb⟩
  · right; exact ⟨rfl, by simpa using h.2 hb⟩

/-- every prime dividing the norm has a normalised root (so `theRoot D p` is it) -/
theorem normalised_root_exists (D : Int) (p : Nat) (y : Int) (hp : 0 < p)
    (hy : (4 * (p : Int)) ∣ y * y - D) : IsBPlus D p (theRoot D p) :=
  theRoot_spec (exists_isBPlus hp hy)

/-- (4) A SIEVED RELATION IS A GENUINE RELATION. Polynomial `(A, B, C)` of discriminant `D` (type 2:
`Ax² + Bx + C`, type 1: `Ax² + 2Bx + C`, `D` even exactly for type 1), `B ≥ 0`, `A` the product of the
odd primes `afs` with correct stored roots, candidate primes `facs` that are 2, conductor primes or
factor-base primes with correct stored roots (`FbOk`). If the model of the `'smoothloop` body of
`sieve_block_poly` returns the relation `r`, and
* the large primes of `r` are odd primes (what `fbase::cofactor` debug-asserts / `try_factor64`
  returns; NAMED HYPOTHESIS `hlarge`),
* no prime `p` divides `y = B + 2Ax` (resp. `2B + 2Ax`) while `p²` divides `A · P(x)` (primitivity of
  the forms met: NAMED HYPOTHESIS `hprim`; automatic for a fundamental `D`, see
  `relation_genuine_fundamental`; for a non-fundamental `D` it is what the conductor-prime rejection is
  there for — that implication is not proved),
then every prime `p` of `r` is a prime with a normalised root `theRoot D p` (the one `b_plus` returns,
`theRoot_eq`), and the list of forms obtained by writing `[p] = primeForm D p (theRoot D p)` `e` times
for an entry `(p, e)`, `e > 0`, and its conjugate `|e|` times for `e < 0` (factor base primes, primes
of `A` merged in, large primes) is, up to the order of the factors, a list whose iterated Dirichlet
composition is the principal form. -/
theorem relation_genuine (D : Int) (type1 : Bool) (a b c x : Int) (maxprime maxlarge : Nat)
    (double : Bool) (conductor : List Nat) (fb : List (Nat × Nat)) (facs : List Nat)
    (afs : List (Nat × Nat)) (lp lq : Nat) (r : Rel)
    (hb : 0 ≤ b) (hdisc : polyDisc type1 a b c = D) (hty : type1 = true ↔ (2 : Int) ∣ D)
    (hfacs : ∀ p ∈ facs, FbOk D type1 conductor fb p)
    (hafs : ∀ pr ∈ afs, pr.1.Prime ∧ pr.1 ≠ 2 ∧
      ∃ ref, bPlus pr.1 pr.2 type1 = some ref ∧ IsBPlus D pr.1 ref)
    (haprod : a = ((afs.map Prod.fst).prod : Nat))
    (hrel : relationOf type1 a b c x maxprime maxlarge double conductor fb facs afs lp lq = .rel r)
    (hlarge : ∀ pe, (r.large1 = some pe ∨ r.large2 = some pe) → pe.1.Prime ∧ pe.1 ≠ 2)
    (hprim : ∀ p : Nat, p.Prime → (p : Int) ∣ (polyEval type1 a b c x).2 →
      ¬ ((p : Int) * p ∣ a * (polyEval type1 a b c x).1)) :
    (∀ pe ∈ r.entries, pe.2 ≠ 0 → pe.1.Prime ∧ IsBPlus D pe.1 (theRoot D pe.1)) ∧
    ∃ L, L.Perm (expand D (theRoot D) r.entries) ∧ IsProduct D L (principal D) :=
  relationOf_genuine D type1 a b c x maxprime maxlarge double conductor fb facs afs lp lq r
    hb hdisc hty hfacs hafs haprod hrel hlarge hprim

/-- `D` is a fundamental discriminant (given `D ≡ 0, 1 mod 4`): no odd prime square divides it, and
`D/4 ≢ 0, 1 (mod 4)` when `4 ∣ D` -/
def IsFundamental (D : Int) : Prop :=
  ∀ p : Nat, p.Prime → ((p : Int) * p ∣ D) → p = 2 ∧ D % 16 ≠ 0 ∧ D % 16 ≠ 4

/-- for a fundamental discriminant the primitivity hypothesis of `relation_genuine` always holds -/
theorem primitive_of_fundamental (D : Int) (hf : IsFundamental D) (a v y : Int)
    (hid : y * y - 4 * a * v = D) (p : Nat) (hp : p.Prime) (hpy : (p : Int) ∣ y) :
    ¬ ((p : Int) * p ∣ a * v) := by
  intro hsq
  obtain ⟨k, hk⟩ := hpy
  obtain ⟨m, hm⟩ := hsq
  have hD : (p : Int) * p ∣ D := ⟨k * k - 4 * m, by rw [← hid, hk]; linear_combination -4 * hm⟩
  obtain ⟨h2, h16, h4⟩ := hf p hp hD
  subst h2
  have e : D = 4 * (k * k) - 16 * m := by rw [← hid, hk]; push_cast; linear_combination -4 * hm
  have hkk : k * k % 4 = 0 ∨ k * k % 4 = 1 := by
    rcases Int.emod_two_eq_zero_or_one k with h | h
    · obtain ⟨j, hj⟩ : ∃ j, k = 2 * j := ⟨k / 2, by omega⟩
      left; have : k * k = 4 * (j * j) := by rw [hj]; ring
      omega
    · obtain ⟨j, hj⟩ : ∃ j, k = 2 * j + 1 := ⟨k / 2, by omega⟩
      right; have : k * k = 4 * (j * j + j) + 1 := by rw [hj]; ring
      omega
  omega

/-- (4') `relation_genuine` for a fundamental discriminant: the primitivity hypothesis is discharged. -/
theorem relation_genuine_fundamental (D : Int) (type1 : Bool) (a b c x : Int) (maxprime maxlarge : Nat)
    (double : Bool) (conductor : List Nat) (fb : List (Nat × Nat)) (facs : List Nat)
    (afs : List (Nat × Nat)) (lp lq : Nat) (r : Rel)
    (hfund : IsFundamental D)
    (hb : 0 ≤ b) (hdisc : polyDisc type1 a b c = D) (hty : type1 = true ↔ (2 : Int) ∣ D)
    (hfacs : ∀ p ∈ facs, FbOk D type1 conductor fb p)
    (hafs : ∀ pr ∈ afs, pr.1.Prime ∧ pr.1 ≠ 2 ∧
      ∃ ref, bPlus pr.1 pr.2 type1 = some ref ∧ IsBPlus D pr.1 ref)
    (haprod : a = ((afs.map Prod.fst).prod : Nat))
    (hrel : relationOf type1 a b c x maxprime maxlarge double conductor fb facs afs lp lq = .rel r)
    (hlarge : ∀ pe, (r.large1 = some pe ∨ r.large2 = some pe) → pe.1.Prime ∧ pe.1 ≠ 2) :
    (∀ pe ∈ r.entries, pe.2 ≠ 0 → pe.1.Prime ∧ IsBPlus D pe.1 (theRoot D pe.1)) ∧
    ∃ L, L.Perm (expand D (theRoot D) r.entries) ∧ IsProduct D L (principal D) := by
  apply relation_genuine D type1 a b c x maxprime maxlarge double conductor fb facs afs lp lq r
    hb hdisc hty hfacs hafs haprod hrel hlarge
  intro p hp hpy
  have hid := polyEval_disc type1 a b c x
  rw [hdisc] at hid
  exact primitive_of_fundamental D hfund a _ _ hid p hp hpy

/-- the root chosen by `theRoot` is the one the code computes: any `ref` with `IsBPlus D p ref`
(`bPlus_spec_odd` / `bPlus_spec_even`: what `Prime::b_plus` returns) -/
theorem theRoot_is_b_plus (D : Int) (p ref : Nat) (hp : p.Prime) (h : IsBPlus D p ref) :
    theRoot D p = ref := theRoot_eq hp h

/-- `Form.normalize` and `Form.reduce` (whatever the fuel) are proper equivalences (explicit
matrices: a translation, resp. translations and swaps); in particular they preserve the discriminant
and the represented integers. -/
theorem reduce_pequiv (f : Form) (fuel : Nat) :
    PEquiv f f.normalize ∧ PEquiv f (f.reduce fuel) ∧ (f.reduce fuel).disc = f.disc := by
  have hn : ∀ g : Form, PEquiv g g.normalize := by
    intro g
    unfold Form.normalize
    split
    · exact PEquiv.refl g
    · exact pequiv_translate g.a g.b g.c ((g.a - g.b) / (2 * g.a))
  have hr : ∀ (n : Nat) (g : Form), PEquiv g (g.reduce n) := by
    intro n
    induction n with
    | zero => intro g; exact PEquiv.refl g
    | succ n ih =>
      intro g
      rw [Form.reduce]
      split
      · exact (hn g).trans ((pequiv_swap _ _ _).trans (ih _))
      · split
        · rename_i h
          refine (hn g).trans ?_
          generalize g.normalize = m at h ⊢
          obtain ⟨ma, mb, mc⟩ := m
          simp only at h ⊢
          obtain ⟨h1, _⟩ := h
          subst h1
          exact pequiv_swap _ _ _
        · exact hn g
  exact ⟨hn f, hr fuel f, (hr fuel f).disc_eq⟩

/-! ### non-vacuity -/

example : PEquiv ⟨1, 1, 6⟩ ⟨8, -3, 1⟩ := by simpa [Form.eval] using (value_form_equiv 1 1 6 1).1
example : ChainCoprime 3 [2, 2, 2] ∧ (3 : Int) * 3 - 4 * ([2, 2, 2] : List Int).prod * 1 = -23 := by
  refine ⟨⟨by decide, by decide, by decide, trivial⟩, by decide⟩
/-- `prime_form_sign_odd`: D = -23, p = 13, ρ = 9, y = 17 -/
example : Nat.Prime 13 ∧ IsBPlus (-23) 13 9 ∧ (4 * ((13 : Nat) : Int)) ∣ (17 : Int) * 17 - (-23) := by
  refine ⟨by decide, by unfold IsBPlus; decide, by decide⟩
/-- `prime_form_sign_two`: D = -23, ρ = 1, y = 3 (bit 1 set: conjugate) -/
example : IsBPlus (-23) 2 1 ∧ (8 : Int) ∣ (3 : Int) * 3 - (-23) ∧ bit1 3 = true := by
  refine ⟨by unfold IsBPlus; decide, by decide, by decide⟩
example : IsFundamental (-23) := by
  intro p hp hd
  exfalso
  have h1 : ((p * p : Nat) : Int) ∣ (23 : Int) := by
    push_cast; exact (dvd_neg (a := (p : Int) * p) (b := 23)).1 (by simpa using hd)
  have h2 : p * p ∣ 23 := Int.natCast_dvd_natCast.1 h1
  have h3 : p * p ≤ 23 := Nat.le_of_dvd (by norm_num) h2
  have h4 : p ≤ 4 := by nlinarith
  have := hp.two_le
  interval_cases p <;> omega
/-- the hypotheses of `relation_genuine` on a real candidate: D = -23, polynomial x² + x + 6, x = 1:
P(1) = 8 = 2³, y = 3; the relation is `[2]^{-3} = 1` (the class of `[2]` has order 3) -/
example : relationOf false 1 1 6 1 151 302 false [] [(2, 1), (3, 1), (13, 9)] [2, 3, 13] [] 1 1
      = .rel ⟨[(2, -3)], none, none⟩ ∧
    polyDisc false 1 1 6 = -23 ∧ (false = true ↔ (2 : Int) ∣ -23) ∧
    (∀ p ∈ [2, 3, 13], FbOk (-23) false [] [(2, 1), (3, 1), (13, 9)] p) ∧
    (1 : Int) = ((([] : List (Nat × Nat)).map Prod.fst).prod : Nat) ∧ polyEval false 1 1 6 1 = (8, 3) := by
  refine ⟨by decide +kernel, by decide, by decide, ?_, by decide, by decide⟩
  intro p hp
  simp only [List.mem_cons, List.not_mem_nil, or_false] at hp
  rcases hp with rfl | rfl | rfl
  · exact Or.inl rfl
  · exact Or.inr (Or.inr ⟨by decide, 1, 1, by decide, by decide, by unfold IsBPlus; decide⟩)
  · exact Or.inr (Or.inr ⟨by decide, 9, 9, by decide, by decide, by unfold IsBPlus; decide⟩)
example : (Form.reduce 10 ⟨8, -3, 1⟩) = ⟨1, 1, 6⟩ := by decide

end Ymq.C18
