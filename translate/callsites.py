#!/usr/bin/env python3
"""Call sites of the polynomial code that the correspondence harness cannot call (private driver loops), property C12:
the start offsets handed to prepare_a / Sieve::new / prepare_prime, the Gray walk loop of sieve_a, the chunking of
process_poly_block and the use of dinv_modp[idx] in mpqs_poly, the set-up loops of qsieve().  The harness re-implements
these few lines (harness/src/ops_poly.rs, hook vh_poly_block); this translator pins their shape in the source and emits
the offset expressions as Lean terms (Ymq/Gen/CallSites.lean) so that a theorem ties them to the models."""
import re, sys, os
sys.path.insert(0, os.path.dirname(os.path.abspath(__file__)))
from common import *
from rustexpr import find_fn

# source expression (whitespace-normalised) -> Lean term over `mm : Nat`
OFFSET_EXPRS = {
    "-(mm as i64) / 2": "Int.tdiv (-(mm : Int)) 2",
    "-(interval_size as i64 / 2)": "-(Int.tdiv (mm : Int) 2)",
    "-s.interval_size / 2": "Int.tdiv (-(mm : Int)) 2",
}


def norm(e):
    return re.sub(r"\s+", " ", e.strip())


def offset(expr, what):
    e = norm(expr)
    if e not in OFFSET_EXPRS:
        raise ExtractError(f"{what}: unknown start offset expression `{e}`")
    return OFFSET_EXPRS[e]


def once(pattern, text, what):
    ms = list(re.finditer(pattern, text, flags=re.S))
    if len(ms) != 1:
        raise ExtractError(f"{what}: {len(ms)} matches (exactly one expected)")
    return ms[0]


def run():
    siqs = src("src/siqs.rs")
    mpqs = src("src/mpqs.rs")
    qsv = src("src/qsieve.rs")
    # --- siqs::sieve_a
    sa = find_fn(siqs, "sieve_a")
    once(r"let mm = s\.interval_size;", sa, "sieve_a: mm")
    m = once(r"let a = &prepare_a\(factors, a_int, s\.fbase, ([^;]*?)\);", sa, "sieve_a: prepare_a call")
    off_prepare = offset(m.group(1), "sieve_a")
    once(r"let nfacs = a\.factors\.len\(\);\s*let polys_per_a = 1 << \(nfacs - 1\);\s*let mut pol = Poly::first\(s, a\);", sa,
         "sieve_a: first polynomial")
    once(r"for idx in 0\.\.polys_per_a \{.*?if idx > 0 \{\s*pol\.next\(s, a\);\s*\}\s*assert!\(pol\.idx == idx\);\s*"
         r"recycled = Some\(siqs_sieve_poly\(s, a, &pol, recycled\)\);", sa, "sieve_a: Gray walk loop")
    # --- siqs::siqs_sieve_poly
    sp = find_fn(siqs, "siqs_sieve_poly")
    once(r"let mm = s\.interval_size;", sp, "siqs_sieve_poly: mm")
    m = once(r"let start_offset: i64 = ([^;]*?);", sp, "siqs_sieve_poly: start offset")
    off_sieve = offset(m.group(1), "siqs_sieve_poly")
    once(r"let r1p = &pol\.r1p\[\.\.\];\s*let r2p = &pol\.r2p\[\.\.\];\s*"
         r"let mut state = sieve::Sieve::new\(start_offset, nblocks, s\.fbase, \[r1p, r2p\], rec\);", sp, "siqs_sieve_poly: Sieve::new")
    # --- SieveSIQS::new
    m = once(r"impl<'a> SieveSIQS<'a> \{\s*pub fn new\(.*?\) -> Self \{\s*let start_offset = ([^;]*?);", strip_rust_comments(siqs),
             "SieveSIQS::new: start offset")
    off_ctx = offset(m.group(1), "SieveSIQS::new")
    once(r"let off = fb\.div\(idx\)\.modi64\(start_offset\) as u32;\s*offsets\[idx\] = off;", siqs, "SieveSIQS::new: offset_modp")
    # --- mpqs::mpqs_poly and process_poly_block
    mp = find_fn(mpqs, "mpqs_poly")
    once(r"let pol = make_poly\(n, d, r\);", mp, "mpqs_poly: make_poly")
    m = once(r"let start_offset = ([^;]*?);", mp, "mpqs_poly: start offset")
    off_mpqs = offset(m.group(1), "mpqs_poly")
    once(r"let dinvs = wks\.dinv_modp\[idx\]\.as_ref\(\);\s*for i in 0\.\.fbase\.len\(\) \{\s*let p = fbase\.p\(i\);\s*let r = fbase\.r\(i\);\s*"
         r"let div = fbase\.div\(i\);\s*let inv = &s\.inverters\[i\];\s*let dinv = dinvs\[i\];\s*"
         r"let \(r1, r2\) = pol\.prepare_prime\(p, r, div, inv, dinv, start_offset as i32\);\s*roots1\[i\] = r1;\s*roots2\[i\] = r2;",
         mp, "mpqs_poly: root loop")
    once(r"let mut state = sieve::Sieve::new\(start_offset, nblocks, fbase, roots12, wks\.recycled\.take\(\)\);", mp, "mpqs_poly: Sieve::new")
    pb = find_fn(mpqs, "mpqs")
    m = once(r"let d_r_values = sieve_for_polys\(&s\.n, dbase, dstride\);.*?for chunk in d_r_values\.chunks\((\d+)\) \{\s*"
             r"wks\.batch_inversion\(&s, chunk\.iter\(\)\.map\(\|&\(d, _\)\| d\)\.collect\(\)\);\s*"
             r"for \(idx, \(d, r\)\) in chunk\.iter\(\)\.enumerate\(\) \{\s*mpqs_poly\(&s, idx, \*d, r, wks\);", pb, "process_poly_block")
    chunk = int(m.group(1))
    # the hook vh_poly_block must use the same chunk size
    hook = find_fn(mpqs, "vh_poly_block")
    once(r"for chunk in d_r_values\.chunks\(%d\) \{\s*wks\.batch_inversion\(&s, chunk\.iter\(\)\.map\(\|&\(d, _\)\| d\)\.collect\(\)\);" % chunk,
         hook, "vh_poly_block: chunking")
    # --- qsieve(): set-up loops
    qf = find_fn(qsv, "qsieve")
    once(r"for pidx in 0\.\.fbase\.len\(\) \{\s*let \(f1, f2\) = qs\.prepare_prime_fwd\(pidx\);\s*roots_fwd1\[pidx\] = f1;\s*roots_fwd2\[pidx\] = f2;\s*"
         r"let \(b1, b2\) = qs\.prepare_prime_bck\(pidx\);\s*roots_bck1\[pidx\] = b1;\s*roots_bck2\[pidx\] = b2;\s*\}", qf, "qsieve: root loop")
    once(r"let mut s_fwd = Sieve::new\(\s*0,\s*qs\.nblocks\(\),\s*qs\.fbase,\s*\[&roots_fwd1\[\.\.\], &roots_fwd2\[\.\.\]\],\s*None,\s*\);", qf,
         "qsieve: forward sieve")
    once(r"let mut s_bck = Sieve::new\(\s*0,\s*qs\.nblocks\(\),\s*qs\.fbase,\s*\[&roots_bck1\[\.\.\], &roots_bck2\[\.\.\]\],\s*None,\s*\);", qf,
         "qsieve: backward sieve")
    out = ["namespace Ymq.Gen.CallSites", "",
           "/-- `sieve_a`: start offset handed to `prepare_a` (`mm = s.interval_size`) -/",
           f"def siqsPrepareOffset (mm : Nat) : Int := {off_prepare}",
           "/-- `siqs_sieve_poly`: start offset handed to `Sieve::new` together with `pol.r1p`, `pol.r2p` -/",
           f"def siqsSieveOffset (mm : Nat) : Int := {off_sieve}",
           "/-- `SieveSIQS::new`: start offset reduced into `offset_modp` -/",
           f"def siqsContextOffset (mm : Nat) : Int := {off_ctx}",
           "/-- `mpqs_poly`: start offset handed to `prepare_prime` (as `i32`) and to `Sieve::new` -/",
           f"def mpqsOffset (mm : Nat) : Int := {off_mpqs}",
           "/-- `process_poly_block`: polynomials per batch inversion -/",
           f"def mpqsChunk : Nat := {chunk}", "",
           "end Ymq.Gen.CallSites", ""]
    write_gen("CallSites", "\n".join(out), ["src/siqs.rs", "src/mpqs.rs", "src/qsieve.rs"])
    return f"offsets: {off_prepare} | {off_sieve} | {off_ctx} | {off_mpqs}; chunk {chunk}"


if __name__ == "__main__":
    main(run)
