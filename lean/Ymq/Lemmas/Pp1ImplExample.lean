/-
A complete run of the whole-function model of `pp1::pp1` evaluated inside the logic (non-vacuity of `pp1_proper`):
`pp1(77, seed = 5, b1 = 4, b2 = 4)` with every number accepted as a pseudoprime.  Stage 1 consumes 2 (`g = V_2(5) = 23`),
3 (`g = V_3(23) = 9 mod 77`) and stops at 5 (`gpows = [1, 21, 7]`); `5 ≡ −2 mod 7` has `V_k ≡ ±2`, so the first gcd
check finds 7 and the cofactor 11 is accepted: `Some(([7], 11))`.  The first sieve block is the one C17 proves.
-/
import Ymq.Lemmas.Pp1Impl
import Ymq.Lemmas.SmoothBasePm1Witness

namespace Ymq.Pp1Impl
open Ymq.Primes Ymq.ExpModn Ymq.Gen Ymq.Pm1 Ymq.SmoothBase
open Ymq.Pm1Impl (onem znNewPanics)

/-- `block` with the information whether the `for` loop was left by a `break` -/
def blockB (m b1 : Nat) : List Nat → S1 → Option (S1 × Bool)
  | [], s => some (s, false)
  | p :: ps, s =>
    match step m b1 s p with
    | none => none
    | some (s', true) => some (s', true)
    | some (s', false) => blockB m b1 ps s'

theorem block_eq_blockB (m b1 : Nat) : ∀ (l : List Nat) (s : S1), block m b1 l s = (blockB m b1 l s).map Prod.fst
  | [], s => rfl
  | p :: ps, s => by
    rw [block, blockB]
    cases hs : step m b1 s p with
    | none => rfl
    | some r =>
      obtain ⟨s', fl⟩ := r
      cases fl
      · exact block_eq_blockB m b1 ps s'
      · rfl

theorem blockB_append_break (m b1 : Nat) : ∀ (l rest : List Nat) (s s' : S1), blockB m b1 l s = some (s', true) →
    blockB m b1 (l ++ rest) s = some (s', true)
  | [], _, s, s', h => by simp [blockB] at h
  | p :: ps, rest, s, s', h => by
    rw [List.cons_append, blockB]
    rw [blockB] at h
    cases hs : step m b1 s p with
    | none => rw [hs] at h; simp at h
    | some r =>
      obtain ⟨s1, fl⟩ := r
      rw [hs] at h
      cases fl
      · exact blockB_append_break m b1 ps rest s1 s' h
      · exact h

def exS0 : S1 := { g := 5 % 77, gpowsRev := [onem 77], pPrev := 1 }

theorem ex_block_prefix :
    (blockB 77 4 [2, 3, 5] exS0).map (fun r => (r.1.g, r.1.gpowsRev, r.1.pPrev, r.2)) = some (9, [7, 21, 1], 5, true) := by
  decide +kernel

theorem ex_pp1 : pp1 77 5 4 4 (fun _ => true) = some (some ([7], 11)) := by
  obtain ⟨ps0, ps1, hnew, hnext, _⟩ := new_spec primes_6542
  have hsplit : primesBelow 65536 = [2, 3, 5] ++ (first90.drop 3 ++ primesFrom 464 65072) := by
    rw [show (65536 : Nat) = 464 + 65072 from rfl, primesBelow_append, primesBelow_464, ← List.append_assoc]
    congr 1
  obtain ⟨s', hb, hg, hgp, hpp⟩ : ∃ s', block 77 4 (primesBelow 65536) exS0 = some s' ∧ s'.g = 9 ∧
      s'.gpowsRev = [7, 21, 1] ∧ s'.pPrev = 5 := by
    have h := ex_block_prefix
    cases hbb : blockB 77 4 [2, 3, 5] exS0 with
    | none => rw [hbb] at h; simp at h
    | some r =>
      obtain ⟨s', fl⟩ := r
      rw [hbb] at h
      simp only [Option.map_some, Option.some.injEq, Prod.mk.injEq] at h
      obtain ⟨h1, h2, h3, h4⟩ := h
      subst h4
      refine ⟨s', ?_, h1, h2, h3⟩
      rw [hsplit, block_eq_blockB, blockB_append_break 77 4 _ _ _ _ hbb]
      rfl
  have hc : checkGcdFactors 77 (fun _ => true) ⟨[], 77, [1, 21, 7]⟩ = some (true, ⟨[7], 11, [1, 21, 7]⟩) := by
    decide +kernel
  have hout : ∀ f, outer 77 4 (fun _ => true) (f + 1) ps1 (primesBelow 65536) 77 exS0 [] 77 =
      some (S1Out.ret (some ([7], 11))) := by
    intro f
    rw [outer, hb]
    simp only [hgp, List.reverse_cons, List.reverse_nil, List.nil_append, List.cons_append, hc]
    rfl
  have hsel : (Stage2.stage2Select 4 1).isSome = true := by decide +kernel
  have hz : znNewPanics 77 = false := by decide +kernel
  unfold pp1
  cases hs : Stage2.stage2Select 4 1 with
  | none => rw [hs] at hsel; simp at hsel
  | some r =>
    obtain ⟨lab, d1, d2⟩ := r
    simp only
    rw [if_neg (by decide), hz]
    simp only [Bool.false_eq_true, if_false]
    rw [if_neg (by decide), hnew]
    simp only
    rw [hnext]
    simp only
    have h := hout 65599
    simp only [Nat.reduceAdd, exS0] at h
    rw [h]

end Ymq.Pp1Impl
