import Ymq.Props.C04
import Ymq.Props.C04Relations
#print axioms Ymq.C04.sched_inv
#print axioms Ymq.C04.sched_done_monotone
#print axioms Ymq.C04.sched_bounded_work
#print axioms Ymq.C04.sched_progress
#print axioms Ymq.C04.sched_relations_valid
#print axioms Ymq.C04.sched_no_panic
