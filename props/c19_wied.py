"""C19 / Wiedemann — helper module for props/c19.py: the callers of berlekamp_massey in matrix/intsparse.rs
(SparseMat::new, mulp, norm, select_crtprimes, _detp4 / detp4, detz without thread pool) are now modelled
(lean/Ymq/Model/Wiedemann.lean, driver lean/Ymq/Drv/Wiedemann.lean) on the EXISTING request formats of
harness/src/ops_intmat.rs. No new harness op.

Wiring (props/c19.py):
  * switch K on (k=True) for the ops in K_OPS: im_sparse_norm, im_sparse_primes, im_mulp4, im_detp4, im_det_sparse.
    The driver needs about 30 ms per im_det_sparse of dimension 60 and grows like n^3 (list-based Berlekamp-Massey):
    keep k=True for dimension <= K_MAX_DIM (150) and leave the larger ones oracle-only. im_det_sparse_par (thread pool),
    im_ker_p256 (mulpbig, StdRng) and im_sparse_lattice_index stay k=False (not modelled).
    Measured (c19.cases restricted to these ops): quick seeds 1-4: 1423/1423 agree in both profiles (driver 11 s per seed);
    thorough seed 1, dimension <= 150: 9308/9308 agree in both profiles, driver 540 s -> lower K_MAX_DIM to 60 if that is too slow.
  * `yield from c19_wied.cases(tier, rng)`: extra requests (i64 overflow of mulp outside the documented precondition:
    K against the checked profile only; the early-termination witnesses of detz).
  * finding_key: `k = c19_wied.finding_key(case, ans, profile, true_det)` for im_det_sparse answers that differ from the
    exact determinant: returns "sparse-det-early-termination" when the answer is the symmetric residue of the determinant
    modulo the product of the first 4k moduli (k >= 1) — add that key to known_findings.json (entry proposed in FINDINGS).
  * LEAN += LEAN; THEOREMS += THEOREMS; MODELLED/UNMODELLED += ...; copy the #print axioms lines of
    lean/Ymq/Audit/C19Wied.lean into lean/Ymq/Audit/C19.lean.
"""
from vlib.pipeline import Case
from vlib import gen

K_OPS = ("im_sparse_norm", "im_sparse_primes", "im_mulp4", "im_detp4", "im_det_sparse")
K_MAX_DIM = 150
LEAN = ["Ymq.Props.C19Wied"]
AUDIT = "Ymq.Audit.C19Wied"
THEOREMS = ["Ymq.C19Wied." + t for t in (
    "krylov_recurrence detp4_spec_full_complexity detp4_false_zero_iff_deficient mulp_spec mulp_overflow_witness "
    "detp4_lane_of_model detp4_lane_of_norm detz_of_detp_partial detz_early_termination_witness "
    "isprime64_isprimeSound select_crtprimes_spec select_crtprimes_zero_norm detz_of_detp_selected_partial").split()]

# nonsingular matrices on which detz returns a wrong value because the CRT loop stops at the first repeated value
WITNESS_ZERO = "im_det_sparse 0:21,1:-1;0:5461,1:16384,2:-1;0:5461,2:16384,3:-1;0:4926,3:16384,4:-1;0:8192,4:16384,5:-1;5:16384,6:-1;0:4645,6:16384,7:-1;0:-2432,7:16384,8:-1;0:-1,8:16384,9:-1;0:535,9:16384,10:-1;0:-1832,10:16384,11:-1;0:684,11:16384,12:-1;0:-5528,12:16384,13:-1;0:-5929,13:16384,14:-1;0:6260,14:16384"       # 15x15, det = 108 * p0*p1*p2*p3 (201 bits): detz = 0 after ONE block
WITNESS_NONZERO = "im_det_sparse 0:639,1:-1;0:4557,1:16384,2:-1;0:5798,2:16384,3:-1;0:5039,3:16384,4:-1;0:5077,4:16384,5:-1;0:-3731,5:16384,6:-1;0:-7386,6:16384,7:-1;0:-5049,7:16384,8:-1;0:-6136,8:16384,9:-1;0:-204,9:16384,10:-1;0:3052,10:16384,11:-1;0:4938,11:16384,12:-1;0:-4898,12:16384,13:-1;0:-7636,13:16384,14:-1;0:7090,14:16384,15:-1;0:-4047,15:16384,16:-1;0:-1082,16:16384,17:-1;0:-1570,17:16384,18:-1;0:-1373,18:16384,19:-1;0:1143,19:16384,20:-1;0:2943,20:16384,21:-1;0:-7929,21:16384,22:-1;0:5014,22:16384,23:-1;0:961,23:16384,24:-1;0:574,24:16384,25:-1;0:5488,25:16384,26:-1;0:-587,26:16384,27:-1;0:8192,27:16384"    # 28x28, det = p0*...*p7 + 9671 (388 bits): detz = 9671 after two blocks
FINDINGS = [{
    "property": "C19", "key": "sparse-det-early-termination",
    "what": "SparseMat::detz does not use a determinant bound: it rebuilds the determinant by CRT after every block of 4 moduli and returns as "
            "soon as two consecutive values agree (the first comparison is with the initial value 0). A nonsingular matrix whose determinant "
            "is small modulo the product of the first 8 (or 0 modulo the first 4) of the deterministic moduli gets a wrong determinant: a "
            "15x15 matrix with det = 108*p0*p1*p2*p3 gives 0, a 28x28 matrix with det = p0*...*p7 + 9671 gives 9671 (both profiles; the "
            "lanes are all correct). Theorems detz_of_detp_partial (exactness only when the first block already exceeds 2|det|) and "
            "detz_early_termination_witness.",
    "input": WITNESS_ZERO}]


def sparse_primes(norm, count):
    bound = (1 << 63) // norm
    p = 30 * (bound // 30) - 1
    out = []
    while len(out) < count:
        if gen.is_prime(p):
            out.append(p)
        p -= 30
    return out


def finding_key(case, ans, profile, true_det, norm=None, size=None):
    """im_det_sparse answer != exact determinant: is it the symmetric residue modulo the first 4k moduli?"""
    if case.op not in ("im_det_sparse", "im_det_sparse_par") or ans in ("panic", "hang", "abort") or not norm:
        return None
    try:
        a = int(ans)
    except ValueError:
        return None
    if a == true_det:
        return None
    ps = sparse_primes(norm, max(size or 8, 8))
    P = 1
    for i, q in enumerate(ps):
        P *= q
        if i % 4 == 3:
            r = true_det % P
            if r > P // 2:
                r -= P
            if r == a:
                return "sparse-det-early-termination"
    return None


def cases(tier, rng, extended=False):
    out = []
    # the two early-termination witnesses (O fails with the finding key above; K agrees)
    out.append(Case(WITNESS_ZERO, tag="2142584058999773599800257773214217008184610623453022075082868"))
    out.append(Case(WITNESS_NONZERO, tag="393575655852331732609263509333303814599402965439568841511799354567693580869345233969607680488260441154519637393498112"))
    # mulp outside its documented precondition p * norm < 2^63: the checked profile panics on the i64 overflow (model = chk),
    # the release profile wraps silently (wrong residue): K on chk only, no oracle
    P48 = 281474976710677
    out.append(Case(f"im_mulp4 0:32767,0:32767 {P48},{P48},{P48},{P48} " + ",".join([str(P48 - 1)] * 4), o=False, profiles=["chk"]))
    for _ in range(6 if tier == "quick" else 30):
        n = rng.randrange(1, 5)
        rows = []
        for i in range(n):
            rows.append(",".join(f"{rng.randrange(n)}:{rng.choice([32767, -32768, 1, -1, 30000])}" for _ in range(rng.randrange(1, 6))))
        p = rng.choice([gen.prev_prime(1 << 63), gen.prev_prime(1 << 62), (1 << 61) - 1, gen.prev_prime(1 << 64)])
        v = [rng.choice([p - 1, rng.randrange(p), 0]) for _ in range(4 * n)]
        out.append(Case(f"im_mulp4 {';'.join(rows)} {p},{p},{p},{p} " + ",".join(map(str, v)), o=False, profiles=["chk"]))
    return out


HYPOTHESES = ["IsprimeSound isprime (theorems select_crtprimes_spec, detz_of_detp_selected_partial): the primality test accepts only primes below 2^64; "
              "discharged for the isprime64 model by isprime64_isprimeSound from property C06's isprime64_sound, i.e. under C06's three named literature "
              "hypotheses H_psi2, H_psi5, H_psi12 (minimal strong pseudoprimes; Pomerance-Selfridge-Wagstaff, Jaeschke, Sorenson-Webster)"]

MODELLED = ["matrix/intsparse.rs SparseMat::new (asserts), mulp (one lane at a time; the +1 / -1 / other passes in the code's order with the i64 "
            "overflow checks of the checked profile), norm, select_crtprimes (with the isprime64 model of C06), _detp4 / detp4 (Fibonacci start "
            "vector, Krylov loop, berlekamp_massey model, charpoly[size], sign), detz without thread pool (blocks of 4, crt model of C19, "
            "termination on the first repeated value, unreachable!()): Ymq/Model/Wiedemann.lean"]
UNMODELLED = ["detz with a thread pool (rayon order, the done flag): the set of blocks consumed depends on scheduling; oracle only",
              "mulpbig / ker_pbig / ker_p256 (generic integer types, StdRng start vector for the kernel evaluation): oracle only",
              "release-profile wrapping of mulp outside p * norm < 2^63 (the model follows the checked profile)"]
