/-
Model of the kernel path of src/matrix/intsparse.rs: `SparseMat::mulpbig::<U, I>` (219-253),
`ker_pbig::<U, I, UU>` (450-519) and the dispatch `ker_p256` (428-448).

The four instantiations differ only in the width `w` of `U` / `I` (64, 128, 192, 256 bits; `UU`
has `2w` bits): the model is parameterised by `w`. `I::cast_from(x)` of a `U` reinterprets the
word (`asI`); additions, subtractions and products in `I` panic on overflow in the checked
profile (`overflow-checks` for `i64`/`i128`, `debug_assertions` for bnum's `BInt`).
`berlekamp_massey_big::<U, UU>` is `Ymq.BM.bmBig`: its only width-dependent site is `*a + p` in
`subp`, which cannot overflow `U` in the three narrow instantiations (`p < 2^(w-8)` by the
dispatch) and is modelled exactly for `U256`.
The vector `v0` drawn from `StdRng::seed_from_u64(163)` is an INPUT of the model (the harness
reads it from the add-only hook `verif_hooks_ker::ker_v0`).
Conventions as in Ymq/Model/Wiedemann.lean. No Mathlib import.
-/
import Ymq.Model.Wiedemann

namespace Ymq.Wied

/-- range check of an operation in the signed type of width `w` -/
def chkI (w : Nat) (z : Int) : Option Int :=
  if -(2 ^ (w - 1) : Int) ≤ z ∧ z < (2 ^ (w - 1) : Int) then some z else none

/-- `I::cast_from(x)` for a word `x` of the unsigned type of the same width -/
def asI (w : Nat) (x : Nat) : Int :=
  if (x : Int) < (2 ^ (w - 1) : Int) then (x : Int) else (x : Int) - (2 ^ w : Int)

/-- one accumulation loop of `mulpbig` (lines 231-235, 238-242, 245-249) -/
def accPassW (w : Nat) (sel : Int → Bool) (term : Nat → Int → Option Int) (col : Nat → Nat) :
    Row → Int → Option Int
  | [], x => some x
  | (j, e) :: r, x =>
    if sel e then
      match term (col j) e with
      | none => none
      | some t =>
        match chkI w (x + t) with
        | none => none
        | some x' => accPassW w sel term col r x'
    else accPassW w sel term col r x

/-- `U::cast_from(x.rem_euclid(&I::cast_from(p)))` (line 250) -/
def remEuclidW (w : Nat) (x : Int) (p : Nat) : Option Nat :=
  let q := asI w p
  if q = 0 then none
  else if x = -(2 ^ (w - 1) : Int) ∧ q = -1 then none
  else some (x % q).toNat

/-- one row of `mulpbig` -/
def rowBig (w : Nat) (col : Nat → Nat) (p : Nat) (r : Row) : Option Nat :=
  match accPassW w (fun e => e == 1) (fun a _ => some (asI w a)) col r 0 with
  | none => none
  | some x1 =>
    match accPassW w (fun e => e == -1) (fun a _ => some (-asI w a)) col r x1 with
    | none => none
    | some x2 =>
      match accPassW w (fun e => e != 1 && e != -1) (fun a e => chkI w (e * asI w a)) col r x2 with
      | none => none
      | some x3 => remEuclidW w x3 p

/-- `mulpbig(p, v, out)` -/
def mulpBig (w : Nat) (m : Mat) (p : Nat) (v : List Nat) : Option (List Nat) :=
  if v.length ≠ m.length then none                       -- assert!(v.len() == self.size)
  else m.mapM (rowBig w (fun j => v.getD j 0) p)

/-- the Krylov loop of `ker_pbig` (lines 470-477) -/
def krylovBig (w : Nat) (m : Mat) (p : Nat) : Nat → List Nat → List Nat → Option (List Nat)
  | 0, _, _ => none
  | f + 1, v, seq =>
    match v[0]? with
    | none => none                                       -- v[0] for size 0
    | some v0 =>
      let seq' := v0 :: seq
      if seq'.length = 2 * m.length then some seq'.reverse
      else
        match mulpBig w m p v with
        | none => none
        | some u => krylovBig w m p f u seq'

/-- the Horner loop (lines 499-508): `for i in i..size { v = (M v + charpoly[i] v0) % p }` -/
def hornerBig (w : Nat) (m : Mat) (p : Nat) (charpoly v0 : List Nat) :
    Nat → Nat → List Nat → Option (List Nat)
  | 0, _, v => some v
  | c + 1, i, v =>
    match mulpBig w m p v with
    | none => none
    | some u =>
      match charpoly[i]? with
      | none => none
      | some ci =>
        if p = 0 then none                               -- wj % UU::cast_from(p)
        else
          hornerBig w m p charpoly v0 c (i + 1)
            ((List.range m.length).map (fun j => (u.getD j 0 + ci * v0.getD j 0) % p))

/-- `ker_pbig::<U, I, UU>(p)` for the width `w`; `v0` = the vector drawn from the generator.
Outer `Option`: panic; inner: the Rust return value. -/
def kerBig (w : Nat) (m : Mat) (p : Nat) (v0 : List Nat) : Option (Option (List Nat)) :=
  match krylovBig w m p (2 * m.length + 1) (startVec m.length 0 1) [] with
  | none => none
  | some seq =>
    match Ymq.BM.bmBig p seq with
    | none => none
    | some charpoly =>
      match charpoly[m.length]? with
      | none => none                                     -- charpoly[self.size]
      | some c0 =>
        if c0 ≠ 0 then none                              -- assert!(c0.is_zero())
        else
          match charpoly[m.length - 1]? with
          | none => none
          | some c1 =>
            if c1 = 0 then some none                     -- double root: return None
            else if v0.length ≠ m.length then none
            else
              match hornerBig w m p charpoly v0 (m.length - 1) 1 v0 with
              | none => none
              | some v =>
                match mulpBig w m p v with
                | none => none
                | some z =>
                  if ¬ z.all (· == 0) then none          -- assert!(w.iter().all(is_zero))
                  else if ¬ v.any (· != 0) then none     -- assert!(v.iter().any(!is_zero))
                  else some (some v)

/-- `p.bits()` -/
def bitLen (p : Nat) : Nat := if p = 0 then 0 else Nat.log2 p + 1

/-- the dispatch of `ker_p256` (lines 431-446) -/
def kerWidth (m : Mat) (p : Nat) : Nat :=
  let nm := norm m
  if bitLen p < 56 ∧ nm < 256 then 64
  else if bitLen p < 120 ∧ nm < 256 then 128
  else if bitLen p < 182 ∧ nm < 1024 then 192
  else 256

/-- `ker_p256(p)` -/
def kerP256 (m : Mat) (p : Nat) (v0 : List Nat) : Option (Option (List Nat)) :=
  kerBig (kerWidth m p) m p v0

end Ymq.Wied
