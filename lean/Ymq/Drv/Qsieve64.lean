import Ymq.Drv.Util
import Ymq.Drv.Relations
import Ymq.Model.Qsieve64
import Ymq.Model.Pseudoprime

/-!
Driver ops for the model of `qsieve64::qsieve` (C03/qs64). `k` = the multiplier chosen by the real
`select_multiplier` (reported by the harness), relation tokens as in Drv/Relations.lean.

  qs64_rels n k          -> early a,b | fb=<p,..> sq=<r,..> rels=<rel;rel;..|-> | panic | hang
  qs64 n k kernel        -> none | some a b | panic | hang
       (kernel = index lists joined by `;`, `-` = no vector: what the real kernel solver returned)
  qs64_cand n k blk i    -> none | rel | panic | hang        (model only: the candidate at index i
                                                              of block number blk, whatever its score)
-/
namespace Ymq.Drv
open Ymq.Relations Ymq.Qsieve64

def showQ {α} (f : α → String) : M α → String
  | .ok a => f a
  | .error .fuel => "hang"
  | .error _ => "panic"

def showOutcome : Outcome → String
  | .early a b => s!"early {a},{b}"
  | .rels fb rels =>
    let rs := if rels.isEmpty then "-" else ";".intercalate (rels.map showRel)
    s!"fb={showList (fb.map (·.p))} sq={showList (fb.map (·.r))} rels={rs}"

def handleQsieve64 : Handler
  | ["qs64_rels", n, k] => do
    let n ← parseNat n; let k ← parseNat k
    some (showQ showOutcome (qsRels n k))
  | ["qs64", n, k, kernel] => do
    let n ← parseNat n; let k ← parseNat k
    let kernel ← if kernel = "-" then some [] else (kernel.splitOn ";").mapM parseNatList
    let isPrime := fun p => (Ymq.Pseudoprime.pseudoprime p).getD false
    some (showQ (fun r => match r with | none => "none" | some (a, b) => s!"some {a} {b}")
      (qsieve n k kernel isPrime))
  | ["qs64_cand", n, k, blk, i] => do
    let n ← parseNat n; let k ← parseNat k; let blk ← parseNat blk; let i ← parseNat i
    some (showQ (fun r => match r with | none => "none" | some r => showRel r) (do
      let s ← setup n k
      match s with
      | .early _ _ => pure none
      | .run c => candidate c (blockOffset c blk) i))
  | _ => none

end Ymq.Drv
