#!/usr/bin/env python3
"""Root shifting of the classical quadratic sieve (property C12).

`next_lgblock` is a closure local to `qsieve::qsieve()`: no hook can call it, so its body is
translated from the source text into Ymq/Gen/QsShift.lean:

    let large_block_size = qs.nblocks() * BLOCK_SIZE;
    let large_blksz_modp ... div.modi64(large_block_size as i64) as u32
    let next_lgblock = |roots1: &mut [u32], roots2: &mut [u32]| {
        ... for i in 0..roots1.len() { <straight-line u32 code on roots1[i], roots2[i]> }
    };

The loop body is parsed (tiny expression grammar: identifiers, `x[i]`, tuples, `min(a, b)`,
`.wrapping_sub(e)`, `.wrapping_add(e)`, checked `+`/`-`) and emitted as a Lean function of
(o, p, r1, r2) = (large_blksz_modp[i], primes[i], roots1[i], roots2[i]).  Any other shape raises
ExtractError.
"""
import re, sys, os
sys.path.insert(0, os.path.dirname(os.path.abspath(__file__)))
from common import *
from rustexpr import tokenize, _match_brace, find_fn


def bound_once(text, name, what):
    """exactly one `let [mut] name` in `text`: a second (shadowing) binding would change the value that reaches the closure
    without changing the statement that is translated"""
    k = len(re.findall(r"\blet\s+(?:mut\s+)?" + re.escape(name) + r"\b", text))
    if k != 1:
        raise ExtractError(f"{what}: {k} bindings of `{name}` (exactly one expected)")


class P:
    """recursive descent over rustexpr tokens; produces Lean terms (strings)"""

    def __init__(self, toks, env):
        self.t, self.i, self.env = toks, 0, env

    def peek(self):
        return self.t[self.i]

    def eat(self, text=None, kind=None):
        tok = self.t[self.i]
        if (text is not None and tok.text != text) or (kind is not None and tok.kind != kind):
            raise ExtractError(f"next_lgblock: unexpected token {tok.text!r} (wanted {text or kind})")
        self.i += 1
        return tok

    def primary(self):
        tok = self.peek()
        if tok.text == "(":
            self.eat("(")
            items = [self.expr()]
            while self.peek().text == ",":
                self.eat(",")
                items.append(self.expr())
            self.eat(")")
            return items[0] if len(items) == 1 else "(" + ", ".join(items) + ")"
        if tok.kind != "ident":
            raise ExtractError(f"next_lgblock: unexpected token {tok.text!r}")
        name = self.eat(kind="ident").text
        if name == "min" and self.peek().text == "(":
            self.eat("(")
            a = self.expr()
            self.eat(",")
            b = self.expr()
            self.eat(")")
            return f"(min {a} {b})"
        if self.peek().text == "[":
            self.eat("[")
            self.eat("i")
            self.eat("]")
            key = name + "[i]"
            if key not in self.env:
                raise ExtractError(f"next_lgblock: unknown array {name}")
            return self.env[key]
        if name not in self.env:
            raise ExtractError(f"next_lgblock: unknown variable {name}")
        return self.env[name]

    def postfix(self):
        e = self.primary()
        while self.peek().text == ".":
            self.eat(".")
            m = self.eat(kind="ident").text
            self.eat("(")
            arg = self.expr()
            self.eat(")")
            if m == "wrapping_sub":
                e = f"(wsub32 {e} {arg})"
            elif m == "wrapping_add":
                e = f"(wadd32 {e} {arg})"
            else:
                raise ExtractError(f"next_lgblock: unsupported method {m}")
        return e

    def expr(self):
        e = self.postfix()
        while self.peek().text in ("+", "-"):
            op = self.eat().text
            r = self.postfix()
            # a plain u32 `+`/`-` would be a checked operation: not expected in this closure
            raise ExtractError(f"next_lgblock: unexpected checked operator {op} between {e} and {r}")
        return e


def run():
    qs_file = strip_rust_comments(src("src/qsieve.rs"))
    qs = find_fn(src("src/qsieve.rs"), "qsieve")            # only the body of `pub fn qsieve`
    if len(re.findall(r"\bnext_lgblock\b", qs_file)) != len(re.findall(r"\bnext_lgblock\b", qs)):
        raise ExtractError("next_lgblock is mentioned outside qsieve()")
    for name in ("large_block_size", "large_blksz_modp", "primes", "next_lgblock", "roots_fwd1", "roots_fwd2", "roots_bck1", "roots_bck2"):
        bound_once(qs, name, "qsieve()")
    if re.search(r"(?<!let )(?<!let mut )\b(large_block_size|large_blksz_modp|primes)\s*(\+|-|\*|/|%|<<|>>|\^|\||&)?=(?!=)", qs):
        raise ExtractError("qsieve(): large_block_size / large_blksz_modp / primes is assigned after its binding")
    sv = strip_rust_comments(src("src/sieve.rs"))
    if len(re.findall(r"\bconst BLOCK_SIZE\b", sv)) != 1:
        raise ExtractError("sieve::BLOCK_SIZE defined more than once")
    blk = must(r"pub const BLOCK_SIZE: usize = ([^;]+);", sv, "sieve::BLOCK_SIZE").group(1)
    mb = re.fullmatch(r"\s*(\d+)\s*\*\s*(\d+)\s*", blk)
    block_size = int(mb.group(1)) * int(mb.group(2)) if mb else int_lit(blk)
    must(r"let large_block_size = qs\.nblocks\(\) \* BLOCK_SIZE;", qs, "large_block_size")
    must(r"let large_blksz_modp: Vec<u32> = \(0\.\.fbase\.len\(\)\)\s*\.map\(\|pidx\| \{\s*let div = fbase\.div\(pidx\);\s*"
         r"div\.modi64\(large_block_size as i64\) as u32\s*\}\)\s*\.collect\(\);", qs, "large_blksz_modp")
    must(r"let primes = &fbase\.primes\[\.\.\];", qs, "primes slice")
    m = must(r"let next_lgblock = \|roots1: &mut \[u32\], roots2: &mut \[u32\]\| \{", qs, "next_lgblock closure")
    start = m.end() - 1
    end = _match_brace(qs, start)
    body = qs[start + 1:end - 1]
    asserts = re.findall(r"assert_eq!\(([^;]*)\);", body)
    body_wo = re.sub(r"assert_eq!\([^;]*\);", "", body).strip()
    mf = re.fullmatch(r"for i in 0\.\.roots1\.len\(\) \{(.*)\}", body_wo, flags=re.S)
    if not mf:
        raise ExtractError("next_lgblock: the closure is no longer a single loop over 0..roots1.len()")
    want_asserts = {"roots1.len(), large_blksz_modp.len()", "roots2.len(), large_blksz_modp.len()", "roots2.len(), primes.len()"}
    if {re.sub(r"\s+", " ", a.strip()) for a in asserts} != want_asserts:
        raise ExtractError("next_lgblock: length assertions changed")
    # both uses of the closure: the roots are shifted exactly when a sieve has finished its blocks
    uses = re.findall(r"if (s_\w+)\.blk_no == qs\.nblocks\(\) \{\s*next_lgblock\(&mut (\w+), &mut (\w+)\);", qs)
    if sorted(uses) != [("s_bck", "roots_bck1", "roots_bck2"), ("s_fwd", "roots_fwd1", "roots_fwd2")]:
        raise ExtractError("next_lgblock: call sites changed")
    if len(re.findall(r"next_lgblock\(", qs)) != 2:
        raise ExtractError("next_lgblock: number of call sites changed")
    env = {"large_blksz_modp[i]": "o", "primes[i]": "p", "roots1[i]": "r1", "roots2[i]": "r2"}
    out1 = out2 = None
    lets = []
    bound = set()
    for st in [s.strip() for s in mf.group(1).split(";") if s.strip()]:
        toks = tokenize(st)
        if toks[0].text == "let":
            # let x = e   |   let (x, y) = (e1, e2)
            mm = re.fullmatch(r"let (\w+|\(\w+, \w+\)) = (.*)", st, flags=re.S)
            if not mm:
                raise ExtractError(f"next_lgblock: unsupported statement {st!r}")
            pr = P(tokenize(mm.group(2)), env)
            e = pr.expr()
            pr.eat(kind="eof")
            pat = mm.group(1)
            for nm in re.findall(r"\w+", pat):
                if nm in bound or nm in ("roots1", "roots2", "large_blksz_modp", "primes", "i"):
                    raise ExtractError(f"next_lgblock: `{nm}` is bound twice / shadows an input")
                bound.add(nm)
            if pat.startswith("("):
                a, b = [x.strip() for x in pat[1:-1].split(",")]
                name = f"{a}_{b}"
                lets.append(f"  let {name} : Nat × Nat := {e}")
                env = dict(env, **{a: f"{name}.1", b: f"{name}.2"})
            else:
                lets.append(f"  let v_{pat} : Nat := {e}")
                env = dict(env, **{pat: f"v_{pat}"})
        else:
            mm = re.fullmatch(r"(roots[12])\[i\] = (.*)", st, flags=re.S)
            if not mm:
                raise ExtractError(f"next_lgblock: unsupported statement {st!r}")
            pr = P(tokenize(mm.group(2)), env)
            e = pr.expr()
            pr.eat(kind="eof")
            if mm.group(1) == "roots1":
                if out1 is not None:
                    raise ExtractError("next_lgblock: roots1[i] assigned twice")
                out1 = e
                lets.append(f"  let w1 : Nat := {e}")
                env = dict(env, **{"roots1[i]": "w1"})
            else:
                if out2 is not None:
                    raise ExtractError("next_lgblock: roots2[i] assigned twice")
                out2 = e
                lets.append(f"  let w2 : Nat := {e}")
                env = dict(env, **{"roots2[i]": "w2"})
    if out1 is None or out2 is None:
        raise ExtractError("next_lgblock: a root array is not updated")
    out = ["namespace Ymq.Gen.QsShift", "",
           "/-- `sieve::BLOCK_SIZE` -/", f"def blockSize : Nat := {block_size}", "",
           "/-- `large_block_size = qs.nblocks() * BLOCK_SIZE` -/",
           "def largeBlockSize (nblocks : Nat) : Nat := nblocks * blockSize", "",
           "/-- `large_blksz_modp[pidx] = div.modi64(large_block_size as i64) as u32` (`Dividers::modi64` is `%`) -/",
           "def blkszModp (nblocks p : Nat) : Nat := largeBlockSize nblocks % p", "",
           "/-- `u32::wrapping_sub` -/", "def wsub32 (a b : Nat) : Nat := (a + 4294967296 - b) % 4294967296", "",
           "/-- `u32::wrapping_add` -/", "def wadd32 (a b : Nat) : Nat := (a + b) % 4294967296", "",
           "/-- body of the loop of `next_lgblock` for one prime: `(o, p, r1, r2)` =",
           "`(large_blksz_modp[i], primes[i], roots1[i], roots2[i])`; returns the new `(roots1[i], roots2[i])`. -/",
           "def shiftPair (o p r1 r2 : Nat) : Nat × Nat :="] + lets + ["  (w1, w2)", "",
           "end Ymq.Gen.QsShift", ""]
    write_gen("QsShift", "\n".join(out), ["src/qsieve.rs", "src/sieve.rs"])
    return f"BLOCK_SIZE={block_size}, next_lgblock: {len(lets)} statements"


if __name__ == "__main__":
    main(run)
