/-
SIQS (C12): `select_siqs_factors` — the window assertion, what a successful call returns, and that the selection
satisfies the hypotheses of the CRT / totality theorems.
-/
import Ymq.Lemmas.PolyCrt
import Ymq.Lemmas.PolySizes
import Ymq.Model.SiqsSelect
namespace Ymq.PolySelect
open Ymq.SiqsPoly Ymq.SiqsSelect Ymq.PolySizes Ymq.PolyCrt

theorem target_eq {n : Int} {mm tgt : Nat} (h : target n mm = some tgt) :
    tgt = siqsTarget n mm ∧ mm / 2 ≠ 0 := by
  unfold target at h
  split at h
  · cases h
  · rename_i h0
    injection h with h
    exact ⟨h.symm, h0⟩

/-- length of the window of `select_siqs_factors` -/
theorem window_len (idx nfacs plen : Nat) (hnf : 0 < nfacs) :
    (window idx nfacs plen).2 ≤ plen ∧
    ((window idx nfacs plen).2 - (window idx nfacs plen).1 > nfacs ↔ plen > nfacs) ∧
    (window idx nfacs plen).2 - (window idx nfacs plen).1 ≤ 4 * nfacs := by
  unfold window
  split
  · simp only; omega
  · simp only; omega

/-- `select_siqs_factors`: the assertion `selected_idx.len() > nfacs` fails exactly when the pool (the primes of
index ≥ 1 with non-zero root among the first `2·idx + 4·nfacs`) has at most `nfacs` elements -/
theorem selectFactors_isSome_iff (fb : List Prime) (n : Int) (nfacs mm tgt : Nat) (hnf : 0 < nfacs)
    (ht : target n mm = some tgt) (hbits : bitlen tgt < 256) :
    (∃ r, selectFactors fb n nfacs mm = some r) ↔
      (pool fb (partitionPoint fb nfacs tgt) nfacs).length > nfacs := by
  obtain ⟨h1, h2, _⟩ := window_len (partitionPoint fb nfacs tgt) nfacs
    (pool fb (partitionPoint fb nfacs tgt) nfacs).length hnf
  unfold selectFactors
  rw [if_neg (by omega), ht]
  dsimp only
  constructor
  · rintro ⟨r, hr⟩
    split at hr
    · cases hr
    · rename_i hw
      exact h2.mp (not_not.mp hw)
  · intro hp
    rw [if_neg (by rw [not_not]; exact h2.mpr hp), if_neg (by omega), if_neg (by rw [not_not]; exact hbits)]
    exact ⟨_, rfl⟩

/-- what a successful `select_siqs_factors` returns -/
theorem selectFactors_some {fb : List Prime} {n : Int} {nfacs mm tgt : Nat} {sel : List Prime}
    (hnf : 0 < nfacs) (h : selectFactors fb n nfacs mm = some (tgt, sel)) :
    tgt = siqsTarget n mm ∧ mm / 2 ≠ 0 ∧ sel.Sublist (fb.drop 1) ∧ (∀ q ∈ sel, q.r ≠ 0) ∧
    nfacs < sel.length ∧ sel.length ≤ 4 * nfacs := by
  unfold selectFactors at h
  rw [if_neg (by omega)] at h
  split at h
  · cases h
  · rename_i t ht
    obtain ⟨ht1, ht2⟩ := target_eq ht
    dsimp only at h
    split at h
    · cases h
    · rename_i hw
      split at h
      · cases h
      · rename_i hw2
        split at h
        · cases h
        · injection h with h
          injection h with h1 h2
          subst h1 h2
          obtain ⟨w1, w2, w3⟩ := window_len (partitionPoint fb nfacs t) nfacs
            (pool fb (partitionPoint fb nfacs t) nfacs).length hnf
          set pl := pool fb (partitionPoint fb nfacs t) nfacs with hpl
          have hsub : ((pl.drop (window (partitionPoint fb nfacs t) nfacs pl.length).1).take
              ((window (partitionPoint fb nfacs t) nfacs pl.length).2
                - (window (partitionPoint fb nfacs t) nfacs pl.length).1)).Sublist pl :=
            (List.take_sublist _ _).trans (List.drop_sublist _ _)
          have hpool : pl.Sublist (fb.drop 1) := by
            rw [hpl]; unfold pool
            refine List.filter_sublist.trans ?_
            exact (List.take_sublist _ _).drop 1
          refine ⟨ht1, ht2, hsub.trans hpool, ?_, ?_, ?_⟩
          · intro q hq
            have : q ∈ pl := hsub.subset hq
            rw [hpl] at this; unfold pool at this
            have := (List.mem_filter.mp this).2
            simpa using this
          · rw [List.length_take, List.length_drop]
            have := not_not.mp hw
            omega
          · rw [List.length_take, List.length_drop]
            omega

/-- the selection satisfies the hypotheses of the CRT and totality theorems -/
theorem sel_ok {n : Int} {fb sel : List Prime}
    (hprime : ∀ q ∈ fb, Nat.Prime q.p) (hroot : ∀ q ∈ fb, q.r < q.p ∧ (q.r : Int) * q.r ≡ n [ZMOD q.p])
    (hnd : (fb.map (·.p)).Nodup) (hsub : sel.Sublist (fb.drop 1)) (hr : ∀ q ∈ sel, q.r ≠ 0) :
    SelOk n sel ∧ (∀ q ∈ sel, ¬ ((q.p : Int) ∣ n)) := by
  have hsub' : sel.Sublist fb := hsub.trans (List.drop_sublist _ _)
  refine ⟨⟨hnd.sublist (hsub'.map _), fun q hq => hprime q (hsub'.subset hq),
    fun q hq => (hroot q (hsub'.subset hq)).2⟩, ?_⟩
  intro q hq hdvd
  have hqf := hsub'.subset hq
  obtain ⟨hlt, hsq⟩ := hroot q hqf
  have hp := hprime q hqf
  have h1 : ((q.p : Nat) : Int) ∣ (q.r : Int) * q.r := by
    have := Int.modEq_iff_dvd.mp hsq
    have h2 := Int.dvd_sub hdvd this
    simpa using h2
  have h2 : q.p ∣ q.r * q.r := by exact_mod_cast h1
  have h3 : q.p ∣ q.r := by
    rcases (Nat.Prime.dvd_mul hp).mp h2 with h | h <;> exact h
  have := Nat.le_of_dvd (Nat.pos_of_ne_zero (hr q hq)) h3
  omega

end Ymq.PolySelect
