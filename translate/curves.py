#!/usr/bin/env python3
"""Straight-line curve formulas of src/ecm.rs and src/ecm128.rs -> lean/Ymq/Gen/Curves.lean.

The bodies of the point formulas are parsed by a small recursive-descent parser for the subset
of Rust they are written in (`let v = zn.mul(&a, &b);`, nested calls, field access, the
`if self.twisted {..} else {..}` selection as statement or expression, tuple lets, the
`Point(..)`/`ExtPoint(..)` constructors, the M128 closures of ecm128.rs, `zn.inv`/`zn_divide`
as an abstract inverse) and re-emitted as Lean definitions over an arbitrary type carrying
`+ - * 0 1` and numerals (core classes only, so the same definitions are linked into the native
driver over Z/n and instantiated at a `CommRing` by the proofs).
Anything outside the subset raises ExtractError (= a broken tie, reported by the pipeline).

Also extracted: the capacity of the opcode buffers of the two addition-chain builders.

`python3 translate/curves.py` writes Gen/Curves.lean; `parse_all()` / `Ev` are reused by
translate/curve_proofs.py (sympy cofactors for the `linear_combination` proofs).
"""
import re, sys, os
sys.path.insert(0, os.path.dirname(os.path.abspath(__file__)))
from common import *

# ------------------------------------------------------------------ lexer

TOK = re.compile(r"\s*(?:(\d[\d_]*(?:_?(?:u8|u16|u32|u64|u128|usize|i8|i16|i32|i64|i128|isize))?)"
                 r"|([^\W\d]\w*)|(==|=>|::|->|&&|\|\||[(){}\[\],;.&=?|<>+\-*/%!:']))", re.U)


def lex(s):
    out, i = [], 0
    s = s.rstrip()
    while i < len(s):
        m = TOK.match(s, i)
        if not m or m.end() == i:
            if s[i:].strip() == "":
                break
            raise ExtractError(f"cannot tokenise near {s[i:i+30]!r}")
        i = m.end()
        if m.group(1) is not None:
            out.append(("num", int_lit(m.group(1))))
        elif m.group(2) is not None:
            out.append(("id", m.group(2)))
        else:
            out.append(("p", m.group(3)))
    return out


# ------------------------------------------------------------------ parser
# AST: ('var',n) ('field',e,i) ('self',f) ('op',o,a,b) ('zero',) ('one',) ('const',k) ('if',c,blk,blk)
#      ('tuple',[e]) ('ctor',T,[e]) ('block',[stmt],e) ('call',f,[e]) ('inv',e) ('eq',a,b) ('toproj',e)
# stmt: ('let', name | [names], e)

FIELD = {0: "x", 1: "y", 2: "z", 3: "t"}
RESERVED = {"inv", "R", "Pt", "Ext", "true", "false", "if", "then", "else", "let", "fun", "Nat", "Prop", "Bool"}


class P:
    def __init__(self, toks, ctx):
        self.t, self.i, self.ctx = toks, 0, ctx   # ctx: dict(kind='zn'|'m128', methods=set of sibling fns, what=str)

    def err(self, msg):
        near = " ".join(str(v) for _, v in self.t[self.i:self.i + 8])
        raise ExtractError(f"{self.ctx['what']}: {msg} near `{near}`")

    def peek(self, k=0):
        return self.t[self.i + k] if self.i + k < len(self.t) else ("eof", None)

    def at(self, v, k=0):
        return self.peek(k)[1] == v and self.peek(k)[0] in ("p", "id")

    def eat(self, v=None, kind=None):
        tk = self.peek()
        if (v is not None and tk[1] != v) or (kind is not None and tk[0] != kind):
            self.err(f"expected {v or kind}")
        self.i += 1
        return tk[1]

    # block body: stmts and an optional tail expression; stops at '}' or eof
    def body(self):
        stmts, tail = [], None
        while not self.at("}") and self.peek()[0] != "eof":
            if self.at("let"):
                self.eat("let")
                if self.at("mut"):
                    self.err("mutable binding")
                if self.at("("):
                    self.eat("(")
                    names = [self.eat(kind="id")]
                    while self.at(","):
                        self.eat(",")
                        names.append(self.eat(kind="id"))
                    self.eat(")")
                    pat = names
                else:
                    pat = self.eat(kind="id")
                    names = [pat]
                    if self.at(":"):            # type ascription `let g: Point = ..`
                        self.eat(":")
                        self.eat(kind="id")
                for nm in names:
                    if nm.startswith("self_") or nm.startswith("t_") or nm in RESERVED:
                        self.err(f"local name `{nm}` collides with a generated name")
                self.eat("=")
                e = self.expr()
                self.eat(";")
                stmts.append(("let", pat, e))
            else:
                e = self.expr()
                if self.at(";"):
                    self.err("expression statement")
                tail = e
                break
        if tail is None:
            self.err("block without a value")
        return ("block", stmts, tail) if stmts else tail

    def block(self):
        self.eat("{")
        b = self.body()
        self.eat("}")
        return b

    def expr(self):
        a = self.unary()
        if self.at("=="):
            self.eat("==")
            return ("eq", a, self.unary())
        return a

    def unary(self):
        if self.at("&"):
            self.eat("&")
            return self.unary()
        return self.postfix()

    def args(self):
        self.eat("(")
        xs = []
        while not self.at(")"):
            xs.append(self.expr())
            if not self.at(")"):
                self.eat(",")
        self.eat(")")
        return xs

    def constexpr(self):
        """integer constant: INT | INT * INT | Uint::from_digit(c) | c.into() | Uint::from(c)"""
        if self.peek()[0] == "num":
            v = self.eat(kind="num")
            while self.at("*"):
                self.eat("*")
                v *= self.eat(kind="num")
            if self.at(".") and self.at("into", 1):
                self.eat("."); self.eat("into"); self.eat("("); self.eat(")")
            return v
        if self.at("Uint") and self.at("::", 1) and self.peek(2)[1] in ("from_digit", "from"):
            self.eat("Uint"); self.eat("::"); self.eat(kind="id"); self.eat("(")
            v = self.constexpr()
            self.eat(")")
            if self.at("%"):                      # `% zn.n`: the same residue class
                self.eat("%"); self.eat("zn"); self.eat("."); self.eat("n")
            return v
        self.err("expected an integer constant")

    def zn_method(self):
        """after `zn` / `self.zn`: .mul/.add/.sub/.zero/.one/.from_int/.inv"""
        self.eat(".")
        m = self.eat(kind="id")
        if m in ("mul", "add", "sub"):
            a = self.args()
            if len(a) != 2:
                self.err(f"zn.{m} arity")
            return ("op", m, a[0], a[1])
        if m in ("zero", "one"):
            if self.args():
                self.err(f"zn.{m} arity")
            return (m,)
        if m == "from_int":
            self.eat("(")
            v = self.constexpr()
            self.eat(")")
            return ("const", v)
        self.err(f"unsupported ZmodN method {m}")

    def primary(self):
        k, v = self.peek()
        if k == "p" and v == "(":
            xs = self.args()
            return xs[0] if len(xs) == 1 else ("tuple", xs)
        if k == "p" and v == "{":
            return self.block()
        if k != "id":
            self.err("unexpected token")
        if v == "if":
            self.eat("if")
            if self.at("self"):
                self.eat("self"); self.eat("."); c = self.eat(kind="id")
                if c != "twisted":
                    self.err("condition")
                c = "tw"
            else:
                c = self.eat(kind="id")
                if c not in self.ctx.get("bools", ()):
                    self.err(f"condition `{c}` is not a bool parameter")
            a = self.block()
            self.eat("else")
            return ("if", c, a, self.block())
        if v == "match":
            # match zn.inv(E) { Some(inv) => inv, None => return Err(..) , }
            self.eat("match"); self.eat("zn"); self.eat("."); self.eat("inv")
            a = self.args()
            if len(a) != 1:
                self.err("zn.inv arity")
            self.eat("{"); self.eat("Some"); self.eat("("); nm = self.eat(kind="id"); self.eat(")"); self.eat("=>")
            if self.eat(kind="id") != nm:
                self.err("match arm")
            self.eat(","); self.eat("None"); self.eat("=>"); self.eat("return"); self.eat("Err")
            depth = 0
            while True:                       # skip the error value
                kk, vv = self.peek()
                if kk == "eof":
                    self.err("unterminated match")
                if vv == "(":
                    depth += 1
                if vv == ")":
                    depth -= 1
                self.i += 1
                if depth == 0:
                    break
            if self.at(","):
                self.eat(",")
            self.eat("}")
            return ("inv", a[0])
        if v == "zn" and self.at(".", 1):
            if self.ctx["kind"] != "zn":
                self.err("zn in a non-ZmodN context")
            self.eat("zn")
            return self.zn_method()
        if v == "self":
            self.eat("self"); self.eat(".")
            f = self.eat(kind="id")
            if f == "zn":
                return self.zn_method()
            if self.at("("):
                if f not in self.ctx["methods"]:
                    self.err(f"call of untranslated method {f}")
                return ("call", f, self.args())
            if f not in self.ctx["selfs"]:
                self.err(f"unknown self field {f}")
            return ("self", f)
        if v in ("Point", "ExtPoint") and self.at("(", 1):
            self.eat(kind="id")
            a = self.args()
            if len(a) != (3 if v == "Point" else 4):
                self.err("constructor arity")
            return ("ctor", v, a)
        if v == "Ok" and self.at("(", 1):
            self.eat("Ok")
            a = self.args()
            if len(a) != 1:
                self.err("Ok arity")
            return a[0]
        if v == "zn_divide" and self.at("(", 1):
            self.eat("zn_divide")
            a = self.args()
            if len(a) != 3 or a[0] != ("var", "zn"):
                self.err("zn_divide arguments")
            return ("op", "mul", a[1], ("inv", a[2]))
        if v == "M128" and self.at("(", 1):
            self.eat("M128"); self.eat("(")
            if self.eat(kind="num") != 0:
                self.err("M128 literal other than 0")
            self.eat(")")
            return ("zero",)
        if v in ("mul", "add", "sub") and self.at("(", 1) and self.ctx["kind"] == "m128":
            self.eat(kind="id")
            a = self.args()
            if len(a) != 2:
                self.err("arity")
            return ("op", v, a[0], a[1])
        self.eat(kind="id")
        if self.at("("):
            self.err(f"call of unknown function {v}")
        return ("var", v)

    def postfix(self):
        e = self.primary()
        while True:
            if self.at(".") and self.peek(1)[0] == "num":
                self.eat(".")
                i = self.eat(kind="num")
                if i not in FIELD:
                    self.err("field index")
                e = ("field", e, i)
            elif self.at(".") and self.at("to_proj", 1):
                self.eat("."); self.eat("to_proj"); self.eat("("); self.eat(")")
                e = ("toproj", e)
            elif self.at("?"):
                self.eat("?")
            else:
                return e


# ------------------------------------------------------------------ source slicing

def brace_block(text, start, what):
    """text[start] == '{' -> (inside, index after the closing brace)"""
    if text[start] != "{":
        raise ExtractError(f"{what}: expected '{{'")
    d = 0
    for i in range(start, len(text)):
        if text[i] == "{":
            d += 1
        elif text[i] == "}":
            d -= 1
            if d == 0:
                return text[start + 1:i], i + 1
    raise ExtractError(f"{what}: unbalanced braces")


ATTR_OK = re.compile(r"^(allow\(.*\)|doc\(.*\)|inline(\(.*\))?)$")


def check_attrs(text, pos, what, extra=()):
    """attributes attached to the item starting at text[pos] (line start): only allow/doc/inline
    (+ `extra`) may be present -- a `#[cfg(..)]`-split definition must not be translated silently."""
    lines = text[:pos].split("\n")
    lines.pop()                                   # the (partial) line of the item itself
    while lines:
        ln = lines.pop().strip()
        if ln == "":
            continue
        m = re.fullmatch(r"#\[(.*)\]", ln)
        if not m:
            break
        a = m.group(1).strip()
        if not (ATTR_OK.match(a) or a in extra):
            raise ExtractError(f"{what}: attribute #[{a}] on a translated item")


def line_start(text, pos):
    return text.rfind("\n", 0, pos) + 1


def impl_block(text, header_re, what):
    ms = list(re.finditer(header_re, text, flags=re.M))
    if len(ms) != 1:
        raise ExtractError(f"{what}: {len(ms)} impl blocks match (exactly one expected)")
    m = ms[0]
    check_attrs(text, line_start(text, m.start()), what)
    return brace_block(text, m.end() - 1, what)[0]


def fn_source(impl, name, what, extra_attrs=()):
    ms = list(re.finditer(r"\bfn " + re.escape(name) + r"\s*(?:<[^>]*>)?\(([^)]*)\)\s*(?:->\s*([^{]+?))?\s*\{", impl))
    if len(ms) != 1 or len(re.findall(r"\bfn " + re.escape(name) + r"\b", impl)) != 1:
        raise ExtractError(f"{what}: {len(ms)} definitions of `fn {name}` in its impl block (exactly one expected)")
    m = ms[0]
    ls = line_start(impl, m.start())
    if not re.fullmatch(r"\s*(pub(\([a-z]+\))?\s+)?", impl[ls:m.start()]):
        raise ExtractError(f"{what}: unexpected qualifiers before `fn {name}`")
    check_attrs(impl, ls, what, extra_attrs)
    body, _ = brace_block(impl, m.end() - 1, what)
    return m.group(1), (m.group(2) or "").strip(), body


# `is_validext` is test-only code in the source: it is translated as the *specification* predicate of
# extended coordinates (nothing in the production build depends on it)
EXTRA_ATTRS = {"ecm.is_validext": ("cfg(test)",)}


TYPES = {"&Point": "Pt", "Point": "Pt", "&ExtPoint": "Ext", "ExtPoint": "Ext", "bool": "Bool"}
RET = {"Point": "Pt", "ExtPoint": "Ext", "bool": "Prop", "Result<Point, UnexpectedLargeFactor>": "Pt",
       "Result<(MInt, MInt), UnexpectedLargeFactor>": "Pair",
       "Result<Curve, UnexpectedLargeFactor>": "Curve", "Result<Curve, UnexpectedFactor>": "Curve"}


def params_of(sig, what):
    ps = []
    for part in [x.strip() for x in sig.split(",") if x.strip()]:
        if part in ("&self", "self"):
            continue
        nm, ty = [x.strip() for x in part.split(":", 1)]
        if ty == "ZmodN":
            continue
        if ty not in TYPES:
            raise ExtractError(f"{what}: parameter type {ty}")
        ps.append((nm, TYPES[ty]))
    return ps


ZN_BIND = re.compile(r"^\s*let zn = &?self\.zn;\s*", re.M)
CLOSURES = {
    "add": r"let add = \|x, y\| M128::add\(self\.n, x, y\);",
    "sub": r"let sub = \|x, y\| M128::sub\(self\.n, x, y\);",
    "mul": r"let mul = \|x, y\| M128::mul\(self\.n, self\.ninv, x, y\);",
}

# (key, file, impl header regex, fn name, Lean name, kind, self fields)
ECM = r"^impl Curve \{"
SUY = r"^impl<'a> Suyama11<'a> \{"
SPEC = [
    ("ecm.add", "src/ecm.rs", ECM, "add", "ecmAdd"),
    ("ecm._addext", "src/ecm.rs", ECM, "_addext", "ecmAddextAux"),
    ("ecm.addext", "src/ecm.rs", ECM, "addext", "ecmAddext"),
    ("ecm.addextproj", "src/ecm.rs", ECM, "addextproj", "ecmAddextproj"),
    ("ecm.subextproj", "src/ecm.rs", ECM, "subextproj", "ecmSubextproj"),
    ("ecm.dblext", "src/ecm.rs", ECM, "dblext", "ecmDblext"),
    ("ecm.double", "src/ecm.rs", ECM, "double", "ecmDouble"),
    ("ecm.to_extended", "src/ecm.rs", ECM, "to_extended", "ecmToExtended"),
    ("ecm.is_valid", "src/ecm.rs", ECM, "is_valid", "ecmIsValid"),
    ("ecm.is_validext", "src/ecm.rs", ECM, "is_validext", "ecmIsValidext"),
    ("ecm.twisted_from_point", "src/ecm.rs", ECM, "twisted_from_point", "ecmTwistedFromPoint"),
    ("suyama.add_g", "src/ecm.rs", SUY, "add_g", "suyamaAddG"),
    ("suyama.double", "src/ecm.rs", SUY, "double", "suyamaDouble"),
    ("suyama.is_valid", "src/ecm.rs", SUY, "is_valid", "suyamaIsValid"),
    ("suyama.params", "src/ecm.rs", SUY, "params", "suyamaParams"),
    ("suyama.params_point", "src/ecm.rs", SUY, "params_point", "suyamaParamsPoint"),
    ("ecm128.ext", "src/ecm128.rs", ECM, "ext", "e128Ext"),
    ("ecm128.dblext", "src/ecm128.rs", ECM, "dblext", "e128Dblext"),
    ("ecm128.add", "src/ecm128.rs", ECM, "add", "e128Add"),
    ("ecm128.dbladd", "src/ecm128.rs", ECM, "dbladd", "e128Dbladd"),
    ("ecm128.double", "src/ecm128.rs", ECM, "double", "e128Double"),
    ("ecm128.is_valid", "src/ecm128.rs", ECM, "is_valid", "e128IsValid"),
]
GROUPS = {
    "ecm": dict(kind="zn", selfs={"d": "self_d"}, selfparams=[("self_d", "R"), ("self_twisted", "Bool")]),
    "suyama": dict(kind="zn", selfs={"a": "self_a", "b": "self_b", "gx": "self_gx", "gy": "self_gy"},
                   selfparams=[("self_a", "R"), ("self_b", "R"), ("self_gx", "R"), ("self_gy", "R")]),
    "ecm128": dict(kind="m128", selfs={"g": "self_g"}, selfparams=[("self_g", "Pt")]),
}


class Fn:
    pass


def parse_all():
    """-> dict key -> Fn(name, lean, group, params, ret, ast, uses_inv)"""
    files = {}
    fns = {}
    for key, path, hdr, name, lean in SPEC:
        if path not in files:
            files[path] = strip_rust_comments(src(path))
        grp = key.split(".")[0]
        g = GROUPS[grp]
        what = f"{path} {key}"
        impl = impl_block(files[path], hdr, what)
        sig, ret, body = fn_source(impl, name, what, EXTRA_ATTRS.get(key, ()))
        if name == "to_proj":
            continue
        params = params_of(sig, what)
        if g["kind"] == "zn":
            body, n = ZN_BIND.subn("", body)
            if n > 1:
                raise ExtractError(f"{what}: zn bound twice")
        else:
            for cn, cre in CLOSURES.items():
                body = re.sub(cre, "", body)
            if re.search(r"\|[^|]*\|", body):
                raise ExtractError(f"{what}: unexpected closure")
        if key == "ecm.twisted_from_point":
            # tail: Ok(Curve { zn, twisted: true, d, g }) -> the value of d
            body, n = re.subn(r"Ok\(Curve \{\s*zn,\s*twisted: true,\s*d,\s*g,\s*\}\)\s*$", "d", body.rstrip())
            if n != 1:
                raise ExtractError(f"{what}: result record changed")
            ret = "MInt"
        methods = {s[3] for s in SPEC if s[0].split(".")[0] == grp}
        ctx = dict(kind=g["kind"], methods=methods, selfs=g["selfs"], what=what,
                   bools={p for p, t in params if t == "Bool"})
        p = P(lex(body), ctx)
        ast = p.body()
        if p.peek()[0] != "eof":
            p.err("trailing tokens")
        f = Fn()
        f.key, f.name, f.lean, f.group, f.params, f.ast = key, name, lean, grp, params, ast
        f.ret = "R" if ret == "MInt" else RET.get(ret)
        if f.ret is None:
            raise ExtractError(f"{what}: return type {ret}")
        fns[key] = f
    # uses_inv: transitively (fixpoint)
    def nodes(a):
        if isinstance(a, tuple):
            yield a
            for x in a[1:]:
                yield from nodes(x)
        elif isinstance(a, list):
            for x in a:
                yield from nodes(x)
    for f in fns.values():
        f.uses_inv = any(nd[0] == "inv" for nd in nodes(f.ast) if nd and isinstance(nd[0], str))
    changed = True
    while changed:
        changed = False
        for f in fns.values():
            if not f.uses_inv and any(nd[0] == "call" and fns[f"{f.group}.{nd[1]}"].uses_inv
                                      for nd in nodes(f.ast) if nd and isinstance(nd[0], str)):
                f.uses_inv = changed = True
    # to_proj must still drop the last coordinate
    impl = impl_block(files["src/ecm.rs"], r"^impl ExtPoint \{", "ecm ExtPoint")
    must(r"fn to_proj\(&self\) -> Point \{\s*Point\(self\.0, self\.1, self\.2\)\s*\}", impl, "ExtPoint::to_proj")
    impl = impl_block(files["src/ecm128.rs"], r"^impl ExtPoint \{", "ecm128 ExtPoint")
    must(r"fn proj\(&self\) -> Point \{\s*Point\(self\.0, self\.1, self\.2\)\s*\}", impl, "ecm128 ExtPoint::proj")
    # zn_divide(a, b) = a * b^-1
    must(r"fn zn_divide\(zn: &ZmodN, a: &MInt, b: &MInt\) -> Result<MInt, UnexpectedLargeFactor> \{\s*match zn\.inv\(\*b\) \{\s*"
         r"Some\(binv\) => Ok\(zn\.mul\(a, &binv\)\),\s*None => Err\(UnexpectedLargeFactor::new\(zn, b\)\),\s*\}\s*\}",
         files["src/ecm.rs"], "zn_divide")
    return fns, files


# ------------------------------------------------------------------ evaluation of an AST (sympy, ints, ..)

class Ev:
    """Evaluates a translated function over any ring given by python operators.
    points are tuples; `inv` is a callable; `const` maps an int into the ring."""

    def __init__(self, fns, const=lambda k: k, inv=None):
        self.fns, self.const, self.inv = fns, const, inv

    def call(self, key, selfenv, args):
        f = self.fns[key]
        env = dict(selfenv)
        env.update({"%self": selfenv, "%group": f.group})
        for (nm, _), v in zip(f.params, args):
            env[nm] = v
        return self.ev(f.ast, env)

    def ev(self, a, env):
        t = a[0]
        if t == "var":
            if a[1] in ("true", "false"):
                return a[1] == "true"
            return env[a[1]]
        if t == "self":
            return env["%self"][a[1]]
        if t == "field":
            return self.ev(a[1], env)[a[2]]
        if t == "op":
            x, y = self.ev(a[2], env), self.ev(a[3], env)
            return x * y if a[1] == "mul" else x + y if a[1] == "add" else x - y
        if t == "zero":
            return self.const(0)
        if t == "one":
            return self.const(1)
        if t == "const":
            return self.const(a[1])
        if t == "if":
            c = env["%self"]["tw"] if a[1] == "tw" else env[a[1]]
            return self.ev(a[2] if c else a[3], env)
        if t == "tuple" or t == "ctor":
            return tuple(self.ev(x, env) for x in a[-1])
        if t == "block":
            env = dict(env)
            for _, pat, e in a[1]:
                v = self.ev(e, env)
                if isinstance(pat, list):
                    for nm, vi in zip(pat, v):
                        env[nm] = vi
                else:
                    env[pat] = v
            return self.ev(a[2], env)
        if t == "call":
            return self.call(f"{env['%group']}.{a[1]}", env["%self"], [self.ev(x, env) for x in a[2]])
        if t == "inv":
            return self.inv(self.ev(a[1], env))
        if t == "eq":
            return (self.ev(a[1], env), self.ev(a[2], env))
        if t == "toproj":
            return self.ev(a[1], env)[:3]
        raise ExtractError(f"eval: node {t}")


# ------------------------------------------------------------------ Lean emission

def lean_ty(t):
    return {"Pt": "Pt R", "Ext": "Ext R", "Bool": "Bool", "R": "R", "Prop": "Prop", "Pair": "R × R", "Quad": "R × R × R × R"}[t]


class Emit:
    def __init__(self, fns):
        self.fns = fns

    def selfargs(self, grp):
        return " ".join(n for n, _ in GROUPS[grp]["selfparams"])

    def e(self, a, grp, ind):
        t = a[0]
        pad = "  " * ind
        if t == "var":
            return a[1]
        if t == "self":
            return GROUPS[grp]["selfs"][a[1]]
        if t == "field":
            return f"{self.atom(a[1], grp, ind)}.{FIELD[a[2]]}"
        if t == "op":
            o = {"mul": "*", "add": "+", "sub": "-"}[a[1]]
            return f"{self.atom(a[2], grp, ind)} {o} {self.atom(a[3], grp, ind)}"
        if t == "zero":
            return "(0 : R)"
        if t == "one":
            return "(1 : R)"
        if t == "const":
            return f"(({a[1]} : Nat) : R)"
        if t == "if":
            cond = "self_twisted" if a[1] == "tw" else a[1]
            return (f"if {cond} then\n{pad}    {self.atom(a[2], grp, ind + 2)}\n{pad}  else\n{pad}    {self.atom(a[3], grp, ind + 2)}")
        if t == "tuple":
            return "(" + ", ".join(self.e(x, grp, ind) for x in a[1]) + ")"
        if t == "ctor":
            return "⟨" + ", ".join(self.e(x, grp, ind) for x in a[2]) + "⟩"
        if t == "block":
            lines = []
            for _, pat, ex in a[1]:
                if isinstance(pat, list):
                    tmp = "t_" + "_".join(pat)
                    lines.append(f"let {tmp} := {self.e(ex, grp, ind + 1)}")
                    for i, nm in enumerate(pat):
                        proj = ".2" * i + (".1" if i < len(pat) - 1 else "")
                        lines.append(f"let {nm} := {tmp}{proj}")
                else:
                    lines.append(f"let {pat} := {self.e(ex, grp, ind + 1)}")
            lines.append(self.e(a[2], grp, ind + 1))
            return ("\n" + pad).join(lines)
        if t == "call":
            callee = self.fns[f"{grp}.{a[1]}"]
            inv = " inv" if callee.uses_inv else ""
            return f"{callee.lean}{inv} {self.selfargs(grp)} " + " ".join(self.atom(x, grp, ind) for x in a[2])
        if t == "inv":
            return f"inv {self.atom(a[1], grp, ind)}"
        if t == "eq":
            return f"{self.atom(a[1], grp, ind)} = {self.atom(a[2], grp, ind)}"
        if t == "toproj":
            return f"{self.atom(a[1], grp, ind)}.toProj"
        raise ExtractError(f"emit: node {t}")

    def atom(self, a, grp, ind):
        s = self.e(a, grp, ind)
        if a[0] in ("var", "self", "field", "tuple", "ctor", "zero", "one", "const"):
            return s
        return "(" + s + ")"

    def fn(self, f):
        sp = " ".join(f"({n} : {lean_ty(t)})" for n, t in GROUPS[f.group]["selfparams"])
        ps = " ".join(f"({n} : {lean_ty(t)})" for n, t in f.params)
        inv = "(inv : R → R) " if f.uses_inv else ""
        if f.ret == "Prop":
            # a boolean `lhs == rhs`: the two sides (computable) and the proposition
            tail = f.ast[2] if f.ast[0] == "block" else f.ast
            if tail[0] != "eq":
                raise ExtractError(f"{f.key}: the result is no longer a single `==` comparison")
            sides = ("block", f.ast[1], ("tuple", [tail[1], tail[2]])) if f.ast[0] == "block" else ("tuple", [tail[1], tail[2]])
            body = self.e(sides, f.group, 1)
            args = " ".join([n for n, _ in GROUPS[f.group]["selfparams"]] + [n for n, _ in f.params])
            return (f"/-- `{f.key}`: (lhs, rhs) of the final comparison -/\ndef {f.lean}Sides {inv}{sp} {ps} : R × R :=\n  {body}\n\n"
                    f"/-- `{f.key}` -/\ndef {f.lean} {inv}{sp} {ps} : Prop :=\n  ({f.lean}Sides {args}).1 = ({f.lean}Sides {args}).2\n")
        body = self.e(f.ast, f.group, 1)
        return (f"/-- `{f.key}` -/\ndef {f.lean} {inv}{sp} {ps} : {lean_ty(f.ret)} :=\n  {body}\n")


def chain_caps(ecm_src, ecm128_src):
    """capacity of the opcode buffers the two chain builders write into (as allocated by their callers)"""
    must(r"fn make_addition_chain<const N: usize>\(chain: &mut \[i8; N\], k: u64\) -> usize", ecm_src,
         "make_addition_chain signature")
    bufs = re.findall(r"let mut c = \[0_i8; (\d+)\];\s*let l = (?:Self|ecm::Curve|Curve)::make_addition_chain\(&mut c, k\);",
                      ecm_src) + re.findall(
        r"let mut c = \[0_i8; (\d+)\];\s*let l = (?:Self|ecm::Curve|Curve)::make_addition_chain\(&mut c, k\);", ecm128_src)
    # scalar64_chainmul, the verification hook (ecm.rs) and scalar64_mul (ecm128.rs)
    if len(bufs) != 3 or len(set(bufs)) != 1:
        raise ExtractError(f"callers of make_addition_chain allocate buffers {bufs}")
    cap = int(bufs[0])
    m = must(r"fn make_addition_chain_long\(chain: &mut \[i8; (\d+)\], n: &U1024\) -> usize", ecm_src, "make_addition_chain_long signature")
    capl = int(m.group(1))
    bufs = re.findall(r"let mut c = \[0_i8; (\d+)\];\s*let l = Self::make_addition_chain_long\(&mut c, k\);", ecm_src)
    if len(bufs) != 1 or int(bufs[0]) != capl:
        raise ExtractError("caller of make_addition_chain_long no longer allocates the declared buffer")
    return cap, capl


HEADER = """
namespace Ymq.Gen.Curves

/-- capacity of the opcode buffer of `make_addition_chain` and of both its callers -/
def chainCap : Nat := {cap}

/-- capacity of the opcode buffer of `make_addition_chain_long` and of its caller -/
def chainLongCap : Nat := {capl}

/-- projective point `Point(x, y, z)` -/
structure Pt (R : Type) where
  x : R
  y : R
  z : R

/-- extended point `ExtPoint(x, y, z, t)` -/
structure Ext (R : Type) where
  x : R
  y : R
  z : R
  t : R

/-- `ExtPoint::to_proj` / `ExtPoint::proj` -/
def Ext.toProj {{R : Type}} (p : Ext R) : Pt R := ⟨p.x, p.y, p.z⟩

set_option linter.unusedVariables false

variable {{R : Type}} [Add R] [Sub R] [Mul R] [Zero R] [One R] [NatCast R]

"""


def suyama_consts(ecm_src):
    """Suyama11::new: the curve constants as expressions in `one_third` (with 3 * one_third = 1)."""
    impl = impl_block(ecm_src, SUY, "Suyama11 impl")
    _, _, body = fn_source(impl, "new", "Suyama11::new")
    must(r"let n3 = zn\.n / 3;\s*let one_third = match zn\.n % 3_u64 \{\s*1 => zn\.from_int\(zn\.n - n3\),\s*"
         r"2 => zn\.from_int\(n3 \+ Uint::ONE\),\s*_ => return Err\(UnexpectedFactor\(3_u64\)\),\s*\};\s*"
         r"debug_assert!\(zn\.mul\(zn\.from_int\(Uint::from_digit\(3\) % zn\.n\), one_third\) == zn\.one\(\)\);", body,
         "Suyama11::new one_third")
    m = must(r"(let a = .*?let gy = [^;]*;)\s*let s = Suyama11 \{ zn, a, b, gx, gy \};\s*"
             r"assert!\(s\.is_valid\(&Point\(gx, gy, zn\.one\(\)\)\)\);\s*Ok\(s\)\s*$", body, "Suyama11::new constants")
    ctx = dict(kind="zn", methods=set(), selfs={}, what="src/ecm.rs Suyama11::new", bools=set())
    p = P(lex(m.group(1) + " (a, b, gx, gy)"), ctx)
    ast = p.body()
    if p.peek()[0] != "eof":
        p.err("trailing tokens")
    lets = [st[1] for st in ast[1]]
    if lets != ["a", "b", "gx", "gy"]:
        raise ExtractError(f"Suyama11::new binds {lets}")
    f = Fn()
    f.key, f.name, f.lean, f.group, f.params, f.ast, f.ret, f.uses_inv = (
        "suyama.new", "new", "suyamaConsts", "none", [("one_third", "R")], ast, "Quad", False)
    return f


def from_point(ecm_src):
    """Curve::from_point(zn, x, y): d = (x^2+y^2-1)/(xy)^2 through fraction_modn(a, b) = a * b^-1; g = (x, y, 1)."""
    impl = impl_block(ecm_src, ECM, "ecm Curve impl")
    _, _, body = fn_source(impl, "from_point", "Curve::from_point")
    must(r"^\s*assert!\(x < 1 << 31 && y < 1 << 31\);\s*"
         r"let gx = zn\.from_int\(Uint::from\(x\) % zn\.n\);\s*let gy = zn\.from_int\(Uint::from\(y\) % zn\.n\);\s*"
         r"let dn = Self::fraction_modn\(&zn, \(x \* x \+ y \* y - 1\) as i64, 1\)\?;\s*"
         r"let dd = Self::fraction_modn\(&zn, 1, \(x \* y\) as i64\)\?;\s*"
         r"let d = zn\.mul\(zn\.mul\(dn, dd\), dd\);\s*let g = Point\(gx, gy, zn\.one\(\)\);\s*"
         r"Ok\(Curve \{\s*zn,\s*twisted: false,\s*d,\s*g,\s*\}\)\s*$", body, "Curve::from_point body")
    _, _, fb = fn_source(impl, "fraction_modn", "Curve::fraction_modn")
    must(r"let binv = match arith_gcd::inv_mod\(&to_uint\(zn\.n, b\), &zn\.n\) \{\s*Ok\(inv\) => inv,\s*"
         r"Err\(d\) => return Err\(UnexpectedFactor\(d\.digits\(\)\[0\]\)\),\s*\};\s*"
         r"Ok\(zn\.mul\(zn\.from_int\(to_uint\(zn\.n, a\)\), zn\.from_int\(binv\)\)\)\s*$", fb, "Curve::fraction_modn body")
    return ('/-- `ecm.from_point`: (d, g) for the curve through (x, y); `x y` are the residues of the integer '
            'arguments,\n`fraction_modn(a, b) = a * inv b` -/\n'
            "def ecmFromPoint (inv : R → R) (x : R) (y : R) : R × Pt R :=\n"
            "  let gx := x\n  let gy := y\n"
            "  let dn := ((x * x + y * y) - (1 : R)) * inv (1 : R)\n"
            "  let dd := (1 : R) * inv (x * y)\n"
            "  let d := (dn * dd) * dd\n"
            "  let g : Pt R := ⟨gx, gy, (1 : R)⟩\n"
            "  (d, g)\n")


# ------------------------------------------------------------------ control flow modelled by hand

# Ymq/Model/Suyama.lean follows these bodies by hand (ladder of `element`, the tests for a vanishing denominator, which
# gcd is reported, panic sites, curve selection of `ecm()` / `ecm128::ecm`); their straight-line parts are the
# translated terms above. The bodies are pinned (sha256 of the text without comments and white space): an edit of
# any of them must be re-read against the model, and the pin renewed, before the tie holds again.
PINNED = {
    "Suyama11::new": "86c67b714f17c0c0",
    "Suyama11::element": "e3f735ace1125583",
    "Suyama11::params": "ca22f5d502bd86d6",
    "Suyama11::params_point": "ac76c24a72a35300",
    "Curve::fraction_modn": "76e4d2430ae676a5",
    "Curve::from_point": "2894df8afd5cab66",
    "Curve::twisted_from_point": "1fa700d544a59fab",
    "UnexpectedLargeFactor::new": "d1de543ed892b166",
    "ecm.rs::zn_divide": "84ac1b5c4ce83086",
    "ecm.rs::ecm": "1cbc99484f8740f7",
    "ecm128.rs::ecm": "4a880d5e593629ba",
    "ecm128 From<&ecm::Curve>::from": "61f0dc617c3c45e9",
}


def check_pins(files):
    import hashlib
    e, e128 = files["src/ecm.rs"], files["src/ecm128.rs"]
    suy = impl_block(e, SUY, "Suyama11 impl")
    ecm = impl_block(e, ECM, "ecm Curve impl")
    ulf = impl_block(e, r"^impl UnexpectedLargeFactor \{", "UnexpectedLargeFactor impl")
    frm = impl_block(e128, r"^impl From<&ecm::Curve> for Curve \{", "ecm128 From impl")
    bodies = {}
    for nm in ("new", "element", "params", "params_point"):
        bodies["Suyama11::" + nm] = fn_source(suy, nm, "Suyama11::" + nm)[2]
    for nm in ("fraction_modn", "from_point", "twisted_from_point"):
        bodies["Curve::" + nm] = fn_source(ecm, nm, "Curve::" + nm)[2]
    bodies["UnexpectedLargeFactor::new"] = fn_source(ulf, "new", "UnexpectedLargeFactor::new")[2]
    bodies["ecm.rs::zn_divide"] = fn_source(e, "zn_divide", "zn_divide")[2]
    bodies["ecm.rs::ecm"] = fn_source(e, "ecm", "ecm::ecm")[2]
    bodies["ecm128.rs::ecm"] = fn_source(e128, "ecm", "ecm128::ecm")[2]
    bodies["ecm128 From<&ecm::Curve>::from"] = fn_source(frm, "from", "ecm128 From::from")[2]
    for k, want in PINNED.items():
        got = hashlib.sha256(re.sub(r"\s+", "", re.sub(r"//[^\n]*", "", bodies[k])).encode()).hexdigest()[:16]
        if got != want:
            raise ExtractError(f"{k}: the body modelled by hand in Ymq/Model/Suyama.lean has changed (pin {want}, now {got})")
    return len(PINNED)


def run():
    fns, files = parse_all()
    cap, capl = chain_caps(files["src/ecm.rs"], files["src/ecm128.rs"])
    em = Emit(fns)
    # emit in dependency order: callees first
    order, done = [], set()

    def calls(a):
        if isinstance(a, tuple):
            if a and a[0] == "call":
                yield a[1]
            for x in a[1:]:
                yield from calls(x)
        elif isinstance(a, list):
            for x in a:
                yield from calls(x)

    def visit(f):
        if f.key in done:
            return
        done.add(f.key)
        for c in calls(f.ast):
            visit(fns[f"{f.group}.{c}"])
        order.append(f)
    for f in fns.values():
        visit(f)
    sc = suyama_consts(files["src/ecm.rs"])
    GROUPS["none"] = dict(kind="zn", selfs={}, selfparams=[])
    extra = [em.fn(sc), from_point(files["src/ecm.rs"])]
    out = HEADER.format(cap=cap, capl=capl) + "\n".join([em.fn(f) for f in order] + extra) + "\nend Ymq.Gen.Curves\n"
    npin = check_pins(files)
    write_gen("Curves", out, ["src/ecm.rs", "src/ecm128.rs"])
    return f"{len(order)} formulas, chain capacities {cap}/{capl}, {npin} hand-modelled bodies pinned"


if __name__ == "__main__":
    main(run)
