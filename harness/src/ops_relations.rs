//! Relation store, packed relations, final combination (C11).
//! Same request lines and answers as lean/Ymq/Drv/Relations.lean.
use crate::util::*;
use std::panic::{catch_unwind, AssertUnwindSafe};
use yamaquasi::arith_montgomery::ZmodN;
use yamaquasi::relations::verif_hooks as vh;
use yamaquasi::relations::{self, Relation, RelationSet};
use yamaquasi::Uint;

pub fn parse_factors(s: &str) -> Option<Vec<(i64, u64)>> {
    if s == "-" {
        return Some(vec![]);
    }
    s.split('*')
        .map(|t| {
            let (p, k) = t.split_once('^')?;
            let p: i64 = if p == "m1" { -1 } else { p.parse().ok()? };
            Some((p, k.parse().ok()?))
        })
        .collect()
}

pub fn parse_rel(s: &str) -> Option<Relation> {
    let f: Vec<&str> = s.split(':').collect();
    if f.len() != 4 {
        return None;
    }
    Some(Relation {
        x: uint_of(f[0])?,
        cofactor: f[1].parse().ok()?,
        cyclelen: f[2].parse().ok()?,
        factors: parse_factors(f[3])?,
    })
}

pub fn parse_pq(s: &str) -> Option<Option<(u64, u64)>> {
    if s == "-" {
        return Some(None);
    }
    let (p, q) = s.split_once(',')?;
    Some(Some((p.parse().ok()?, q.parse().ok()?)))
}

/// item = `<rel>|<pq>` or `<tid>|<rel>|<pq>`
pub fn parse_item(s: &str) -> Option<(Relation, Option<(u64, u64)>)> {
    let f: Vec<&str> = s.split('|').collect();
    match f.len() {
        2 => Some((parse_rel(f[0])?, parse_pq(f[1])?)),
        3 => Some((parse_rel(f[1])?, parse_pq(f[2])?)),
        _ => None,
    }
}

pub fn parse_history(s: &str) -> Option<Vec<(Relation, Option<(u64, u64)>)>> {
    if s == "-" {
        return Some(vec![]);
    }
    // `new|<n>|<fbsize>|<maxlarge>` tokens of the recorded history are skipped
    s.split(';')
        .filter(|t| !t.starts_with("new|") && !t.starts_with("final|"))
        .map(parse_item)
        .collect()
}

fn cap3(v: usize) -> String {
    v.min(3).to_string()
}

pub fn show_store(s: &RelationSet) -> String {
    vh::store_dump(s)
}

/// Runs a history on a real `RelationSet`; same answer grammar as the Lean driver.
pub fn run_history(
    n: Uint,
    fbsize: usize,
    maxlarge: u64,
    h: Vec<(Relation, Option<(u64, u64)>)>,
) -> String {
    let mut s = RelationSet::new(n, fbsize, maxlarge);
    let mut recs: Vec<String> = Vec::with_capacity(h.len());
    for (i, (r, pq)) in h.into_iter().enumerate() {
        // observable state before
        let kind = if r.cofactor == 1 {
            'c'
        } else if r.cofactor < maxlarge {
            's'
        } else {
            match pq {
                None => 'x',
                Some((p, q)) => {
                    if p == q {
                        'q'
                    } else {
                        'd'
                    }
                }
            }
        };
        let keys: Vec<u64> = match (kind, pq) {
            ('s', _) => vec![r.cofactor],
            ('d', Some((p, q))) | ('q', Some((p, q))) => vec![p, q],
            _ => vec![],
        };
        let before: Vec<Option<Vec<u8>>> = keys.iter().map(|&k| vh::partial_get(&s, k)).collect();
        let (np0, nd0, _) = vh::sizes(&s);
        let nc0 = s.cycles.len();
        let ok = catch_unwind(AssertUnwindSafe(|| s.add(r, pq))).is_ok();
        if !ok {
            return format!("panic@{i}");
        }
        let (np1, nd1, _) = vh::sizes(&s);
        let nc1 = s.cycles.len();
        let hp = before.get(0).map_or(false, |b| b.is_some());
        let hq = before.get(1).map_or(false, |b| b.is_some());
        let rep = keys
            .iter()
            .zip(before.iter())
            .any(|(&k, b)| b.is_some() && vh::partial_get(&s, k) != *b);
        let dd = if nd1 > nd0 {
            "+".to_string()
        } else {
            cap3(nd0 - nd1)
        };
        let b01 = |b: bool| if b { '1' } else { '0' };
        let mut rec = format!(
            "{kind}{}{}{}.{}.{}.{dd}",
            b01(hp),
            b01(hq),
            b01(rep),
            cap3(nc1.saturating_sub(nc0)),
            cap3(np1.saturating_sub(np0)),
        );
        for c in &s.cycles[nc0.min(nc1)..] {
            rec.push('=');
            rec.push_str(&vh::rel_token(c));
        }
        recs.push(rec);
    }
    format!("{} | {}", recs.join(";"), show_store(&s))
}

pub fn handle(op: &str, a: &[&str]) -> Option<String> {
    match (op, a) {
        ("rel_verify", [n, r]) => Some(parse_rel(r)?.verify(&uint_of(n)?).to_string()),
        ("rs_combine", [n, r1, r2]) => {
            let s = RelationSet::new(uint_of(n)?, 0, 0);
            Some(vh::rel_token(&s.combine(&parse_rel(r1)?, &parse_rel(r2)?)))
        }
        ("rel_pack", [r]) => Some(show_list(&vh::pack_bytes(parse_rel(r)?))),
        ("rel_roundtrip", [r]) => Some(vh::rel_token(&vh::unpack_bytes(&vh::pack_bytes(
            parse_rel(r)?,
        )))),
        ("rel_unpack", [b]) => Some(vh::rel_token(&vh::unpack_bytes(&list_of::<u8>(b)?))),
        ("try_factor", [n, x, y]) => {
            Some(match relations::try_factor(&uint_of(n)?, uint_of(x)?, uint_of(y)?) {
                None => "none".to_string(),
                Some((p, q)) => format!("{p},{q}"),
            })
        }
        ("final_combine", [n, xs, f]) => {
            let zn = ZmodN::new(uint_of(n)?);
            let xs: Vec<Uint> = if *xs == "-" {
                vec![]
            } else {
                xs.split(',').map(uint_of).collect::<Option<Vec<_>>>()?
            };
            let (x, y) = relations::combine(&zn, &xs, &parse_factors(f)?);
            Some(format!("{x},{y}"))
        }
        ("rs_history", [n, fbsize, maxlarge, h]) => Some(run_history(
            uint_of(n)?,
            fbsize.parse().ok()?,
            u64_of(maxlarge)?,
            parse_history(h)?,
        )),
        _ => None,
    }
}
