/-
Model of `pollard_pm1::pm1_impl` as a whole (src/pollard_pm1.rs:259-423), of
`pm1_stage2_polyeval` (618-721) and of the strategy functions `pm1_quick` / `pm1_only` (207-254).

The pieces that were already modelled are *used*, not copied:

  * stage-1 exponent stream: `Ymq.Pm1.step` (Model/SmoothBase.lean) decides, prime by prime, which
    exponents are flushed to `exp_modn` / `exp_modn_large`; here every flushed exponent is applied to
    `g`, `g - 1` is pushed to `gpows`, and the two data-dependent exits that Model/SmoothBase leaves
    out (`g == 1`, a factor found by `check_gcd_factors`) are followed;
  * `exp_modn`, `exp_modn_large`, `check_gcd_factors`, `gcd_factors`, the polynomial-path guard
    (`pm1PolyStep`) and the final `Some((factors, nred))` / `None` (`splitResult`): Model/ExpModn.lean;
  * `stage2_params`, `MULTIEVAL_THRESHOLD`, the `match n.bits()` tables: Gen/Stage2.lean (translator);
  * `fbase::PrimeSieve`: Model/Primes.lean; `pseudoprime` is a parameter `pp` (the driver passes
    Model/Pseudoprime.lean, the theorems hold for every `pp`).

Ring elements (`MInt`) are represented by their canonical residue `zn.to_int(x) < zn.n`; the ring
`zn` by its modulus `m` (it shrinks when factors are found).  `gcd_factors` only looks at
`gcd(nred, Uint::from(v))` of the raw Montgomery word `v = x·R mod m`; `R` is a unit and `nred ∣ m`,
so that gcd is `gcd(nred, x)`: the value lists hold the residues `x`.
`Poly::from_roots` and `convolve_modn_ntt` are taken at their specification (coefficients of
`∏ (X - r)`; cyclic convolution of length `d2`): that they meet it is property C10.  Of the
convolution only the coefficients `k ≥ deg P` are read; for those no index wraps.
The two `debug_assert!`s of `pm1_stage2_polyeval` (`bg == exp_modn(g, bexp)`, `gexp == exp_modn(g, d2²·d1/2)` when
`d2²·d1` fits 64 bits) are followed: `polyVals` evaluates the same `exp_modn` calls and is `none` when they panic or when
the compared residues differ (they are equal by construction: `pm1_baby_complete`, `pm1_exp_modn_residues`).

`none` = a panic site (assert, index out of range, `ZmodN::new` on an even or > 512-bit modulus,
overflow in the checked profile); `some none` = the function returns `None`.
No Mathlib import: linked into the native driver.
-/
import Ymq.Model.SmoothBase
import Ymq.Model.ExpModn
import Ymq.Model.Stage2

namespace Ymq.Pm1Impl
open Ymq.Primes Ymq.ExpModn Ymq.Gen

/-! ### `ZmodN` on canonical residues -/

def mulm (m a b : Nat) : Nat := a * b % m
def subm (m a b : Nat) : Nat := (a + (m - b % m)) % m
def onem (m : Nat) : Nat := 1 % m

/-- `ZmodN::new(n)`: `assert!(n.bit(0)); assert!(n.bits() <= 512)` -/
def znNewPanics (m : Nat) : Bool := m % 2 == 0 || decide (m ≥ 2 ^ 512)

/-! ### stage 1 -/

/-- `g = exp_modn(&zn, &g, expblock)` resp. `g = exp_modn_large(&zn, &g, &expblock_lg)` -/
def applyEv (m g : Nat) : Pm1.Ev → Option Nat
  | .small e => expModn (mulm m) (onem m) g e
  | .large e => expModnLarge (mulm m) (onem m) g e

/-- the flushes of one prime, oldest first; each is followed by `gpows.push(zn.sub(&g, &zn.one()))`
(`gpows` is kept most recent first) -/
def applyEvs (m : Nat) : List Pm1.Ev → Nat → List Nat → Option (Nat × List Nat)
  | [], g, gp => some (g, gp)
  | ev :: t, g, gp =>
    match applyEv m g ev with
    | none => none
    | some g' => applyEvs m t g' (subm m g' (onem m) :: gp)

/-- `expblock`, `expblock_lg`, `p_prev` (`st.evs` is emptied before every prime), `g`, `gpows` reversed -/
structure S1 where
  st : Pm1.St
  g : Nat
  gpowsRev : List Nat

/-- body of `for &p in block` of stage 1; the flag says that the loop is left
(`if stop { break }` or `if g == zn.one() { break }`) -/
def step (m b1 : Nat) (s : S1) (p : Nat) : Option (S1 × Bool) :=
  match Pm1.step Pm1.THR b1 { s.st with evs := [] } p with
  | none => none
  | some (st', stop) =>
    match applyEvs m st'.evs.reverse s.g s.gpowsRev with
    | none => none
    | some (g', gp') => some ({ st := st', g := g', gpowsRev := gp' }, stop || decide (g' = onem m))

def block (m b1 : Nat) : List Nat → S1 → Option S1
  | [], s => some s
  | p :: ps, s =>
    match step m b1 s p with
    | none => none
    | some (s', true) => some s'
    | some (s', false) => block m b1 ps s'

/-- how the stage-1 loop is left -/
inductive S1Out where
  /-- `return` from inside the loop (`check_gcd_factors` said the run is over) -/
  | ret (r : Option (List Nat × Nat))
  /-- `break` with `p_prev > b1`: ring modulus, `g`, `p_prev`, the current block, the sieve, `factors`, `nred` -/
  | stage2 (m g pPrev : Nat) (blk : List Nat) (ps : PrimeSieve) (factors : List Nat) (nred : Nat)

/-- the outer `loop` of stage 1 over sieve blocks (fuel as in `Pm1.outer`) -/
def outer (n b1 : Nat) (pp : Nat → Bool) :
    Nat → PrimeSieve → List Nat → Nat → S1 → List Nat → Nat → Option S1Out
  | 0, _, _, _, _, _, _ => none
  | f + 1, ps, blk, m, s, factors, nred =>
    match block m b1 blk s with
    | none => none
    | some s' =>
      match checkGcdFactors n pp { factors := factors, nred := nred, vals := s'.gpowsRev.reverse } with
      | none => none
      | some (true, st) => some (.ret (splitResult st))
      | some (false, st) =>
        -- `if zn.n != nred { zn = ZmodN::new(nred); g = zn.from_int(zn.to_int(g) % nred) }`
        if m ≠ st.nred ∧ znNewPanics st.nred then none
        else
          let m' := if m ≠ st.nred then st.nred else m
          let g' := if m ≠ st.nred then s'.g % st.nred else s'.g
          if s'.st.pPrev > b1 % 2 ^ 32 then
            some (.stage2 m' g' s'.st.pPrev blk ps st.factors st.nred)
          else
            match ps.next with
            | none => none
            | some (blk', ps') =>
              outer n b1 pp f ps' blk' m' { s' with g := g', gpowsRev := st.vals.reverse } st.factors st.nred

/-! ### stage 2, prime walk (`b2 <= MULTIEVAL_THRESHOLD`) -/

/-- `while gaps.len() <= half { gaps.push(zn.mul(gaps[gaps.len() - 1], g2)) }` -/
def extendGaps (m g2 : Nat) : Nat → List Nat → Nat → Option (List Nat)
  | 0, gaps, _ => some gaps
  | f + 1, gaps, half =>
    if gaps.length ≤ half then
      match gaps.getLast? with
      | none => none
      | some l => extendGaps m g2 f (gaps ++ [mulm m l g2]) half
    else some gaps

/-- `x = g^p_prev`, `product`, `products` (most recent first), `gaps[i] = g^(2i+2)`, `p_prev` -/
structure W where
  x : Nat
  product : Nat
  productsRev : List Nat
  gaps : List Nat
  pPrev : Nat

/-- body of `for &p in block` of the walk; the flag is `p > b2 as u32` (`b2 ≤ 80000` here) -/
def walkStep (m g2 b2 : Nat) (w : W) (p : Nat) : Option (W × Bool) :=
  if p ≤ w.pPrev then some (w, false)
  else
    let gap := p - w.pPrev
    match extendGaps m g2 (gap / 2 + 1) w.gaps (gap / 2) with
    | none => none
    | some gaps =>
      if gap % 2 ≠ 0 ∨ gap / 2 = 0 then none            -- assert!(gap > 0 && gap % 2 == 0)
      else
        match gaps[gap / 2 - 1]? with
        | none => none
        | some gp =>
          let x := mulm m w.x gp
          let product := mulm m w.product (subm m x (onem m))
          some ({ x := x, product := product, productsRev := product :: w.productsRev, gaps := gaps, pPrev := p },
                decide (p > b2))

def walkBlock (m g2 b2 : Nat) : List Nat → W → Option W
  | [], w => some w
  | p :: ps, w =>
    match walkStep m g2 b2 w p with
    | none => none
    | some (w', true) => some w'
    | some (w', false) => walkBlock m g2 b2 ps w'

/-- the `loop` of the walk -/
def walkOuter (n b2 : Nat) (pp : Nat → Bool) (m g2 : Nat) :
    Nat → PrimeSieve → List Nat → W → List Nat → Nat → Option (Option (List Nat × Nat))
  | 0, _, _, _, _, _ => none
  | f + 1, ps, blk, w, factors, nred =>
    match walkBlock m g2 b2 blk w with
    | none => none
    | some w' =>
      match checkGcdFactors n pp { factors := factors, nred := nred, vals := w'.productsRev.reverse } with
      | none => none
      | some (true, st) => some (splitResult st)
      | some (false, st) =>
        if w'.pPrev > b2 then some (splitResult st)
        else
          match ps.next with
          | none => none
          | some (blk', ps') =>
            walkOuter n b2 pp m g2 f ps' blk' { w' with productsRev := st.vals.reverse } st.factors st.nred

/-- the walk from the state stage 1 left -/
def walk (n b2 : Nat) (pp : Nat → Bool) (m g pPrev : Nat) (blk : List Nat) (ps : PrimeSieve)
    (factors : List Nat) (nred : Nat) : Option (Option (List Nat × Nat)) :=
  let g2 := mulm m g g
  match expModn (mulm m) (onem m) g pPrev with
  | none => none
  | some x =>
    let one := onem m
    walkOuter n b2 pp m g2 65600 ps blk
      { x := x, product := subm m x one, productsRev := [one], gaps := [g2], pPrev := pPrev } factors nred

/-! ### stage 2, polynomial evaluation (`pm1_stage2_polyeval`) -/

/-- baby steps `g^b` for `b = 1` and the `b = 3, 5, ..` (while the previous `b < d1`) prime to `3·d1` -/
def babyLoop (m d1 g2 : Nat) : Nat → Nat → Nat → Nat → List Nat → List Nat → Option (List Nat)
  | 0, _, _, _, _, _ => none
  | f + 1, b, bexp, bg, gaps, vRev =>
    if b < d1 then
      let b := b + 2
      if b % 3 = 0 ∨ Nat.gcd b d1 ≠ 1 then babyLoop m d1 g2 f b bexp bg gaps vRev
      else
        let gap := b - bexp
        match extendGaps m g2 (gap / 2 + 1) gaps (gap / 2) with
        | none => none
        | some gaps =>
          if gap / 2 = 0 then none
          else
            match gaps[gap / 2 - 1]? with
            | none => none
            | some gp =>
              let bg := mulm m bg gp
              babyLoop m d1 g2 f b b bg gaps (bg :: vRev)
    else some vRev.reverse

def babySteps (m d1 g : Nat) : Option (List Nat) :=
  let g2 := mulm m g g
  babyLoop m d1 g2 (d1 + 2) 1 1 g [g2] [g]

/-- the value of `bexp` when the baby loop ends (the index of the last baby step pushed): the same loop on indices only -/
def babyLastExp (d1 : Nat) : Nat → Nat → Nat → Nat
  | 0, _, bexp => bexp
  | f + 1, b, bexp =>
    if b < d1 then
      let b := b + 2
      if b % 3 = 0 ∨ Nat.gcd b d1 ≠ 1 then babyLastExp d1 f b bexp else babyLastExp d1 f b b
    else bexp

/-- `debug_assert!(x == exp_modn(zn, &g, e))`: `true` = the assertion fails or `exp_modn` panics -/
def expCheckPanics (m g x e : Nat) : Bool :=
  match expModn (mulm m) (onem m) g e with
  | none => true
  | some y => x != y

/-- `for _ in 0..d2 { steps.push(gexp); gexp *= dg; gaps.push(dg); dg *= ddg }`: (steps, gaps), both most recent first -/
def giantLoop (m ddg : Nat) : Nat → Nat → Nat → List Nat → List Nat → List Nat × List Nat
  | 0, _, _, stepsRev, gapsRev => (stepsRev, gapsRev)
  | k + 1, gexp, dg, stepsRev, gapsRev =>
    giantLoop m ddg k (mulm m gexp dg) (mulm m dg ddg) (gexp :: stepsRev) (dg :: gapsRev)

/-- `gexp` after the giant loop (the value the second `debug_assert!` compares): the last step pushed times the last
gap pushed; `one` for `d2 = 0` -/
def gexpEnd (m : Nat) (r : List Nat × List Nat) : Nat :=
  match r.1, r.2 with
  | s :: _, d :: _ => mulm m s d
  | _, _ => onem m

/-- `gexp = one; for i in 0..d2 { gexp *= gaps[d2 - 1 - i]; negsteps.push(gexp) }` on the reversed gap list -/
def cumProd (m : Nat) : Nat → List Nat → List Nat
  | _, [] => []
  | acc, a :: t => mulm m acc a :: cumProd m (mulm m acc a) t

/-- `(X - r) · c`, coefficients low to high -/
def mulLinear (m r : Nat) (c : List Nat) : List Nat :=
  List.zipWith (fun lo hi => subm m lo (mulm m r hi)) (0 :: c) (c ++ [0])

/-- `Poly::from_roots(..).c` at its specification: the coefficients of `∏ (X - r)`, low to high -/
def fromRoots (m : Nat) (roots : List Nat) : List Nat :=
  roots.foldl (fun c r => mulLinear m r c) [onem m]

/-- coefficient `k` of the product of `p` and `q` for `k ≥ p.size - 1` (no wrap-around in the cyclic convolution) -/
def convCoeff (m : Nat) (p q : Array Nat) (k : Nat) : Nat :=
  (List.range p.size).foldl (fun acc i => (acc + p[i]! * q[k - i]!) % m) 0

/-- the cumulative products handed to `gcd_factors(&zn.n, vals)` by `pm1_stage2_polyeval(zn, b2, g)` for the
selected row `(d1, d2)` -/
def polyVals (m d1 d2 g : Nat) : Option (List Nat) :=
  if d1 % 6 ≠ 0 then none                                        -- assert!(d1 % 6 == 0)
  else
    match babySteps m d1 g with
    | none => none
    | some bsteps =>
      -- debug_assert!(bg == exp_modn(zn, &g, bexp)): `bg` is the last baby step pushed
      if expCheckPanics m g (bsteps.getLast?.getD g) (babyLastExp d1 (d1 + 2) 1 1) then none
      else
      match expModn (mulm m) (onem m) g (d1 / 2) with
      | none => none
      | some dg =>
        let ddg := mulm m dg dg
        let (stepsRev, gapsRev) := giantLoop m ddg d2 (onem m) dg [] []
        -- `gexp` after the loop: the last step pushed times the last gap pushed
        -- if let Some(e) = (d2 * d2).checked_mul(d1) { debug_assert!(gexp == exp_modn(zn, &g, e / 2)) }
        if d2 * d2 * d1 < 2 ^ 64 ∧ expCheckPanics m g (gexpEnd m (stepsRev, gapsRev)) (d2 * d2 * d1 / 2) then none
        else
        let negsteps := cumProd m (onem m) gapsRev
        if d2 = 0 ∨ d2 ≠ 2 ^ Nat.log2 d2 then none               -- assert!(d2 & (d2 - 1) == 0)
        else if d2 / 2 < 28 then none                             -- znx.mzp().unwrap(): no NTT below FFT_THRESHOLD
        else
          let p0 := fromRoots m bsteps
          if p0.length > d2 then none                             -- negsteps[i]
          else if p0.length < 2 then none                         -- p.len() - 2
          else
            let p := (List.zipWith (mulm m) p0 negsteps).toArray
            let q := stepsRev.reverse.toArray
            let zs := (List.range (d2 - (p.size - 1))).map (fun j => convCoeff m p q (p.size - 1 + j))
            some (onem m :: cumProd m (onem m) zs)                   -- vals[0] = one; vals[i] = vals[i-1] * vals[i]

/-! ### `pm1_impl` -/

/-- `pm1_impl(n, b1, b2, _)` for an integral `b2` -/
def pm1Impl (n b1 b2 : Nat) (pp : Nat → Bool) : Option (Option (List Nat × Nat)) :=
  match Stage2.pm1Stage2Select b2 1 with                          -- stage2_params(b2): `.unwrap()` of a `min_by`
  | none => none
  | some (_, d1, d2) =>
    if b1 ≤ 3 then none                                           -- assert!(b1 > 3)
    else if znNewPanics n then none
    else
      match PrimeSieve.new with
      | none => none
      | some ps0 =>
        match ps0.next with
        | none => none
        | some (blk0, ps1) =>
          match outer n b1 pp 65600 ps1 blk0 n { st := Pm1.st0, g := 2 % n, gpowsRev := [onem n] } [] n with
          | none => none
          | some (.ret r) => some r
          | some (.stage2 m g pPrev blk ps factors nred) =>
            if b2 > Stage2.multievalThreshold then
              match polyVals m d1 d2 g with
              | none => none
              | some vals =>
                -- `gcd_factors(&zn.n, vals)`: the modulus is the ring's
                match pm1PolyStep n pp { factors := factors, nred := m, vals := vals } with
                | none => none
                | some none => some none
                | some (some st) => some (splitResult st)
            else walk n b2 pp m g pPrev blk ps factors nred

/-! ### `pm1_quick`, `pm1_only` -/

/-- the `(B1, B2)` of a `match n.bits()` table: first row with `lo ≤ bits ≤ hi` (rows of these two tables carry no guard) -/
def armRun (arms : List (Nat × Nat × Nat × List (Nat × Nat))) (bits : Nat) : Option (List (Nat × Nat)) :=
  match arms.find? (fun a => a.1 ≤ bits && bits ≤ a.2.1 && a.2.2.1 == 0) with
  | some a => some a.2.2.2
  | none => none

def viaArms (arms : List (Nat × Nat × Nat × List (Nat × Nat))) (n : Nat) (pp : Nat → Bool) :
    Option (Option (List Nat × Nat)) :=
  match armRun arms (ExpModn.bitlen n) with
  | none => none
  | some [] => some none
  | some ((b1, b2) :: _) => pm1Impl n b1 b2 pp

def pm1Quick (n : Nat) (pp : Nat → Bool) : Option (Option (List Nat × Nat)) := viaArms Stage2.pm1QuickArms n pp
def pm1Only (n : Nat) (pp : Nat → Bool) : Option (Option (List Nat × Nat)) := viaArms Stage2.pm1OnlyArms n pp

end Ymq.Pm1Impl
