/-
C14 "small", part 5 (Mathlib): specification of `SmallMat::inverse` (`invForward`, `invBackStep`,
`inverse`).  Forward phase: the invariant `FInv` of `Gf2SmallElim` with `S = everything`; a missing
pivot means that the matrix is singular.  Backward phase: the rows above the current one are unit
words, the current row is reduced to a unit word by the inner loop, `minv[k] * M = m[k]` throughout.
-/
import Ymq.Lemmas.Gf2SmallElim

namespace Ymq.Gf2Small
open Matrix Module

/-! ### `xorRow` -/

theorem length_xorRow_inv (rows : Rows) (i j : Nat) : (xorRow rows i j).length = rows.length := by
  simp [xorRow]

theorem rowAt_xorRow_inv {rows : Rows} {i : Nat} (hi : i < rows.length) (j k : Nat) :
    rowAt (xorRow rows i j) k =
      if k = i then ((rowAt rows i).1 ^^^ (rowAt rows j).1, (rowAt rows i).2 ^^^ (rowAt rows j).2)
      else rowAt rows k := by
  simp only [xorRow, rowAt, List.getD_eq_getElem?_getD, List.getElem?_set]
  by_cases h : k = i
  · subst h; simp [hi]
  · have h' : ¬ i = k := fun e => h e.symm
    simp [h, h']

/-! ### initial state -/

theorem one_shiftLeft_lt {n k : Nat} (hk : k < n) : 1 <<< k < 2 ^ n := by
  rw [Nat.one_shiftLeft]; exact Nat.pow_lt_pow_right (by omega) hk

theorem vec_unit_vecMul {n : Nat} (M : Mat) {k : Nat} (hk : k < n) :
    vec n (1 <<< k) ᵥ* toMat n M = vec n (row M k) := by
  rw [vec_shiftLeft_one hk, Matrix.single_one_vecMul]
  rfl

theorem FInv.init {n : Nat} {M : Mat} (hw : ∀ k, k < n → row M k < 2 ^ n) :
    FInv n M (fun _ => True) (fstF ((List.range n).map (fun k => (row M k, 1 <<< k))))
      (sndF ((List.range n).map (fun k => (row M k, 1 <<< k)))) 0 := by
  have e1 : ∀ k, k < n → fstF ((List.range n).map (fun k => (row M k, 1 <<< k))) k = row M k := by
    intro k hk; simp only [fstF]; rw [rowAt_map_range n _ hk]
  have e2 : ∀ k, k < n → sndF ((List.range n).map (fun k => (row M k, 1 <<< k))) k = 1 <<< k := by
    intro k hk; simp only [sndF]; rw [rowAt_map_range n _ hk]
  exact {
    ltm := fun k hk => by rw [e1 k hk]; exact hw k hk
    ltc := fun k hk => by rw [e2 k hk]; exact one_shiftLeft_lt hk
    coef := fun k hk => by rw [e1 k hk, e2 k hk]; exact vec_unit_vecMul M hk
    zero := fun k _ hS => absurd trivial hS
    subm := fun _ _ _ _ => trivial
    subc := fun _ _ _ _ => trivial
    piv := fun s hs => by omega
    rest := fun k _ _ => Nat.zero_le _
    span := by
      apply le_antisymm
      · apply spanOf_le; intro k hk; rw [e1 k hk]; exact mem_spanOf _ hk
      · apply spanOf_le; intro k hk; rw [← e1 k hk]; exact mem_spanOf _ hk }

/-! ### forward phase -/

/-- no pivot for column `b`: the matrix is singular -/
theorem FInv.singular {n : Nat} {M : Mat} {rows : Rows} {b : Nat} (hlen : rows.length = n)
    (h : FInv n M (fun _ => True) (fstF rows) (sndF rows) b) (hb : b < n)
    (hpos : position n b rows = none) : ¬ IsUnit (toMat n M) := by
  intro hU
  obtain ⟨B, hB⟩ := hU.exists_left_inv
  have hmem : (Pi.single (⟨b, hb⟩ : Fin n) 1 : Fin n → ZMod 2) ∈ spanOf n (fstF rows) := by
    have e : (Pi.single (⟨b, hb⟩ : Fin n) 1 : Fin n → ZMod 2) =
        (Pi.single (⟨b, hb⟩ : Fin n) 1 ᵥ* B) ᵥ* toMat n M := by
      rw [Matrix.vecMul_vecMul, hB, Matrix.vecMul_one]
    rw [h.span, e, Matrix.vecMul_eq_sum]
    apply Submodule.sum_mem
    intro k _
    exact Submodule.smul_mem _ _ (mem_spanOf (row M) k.2)
  obtain ⟨k, hk1, hk2⟩ := exists_lz_eq_of_mem_span hb (fun k : Fin n => fstF rows k) (fun k => k.1 < b)
    (fun k hk => by rw [h.piv k.1 hk k.2 trivial]; exact hk)
    (fun k k' hk hk' e => by
      rw [h.piv k.1 hk k.2 trivial, h.piv k'.1 hk' k'.2 trivial] at e
      exact Fin.ext e)
    (fun k hk => h.rest k.1 k.2 (fun hh => hk hh.1))
    (Pi.single (⟨b, hb⟩ : Fin n) 1) hmem
    (fun j hj => by
      rw [Pi.single_apply, if_neg]
      intro e; rw [e] at hj; exact Nat.lt_irrefl _ hj)
    (by rw [Pi.single_apply, if_pos rfl])
  exact position_none hpos k.1 (by rw [hlen]; exact k.2) hk2

theorem invForward_inv {n : Nat} {M : Mat} (dbg : Bool) (len : Nat) : ∀ (b : Nat) (rows : Rows),
    rows.length = n → FInv n M (fun _ => True) (fstF rows) (sndF rows) b → b + len ≤ n →
    (∃ rows', invForward n dbg (List.range' b len) rows = some (some rows') ∧ rows'.length = n ∧
      FInv n M (fun _ => True) (fstF rows') (sndF rows') (b + len)) ∨
    (invForward n dbg (List.range' b len) rows = some none ∧ ¬ IsUnit (toMat n M)) := by
  induction len with
  | zero => intro b rows hlen h _; exact Or.inl ⟨rows, rfl, hlen, h⟩
  | succ len ih =>
    intro b rows hlen h hle
    have hb : b < n := by omega
    rw [List.range'_succ]
    cases hpos : position n b rows with
    | none =>
      refine Or.inr ⟨?_, h.singular hlen hb hpos⟩
      simp only [invForward, hpos]
    | some j =>
      obtain ⟨hj, hlz, _⟩ := position_some hpos
      obtain ⟨rows1, h1, hlen1, hF1⟩ := elimCol_inv dbg hlen h hb trivial (by omega) hlz
      rcases ih (b + 1) rows1 hlen1 hF1 (by omega) with ⟨rows2, h2, hlen2, hF2⟩ | ⟨h2, hs⟩
      · refine Or.inl ⟨rows2, ?_, hlen2, by rw [show b + (len + 1) = b + 1 + len by omega]; exact hF2⟩
        simp only [invForward, hpos, h1]
        exact h2
      · refine Or.inr ⟨?_, hs⟩
        simp only [invForward, hpos, h1]
        exact h2

/-! ### backward phase -/

theorem testBit_unit (i u : Nat) : (1 <<< i).testBit u = decide (i = u) := by
  rw [Nat.one_shiftLeft, Nat.testBit_two_pow]

theorem lz_unit {n i : Nat} (hi : i < n) : lz n (1 <<< i) = i := by
  apply lz_eq_of hi
  · rw [testBit_unit]; simp
  · intro t ht; rw [testBit_unit]; simp; omega

/-- invariant of the second loop of `inverse`: the rows `s ≥ hi` are already unit words -/
structure IBInv (n : Nat) (M : Mat) (rows : Rows) (hi : Nat) : Prop where
  len : rows.length = n
  ltm : ∀ k, k < n → fstF rows k < 2 ^ n
  ltc : ∀ k, k < n → sndF rows k < 2 ^ n
  coef : ∀ k, k < n → vec n (sndF rows k) ᵥ* toMat n M = vec n (fstF rows k)
  lzk : ∀ k, k < n → lz n (fstF rows k) = k
  unit : ∀ s, hi ≤ s → s < n → fstF rows s = 1 <<< s

/-- invariant of the inner loop `for j in 0..LSIZE` for row `i`, before iteration `t`; `r` is the
value of `m[i]` read before the loop -/
structure IInv (n : Nat) (M : Mat) (rows0 rows : Rows) (i r t : Nat) : Prop where
  len : rows.length = n
  same : ∀ k, k ≠ i → rowAt rows k = rowAt rows0 k
  ltm : fstF rows i < 2 ^ n
  ltc : sndF rows i < 2 ^ n
  coef : vec n (sndF rows i) ᵥ* toMat n M = vec n (fstF rows i)
  bits : ∀ u, (fstF rows i).testBit u = if i < u ∧ u < t then false else r.testBit u

theorem IInv.step {n : Nat} {M : Mat} {rows0 rows : Rows} {i r t : Nat} (h0 : IBInv n M rows0 (i + 1))
    (hi : i < n) (ht : t < n) (h : IInv n M rows0 rows i r t) :
    IInv n M rows0 (if i < t ∧ r.testBit t then xorRow rows i t else rows) i r (t + 1) := by
  by_cases hc : i < t ∧ r.testBit t = true
  · rw [if_pos hc]
    have hti : t ≠ i := by omega
    have hil : i < rows.length := by rw [h.len]; exact hi
    have hmt : fstF rows t = 1 <<< t := by
      simp only [fstF]; rw [h.same t hti]; exact h0.unit t (by omega) ht
    have hct : sndF rows t = sndF rows0 t := by
      simp only [sndF]; rw [h.same t hti]
    have e1 : fstF (xorRow rows i t) i = fstF rows i ^^^ fstF rows t := by
      simp only [fstF]; rw [rowAt_xorRow_inv hil, if_pos rfl]
    have e2 : sndF (xorRow rows i t) i = sndF rows i ^^^ sndF rows t := by
      simp only [sndF]; rw [rowAt_xorRow_inv hil, if_pos rfl]
    exact {
      len := by rw [length_xorRow_inv]; exact h.len
      same := fun k hk => by rw [rowAt_xorRow_inv hil, if_neg hk]; exact h.same k hk
      ltm := by rw [e1, hmt]; exact Nat.xor_lt_two_pow h.ltm (one_shiftLeft_lt ht)
      ltc := by rw [e2, hct]; exact Nat.xor_lt_two_pow h.ltc (h0.ltc t ht)
      coef := by
        rw [e1, e2, vec_xor, vec_xor, Matrix.add_vecMul, h.coef, hct, h0.coef t ht]
        simp only [fstF]; rw [h.same t hti]
      bits := by
        intro u
        rw [e1, hmt, Nat.testBit_xor, h.bits u, testBit_unit]
        by_cases hut : t = u
        · subst hut
          have h1 : ¬ (i < t ∧ t < t) := by omega
          have h2 : i < t ∧ t < t + 1 := by omega
          rw [if_neg h1, if_pos h2, hc.2]; simp
        · have h3 : (i < u ∧ u < t + 1) ↔ (i < u ∧ u < t) := by omega
          simp only [h3, hut, decide_false, Bool.xor_false] }
  · rw [if_neg hc]
    exact { h with
      bits := by
        intro u
        rw [h.bits u]
        by_cases hut : u = t
        · subst hut
          have h1 : ¬ (i < u ∧ u < u) := by omega
          rw [if_neg h1]
          by_cases h2 : i < u
          · have h3 : r.testBit u = false := by
              cases hb : r.testBit u with
              | false => rfl
              | true => exact absurd ⟨h2, hb⟩ hc
            rw [h3]; simp
          · have h3 : ¬ (i < u ∧ u < u + 1) := by omega
            rw [if_neg h3]
        · have h3 : (i < u ∧ u < t + 1) ↔ (i < u ∧ u < t) := by omega
          simp only [h3] }

theorem IInv.fold {n : Nat} {M : Mat} {rows0 : Rows} {i r : Nat} (h0 : IBInv n M rows0 (i + 1))
    (hi : i < n) (len : Nat) : ∀ (t : Nat) (rows : Rows), t + len ≤ n → IInv n M rows0 rows i r t →
    IInv n M rows0 ((List.range' t len).foldl (fun (rows : Rows) j =>
      if i < j ∧ r.testBit j then xorRow rows i j else rows) rows) i r (t + len) := by
  induction len with
  | zero => intro t rows _ h; exact h
  | succ len ih =>
    intro t rows hle h
    rw [List.range'_succ, List.foldl_cons, show t + (len + 1) = t + 1 + len by omega]
    exact ih (t + 1) _ (by omega) (h.step h0 hi (by omega))

theorem invBackStep_inv {n : Nat} {M : Mat} {rows0 : Rows} (dbg : Bool) {i' : Nat} (hi' : i' < n)
    (h : IBInv n M rows0 (n - i')) :
    ∃ rows', invBackStep n dbg rows0 i' = some rows' ∧ IBInv n M rows' (n - (i' + 1)) := by
  have hi : n - 1 - i' < n := by omega
  have h0 : IBInv n M rows0 (n - 1 - i' + 1) := by
    rw [show n - 1 - i' + 1 = n - i' by omega]; exact h
  have hinit : IInv n M rows0 rows0 (n - 1 - i') (fstF rows0 (n - 1 - i')) 0 :=
    { len := h.len
      same := fun _ _ => rfl
      ltm := h.ltm _ hi
      ltc := h.ltc _ hi
      coef := h.coef _ hi
      bits := fun u => by
        have : ¬ (n - 1 - i' < u ∧ u < 0) := by omega
        rw [if_neg this] }
  have hfin := IInv.fold (r := fstF rows0 (n - 1 - i')) h0 hi n 0 rows0 (by omega) hinit
  rw [Nat.zero_add, ← List.range_eq_range'] at hfin
  obtain ⟨R, hR⟩ : ∃ R, R = (List.range n).foldl (fun (rows : Rows) j =>
      if n - 1 - i' < j ∧ (fstF rows0 (n - 1 - i')).testBit j then xorRow rows (n - 1 - i') j else rows) rows0 :=
    ⟨_, rfl⟩
  rw [← hR] at hfin
  have hlz := h.lzk _ hi
  have hunit : fstF R (n - 1 - i') = 1 <<< (n - 1 - i') := by
    apply Nat.eq_of_testBit_eq
    intro u
    rw [hfin.bits u, testBit_unit]
    rcases Nat.lt_trichotomy u (n - 1 - i') with hu | hu | hu
    · have h1 : ¬ (n - 1 - i' < u ∧ u < n) := by omega
      have h2 : ¬ (n - 1 - i' = u) := by omega
      rw [if_neg h1, lz_below (n := n) (by rw [hlz]; exact hu)]; simp [h2]
    · subst hu
      have h1 : ¬ (n - 1 - i' < n - 1 - i' ∧ n - 1 - i' < n) := by omega
      have := lz_bit (n := n) (w := fstF rows0 (n - 1 - i')) (by rw [hlz]; exact hi)
      rw [hlz] at this
      rw [if_neg h1, this]; simp
    · have h2 : ¬ (n - 1 - i' = u) := by omega
      by_cases hun : u < n
      · rw [if_pos ⟨hu, hun⟩]; simp [h2]
      · have h1 : ¬ (n - 1 - i' < u ∧ u < n) := fun hh => hun hh.2
        rw [if_neg h1, testBit_of_lt_of_ge (h.ltm _ hi) (by omega)]; simp [h2]
  have hm : ∀ k, k ≠ n - 1 - i' → fstF R k = fstF rows0 k := fun k hk => by
    simp only [fstF]; rw [hfin.same k hk]
  have hc : ∀ k, k ≠ n - 1 - i' → sndF R k = sndF rows0 k := fun k hk => by
    simp only [sndF]; rw [hfin.same k hk]
  refine ⟨R, ?_, ?_⟩
  · have hd : (R.getD (n - 1 - i') (0, 0)).1 = 1 <<< (n - 1 - i') := hunit
    show (if (dbg && (((List.range n).foldl (fun (rows : Rows) j =>
      if n - 1 - i' < j ∧ (fstF rows0 (n - 1 - i')).testBit j then xorRow rows (n - 1 - i') j else rows) rows0).getD
        (n - 1 - i') (0, 0)).1 != 1 <<< (n - 1 - i')) = true then none else some _) = some R
    rw [← hR, hd]
    simp only [bne_self_eq_false, Bool.and_false, Bool.false_eq_true, if_false]
    exact congrArg some hR.symm
  · exact {
      len := hfin.len
      ltm := fun k hk => by
        by_cases e : k = n - 1 - i'
        · rw [e]; exact hfin.ltm
        · rw [hm k e]; exact h.ltm k hk
      ltc := fun k hk => by
        by_cases e : k = n - 1 - i'
        · rw [e]; exact hfin.ltc
        · rw [hc k e]; exact h.ltc k hk
      coef := fun k hk => by
        by_cases e : k = n - 1 - i'
        · rw [e]; exact hfin.coef
        · rw [hm k e, hc k e]; exact h.coef k hk
      lzk := fun k hk => by
        by_cases e : k = n - 1 - i'
        · rw [e, hunit]; exact lz_unit hi
        · rw [hm k e]; exact h.lzk k hk
      unit := fun s hs hsn => by
        by_cases e : s = n - 1 - i'
        · rw [e]; exact hunit
        · rw [hm s e]; exact h.unit s (by omega) hsn }

theorem invBack_inv {n : Nat} {M : Mat} (dbg : Bool) (len : Nat) : ∀ (t : Nat) (rows : Rows), t + len ≤ n →
    IBInv n M rows (n - t) →
    ∃ rows', (List.range' t len).foldlM (invBackStep n dbg) rows = some rows' ∧ IBInv n M rows' (n - (t + len)) := by
  induction len with
  | zero => intro t rows _ h; exact ⟨rows, rfl, h⟩
  | succ len ih =>
    intro t rows hle h
    obtain ⟨rows1, h1, hB1⟩ := invBackStep_inv dbg (by omega) h
    obtain ⟨rows2, h2, hB2⟩ := ih (t + 1) rows1 (by omega) hB1
    refine ⟨rows2, ?_, by rw [show t + (len + 1) = t + 1 + len by omega]; exact hB2⟩
    rw [List.range'_succ, List.foldlM_cons, h1]
    exact h2

/-- end of the forward phase = start of the backward phase -/
theorem FInv.toBInv {n : Nat} {M : Mat} {rows : Rows} (hlen : rows.length = n)
    (h : FInv n M (fun _ => True) (fstF rows) (sndF rows) n) : IBInv n M rows n :=
  { len := hlen
    ltm := h.ltm
    ltc := h.ltc
    coef := h.coef
    lzk := fun k hk => h.piv k hk hk trivial
    unit := fun s hs hsn => by omega }

/-! ### `inverse` -/

theorem inverse_cases {n : Nat} (dbg : Bool) {M : Mat} (hw : ∀ k, k < n → row M k < 2 ^ n) :
    (∃ rows, inverse n dbg M = some (some (rows.map (·.2))) ∧ IBInv n M rows 0) ∨
    (inverse n dbg M = some none ∧ ¬ IsUnit (toMat n M)) := by
  have hf := invForward_inv (M := M) dbg n 0 _ (by simp) (FInv.init hw) (by omega)
  rw [← List.range_eq_range', Nat.zero_add] at hf
  rcases hf with ⟨rows1, h1, hlen1, hF1⟩ | ⟨h1, hs⟩
  · have hB1 : IBInv n M rows1 (n - 0) := hF1.toBInv hlen1
    obtain ⟨rows2, h2, hB2⟩ := invBack_inv dbg n 0 rows1 (Nat.le_of_eq (Nat.zero_add n)) hB1
    rw [← List.range_eq_range'] at h2
    rw [Nat.zero_add, Nat.sub_self] at hB2
    refine Or.inl ⟨rows2, ?_, hB2⟩
    simp only [inverse, h1, h2]
  · refine Or.inr ⟨?_, hs⟩
    simp only [inverse, h1]

theorem IBInv.final {n : Nat} {M : Mat} {rows : Rows} (h : IBInv n M rows 0) :
    (rows.map (·.2)).length = n ∧ (∀ k, k < n → row (rows.map (·.2)) k < 2 ^ n) ∧
      toMat n (rows.map (·.2)) * toMat n M = 1 := by
  refine ⟨by rw [List.length_map]; exact h.len, fun k hk => by rw [row_map_snd]; exact h.ltc k hk, ?_⟩
  funext i
  rw [Matrix.mul_apply_eq_vecMul]
  have : toMat n (rows.map (·.2)) i = vec n (sndF rows i) := by
    simp only [toMat, sndF]; rw [row_map_snd]
  rw [this, h.coef i i.2, h.unit i (Nat.zero_le _) i.2, vec_shiftLeft_one i.2]
  funext j
  rw [Matrix.one_eq_pi_single]

variable {n : Nat} {dbg : Bool} {M : Mat}

/-- no `debug_assert!` of either phase ever fails -/
theorem inverse_no_panic (hw : ∀ k, k < n → row M k < 2 ^ n) : ∃ r, inverse n dbg M = some r := by
  rcases inverse_cases dbg hw with ⟨rows, h, _⟩ | ⟨h, _⟩
  · exact ⟨_, h⟩
  · exact ⟨_, h⟩

theorem inverse_some (hw : ∀ k, k < n → row M k < 2 ^ n) {W : Mat} (h : inverse n dbg M = some (some W)) :
    W.length = n ∧ (∀ k, k < n → row W k < 2 ^ n) ∧ toMat n W * toMat n M = 1 := by
  rcases inverse_cases dbg hw with ⟨rows, h1, hB⟩ | ⟨h1, _⟩
  · rw [h1] at h
    injection h with h; injection h with h
    subst h
    exact hB.final
  · rw [h1] at h; injection h with h; cases h

theorem inverse_none (hw : ∀ k, k < n → row M k < 2 ^ n) (h : inverse n dbg M = some none) :
    ¬ IsUnit (toMat n M) := by
  rcases inverse_cases dbg hw with ⟨rows, h1, _⟩ | ⟨_, hs⟩
  · rw [h1] at h; injection h with h; cases h
  · exact hs

theorem inverse_spec (hw : ∀ k, k < n → row M k < 2 ^ n) :
    (∃ W, inverse n dbg M = some (some W) ∧ toMat n W * toMat n M = 1 ∧ toMat n M * toMat n W = 1) ∨
    (inverse n dbg M = some none ∧ ¬ IsUnit (toMat n M)) := by
  rcases inverse_cases dbg hw with ⟨rows, h1, hB⟩ | ⟨h1, hs⟩
  · exact Or.inl ⟨_, h1, hB.final.2.2, mul_eq_one_comm.mp hB.final.2.2⟩
  · exact Or.inr ⟨h1, hs⟩

/-! ### the profile does not matter -/

theorem elimCol_release {n i j : Nat} {rows r : Rows} (h : elimCol n true i j rows = some r) :
    elimCol n false i j rows = some r := by
  simp only [elimCol, Bool.true_and, Bool.false_and, Bool.false_eq_true, if_false] at h ⊢
  split at h
  · cases h
  · exact h

theorem invForward_release {n : Nat} (l : List Nat) : ∀ (rows : Rows) (x : Option Rows),
    invForward n true l rows = some x → invForward n false l rows = some x := by
  induction l with
  | nil => intro rows x h; exact h
  | cons i is ih =>
    intro rows x h
    cases hpos : position n i rows with
    | none => simp only [invForward, hpos] at h ⊢; exact h
    | some j =>
      cases he : elimCol n true i j rows with
      | none => simp only [invForward, hpos, he] at h; cases h
      | some rows' =>
        simp only [invForward, hpos, he] at h
        simp only [invForward, hpos, elimCol_release he]
        exact ih rows' x h

theorem invBackStep_release {n i' : Nat} {rows r : Rows} (h : invBackStep n true rows i' = some r) :
    invBackStep n false rows i' = some r := by
  simp only [invBackStep, Bool.true_and, Bool.false_and, Bool.false_eq_true, if_false] at h ⊢
  split at h
  · cases h
  · exact h

theorem invBack_release {n : Nat} (l : List Nat) : ∀ (rows r : Rows),
    l.foldlM (invBackStep n true) rows = some r → l.foldlM (invBackStep n false) rows = some r := by
  induction l with
  | nil => intro rows r h; exact h
  | cons i is ih =>
    intro rows r h
    rw [List.foldlM_cons] at h ⊢
    cases hs : invBackStep n true rows i with
    | none => rw [hs] at h; cases h
    | some rows' =>
      rw [hs] at h
      rw [invBackStep_release hs]
      exact ih rows' r h

theorem inverse_release {x : Option Mat} (h : inverse n true M = some x) : inverse n false M = some x := by
  cases hf : invForward n true (List.range n) ((List.range n).map (fun k => (row M k, 1 <<< k))) with
  | none => simp only [inverse, hf] at h; cases h
  | some y =>
    have hf' := invForward_release _ _ _ hf
    cases y with
    | none =>
      simp only [inverse, hf] at h
      simp only [inverse, hf']
      exact h
    | some rows1 =>
      cases hb : (List.range n).foldlM (invBackStep n true) rows1 with
      | none => simp only [inverse, hf, hb] at h; cases h
      | some rows2 =>
        simp only [inverse, hf, hb] at h
        simp only [inverse, hf', invBack_release _ _ _ hb]
        exact h

/-- checked and release profile return the same value -/
theorem inverse_dbg_irrelevant (hw : ∀ k, k < n → row M k < 2 ^ n) : inverse n true M = inverse n false M := by
  obtain ⟨r, hr⟩ := inverse_no_panic (dbg := true) hw
  rw [hr, inverse_release hr]

/-! both outcomes occur (the hypothesis `hw` holds for these inputs by evaluation) -/
example : inverse 3 true [3, 2, 7] = some (some [3, 2, 5]) := by decide
example : inverse 3 true [3, 3, 7] = some none := by decide

end Ymq.Gf2Small
