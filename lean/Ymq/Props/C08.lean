/-
C08 — Word-level division, inversion and square-root primitives are exact.
Only property theorems live here (helper lemmas: Ymq/Lemmas/Dividers*.lean, Inverter.lean,
Arith*.lean). Every theorem is about the executable model (Ymq/Model/{Dividers,Inverter,Arith});
`= some …` means "no panic site of the checked profile is reached and the value is …".
-/
import Ymq.Lemmas.Dividers
import Ymq.Lemmas.DividersUint
import Ymq.Lemmas.ArithSqrt
import Ymq.Lemmas.Inverter
import Ymq.Lemmas.ArithGcd

namespace Ymq.C08
open Ymq.Limbs (W val Wf)
open Ymq.Dividers Ymq.Arith

/-! ### Dividers: constructor -/

/-- `Dividers::new(p)` does not panic for p = 2 and for every 3 ≤ p < 2^30 that is not a power
of two (in particular for every prime below 2^30). -/
theorem new_no_panic (p : Nat) (h : p = 2 ∨ (3 ≤ p ∧ p < 2 ^ 30 ∧ ∀ k, p ≠ 2 ^ k)) :
    ∃ d, new p = some d ∧ d.p = p := by
  rcases h with rfl | ⟨h3, h30, hk⟩
  · exact ⟨_, new_two, rfl⟩
  · obtain ⟨d, hd⟩ := new_some p h3 h30 ((W_mod_ne_zero_iff p h30).mpr hk)
    exact ⟨d, hd, (new_ok p d hd).1⟩

/-- … and that is exactly the accepted domain: every other `p` panics
(`assert!(p >> 30 == 0)`, division by zero, `incorrect divider`). -/
theorem new_domain (p : Nat) (d : Div) (h : new p = some d) :
    p = 2 ∨ (3 ≤ p ∧ p < 2 ^ 30 ∧ ∀ k, p ≠ 2 ^ k) := by
  by_cases h2 : p = 2
  · exact Or.inl h2
  · obtain ⟨hp, g⟩ := new_good p d h h2
    have h3 := g.p3; have h30 := g.p30; have hnz := g.r64nz
    rw [hp] at h3 h30 hnz
    exact Or.inr ⟨h3, h30, (W_mod_ne_zero_iff p h30).mp hnz⟩

/-- Key lemma about the 64-bit reciprocal: `0 < m64·p − 2^(64+s64) ≤ p`, and the stored
`r64` is `2^64 mod p`. -/
theorem recip_key (p : Nat) (d : Div) (h : new p = some d) (h2 : p ≠ 2) :
    0 < d.m64 * p - 2 ^ (64 + d.s64) ∧ d.m64 * p - 2 ^ (64 + d.s64) ≤ p ∧
    2 ^ 63 < d.m64 ∧ d.m64 < 2 ^ 64 ∧ d.r64 = 2 ^ 64 % p := by
  obtain ⟨hp, g⟩ := new_good p d h h2
  have h1 := g.m_lo; have h2 := g.m_hi; have h3 := g.r64
  rw [hp] at h1 h2 h3
  exact ⟨by omega, by omega, g.m63, g.m64, by rw [h3, W_eq]⟩

/-- Key lemma about the 17-bit reciprocal used by `modu16`: `0 < m16·p − 2^s16 ≤ p`. -/
theorem recip16_key (p : Nat) (d : Div) (h : new p = some d) (h2 : p ≠ 2) :
    0 < d.m16 * p - 2 ^ d.s16 ∧ d.m16 * p - 2 ^ d.s16 ≤ p ∧ 2 ^ 16 < d.m16 ∧ d.m16 ≤ 2 ^ 17 := by
  obtain ⟨hp, g⟩ := new_good p d h h2
  have h1 := g.m16_lo; have h2 := g.m16_hi
  rw [hp] at h1 h2
  exact ⟨by omega, by omega, g.m16, g.m16'⟩

/-! ### Dividers: word operands -/

/-- `divmod64` returns the true quotient and remainder for every `u64` operand and every
divisor accepted by the constructor. -/
theorem divmod64_spec (p : Nat) (d : Div) (h : new p = some d) (n : Nat) (hn : n < 2 ^ 64) :
    divmod64 d n = some (n / p, n % p) := by
  obtain ⟨hp, ok⟩ := new_ok p d h
  rw [← hp]; exact divmod64_ok d ok n hn

/-- `modu63` is exact (without correction step) whenever the top bit of `n` is clear. -/
theorem modu63_spec (p : Nat) (d : Div) (h : new p = some d) (n : Nat) (hn : n < 2 ^ 63) :
    modu63 d n = some (n % p) := by
  obtain ⟨hp, ok⟩ := new_ok p d h
  rw [← hp]; exact modu63_ok d ok n hn

/-- `modu16` is exact for every `u16` operand. (The statement needs no bound `p < 2^16`: for
larger `p` the estimated quotient is 0.) -/
theorem modu16_spec (p : Nat) (d : Div) (h : new p = some d) (n : Nat) (hn : n < 2 ^ 16) :
    modu16 d n = some (n % p) := by
  obtain ⟨hp, ok⟩ := new_ok p d h
  rw [← hp]; exact modu16_ok d ok n hn

/-- `modi64` returns the least non-negative residue for every `i64`, `i64::MIN` included. -/
theorem modi64_spec (p : Nat) (d : Div) (h : new p = some d) (n : Int)
    (hlo : -2 ^ 63 ≤ n) (hhi : n < 2 ^ 63) :
    ∃ r, modi64 d n = some r ∧ (r : Int) = n % (p : Int) := by
  obtain ⟨hp, ok⟩ := new_ok p d h
  rw [← hp]; exact modi64_ok d ok n hlo hhi

/-- `mod_u128` is exact for every `u128` operand. -/
theorem mod_u128_spec (p : Nat) (d : Div) (h : new p = some d) (n : Nat) (hn : n < 2 ^ 128) :
    modU128 d n = some (n % p) := by
  obtain ⟨hp, ok⟩ := new_ok p d h
  rw [← hp]; exact modU128_ok d ok n hn

/-! ### Dividers: multiword operands

A `BUint<N>` is its little-endian digit list `ds` (`Wf ds`: every digit `< 2^64`), its value is
`val ds`. -/

/-- `mod_uint` is exact for every multiword operand (any number `N ≥ 1` of words). -/
theorem mod_uint_spec (p : Nat) (d : Div) (h : new p = some d) (ds : List Nat) (hne : ds ≠ [])
    (hw : Wf ds) : modUint d ds = some (val ds % p) := by
  obtain ⟨hp, ok⟩ := new_ok p d h
  rw [← hp]; exact modUint_ok d ok ds hne hw

/-- `divmod_uint` (through `divmod_uint_inplace`) returns the exact multiword quotient — same number
of words, every word `< 2^64`, no word-level overflow on the way, the final debug assertion
holds — and the exact remainder. -/
theorem divmod_uint_spec (p : Nat) (d : Div) (h : new p = some d) (ds : List Nat) (hw : Wf ds) :
    ∃ qs r, divmodUint d ds = some (qs, r) ∧ qs.length = ds.length ∧ Wf qs ∧
      val qs = val ds / p ∧ r = val ds % p := by
  obtain ⟨hp, ok⟩ := new_ok p d h
  rw [← hp]; exact divmodUint_ok d ok ds hw

example : ((new 274177).bind fun d => modUint d (Limbs.ofNat 16 37714305606241449883)) = some 0 ∧
    ((new 7).bind fun d => (divmodUint d [18446744073709551615, 18446744073709551615]).map
      fun qr => (val qr.1, qr.2)) = some (48611766702991209066196372490252601636, 3) := by
  decide +kernel

/-- non-vacuity: the constructor accepts 3, 274177 and 2^30 − 1, and the routines compute. -/
example : (∃ d, new 3 = some d) ∧ (∃ d, new 274177 = some d) ∧ (∃ d, new 1073741823 = some d) :=
  ⟨(new_no_panic 3 (Or.inr ⟨by decide, by decide, fun k hk => by
      have : W % 3 ≠ 0 := by decide
      exact (W_mod_ne_zero_iff 3 (by decide)).mp this k hk⟩)).imp fun _ h => h.1,
   new_some 274177 (by decide) (by decide) (by decide),
   new_some 1073741823 (by decide) (by decide) (by decide)⟩

/-! ### Inverter -/

/-- `Inverter::new(p)` for odd `3 ≤ p < 2^28`: no panic, eight entries, entry `j` is
`−2^−(8j+8) mod p`. -/
theorem inverter_new_spec (p : Nat) (hodd : p % 2 = 1) (hp3 : 3 ≤ p) (hp28 : p < 2 ^ 28) :
    ∃ tab, Inverter.new p = some tab ∧ tab.length = 8 ∧
      ∀ j, j < 8 → tab.getD j 0 < p ∧ (tab.getD j 0 * 2 ^ (8 * j + 8) + 1) % p = 0 := by
  obtain ⟨tab, h1, h2, h3⟩ := Inverter.new_spec p hodd hp3 hp28
  refine ⟨tab, h1, h2, fun j hj => ?_⟩
  obtain ⟨h4, h5⟩ := h3 j (by omega)
  refine ⟨h4, ?_⟩
  apply Nat.mod_eq_zero_of_dvd
  rw [← ZMod.natCast_eq_zero_iff]
  push_cast
  rw [h5]; ring

/-- `Inverter::invert(x, div)`: for every odd `3 ≤ p < 2^28` (accepted by both constructors) and every
`0 < x < p` coprime to `p`, the loop terminates (within the `p + x + 1` iterations the model allows),
no assertion, overflow or shift-amount check fails, `powidx < 8`, and the result is the inverse:
`r < p ∧ x·r ≡ 1 (mod p)`. Full statement, not partial. -/
theorem invert_spec (p x : Nat) (d : Div) (tab : List Nat)
    (hd : Dividers.new p = some d) (ht : Inverter.new p = some tab)
    (hodd : p % 2 = 1) (hp3 : 3 ≤ p) (hp28 : p < 2 ^ 28)
    (hx0 : 0 < x) (hxp : x < p) (hcop : Nat.Coprime x p) :
    ∃ r, Inverter.invert tab d x = some r ∧ r < p ∧ x * r % p = 1 := by
  obtain ⟨hdp, ok⟩ := new_ok p d hd
  obtain ⟨tab', h1, h2, h3⟩ := Inverter.new_spec p hodd hp3 hp28
  rw [ht] at h1
  injection h1 with h1
  subst h1
  exact Inverter.invert_ok tab d p x ok hdp hodd hp3 hp28 h2 h3 hx0 hxp hcop

/-- the case the property names: `p` an odd prime below `2^28`, any `x ∈ [1, p)`. -/
theorem invert_spec_prime (p x : Nat) (d : Div) (tab : List Nat)
    (hd : Dividers.new p = some d) (ht : Inverter.new p = some tab)
    (hp : p.Prime) (hp2 : p ≠ 2) (hp28 : p < 2 ^ 28) (hx0 : 0 < x) (hxp : x < p) :
    ∃ r, Inverter.invert tab d x = some r ∧ r < p ∧ x * r % p = 1 := by
  have h2 := hp.two_le
  have hodd : p % 2 = 1 := by
    rcases hp.eq_two_or_odd with h | h
    · exact absurd h hp2
    · exact h
  have hcop : Nat.Coprime x p :=
    ((Nat.Prime.coprime_iff_not_dvd hp).mpr (fun hdvd =>
      absurd (Nat.le_of_dvd hx0 hdvd) (by omega))).symm
  exact invert_spec p x d tab hd ht hodd (by omega) hp28 hx0 hxp hcop

/-- `p = 2`: `Inverter::new(2)` is the dummy all-zero table and `invert` returns `x % 2` for every
`x` (also `x = 0`: the `assert!(x != 0)` comes after the `p == 2` return), whatever table is
passed; for odd `x` that is the inverse. -/
theorem invert_two (d : Div) (tab : List Nat) (x : Nat) (hd : Dividers.new 2 = some d) :
    Inverter.new 2 = some (List.replicate 8 0) ∧ Inverter.invert tab d x = some (x % 2) ∧
    (x % 2 = 1 → x * (x % 2) % 2 = 1) := by
  have hp : d.p = 2 := (new_ok 2 d hd).1
  refine ⟨by decide, ?_, fun h => by rw [h]; omega⟩
  unfold Inverter.invert Inverter.invertFuel
  rw [if_pos hp]

/-- both constructors and `invert` together: nothing is assumed beyond the domain. -/
theorem invert_total (p x : Nat) (hodd : p % 2 = 1) (hp3 : 3 ≤ p) (hp28 : p < 2 ^ 28)
    (hx0 : 0 < x) (hxp : x < p) (hcop : Nat.Coprime x p) :
    ∃ d tab r, Dividers.new p = some d ∧ Inverter.new p = some tab ∧
      Inverter.invert tab d x = some r ∧ r < p ∧ x * r % p = 1 := by
  have hpow : ∀ k, p ≠ 2 ^ k := by
    intro k hk
    cases k with
    | zero => simp at hk; omega
    | succ k => rw [hk, Nat.pow_succ] at hodd; omega
  obtain ⟨d, hd, _⟩ := new_no_panic p (Or.inr ⟨hp3, by omega, hpow⟩)
  obtain ⟨tab, ht, _, _⟩ := inverter_new_spec p hodd hp3 hp28
  obtain ⟨r, hr⟩ := invert_spec p x d tab hd ht hodd hp3 hp28 hx0 hxp hcop
  exact ⟨d, tab, r, hd, ht, hr⟩

example : ((Dividers.new 7).bind fun d => (Inverter.new 7).bind fun tab => Inverter.invert tab d 3) = some 5 ∧
    ((Dividers.new 268435399).bind fun d => (Inverter.new 268435399).bind fun tab =>
      Inverter.invert tab d 2) = some 134217700 := by
  decide +kernel

/-! ### pow_mod, sqrt_mod

`B` is the number of values of the Rust integer type (`2^64` for `u64`, `2^1024` for `Uint`). -/

/-- `mulmod(a, b, p) = a·b mod p` whenever the product fits the type (and `p ≠ 0`); an overflowing
product is a panic of the checked profile. -/
theorem mulmod_spec (B a b p : Nat) (hp : 0 < p) (hab : a * b < B) :
    mulmod B a b p = some (a * b % p) :=
  mulmod_eq hp hab

/-- `pow_mod(n, k, p) = n^k mod p` for every modulus `p > 1` whose square fits the type
(`(p-1)² < B`: no product overflows, in either profile). For `k = 0` the routine returns 1, also
when `p = 1` (where `n^0 mod 1 = 0`): that is the only deviation from `n^k % p`. -/
theorem pow_mod_spec (B n k p : Nat) (hp : 0 < p) (hB : (p - 1) * (p - 1) < B) :
    powMod B n k p = some (if k = 0 then 1 else n ^ k % p) :=
  powMod_eq hp hB

/-- corollary: for `p > 1` the value is `n^k % p` for every `k`. -/
theorem pow_mod_spec_gt_one (B n k p : Nat) (hp : 1 < p) (hB : (p - 1) * (p - 1) < B) :
    powMod B n k p = some (n ^ k % p) := by
  rw [pow_mod_spec B n k p (by omega) hB]
  by_cases hk : k = 0
  · subst hk; simp [Nat.mod_eq_of_lt hp]
  · simp [hk]

/-- the behaviour at `p = 1`, `k = 0` -/
example : powMod (2 ^ 64) 5 0 1 = some 1 ∧ 5 ^ 0 % 1 = 0 := by decide

/-- `sqrt_mod` is sound for every prime modulus, every type width and every `n`:
a returned value is a reduced square root of `n`. (An overflowing product or a failed assertion
makes the model return `none`, so no size hypothesis is needed.) -/
theorem sqrt_mod_sound (B n p r : Nat) (hp : p.Prime) (h : sqrtMod B n p = some (some r)) :
    r < p ∧ r * r % p = n % p :=
  sqrtMod_sound B n p r hp h

/-- `sqrt_mod` answers `None` only for quadratic non-residues (Euler's criterion). -/
theorem sqrt_mod_none (B n p : Nat) (hp : p.Prime) (h : sqrtMod B n p = some none) :
    ¬ ∃ x, x * x % p = n % p :=
  sqrtMod_none B n p hp h

/-- `sqrt_mod` reaches no panic site (no overflowing product, `assert!(exp2 < 24)` holds, the
`for k in 1..(1 << 24)` loop finds a root before it runs out: `unreachable!` is unreachable) for
every prime `p` whose square fits the type, provided `p ≡ 3 (mod 4)` (the multiword case) or
`p < 2^24` (the factor-base range). For primes `p ≡ 1 (mod 2^24)` the code panics by design
(`assert!(exp2 < 24)`); see the corpus. -/
theorem sqrt_mod_no_panic (B n p : Nat) (hp : p.Prime) (hB : (p - 1) * (p - 1) < B)
    (hdom : p % 4 = 3 ∨ p < 2 ^ 24) : ∃ res, sqrtMod B n p = some res :=
  sqrtMod_no_panic B n p hp hB hdom

/-- Together: on that domain `sqrt_mod` returns a root exactly when one exists. -/
theorem sqrt_mod_exact (B n p : Nat) (hp : p.Prime) (hB : (p - 1) * (p - 1) < B)
    (hdom : p % 4 = 3 ∨ p < 2 ^ 24) :
    (∃ r, sqrtMod B n p = some (some r) ∧ r < p ∧ r * r % p = n % p) ∨
    (sqrtMod B n p = some none ∧ ¬ ∃ x, x * x % p = n % p) := by
  obtain ⟨res, h⟩ := sqrt_mod_no_panic B n p hp hB hdom
  cases res with
  | some r => exact Or.inl ⟨r, h, sqrt_mod_sound B n p r hp h⟩
  | none => exact Or.inr ⟨h, sqrt_mod_none B n p hp h⟩

/-- the two instances the property quantifies over. `u64`: every prime below `2^24` (the
factor-base range), every `n`. -/
theorem sqrt_mod_u64_factor_base (n p : Nat) (hp : p.Prime) (hp24 : p < 2 ^ 24) :
    (∃ r, sqrtMod (2 ^ 64) n p = some (some r) ∧ r < p ∧ r * r % p = n % p) ∨
    (sqrtMod (2 ^ 64) n p = some none ∧ ¬ ∃ x, x * x % p = n % p) := by
  apply sqrt_mod_exact _ n p hp _ (Or.inr hp24)
  have h0 := hp.pos
  calc (p - 1) * (p - 1) < 2 ^ 24 * 2 ^ 24 := Nat.mul_lt_mul'' (by omega) (by omega)
    _ < 2 ^ 64 := by norm_num

/-- `Uint` (1024 bits): every multiword prime `p ≡ 3 (mod 4)` below `2^512`, every `n`. -/
theorem sqrt_mod_uint_3mod4 (n p : Nat) (hp : p.Prime) (h34 : p % 4 = 3) (hp512 : p < 2 ^ 512) :
    (∃ r, sqrtMod (2 ^ 1024) n p = some (some r) ∧ r < p ∧ r * r % p = n % p) ∨
    (sqrtMod (2 ^ 1024) n p = some none ∧ ¬ ∃ x, x * x % p = n % p) := by
  apply sqrt_mod_exact _ n p hp _ (Or.inl h34)
  have h0 := hp.pos
  calc (p - 1) * (p - 1) < 2 ^ 512 * 2 ^ 512 := Nat.mul_lt_mul'' (by omega) (by omega)
    _ = 2 ^ 1024 := by rw [← Nat.pow_add]

/-- the documented assertion: a prime `p ≡ 1 (mod 2^24)` makes `sqrt_mod` panic on residues -/
example : sqrtMod (2 ^ 64) 2 167772161 = none := by decide +kernel

example : sqrtMod (2 ^ 64) 2 7 = some (some 4) ∧ sqrtMod (2 ^ 64) 3 7 = some none ∧
    sqrtMod (2 ^ 64) 5 41 = some (some 13) := by decide +kernel

/-! ### inv_mod64 -/

/-- `inv_mod64(n, p)` on the whole `u64 × u64` domain with `p > 0` (after the repair dd3553b the
extended gcd runs on `i128`; `num_integer`'s loop is modelled step by step): no `i128` overflow,
the `assert!(x >= 0)` holds, `Some(r)` with `r < p`, `n·r ≡ 1 (mod p)` exactly when
`gcd(n, p) = 1`, `None` otherwise. -/
theorem inv_mod64_spec (n p : Nat) (hn : n < 2 ^ 64) (hp : p < 2 ^ 64) (hp0 : 0 < p) :
    (Nat.gcd n p = 1 → ∃ r, invMod64 n p = some (some r) ∧ r < p ∧ n * r % p = 1 % p) ∧
    (Nat.gcd n p ≠ 1 → invMod64 n p = some none) :=
  invMod64_spec n p hn hp hp0

example : invMod64 3 18446744073709551557 = some (some 6148914691236517186) ∧
    invMod64 18446744073709551615 7 = some (some 1) ∧ invMod64 6 9 = some none := by decide +kernel

/-! ### integer roots, perfect powers -/

/-- A fact about the *specification function* `nthRoot` (a bisection defined in
Ymq/Model/Arith.lean), not about code: it is the floor of the k-th root. The library routines it
stands for (`num_integer::Roots::{nth_root, sqrt}` for `u64`, the `bnum` instance for `Uint`, hence
`arith::isqrt`) are NOT modelled; they are tied to `nthRoot` by the K/O runs only. -/
theorem nth_root_spec (n k : Nat) (hk : 0 < k) :
    (nthRoot n k) ^ k ≤ n ∧ n < (nthRoot n k + 1) ^ k :=
  nthRoot_spec n k hk

/-- Same remark: `isqrt := nthRoot · 2` is the specification function that stands for
`arith::isqrt = num_integer::sqrt`; this is a fact about that function, the library code is tied
to it by K/O only. (`squfof::isqrt`, which lives in the repository, is modelled: next theorem.) -/
theorem isqrt_spec (n : Nat) : isqrt n * isqrt n ≤ n ∧ n < (isqrt n + 1) * (isqrt n + 1) :=
  isqrt_spec' n

/-- `squfof::isqrt`: for *every* seed and every number of allowed iterations, a returned value
is the floor of the square root (termination from the floating-point seed is validated by the
correspondence runs only). -/
theorem squfof_isqrt_spec (fuel n seed r : Nat) (h : squfofIsqrt fuel n seed = some r) :
    r * r ≤ n ∧ n < (r + 1) * (r + 1) :=
  squfofIsqrt_some fuel n seed r h

example : squfofIsqrt 10 18446744073709551615 4294967296 = some 4294967295 := by decide +kernel

/-- `perfect_power` *relative to the floor-root specification function* `nthRoot` (the control flow
of `perfect_power` is modelled, the library `nth_root` it calls is not): `Some((r, k))` means
`r^k = n` with `k ≥ 2`; `None` means that `n` is not an e-th power for any of the exponents
2, 3, 5, 7, 11, 13, 17, 19 the code tries. -/
theorem perfect_power_spec (n : Nat) (res : Option (Nat × Nat)) (h : perfectPower n = some res) :
    match res with
    | some (r, k) => r ^ k = n ∧ 2 ≤ k
    | none => ∀ e ∈ ppExps, ¬ ∃ r, r ^ e = n := by
  have := ppFuel_spec _ _ _ h
  cases res with
  | some rk => exact this
  | none => exact this

/-- What the recursion on the root guarantees: for `n ≥ 2` the returned root `r` is not itself an
e-th power for any of the tried exponents e ∈ {2, 3, 5, 7, 11, 13, 17, 19} (so `perfect_power(r)`
would answer `None`, and `k` collects every tried prime exponent that can be split off, e.g.
`6669042837601 ↦ (1607, 4)`, not `(2582449, 2)`). Nothing is claimed about exponents with all
prime factors above 19 (`2^46 ↦ (2^23, 2)`). For `n ∈ {0, 1}` the answer is `(n, 2)`.
Relative to the floor-root specification function `nthRoot`, like `perfect_power_spec`. -/
theorem perfect_power_root_primitive (n r k : Nat) (h : perfectPower n = some (some (r, k)))
    (hn : 2 ≤ n) : ∀ e ∈ ppExps, ¬ ∃ s, s ^ e = r :=
  ppFuel_prim _ n r k h hn

example : perfectPower (2 ^ 46) = some (some (2 ^ 23, 2)) ∧ perfectPower (2 ^ 23) = some none ∧
    perfectPower 0 = some (some (0, 2)) := by decide +kernel

/-- Relative to `nthRoot` again: `perfect_power` terminates (recursion depth ≤ n) and its exponent
product never overflows `u32`, for every argument of the widest type used (`n < 2^1024`). After the repair 78b984c this
includes `n = 0` and `n = 1` (before it the recursion was unbounded there). -/
theorem perfect_power_no_panic (n : Nat) (hn : n < 2 ^ 1024) : ∃ res, perfectPower n = some res :=
  ppFuel_total (n + 1) n (by omega) hn

example : perfectPower 6669042837601 = some (some (1607, 4)) ∧ perfectPower 2 = some none ∧
    perfectPower 1 = some (some (1, 2)) := by decide +kernel

end Ymq.C08
