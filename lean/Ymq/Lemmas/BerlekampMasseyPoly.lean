/-
Lists of words as polynomials over `ZMod p`, and the specifications of the small loops of the
Berlekamp–Massey model (`lowerDeg`, `subAt`, `axLoop`, `scanDeg`, `updOne`, `updTwo`).
-/
import Ymq.Lemmas.BerlekampMasseyOps
import Mathlib.Algebra.Polynomial.Coeff
import Mathlib.Tactic.Ring
import Mathlib.Tactic.LinearCombination

namespace Ymq.BM
open Polynomial

variable {p : ℕ}

/-- word `i` of a vector, 0 outside (a plain definition so that `simp` leaves it alone) -/
def gd (l : List ℕ) (i : ℕ) : ℕ := l.getD i 0

/-- coefficient `i` of a word vector, in `ZMod p` (0 outside the vector) -/
def co (p : ℕ) (l : List ℕ) (i : ℕ) : ZMod p := ((gd l i : ℕ) : ZMod p)

/-- every word is a reduced residue -/
def Red (p : ℕ) (l : List ℕ) : Prop := ∀ i, gd l i < p

/-- the vector as a polynomial -/
noncomputable def toPoly (p : ℕ) (l : List ℕ) : (ZMod p)[X] :=
  ∑ i ∈ Finset.range l.length, C (co p l i) * X ^ i

theorem gd_of_le (l : List ℕ) (i : ℕ) (h : l.length ≤ i) : gd l i = 0 := by
  unfold gd
  simp [List.getD_eq_getElem?_getD, List.getElem?_eq_none h]

theorem co_of_le (l : List ℕ) (i : ℕ) (h : l.length ≤ i) : co p l i = 0 := by
  unfold co
  rw [gd_of_le l i h]; simp

theorem coeff_toPoly (l : List ℕ) (i : ℕ) : (toPoly p l).coeff i = co p l i := by
  unfold toPoly
  rw [finsetSum_coeff]
  simp only [coeff_C_mul, coeff_X_pow]
  by_cases h : i < l.length
  · rw [Finset.sum_eq_single i]
    · simp
    · intro b _ hb; simp [Ne.symm hb]
    · intro hi; exact absurd (Finset.mem_range.mpr h) hi
  · rw [co_of_le l i (by omega)]
    apply Finset.sum_eq_zero
    intro b hb
    have := Finset.mem_range.mp hb
    have : i ≠ b := by omega
    simp [this]

theorem getD_set (l : List ℕ) (i x k : ℕ) :
    gd (l.set i x) k = if k = i ∧ i < l.length then x else gd l k := by
  simp only [gd, List.getD_eq_getElem?_getD, List.getElem?_set]
  by_cases h : i = k
  · subst h
    by_cases h2 : i < l.length
    · simp [h2]
    · simp [h2]
  · have : ¬ k = i := fun e => h e.symm
    simp [h, this]

theorem getElem?_of_lt (l : List ℕ) (i : ℕ) (h : i < l.length) : l[i]? = some (gd l i) := by
  simp [gd, List.getD_eq_getElem?_getD, List.getElem?_eq_getElem h]

theorem cast_eq_zero_of_lt {x : ℕ} (hx : x < p) : ((x : ZMod p) = 0 ↔ x = 0) := by
  constructor
  · intro h
    have := (ZMod.natCast_eq_zero_iff x p).mp h
    exact Nat.eq_zero_of_dvd_of_lt this hx
  · rintro rfl; simp

/-! ### lowerDeg -/

theorem lowerDeg_spec (l : List ℕ) : ∀ d, d < l.length →
    ∃ r, lowerDeg l d = some r ∧ r ≤ d ∧ (∀ i, r < i → i ≤ d → gd l i = 0) ∧
      (gd l r ≠ 0 ∨ r = 0)
  | 0, h => by
    refine ⟨0, ?_, le_refl _, ?_, Or.inr rfl⟩
    · simp [lowerDeg, getElem?_of_lt l 0 h]
    · intro i h1 h2; omega
  | d + 1, h => by
    unfold lowerDeg
    rw [getElem?_of_lt l (d + 1) h]
    by_cases hx : gd l (d + 1) = 0
    · obtain ⟨r, e1, e2, e3, e4⟩ := lowerDeg_spec l d (by omega)
      refine ⟨r, ?_, by omega, ?_, e4⟩
      · simp [hx, e1]
      · intro i h1 h2
        by_cases hi : i = d + 1
        · rw [hi]; exact hx
        · exact e3 i h1 (by omega)
    · refine ⟨d + 1, ?_, le_refl _, ?_, Or.inl hx⟩
      · simp [hx]
      · intro i h1 h2; omega

/-! ### subAt, axLoop -/

section ops
variable {o : Ops} {κ : ZMod p}

theorem subAt_spec (ok : OpsOK o p κ) (a : List ℕ) (ha : Red p a) (i b : ℕ) (hi : i < a.length)
    (hb : b < p) :
    ∃ a', subAt o a i b = some a' ∧ a'.length = a.length ∧ Red p a' ∧
      ∀ k, co p a' k = co p a k - if k = i then (b : ZMod p) else 0 := by
  obtain ⟨r, e1, e2, e3⟩ := ok.sub (gd a i) b (ha i) hb
  refine ⟨a.set i r, ?_, by simp, ?_, ?_⟩
  · simp [subAt, getElem?_of_lt a i hi, e1]
  · intro k; rw [getD_set]; split
    · exact e2
    · exact ha k
  · intro k
    unfold co
    rw [getD_set]
    by_cases hk : k = i
    · subst hk; simp [hi, e3]
    · simp [hk]

theorem axLoop_spec (ok : OpsOK o p κ) (term : ℕ → Option ℕ) (τ : ℕ → ZMod p) (d : ℕ) :
    ∀ (c i0 : ℕ) (a : List ℕ), Red p a → i0 + c + d ≤ a.length →
      (∀ i, i0 ≤ i → i < i0 + c → ∃ r, term i = some r ∧ r < p ∧ (r : ZMod p) = τ i) →
      ∃ a', axLoop o term d c i0 a = some a' ∧ a'.length = a.length ∧ Red p a' ∧
        ∀ k, co p a' k = co p a k - if i0 + d ≤ k ∧ k < i0 + c + d then τ (k - d) else 0
  | 0, i0, a, ha, _, _ => by
    refine ⟨a, rfl, rfl, ha, ?_⟩
    intro k
    have : ¬ (i0 + d ≤ k ∧ k < i0 + 0 + d) := by omega
    rw [if_neg this, sub_zero]
  | c + 1, i0, a, ha, hlen, ht => by
    obtain ⟨r, e1, e2, e3⟩ := ht i0 (le_refl _) (by omega)
    obtain ⟨a1, f1, f2, f3, f4⟩ := subAt_spec ok a ha (i0 + d) r (by omega) e2
    obtain ⟨a2, g1, g2, g3, g4⟩ := axLoop_spec ok term τ d c (i0 + 1) a1 f3 (by omega)
      (fun i h1 h2 => ht i (by omega) (by omega))
    refine ⟨a2, ?_, by omega, g3, ?_⟩
    · simp [axLoop, e1, f1, g1]
    · intro k
      rw [g4 k, f4 k]
      by_cases hk : k = i0 + d
      · subst hk
        have h1 : ¬ (i0 + 1 + d ≤ i0 + d ∧ i0 + d < i0 + 1 + c + d) := by omega
        have h2 : (i0 + d ≤ i0 + d ∧ i0 + d < i0 + (c + 1) + d) := by omega
        simp only [h1, h2, if_true, if_false, e3]
        simp
      · by_cases hr : i0 + 1 + d ≤ k ∧ k < i0 + 1 + c + d
        · have h2 : (i0 + d ≤ k ∧ k < i0 + (c + 1) + d) := by omega
          simp [hk, hr, h2]
        · have h2 : ¬ (i0 + d ≤ k ∧ k < i0 + (c + 1) + d) := by omega
          simp [hk, hr, h2]

/-! ### scanDeg -/

theorem scanDeg_spec (v : List ℕ) : ∀ (c i dv : ℕ), i + c ≤ v.length →
    ∃ r, scanDeg v c i dv = some r ∧
      ((r = dv ∧ ∀ k, i ≤ k → k < i + c → gd v k = 0) ∨
       (i ≤ r ∧ r < i + c ∧ ∀ k, r < k → k < i + c → gd v k = 0))
  | 0, i, dv, _ => ⟨dv, rfl, Or.inl ⟨rfl, fun k h1 h2 => by omega⟩⟩
  | c + 1, i, dv, h => by
    obtain ⟨r, e1, e2⟩ := scanDeg_spec v c (i + 1) (if gd v i ≠ 0 then i else dv) (by omega)
    refine ⟨r, ?_, ?_⟩
    · simp only [scanDeg, getElem?_of_lt v i (by omega)]
      simpa using e1
    · rcases e2 with ⟨h1, h2⟩ | ⟨h1, h2, h3⟩
      · by_cases hx : gd v i = 0
        · left
          simp only [hx, ne_eq, not_true_eq_false, if_false] at h1
          refine ⟨h1, fun k k1 k2 => ?_⟩
          by_cases hk : k = i
          · rw [hk]; exact hx
          · exact h2 k (by omega) (by omega)
        · right
          simp only [ne_eq, hx, not_false_eq_true, if_true] at h1
          refine ⟨by omega, by omega, fun k k1 k2 => h2 k (by omega) (by omega)⟩
      · right
        exact ⟨by omega, by omega, fun k k1 k2 => h3 k k1 (by omega)⟩

/-! ### updOne, updTwo as polynomial identities -/

theorem toPoly_ext_sub (a a' b : List ℕ) (Q : (ZMod p)[X])
    (h : ∀ k, co p a' k = co p a k - (Q * toPoly p b).coeff k) :
    toPoly p a' = toPoly p a - Q * toPoly p b := by
  ext k
  rw [coeff_sub, coeff_toPoly, coeff_toPoly, h k]

theorem coeff_shift (c : ZMod p) (d : ℕ) (P : (ZMod p)[X]) (k : ℕ) :
    (C c * X ^ d * P).coeff k = if d ≤ k then c * P.coeff (k - d) else 0 := by
  rw [mul_assoc, coeff_C_mul, coeff_X_pow_mul']
  split <;> simp

theorem updOne_spec (ok : OpsOK o p κ) (src dst : List ℕ) (hs : Red p src) (hd : Red p dst)
    (d deg q : ℕ) (hq : q < p) (hlen : deg + 1 + d ≤ dst.length) (hsl : src.length = dst.length)
    (hz : ∀ i, deg < i → gd src i = 0) :
    ∃ a', updOne o src dst d deg q = some a' ∧ a'.length = dst.length ∧ Red p a' ∧
      toPoly p a' = toPoly p dst - C (κ * q) * X ^ d * toPoly p src := by
  obtain ⟨a', e1, e2, e3, e4⟩ := axLoop_spec ok
    (fun i => do let a ← src[i]?; o.mul q a) (fun i => κ * q * co p src i) d (deg + 1) 0 dst hd
    (by omega) (by
      intro i _ h2
      obtain ⟨r, r1, r2, r3⟩ := ok.mul q (gd src i) hq (hs i)
      refine ⟨r, ?_, r2, r3⟩
      simp [getElem?_of_lt src i (by omega), r1])
  refine ⟨a', e1, e2, e3, toPoly_ext_sub dst a' src _ ?_⟩
  intro k
  rw [e4 k, coeff_shift, coeff_toPoly]
  by_cases h1 : d ≤ k
  · by_cases h2 : k < 0 + (deg + 1) + d
    · have : 0 + d ≤ k ∧ k < 0 + (deg + 1) + d := ⟨by omega, h2⟩
      rw [if_pos this, if_pos h1]
    · have : ¬ (0 + d ≤ k ∧ k < 0 + (deg + 1) + d) := fun h => h2 h.2
      have hz' : co p src (k - d) = 0 := by
        unfold co; rw [hz (k - d) (by omega)]; simp
      rw [if_neg this, if_pos h1, hz']; simp
  · have : ¬ (0 + d ≤ k ∧ k < 0 + (deg + 1) + d) := by omega
    rw [if_neg this, if_neg h1]

theorem coeff_shift2 (c1 c0 : ZMod p) (d : ℕ) (P : (ZMod p)[X]) (k : ℕ) :
    ((C c1 * X + C c0) * X ^ d * P).coeff k =
      (if d + 1 ≤ k then c1 * P.coeff (k - (d + 1)) else 0) +
      (if d ≤ k then c0 * P.coeff (k - d) else 0) := by
  have : (C c1 * X + C c0) * X ^ d * P = C c1 * X ^ (d + 1) * P + C c0 * X ^ d * P := by ring
  rw [this, coeff_add, coeff_shift, coeff_shift]

theorem updTwo_spec (ok : OpsOK o p κ) (htwo : o.two = true) (src dst : List ℕ) (hs : Red p src)
    (hd : Red p dst) (d deg q0 q1 : ℕ) (hq0 : q0 < p) (hq1 : q1 < p)
    (hlen : d + deg + 1 < dst.length) (hsl : src.length = dst.length)
    (hz : ∀ i, deg < i → gd src i = 0) :
    ∃ a', updTwo o src dst d deg q0 q1 = some a' ∧ a'.length = dst.length ∧ Red p a' ∧
      toPoly p a' = toPoly p dst - (C (κ * q1) * X + C (κ * q0)) * X ^ d * toPoly p src := by
  obtain ⟨t0, m1, m2, m3⟩ := ok.mul (gd src 0) q0 (hs 0) hq0
  obtain ⟨a1, f1, f2, f3, f4⟩ := subAt_spec ok dst hd d t0 (by omega) m2
  obtain ⟨a2, g1, g2, g3, g4⟩ := axLoop_spec ok
    (fun i => do let a ← src[i]?; let b ← src[i - 1]?; o.dot a q0 b q1)
    (fun i => κ * (co p src i * q0 + co p src (i - 1) * q1)) d deg 1 a1 f3 (by omega) (by
      intro i _ h2
      obtain ⟨r, r1, r2, r3⟩ := ok.dot htwo (gd src i) q0 (gd src (i - 1)) q1 (hs i) hq0
        (hs _) hq1
      refine ⟨r, ?_, r2, r3⟩
      simp [getElem?_of_lt src i (by omega), getElem?_of_lt src (i - 1) (by omega), r1])
  obtain ⟨tl, n1, n2, n3⟩ := ok.mul (gd src deg) q1 (hs deg) hq1
  obtain ⟨a3, h1, h2, h3, h4⟩ := subAt_spec ok a2 g3 (d + deg + 1) tl (by omega) n2
  refine ⟨a3, ?_, by omega, h3, toPoly_ext_sub dst a3 src _ ?_⟩
  · simp only [Option.bind_eq_bind] at g1
    simp [updTwo, getElem?_of_lt src 0 (by omega), m1, f1, g1,
      getElem?_of_lt src deg (by omega), n1, h1]
  · intro k
    rw [h4 k, g4 k, f4 k, coeff_shift2, coeff_toPoly, coeff_toPoly, m3, n3]
    have hzc : ∀ i, deg < i → co p src i = 0 := by
      intro i hi; unfold co; rw [hz i hi]; simp
    rcases Nat.lt_trichotomy k d with hk | hk | hk
    · have c1 : ¬ k = d := by omega
      have c2 : ¬ (1 + d ≤ k ∧ k < 1 + deg + d) := by omega
      have c3 : ¬ k = d + deg + 1 := by omega
      have c4 : ¬ d + 1 ≤ k := by omega
      have c5 : ¬ d ≤ k := by omega
      rw [if_neg c1, if_neg c2, if_neg c3, if_neg c4, if_neg c5]; ring
    · have c1 : k = d := hk
      have c2 : ¬ (1 + d ≤ k ∧ k < 1 + deg + d) := by omega
      have c3 : ¬ k = d + deg + 1 := by omega
      have c4 : ¬ d + 1 ≤ k := by omega
      have c5 : d ≤ k := by omega
      have e : k - d = 0 := by omega
      rw [if_pos c1, if_neg c2, if_neg c3, if_neg c4, if_pos c5, e]
      unfold co; ring
    · by_cases hk2 : k < 1 + deg + d
      · have c1 : ¬ k = d := by omega
        have c2 : (1 + d ≤ k ∧ k < 1 + deg + d) := by omega
        have c3 : ¬ k = d + deg + 1 := by omega
        have c4 : d + 1 ≤ k := by omega
        have c5 : d ≤ k := by omega
        have e : k - d - 1 = k - (d + 1) := by omega
        rw [if_neg c1, if_pos c2, if_neg c3, if_pos c4, if_pos c5, e]
        ring
      · by_cases hk3 : k = d + deg + 1
        · have c1 : ¬ k = d := by omega
          have c2 : ¬ (1 + d ≤ k ∧ k < 1 + deg + d) := by omega
          have c4 : d + 1 ≤ k := by omega
          have c5 : d ≤ k := by omega
          have e1 : k - (d + 1) = deg := by omega
          have e2 : co p src (k - d) = 0 := hzc _ (by omega)
          rw [if_neg c1, if_neg c2, if_pos hk3, if_pos c4, if_pos c5, e1, e2]
          unfold co; ring
        · have c1 : ¬ k = d := by omega
          have c2 : ¬ (1 + d ≤ k ∧ k < 1 + deg + d) := by omega
          have c4 : d + 1 ≤ k := by omega
          have c5 : d ≤ k := by omega
          have e1 : co p src (k - (d + 1)) = 0 := hzc _ (by omega)
          have e2 : co p src (k - d) = 0 := hzc _ (by omega)
          rw [if_neg c1, if_neg c2, if_neg hk3, if_pos c4, if_pos c5, e1, e2]; ring

end ops

end Ymq.BM
