"""C15 — elliptic-curve arithmetic implements the group law (src/ecm.rs, src/ecm128.rs)."""
# SIZE AUDIT (quick tier)  [measured with seed 1; n = modulus, k = scalar]
# Widths in the code: ecm::Curve works over ZmodN (k = ceil(bits/64) words, 1..8; ecm()/factor() refuse n > 500 bits; 501..512 bits
# fail first in C07/C09 mechanisms, see `modulus`); ecm128 works over M128 (u128, n <= 128 bits) with a 64-bit Montgomery path when
# n >> 64 == 0 and the u128 path from 65 bits; scalars are u64 (chains of <= 33 opcodes) or Uint = 1024 bits (<= 294 opcodes);
# SmoothBase::new takes its primes from fbase::primes for b1 < 65536 and from the segmented PrimeSieve from 65536 on (ecm() uses
# B1 = 200 .. 350e6, so the second source is the one of every run on n >= 311 bits).
#
# op                         quick: sizes of n reached (bits)                            thorough        supported
# chain64                    k: every bit length 0..64, +-16 around 2^32, 2^63, 2^64      same + random   u64            complete
# chain1024                  k: 478 bit lengths up to 1024, 2^1024-1, 2^1023, word edges  same + random   1024 bits      complete
# ed_ops/ed_chainmul/        61,63,64 | 121,127,128 | 190,192 | 253,256 | 291..319 |      same classes    <= 500 (512)   TOP of every word class only
#   ed_chainmul1024/ecm_mul/ 382,384 | 430..448 | 499,500   (bits = 64w - {0,0,1,2,r<32})                                  (top word >= 2^32): never 65, 66,
#   ecm_mul1024/suyama(_ops)                                                                                              129, 193, 257, 321, 385, 449
# ed128_ops/ed128_chainmul/  61,63,64,121,127,128                                         same            <= 128         64-bit path and the top of the
#   ecm128_mul                                                                                                            u128 path; 65/66 bits (first
#                                                                                                                         values of the u128 path) never
# smoothbase                 b1 = 16, 200, 5000, 60000                                    same            usize          65536 switch and everything
#                                                                                                                         above (ecm() goes to 350e6) never
# scalars of the multiplications: structured 64-bit list incl. 2^64-1, 2^64-3, 33-opcode scalars; 1024-bit list incl. 2^1024-1.
# Added by the audit (boundary_cases, yielded first in both tiers): every multiplication / formula / curve-construction op on
# moduli of 65, 129, 193, 257, 321, 385, 449 bits (top word 1), composite 65/129-bit moduli, the primes next to
# 2^64, 2^128, 2^256, 2^448 on both sides and below 2^500; the ecm128 ops on all of those <= 128 bits; smoothbase at 65535,
# 65536, 65537, 100000, 200000, 1500000.
import math
import random
from vlib.pipeline import Case
from vlib import gen

PID = "C15"
GEN = ["curves"]
LEAN = ["Ymq.Props.C15", "Ymq.Props.C15Suyama"]
AUDIT = "Ymq.Audit.C15"
THEOREMS = [
    "Ymq.C15.chain_eval",
    "Ymq.C15.chain_eval_len33_witness",
    "Ymq.C15.chain_cap32_witness",
    "Ymq.C15.chain_long_eval",
    "Ymq.C15.chain_interp_spec",
    "Ymq.C15.chainmul_spec",
    "Ymq.C15.dbladd_spec",
    "Ymq.C15.chainmul_eq_dbladd",
    "Ymq.C15.mul128_spec",
    "Ymq.C15.mul128_zero_witness",
    "Ymq.C15.chainmul1024_spec",
    "Ymq.C15.add_closed",
    "Ymq.C15.double_closed",
    "Ymq.C15.dblext_closed",
    "Ymq.C15.to_extended_closed",
    "Ymq.C15.addext_closed",
    "Ymq.C15.addextproj_closed",
    "Ymq.C15.subextproj_neg",
    "Ymq.C15.subextproj_closed",
    "Ymq.C15.add_self_double",
    "Ymq.C15.dblext_double",
    "Ymq.C15.addext_add",
    "Ymq.C15.e128_eq_ecm",
    "Ymq.C15.e128_dbladd_spec",
    "Ymq.C15.e128_is_valid_of_curve",
    "Ymq.C15.suyama_double_on_curve",
    "Ymq.C15.suyama_add_g_on_curve",
    "Ymq.C15.suyama_generator_on_curve",
    "Ymq.C15.params_point_on_curve",
    "Ymq.C15.suyama_params_spec",
    "Ymq.C15.addext_self_zero",
    "Ymq.C15.from_point_on_curve",
    "Ymq.C15.chainmul_degenerate_witness",
    "Ymq.C15.lawful_nonvacuous",
    "Ymq.C15.suyama_new_spec",
    "Ymq.C15.element_sound",
    "Ymq.C15.element_ladder_spec",
    "Ymq.C15.params_sound",
    "Ymq.C15.twisted_from_point_sound",
    "Ymq.C15.suyama_curve_sound",
    "Ymq.C15.from_point_sound",
    "Ymq.C15.from_point_zero_coordinate",
    "Ymq.C15.from_point_zero_truncated_witness",
    "Ymq.C15.select_curve_sound",
    "Ymq.C15.ecm_seeds_spec",
    "Ymq.C15.select128_sound",
    "Ymq.C15.curve128_from_spec",
]
# the same statements for the context the native driver runs (finCtx, Lemmas/CurveBuildFin.lean)
THEOREMS += [
    "Ymq.C15.select128_overflow_panics",
    "Ymq.C15.driver_ctx_lawful",
    "Ymq.C15.suyama_new_fin_spec",
    "Ymq.C15.suyama_curve_fin_sound",
    "Ymq.C15.from_point_fin_sound",
    "Ymq.C15.select_curve_fin_sound",
    "Ymq.C15.ecm_select_fin_sound",
    "Ymq.C15.select128_fin_sound",
]
PROFILES = ["release", "chk"]
TIMEOUT = 30.0
W = 1 << 64
HYPOTHESES = []

RULE = ("boundary family first (both tiers): every op on moduli of 65, 129, 193, 257, 321, 385, 449 bits (first values of each word "
        "class; ecm128: first values of the u128 path), composite ones, the primes next to 2^64, 2^128, 2^256, 2^448 on both sides and "
        "below 2^500; SmoothBase at the 65536 switch of its prime source and at B1 = 100000, 200000, 1500000; then "
        "points of large order modulo every prime factor (random points, prime factors >= 2^31, factors recorded for the oracle); scalars: 0..4096, powers of two, all-ones, everything within 16 of 2^64 and 2^32, 33-opcode scalars, SmoothBase "
        "blocks (B1 16..60000), random; 1024-bit scalars sparse/dense/top-word patterns; moduli prime and composite 1..8 "
        "words (prime factors >= 2^31); both curve families (Suyama-11 a=-1, (3s+5,4s+5) a=+1), several seeds; explicit "
        "on-curve and off-curve coordinates for the formula ops; non-trivial = scalar > 7 or a formula op; distinct by request")
MODELLED = [
    "ecm::Curve::{make_addition_chain, make_addition_chain_long} word-exact, buffer capacities read from the source (Ymq/Model/Chain.lean)",
    "ecm::Curve::{scalar64_chainmul, scalar1024_chainmul, scalar64_mul_dbladd}, ecm128::Curve::scalar64_mul as interpreters over abstract point operations (Ymq/Model/Chain.lean)",
    "ecm::Curve::{add,_addext,addext,addextproj,subextproj,dblext,double,to_extended,is_valid,is_validext,twisted_from_point}, "
    "Suyama11::{add_g,double,is_valid,params,params_point}, ecm128::Curve::{ext,dblext,add,dbladd,double,is_valid} translated from the source (Ymq/Gen/Curves.lean)",
]
MODELLED += [
    "curve constructors (Ymq/Model/Suyama.lean, control flow around the translated formulas, every panic site a `panic`): "
    "Suyama11::{new, element, params, params_point}, UnexpectedLargeFactor::new, zn_divide, Curve::{twisted_from_point, "
    "fraction_modn, from_point} (u64 arithmetic of both profiles, the truncated factor), the curve selection of ecm::ecm "
    "(seed generator, Suyama-11 curve, fallback curve, factor / give-up decision) and of ecm128::ecm, "
    "impl From<&ecm::Curve> for ecm128::Curve",
]
UNMODELLED = [
    "ZmodN / M128 Montgomery arithmetic is taken to be arithmetic in Z/n (C07), ZmodN::inv / gcd at their specification (C09); "
    "the rayon branch of ecm() (order of the seeds under a thread pool); stage 1/stage 2 of ecm_curve are exercised "
    "through the oracle only (index structure and hit statement: C16)",
]


# ------------------------------------------------------------------ independent reference arithmetic

def eval_chain(c):
    """what scalar64_chainmul / scalar1024_chainmul / ecm128 scalar64_mul compute from chain[0..l]"""
    i = c[-1]
    if i < 0:
        return None
    v = 2 * (i // 2) + 1
    for op in reversed(c[:-1]):
        if op % 2 == 0:
            v <<= max(op // 2, 0)
        else:
            v = 2 * v + op
    return v


def ed_add(n, a, d, P, Q):
    """affine Edwards law x3=(x1y2+y1x2)/(1+d x1x2y1y2), y3=(y1y2-a x1x2)/(1-d x1x2y1y2), homogenised"""
    x1, y1, z1 = P
    x2, y2, z2 = Q
    A = z1 * z2 % n
    B = A * A % n
    E = d * x1 * x2 % n * y1 % n * y2 % n
    X = (x1 * y2 + y1 * x2) * A % n * (B - E) % n
    Y = (y1 * y2 - a * x1 * x2) * A % n * (B + E) % n
    Z = (B - E) * (B + E) % n
    return (X, Y, Z)


def ed_mul(n, a, d, k, P):
    R = (0, 1, 1)
    for bit in bin(k)[2:] if k else "":
        R = ed_add(n, a, d, R, R)
        if bit == "1":
            R = ed_add(n, a, d, R, P)
    return R


def on_curve(n, a, d, P):
    x, y, z = P
    return (a * x * x * z * z + y * y * z * z - z ** 4 - d * x * x * y * y) % n == 0


def proj_eq(n, P, Q):
    return ((P[0] * Q[1] - P[1] * Q[0]) % n == 0 and (P[1] * Q[2] - P[2] * Q[1]) % n == 0
            and (P[2] * Q[0] - P[0] * Q[2]) % n == 0)


def nonzero(n, P):
    return any(c % n for c in P)


def w_add(n, A, P, Q):
    """short Weierstrass y^2 z = x^3 + A x z^2 + B z^3, projective, from the chord/tangent rule"""
    x1, y1, z1 = P
    x2, y2, z2 = Q
    if z1 % n == 0:
        return Q
    if z2 % n == 0:
        return P
    u = (y2 * z1 - y1 * z2) % n
    v = (x2 * z1 - x1 * z2) % n
    if v == 0:
        if u != 0:
            return (0, 1, 0)
        # tangent
        w = (3 * x1 * x1 + A * z1 * z1) % n
        s = 2 * y1 * z1 % n
        if s == 0:
            return (0, 1, 0)
        # lambda = w/s ; x3 = l^2 - 2x ; y3 = l (x - x3) - y   (affine x = x1/z1)
        # common denominator s^3 z1... use h = w^2 z1 - 2 x1 s^2 (times 1/(s^2 z1))
        h = (w * w * z1 - 2 * x1 * s * s) % n
        X = h * s % n
        Y = (w * (x1 * s * s - h) - y1 * s * s * s) % n
        Z = s * s * s * z1 % n
        return (X, Y, Z)
    # lambda = u/v ; x3 = l^2 - x1 - x2
    zz = z1 * z2 % n
    h = (u * u * zz - v * v * (x1 * z2 + x2 * z1)) % n          # x3 = h / (v^2 zz)
    X = v * h % n
    Y = (u * (x1 * z2 * v * v - h) - y1 * z2 * v * v * v) % n    # y3 = (u (x1/z1 v^2 zz - h) ...)/(v^3 zz)
    Z = v * v * v * zz % n
    return (X, Y, Z)


def w_mul(n, A, k, P):
    R = (0, 1, 0)
    for bit in bin(k)[2:]:
        R = w_add(n, A, R, R)
        if bit == "1":
            R = w_add(n, A, R, P)
    return R


# ------------------------------------------------------------------ generators

def small_primes(limit):
    s = bytearray([1]) * (limit + 1)
    s[0:2] = b"\0\0"
    for i in range(2, int(limit ** 0.5) + 1):
        if s[i]:
            s[i * i::i] = bytearray(len(s[i * i::i]))
    return [i for i in range(limit + 1) if s[i]]


def smoothbase(b1, use_large):
    """re-implementation of ecm::SmoothBase::new (any b1: the primes below b1, whichever source the code takes them from)"""
    factors, larges = [], []
    buf, buf_lg = 1, 1
    for p in small_primes(b1):
        if p >= b1:
            break
        pw = p
        while pw * p < b1:
            pw *= p
        if p == 2:
            pw *= 16
        if p == 3:
            pw *= 3
        if p < 256 and buf > 1 << 32:
            factors.append(buf)
            buf = 1
        if 1 << (64 - buf.bit_length()) <= pw:
            if p < 4096 or not use_large:
                factors.append(buf)
                buf = 1
            else:
                buf_lg *= buf
                buf = 1
        if buf_lg.bit_length() > 1024 - 64:
            larges.append(buf_lg)
            buf_lg = 1
        buf *= pw
    if buf > 1:
        if b1 < 4096 or not use_large:
            factors.append(buf)
        else:
            buf_lg *= buf
    if buf_lg > 1:
        larges.append(buf_lg)
    return factors, larges


def len33_scalar(rng):
    """odd k >= 2^63 whose rounded quotients stay odd and whose top nibble is 9..15: 33 opcodes"""
    m = rng.choice([9, 11, 13, 15])
    for _ in range(15):
        m = 16 * m + rng.choice([-7, -5, -3, -1, 1, 3, 5, 7])
    return m if m < W else 0x9111111111111111


def scalars64(rng, count):
    ks = [W - 1, W - 3, W - 5, W - 7, 0x9111111111111111, 0x9999999999999999, 0xF111111111111111, 0x8000000000000001]
    ks += [(1 << i) for i in range(64)] + [(1 << i) - 1 for i in range(1, 65)] + [(1 << i) + 1 for i in range(1, 64)]
    ks += [W - i for i in range(1, 17)] + [(1 << 32) + i for i in range(-16, 17)] + [(1 << 63) + i for i in range(-16, 17)]
    ks += [len33_scalar(rng) for _ in range(40)]
    ks += [int("9" * i, 16) for i in range(1, 17)] + [int("7" * i, 16) for i in range(1, 17)] + [int("8" * i, 16) for i in range(1, 17)]
    for b1 in (16, 50, 200, 1000, 5000, 60000):
        for lg in (False, True):
            ks += smoothbase(b1, lg)[0]
    fixed = len(ks)
    while len(ks) < fixed + count:
        c = rng.randrange(5)
        if c == 0:
            ks.append(rng.getrandbits(64))
        elif c == 1:
            ks.append(rng.getrandbits(rng.randrange(1, 65)))
        elif c == 2:
            ks.append(gen.rand_words(rng, 1))
        elif c == 3:   # hex digits from a biased alphabet (long carry chains, digits 7/8/9/F)
            ks.append(int("".join(rng.choice("0789F1") for _ in range(rng.randrange(1, 17))), 16))
        else:
            ks.append(len33_scalar(rng) >> rng.randrange(0, 8))
    return ks


def scalars1024(rng, count):
    M = (1 << 1024) - 1
    ks = [1, 2, 3, 63, 64, 65, 127, 128, 129, M, M - 1, M >> 1, 1 << 1023, (1 << 1023) + 1, W, W - 1, W + 1,
          (1 << 64 * 15) - 1, 1 << 64 * 15, (1 << 960) - 1, int("9" * 256, 16), int("7F" * 128, 16), int("81" * 128, 16)]
    ks += [1 << i for i in range(0, 1024, 37)] + [(1 << i) - 1 for i in range(1, 1025, 41)]
    ks += [(1 << i) | (1 << (i - 400)) for i in range(900, 1024, 9)]
    ks += [(1 << i) + (1 << (i - 300)) - (1 << (i // 2)) for i in range(900, 1024, 11)]
    for i in (1, 2, 5, 6, 7, 8, 31, 32, 33, 58, 59, 60, 61, 62, 63, 64):      # top-word patterns
        for w in (1, 15, 16):
            top = (1 << i) - 1
            ks += [top << (64 * (w - 1)), (top << (64 * (w - 1))) | ((1 << 64 * (w - 1)) - 1),
                   ((1 << (i - 1)) << (64 * (w - 1))) | rng.getrandbits(64 * (w - 1)) if w > 1 else top]
    for b1 in (5000, 20000, 60000):
        ks += smoothbase(b1, True)[1]
    fixed = len(ks)
    while len(ks) < fixed + count:
        c = rng.randrange(5)
        bits = rng.choice([rng.randrange(1, 1025), 1024, rng.randrange(960, 1025), 64 * rng.randrange(1, 17)])
        if c == 0:
            ks.append(rng.getrandbits(bits))
        elif c == 1:       # sparse
            ks.append(sum(1 << rng.randrange(bits) for _ in range(rng.randrange(1, 12))))
        elif c == 2:       # dense
            ks.append(((1 << bits) - 1) ^ sum(1 << rng.randrange(bits) for _ in range(rng.randrange(0, 12))))
        elif c == 3:       # words from patterns
            ks.append(gen.rand_words(rng, (bits + 63) // 64) & M)
        else:              # runs of 6/7-bit groups around the 63/64 threshold of the window
            v = 0
            while v.bit_length() < bits:
                v = (v << 7) | rng.choice([63, 64, 65, 127, 1, 0, 33, 95])
            ks.append(v & M)
    return [k & M for k in ks]


def big_prime(rng, bits):
    return gen.rand_prime(rng, bits)


def modulus(rng, words, composite):
    """(n, prime factors): odd modulus with `words` 64-bit words (at most 500 bits, the library's limit), prime factors >= 2^31"""
    bits = 64 * words - rng.choice([0, 0, 1, 2, rng.randrange(0, 32)])
    bits = max(bits, 64 * (words - 1) + 2, 40)
    if words == 8:
        # README limit is 500 bits. Above it other properties' mechanisms fail first: ZmodN add/mul for n >= 2^511
        # (C07) and arith_gcd::inv_mod, which overflows in the checked profile for a 511-bit modulus (C09).
        bits = min(bits, 500)
    if not composite:
        p = big_prime(rng, bits)
        return p, [p]
    k = rng.choice([2, 2, 3]) if bits >= 96 else 2
    parts = []
    rem = bits
    for i in range(k - 1):
        b = max(31, min(rem - 31 * (k - 1 - i), rem // (k - i) + rng.randrange(-3, 4)))
        parts.append(big_prime(rng, b))
        rem -= b
    while True:
        p = big_prime(rng, max(rem, 31))
        n = math.prod(parts) * p
        if n.bit_length() <= 500 and ((n.bit_length() + 63) // 64 == words or words == 1 and n.bit_length() <= 64):
            return n, parts + [p]
        rem += 1 if (n.bit_length() + 63) // 64 < words else -1


def curve_point(rng, n, a):
    """random d and a point on a x^2 + y^2 = 1 + d x^2 y^2 (projective, random scaling)"""
    while True:
        x, y, z = [rng.randrange(1, n) for _ in range(3)]
        if math.gcd(x * y * z, n) != 1:
            continue
        d = (a * x * x * z * z + y * y * z * z - z ** 4) * pow(x * x * y * y, -1, n) % n
        return d, (x, y, z)


def fmt(*xs):
    return " ".join(str(x) for x in xs)


FINDING_DEGENERATE = "chainmul-zero-triple-on-degenerate-step"

# (request, what): scalar64_chainmul returns the zero triple although k.P is a regular point
DEGENERATE = [
    ("ed_chainmul 1000000007 false 5 1 0 1 3", "P = (1,0,1) has order 4"),
    ("ed_chainmul 1000000007 false 5 0 1 1 3", "P = neutral element: addext(O, O) = 0"),
    ("ed_chainmul 10007 true 2144 4215 9490 3786 3809", "P of order 1269, chain [1,8,7,6,7]: prefix m = 1904 has 2m = 1 mod 1269"),
    ("ed_chainmul 10007 false 2750 178 7677 7955 1895", "P of order 132"),
    ("ed128_chainmul 10007 4215 9490 3786 3809", "same point through ecm128 scalar64_mul"),
]


def listed_findings():
    import json, os
    try:
        data = json.load(open(os.path.join(os.path.dirname(os.path.dirname(os.path.abspath(__file__))), "known_findings.json")))
        return {e["key"] for e in data.get("findings", []) if e.get("property") == PID}
    except Exception:
        return set()


def ftag(factors):
    return "f=" + ",".join(map(str, factors))


def _fork(rng, label):
    """own stream for the boundary family: depends on the run's seed, leaves the stream of the older families untouched"""
    return random.Random(f"{label}:{rng.getstate()[1][:4]}")


def boundary_moduli(rng):
    """(n, prime factors): the first values of every word class (top word 1), which `modulus` never produces, and the
    primes next to the word boundaries on both sides"""
    out = []
    for bits in (65, 129, 193, 257, 321, 385, 449):
        p = gen.rand_prime(rng, bits)
        out.append((p, [p]))
    for b1, b2 in ((32, 33), (64, 65)):                     # composite, prime factors >= 2^31: 65, 129 bits
        while True:
            p, q = gen.rand_prime(rng, b1), gen.rand_prime(rng, b2)
            if (p * q).bit_length() == b1 + b2:
                break
        out.append((p * q, [p, q]))
    for e in (64, 128, 256, 448):
        p = gen.next_prime(1 << e)                           # 2^e + small: low words almost empty
        out.append((p, [p]))
    for e in (64, 128, 256, 448, 500):
        p = gen.prev_prime(1 << e)                           # 2^e - small: every word 2^64 - 1 except the lowest
        out.append((p, [p]))
    return out


def boundary_cases(rng, tier):
    """size audit: the ops of the main loop on the moduli of `boundary_moduli`; SmoothBase around its 65536 switch"""
    M = (1 << 1024) - 1
    for b1, lg in ((65535, 0), (65535, 1), (65536, 0), (65536, 1), (65537, 0), (65537, 1), (100000, 1), (200000, 1), (1500000, 1)):
        yield Case(f"smoothbase {b1} {'true' if lg else 'false'}", k=False)
    smooth64 = smoothbase(60000, False)[0]
    large = smoothbase(60000, True)[1]
    for i, (n, fs) in enumerate(boundary_moduli(rng)):
        ft = ftag(fs)
        small = n.bit_length() <= 128
        ks = [W - 1, rng.choice([0x9111111111111111, (1 << 63) + 1, rng.getrandbits(64) | 1 << 63]), rng.choice(smooth64)]
        for a in (1, -1):
            tw = "true" if a == -1 else "false"
            d, P = curve_point(rng, n, a)
            Q = ed_mul(n, a, d, rng.randrange(2, 1000), P)
            lam = rng.randrange(1, n)
            Q = tuple(c * lam % n for c in Q)
            yield Case(f"ed_ops {n} {tw} {d} {fmt(*P)} {fmt(*Q)}", tag=ft)
            yield Case(f"ed_ops {n} {tw} {d} {fmt(*P)} {fmt(*P)}", tag=ft)
            yield Case(f"ed_ops {n} {tw} {d} {fmt(*Q)} {fmt((-P[0]) % n, P[1], P[2])}", tag=ft)
            # coordinates next to the modulus and next to the word boundaries (K only)
            edge = [n - 1, n - 2, (1 << 64) % n, ((1 << 64) - 1) % n, (n >> 1) + 1, 1]
            yield Case(f"ed_ops {n} {tw} {rng.randrange(n)} {fmt(*edge)}", o=False)
            for k in ks:
                yield Case(f"ed_chainmul {n} {tw} {d} {fmt(*P)} {k}", tag=ft)
            if (i % 2 == 0) == (a == 1):     # the 1024-bit reference multiplication is the slow part of the oracle: one per modulus
                k = (M, rng.getrandbits(1024) | 1 << 1023, rng.choice(large))[i // 2 % 3]
                yield Case(f"ed_chainmul1024 {n} {tw} {d} {fmt(*P)} {k}", tag=ft)
        if small:
            d, P = curve_point(rng, n, -1)
            Q = ed_mul(n, -1, d, rng.randrange(2, 1000), P)
            yield Case(f"ed128_ops {n} {fmt(*P)} {fmt(*Q)}", tag=ft)
            yield Case(f"ed128_ops {n} {fmt(*P)} {fmt(*P)}", tag=ft)
            yield Case(f"ed128_ops {n} {fmt(n - 1, n - 2, (1 << 64) % n, ((1 << 64) - 1) % n, (n >> 1) + 1, 1)}", o=False)
            for k in ks + [1, 0]:
                yield Case(f"ed128_chainmul {n} {fmt(*P)} {k}", tag=ft)
            for seed in (2, 5, rng.randrange(2, 1 << 16)):
                yield Case(f"ecm128_mul {n} {seed} {rng.choice(ks)},{rng.choice(smooth64)}", k=False, tag=ft)
        for fam in ("s", "e"):
            for seed in (2, rng.randrange(2, 1 << 32)):
                yield Case(f"ecm_mul {n} {fam} {seed} {rng.choice(ks)},{rng.choice(smooth64)}", k=False, tag=ft)
            if (i + (fam == "e")) % 2 == 0:
                yield Case(f"ecm_mul1024 {n} {fam} {rng.randrange(2, 1 << 20)} {rng.choice(large)}", k=False, tag=ft)
        for seed in (2, rng.randrange(2, 1 << 32)):
            yield Case(f"suyama {n} {seed}")
        yield Case(f"suyama_ops {n} {n - 1} {(1 << 64) % n} {(n >> 1) + 1}", o=False)


# ------------------------------------------------------------------ curve constructors: reference and boundary seeds

FINDING_FROM_POINT = "from-point-zero-coordinate-truncated-factor"


def _inv(x, n):
    try:
        return pow(x, -1, n)
    except ValueError:
        return None


def su_consts(n):
    t = pow(3, -1, n)
    return (-361 * t) % n, 10582 * t ** 3 % n, (12 - t) % n, 24 % n


def su_double(n, A, P):
    x, y, z = P
    w = (A * z * z + 3 * x * x) % n
    s = 2 * y * z % n
    r = y * s % n
    b = 2 * x * r % n
    h = (w * w - 2 * b) % n
    return (h * s % n, (w * (b - h) - 2 * r * r) % n, s * s * s % n)


def su_add_g(n, gx, gy, P):
    x, y, z = P
    u, v = (gy * z - y) % n, (gx * z - x) % n
    r = v * v * x % n
    aa = (u * u * z - v ** 3 - 2 * r) % n
    return (v * aa % n, (u * (r - aa) - v ** 3 * y) % n, v ** 3 * z % n)


def ref_element(n, seed):
    """what Suyama11::element returns: ('ok', P) | ('err', f)   (stage tags for `klass`)"""
    A, B, gx, gy = su_consts(n)
    res = (gx, gy, 1 % n)
    for bit in range(seed.bit_length() - 2, -1, -1):
        r2 = su_double(n, A, res)
        if r2[2] == 0:
            d = math.gcd(n, res[2])
            if d != 1 and d != n:
                return ("err", d)
            d = math.gcd(n, res[1])
            if d != 1:
                return ("err", d)
        res = r2
        if (seed >> bit) & 1:
            res = su_add_g(n, gx, gy, res)
    return ("ok", res)


def ref_suyama_curve(n, seed):
    """element -> params_point -> twisted_from_point: ('ok', d, G) | ('err', f, stage)"""
    e = ref_element(n, seed)
    if e[0] == "err":
        return ("err", e[1], "element")
    x, y, z = e[1]
    u = (3 * x + z) % n
    i2 = _inv(u * u % n, n)
    if i2 is None:
        return ("err", math.gcd(n, u), "params")
    s = (72 * z * u * i2 - 1) % n
    r = y * z * 432 * i2 % n
    al, be = (s * s - 5) % n, 4 * s % n
    xn, xd = 2 * r * s % n, (s - 1) * (s + 5) * (s * s + 5) % n
    yn, yd = (al ** 3 - be ** 3) % n, (al ** 3 + be ** 3) % n
    G = (xn * yd % n, yn * xd % n, xd * yd % n)
    dd = G[0] ** 2 * G[1] ** 2 % n
    i = _inv(dd, n)
    if i is None:
        return ("err", math.gcd(n, dd), "twisted")
    return ("ok", G[2] ** 2 * (G[1] ** 2 - G[0] ** 2 - G[2] ** 2) * i % n, G)


def ref_from_point(n, x, y):
    """('ok', d, G) | ('err', f): f is the gcd truncated to 64 bits, as fraction_modn reports it"""
    if _inv(1 % n, n) is None:
        return ("err", math.gcd(n, 1 % n) % W)
    i = _inv(x * y % n, n)
    if i is None:
        return ("err", math.gcd(n, x * y % n) % W)
    return ("ok", (x * x + y * y - 1) * i * i % n, (x % n, y % n, 1 % n))


def ref_seeds(n, curves):
    m0, seed, out = 2 * curves + 1, n % W, []
    wide = curves >= 100 or n.bit_length() >= 32
    for _ in range(curves):
        seed = seed * m0 % W
        out.append(max(2, seed % (1 << 32) if wide else seed % (1 << 16)))
    return out


def ref_ecm_select(n, curves):
    """outcome of ecm::ecm as far as the curve construction decides it: 'p q' | 'none' | None (a curve is run)"""
    if n % 3 == 0:
        return "panic"
    for seed in ref_seeds(n, curves):
        c = ref_suyama_curve(n, seed)
        if c[0] == "err" and c[1] == n:
            s = seed % (1 << 24)
            c = ref_from_point(n, 3 * s + 5, 4 * s + 5)
        if c[0] == "ok":
            return None
        if c[1] != n:
            return f"{c[1]} {n // c[1]}"
    return "none"


def ref_ecm128_select(n, curves):
    if n % 3 == 0:
        return "panic"
    for seed in range(1, curves + 1):
        c = ref_suyama_curve(n, seed + 1)
        if c[0] == "ok" or c[2] == "twisted":
            return None
        if c[1] < n:
            return f"{c[1]} {n // c[1]}"
    return "none"


SMALL_P = [p for p in small_primes(700) if p > 3]


def vanishing(seed_max=40):
    """(p, seed, stage): small primes modulo which the construction from [seed]G meets a vanishing denominator"""
    out = []
    for p in SMALL_P:
        for seed in list(range(2, seed_max)) + [255, 256, 65535, 65536, (1 << 32) - 1, 1 << 31]:
            c = ref_suyama_curve(p, seed)
            if c[0] == "err":
                out.append((p, seed, c[2]))
    return out


def constructor_cases(rng, tier):
    """K + O on the curve constructors; boundary seeds = a denominator vanishes modulo one prime factor (the gcd must be
    reported, not a curve), modulo all of them (the code reports n: fallback curve), modulo none"""
    q = tier == "quick"
    judged = FINDING_FROM_POINT in listed_findings()
    van = vanishing()
    by_seed = {}
    for p, seed, st in van:
        by_seed.setdefault(seed, []).append(p)
    rng.shuffle(van)
    stages = {}
    for p, seed, st in van:
        if stages.get(st, 0) >= (25 if q else 200):
            continue
        stages[st] = stages.get(st, 0) + 1
        for bits in (rng.choice([31, 40, 60]), rng.choice([64, 65, 100, 127]), rng.choice([129, 200, 449])):
            n = p * gen.rand_prime(rng, bits)
            if n % 3 == 0:
                continue
            yield Case(f"suyama {n} {seed}", tag="van")
            yield Case(f"curve_build release {n} s {seed}", tag="van")
        others = [r for r in by_seed[seed] if r != p]
        if others:                                     # the same seed fails modulo both prime factors
            n = p * rng.choice(others)
            yield Case(f"suyama {n} {seed}", tag="van")
            yield Case(f"curve_build release {n} s {seed}", tag="van")
        yield Case(f"suyama {p * p} {seed}", tag="van")
    # generic moduli, extreme seeds
    for i in range(12 if q else 120):
        n, fs = modulus(rng, 1 + i % 8, composite=i % 2 == 1)
        if n % 3 == 0:
            continue
        for seed in (2, 3, 4, (1 << 31), (1 << 32) - 1, rng.randrange(2, 1 << 32), rng.randrange(2, 1 << 16)):
            yield Case(f"suyama {n} {seed}", tag=ftag(fs))
            yield Case(f"curve_build release {n} s {seed}", tag=ftag(fs))
            yield Case(f"curve_build release {n} e {seed}", tag=ftag(fs))
        x, y = rng.randrange(1, 1 << 31), rng.randrange(1, 1 << 31)
        yield Case(f"from_point release {n} {x} {y}")
        yield Case(f"from_point release {n} {(1 << 31) - 1} {(1 << 31) - 1}")
        # panic sites: the 2^31 assertion, u64 underflow of x*x + y*y - 1 (checked profile only)
        yield Case(f"from_point release {n} {1 << 31} 1", o=False, profiles=["release"])
        yield Case(f"from_point chk {n} 1 {1 << 31}", o=False, profiles=["chk"])
        yield Case(f"from_point chk {n} 0 0", o=False, profiles=["chk"])
        # a zero coordinate: x*y = 0 is not invertible, the reported "factor" is the low word of n (finding)
        for x, y in ((0, 5), (7, 0), (0, 0)):
            yield Case(f"from_point release {n} {x} {y}", o=judged or n < W, profiles=["release"], tag="zero-coordinate")
        # a coordinate that shares a factor with n
        p = fs[0]
        if p < 1 << 31:
            yield Case(f"from_point release {n} {p} 3")
    for n in (5, 7, 11, 13, 25, 35, 49, 55, 77, 91, 121, 125, 143, 1001, 10007, 311 * 3259, 3011 * 3259, 311 * 311, 311 * 3011):
        for seed in (2, 3, 5, 7, 10, 14, 15, 31):
            yield Case(f"suyama {n} {seed}", tag="van")
            yield Case(f"curve_build release {n} s {seed}", tag="van")
            yield Case(f"curve_build release {n} e {seed}", tag="van")
    # the real entry points ecm::ecm / ecm128::ecm, compared with the model on the inputs where the curve construction alone
    # decides the outcome (an unexpected factor, or every seed given up); elsewhere the outcome depends on ecm_curve (O only)
    cnt = {"k": 0, "o": 0}
    tiny = [5, 7, 11, 13, 25, 35, 49, 55, 65, 77, 85, 91, 95, 115, 119, 121, 125, 133, 143, 169, 1001]
    cand = [(n, c) for n in tiny for c in (1, 2, 3, 5)]
    for _ in range(400 if q else 4000):
        p = rng.choice([5, 7, 11, 13, 17, 19, 23, 29, 31, 37, 41, 311, 3011, 3259])
        cand.append((p * gen.rand_prime(rng, rng.choice([8, 12, 16, 20, 24, 33, 40])), rng.choice([1, 1, 2, 3])))
    for n, c in cand:
        if n % 3 == 0 or n % 2 == 0:
            continue
        r = ref_ecm_select(n, c)
        lim = 60 if q else 600
        if r is not None and cnt["k"] < lim:
            cnt["k"] += 1
            yield Case(f"ecm_select release {n} {c}", tag="sel")
        elif r is None and cnt["o"] < 10:
            cnt["o"] += 1
            yield Case(f"ecm_select release {n} {c}", k=False, tag="sel")
        if n.bit_length() <= 128:
            r = ref_ecm128_select(n, c)
            if r is not None and cnt.get("k128", 0) < lim:
                cnt["k128"] = cnt.get("k128", 0) + 1
                yield Case(f"ecm128_select {n} {c}", tag="sel")
    # ecm128::Curve::from: two-word twisted curves are taken over residue by residue, everything else panics
    for bits, tw in ((65, True), (100, True), (127, True), (128, True), (128, False), (64, True), (40, True), (129, True), (192, True)):
        n = gen.rand_prime(rng, bits)
        d, P = curve_point(rng, n, -1 if tw else 1)
        ok = tw and 64 < bits <= 128
        yield Case(f"curve128_from {n} {'true' if tw else 'false'} {d} {fmt(*P)}", o=ok)
        if ok:
            yield Case(f"curve128_from {n} true {n - 1} {fmt(n - 1, (1 << 64) % n, ((1 << 64) - 1) % n)}")


def cases(tier, rng, extended=False):
    yield from boundary_cases(_fork(rng, "C15-boundary"), tier)
    yield from constructor_cases(_fork(rng, "C15-constructors"), tier)
    q = tier == "quick"
    mul = 10 if extended else 1
    # --- chain builders (K + O)
    yield from (Case(f"chain64 {k}", tag="chain") for k in range(0, 4097))
    for k in scalars64(rng, (3000 if q else 200000) * mul):
        yield Case(f"chain64 {k}", tag="chain")
    yield Case("chain1024 0", o=False, profiles=["chk"])
    for k in scalars1024(rng, (1200 if q else 60000) * mul):
        if k:
            yield Case(f"chain1024 {k}", tag="chain")
    # --- SmoothBase blocks as the code builds them
    for b1, lg in ((16, 0), (200, 0), (200, 1), (5000, 0), (5000, 1), (60000, 1)):
        yield Case(f"smoothbase {b1} {'true' if lg else 'false'}", k=False)
    # --- documented incompleteness of the dedicated extended addition: compared with the model (K);
    #     judged by the oracle (and reported as KNOWN-FINDING) once the finding is listed
    judged = FINDING_DEGENERATE in listed_findings()
    for line, _ in DEGENERATE:
        yield Case(line, o=judged, tag="degenerate")
    # structured scalars (all of them: 33-opcode scalars, SmoothBase blocks for every B1, ..) plus random ones
    ks64 = scalars64(rng, 1500)
    ks1024 = scalars1024(rng, 300)
    smooth64 = [k for b1 in (5000, 60000) for lg in (False, True) for k in smoothbase(b1, lg)[0]]
    nmod = (36 if q else 400) * mul
    for i in range(nmod):
        words = 1 + i % 8
        n, fs = modulus(rng, words, composite=(i // 8) % 2 == 1)
        ft = ftag(fs)
        for a in (1, -1):
            tw = "true" if a == -1 else "false"
            d, P = curve_point(rng, n, a)
            Q = ed_mul(n, a, d, rng.randrange(2, 1000), P)
            lam = rng.randrange(1, n)
            Q = tuple(c * lam % n for c in Q)
            # formulas on curve points (K + O), P = Q and P = -Q included
            yield Case(f"ed_ops {n} {tw} {d} {fmt(*P)} {fmt(*Q)}", tag=ft)
            yield Case(f"ed_ops {n} {tw} {d} {fmt(*P)} {fmt(*P)}", tag=ft)
            yield Case(f"ed_ops {n} {tw} {d} {fmt(*Q)} {fmt((-P[0]) % n, P[1], P[2])}", tag=ft)
            yield Case(f"ed_ops {n} {tw} {d} {fmt(*Q)} 0 1 1", tag=ft)
            # arbitrary coordinates (K only: the formulas are polynomial maps)
            yield Case(f"ed_ops {n} {tw} {rng.randrange(n)} {fmt(*[gen.residue(rng, n) for _ in range(6)])}", o=False)
            for k in [rng.choice(ks64) for _ in range(3)] + [rng.choice(smooth64), 0, 1,
                                                             rng.choice([W - 1, W - 3, 0x9111111111111111])]:
                yield Case(f"ed_chainmul {n} {tw} {d} {fmt(*P)} {k}", tag=ft)
            yield Case(f"ed_chainmul1024 {n} {tw} {d} {fmt(*P)} {rng.choice(ks1024)}", tag=ft)
        if words <= 2:
            d, P = curve_point(rng, n, -1)
            Q = ed_mul(n, -1, d, rng.randrange(2, 1000), P)
            yield Case(f"ed128_ops {n} {fmt(*P)} {fmt(*Q)}", tag=ft)
            yield Case(f"ed128_ops {n} {fmt(*[gen.residue(rng, n) for _ in range(6)])}", o=False)
            for k in [rng.choice(ks64) for _ in range(3)] + [rng.choice(smooth64), 1, W - 1, 0x9111111111111111]:
                yield Case(f"ed128_chainmul {n} {fmt(*P)} {k}", tag=ft)
            yield Case(f"ed128_chainmul {n} {fmt(*P)} 0", tag=ft)
        # --- curves as ecm() builds them (O only)
        for fam in ("s", "e"):
            for seed in (2, 3, rng.randrange(2, 1 << 16), rng.randrange(2, 1 << 32)):
                ks = [rng.choice(ks64 + smooth64) for _ in range(rng.choice([1, 1, 2, 3]))]
                if len(ks) > 1:          # k = 0 gives the neutral element, on which the next chainmul degenerates
                    ks = [k or 1 for k in ks]
                yield Case(f"ecm_mul {n} {fam} {seed} {','.join(map(str, ks))}", k=False, tag=ft)
            yield Case(f"ecm_mul1024 {n} {fam} {rng.randrange(2, 1 << 20)} {rng.choice(ks1024)}", k=False, tag=ft)
        if words <= 2:
            for seed in (2, 5, rng.randrange(2, 1 << 16)):
                yield Case(f"ecm128_mul {n} {seed} {rng.choice(ks64) or 1},{rng.choice(ks64 + smooth64) or 1}", k=False, tag=ft)
        for seed in (2, 3, 4, 7, rng.randrange(2, 1 << 32)):
            yield Case(f"suyama {n} {seed}")
        x, y, z = [gen.residue(rng, n) for _ in range(3)]
        yield Case(f"suyama_ops {n} {x} {y} {z}", o=False)
    # small moduli: curve construction hits its error paths (factor found while building the curve); points of
    # small order are unavoidable there, so only the weak checks apply (tag "weak": reported factor divides n,
    # generator and results on the curve)
    for n in (5, 7, 11, 35, 55, 77, 91, 1001, 10007, 10583, 10589 * 10597, 3011 * 3259, 311 * 3259, 8596409 * 2621197441,
              65537 * 65539, 1000003 * 1000033):
        for seed in (2, 3, 5, 31):
            yield Case(f"suyama {n} {seed}")
            yield Case(f"ecm_mul {n} s {seed} 12", k=False, tag="weak")
            yield Case(f"ecm_mul {n} e {seed} 12", k=False, tag="weak")


# ------------------------------------------------------------------ oracle

def ints(s):
    return [int(x) for x in s.split()]


def check_chain(ans, k, maxlen, m):
    if ans == "panic":
        return "builder panicked"
    l, body = ans.split(" ")
    c = [] if body == "-" else [int(x) for x in body.split(",")]
    if len(c) != int(l) or not (1 <= len(c) <= maxlen):
        return f"chain length {l}"
    if not (c[-1] % 2 == 1 and 1 <= c[-1] <= m):
        return f"initial opcode {c[-1]}"
    for op in c[:-1]:
        if not ((op % 2 == 1 and -m <= op <= m) or (op % 2 == 0 and 2 <= op <= 126)):
            return f"opcode {op} out of range"
    if eval_chain(c) != k:
        return f"chain evaluates to {eval_chain(c)}"
    return None


def known_factors(case, n):
    """prime factors of the modulus when the generator recorded them (tag f=..) or n is itself prime"""
    if case.tag and case.tag.startswith("f="):
        return [int(x) for x in case.tag[2:].split(",")]
    if gen.is_prime(n):
        return [n]
    return None


def same_point(n, fs, R, ref):
    """R must be a NON-ZERO triple projectively equal to the reference modulo every known prime factor
    (the zero triple would pass every cross-product test). A prime where the reference itself is
    degenerate (exceptional point of the reference law: Z = 0) is skipped."""
    for p in (fs or [n]):
        if ref[2] % p == 0:
            continue
        if not nonzero(p, R):
            return "zero triple modulo a prime factor of the modulus"
        if not proj_eq(p, R, ref):
            return "differs from the reference point"
    return None


def oracle(case, ans):
    op, a = case.op, case.args
    if ans in ("panic", "hang", "abort", "?"):
        return f"no value returned ({ans})"
    if op == "chain64":
        k = int(a[0])
        if k == 0:
            return None if ans == "1 0" else "k = 0 must give the chain [0]"
        return check_chain(ans, k, 33, 7)
    if op == "chain1024":
        return check_chain(ans, int(a[0]), 294, 63)
    if op == "smoothbase":
        f, l = smoothbase(int(a[0]), a[1] == "true")
        exp = f"{','.join(map(str, f)) or '-'} ; {','.join(map(str, l)) or '-'}"
        return None if ans == exp else "SmoothBase blocks differ from the reference construction"
    if op in ("ecm_mul", "ecm_mul1024", "ecm128_mul"):
        n = int(a[0])
        if ans.startswith("err "):
            f = int(ans.split()[1])
            return None if f > 1 and n % f == 0 else f"reported factor {f} does not divide n"
        g = [ints(x) for x in ans.split(" ; ")]
        aa, d, G = g[0][0], g[0][1], tuple(g[0][2:5])
        if not on_curve(n, aa, d, G) or not nonzero(n, G):
            return "generator is not on the curve the constructor returned"
        ks = [int(x) for x in a[-1].split(",")]
        fs = known_factors(case, n)
        ref = ed_mul(n, aa, d, math.prod(ks), G)
        for R in g[1:]:
            R = tuple(R)
            if not on_curve(n, aa, d, R):
                return "result is not on the curve"
            if case.tag == "weak":
                continue
            msg = same_point(n, fs, R, ref)
            if msg:
                return "scalar multiple: " + msg + " (double-and-add with the Edwards addition law)"
        return None
    if op in ("ed_chainmul", "ed_chainmul1024"):
        n, tw, d = int(a[0]), a[1] == "true", int(a[2])
        aa = -1 if tw else 1
        P = tuple(int(x) for x in a[3:6])
        if not on_curve(n, aa, d, P):
            return None
        ref = ed_mul(n, aa, d, int(a[6]), P)
        fs = known_factors(case, n)
        for R in ans.split(" ; "):
            R = tuple(ints(R))
            if not on_curve(n, aa, d, R):
                return "scalar multiple is not on the curve"
            msg = same_point(n, fs, R, ref)
            if msg:
                return "scalar multiple: " + msg + " (double-and-add with the Edwards addition law)"
        return None
    if op == "ed128_chainmul":
        n = int(a[0])
        P = tuple(int(x) for x in a[1:4])
        k = int(a[4])
        if math.gcd(P[0] * P[1], n) != 1:
            return None
        d = (-P[0] ** 2 * P[2] ** 2 + P[1] ** 2 * P[2] ** 2 - P[2] ** 4) * pow(P[0] ** 2 * P[1] ** 2, -1, n) % n
        R = tuple(ints(ans))
        if not on_curve(n, -1, d, R):
            return "ecm128 scalar multiple is not on the curve"
        msg = same_point(n, known_factors(case, n), R, ed_mul(n, -1, d, k, P))
        return None if not msg else "ecm128 scalar multiple: " + msg + " (double-and-add with the Edwards addition law)"
    if op == "ed_ops":
        n, tw, d = int(a[0]), a[1] == "true", int(a[2])
        aa = -1 if tw else 1
        P, Q = tuple(int(x) for x in a[3:6]), tuple(int(x) for x in a[6:9])
        g = ans.split(" ; ")
        vp, vq = g[7].split()
        if (vp == "true") != on_curve(n, aa, d, P) or (vq == "true") != on_curve(n, aa, d, Q):
            return "is_valid disagrees with the curve equation"
        if not (on_curve(n, aa, d, P) and on_curve(n, aa, d, Q)):
            return None
        S, D2 = ed_add(n, aa, d, P, Q), ed_add(n, aa, d, P, P)
        negQ = ((-Q[0]) % n, Q[1], Q[2])
        Dm = ed_add(n, aa, d, P, negQ)
        fs = known_factors(case, n)
        add, dbl, dblext, pext, addext, addextproj, subextproj = [tuple(ints(x)) for x in g[:7]]
        # the dedicated extended addition returns the zero quadruple on equal arguments (documented in the source):
        # non-zero is demanded only modulo the primes where the two arguments differ
        fs_add = [p for p in (fs or [n]) if not proj_eq(p, P, Q)]
        fs_sub = [p for p in (fs or [n]) if not proj_eq(p, P, negQ)]
        for nm, R, ref, ff in (("add", add, S, fs), ("double", dbl, D2, fs), ("dblext", dblext[:3], D2, fs),
                               ("to_extended", pext[:3], P, fs), ("addext", addext[:3], S, fs_add),
                               ("addextproj", addextproj, S, fs_add), ("subextproj", subextproj, Dm, fs_sub)):
            if not on_curve(n, aa, d, R) or not proj_eq(n, R, ref):
                return f"{nm} differs from the Edwards addition law"
            msg = same_point(n, ff, R, ref) if ff != [] else None
            if msg:
                return f"{nm}: {msg}"
        for nm, R in (("dblext", dblext), ("to_extended", pext), ("addext", addext)):
            if (R[3] * R[2] - R[0] * R[1]) % n:
                return f"{nm}: T Z != X Y"
        return None
    if op == "ed128_ops":
        n = int(a[0])
        P, Q = tuple(int(x) for x in a[1:4]), tuple(int(x) for x in a[4:7])
        if math.gcd(P[0] * P[1], n) != 1:
            return None
        d = (-P[0] ** 2 * P[2] ** 2 + P[1] ** 2 * P[2] ** 2 - P[2] ** 4) * pow(P[0] ** 2 * P[1] ** 2, -1, n) % n
        g = ans.split(" ; ")
        if g[5] != f"true {'true' if on_curve(n, -1, d, Q) else 'false'}":
            return "ecm128 is_valid disagrees with the curve equation"
        if not on_curve(n, -1, d, Q):
            return None
        S, D2 = ed_add(n, -1, d, P, Q), ed_add(n, -1, d, P, P)
        add, dbladd, dbl, dblext, pext = [tuple(ints(x)) for x in g[:5]]
        fs = known_factors(case, n)
        fs_add = [p for p in (fs or [n]) if not proj_eq(p, P, Q)]
        fs_dba = [p for p in (fs or [n]) if not proj_eq(p, D2, Q)]
        for nm, R, ref, ff in (("add", add[:3], S, fs_add), ("dbladd", dbladd, ed_add(n, -1, d, D2, Q), fs_dba),
                               ("double", dbl, D2, fs), ("dblext", dblext[:3], D2, fs), ("ext", pext[:3], P, fs)):
            if not on_curve(n, -1, d, R) or not proj_eq(n, R, ref):
                return f"ecm128 {nm} differs from the Edwards addition law"
            msg = same_point(n, ff, R, ref) if ff != [] else None
            if msg:
                return f"ecm128 {nm}: {msg}"
        for nm, R in (("add", add), ("dblext", dblext), ("ext", pext)):
            if (R[3] * R[2] - R[0] * R[1]) % n:
                return f"ecm128 {nm}: T Z != X Y"
        return None
    if op in ("curve_build", "from_point"):
        n = int(a[1])
        if ans.startswith("err "):
            f = int(ans.split()[1])
            if op == "curve_build" and a[2] == "s" and f == 3 and n % 3 == 0:
                return None
            return None if f > 1 and n % f == 0 else f"reported factor {f} is not a divisor > 1 of n"
        v = ints(ans)
        aa, d, G = v[0], v[1], tuple(v[2:5])
        if not on_curve(n, aa, d, G) or not nonzero(n, G):
            return "generator is not on the curve the constructor returned"
        if op == "curve_build" and a[2] == "s":
            ref = ref_suyama_curve(n, int(a[3]))
            if aa != -1 or ref[0] != "ok" or (ref[1], ref[2]) != (d, G):
                return "Suyama-11 curve differs from the reference construction"
            return None
        if op == "curve_build":
            sd = int(a[3]) % (1 << 24)
            x, y = 3 * sd + 5, 4 * sd + 5
        else:
            x, y = int(a[2]), int(a[3])
        if aa != 1 or G != (x % n, y % n, 1 % n) or (d * x * x * y * y - (x * x + y * y - 1)) % n:
            return "curve through (x, y): d (x y)^2 != x^2 + y^2 - 1 or wrong generator"
        if math.gcd(x * y, n) != 1:
            return "a curve was returned although x y is not invertible"
        return None
    if op in ("ecm_select", "ecm128_select"):
        n = int(a[-2])
        if ans == "none":
            return None
        pq = ints(ans)
        return None if len(pq) == 2 and pq[0] * pq[1] == n and 1 < pq[0] < n else "returned pair is not a proper factorisation of n"
    if op == "curve128_from":
        return None if ans == " ".join(a[3:6]) else "ecm128::Curve::from changed the generator's residues"
    if op == "suyama":
        n, seed = int(a[0]), int(a[1])
        if ans.startswith("err "):
            return None if ans == "err 3" and n % 3 == 0 else "unexpected constructor failure"
        g = ans.split(" ; ")
        A, B, gx, gy = ints(g[0])
        if (3 * A + 361) % n or (27 * B - 10582) % n or (3 * gx - 35) % n or (gy - 24) % n:
            return "Suyama constants"
        if g[1].startswith("err "):
            f = int(g[1].split()[1])
            return None if f > 1 and n % f == 0 else "reported factor does not divide n"
        x, y, z, valid = g[1].split()
        E = (int(x), int(y), int(z))
        on_w = (E[1] ** 2 * E[2] - E[0] ** 3 - A * E[0] * E[2] ** 2 - B * E[2] ** 3) % n == 0
        if not on_w or valid != "true":
            return "[seed]G is not on the parameter curve"
        if not proj_eq(n, E, w_mul(n, A, seed, (gx, gy, 1))):
            return "[seed]G differs from the chord-tangent computation"
        if g[2].startswith("err "):
            f = int(g[2].split()[1])
            return None if f > 1 and n % f == 0 else "reported factor does not divide n"
        s, r = ints(g[2])
        u = (3 * E[0] + E[2]) % n
        if ((s + 1) * u - 72 * E[2]) % n or (r * u * u - 432 * E[1] * E[2]) % n:
            return "(sigma, r) do not satisfy sigma = 72z/(3x+z) - 1, r = 432yz/(3x+z)^2"
        al, be = (s * s - 5) % n, 4 * s % n
        xn, xd = 2 * r * s % n, (s - 1) * (s + 5) * (s * s + 5) % n
        yn, yd = (al ** 3 - be ** 3) % n, (al ** 3 + be ** 3) % n
        Gp = tuple(ints(g[3]))
        if not proj_eq(n, Gp, (xn * yd % n, yn * xd % n, xd * yd % n)) or Gp != (xn * yd % n, yn * xd % n, xd * yd % n):
            return "Edwards generator differs from the Suyama parametrisation"
        if g[4].startswith("err "):
            f = int(g[4].split()[1])
            return None if f > 1 and n % f == 0 else "reported factor does not divide n"
        return None if on_curve(n, -1, int(g[4]), Gp) else "generator is not on the curve with the computed d"
    return None


K_OPS = {"chain64", "chain1024", "ed_ops", "ed128_ops", "suyama_ops", "ed_chainmul", "ed_chainmul1024", "ed128_chainmul", "suyama",
         "curve_build", "from_point", "curve128_from"}


def corpus_case(line):
    """corpus lines: ops the Lean driver models are compared (K), every line is judged by the oracle"""
    op = line.split(" ", 1)[0]
    k = op in K_OPS
    if op == "ecm_select":          # the model of ecm()'s selection agrees exactly when the construction decides the outcome
        a = line.split()
        k = ref_ecm_select(int(a[2]), int(a[3])) is not None
    return Case(line, k=k)


def klass(case, ans):
    op = case.op
    if ans in ("panic", "hang", "abort", "?"):
        return f"{op}/{ans}"
    if op in ("chain64", "chain1024"):
        l, body = ans.split(" ")
        c = [] if body == "-" else [int(x) for x in body.split(",")]
        neg = "neg" if any(x < 0 for x in c) else "pos"
        return f"{op}/len{'<=' if int(l) <= (8 if op == 'chain64' else 64) else '>'}{8 if op == 'chain64' else 64}/{neg}" + (
            "/len33" if op == "chain64" and l == "33" else "")
    if op == "suyama" and " ; err" in ans:
        return f"suyama/err@{('element', 'params', '?', 'twisted')[ans.count(' ; ') - 1]}" + ("=n" if ans.endswith(" " + case.args[0]) else "")
    if op in ("curve_build", "from_point"):
        n = int(case.args[1])
        kind = "ok" if not ans.startswith("err") else "err=n" if int(ans.split()[1]) == n else "err"
        return f"{op}/{case.args[2] if op == 'curve_build' else case.tag or 'xy'}/{kind}"
    if op in ("ecm_select", "ecm128_select"):
        return f"{op}/{'none' if ans == 'none' else 'factor'}/{'K' if case.k else 'O'}"
    if ans.startswith("err"):
        return f"{op}/err"
    if op in ("ecm_mul", "ecm_mul1024"):
        return f"{op}/{case.args[1]}/words{(int(case.args[0]).bit_length() + 63) // 64}"
    if op in ("ed_ops", "ed_chainmul", "ed_chainmul1024"):
        return f"{op}/a={'-1' if case.args[1] == 'true' else '+1'}"
    return op


def finding_key(case, ans, profile):
    if case.op == "from_point" and case.tag == "zero-coordinate":
        return FINDING_FROM_POINT
    if case.tag == "degenerate" or any(case.line == l for l, _ in DEGENERATE):
        return FINDING_DEGENERATE
    return None


def nontrivial(case, ans):
    if case.op == "chain64":
        return int(case.args[0]) > 7
    return True


CLAIM = ("Lean theorems: the 64-bit and the 1024-bit addition-chain builders are total on their non-zero scalars (no overflow or "
         "underflow, no index out of the 33- resp. 384-entry buffer; at most 33 resp. 294 opcodes), their chains denote the "
         "scalar and are well-formed; the chain interpreters of scalar64_chainmul / scalar1024_chainmul / ecm128 scalar64_mul "
         "compute k.P in every commutative group, hence equal double-and-add there; curve formulas translated from the source "
         "satisfy closure identities and agreement identities (linear_combination certificates) over every commutative ring. "
         "Scope of the agreement statements: they are the cross-product equalities of `projective_equal`, which the zero "
         "triple satisfies trivially; they are informative only where both triples are non-zero modulo every prime factor. "
         "The dedicated extended addition is NOT complete (theorem addext_self_zero: equal arguments give the zero "
         "quadruple), so the real scalar64_chainmul/scalar1024_chainmul/ecm128 scalar64_mul return (0,0,0) instead of k.P "
         "whenever a double-add step meets 2Q = +-iP modulo a prime factor (P of order 1, 2, 4, or a chain prefix m with "
         "2m = +-i mod ord P): there chain multiplication and double-and-add do NOT agree as points (listed finding, "
         "witnesses in props/c15.py DEGENERATE and theorem chainmul_degenerate_witness); the group-level theorems do not "
         "cover that, they assume a total group law. Models are tied to the code by the translator (formulas, buffer "
         "sizes) and by differential runs (chains, every formula and the full scalar multiplications over Z/n, both "
         "profiles); a Python oracle with an independent Edwards/Weierstrass group law judges every implementation answer "
         "and demands a non-zero triple equal to the reference modulo every known prime factor of the modulus.")
CLAIM += (" Curve constructors: for every seed >= 2 (all seeds ecm() generates: ecm_seeds_spec) the Suyama-11 construction, the "
          "fallback construction and the selection logic of ecm()/ecm128 never panic, a curve that is run has its generator on it "
          "(the code's own is_valid), and whenever a denominator is not invertible modulo n the code returns a divisor != 1 of n "
          "(a proper one where it returns a pair) - never a curve with a bogus d; the ladder of element is double-and-add "
          "([seed]G in every commutative group). Over any commutative ring with a lawful arithmetic context; Z/n is one "
          "(lawful_nonvacuous). Tied to the code by K on every stage (boundary seeds: a denominator vanishes modulo one / "
          "all / no prime factor) and on the real ecm::ecm / ecm128::ecm where the construction decides the outcome. "
          "Counter-witness: from_point with a zero coordinate (direct call) reports n mod 2^64 as factor.")
LEVEL_NOTE = ("Trusted: Lean kernel (+propext, Classical.choice, Quot.sound), the translator's parser, the sampled "
              "correspondence of the hand-written chain models, Python integers in the oracle. Modular arithmetic of "
              "ZmodN/M128 is taken to be Z/n (C07).")
TECHNIQUE = "Lean 4 proof about translated formulas and a hand model + differential correspondence check + spec oracle"


# ---- one curve run end to end (props/c15_ecmcurve.py; Model/EcmCurve.lean, Props/C15Stage2.lean): merged into this property
import props.c15_ecmcurve as _ec

K_OPS |= _ec.OPS
LEAN += ["Ymq.Props.C15Stage2"]
THEOREMS += [
    "Ymq.C15.stage1_point_spec",
    "Ymq.C15.stage1_point_of_smoothbase",
    "Ymq.C15.baby_steps_spec",
    "Ymq.C15.giant_steps_spec",
    "Ymq.C15.stage2_index_sets",
    "Ymq.C15.stage2_tables_cover",
    "Ymq.C15.stage2_difference_vanishes",
    "Ymq.C15.stage2_hit_product_zero",
    "Ymq.C15.giant_range_sharp",
    "Ymq.C15.curve_ops_closed",
    "Ymq.C15.ecm_curve_no_panic",
    "Ymq.C15.ecm_curve_b_no_panic",
]
MODELLED += [
    "ecm::ecm_curve end to end (Ymq/Model/EcmCurve.lean, every panic site a `none`): stage 1 (chain multiplication by every 64-bit "
    "block in chunks of GCD_INTERVAL with check_gcd_factor and early return after each chunk, then the 1024-bit blocks and one more "
    "check), assert!(is_valid), the baby steps (b coprime to d1 below d1/2, `gaps` table grown on demand, extended additions), the "
    "giant steps (d1.G by chain multiplication, its double, then extended additions), the two-pass normalisation of y "
    "(ExpModn.ynorm), the row-wise product of differences (d1 < 4000) or roots_eval + cumulative products, the final "
    "check_gcd_factor and the returned pair; over abstract point operations (driver: the translated formulas over Z/n)",
]
_cases0, _oracle0, _klass0 = cases, oracle, klass


def cases(tier, rng, extended=False):
    yield from _ec.cases(_fork(rng, "C15-ecmcurve"), tier, extended)
    yield from _cases0(tier, rng, extended)


def oracle(case, ans):
    if case.op in _ec.OPS:
        if ans in ("hang", "abort", "?"):
            return f"no value returned ({ans})"
        if ans == "panic":
            # only the generator's own invalid inputs (o=False) may panic
            return "panic on a curve point (the domain ecm() passes)"
        return _ec.oracle(case, ans)
    return _oracle0(case, ans)


def klass(case, ans):
    if case.op in _ec.OPS:
        return _ec.klass(case, ans)
    return _klass0(case, ans)

UNMODELLED = [
    "ZmodN / M128 Montgomery arithmetic is taken to be arithmetic in Z/n (C07), ZmodN::inv / gcd at their specification (C09); "
    "the rayon branch of ecm() (order of the seeds under a thread pool); inside ecm_curve: gcd_factors / check_gcd_factor is the "
    "model of C16 (ExpModn.checkGcdFactor, with the Miller-Rabin model of C06 as `pseudoprime`), Poly::roots_eval enters at its "
    "specification (C10), the timing / verbosity output is not modelled; the theorems about the tables read the point operations in "
    "a group (total group law): the degenerate steps of the dedicated extended addition (listed finding) are followed by the model "
    "and compared (K) but are outside the group-level statements",
]
CLAIM += (" One curve run end to end (ecm_curve): in every commutative group in which the formulas are the group law, stage 1 hands "
          "[prod of all SmoothBase blocks]G to stage 2 (or has returned at a gcd check), the baby table holds [b]Q for exactly the "
          "b < d1/2 coprime to d1 and the giant table [i d1]Q for exactly i = 1..d2 - the index sets C16's ecm_cover quantifies over "
          "(stage2_index_sets), so every prime l in (d1/2, d2 d1 + d1/2 - 1] not dividing d1 with [l]Q = O has its two table "
          "entries (stage2_tables_cover); if two entries have the same affine y the normalised coordinates agree and the accumulated "
          "product is 0 from that row on (stage2_hit_product_zero); over every commutative ring the run never panics for a generator "
          "on the curve, blocks of SmoothBase::new(b1 <= 2^24) and any row of the table (ecm_curve_b_no_panic; check_gcd_factor and "
          "roots_eval assumed to return). Tied to the code by K on the real ecm_curve (returned pair) for curves with constructed "
          "orders at every boundary index of the grid, on both paths (direct products, roots_eval), and on the intermediate tables.")


# ---- one run of the 128-bit ECM end to end (props/c15_ecm128.py; Model/Ecm128Curve.lean, Props/C15Ecm128.lean): merged into this property
import props.c15_ecm128 as _e128

K_OPS |= _e128.OPS
LEAN += ["Ymq.Props.C15Ecm128"]
THEOREMS += [
    "Ymq.C15.e128_stage1_point_spec",
    "Ymq.C15.e128_stage1_point_of_smoothbase",
    "Ymq.C15.e128_baby_steps_spec",
    "Ymq.C15.e128_giant_steps_spec",
    "Ymq.C15.e128_index_sets",
    "Ymq.C15.e128_tables_cover",
    "Ymq.C15.e128_accumulate_vanishes",
    "Ymq.C15.e128_hit_product_zero",
    "Ymq.C15.e128_returned_pair_sound",
    "Ymq.C15.e128_curve_no_panic",
    "Ymq.C15.e128_curve_b_no_panic",
    "Ymq.C15.e128_ecm_loop_spec",
    "Ymq.C15.e128_giant_range_sharp",
]
MODELLED += [
    "ecm128::ecm_curve end to end (Ymq/Model/Ecm128Curve.lean, every panic site a `none`): stage 1 over sb.factors (scalar64_mul = "
    "Chain.scalar64Mul128 per block, the `fg.x == 0` exit with its gcd, the gcd after the loop), assert!(is_valid(ext(g))), the baby "
    "steps (gaps = [dblext(g), dblext(proj(dblext(g)))] grown on demand, the walk of ecm.rs), the giant steps (scalar64_mul(d1, g), "
    "dblext, then extended additions for 2..d2), the two-pass normalisation of y, the product of differences, the final gcd and the "
    "returned pair; and the curve loop of ecm128::ecm around Suyama.select128; over abstract point operations (driver: the translated "
    "e128* formulas over Z/n)",
]
_cases1, _oracle1, _klass1 = cases, oracle, klass


def cases(tier, rng, extended=False):
    yield from _e128.cases(_fork(rng, "C15-ecm128"), tier, extended)
    yield from _cases1(tier, rng, extended)


def oracle(case, ans):
    if case.op in _e128.OPS:
        if ans in ("hang", "abort", "?"):
            return f"no value returned ({ans})"
        if ans == "panic":
            return "panic on a curve point (the domain ecm128::ecm passes)"
        return _e128.oracle(case, ans)
    return _oracle1(case, ans)


def klass(case, ans):
    if case.op in _e128.OPS:
        return _e128.klass(case, ans)
    return _klass1(case, ans)

CLAIM += (" The 128-bit ECM (ecm128::ecm_curve, ecm128::ecm) end to end: in every commutative group in which the formulas are the "
          "group law stage 1 never panics and hands [prod of sb.factors]G to stage 2 (e128_stage1_point_spec), the baby table holds "
          "[b]Q for exactly the b of C16's ecm128 baby set and the giant table [i d1]Q for exactly i = 1..d2, the closed range of "
          "C16's ecm128_cover / ecm128_grid_exact (e128_index_sets, e128_tables_cover); equal affine y of a baby and a giant entry "
          "make the accumulated product 0 (e128_hit_product_zero); a returned pair is always a proper factorisation of n "
          "(e128_returned_pair_sound, any environment); over every commutative ring the run never panics for a generator on its "
          "curve, blocks of SmoothBase::new(b1 <= 2^24, false) and any row of the table (e128_curve_b_no_panic); the curve loop "
          "returns what its first productive seed gives (e128_ecm_loop_spec). Tied to the code by K on the real ecm_curve / ecm "
          "(returned pair) for moduli of 65..128 bits (also >= 2^127 and just below 2^128) with constructed orders at the rims of "
          "the grid, and on the intermediate stage-1 point and tables.")
