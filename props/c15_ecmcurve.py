"""C15 helper: one ECM curve run end to end (src/ecm.rs `ecm_curve`; model Ymq/Model/EcmCurve.lean).

Ops (all K; O where the reference arithmetic decides):
  ecm_curve n tw d x y z b1 b2        real `ecm_curve` on the curve (tw, d) with generator (x:y:z), SmoothBase::new(b1, true)
  ecm_curve_raw n tw d x y z fs ls b2 the same on explicit 64-bit blocks `fs` and 1024-bit blocks `ls`
  ecm_stage1 n tw d x y z b1          the point after all blocks of stage 1 (real chain multiplications, no gcd exits)
  ecm_tables n tw d x y z d1 d2       baby steps ; giant steps ; normalised y (real primitives in the order of the routine)

The oracle is affine Edwards arithmetic modulo every prime factor of n (plain Python integers, the complete addition law;
a vanishing denominator makes the case undecided). Constructed inputs: n = p q, a curve and a point whose order modulo p is
(B1-smooth part) * m for a prescribed grid value m = i d1 +- b (every giant index i in {1, 2, 3, d2-1, d2} and the first, second
and last baby steps are asked for), and whose order modulo q has no multiple below the end of the grid.
"""
import math
from vlib.pipeline import Case
from vlib import gen

OPS = {"ecm_curve", "ecm_curve_raw", "ecm_stage1", "ecm_tables"}
ROWS = [(660, 66, 10), (1080, 90, 12), (1920, 120, 16), (3000, 150, 20)]
POLY_ROW = (2300000, 4620, 512)          # first row with d1 >= 4000: the roots_eval path
TABLE = None


def stage2_row(b2):
    """params::stage2_params for an integral b2: the row whose label is nearest (first one on ties)"""
    global TABLE
    if TABLE is None:
        import os, re
        src = open(os.path.join(os.environ.get("YMQ_REPO", "/repo"), "src/params.rs")).read()
        body = src[src.index("const STAGE2_PARAMS"):]
        body = body[:body.index("];")]
        TABLE = [(int(float(m.group(1))), int(m.group(2)), int(m.group(3)))
                 for m in re.finditer(r"\(\s*([0-9.e]+)\s*,\s*(\d+)\s*,\s*(\d+)\s*\)", body)]
    return min(TABLE, key=lambda r: abs(r[0] - b2))


class Exceptional(Exception):
    pass


def inv(x, r):
    x %= r
    if x == 0:
        raise Exceptional()
    return pow(x, -1, r)


def aff_add(r, a, d, P, Q):
    x1, y1 = P
    x2, y2 = Q
    t = d * x1 * x2 % r * y1 % r * y2 % r
    return ((x1 * y2 + y1 * x2) * inv(1 + t, r) % r, (y1 * y2 - a * x1 * x2) * inv(1 - t, r) % r)


def aff_mul(r, a, d, k, P):
    R = (0, 1)
    for bit in bin(k)[2:] if k else "":
        R = aff_add(r, a, d, R, R)
        if bit == "1":
            R = aff_add(r, a, d, R, P)
    return R


def aff_order_upto(r, a, d, Q, bound):
    """least m in [1, bound] with m Q = O, or None"""
    R = Q
    for m in range(1, bound + 1):
        if R == (0, 1):
            return m
        R = aff_add(r, a, d, R, Q)
    return None


def small_primes(limit):
    s = bytearray([1]) * (limit + 1)
    s[0:2] = b"\0\0"
    for i in range(2, int(limit ** 0.5) + 1):
        if s[i]:
            s[i * i::i] = bytearray(len(s[i * i::i]))
    return [i for i in range(limit + 1) if s[i]]


def exponent(b1):
    """product of all blocks of SmoothBase::new(b1, _): each prime p < b1 to the largest power below b1 (2: * 16, 3: * 3)"""
    e = 1
    for p in small_primes(b1):
        if p >= b1:
            break
        pw = p
        while pw * p < b1:
            pw *= p
        e *= pw * (16 if p == 2 else 3 if p == 3 else 1)
    return e


def babies(d1):
    return [b for b in range(1, d1 // 2) if math.gcd(b, d1) == 1]


def factor_small(n):
    fs, m, p = [], n, 2
    while p * p <= m and p < 1 << 21:
        while m % p == 0:
            fs.append(p)
            m //= p
        p += 1 if p == 2 else 2
    if m > 1:
        fs.append(m)
    return fs


def crt(rp, p, rq, q):
    return (rp + p * ((rq - rp) * pow(p, -1, q) % q)) % (p * q)


def curve_mod(rng, r, a):
    """random affine point with non-zero coordinates and its curve parameter d modulo the prime r"""
    while True:
        x, y = rng.randrange(1, r), rng.randrange(1, r)
        d = (a * x * x + y * y - 1) * pow(x * x * y * y, -1, r) % r
        if d not in (0, a % r):
            return d, (x, y)


def curve_modn(rng, n, a):
    """the same modulo a composite n (coordinates and x y invertible)"""
    while True:
        x, y = rng.randrange(1, n), rng.randrange(1, n)
        if math.gcd(x * y, n) != 1:
            continue
        d = (a * x * x + y * y - 1) * pow(x * x * y * y, -1, n) % n
        if math.gcd(d * (d - a), n) == 1:
            return d, (x, y)


def find_side(rng, r, a, E, bound, want, tries=4000):
    """(d, G) modulo r with ord(E G) == want (an integer > 1), want == 1 (E G = O) or want is None (no multiple <= bound)"""
    for _ in range(tries):
        d, G = curve_mod(rng, r, a)
        try:
            Q = aff_mul(r, a, d, E, G)
            if want == 1:
                if Q == (0, 1):
                    return d, G
                continue
            if Q == (0, 1) or Q[0] == 0:
                continue
            if want is None:
                if aff_order_upto(r, a, d, Q, bound) is None:
                    return d, G
                continue
            if aff_mul(r, a, d, want, Q) != (0, 1):
                continue
            if aff_order_upto(r, a, d, Q, want) == want:
                return d, G
        except Exceptional:
            continue
    return None


def build(rng, p, q, a, E, bound, want):
    sp = find_side(rng, p, a, E, bound, want)
    sq = find_side(rng, q, a, E, bound, None)
    if sp is None or sq is None:
        return None
    n = p * q
    d = crt(sp[0], p, sq[0], q)
    x = crt(sp[1][0], p, sq[1][0], q)
    y = crt(sp[1][1], p, sq[1][1], q)
    z = rng.randrange(1, n)
    while math.gcd(z, n) != 1:
        z = rng.randrange(1, n)
    return n, d, (x * z % n, y * z % n, z)


def prime_for(rng, m, lo=12):
    """a prime p such that curves of order divisible by m exist in quantity: p ~ (12..60) m"""
    return gen.next_prime(rng.randrange(lo * m, 3 * lo * m) | 1)


def targets(d1, d2):
    bs = babies(d1)
    sel_b = sorted({bs[0], bs[1], bs[len(bs) // 2], bs[-1]})
    sel_i = sorted({1, 2, 3, d2 - 1, d2})
    out = []
    for i in sel_i:
        for b in sel_b:
            for s in (1, -1):
                out.append((i, b, s, i * d1 + s * b))
    return out


def line(op, n, a, d, G, *rest):
    return " ".join(map(str, [op, n, "true" if a == -1 else "false", d, G[0], G[1], G[2], *rest]))


def constructed(rng, rows, b1s, per_row, primes_only=False):
    """`ecm_curve` cases whose order modulo p is (smooth) * (i d1 + s b) for boundary indices"""
    for (b2, d1, d2) in rows:
        ts = targets(d1, d2)
        rng.shuffle(ts)
        if primes_only:
            ts = [t for t in ts if gen.is_prime(t[3])]
        for (i, b, s, m) in ts[:per_row]:
            a = rng.choice([1, -1])
            b1 = rng.choice(b1s)
            E = exponent(b1)
            for _ in range(6):
                p = prime_for(rng, m)
                q = gen.next_prime(rng.randrange(1 << 19, 1 << 21))
                if p == q:
                    continue
                r = build(rng, p, q, a, E, (d2 + 2) * d1, m)
                if r:
                    n, d, G = r
                    yield Case(line("ecm_curve", n, a, d, G, b1, b2), tag=f"f={p},{q}|i={i},b={b},s={s}")
                    break


def harvest(rng, rows, trials, cap):
    """random curves modulo small primes, kept when the point after stage 1 has a small order (whatever it is)"""
    kept = 0
    for _ in range(trials):
        if kept >= cap:
            return
        b2, d1, d2 = rng.choice(rows)
        a = rng.choice([1, -1])
        b1 = rng.choice([16, 24, 30, 50])
        E = exponent(b1)
        bound = (d2 + 2) * d1
        p = gen.next_prime(rng.randrange(1 << 10, 40 * bound))
        d, G = curve_mod(rng, p, a)
        try:
            Q = aff_mul(p, a, d, E, G)
            if Q[0] == 0:
                continue
            m = aff_order_upto(p, a, d, Q, bound)
        except Exceptional:
            continue
        if m is None:
            continue
        qq = gen.next_prime(rng.randrange(1 << 19, 1 << 21))
        sq = find_side(rng, qq, a, E, bound, None, tries=20)
        if sq is None:
            continue
        n = p * qq
        z = rng.randrange(1, n)
        if math.gcd(z, n) != 1:
            continue
        x, y = crt(G[0], p, sq[1][0], qq), crt(G[1], p, sq[1][1], qq)
        kept += 1
        yield Case(line("ecm_curve", n, a, crt(d, p, sq[0], qq), (x * z % n, y * z % n, z), b1, b2), tag=f"f={p},{qq}|ord")


def cases(rng, tier, extended=False):
    q = tier == "quick"
    mul = 4 if extended else 1
    # --- orders at the boundary indices of the grid: corpus/C15/ecm_curve_grid.txt (written once by `constructed`);
    #     here: random curves whose point has some small order after stage 1
    yield from harvest(rng, ROWS[:2] if q else ROWS, (1500 if q else 20000) * mul, (60 if q else 800) * mul)
    # --- stage-1 hits, random curves (mostly nothing found), invalid generators (assert), zero coordinates
    for k in range((30 if q else 300) * mul):
        b2, d1, d2 = rng.choice(ROWS)
        a = rng.choice([1, -1])
        b1 = rng.choice([16, 30, 50, 120])
        E = exponent(b1)
        p = gen.next_prime(rng.randrange(1 << 10, 1 << 16))
        qq = gen.next_prime(rng.randrange(1 << 19, 1 << 21))
        kind = k % 3
        if kind == 0:
            r = build(rng, p, qq, a, E, (d2 + 2) * d1, 1)
            tag = "stage1"
        else:
            n = p * qq
            d, G = curve_modn(rng, n, a)
            z = rng.randrange(1, n)
            r = (n, d, (G[0] * z % n, G[1] * z % n, z))
            tag = "random"
        if r:
            n, d, G = r
            yield Case(line("ecm_curve", n, a, d, G, b1, b2), tag=f"f={p},{qq}|{tag}")
            if k % 10 == 1:
                # a generator off the curve: `assert!(c.is_valid(&g))`
                yield Case(line("ecm_curve", n, a, (d + 1) % n, G, b1, b2), o=False, tag="offcurve")
            if k % 10 == 2:
                yield Case(line("ecm_curve", n, a, d, (0, 1, 1), b1, b2), o=False, tag="neutral")
                yield Case(line("ecm_curve", n, a, d, (0, 0, 0), b1, b2), o=False, tag="zero")
    # --- the roots_eval path (d1 >= 4000) and B2 values between the labels of the table (nearest row, ties): K; O = soundness
    for k in range((8 if q else 80) * mul):
        a = rng.choice([1, -1])
        p = gen.next_prime(rng.randrange(1 << 20, 1 << 24))
        qq = gen.next_prime(rng.randrange(1 << 40, 1 << 41))
        n = p * qq
        d, G = curve_modn(rng, n, a)
        z = rng.randrange(1, n)
        b2 = POLY_ROW[0] if k % 2 == 0 else rng.choice([0, 1, 659, 870, 871, 1500, 2460, 4020, 100000, 2000000])
        yield Case(line("ecm_curve", n, a, d, (G[0] * z % n, G[1] * z % n, z), rng.choice([16, 30, 50]), b2),
                   tag=f"f={p},{qq}|{'poly' if stage2_row(b2)[1] >= 4000 else 'b2'}")
    # --- explicit blocks: empty stage 1, more than GCD_INTERVAL = 1000 blocks (chunk boundary), a 1024-bit block
    for k in range((6 if q else 40) * mul):
        b2, d1, d2 = rng.choice(ROWS[:2])
        a = rng.choice([1, -1])
        p = gen.next_prime(rng.randrange(1 << 10, 1 << 14))
        qq = gen.next_prime(rng.randrange(1 << 19, 1 << 21))
        E = exponent(16)
        r = build(rng, p, qq, a, E, (d2 + 2) * d1, 1 if k % 2 else rng.choice([t[3] for t in targets(d1, d2)]))
        if not r:
            continue
        n, d, G = r
        small = [2 ** 7, 3 ** 3, 5, 7, 11, 13]
        shapes = [
            ([1] * 999 + small, []),                # the hit inside the second chunk
            ([1] * 994 + small + [1] * 3, []),      # the hit at the end of the first chunk
            (small[:3], [5 * 7 * 11 * 13]),         # finished by a 1024-bit block
            ([], [E]),
            ([E], [1, 1]),
            ([1] * 2001 + [E], []),
        ]
        fs, ls = shapes[k % len(shapes)]
        yield Case(line("ecm_curve_raw", n, a, d, G, ",".join(map(str, fs)) or "-", ",".join(map(str, ls)) or "-", b2),
                   tag=f"f={p},{qq}|raw{k % len(shapes)}", o=False)
    # --- intermediate values on moduli with large prime factors: stage-1 point, tables, normalised coordinates
    for k in range((12 if q else 120) * mul):
        p = gen.rand_prime(rng, rng.choice([40, 48, 64, 70]))
        qq = gen.rand_prime(rng, rng.choice([40, 64, 130]))
        if p == qq:
            continue
        n = p * qq
        a = rng.choice([1, -1])
        d, G = curve_modn(rng, n, a)
        z = rng.randrange(1, n)
        Gz = (G[0] * z % n, G[1] * z % n, z)
        yield Case(line("ecm_stage1", n, a, d, Gz, rng.choice([16, 50, 300, 5000])), tag=f"f={p},{qq}")
        b2, d1, d2 = rng.choice(ROWS)
        yield Case(line("ecm_tables", n, a, d, Gz, d1, d2), tag=f"f={p},{qq}")
        if k % 4 == 0:
            yield Case(line("ecm_tables", n, a, d, Gz, d1, rng.choice([0, 1, 2, 3])), tag=f"f={p},{qq}")
            yield Case(line("ecm_tables", n, a, d, Gz, rng.choice([4, 6, 8, 10, 12, 30]), 5), tag=f"f={p},{qq}")
    # odd or tiny d1 (never passed by the callers): the gap walk reads a wrong table entry or panics; K only
    for d1 in (1, 2, 3, 5, 7, 9, 15, 21):
        n = 1000003 * 1000033
        d, G = curve_modn(rng, n, 1)
        yield Case(line("ecm_tables", n, 1, d, (G[0], G[1], 1), d1, 4), o=False, tag="odd-d1")


def known_factors(case, n):
    if case.tag and case.tag.startswith("f="):
        return [int(x) for x in case.tag[2:].split("|")[0].split(",")]
    fs = factor_small(n)
    return fs if all(gen.is_prime(f) for f in fs) else None


def parse_curve(a):
    n = int(a[0])
    aa = -1 if a[1] == "true" else 1
    return n, aa, int(a[2]) % n, tuple(int(v) % n for v in a[3:6])


def affine(r, P):
    zi = inv(P[2], r)
    return (P[0] * zi % r, P[1] * zi % r)


def proj_is(r, P, A):
    """projective triple P represents the affine point A modulo r (and is not the zero triple)"""
    if all(c % r == 0 for c in P):
        return False
    return (P[0] - A[0] * P[2]) % r == 0 and (P[1] - A[1] * P[2]) % r == 0


def side_status(r, a, d, G, E, bound):
    """'s1' (E G = O), ('ord', m) (least m <= bound with m E G = O), 'big', or None when the reference cannot decide"""
    try:
        if (a * G[0] ** 2 * G[2] ** 2 + G[1] ** 2 * G[2] ** 2 - G[2] ** 4 - d * G[0] ** 2 * G[1] ** 2) % r:
            return None
        Q = aff_mul(r, a, d, E, affine(r, G))
        if Q == (0, 1):
            return "s1"
        if Q[0] == 0:
            return None
        if bound > 60000:
            return None
        m = aff_order_upto(r, a, d, Q, bound)
        return ("ord", m) if m else "big"
    except Exceptional:
        return None


def oracle(case, ans):
    op, a = case.op, case.args
    n, aa, d, G = parse_curve(a)
    fs = known_factors(case, n)
    if op in ("ecm_curve", "ecm_curve_raw"):
        if ans != "none":
            try:
                f, g = [int(v) for v in ans.split()]
            except ValueError:
                return f"unreadable answer {ans!r}"
            if f * g != n or not 1 < f < n:
                return f"returned pair ({f}, {g}) is not a proper factorisation of n"
        if op == "ecm_curve_raw" or fs is None or len(set(fs)) != len(fs):
            return None
        b1, b2 = int(a[6]), int(a[7])
        _, d1, d2 = stage2_row(b2)
        E = exponent(b1)
        st = {r: side_status(r, aa, d % r, G, E, (d2 + 2) * d1) for r in fs}
        if any(s is None for s in st.values()):
            return None
        hit1 = [r for r in fs if st[r] == "s1"]
        if hit1:
            if len(hit1) == 1 and len(fs) == 2:
                f = hit1[0]
                return None if ans == f"{f} {n // f}" else f"stage 1 annihilates the point modulo {f} only: expected {f} {n // f}"
            return None
        eff = d2 * d1 + d1 // 2 - 1
        promised = [r for r in fs if st[r] != "big" and gen.is_prime(st[r][1]) and d1 // 2 < st[r][1] <= eff and d1 % st[r][1]]
        others_big = all(st[r] == "big" for r in fs if r not in promised)
        if len(promised) == 1 and others_big and len(fs) == 2:
            f = promised[0]
            return None if ans == f"{f} {n // f}" else (
                f"the point after stage 1 has prime order {st[f][1]} <= {eff} modulo {f} (and no small order modulo the cofactor): "
                f"expected {f} {n // f}")
        if all(s == "big" for s in st.values()):
            return None if ans == "none" else "no multiple up to the end of the grid annihilates the point modulo any prime factor"
        return None
    if fs is None:
        return None
    if op == "ecm_stage1":
        E = exponent(int(a[6]))
        P = tuple(int(v) for v in ans.split())
        for r in fs:
            try:
                ref = aff_mul(r, aa, d % r, E, affine(r, G))
            except Exceptional:
                continue
            if all(c % r == 0 for c in P):
                # the zero triple modulo r: a degenerate double-add step of the chain multiplication (listed finding
                # chainmul-zero-triple-on-degenerate-step; frequent once the running point has small order modulo r)
                continue
            if ref == (0, 1):
                if P[0] % r:
                    return f"[E]G is the neutral element modulo {r} but x does not vanish"
            elif not proj_is(r, P, ref):
                return f"the point after stage 1 is not [E]G modulo {r}"
        return None
    if op == "ecm_tables":
        d1, d2 = int(a[6]), int(a[7])
        parts = ans.split(" ; ")
        bst = [tuple(int(v) for v in t.split()) for t in parts[0].split(" | ")]
        gst = [tuple(int(v) for v in t.split()) for t in parts[1].split(" | ")]
        ys = [int(v) for v in parts[2].split(",")]
        bs = babies(d1)
        if d1 % 2:
            return None
        if len(bst) != len(bs):
            return f"{len(bst)} baby steps, expected {len(bs)} (the b < d1/2 coprime to d1)"
        if len(gst) != max(d2, 2):
            return f"{len(gst)} giant steps, expected {max(d2, 2)}"
        for r in fs:
            try:
                A = affine(r, G)
                for b, P in zip(bs, bst):
                    if not proj_is(r, P, aff_mul(r, aa, d % r, b, A)):
                        return f"baby step for b = {b} is not [b]G modulo {r}"
                for i, P in enumerate(gst):
                    if not proj_is(r, P, aff_mul(r, aa, d % r, (i + 1) * d1, A)):
                        return f"giant step {i} is not [{i + 1} d1]G modulo {r}"
            except Exceptional:
                continue
        steps = bst + gst
        if len(ys) != len(steps):
            return "number of normalised coordinates differs from the number of steps"
        Z = math.prod(s[2] for s in steps) % n
        for k, (s, y) in enumerate(zip(steps, ys)):
            if (y * s[2] - s[1] * Z) % n:
                return f"normalised y of step {k} is not y/z times the product of all z"
        return None
    return None


def klass(case, ans):
    op = case.op
    if ans in ("panic", "hang", "abort", "?"):
        return f"{op}/{ans}/{case.tag.split('|')[-1] if case.tag else ''}"
    if op in ("ecm_curve", "ecm_curve_raw"):
        t = case.tag.split("|")[-1] if case.tag else ""
        if t.startswith("i="):
            i = t.split(",")[0]
            t = "grid/" + i
        return f"{op}/{'none' if ans == 'none' else 'factor'}/{t}"
    return op
