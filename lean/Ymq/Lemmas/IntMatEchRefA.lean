import Ymq.Lemmas.IntMatEchMont
namespace Ymq.IntMat
open Ymq.Mg64

theorem forM_append {σ α} (f : σ → α → Option σ) : ∀ (l1 l2 : List α) (s : σ),
    forM (l1 ++ l2) s f = (forM l1 s f).bind (fun s' => forM l2 s' f)
  | [], l2, s => by simp [forM]
  | a :: as, l2, s => by
    simp only [List.cons_append, forM]
    cases h : f s a with
    | none => simp
    | some s' => simp [forM_append f as l2 s']

theorem forM_range_inv {σ} (f : σ → Nat → Option σ) (P : Nat → σ → Prop) (s0 : σ) (h0 : P 0 s0) :
    ∀ m, (∀ a s, a < m → P a s → ∃ s', f s a = some s' ∧ P (a + 1) s') →
      ∃ s', forM (List.range m) s0 f = some s' ∧ P m s'
  | 0, _ => ⟨s0, by simp [forM], h0⟩
  | m + 1, hstep => by
    obtain ⟨s1, h1, hP1⟩ := forM_range_inv f P s0 h0 m (fun a s ha => hstep a s (by omega))
    obtain ⟨s2, h2, hP2⟩ := hstep m s1 (by omega) hP1
    refine ⟨s2, ?_, hP2⟩
    rw [List.range_succ, forM_append, h1]
    simp [forM, h2]

/-- `forM_range_inv` in continuation form: whatever holds of every state satisfying `P m` holds of the result -/
theorem forM_range_cont {σ} (f : σ → Nat → Option σ) (P : Nat → σ → Prop) (s0 : σ) (h0 : P 0 s0) (m : Nat)
    (hstep : ∀ a s, a < m → P a s → ∃ s', f s a = some s' ∧ P (a + 1) s')
    (Q : Option σ → Prop) (hQ : ∀ s', P m s' → Q (some s')) : Q (forM (List.range m) s0 f) := by
  obtain ⟨s', h1, h2⟩ := forM_range_inv f P s0 h0 m hstep
  rw [h1]; exact hQ s' h2

/-- the production state that represents the reference state `e` -/
def EchP.toEch (pinv : Nat) (e : EchP) : Ech :=
  { p := e.p, pinv := pinv, r := W % e.p, r2 := (W % e.p) * (W % e.p) % e.p,
    indices := e.indices, basis := e.basis.map (mrow e.p), factors := e.factors.map (mform e.p) }

/-- entry `c` of the basis row `t` -/
def EchP.ent (e : EchP) (t c : Nat) : Nat := (e.basis.getD t []).getD c 0

/-- the facts about the reference state used by the refinement: Montgomery set-up, `p ≤ 2^63`, the
column order is `σ`, the basis is reduced and in echelon form (`p < 2^63`) -/
structure EchCtx (p n pinv : Nat) (e : EchP) (σ : Equiv.Perm (Fin n)) : Prop where
  mont : MontOk p pinv
  p63 : 2 * p ≤ W
  hp : e.p = p
  hσ : e.indices = permList σ
  k_le : e.basis.length ≤ n
  row_len : ∀ r ∈ e.basis, r.length = n
  row_red : ∀ r ∈ e.basis, ∀ x ∈ r, x < p
  one : ∀ t (_ : t < e.basis.length) (htn : t < n), vecN p n (e.basis.getD t []) (σ ⟨t, htn⟩) = 1
  zero : ∀ t s (hst : s < t) (_ : t < e.basis.length) (htn : t < n),
    vecN p n (e.basis.getD t []) (σ ⟨s, by omega⟩) = 0

variable {p n pinv : Nat} {e : EchP} {σ : Equiv.Perm (Fin n)}

theorem EchCtx.ent_lt (C : EchCtx p n pinv e σ) (t c : Nat) : e.ent t c < p := by
  have hp : 0 < p := by have := C.mont.one_lt; omega
  unfold EchP.ent
  by_cases ht : t < e.basis.length
  · rw [List.getD_eq_getElem _ _ ht]
    by_cases hc : c < e.basis[t].length
    · rw [List.getD_eq_getElem _ _ hc]
      exact C.row_red _ (List.getElem_mem ht) _ (List.getElem_mem hc)
    · rw [List.getD_eq_default _ _ (by omega)]; exact hp
  · rw [List.getD_eq_default e.basis [] (by omega)]; simpa using hp

theorem EchCtx.row_length (C : EchCtx p n pinv e σ) (t : Nat) (ht : t < e.basis.length) :
    (e.basis.getD t []).length = n := by
  rw [List.getD_eq_getElem _ _ ht]
  exact C.row_len _ (List.getElem_mem ht)

theorem EchCtx.basis_get (C : EchCtx p n pinv e σ) (t : Nat) (ht : t < e.basis.length) :
    (e.toEch pinv).basis[t]? = some (mrow p (e.basis.getD t [])) := by
  rw [List.getD_eq_getElem _ _ ht]
  simp [EchP.toEch, C.hp, List.getElem?_map, List.getElem?_eq_getElem ht]

theorem EchCtx.row_get (C : EchCtx p n pinv e σ) (t c : Nat) (ht : t < e.basis.length) (hc : c < n) :
    (mrow p (e.basis.getD t []))[c]? = some (mform p (e.ent t c)) := by
  have hl := C.row_length t ht
  rw [mrow_getElem? p _ c (by omega)]
  unfold EchP.ent
  rw [List.getD_eq_getElem _ _ (show c < (e.basis.getD t []).length by omega)]

theorem toEch_subMulC (e : EchP) (pinv a b c : Nat) :
    (e.toEch pinv).subMulC a b c =
      (match mgMul e.p pinv b c with | none => none | some bc => subP e.p a bc) := rfl

theorem EchCtx.subMulC_eq (C : EchCtx p n pinv e σ) (a m b : Nat) (ha : a < p) :
    (e.toEch pinv).subMulC (mform p a) (mform p m) (mform p b) = some (mform p ((a + (p - m * b % p)) % p)) := by
  have hpW : 2 * p ≤ W := C.p63
  rw [toEch_subMulC, C.hp]
  obtain ⟨y, hy1, _, hy3, hy4⟩ := subMul_entry C.mont hpW a m b ha
  rw [hy1]
  subst hy4
  exact hy3

/-- pivot column of basis row `t` as a number -/
def colOf (σ : Equiv.Perm (Fin n)) (t : Nat) : Nat := (permList σ).getD t 0

theorem colOf_eq (σ : Equiv.Perm (Fin n)) (t : Nat) (ht : t < n) : colOf σ t = (σ ⟨t, ht⟩ : Nat) := by
  unfold colOf
  rw [List.getD_eq_getElem?_getD, permList_getElem? σ t ht, Option.getD_some]

theorem idxs_get (σ : Equiv.Perm (Fin n)) (i a : Nat) (ha : a < 8) (hia : i + a < n) :
    (((permList σ).drop i).take 8)[a]? = some (colOf σ (i + a)) := by
  rw [List.getElem?_take_of_lt ha, List.getElem?_drop, permList_getElem? σ _ hia, colOf_eq σ _ hia]

/-- the defining recursion of the block multipliers: `us[a] = xs[a] - Σ_{b<a} us[b]·basis[i+b][col(i+a)]` -/
def VsEqn (p : Nat) (e : EchP) (σ : Equiv.Perm (Fin n)) (i : Nat) (xs us : List Nat) (a : Nat) : Prop :=
  ((us.getD a 0 : Nat) : ZMod p) = ((xs.getD a 0 : Nat) : ZMod p) -
    ∑ b ∈ Finset.range a, ((us.getD b 0 : Nat) : ZMod p) * ((e.ent (i + b) (colOf σ (i + a)) : Nat) : ZMod p)

theorem getD_set_ne {α} (l : List α) (a b : Nat) (v d : α) (h : a ≠ b) : (l.set a v).getD b d = l.getD b d := by
  simp [List.getD_eq_getElem?_getD, List.getElem?_set_ne h]

theorem getD_set_eq {α} (l : List α) (a : Nat) (v d : α) (h : a < l.length) : (l.set a v).getD a d = v := by
  simp [List.getD_eq_getElem?_getD, List.getElem?_set_self h]

theorem mem_set_lt {l : List Nat} {a t B : Nat} (hl : ∀ x ∈ l, x < B) (ht : t < B) : ∀ x ∈ l.set a t, x < B := by
  intro x hx
  rcases List.mem_or_eq_of_mem_set hx with h | h
  · exact hl x h
  · rw [h]; exact ht

theorem blockVs_spec (C : EchCtx p n pinv e σ) (i : Nat) (hi : i + 8 ≤ e.basis.length)
    (xs : List Nat) (hxl : xs.length = 8) (hxr : ∀ x ∈ xs, x < p) :
    ∃ us : List Nat, us.length = 8 ∧ (∀ x ∈ us, x < p) ∧
      (e.toEch pinv).blockVs i (((permList σ).drop i).take 8) (mrow p xs) = some (mrow p us) ∧
      ∀ a, a < 8 → VsEqn p e σ i xs us a := by
  have hp : 0 < p := by have := C.mont.one_lt; omega
  have hpW : 2 * p ≤ W := C.p63
  have hk := C.k_le
  unfold Ech.blockVs
  refine forM_range_cont _
    (fun a (vs : List Nat) => ∃ us : List Nat, vs = mrow p us ∧ us.length = 8 ∧ (∀ x ∈ us, x < p) ∧
      (∀ a', a ≤ a' → us.getD a' 0 = xs.getD a' 0) ∧ ∀ a', a' < a → VsEqn p e σ i xs us a')
    (mrow p xs) ⟨xs, rfl, hxl, hxr, fun _ _ => rfl, fun a' h => absurd h (Nat.not_lt_zero _)⟩ 8 ?_
    (fun r => ∃ us : List Nat, us.length = 8 ∧ (∀ x ∈ us, x < p) ∧ r = some (mrow p us) ∧
      ∀ a, a < 8 → VsEqn p e σ i xs us a) ?_
  · rintro a vs ha ⟨us, rfl, hul, hur, hge, hlt⟩
    -- the inner loop
    refine forM_range_cont _
      (fun b (vs' : List Nat) => ∃ us' : List Nat, vs' = mrow p us' ∧ us'.length = 8 ∧ (∀ x ∈ us', x < p) ∧
        (∀ a', a' ≠ a → us'.getD a' 0 = us.getD a' 0) ∧
        ((us'.getD a 0 : Nat) : ZMod p) = ((xs.getD a 0 : Nat) : ZMod p) -
          ∑ b' ∈ Finset.range b, ((us.getD b' 0 : Nat) : ZMod p) * ((e.ent (i + b') (colOf σ (i + a)) : Nat) : ZMod p))
      (mrow p us) ⟨us, rfl, hul, hur, fun _ _ => rfl, by rw [hge a (le_refl _)]; simp⟩ a ?_
      (fun r => ∃ s', r = some s' ∧ ∃ us : List Nat, s' = mrow p us ∧ us.length = 8 ∧ (∀ x ∈ us, x < p) ∧
      (∀ a', a + 1 ≤ a' → us.getD a' 0 = xs.getD a' 0) ∧ ∀ a', a' < a + 1 → VsEqn p e σ i xs us a') ?_
    · rintro b vs' hb ⟨us', rfl, hul', hur', hne, hsum⟩
      rw [mrow_getElem? p us' a (by omega), mrow_getElem? p us' b (by omega), idxs_get σ i a ha (by omega),
        C.basis_get (i + b) (by omega)]
      simp only []
      have hcol : colOf σ (i + a) < n := by
        rw [colOf_eq σ (i + a) (by omega)]; exact (σ ⟨i + a, by omega⟩).2
      rw [C.row_get (i + b) _ (by omega) hcol]
      simp only []
      rw [C.subMulC_eq _ _ _ (hur' _ (List.getElem_mem _))]
      simp only [Option.map_some]
      rw [mrow_set]
      refine ⟨_, rfl, _, rfl, by simp [hul'], mem_set_lt hur' (Nat.mod_lt _ hp), ?_, ?_⟩
      · intro a' ha'
        rw [getD_set_ne _ _ _ _ _ (Ne.symm ha')]; exact hne a' ha'
      · rw [getD_set_eq _ _ _ _ (by omega), cast_subMul _ _ _ _ hp, Finset.sum_range_succ]
        have e1 : us'[a] = us'.getD a 0 := (List.getD_eq_getElem _ _ _).symm
        have e2 : us'[b] = us.getD b 0 := by rw [← hne b (by omega)]; exact (List.getD_eq_getElem _ _ _).symm
        rw [e1, e2, hsum]
        ring
    · rintro vs' ⟨us', rfl, hul', hur', hne, hsum⟩
      refine ⟨_, rfl, us', rfl, hul', hur', ?_, ?_⟩
      · intro a' ha'
        rw [hne a' (by omega)]; exact hge a' (by omega)
      · intro a' ha'
        unfold VsEqn
        by_cases hEq : a' = a
        · subst hEq
          rw [hsum]
          congr 1
          apply Finset.sum_congr rfl
          intro b hb
          rw [hne b (by have := Finset.mem_range.mp hb; omega)]
        · have := hlt a' (by omega)
          unfold VsEqn at this
          rw [hne a' hEq, this]
          congr 1
          apply Finset.sum_congr rfl
          intro b hb
          rw [hne b (by have := Finset.mem_range.mp hb; omega)]
  · rintro vs ⟨us, rfl, hul, hur, hge, hlt⟩
    exact ⟨us, hul, hur, rfl, hlt⟩

end Ymq.IntMat
