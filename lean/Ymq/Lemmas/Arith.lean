import Ymq.Model.Arith
import Mathlib.Tactic.Ring
import Mathlib.Tactic.Linarith
import Mathlib.Algebra.Order.Ring.Nat
import Mathlib.Data.Nat.ModEq

namespace Ymq.Arith
open Ymq.Limbs (W)

/-! ### mulmod / pow_mod -/

theorem mulmod_some {B a b p r : Nat} (h : mulmod B a b p = some r) :
    r = a * b % p ∧ 0 < p ∧ a * b < B := by
  unfold mulmod at h
  split_ifs at h with h1 h2
  injection h with h
  exact ⟨h.symm, Nat.pos_of_ne_zero h2, by omega⟩

theorem mulmod_eq {B a b p : Nat} (hp : 0 < p) (hab : a * b < B) :
    mulmod B a b p = some (a * b % p) := by
  unfold mulmod
  rw [if_neg (by omega), if_neg (by omega)]

/-- value of the square-and-multiply loop whenever it returns -/
theorem powLoop_some (B p : Nat) : ∀ (f res nn k r : Nat), powLoop B p f res nn k = some r →
    r = if k = 0 then res else res * nn ^ k % p := by
  intro f
  induction f with
  | zero => intro res nn k r h; simp [powLoop] at h
  | succ f ih =>
    intro res nn k r h
    unfold powLoop at h
    by_cases hk : k = 0
    · rw [if_pos hk] at h; injection h with h; rw [if_pos hk, h]
    · rw [if_neg hk] at h
      rw [if_neg hk]
      have e2 := Nat.div_add_mod k 2
      by_cases hodd : k % 2 = 1
      · rw [if_pos hodd] at h
        cases hm : mulmod B res nn p with
        | none => rw [hm] at h; simp at h
        | some res' =>
          rw [hm] at h
          simp only [] at h
          cases hm2 : mulmod B nn nn p with
          | none => rw [hm2] at h; simp at h
          | some nn' =>
            rw [hm2] at h
            simp only [] at h
            have hr := ih _ _ _ _ h
            obtain ⟨h1, _, _⟩ := mulmod_some hm
            obtain ⟨h2, _, _⟩ := mulmod_some hm2
            subst h1 h2
            by_cases hk2 : k / 2 = 0
            · rw [if_pos hk2] at hr
              have : k = 1 := by omega
              rw [hr, this, Nat.pow_one]
            · rw [if_neg hk2] at hr
              rw [hr]
              have hk' : k = 2 * (k / 2) + 1 := by omega
              conv_rhs => rw [hk', Nat.pow_succ, Nat.pow_mul]
              rw [Nat.mul_mod, Nat.mod_mod, ← Nat.pow_mod, ← Nat.mul_mod]
              congr 1; ring
      · rw [if_neg hodd] at h
        simp only [] at h
        cases hm2 : mulmod B nn nn p with
        | none => rw [hm2] at h; simp at h
        | some nn' =>
          rw [hm2] at h
          simp only [] at h
          have hr := ih _ _ _ _ h
          obtain ⟨h2, _, _⟩ := mulmod_some hm2
          subst h2
          have hk2 : k / 2 ≠ 0 := by omega
          rw [if_neg hk2] at hr
          rw [hr]
          have hk' : k = 2 * (k / 2) := by omega
          conv_rhs => rw [hk', Nat.pow_mul]
          rw [Nat.mul_mod, ← Nat.pow_mod, ← Nat.mul_mod]
          congr 2; ring

/-- `pow_mod` returns `n^k mod p` (and 1 for k = 0, also when p = 1) whenever it returns -/
theorem powMod_some {B n k p r : Nat} (h : powMod B n k p = some r) :
    0 < p ∧ r = if k = 0 then 1 else n ^ k % p := by
  unfold powMod at h
  split_ifs at h with hp
  have := powLoop_some B p _ _ _ _ _ h
  refine ⟨Nat.pos_of_ne_zero hp, ?_⟩
  rw [this]
  by_cases hk : k = 0
  · simp [hk]
  · simp only [hk, if_false, Nat.one_mul]
    rw [← Nat.pow_mod]

/-- the loop returns when no product overflows: `res`, `nn` reduced and `(p-1)² < B` -/
theorem powLoop_isSome (B p : Nat) (hp : 0 < p) (hB : (p - 1) * (p - 1) < B) :
    ∀ (f res nn k : Nat), k < f → nn < p → (res < p ∨ res = 1) →
    ∃ r, powLoop B p f res nn k = some r := by
  intro f
  induction f with
  | zero => intro res nn k hk; omega
  | succ f ih =>
    intro res nn k hkf hnn hres
    unfold powLoop
    by_cases hk : k = 0
    · rw [if_pos hk]; exact ⟨_, rfl⟩
    · rw [if_neg hk]
      have hnn2 : nn * nn < B := by
        calc nn * nn ≤ (p - 1) * (p - 1) := Nat.mul_le_mul (by omega) (by omega)
          _ < B := hB
      have hrn : res * nn < B := by
        rcases hres with hr | hr
        · calc res * nn ≤ (p - 1) * (p - 1) := Nat.mul_le_mul (by omega) (by omega)
            _ < B := hB
        · subst hr
          rw [Nat.one_mul]
          by_cases hp1 : p = 1
          · subst hp1; omega
          · calc nn ≤ (p - 1) * 1 := by omega
              _ ≤ (p - 1) * (p - 1) := Nat.mul_le_mul_left _ (by omega)
              _ < B := hB
      rw [mulmod_eq hp hnn2]
      have hlt : nn * nn % p < p := Nat.mod_lt _ hp
      by_cases hodd : k % 2 = 1
      · rw [if_pos hodd, mulmod_eq hp hrn]
        exact ih _ _ _ (by omega) hlt (Or.inl (Nat.mod_lt _ hp))
      · rw [if_neg hodd]
        exact ih _ _ _ (by omega) hlt hres

theorem powMod_eq {B n k p : Nat} (hp : 0 < p) (hB : (p - 1) * (p - 1) < B) :
    powMod B n k p = some (if k = 0 then 1 else n ^ k % p) := by
  have hs : ∃ r, powMod B n k p = some r := by
    unfold powMod
    rw [if_neg (by omega)]
    exact powLoop_isSome B p hp hB _ _ _ _ (by omega) (Nat.mod_lt _ hp) (Or.inr rfl)
  obtain ⟨r, hr⟩ := hs
  rw [hr, (powMod_some hr).2]

/-! ### squfof::isqrt -/

theorem sqLoop_some (n : Nat) : ∀ (f r0 r : Nat), sqLoop n f r0 = some r →
    r * r ≤ n ∧ n < (r + 1) * (r + 1) := by
  intro f
  induction f with
  | zero => intro r0 r h; simp [sqLoop] at h
  | succ f ih =>
    intro r0 r h
    unfold sqLoop at h
    simp only [] at h
    split_ifs at h with h0 h1 h2 h3 h4 h5
    · -- q = r0
      injection h with h; subst h
      have hpos : 0 < r0 := Nat.pos_of_ne_zero h0
      have e := Nat.div_add_mod n r0
      have l := Nat.mod_lt n hpos
      rw [h1] at e
      constructor
      · omega
      · nlinarith
    · injection h with h; subst h
      have hpos : 0 < r0 := Nat.pos_of_ne_zero h0
      have e := Nat.div_add_mod n r0
      have l := Nat.mod_lt n hpos
      rw [h3] at e
      generalize n % r0 = m at *
      constructor
      · nlinarith
      · nlinarith
    · injection h with h; subst h
      have hpos : 0 < r0 := Nat.pos_of_ne_zero h0
      have e := Nat.div_add_mod n r0
      have l := Nat.mod_lt n hpos
      rw [h4] at e
      obtain ⟨s, rfl⟩ : ∃ s, r0 = s + 1 := ⟨r0 - 1, by omega⟩
      simp only [Nat.add_sub_cancel] at *
      generalize n % (s + 1) = m at *
      constructor
      · nlinarith
      · nlinarith
    · exact ih _ _ h

theorem squfofIsqrt_some (fuel n seed r : Nat) (h : squfofIsqrt fuel n seed = some r) :
    r * r ≤ n ∧ n < (r + 1) * (r + 1) := by
  unfold squfofIsqrt at h
  split_ifs at h with h4
  · injection h with h; subst h
    have : n = 0 ∨ n = 1 ∨ n = 2 ∨ n = 3 := by omega
    rcases this with rfl | rfl | rfl | rfl <;> decide
  · exact sqLoop_some n _ _ _ h

/-! ### floor roots -/

theorem rootAux_spec (n k : Nat) : ∀ (f lo hi : Nat), lo ^ k ≤ n → n < hi ^ k → hi ≤ lo + f + 1 →
    (rootAux n k f lo hi) ^ k ≤ n ∧ n < (rootAux n k f lo hi + 1) ^ k := by
  intro f
  induction f with
  | zero =>
    intro lo hi h1 h2 h3
    unfold rootAux
    refine ⟨h1, lt_of_lt_of_le h2 (Nat.pow_le_pow_left (by omega) k)⟩
  | succ f ih =>
    intro lo hi h1 h2 h3
    unfold rootAux
    by_cases hc : hi ≤ lo + 1
    · rw [if_pos hc]
      exact ⟨h1, lt_of_lt_of_le h2 (Nat.pow_le_pow_left hc k)⟩
    · rw [if_neg hc]
      simp only []
      by_cases hm : ((lo + hi) / 2) ^ k ≤ n
      · rw [if_pos hm]; exact ih _ _ hm h2 (by omega)
      · rw [if_neg hm]; exact ih _ _ h1 (by omega) (by omega)

/-- `nthRoot n k` is the floor of the k-th root of n (k ≥ 1). -/
theorem nthRoot_spec (n k : Nat) (hk : 0 < k) :
    (nthRoot n k) ^ k ≤ n ∧ n < (nthRoot n k + 1) ^ k := by
  unfold nthRoot
  simp only []
  apply rootAux_spec
  · rw [Nat.zero_pow hk]; exact Nat.zero_le _
  · rw [← Nat.pow_mul]
    have e := Nat.div_add_mod (Nat.log2 n) k
    have l := Nat.mod_lt (Nat.log2 n) hk
    have : Nat.log2 n + 1 ≤ (Nat.log2 n / k + 1) * k := by
      have : (Nat.log2 n / k + 1) * k = k * (Nat.log2 n / k) + k := by ring
      omega
    calc n < 2 ^ (Nat.log2 n + 1) := Nat.lt_log2_self
      _ ≤ 2 ^ ((Nat.log2 n / k + 1) * k) := Nat.pow_le_pow_right (by decide) this
  · omega

/-- the floor root is the only candidate for an exact root -/
theorem nthRoot_exact (n k r : Nat) (hk : 0 < k) (h : r ^ k = n) : nthRoot n k = r := by
  subst h
  obtain ⟨h1, h2⟩ := nthRoot_spec (r ^ k) k hk
  have hk0 : k ≠ 0 := by omega
  have a := (Nat.pow_le_pow_iff_left hk0).mp h1
  have b := (Nat.pow_lt_pow_iff_left hk0).mp h2
  omega

theorem isqrt_spec' (n : Nat) : isqrt n * isqrt n ≤ n ∧ n < (isqrt n + 1) * (isqrt n + 1) := by
  have := nthRoot_spec n 2 (by decide)
  unfold isqrt
  simpa [Nat.pow_two] using this

/-! ### perfect_power -/

/-- result predicate of `perfect_power` -/
def PPGood (n : Nat) : Option (Nat × Nat) → Prop
  | some (r, k) => r ^ k = n ∧ 2 ≤ k
  | none => ∀ e ∈ ppExps, ¬ ∃ r, r ^ e = n

theorem ppTry_spec (self : Nat → Option (Option (Nat × Nat)))
    (hself : ∀ m res, self m = some (some res) → res.1 ^ res.2 = m ∧ 2 ≤ res.2) (n : Nat) :
    ∀ (ks : List Nat), (∀ k ∈ ks, 2 ≤ k) → ∀ res, ppTry self n ks = some res →
    (match res with
     | some (r, k) => r ^ k = n ∧ 2 ≤ k
     | none => ∀ e ∈ ks, ¬ ∃ r, r ^ e = n) := by
  intro ks
  induction ks with
  | nil =>
    intro _ res h
    unfold ppTry at h
    injection h with h; subst h
    simp
  | cons k ks ih =>
    intro hks res h
    have hk2 : 2 ≤ k := hks k (List.mem_cons_self ..)
    unfold ppTry at h
    simp only [] at h
    by_cases hpow : nthRoot n k ^ k = n
    · rw [if_pos hpow] at h
      by_cases hrn : nthRoot n k = n
      · rw [if_pos hrn] at h
        injection h with h; subst h
        exact ⟨hpow, hk2⟩
      · rw [if_neg hrn] at h
        cases hs : self (nthRoot n k) with
        | none => rw [hs] at h; simp at h
        | some o =>
          rw [hs] at h
          cases o with
          | none =>
            simp only [] at h
            injection h with h; subst h
            exact ⟨hpow, hk2⟩
          | some rk =>
            obtain ⟨rr, kk⟩ := rk
            simp only [] at h
            split_ifs at h
            injection h with h; subst h
            obtain ⟨e1, e2⟩ := hself _ _ hs
            simp only [] at e1 e2
            refine ⟨?_, by nlinarith⟩
            rw [Nat.mul_comm, Nat.pow_mul, e1, hpow]
    · rw [if_neg hpow] at h
      have := ih (fun k hk => hks k (List.mem_cons_of_mem _ hk)) res h
      cases res with
      | some rk => exact this
      | none =>
        simp only [] at this ⊢
        intro e he
        rcases List.mem_cons.mp he with rfl | he
        · rintro ⟨r, hr⟩
          exact hpow (by rw [nthRoot_exact n e r (by omega) hr]; exact hr)
        · exact this e he

theorem ppFuel_spec : ∀ (f n : Nat) (res : Option (Nat × Nat)), ppFuel f n = some res → PPGood n res := by
  intro f
  induction f with
  | zero => intro n res h; simp [ppFuel] at h
  | succ f ih =>
    intro n res h
    unfold ppFuel at h
    have := ppTry_spec (ppFuel f) (fun m res hm => by
      have := ih m (some res) hm
      exact this) n ppExps (by decide) res h
    cases res with
    | some rk => exact this
    | none => exact this

theorem ppTry_total (self : Nat → Option (Option (Nat × Nat))) (n : Nat) (hn : n < 2 ^ 1024)
    (hself : ∀ m, m < n → ∃ res, self m = some res ∧ PPGood m res) :
    ∀ (ks : List Nat), (∀ k ∈ ks, 2 ≤ k ∧ k ≤ 19) → ∃ res, ppTry self n ks = some res := by
  intro ks
  induction ks with
  | nil => intro _; exact ⟨_, rfl⟩
  | cons k ks ih =>
    intro hks
    obtain ⟨hk2, hk19⟩ := hks k (List.mem_cons_self ..)
    unfold ppTry
    simp only []
    by_cases hpow : nthRoot n k ^ k = n
    · rw [if_pos hpow]
      by_cases hrn : nthRoot n k = n
      · rw [if_pos hrn]; exact ⟨_, rfl⟩
      · rw [if_neg hrn]
        generalize nthRoot n k = r at *
        -- r ≥ 2 and r < n
        have hr2 : 2 ≤ r := by
          by_contra hlt
          have : r = 0 ∨ r = 1 := by omega
          rcases this with rfl | rfl
          · rw [Nat.zero_pow (by omega)] at hpow; exact hrn hpow
          · rw [Nat.one_pow] at hpow; exact hrn hpow
        have hrn' : r < n := by
          rw [← hpow]
          calc r = r ^ 1 := (Nat.pow_one r).symm
            _ < r ^ k := Nat.pow_lt_pow_right (by omega) (by omega)
        obtain ⟨res, hs, hg⟩ := hself r hrn'
        rw [hs]
        cases res with
        | none => exact ⟨_, rfl⟩
        | some rk =>
          obtain ⟨rr, kk⟩ := rk
          simp only []
          obtain ⟨e1, e2⟩ := hg
          have hrr : 2 ≤ rr := by
            by_contra hlt
            have : rr = 0 ∨ rr = 1 := by omega
            rcases this with rfl | rfl
            · rw [Nat.zero_pow (by omega)] at e1; omega
            · rw [Nat.one_pow] at e1; omega
          have hkk : kk < 1024 := by
            by_contra hge
            have h1 : 2 ^ 1024 ≤ 2 ^ kk := Nat.pow_le_pow_right (by decide) (by omega)
            have h2 : 2 ^ kk ≤ rr ^ kk := Nat.pow_le_pow_left hrr kk
            omega
          rw [if_neg (by
            have : k * kk ≤ 19 * 1024 := Nat.mul_le_mul hk19 (by omega)
            omega)]
          exact ⟨_, rfl⟩
    · rw [if_neg hpow]
      exact ih (fun k hk => hks k (List.mem_cons_of_mem _ hk))

theorem ppFuel_total : ∀ (f n : Nat), n < f → n < 2 ^ 1024 → ∃ res, ppFuel f n = some res := by
  intro f
  induction f with
  | zero => intro n h; omega
  | succ f ih =>
    intro n hf hn
    unfold ppFuel
    apply ppTry_total (ppFuel f) n hn
    · intro m hm
      obtain ⟨res, hres⟩ := ih m (by omega) (by omega)
      exact ⟨res, hres, ppFuel_spec f m res hres⟩
    · decide

/-- `r` is not an e-th power for any exponent `perfect_power` tries -/
def NotPow (r : Nat) : Prop := ∀ e ∈ ppExps, ¬ ∃ s, s ^ e = r

theorem ppTry_prim (self : Nat → Option (Option (Nat × Nat)))
    (hnone : ∀ m, self m = some none → NotPow m)
    (hsome : ∀ m rr kk, self m = some (some (rr, kk)) → 2 ≤ m → NotPow rr) (n : Nat) (hn : 2 ≤ n) :
    ∀ (ks : List Nat), (∀ k ∈ ks, 2 ≤ k) → ∀ r k, ppTry self n ks = some (some (r, k)) → NotPow r := by
  intro ks
  induction ks with
  | nil => intro _ r k h; simp [ppTry] at h
  | cons k0 ks ih =>
    intro hks r k h
    have hk2 : 2 ≤ k0 := hks k0 (List.mem_cons_self ..)
    unfold ppTry at h
    simp only [] at h
    by_cases hpow : nthRoot n k0 ^ k0 = n
    · rw [if_pos hpow] at h
      generalize nthRoot n k0 = r0 at *
      have hr0n : r0 ≠ n := by
        rintro rfl
        have : r0 ^ 1 < r0 ^ k0 := Nat.pow_lt_pow_right (by omega) (by omega)
        rw [Nat.pow_one, hpow] at this
        omega
      have hr2 : 2 ≤ r0 := by
        by_contra hlt
        have : r0 = 0 ∨ r0 = 1 := by omega
        rcases this with rfl | rfl
        · rw [Nat.zero_pow (by omega)] at hpow; omega
        · rw [Nat.one_pow] at hpow; omega
      rw [if_neg hr0n] at h
      cases hs : self r0 with
      | none => rw [hs] at h; simp at h
      | some o =>
        rw [hs] at h
        cases o with
        | none =>
          simp only [] at h
          injection h with h; injection h with h; injection h with h1 h2
          subst h1
          exact hnone _ hs
        | some rk =>
          obtain ⟨rr, kk⟩ := rk
          simp only [] at h
          split_ifs at h
          injection h with h; injection h with h; injection h with h1 h2
          subst h1
          exact hsome _ _ _ hs hr2
    · rw [if_neg hpow] at h
      exact ih (fun k hk => hks k (List.mem_cons_of_mem _ hk)) r k h

/-- the root returned by `perfect_power(n)`, `n ≥ 2`, is not itself a perfect power with one of
the tried exponents: the recursion on the root strips them all. -/
theorem ppFuel_prim : ∀ (f n r k : Nat), ppFuel f n = some (some (r, k)) → 2 ≤ n → NotPow r := by
  intro f
  induction f with
  | zero => intro n r k h; simp [ppFuel] at h
  | succ f ih =>
    intro n r k h hn
    unfold ppFuel at h
    exact ppTry_prim (ppFuel f) (fun m hm => ppFuel_spec f m none hm)
      (fun m rr kk hm h2 => ih m rr kk hm h2) n hn ppExps (by decide) r k h

end Ymq.Arith
