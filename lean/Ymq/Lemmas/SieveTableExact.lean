/-
C13 helper lemmas: the visible part of a `SieveTable` bucket is exactly the list of the adds made to it
(in order, with multiplicity) as long as no overflow is counted.
-/
import Ymq.Lemmas.SieveTable

namespace Ymq.Sieve

theorem mapM_congr_mem {α β} (g g' : α → Option β) : ∀ (L : List α), (∀ i ∈ L, g i = g' i) → L.mapM g = L.mapM g' := by
  intro L
  induction L with
  | nil => intro _; rfl
  | cons a t ih =>
    intro h
    rw [List.mapM_cons, List.mapM_cons, h a List.mem_cons_self, ih (fun i hi => h i (List.mem_cons_of_mem _ hi))]

/-- effect of one `add` on every bucket: either the bucket of the offset had room and is extended by the
new entry (no overflow counted), or an overflow is counted and no bucket changes. -/
theorem Table.add_bucket {t t' : Table} {off pidx : Nat} (hwf : t.WF) (h : t.add off pidx = some t') :
    (t'.nOverflows = t.nOverflows ∧ ∀ b bk, t.bucket b = some bk →
        t'.bucket b = some (if b = off / 256 then bk ++ [(off % 256, pidx % 256)] else bk)) ∨
    (t'.nOverflows = t.nOverflows + 1 ∧ ∀ b, t'.bucket b = t.bucket b) := by
  obtain ⟨entries, blens, ovs, nOv⟩ := t
  obtain ⟨hle, hsz⟩ := hwf
  simp only at hle hsz
  unfold Table.add at h
  simp only [BUCKET_WIDTH, BUCKET_SIZE] at h
  split at h
  · simp at h
  split at h
  · simp at h
  rename_i blen hbl
  have hb_lt : off / 256 < blens.size := (Array.getElem?_eq_some_iff.1 hbl).1
  by_cases hroom : blen < 32
  · simp only [hroom, if_true] at h
    by_cases hidx : off / 256 * 32 + blen < entries.size
    · simp only [hidx, if_true, Option.some.injEq] at h
      subst h
      left
      refine ⟨rfl, ?_⟩
      intro b bk hb
      have hmod : off % 256 % 256 = off % 256 := Nat.mod_mod _ _
      unfold Table.bucket at hb ⊢
      simp only [BUCKET_SIZE] at hb ⊢
      by_cases hq : b = off / 256
      · subst hq
        rw [hbl] at hb
        simp only at hb
        have eb : (blens.setIfInBounds (off / 256) (blen + 1))[off / 256]? = some (blen + 1) := by
          simp [Array.getElem?_setIfInBounds, hb_lt]
        rw [eb]
        simp only
        rw [List.range'_concat, List.mapM_append]
        have e1 : (List.range' (off / 256 * 32) blen).mapM
            (fun e => (entries.setIfInBounds (off / 256 * 32 + blen) (off % 256 % 256, pidx % 256))[e]?) = some bk := by
          rw [← hb]
          apply mapM_congr_mem
          intro i hi
          have := List.mem_range'_1.1 hi
          rw [Array.getElem?_setIfInBounds_ne (by omega)]
        rw [e1]
        have e2 : (entries.setIfInBounds (off / 256 * 32 + blen) (off % 256, pidx % 256))[off / 256 * 32 + blen]? =
            some (off % 256, pidx % 256) := by
          rw [Array.getElem?_setIfInBounds]; simp [hidx]
        simp [hmod, e2]
      · rw [Array.getElem?_setIfInBounds_ne (fun e => hq e.symm)]
        cases hbb : blens[b]? with
        | none => rw [hbb] at hb; simp at hb
        | some bl =>
          rw [hbb] at hb
          simp only at hb ⊢
          have hbl32 := hle b bl hbb
          rw [if_neg hq, ← hb]
          apply mapM_congr_mem
          intro i hi
          have := List.mem_range'_1.1 hi
          rw [Array.getElem?_setIfInBounds_ne (by omega)]
    · simp [hidx] at h
  · simp only [hroom, if_false, Option.some.injEq] at h
    subst h
    right
    exact ⟨rfl, fun b => rfl⟩

/-- `bucket_exact`: from a table `t`, after a sequence of adds during which no overflow was counted, every bucket
that was readable shows its old entries followed by exactly the adds made to it, in order. -/
theorem Table.foldl_bucket_exact :
    ∀ (adds : List (Nat × Nat)) (t t' : Table), t.WF →
      adds.foldlM (fun t a => t.add a.1 a.2) t = some t' → t'.nOverflows = t.nOverflows →
      ∀ b bk, t.bucket b = some bk →
        t'.bucket b = some (bk ++ (adds.filter fun a => a.1 / 256 = b).map fun a => (a.1 % 256, a.2 % 256)) := by
  intro adds
  induction adds with
  | nil => intro t t' _ h _ b bk hb; simp at h; subst h; simpa using hb
  | cons a rest ih =>
    intro t t' hwf h hov b bk hb
    rw [List.foldlM_cons] at h
    simp only [bind, Option.bind_eq_some_iff] at h
    obtain ⟨t1, h1, h2⟩ := h
    obtain ⟨w1, _, _, _, n1, _⟩ := Table.add_spec hwf h1
    -- counters only grow: no overflow in this step nor later
    have n2 : t1.nOverflows ≤ t'.nOverflows :=
      (foldlM_inv (fun (t : Table) (a : Nat × Nat) => t.add a.1 a.2)
        (fun t'' => t''.WF ∧ t1.nOverflows ≤ t''.nOverflows)
        (fun s x s' hp hs => by
          obtain ⟨w, _, _, _, n, _⟩ := Table.add_spec hp.1 hs
          exact ⟨w, le_trans hp.2 n⟩) rest t1 t' ⟨w1, le_refl _⟩ h2).2
    rcases Table.add_bucket hwf h1 with ⟨e, hbk⟩ | ⟨e, _⟩
    · have := ih t1 t' w1 h2 (by omega) b _ (hbk b bk hb)
      rw [this]
      by_cases hq : b = a.1 / 256
      · subst hq
        simp [List.filter_cons]
      · have : ¬ a.1 / 256 = b := fun e => hq e.symm
        simp [List.filter_cons, hq, this]
    · omega

end Ymq.Sieve
