/-
The initial state of the Berlekamp–Massey model (`initSt`, lines 602-627 of intsparse.rs): exact
case analysis on the shape of the sequence, and the loop invariant at the head of the loop.
-/
import Ymq.Lemmas.BerlekampMasseyLoop

namespace Ymq.BM
open Polynomial

variable {p : ℕ}

theorem gd_replicate (n i : ℕ) : gd (List.replicate n 0) i = 0 := by
  unfold gd
  rw [List.getD_eq_getElem?_getD, List.getElem?_replicate]
  split <;> simp

theorem gd_unit (n k i : ℕ) (hk : k < n) :
    gd ((List.replicate n 0).set k 1) i = if i = k then 1 else 0 := by
  rw [getD_set, gd_replicate]
  simp [hk]

theorem gd_take (l : List ℕ) (d j : ℕ) : gd (l.take d) j = if j < d then gd l j else 0 := by
  unfold gd
  rw [List.getD_eq_getElem?_getD, List.getD_eq_getElem?_getD, List.getElem?_take]
  split <;> simp

theorem gd_shift (l : List ℕ) (m d i : ℕ) :
    gd (List.replicate m 0 ++ l.take d) i =
      if i < m then 0 else if i - m < d then gd l (i - m) else 0 := by
  by_cases h : i < m
  · rw [if_pos h]
    unfold gd
    rw [List.getD_eq_getElem?_getD, List.getElem?_append_left (by simpa using h),
      List.getElem?_replicate]
    simp [h]
  · rw [if_neg h, ← gd_take]
    unfold gd
    rw [List.getD_eq_getElem?_getD, List.getD_eq_getElem?_getD,
      List.getElem?_append_right (by simpa using h)]
    simp

theorem toPoly_unit (n k : ℕ) (hk : k < n) :
    toPoly p ((List.replicate n 0).set k 1) = X ^ k := by
  ext i
  rw [coeff_toPoly, coeff_X_pow]
  unfold co
  rw [gd_unit n k i hk]
  split <;> simp


/-- The four shapes of an input sequence (all residues reduced) and what `initSt` does on each:
empty → panic; zero → `return vec![]`; exactly one non-zero term `s_k` → panic when `k = 0`
(`v[n]`), `return vec![]` when `k > 0` ("not supposed to happen"); at least two non-zero terms →
the loop is entered with the invariant. -/
theorem init_cases [Fact p.Prime] (seq : List ℕ) (hr : Red p seq) :
    (seq.length = 0 ∧ initSt seq = none) ∨
    (0 < seq.length ∧ (∀ i, gd seq i = 0) ∧ initSt seq = some none) ∨
    (∃ k, gd seq k ≠ 0 ∧ (∀ i, i ≠ k → gd seq i = 0) ∧
      ((k = 0 ∧ initSt seq = none) ∨ (0 < k ∧ initSt seq = some none))) ∨
    (∃ i j s, i < j ∧ gd seq i ≠ 0 ∧ gd seq j ≠ 0 ∧ initSt seq = some (some s) ∧
      Inv p seq.length (toPoly p seq) s ∧ s.df + s.dg + 2 ≤ 2 * seq.length ∧ 2 ≤ seq.length) := by
  have hp1 : 1 < p := (Fact.out : p.Prime).one_lt
  by_cases hn0 : seq.length = 0
  · left; exact ⟨hn0, by simp [initSt, hn0]⟩
  obtain ⟨df, t1, t2, t3, t4⟩ := lowerDeg_spec seq (seq.length - 1) (by omega)
  have zf : ∀ i, df < i → gd seq i = 0 := fun i hi =>
    if h : i ≤ seq.length - 1 then t3 i hi h else gd_of_le _ _ (by omega)
  have hfdf : seq[df]? = some (gd seq df) := getElem?_of_lt _ _ (by omega)
  by_cases hf0 : gd seq df = 0
  · have hdf0 : df = 0 := t4.resolve_left (not_not.mpr hf0)
    right; left
    refine ⟨by omega, fun i => ?_, ?_⟩
    · by_cases hi : i = 0
      · subst hi; rw [hdf0] at hf0; exact hf0
      · exact zf i (by omega)
    · simp [initSt, hn0, t1, hfdf, hf0]
  by_cases hdf0 : df = 0
  · right; right; left
    subst hdf0
    refine ⟨0, hf0, fun i hi => zf i (by omega), Or.inl ⟨rfl, ?_⟩⟩
    simp [initSt, hn0, t1, hfdf, hf0]
  -- df ≥ 1
  have lg : (List.replicate (seq.length - df) 0 ++ seq.take df).length = seq.length := by
    simp; omega
  obtain ⟨dg, s1, s2, s3, s4⟩ := lowerDeg_spec (List.replicate (seq.length - df) 0 ++ seq.take df)
    (seq.length - 1) (by omega)
  have hgdg : (List.replicate (seq.length - df) 0 ++ seq.take df)[dg]? =
      some (gd (List.replicate (seq.length - df) 0 ++ seq.take df) dg) :=
    getElem?_of_lt _ _ (by omega)
  have hidx : ¬ seq.length ≤ seq.length - df := by omega
  by_cases hg0 : gd (List.replicate (seq.length - df) 0 ++ seq.take df) dg = 0
  · have hdg0 : dg = 0 := s4.resolve_left (not_not.mpr hg0)
    right; right; left
    refine ⟨df, hf0, fun i hi => ?_, Or.inr ⟨by omega, ?_⟩⟩
    · by_cases hid : df < i
      · exact zf i hid
      · have hz : gd (List.replicate (seq.length - df) 0 ++ seq.take df) (i + (seq.length - df)) = 0 := by
          by_cases h0 : i + (seq.length - df) = 0
          · rw [hdg0] at hg0; rw [h0]; exact hg0
          · exact s3 _ (by omega) (by omega)
        rw [gd_shift, if_neg (by omega), if_pos (by omega)] at hz
        rwa [Nat.add_sub_cancel] at hz
    · simp [initSt, hn0, t1, hfdf, hidx, s1, hgdg, hg0]
  · right; right; right
    have hgs := gd_shift seq (seq.length - df) df dg
    have hdglo : ¬ dg < seq.length - df := by
      intro hc; rw [if_pos hc] at hgs; exact hg0 hgs
    rw [if_neg hdglo] at hgs
    have hdghi : dg - (seq.length - df) < df := by
      by_contra hc; rw [if_neg hc] at hgs; exact hg0 hgs
    rw [if_pos hdghi] at hgs
    have zg : ∀ i, dg < i → gd (List.replicate (seq.length - df) 0 ++ seq.take df) i = 0 :=
      fun i hi => if h : i ≤ seq.length - 1 then s3 i hi h else gd_of_le _ _ (by omega)
    refine ⟨dg - (seq.length - df), df,
      { u := (List.replicate seq.length 0).set 0 1, v := (List.replicate seq.length 0).set (seq.length - df) 1,
        f := seq, g := List.replicate (seq.length - df) 0 ++ seq.take df, du := 0,
        dv := seq.length - df, df := df, dg := dg }, hdghi, by rw [← hgs]; exact hg0, hf0, ?_, ?_,
      by show df + dg + 2 ≤ 2 * seq.length; omega, by omega⟩
    · simp [initSt, hn0, t1, hfdf, hf0, hidx, s1, hgdg, hg0]
    · exact
        { lu := by simp
          lv := by simp
          lf := rfl
          lg := lg
          ru := fun i => by
            show gd ((List.replicate seq.length 0).set 0 1) i < p
            rw [gd_unit _ _ _ (by omega)]; split <;> omega
          rv := fun i => by
            show gd ((List.replicate seq.length 0).set (seq.length - df) 1) i < p
            rw [gd_unit _ _ _ (by omega)]; split <;> omega
          rf := hr
          rg := fun i => by
            show gd (List.replicate (seq.length - df) 0 ++ seq.take df) i < p
            rw [gd_shift]
            split
            · omega
            · split
              · exact hr _
              · omega
          zu := fun i hi => by
            show gd ((List.replicate seq.length 0).set 0 1) i = 0
            rw [gd_unit _ _ _ (by omega), if_neg (by change 0 < i at hi; omega)]
          zv := fun i hi => by
            show gd ((List.replicate seq.length 0).set (seq.length - df) 1) i = 0
            rw [gd_unit _ _ _ (by omega), if_neg (by change seq.length - df < i at hi; omega)]
          zf := zf
          zg := zg
          dfn := by show df < seq.length; omega
          dgn := by show dg < seq.length; omega
          b1 := by show 0 + dg ≤ seq.length; omega
          b2 := by show seq.length - df + df ≤ seq.length; omega
          tf := Or.inl hf0
          tg := Or.inl hg0
          hm := by show seq.length / 2 ≤ df ∨ seq.length / 2 ≤ dg; omega
          gh := by
            refine ⟨0, -C (co p seq df), co p seq df, ?_, ?_, ?_, ?_⟩
            · unfold co; rw [Ne, cast_eq_zero_of_lt (hr df)]; exact hf0
            · show toPoly p seq = 0 * X ^ seq.length + toPoly p ((List.replicate seq.length 0).set 0 1) * toPoly p seq
              rw [toPoly_unit _ _ (by omega)]; ring
            · show toPoly p (List.replicate (seq.length - df) 0 ++ seq.take df) =
                -C (co p seq df) * X ^ seq.length +
                  toPoly p ((List.replicate seq.length 0).set (seq.length - df) 1) * toPoly p seq
              rw [toPoly_unit _ _ (by omega)]
              ext k
              rw [coeff_add, neg_mul, coeff_neg, coeff_C_mul_X_pow, coeff_X_pow_mul', coeff_toPoly,
                coeff_toPoly]
              unfold co
              rw [gd_shift]
              by_cases h1 : k < seq.length - df
              · rw [if_pos h1, if_neg (show ¬ k = seq.length by omega),
                  if_neg (show ¬ seq.length - df ≤ k by omega)]; simp
              · rw [if_neg h1, if_pos (show seq.length - df ≤ k by omega)]
                by_cases h2 : k - (seq.length - df) < df
                · rw [if_pos h2, if_neg (show ¬ k = seq.length by omega)]; simp
                · rw [if_neg h2]
                  by_cases h3 : k = seq.length
                  · rw [if_pos h3]
                    have : k - (seq.length - df) = df := by omega
                    rw [this]; simp
                  · rw [if_neg h3, zf _ (by omega)]; simp
            · show 0 * toPoly p ((List.replicate seq.length 0).set (seq.length - df) 1) -
                -C (co p seq df) * toPoly p ((List.replicate seq.length 0).set 0 1) = C (co p seq df)
              rw [toPoly_unit _ 0 (by omega)]; ring }

end Ymq.BM
