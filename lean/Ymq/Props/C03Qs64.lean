/-
C03 / C01 / C11 for `qsieve64::qsieve` (selector `Qs64`): the small hard-coded quadratic sieve is
INSIDE the model (Ymq/Model/Qsieve64.lean mirrors src/qsieve64.rs line by line down to the call of
`relations::final_step`, and the lines after it). Only property theorems live here; helper lemmas:
Ymq/Lemmas/Qsieve64{Valid,Sieve,NoPanic,Total}.lean.

Reading guide. `qsRels n k = .ok o`: with multiplier `k`, the real function reaches either an early
`return Some((a, b))` (`o = .early a b`) or the call `final_step(n, fb, rels)` (`o = .rels fb rels`)
without meeting any panic site of the checked profile (assertion, overflow/underflow, index, division
by zero) and every loop terminates. `qsieve n k kernel isPrime` continues through the model of
`final_step` (C11; the kernel vectors and `pseudoprime` are inputs there). The multiplier `k` is an
input: `select_multiplier` picks it with `f64` arithmetic (not modelled); its integer part guarantees
`1 ≤ k < 30` and `n·k < 2^64`.

What `factor_impl` (lib.rs) guarantees when it calls `qsieve(n)`: `n` fits 64 bits (`assert!`), is
not 1, has no prime factor in `SMALL_PRIMES` (2..199, removed by `factor`; the recursive calls receive
divisors of such numbers), is not a perfect power and not a (pseudo)prime. `Admissible n` keeps the
two facts the proofs need: no prime factor below 200, not a perfect square.
-/
import Ymq.Lemmas.Qsieve64Total
import Ymq.Props.C11
import Ymq.Lemmas.FactorClosed
import Mathlib.Algebra.GCDMonoid.Nat
import Mathlib.Tactic.IntervalCases

namespace Ymq.C03Qs64
open Ymq.Relations Ymq.Qsieve64
open Ymq.Gen.Primality (smallPrimes)

/-- what `factor` / `factor_impl` guarantee about the argument of `qsieve64::qsieve` -/
def Admissible (n : Nat) : Prop := (∀ p ∈ smallPrimes, ¬ p ∣ n) ∧ ∀ s : Nat, n ≠ s * s

/-! ## (a) the relations are true congruences; the result is a proper split -/

/-- Every relation `qsieve` hands to `final_step` — for EVERY `n` and EVERY multiplier `k`, whatever
the sieve marked — is complete (cofactor 1: a pending large cofactor `c` enters only combined with
its partner, as the factor `(c, 2)`) and a true congruence `x² ≡ ∏ pᵉ (mod n)` (sign included as the
base `-1`), with bases `-1` or in `[0, 2^63)`: C11's `FinalRel`, the input contract of the
exponent-accumulation theorem `C11.even_combination_square`. -/
theorem qs64_relations_valid (n k : Nat) (fb : List FbEntry) (rels : List Relation)
    (h : qsRels n k = .ok (.rels fb rels)) :
    ∀ r ∈ rels, r.cofactor = 1 ∧ (r.x : Int) * r.x ≡ fprod r.factors [ZMOD n] ∧
      ∀ f ∈ r.factors, f.1 = -1 ∨ (0 ≤ f.1 ∧ f.1 < (2 ^ 63 : Int)) := by
  intro r hr
  obtain ⟨h1, h2, h3⟩ := qsRels_valid h r hr
  refine ⟨h1, ?_, ?_⟩
  · unfold Valid at h2
    rw [h1] at h2
    simpa using h2
  · intro f hf
    have hI : (I63 : Int) = 2 ^ 63 := by decide
    rw [← hI]; exact h3 f hf

/-- the same in C11's vocabulary -/
theorem qs64_relations_finalRel (n k : Nat) (fb : List FbEntry) (rels : List Relation)
    (h : qsRels n k = .ok (.rels fb rels)) : ∀ r ∈ rels, FinalRel n r :=
  qsRels_valid h

/-- the two early exits of `setup` -/
theorem setup_early {n k a b : Nat} (h : setup n k = .ok (.early a b)) :
    (a = b ∧ n = a * a) ∨ (n * k = b * b ∧ n = a * b ∧ a = b / k) := by
  unfold setup at h
  simp only at h
  split at h
  · simp [throw_ne_ok] at h
  split at h
  · rename_i hsq
    simp only [pure_eq_ok, Setup.early.injEq] at h
    obtain ⟨rfl, rfl⟩ := h
    exact Or.inl ⟨rfl, hsq⟩
  split at h
  · simp [throw_ne_ok] at h
  simp only [bind_eq_ok] at h
  obtain ⟨fb, _, h⟩ := h
  split at h
  · simp [throw_ne_ok] at h
  split at h
  · simp [throw_ne_ok] at h
  split at h
  · simp [throw_ne_ok] at h
  split at h
  · rename_i hex
    simp only [pure_eq_ok, Setup.early.injEq] at h
    obtain ⟨rfl, rfl⟩ := h
    exact Or.inr ⟨hex.1, hex.2, rfl⟩
  split at h
  · simp [throw_ne_ok] at h
  split at h
  · simp [throw_ne_ok] at h
  simp [pure_eq_ok] at h

/-- `UsesQs64` for the model (the hypothesis of Ymq/Lemmas/FactorClosed.lean, in exactly its shape):
when neither `n` nor `n·k` is a perfect square (true for every admissible `n`, `admissible_not_square`)
a result `Some((a, b))` of `qsieve` is `(d, n / d)` for the first element `d` of the list returned by
the modelled `final_step` on the factor base and the relations of the model — which moreover satisfy
C11's input contract `FinalRel`. -/
theorem qs64_uses_final_step (n k : Nat) (kernel : List (List Nat)) (isPrime : Nat → Bool) (a b : Nat)
    (hn : n < 2 ^ 64) (hsq : ∀ s : Nat, n ≠ s * s) (hnk : ∀ s : Nat, n * k ≠ s * s)
    (h : qsieve n k kernel isPrime = .ok (some (a, b))) :
    ∃ fb rels kernel isPrime slots cnt ds,
      finalStep n fb rels kernel isPrime = .ok (slots, cnt, ds) ∧ ds.head? = some a ∧ b = n / a ∧
      ∀ r ∈ rels, FinalRel n r := by
  unfold qsieve at h
  simp only [bind_eq_ok] at h
  obtain ⟨o, ho, h⟩ := h
  cases o with
  | early a' b' =>
    exfalso
    unfold qsRels at ho
    simp only [bind_eq_ok] at ho
    obtain ⟨s, hs, ho⟩ := ho
    cases s with
    | early a'' b'' =>
      rcases setup_early hs with ⟨_, h2⟩ | ⟨h2, _⟩
      · exact hsq _ h2
      · exact hnk _ h2
    | run c =>
      simp only [bind_eq_ok, pure_eq_ok] at ho
      obtain ⟨_, _, ho⟩ := ho
      cases ho
  | rels fb rels =>
    simp only [bind_eq_ok] at h
    obtain ⟨⟨slots, cnt, ds⟩, hfs, h⟩ := h
    simp only at h
    cases hd : ds.head? with
    | none => rw [hd] at h; simp [pure_eq_ok] at h
    | some d =>
      rw [hd] at h
      simp only at h
      have hmem : d ∈ ds := List.mem_of_mem_head? hd
      obtain ⟨_, h2, _⟩ := Ymq.C11.final_step_proper n _ rels kernel isPrime slots cnt ds hfs d hmem
      have hd64 : d % W64 = d := Nat.mod_eq_of_lt (by rw [W64_eq]; omega)
      rw [hd64] at h
      split at h
      · simp [throw_ne_ok] at h
      · split at h
        · simp [throw_ne_ok] at h
        · simp only [pure_eq_ok, Option.some.injEq, Prod.mk.injEq] at h
          obtain ⟨ha, hb⟩ := h
          rw [← ha, ← hb]
          exact ⟨_, rels, kernel, isPrime, slots, cnt, ds, hfs, hd, rfl, qsRels_valid ho⟩

/-- Whenever `qsieve` returns `Some((a, b))` for `30 ≤ n < 2^64` and a multiplier `k < 30`, the pair
is a proper split: `a·b = n`, `1 < a`, `1 < b` — the two early exits (perfect square `n`, perfect
square `n·k`) included; for the main exit this is C11 `final_step_proper`. The bound `30 ≤ n` only
excludes `n = k`, see `qs64_improper_when_n_eq_k`. -/
theorem qs64_proper (n k : Nat) (kernel : List (List Nat)) (isPrime : Nat → Bool) (a b : Nat)
    (hn : n < 2 ^ 64) (hk : k < 30) (hn30 : 30 ≤ n)
    (h : qsieve n k kernel isPrime = .ok (some (a, b))) : a * b = n ∧ 1 < a ∧ 1 < b := by
  unfold qsieve at h
  simp only [bind_eq_ok] at h
  obtain ⟨o, ho, h⟩ := h
  cases o with
  | early a' b' =>
    simp only [pure_eq_ok, Option.some.injEq, Prod.mk.injEq] at h
    obtain ⟨ha, hb⟩ := h
    rw [← ha, ← hb]
    unfold qsRels at ho
    simp only [bind_eq_ok] at ho
    obtain ⟨s, hs, ho⟩ := ho
    cases s with
    | early a'' b'' =>
      simp only [pure_eq_ok, Outcome.early.injEq] at ho
      obtain ⟨ha2, hb2⟩ := ho
      rw [ha2, hb2] at hs
      rcases setup_early hs with ⟨hab, h2⟩ | ⟨h2, h3, h4⟩
      · rw [← hab]
        have h1a : 1 < a' := by
          by_contra hle
          have : a' ≤ 1 := by omega
          have := Nat.mul_le_mul this this
          omega
        exact ⟨h2.symm, h1a, h1a⟩
      · refine ⟨h3.symm, ?_, ?_⟩
        · by_contra hle
          have ha01 : a' = 0 ∨ a' = 1 := by omega
          rcases ha01 with h0 | h1
          · rw [h0] at h3; omega
          · rw [h1, Nat.one_mul] at h3
            rw [← h3] at h2
            have : k = n := Nat.eq_of_mul_eq_mul_left (by omega) h2
            omega
        · by_contra hle
          have hb01 : b' = 0 ∨ b' = 1 := by omega
          rcases hb01 with h0 | h1
          · rw [h0] at h3; omega
          · rw [h1, Nat.mul_one] at h3
            rw [h1] at h4
            have : a' ≤ 1 := by rw [h4]; exact Nat.div_le_self 1 k
            omega
    | run c =>
      simp only [bind_eq_ok, pure_eq_ok] at ho
      obtain ⟨_, _, ho⟩ := ho
      cases ho
  | rels fb rels =>
    simp only [bind_eq_ok] at h
    obtain ⟨⟨slots, cnt, ds⟩, hfs, h⟩ := h
    simp only at h
    cases hd : ds.head? with
    | none => rw [hd] at h; simp [pure_eq_ok] at h
    | some d =>
      rw [hd] at h
      simp only at h
      have hmem : d ∈ ds := List.mem_of_mem_head? hd
      obtain ⟨h1, h2, h3⟩ := Ymq.C11.final_step_proper n _ rels kernel isPrime slots cnt ds hfs d hmem
      have hd64 : d % W64 = d := Nat.mod_eq_of_lt (by rw [W64_eq]; omega)
      rw [hd64] at h
      split at h
      · simp [throw_ne_ok] at h
      · split at h
        · simp [throw_ne_ok] at h
        · simp only [pure_eq_ok, Option.some.injEq, Prod.mk.injEq] at h
          obtain ⟨ha, hb⟩ := h
          rw [← ha, ← hb]
          have hmul : d * (n / d) = n := Nat.mul_div_cancel' h3
          refine ⟨hmul, h1, ?_⟩
          by_contra hle
          have : n / d ≤ 1 := by omega
          have := Nat.mul_le_mul_left d this
          omega

/-- Counter-witness for `n < 30`: when the multiplier equals `n` (then `n·k = n²`) the second early
exit returns `(nsqrt / k, nsqrt) = (1, n)`. The real `select_multiplier` does choose `k = n` for
`n = 6, 15, 21, …` (`qsieve(6) = Some((1, 6))` on the real code, both profiles). Unreachable from
`factor`: such `n` have prime factors below 200. -/
theorem qs64_improper_when_n_eq_k :
    (qsieve 6 6 [] (fun _ => true)).toOption = some (some (1, 6)) := by
  decide +kernel

/-! ## (b) no panic site before `final_step` -/

theorem small_prime_mem : ∀ q, q < 30 → q.Prime → q ∈ smallPrimes := by
  intro q hq hp
  interval_cases q <;> first | decide | (exfalso; revert hp; norm_num)

/-- for an admissible `n` no multiplier below 30 makes `n·k` a perfect square -/
theorem admissible_not_square (n k : Nat) (hk1 : 1 ≤ k) (hk : k < 30) (ha : Admissible n) :
    ∀ s : Nat, n * k ≠ s * s := by
  obtain ⟨hsmall, hns⟩ := ha
  intro s hs
  have hcop : Nat.Coprime n k := by
    rw [Nat.coprime_iff_gcd_eq_one]
    by_contra hg
    obtain ⟨q, hq, hqd⟩ := Nat.exists_prime_and_dvd hg
    have hqn : q ∣ n := dvd_trans hqd (Nat.gcd_dvd_left n k)
    have hqk : q ∣ k := dvd_trans hqd (Nat.gcd_dvd_right n k)
    have : q ≤ k := Nat.le_of_dvd (by omega) hqk
    exact hsmall q (small_prime_mem q (by omega) hq) hqn
  have : ∃ d, n = d ^ 2 := by
    refine exists_eq_pow_of_mul_eq_pow (b := k) (c := s) ?_ (by rw [hs]; ring)
    rw [Nat.isUnit_iff]
    exact hcop
  obtain ⟨d, hd⟩ := this
  exact hns d (by rw [hd]; ring)

/-- `Admissible` from the model of what `factor_impl` tests before it dispatches: no small prime
divides `n` (trial division in `factor`) and `arith::perfect_power(n)` returned `None` (C08 model):
the exponent 2 is tried first, with the exact floor square root. -/
theorem admissible_of_guards (n : Nat) (hsmall : ∀ p ∈ smallPrimes, ¬ p ∣ n)
    (hpp : Ymq.Arith.perfectPower n = some none) : Admissible n := by
  refine ⟨hsmall, ?_⟩
  intro s hs
  unfold Ymq.Arith.perfectPower Ymq.Arith.ppFuel at hpp
  unfold Ymq.Arith.ppExps at hpp
  unfold Ymq.Arith.ppTry at hpp
  have hr : Ymq.Arith.nthRoot n 2 = s := Ymq.Arith.nthRoot_exact n 2 s (by decide) (by rw [hs]; ring)
  rw [hr] at hpp
  have : s ^ 2 = n := by rw [hs]; ring
  rw [if_pos this] at hpp
  split at hpp
  · simp at hpp
  · split at hpp
    · simp at hpp
    · split at hpp <;> simp at hpp
    · simp at hpp

/-- The sieve / relation part of `qsieve` reaches NO panic site, for every `n` and `k` such that
`n·k` fits a `u64` and is not a perfect square: `isqrt² `, `n * k`, `2 * nsqrt`, `nk - nsqrt²`; every
`sqrt_mod` and `Dividers::new` of `FBase::new64` and its assertion (C08); the `i64` expressions
`rt as i64 - offset - nsqrt as i64`, `i as i64 + offset`, `nsqrt as i64 + x`,
`(x + b as i64) * x - c as i64`, `-v`; `Dividers::modi64` / `divmod64` (C08); the `u8` accumulator
`interval[off] += logp` (at most 177, although the `logp` of the whole factor base can add up to
292: the distinct primes `p > 3` that divide the sieved value `V ≠ 0`, `|V| ≤ 2^56`, have product
`≤ |V|`, and each is counted at most twice); `n.bits()/2 + 16 - maxlarge.bits() - 2`; the
trial-division loops terminate because `V ≠ 0`; `dummy_rset.combine` meets equal non-zero cofactors,
its `u64` exponent sums stay below 2·2991. No hypothesis on parity or size of `n` is needed here
(the panics for even or tiny `n` are inside `final_step`, see below). -/
theorem qs64_no_panic_of_nonsquare (n k : Nat) (h64 : n * k < 2 ^ 64)
    (hsq : ∀ s : Nat, n * k ≠ s * s) : ∃ o, qsRels n k = .ok o :=
  qsRels_total h64 hsq

/-- … in particular for every `n` that `factor_impl` can pass and every multiplier inside the
contract of `select_multiplier`. -/
theorem qs64_no_panic (n k : Nat) (hk1 : 1 ≤ k) (hk : k < 30) (h64 : n * k < 2 ^ 64)
    (ha : Admissible n) : ∃ o, qsRels n k = .ok o :=
  qsRels_total h64 (admissible_not_square n k hk1 hk ha)

/-- The hypothesis "`n·k` is not a perfect square" is needed for the MODEL's contract on `k`
(`1 ≤ k < 30`, `n·k < 2^64`): for `n = 18`, `k = 8` (`n·k = 12²`, `12 / 8 · 12 ≠ 18`: no early exit)
the candidate at `x = 0` has `v = 0` and its trial-division loop never terminates (`.fuel`); before
that, in the first block every prime of the base hits that position and `Σ logp = 292` overflows
the `u8` (the driver answers `panic` for `qs64_rels 18 8`; too slow for the kernel). The
real `select_multiplier` prefers the square-free multiplier (`k = 2` for `n = 18`, with an early
exit): no `n` was found for which it selects such a `k` (6783 candidates `n = s·m²` scanned). -/
theorem qs64_square_nk_counterexample :
    (match setup 18 8 with
      | .ok (.run c) =>
        (match candidate c (blockOffset c 0) c.bsize with | .error .fuel => true | _ => false)
      | _ => false) = true := by
  decide +kernel

/-! ## closing the oracle hypothesis `UsesQs64` of the control-flow model -/

/-- the `qs64` field of an oracle of the `Factor` model answers with the model of `qsieve`, for some
multiplier, kernel vectors and primality answers, on a 64-bit `n` such that neither `n` nor `n·k` is
a perfect square (every `n` that `factor_impl` passes, `admissible_of_guards` and
`admissible_not_square`) -/
def Qs64IsModel {σ : Type} (o : Ymq.Factor.Oracle σ) : Prop :=
  ∀ t n a b, (o.qs64 t n).1 = some (a, b) →
    ∃ k kernel isPrime, n < 2 ^ 64 ∧ (∀ s : Nat, n ≠ s * s) ∧ (∀ s : Nat, n * k ≠ s * s) ∧
      qsieve n k kernel isPrime = .ok (some (a, b))

/-- … then the hypothesis `UsesQs64` of Ymq/Lemmas/FactorClosed.lean (so far tied to the code only
by the exploration of C01) holds: "whatever `qs64` returns comes out of the modelled `final_step`". -/
theorem usesQs64_of_model {σ : Type} (o : Ymq.Factor.Oracle σ) (h : Qs64IsModel o) :
    Ymq.Factor.UsesQs64 o := by
  intro t n a b hq
  obtain ⟨k, kernel, isPrime, hn, hsq, hnk, hm⟩ := h t n a b hq
  obtain ⟨fb, rels, kernel', isPrime', slots, cnt, ds, h1, h2, h3, _⟩ :=
    qs64_uses_final_step n k kernel isPrime a b hn hsq hnk hm
  exact ⟨fb, rels, kernel', isPrime', slots, cnt, ds, h1, h2, h3⟩

/-! ## (c) non-vacuity on concrete inputs -/

theorem not_square_of_between {n r : Nat} (h1 : r * r < n) (h2 : n < (r + 1) * (r + 1)) :
    ∀ s : Nat, n ≠ s * s := by
  intro s hs
  rcases Nat.lt_or_ge s (r + 1) with h | h
  · have : s * s ≤ r * r := Nat.mul_le_mul (by omega) (by omega)
    omega
  · have := Nat.mul_le_mul h h
    omega

/-- `n = 47053 = 211·223` is admissible; the real `select_multiplier` chooses `k = 13` for it. -/
example : Admissible 47053 ∧ 1 ≤ 13 ∧ 13 < 30 ∧ 47053 * 13 < 2 ^ 64 :=
  ⟨⟨by decide, not_square_of_between (r := 216) (by norm_num) (by norm_num)⟩, by decide, by decide,
    by norm_num⟩

def ex_r4 : Relation :=
  { x := 3310, cofactor := 1, cyclelen := 1, factors := [(3, 2), (7, 1), (11, 2), (23, 1), (59, 1)] }
def ex_r12 : Relation :=
  { x := 3302, cofactor := 593, cyclelen := 1, factors := [(3, 1), (5, 1), (13, 1), (89, 1)] }
def ex_r93 : Relation :=
  { x := 3221, cofactor := 593, cyclelen := 1, factors := [(2, 4), (3, 1), (7, 3)] }
def ex_rr : Relation :=
  { x := 1764, cofactor := 1, cyclelen := 2,
    factors := [(2, 4), (3, 2), (7, 3), (5, 1), (13, 1), (89, 1), (593, 2)] }

/-- the model on `n = 47053`, `k = 13` (multiplier above 1, `nsqrt = 782`): the candidate at index 4
of the first block (`offset = −4096`) has `u = nsqrt + x = −3310 < 0` and is the complete relation
`3310² ≡ 3²·7·11²·23·59`; the candidates at indices 12 and 93 both have the cofactor 593 and are
combined into a relation in which 593 appears squared. All of them are congruences modulo `n`. -/
example :
    (match setup 47053 13 with
      | .ok (.run c) =>
        decide (c.nsqrt = 782 ∧ blockOffset c 0 = -4096) &&
        decide ((candidate c (blockOffset c 0) 4).toOption = some (some ex_r4)) &&
        decide ((candidate c (blockOffset c 0) 12).toOption = some (some ex_r12)) &&
        decide ((candidate c (blockOffset c 0) 93).toOption = some (some ex_r93)) &&
        decide (((process c ex_r12 { rels := [], larges := [] }).bind (process c ex_r93)).toOption.map
          (fun s => (s.rels, s.larges)) = some ([ex_rr], [(593, ex_r12)])) &&
        decide (Valid 47053 ex_r4 ∧ Valid 47053 ex_r12 ∧ Valid 47053 ex_r93 ∧ Valid 47053 ex_rr)
      | _ => false) = true := by
  decide +kernel

end Ymq.C03Qs64
