/-
SIQS (C12): size bounds on the parameter domain (`SizeDom`): `A`, `n/A` and the exact `C`.
-/
import Mathlib.Tactic.Ring
import Mathlib.Tactic.Linarith
import Mathlib.Tactic.NormNum
import Ymq.Lemmas.PolyBits
namespace Ymq.PolySizes
open Ymq.SiqsPoly Ymq.PolyBits

set_option exponentiation.threshold 1100

/-- the target of `select_siqs_factors`: `max(2000, isqrt(2n or n/2) / (M/2))` -/
def siqsTarget (n : Int) (mm : Nat) : Nat :=
  max 2000 ((if isType2 n then isqrt (n.natAbs / 2) else isqrt (n.natAbs * 2)) / (mm / 2))

/-- the parameter domain on which the size assertions are proved: `0 < n < 2^448`, interval between one
block and 2^20, `A` within a factor 4 of the target (the widest window of `select_a`), at most 32 factors -/
structure SizeDom (n : Int) (mm A nf : Nat) : Prop where
  npos : 0 < n
  nlt : n < 2 ^ 448
  mlo : 32768 ≤ mm
  mhi : mm < 2 ^ 20
  alo : siqsTarget n mm ≤ 4 * A
  ahi : A ≤ 4 * siqsTarget n mm
  nfhi : nf ≤ 32

/-- the rounded root `s` used for the target and what is known about it -/
theorem target_facts {n : Int} {mm A nf : Nat} (d : SizeDom n mm A nf) :
    ∃ s h N : Nat, (N : Int) = n ∧ h = mm / 2 ∧ 16384 ≤ h ∧ h < 2 ^ 19 ∧ N < 2 ^ 448 ∧
      s * s ≤ 2 * N ∧ N ≤ 2 * ((s + 1) * (s + 1)) + 1 ∧
      s < (4 * A + 1) * h ∧ A * h ≤ 4 * max (2000 * h) s ∧ 500 ≤ A := by
  obtain ⟨npos, nlt, mlo, mhi, alo, ahi, _⟩ := d
  set N := n.toNat with hN
  have hNn : (N : Int) = n := by rw [hN]; omega
  have habs : n.natAbs = N := by omega
  have hNlt : N < 2 ^ 448 := by
    have : (N : Int) < 2 ^ 448 := by rw [hNn]; exact nlt
    exact_mod_cast this
  set h := mm / 2 with hh
  have hh1 : 16384 ≤ h := by omega
  have hh2 : h < 2 ^ 19 := by
    have : (2 : Nat) ^ 20 = 2 * 2 ^ 19 := by norm_num
    omega
  set s := (if isType2 n then isqrt (n.natAbs / 2) else isqrt (n.natAbs * 2)) with hs
  have hT : siqsTarget n mm = max 2000 (s / h) := rfl
  have hs1 : s * s ≤ 2 * N ∧ N ≤ 2 * ((s + 1) * (s + 1)) + 1 := by
    rw [hs, habs]
    split
    · obtain ⟨a1, a2⟩ := isqrt_spec (N / 2)
      constructor <;> omega
    · obtain ⟨a1, a2⟩ := isqrt_spec (N * 2)
      constructor <;> omega
  have hdiv1 : s / h * h ≤ s := Nat.div_mul_le_self s h
  have hdiv2 : s < (s / h + 1) * h := by
    have := Nat.div_add_mod s h
    have := Nat.mod_lt s (by omega : 0 < h)
    nlinarith
  refine ⟨s, h, N, hNn, rfl, hh1, hh2, hNlt, hs1.1, hs1.2, ?_, ?_, ?_⟩
  · -- s < (4A+1) h
    have : s / h ≤ 4 * A := le_trans (le_max_right _ _) (hT ▸ alo)
    calc s < (s / h + 1) * h := hdiv2
      _ ≤ (4 * A + 1) * h := Nat.mul_le_mul_right h (by omega)
  · -- A h ≤ 4 max(2000 h, s)
    have h1 : A * h ≤ 4 * (max 2000 (s / h)) * h := Nat.mul_le_mul_right h (hT ▸ ahi)
    have h2 : max 2000 (s / h) * h ≤ max (2000 * h) s := by
      rcases le_total 2000 (s / h) with hc | hc
      · rw [max_eq_right hc]; exact le_trans hdiv1 (le_max_right _ _)
      · rw [max_eq_left hc]; exact le_max_left _ _
    calc A * h ≤ 4 * (max 2000 (s / h)) * h := h1
      _ = 4 * (max 2000 (s / h) * h) := by ring
      _ ≤ 4 * max (2000 * h) s := Nat.mul_le_mul_left 4 h2
  · have : 2000 ≤ 4 * A := le_trans (le_max_left _ _) (hT ▸ alo)
    omega

/-- `A < 2^213` on the domain -/
theorem dom_A_lt {n : Int} {mm A nf : Nat} (d : SizeDom n mm A nf) : A < 2 ^ 213 := by
  obtain ⟨s, h, N, _, _, hh1, hh2, hN, hs1, _, _, hAh, _⟩ := target_facts d
  have hs : s < 2 ^ 225 := by
    by_contra hc
    have hc' : 2 ^ 225 ≤ s := by omega
    have : (2 : Nat) ^ 225 * 2 ^ 225 ≤ s * s := Nat.mul_le_mul hc' hc'
    have e : (2 : Nat) ^ 225 * 2 ^ 225 = 2 * 2 ^ 449 := by norm_num
    have e2 : (2 : Nat) ^ 449 = 2 * 2 ^ 448 := by norm_num
    omega
  have h1 : A * 16384 ≤ A * h := Nat.mul_le_mul_left A hh1
  rcases le_total (2000 * h) s with hc | hc
  · rw [max_eq_right hc] at hAh
    have e : (2 : Nat) ^ 225 = 4096 * 2 ^ 213 := by norm_num
    omega
  · rw [max_eq_left hc] at hAh
    have : A * h ≤ 8000 * h := by omega
    have : A ≤ 8000 := Nat.le_of_mul_le_mul_right this (by omega)
    have : (8000 : Nat) < 2 ^ 213 := by norm_num
    omega

theorem dom_s_lt {n : Int} {mm A nf : Nat} (d : SizeDom n mm A nf) {s N : Nat} (hN : N < 2 ^ 448)
    (hs1 : s * s ≤ 2 * N) : s < 2 ^ 225 := by
  by_contra hc
  have hc' : 2 ^ 225 ≤ s := by omega
  have : (2 : Nat) ^ 225 * 2 ^ 225 ≤ s * s := Nat.mul_le_mul hc' hc'
  have e : (2 : Nat) ^ 225 * 2 ^ 225 = 2 * 2 ^ 449 := by norm_num
  have e2 : (2 : Nat) ^ 449 = 2 * 2 ^ 448 := by norm_num
  omega

/-- `n < 2^252 · A` on the domain -/
theorem dom_n_lt {n : Int} {mm A nf : Nat} (d : SizeDom n mm A nf) : n < 2 ^ 252 * (A : Int) := by
  obtain ⟨s, h, N, hNn, _, hh1, hh2, hN, hs1, hs2, hsA, hAh, hA500⟩ := target_facts d
  have hs := dom_s_lt d hN hs1
  rw [← hNn]
  have goal : N < 2 ^ 252 * A := by
    rcases le_total (2000 * h) s with hc | hc
    · rw [max_eq_right hc] at hAh
      -- s + 1 ≤ 5 A h
      have h5 : s + 1 ≤ 5 * (A * h) := by
        have : (4 * A + 1) * h ≤ 5 * (A * h) := by nlinarith
        omega
      have hsq : (s + 1) * (s + 1) ≤ 5 * (A * h) * (5 * (A * h)) := Nat.mul_le_mul h5 h5
      have hAh2 : A * h < 2 ^ 227 := by
        have e : (2 : Nat) ^ 227 = 4 * 2 ^ 225 := by norm_num
        omega
      have hAhh : A * h * h < 2 ^ 227 * 2 ^ 19 := by
        calc A * h * h ≤ A * h * 2 ^ 19 := Nat.mul_le_mul_left _ (le_of_lt hh2)
          _ < 2 ^ 227 * 2 ^ 19 := Nat.mul_lt_mul_of_pos_right hAh2 (by norm_num)
      -- N ≤ 50 A (A h h) + 1
      have hN2 : N ≤ 50 * (A * (A * h * h)) + 1 := by
        have e : 2 * (5 * (A * h) * (5 * (A * h))) = 50 * (A * (A * h * h)) := by ring
        omega
      have h3 : A * (A * h * h) ≤ A * (2 ^ 227 * 2 ^ 19 - 1) := Nat.mul_le_mul_left A (by omega)
      have e : (2 : Nat) ^ 252 = 64 * (2 ^ 227 * 2 ^ 19) := by norm_num
      have e3 : (2 : Nat) ^ 227 * 2 ^ 19 - 1 + 1 = 2 ^ 227 * 2 ^ 19 := by norm_num
      nlinarith
    · have hs' : s + 1 ≤ 2000 * 2 ^ 19 := by
        have : 2000 * h < 2000 * 2 ^ 19 := by omega
        omega
      have hsq : (s + 1) * (s + 1) ≤ 2000 * 2 ^ 19 * (2000 * 2 ^ 19) := Nat.mul_le_mul hs' hs'
      have e : (2000 : Nat) * 2 ^ 19 * (2000 * 2 ^ 19) < 2 ^ 62 := by norm_num
      have : N < 2 ^ 64 := by
        have : (2 : Nat) ^ 64 = 4 * 2 ^ 62 := by norm_num
        omega
      have : (2 : Nat) ^ 64 ≤ 2 ^ 252 * A := by
        calc (2 : Nat) ^ 64 ≤ 2 ^ 252 * 1 := by norm_num
          _ ≤ 2 ^ 252 * A := Nat.mul_le_mul_left _ (by omega)
      omega
  exact_mod_cast goal

/-- the exact `C` is below `2^254` in absolute value on the domain -/
theorem dom_C_lt {n : Int} {mm A nf : Nat} (d : SizeDom n mm A nf) (b : Int) (hb0 : 0 < b)
    (hb : b ≤ 2 * nf * A) (hdvd : polyM (isType2 n) A ∣ b * b - n) :
    -(2 ^ 254 : Int) < (b * b - n) / polyM (isType2 n) A ∧ (b * b - n) / polyM (isType2 n) A < 2 ^ 254 := by
  have hA := dom_A_lt d
  have hn := dom_n_lt d
  obtain ⟨_, _, _, _, _, _, _, _, _, _, _, _, hA500⟩ := target_facts d
  have hApos : (0 : Int) < A := by exact_mod_cast (by omega : 0 < A)
  set M := polyM (isType2 n) A with hM
  have hMA : (A : Int) ≤ M := by rw [hM, polyM]; split <;> omega
  have hMpos : 0 < M := lt_of_lt_of_le hApos hMA
  obtain ⟨q, hq⟩ := hdvd
  rw [hq, Int.mul_ediv_cancel_left _ hMpos.ne']
  -- |M q| < 2^254 A
  have hb2 : b * b < 2 ^ 254 * (A : Int) := by
    have hb64 : b ≤ 64 * (A : Int) := by
      have : (nf : Int) ≤ 32 := by exact_mod_cast d.nfhi
      nlinarith
    have h1 : b * b ≤ 64 * (A : Int) * (64 * (A : Int)) := by nlinarith
    have hA' : (A : Int) < 2 ^ 213 := by exact_mod_cast hA
    have e : (2 : Int) ^ 254 = 4096 * 2 ^ 213 * 2 ^ 29 := by norm_num
    nlinarith
  have hn0 : 0 < n := d.npos
  have e252 : (2 : Int) ^ 254 = 4 * 2 ^ 252 := by norm_num
  constructor
  · -- M q = b² − n > −n > −2^254 A ≥ −2^254 M
    by_contra hc
    have hc' : q ≤ -(2 ^ 254 : Int) := by omega
    have : M * q ≤ M * -(2 ^ 254 : Int) := Int.mul_le_mul_of_nonneg_left hc' (le_of_lt hMpos)
    nlinarith
  · by_contra hc
    have hc' : (2 ^ 254 : Int) ≤ q := by omega
    have : M * (2 ^ 254 : Int) ≤ M * q := Int.mul_le_mul_of_nonneg_left hc' (le_of_lt hMpos)
    nlinarith

end Ymq.PolySizes
