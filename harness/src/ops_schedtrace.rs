//! Protocol traces of the drivers that C04/C05 model by SHAPES (translate/sched.py -> Ymq/Gen/SchedShape.lean):
//! classical QS (`qsieve::qsieve`), ECM (`ecm::ecm`), class groups (`classgroup::classgroup`), called DIRECTLY (no
//! factor_impl around them), with an abort predicate that records every poll and, for QS, how many relations were
//! added (relation-store history, lock order) since the previous poll.
//!
//! `sched_trace qs  <n> <threads|0> <flip|->`
//! `sched_trace ecm <n> <threads|0> <flip|-> <curves> <b1> <b2>`
//! `sched_trace cg  <D> <threads|0> <flip|->`
//!   flip = k: the predicate answers true from its k-th poll on (0-based); `-`: never.
//! answer: `base=<trace>/<outcome> run=<trace>/<outcome>`  (base = the same call with a predicate that never fires;
//!   when flip is `-` run = base of a second, identical call)
//!   trace   = events joined by `,` (`-` when empty): `a<c>` = c relations added since the previous event (QS only, omitted when 0),
//!             `p0` / `p1` = a poll answered false / true; adds after the last poll appear as a trailing `a<c>`
//!   outcome = `abort` (some poll answered true; the driver must then return its "nothing" value, else `abort!<what came back>`),
//!             `done` (a result came back), `exhausted` (no result, no true poll), `panic`
use crate::util::*;
use std::sync::atomic::{AtomicU64, Ordering};
use std::sync::{Arc, Mutex};
use yamaquasi::relations::verif_hooks as rh;
use yamaquasi::{Preferences, Verbosity};

fn pool(threads: usize) -> Option<rayon::ThreadPool> {
    if threads == 0 {
        None
    } else {
        Some(rayon::ThreadPoolBuilder::new().num_threads(threads).build().unwrap())
    }
}

fn count_adds(h: &[String]) -> usize {
    h.iter().filter(|t| !t.starts_with("new|") && !t.starts_with("final|")).count()
}

/// runs `f` with a recording predicate; returns (trace, any poll answered true, f's result or None on panic)
fn traced<R>(flip: Option<u64>, with_adds: bool, f: impl FnOnce(&Preferences) -> R) -> (String, bool, Option<R>) {
    let mut prefs = Preferences::default();
    prefs.verbosity = Verbosity::Silent;
    let polls = Arc::new(AtomicU64::new(0));
    let events: Arc<Mutex<Vec<String>>> = Arc::new(Mutex::new(vec![]));
    {
        let (polls, events) = (polls.clone(), events.clone());
        prefs.should_abort = Some(Box::new(move || {
            let mut ev = events.lock().unwrap_or_else(|e| e.into_inner());
            if with_adds {
                // chunk the history at every poll (the polls of qsieve() happen in the coordinating thread after the join)
                let h = rh::history_take();
                rh::history_start();
                let c = count_adds(&h);
                if c > 0 {
                    ev.push(format!("a{c}"));
                }
            }
            let c = polls.fetch_add(1, Ordering::SeqCst);
            let fire = flip.map_or(false, |l| c >= l);
            ev.push(if fire { "p1".to_string() } else { "p0".to_string() });
            fire
        }));
    }
    if with_adds {
        rh::history_start();
    }
    let r = std::panic::catch_unwind(std::panic::AssertUnwindSafe(|| f(&prefs)));
    let mut ev = events.lock().unwrap_or_else(|e| e.into_inner()).clone();
    if with_adds {
        let c = count_adds(&rh::history_take());
        if c > 0 {
            ev.push(format!("a{c}"));
        }
    }
    let fired = ev.iter().any(|e| e == "p1");
    let tr = if ev.is_empty() { "-".to_string() } else { ev.join(",") };
    (tr, fired, r.ok())
}

fn outcome(fired: bool, r: Option<Option<String>>) -> String {
    // r: None = panic; Some(None) = the driver's "nothing" value; Some(Some(x)) = a result
    match (fired, r) {
        (_, None) => "panic".to_string(),
        (true, Some(None)) => "abort".to_string(),
        (true, Some(Some(x))) => format!("abort!{x}"),
        (false, Some(Some(_))) => "done".to_string(),
        (false, Some(None)) => "exhausted".to_string(),
    }
}

pub fn handle(op: &str, a: &[&str]) -> Option<String> {
    if op != "sched_trace" {
        return None;
    }
    let drv = *a.first()?;
    let threads: usize = a.get(2)?.parse().ok()?;
    let flip: Option<u64> = match *a.get(3)? {
        "-" => None,
        s => Some(s.parse().ok()?),
    };
    let one = |flip: Option<u64>| -> Option<String> {
        let tp = pool(threads);
        match drv {
            "qs" => {
                let n = uint_of(a.get(1)?)?;
                let (k, _) = yamaquasi::fbase::select_multiplier(n);
                let (tr, fired, r) = traced(flip, true, |p| yamaquasi::qsieve::qsieve(n, k, p, tp.as_ref()));
                // protocol outcome: an abort returns the empty list; otherwise the loop was left by the completion test
                let r = r.map(|v| if fired { if v.is_empty() { None } else { Some("divisors".to_string()) } } else { Some("x".to_string()) });
                Some(format!("{tr}/{}", outcome(fired, r)))
            }
            "ecm" => {
                let n = uint_of(a.get(1)?)?;
                let curves: usize = a.get(4)?.parse().ok()?;
                let b1: usize = a.get(5)?.parse().ok()?;
                let b2: u64 = a.get(6)?.parse().ok()?;
                let (tr, fired, r) = traced(flip, false, |p| yamaquasi::ecm::ecm(n, curves, b1, b2 as f64, p, tp.as_ref()));
                let r = r.map(|o| o.map(|(x, y)| format!("{}", if x < y { x } else { y })));
                // with a pool a curve that passed its poll before the flip may still report: not an error
                let oc = match (fired, &r) {
                    (true, Some(Some(_))) if threads > 0 => "abort+found".to_string(),
                    _ => outcome(fired, r),
                };
                Some(format!("{tr}/{oc}"))
            }
            "cg" => {
                let d: yamaquasi::Int = a.get(1)?.parse().ok()?;
                let (tr, fired, r) = traced(flip, false, |p| yamaquasi::classgroup::classgroup(&d, p, tp.as_ref()).map(|g| g.h.to_string()));
                Some(format!("{tr}/{}", outcome(fired, r)))
            }
            _ => None,
        }
    };
    let base = one(None)?;
    let run = one(flip)?;
    Some(format!("base={base} run={run}"))
}
