/-
C13 — sieve reports list every factor-base prime dividing each candidate.
Only property theorems live here (helper lemmas: Ymq/Lemmas/Sieve*.lean); all of them are about the
executable model Ymq/Model/Sieve.lean of src/sieve.rs and of `fbase::cofactor`.

Reading guide.
* `FB.WF fb` = what `FBase::new` guarantees about the fields the sieve reads: primes strictly
  increasing, in `[2, 2^24)`, `idx_by_log[l]` = index of the first prime of bit length ≥ l
  (`FB.ofPrimes_WF`: the factor bases `FB.ofPrimes ps` used by the correspondence check satisfy it).
  `RootsOK fb r1 r2` = both root tables are reduced (`r < p`; property C12 for the callers).
  `RecycledOK rec` = the `overflows` field of a recycled `SieveTable` has its 32 slots (a Rust type
  invariant: `[(u16, u8); 32]`); the CONTENTS of recycled tables are arbitrary.
* A prime with a single root has `r1 = r2`; the sieve then stores the marker `OFFSET_NONE = 0xffff` in
  the second cursor slot. Cursor slot `2i` belongs to root `r1[i]`, slot `2i+1` to `r2[i]`.
* `f … = some x` means: the Rust routine returns `x` without reaching a panic site (assert,
  debug_assert, overflow check, index check) or an out-of-bounds `get_unchecked`, in either profile.
  `no_panic` proves this for the whole pipeline `new; (sieve_block; next_block)^b; sieve_block; factor
  recovery at any position` on valid inputs (fresh tables); the other theorems say what is returned.
  The theorems of this file quantify over every position `r` of the block; WHICH positions are reported (log
  accumulation, thresholds, u8 accumulators) is modelled in Ymq/Model/SieveLog.lean, theorems in Props/C13Log.lean.
* `Dividers::{modu16, modi64, divmod_uint}` are exact (`%`, `/`) by property C08
  (`Ymq.C08.modu16_spec`, `modi64_spec`); the u16/u32 arithmetic around them is explicit in the model.
-/
import Ymq.Lemmas.SieveRounds
import Ymq.Lemmas.SieveFBase
import Ymq.Lemmas.SieveLogSum

namespace Ymq.C13
open Ymq.Sieve

/-- `cursor_inv`. After `Sieve::new` and `b` rounds of `sieve_block(); next_block()`, the cursor of a
small prime `p < 32768` (index `i`) and root `o` is `c = (o − b·32768) mod p`, reduced (`c < p`):
in the code's representation `(c + b·32768) % p = o`. A missing second root (`r1[i] = r2[i]`) is still
`OFFSET_NONE` (for the primes that are sieved, i.e. cursor index ≥ `idxskip`). Bookkeeping: `blk_no = b`,
`offset = start + b·32768`. Holds for fresh and for recycled tables. -/
theorem cursor_inv (fb : FB) (hfb : fb.WF) (r1 r2 : Array Nat) (hr : RootsOK fb r1 r2)
    (offset : Int) (nblocks : Nat) (recycled : Option (Array Table × Array LTable)) (hrec : RecycledOK recycled)
    (s0 : State) (h0 : Sieve.new offset nblocks fb r1 r2 recycled = some s0)
    (b : Nat) (s : State) (h1 : runBlocks fb b s0 = some s)
    (i p o1 o2 : Nat) (hp : fb.primes[i]? = some p) (hpB : p < 32768)
    (ho1 : r1[i]? = some o1) (ho2 : r2[i]? = some o2) :
    s.blkNo = b ∧ s.offset = offset + b * 32768 ∧
    (∃ c, s.lo[2 * i]? = some c ∧ c < p ∧ (c + b * 32768) % p = o1 ∧
      (c : Int) = ((o1 : Int) - (b : Int) * 32768) % (p : Int)) ∧
    (o1 ≠ o2 → ∃ c, s.lo[2 * i + 1]? = some c ∧ c < p ∧ (c + b * 32768) % p = o2 ∧
      (c : Int) = ((o2 : Int) - (b : Int) * 32768) % (p : Int)) ∧
    (o1 = o2 → s.idxskip ≤ 2 * i + 1 → s.lo[2 * i + 1]? = some NONE) := by
  obtain ⟨nS, hnS⟩ := hfb.ibl_some 16 (by omega)
  obtain ⟨b0, n0, f0, inv0⟩ := new_spec hfb hr hrec hnS h0
  obtain ⟨inv, bk, _, off⟩ := runBlocks_spec hfb hnS b 0 s0 s inv0 h1
  simp only [Nat.zero_add] at inv
  have hi : i < nS := (hfb.ibl_spec 16 i nS p hnS hp).2 ((bitlen_lt_succ_iff p 15).2 (by simpa using hpB))
  have e0 : (2 * i) / 2 = i := by omega
  have e1 : (2 * i + 1) / 2 = i := by omega
  have m0 : (2 * i) % 2 = 0 := by omega
  have m1 : ¬ (2 * i + 1) % 2 = 0 := by omega
  refine ⟨by rw [bk, b0]; simp, by rw [off, f0]; simp [BLOCK], ?_, ?_, ?_⟩
  · obtain ⟨p', a1, a2, hp', h1', h2', hif⟩ := inv.cur.2 (2 * i) (by omega)
    rw [e0] at hp' h1' h2'
    rw [hp] at hp'; rw [ho1] at h1'
    have := Option.some.inj hp'; subst this
    have := Option.some.inj h1'; subst this
    rw [if_pos (Or.inl m0)] at hif
    obtain ⟨c, hc, hlt, hinv⟩ := hif
    simp only [m0, if_true] at hinv
    exact ⟨c, hc, hlt, by simpa [BLOCK] using hinv, cursor_int hlt hinv⟩
  · intro hne
    obtain ⟨p', a1, a2, hp', h1', h2', hif⟩ := inv.cur.2 (2 * i + 1) (by omega)
    rw [e1] at hp' h1' h2'
    rw [hp] at hp'; rw [ho1] at h1'; rw [ho2] at h2'
    have := Option.some.inj hp'; subst this
    have := Option.some.inj h1'; subst this
    have := Option.some.inj h2'; subst this
    rw [if_pos (Or.inr hne)] at hif
    obtain ⟨c, hc, hlt, hinv⟩ := hif
    simp only [m1, if_false] at hinv
    exact ⟨c, hc, hlt, by simpa [BLOCK] using hinv, cursor_int hlt hinv⟩
  · intro heq hge
    obtain ⟨p', a1, a2, hp', h1', h2', hif⟩ := inv.cur.2 (2 * i + 1) (by omega)
    rw [e1] at hp' h1' h2'
    rw [ho1] at h1'; rw [ho2] at h2'
    have := Option.some.inj h1'; subst this
    have := Option.some.inj h2'; subst this
    rw [if_neg (by rintro (hx | hx); exact m1 hx; exact hx heq)] at hif
    exact hif hge

/-- non-vacuity of `cursor_inv`: a factor base crossing the `idxskip` boundary, a single-root prime,
two blocks. -/
example : ((Sieve.new 0 2 (FB.ofPrimes #[2, 3, 5, 7, 11]) #[0, 1, 2, 3, 4] #[1, 2, 2, 5, 9] none).bind
      (runBlocks (FB.ofPrimes #[2, 3, 5, 7, 11]) 2)).map (fun s => (s.lo, s.blkNo)) =
    some (#[0, 1, 0, 1, 1, 65535, 1, 3, 6, 0], 2) := by
  decide +kernel

/-- `small_recovery`. The tests `smooths` applies to a reported position `r < 32768` of block `b`, for a
cursor `c` that satisfies the cursor invariant, hold exactly when `b·32768 + r ≡ o (mod p)`:
`modu16(r) == c` for every `p` (used for `p < 2^14`), and `r == c || r == c + p` for `2^14 ≤ p < 2^15`,
where `c + p` does not overflow `u16`; the marker `OFFSET_NONE` matches no position. -/
theorem small_recovery (p c b o r : Nat) (hc : c < p) (hinv : (c + b * 32768) % p = o) (hr : r < 32768) :
    (r % p = c ↔ (b * 32768 + r) % p = o) ∧
    (16384 ≤ p → p < 32768 →
      (((r = c ∨ r = c + p % 65536) ↔ (b * 32768 + r) % p = o) ∧ c + p < 65536)) ∧
    (r % p ≠ NONE ∨ p > 65535) ∧ r ≠ NONE ∧ r ≠ NONE + p % 65536 := by
  refine ⟨recover_small hc (by simpa [BLOCK] using hinv), ?_, ?_, by unfold NONE; omega, by unfold NONE; omega⟩
  · intro h14 h15
    rw [Nat.mod_eq_of_lt (by omega : p < 65536)]
    have hm := recover_mid (B := b) (r := r) hc (by simp only [BLOCK]; omega) (by simp only [BLOCK]; exact hr)
      (by simp only [BLOCK]; exact hinv)
    simp only [BLOCK] at hm
    exact ⟨hm, by omega⟩
  · by_cases hp : p > 65535
    · exact Or.inr hp
    · left
      have : r % p < p := Nat.mod_lt _ (by omega)
      unfold NONE; omega

example : (5 + 3 * 32768) % 16411 = 98309 % 16411 ∧ (5 : Nat) < 16411 := by decide

/-- `table_recovery` (size classes 16..18). After any sequence of `add(offset, pidx)` on a well-formed
table (`Table.new`, or any table after `reset`), every added pair is returned by the lookup of `smooths`
at its position, except for the pairs of a list `lost` whose length is exactly the number of overflows
counted beyond the 32 overflow slots (`n_overflows − 32`, truncated at 0): nothing is lost while
`n_overflows ≤ 32`. -/
theorem table_recovery (t0 t : Table) (hwf : t0.WF) (h0 : t0.nOverflows = 0) (adds : List (Nat × Nat))
    (h : adds.foldlM (fun t a => t.add a.1 a.2) t0 = some t) :
    ∃ lost : List (Nat × Nat), lost.length = t.nOverflows - 32 ∧
      ∀ a ∈ adds, a ∈ lost ∨
        ∀ blkNo r l, a.1 = blkNo * 32768 + r → r < 32768 → t.lookup (blkNo * 32768) r = some l →
          a.2 % 256 ∈ l ∧ ∀ idx1 idx2, idx1 ≤ a.2 → a.2 < idx2 → a.2 ∈ candidates idx1 idx2 (a.2 % 256) := by
  obtain ⟨w, _, _, _, _, lost, hlen, hc⟩ := Table.foldl_pairs_rec adds t0 t hwf h
  refine ⟨lost, by rw [hlen, h0]; omega, ?_⟩
  intro a ha
  rcases hc a ha with hh | hl
  · right
    intro blkNo r l ha1 hr hl
    refine ⟨?_, fun idx1 idx2 h1 h2 => mem_candidates h1 h2⟩
    have hh' : t.Has (blkNo * BLOCK + r) (a.2 % 256) := by simpa [BLOCK, ← ha1] using hh
    exact Table.lookup_of_has w (by simpa [BLOCK] using hr) (by simpa [BLOCK] using hl) hh'
  · exact Or.inl hl

/-- `table_recovery` (size classes ≥ 19): `SieveTableLarge` never loses an entry (its overflow vector
is unbounded and searched for every reported position). -/
theorem large_table_recovery (t0 t : LTable) (hwf : t0.WF) (adds : List (Nat × Nat))
    (h : adds.foldlM (fun t a => t.add a.1 a.2) t0 = some t) :
    ∀ a ∈ adds, ∀ blkNo r l, a.1 = blkNo * 32768 + r → r < 32768 → t.lookup blkNo r = some l →
      a.2 % 65536 ∈ l ∧ ∀ len, a.2 < len → a.2 ∈ lcandidates len (a.2 % 65536) := by
  obtain ⟨_, _, hc, _⟩ := LTable.foldl_pairs_spec adds t0 t hwf h
  intro a ha blkNo r l ha1 hr hl
  refine ⟨?_, fun len hlen => mem_lcandidates hlen⟩
  have hh : t.Has (blkNo * BLOCK + r) (a.2 % 65536) := by simpa [BLOCK, ← ha1] using hc a ha
  exact LTable.lookup_of_has (by simpa [BLOCK] using hr) hl hh

/-- non-vacuity: 34 adds into one bucket of a fresh table: 32 in the bucket, 2 in overflow slots. -/
example : (do
      let t ← ((List.range 34).map fun k => (k, 300 + k)).foldlM (fun (t : Table) (a : Nat × Nat) => t.add a.1 a.2) (Table.new 1)
      let l ← t.lookup 0 33
      some (t.nOverflows, l)) = some (2, [77]) := by
  decide +kernel

/-- `recycled_clean`. `reset` only clears the counters, yet (1) right after `reset` every lookup is empty
whatever the arrays still contain, and (2) after `reset` and any sequence of adds, every pair the lookup
can see was added after the reset (bucket lengths and `n_overflows` are the only source of truth).
Same for `SieveTableLarge`. The recycled path of `Sieve::new` is covered by `listed_complete`, which holds
for arbitrary recycled contents. -/
theorem recycled_clean (t : Table) (hsz : t.overflows.size = 32) :
    (∀ base r l, t.reset.lookup base r = some l → l = []) ∧
    (∀ (adds : List (Nat × Nat)) (t' : Table), adds.foldlM (fun t a => t.add a.1 a.2) t.reset = some t' →
      ∀ off p8, t'.Has off p8 → ∃ a ∈ adds, off % 32768 = a.1 % 32768 ∧ p8 = a.2 % 256) ∧
    (∀ (lt : LTable),
      (∀ blkNo r l, lt.reset.lookup blkNo r = some l → l = []) ∧
      (∀ (adds : List (Nat × Nat)) (lt' : LTable), adds.foldlM (fun t a => t.add a.1 a.2) lt.reset = some lt' →
        ∀ off p16, lt'.Has off p16 → ∃ a ∈ adds, off % 32768 = a.1 % 32768 ∧ p16 = a.2 % 65536)) := by
  refine ⟨fun base r l h => Table.reset_lookup t base r l h, ?_, ?_⟩
  · intro adds t' h off p8 hh
    rcases Table.foldl_pairs_sound adds _ t' (Table.reset_WF t hsz) h off p8 hh with h1 | h1
    · exact absurd h1 (Table.reset_not_has t off p8)
    · simpa [BLOCK] using h1
  · intro lt
    refine ⟨fun blkNo r l h => LTable.reset_lookup lt blkNo r l h, ?_⟩
    intro adds lt' h off p16 hh
    rcases (LTable.foldl_pairs_spec adds _ lt' (LTable.reset_WF lt) h).2.2.2 off p16 hh with h1 | h1
    · exact absurd h1 (LTable.reset_not_has lt off p16)
    · simpa [BLOCK] using h1

/-- non-vacuity: a table with a stale entry and stale bucket contents shows nothing after `reset`. -/
example : (do
      let t ← (Table.new 1).add 5 7
      some (t.lookup 0 5, t.reset.lookup 0 5, t.reset.entries[0]?)) = some (some [7], some [], some (5, 7)) := by
  decide +kernel

/-- the factor lists are complete in a state satisfying the invariant (general form: covers `new`,
recycled tables and `rehash`). `B` = blocks sieved since `new` (cursors, roots `rS`), `s.blkNo` = block
number inside the interval registered in the bucket tables (roots `rL`). -/
theorem listed_complete_inv {fb : FB} {nS B : Nat} {rS1 rS2 rL1 rL2 : Array Nat} {s1 s : State}
    (hfb : fb.WF) (hnS : fb.ibl[16]? = some nS) (hinv : Inv fb nS rS1 rS2 rL1 rL2 B s1)
    (hblk : s1.blkNo < s1.nblocks) (hN : s1.nblocks ≤ 2 ^ 17) (h2 : sieveBlock fb s1 = some s) :
    ∃ lost : Nat → List (Nat × Nat),
      (∀ (ti : Nat) (t : Table), s.tables[ti]? = some t → (lost ti).length = t.nOverflows - 32) ∧
      ∀ r, r < 32768 → ∀ facs, factorsOf fb s rL1 rL2 r = some facs →
        ∀ pidx p o, fb.primes[pidx]? = some p →
          ((p < 32768 → (rS1[pidx]? = some o ∨ rS2[pidx]? = some o) → (B * 32768 + r) % p = o → pidx ∈ facs) ∧
           (32768 ≤ p → (rL1[pidx]? = some o ∨ rL2[pidx]? = some o) → (s1.blkNo * 32768 + r) % p = o →
              pidx ∈ facs ∨ (16 ≤ bitlen p ∧ bitlen p ≤ 18 ∧
                (s1.blkNo * 32768 + r, pidx % 2 ^ 32) ∈ lost (bitlen p - 16)))) := by
  obtain ⟨_, hprev, hb, hn, _, htab, hltab, _⟩ := sieveBlock_spec hfb hnS hinv h2
  have htabs := hinv.tabs
  rw [← htab, ← hltab, ← hn] at htabs
  have htsize := hinv.tsize
  rw [← htab, ← hltab] at htsize
  -- one `lost` list per size-class table
  have hex : ∀ ti : Nat, ∃ lost : List (Nat × Nat), ∀ t : Table, s.tables[ti]? = some t →
      lost.length = t.nOverflows - 32 ∧ ∀ pidx p x, fb.primes[pidx]? = some p → bitlen p = ti + 16 →
        IsHit fb rL1 rL2 (s.nblocks * BLOCK) pidx x → t.Has x (pidx % 256) ∨ (x, pidx % 2 ^ 32) ∈ lost := by
    intro ti
    cases ht : s.tables[ti]? with
    | none => exact ⟨[], fun t h => by simp at h⟩
    | some t =>
      obtain ⟨_, lost, hl, hc⟩ := htabs.1 ti t ht
      exact ⟨lost, fun t' h' => by rw [← Option.some.inj h']; exact ⟨hl, hc⟩⟩
  choose lost hlost using hex
  refine ⟨lost, fun ti t ht => (hlost ti t ht).1, ?_⟩
  intro r hr facs hf pidx p o hp
  have hblk' : s.blkNo < 2 ^ 17 := by rw [hb]; omega
  obtain ⟨c1, c2, c3⟩ := factorsOf_complete hfb hnS hprev htsize hblk' (by simpa [BLOCK] using hr) hf hp
  refine ⟨fun hpB hroot hx => c1 (by simpa [BLOCK] using hpB) o hroot (by simpa [BLOCK] using hx), ?_⟩
  intro hpB hroot hx
  obtain ⟨maxprime, hmax, hts, hls⟩ := htsize
  have hpm := bitlen_mono (hfb.le_back hp hmax)
  have h16 : 16 ≤ bitlen p := by
    by_contra hc
    have := (bitlen_lt_succ_iff p 15).1 (by omega)
    omega
  have hx' : (s.blkNo * BLOCK + r) % p = o := by rw [hb]; simpa [BLOCK] using hx
  have hp0 := hfb.ge2 _ _ hp
  have hhit : IsHit fb rL1 rL2 (s.nblocks * BLOCK) pidx (s.blkNo * BLOCK + r) := by
    refine ⟨p, o, hp, hroot, ?_, (s.blkNo * BLOCK + r) / p, ?_⟩
    · rw [hb, hn]
      have : (s1.blkNo + 1) * BLOCK ≤ s1.nblocks * BLOCK := Nat.mul_le_mul_right _ hblk
      simp only [BLOCK] at this ⊢; omega
    · have := Nat.div_add_mod (s.blkNo * BLOCK + r) p
      rw [hx'] at this
      rw [Nat.mul_comm] at this; omega
  by_cases h18 : bitlen p ≤ 18
  · have hti : bitlen p - 16 < s.tables.size := by omega
    obtain ⟨hwf, _⟩ := htabs.1 _ _ (Array.getElem?_eq_getElem hti)
    rcases (hlost _ _ (Array.getElem?_eq_getElem hti)).2 pidx p _ hp (by omega) hhit with hh | hl
    · exact Or.inl (c2 _ _ (Array.getElem?_eq_getElem hti) hwf (by omega) o hroot hx' hh)
    · right
      refine ⟨h16, h18, ?_⟩
      rw [hb] at hl
      simpa [BLOCK] using hl
  · have hli : bitlen p - 19 < s.ltables.size := by omega
    have hh := (htabs.2 _ _ (Array.getElem?_eq_getElem hli)).2 pidx p _ hp (by omega) hhit
    exact Or.inl (c3 _ _ (Array.getElem?_eq_getElem hli) (by omega) o hroot hx' hh)

/-- `listed_complete`. After `Sieve::new` (fresh or recycled tables with ARBITRARY contents), `b < nblocks`
rounds of `sieve_block(); next_block()` and one more `sieve_block()`, the factor list `smooths` attaches to
ANY position `r` of the block contains every factor-base prime index `pidx` such that
`b·32768 + r ≡ o (mod p)` for one of its two roots `o` — except, for the size classes 16..18, the pairs of
a list `lost ti` whose length is the counted overflow excess `n_overflows − 32` of the table of the class.
Primes below 32768 and primes of bit length ≥ 19 are never missed. -/
theorem listed_complete (fb : FB) (hfb : fb.WF) (r1 r2 : Array Nat) (hr : RootsOK fb r1 r2)
    (offset : Int) (nblocks : Nat) (hN : nblocks ≤ 2 ^ 17)
    (recycled : Option (Array Table × Array LTable)) (hrec : RecycledOK recycled)
    (s0 : State) (h0 : Sieve.new offset nblocks fb r1 r2 recycled = some s0)
    (b : Nat) (hb : b < nblocks) (s1 : State) (h1 : runBlocks fb b s0 = some s1)
    (s : State) (h2 : sieveBlock fb s1 = some s) :
    ∃ lost : Nat → List (Nat × Nat),
      (∀ (ti : Nat) (t : Table), s.tables[ti]? = some t → (lost ti).length = t.nOverflows - 32) ∧
      ∀ r, r < 32768 → ∀ facs, factorsOf fb s r1 r2 r = some facs →
        ∀ pidx p o, fb.primes[pidx]? = some p → (r1[pidx]? = some o ∨ r2[pidx]? = some o) →
          (b * 32768 + r) % p = o →
          pidx ∈ facs ∨ (16 ≤ bitlen p ∧ bitlen p ≤ 18 ∧ (b * 32768 + r, pidx % 2 ^ 32) ∈ lost (bitlen p - 16)) := by
  obtain ⟨nS, hnS⟩ := hfb.ibl_some 16 (by omega)
  obtain ⟨b0, n0, _, inv0⟩ := new_spec hfb hr hrec hnS h0
  obtain ⟨inv, bk, nb, _⟩ := runBlocks_spec hfb hnS b 0 s0 s1 inv0 h1
  simp only [Nat.zero_add] at inv
  have hbk : s1.blkNo = b := by rw [bk, b0]; simp
  obtain ⟨lost, hl, hc⟩ := listed_complete_inv hfb hnS inv (by rw [hbk, nb, n0]; exact hb)
    (by rw [nb, n0]; exact hN) h2
  refine ⟨lost, hl, ?_⟩
  intro r hr' facs hf pidx p o hp hroot hx
  obtain ⟨c1, c2⟩ := hc r hr' facs hf pidx p o hp
  by_cases hpB : p < 32768
  · exact Or.inl (c1 hpB hroot hx)
  · rw [hbk] at c2
    exact c2 (by omega) hroot hx

/-- `listed_complete` for the classical quadratic sieve, ANY number of `rehash` calls: the caller sieves a
full interval (`nblocks` rounds), shifts the roots by the interval length and calls `rehash`, again and
again (`rehashRounds fb nblocks rs`, one root table of `rs` per `rehash`, `rs ≠ []`). The cursors of the
small primes run on from the roots `r1`, `r2` given to `new` (`rs.length·nblocks + b` blocks since `new`);
the bucket tables hold the roots `(r1', r2')` of the LAST `rehash` (block number `b` inside the current
interval). No hypothesis relates the tables of `rs` to each other or to `r1`, `r2` (the caller's shift
`r' = (r − nblocks·32768) mod p` makes the two congruences below the same one). -/
theorem listed_complete_rehash (fb : FB) (hfb : fb.WF) (r1 r2 : Array Nat) (hr : RootsOK fb r1 r2)
    (offset : Int) (nblocks : Nat) (hN : nblocks ≤ 2 ^ 17)
    (recycled : Option (Array Table × Array LTable)) (hrec : RecycledOK recycled)
    (rs : List (Array Nat × Array Nat)) (hrs : rs ≠ []) (r1' r2' : Array Nat)
    (hlast : rs.getLast? = some (r1', r2'))
    (s0 sb : State) (h0 : Sieve.new offset nblocks fb r1 r2 recycled = some s0)
    (hb : rehashRounds fb nblocks rs s0 = some sb)
    (b : Nat) (hbn : b < nblocks) (s1 : State) (h1 : runBlocks fb b sb = some s1)
    (s : State) (h2 : sieveBlock fb s1 = some s) :
    ∃ lost : Nat → List (Nat × Nat),
      (∀ (ti : Nat) (t : Table), s.tables[ti]? = some t → (lost ti).length = t.nOverflows - 32) ∧
      ∀ r, r < 32768 → ∀ facs, factorsOf fb s r1' r2' r = some facs →
        ∀ pidx p o, fb.primes[pidx]? = some p →
          ((p < 32768 → (r1[pidx]? = some o ∨ r2[pidx]? = some o) →
              ((rs.length * nblocks + b) * 32768 + r) % p = o → pidx ∈ facs) ∧
           (32768 ≤ p → (r1'[pidx]? = some o ∨ r2'[pidx]? = some o) → (b * 32768 + r) % p = o →
              pidx ∈ facs ∨ (16 ≤ bitlen p ∧ bitlen p ≤ 18 ∧
                (b * 32768 + r, pidx % 2 ^ 32) ∈ lost (bitlen p - 16)))) := by
  obtain ⟨nS, hnS⟩ := hfb.ibl_some 16 (by omega)
  obtain ⟨_, n0, _, inv0⟩ := new_spec hfb hr hrec hnS h0
  obtain ⟨invb, nb, bkb, _⟩ := rehashRounds_spec hfb hnS rs (r1, r2) 0 s0 sb inv0 n0 hb
  have hl : lastRoots rs (r1, r2) = (r1', r2') := by simp [lastRoots, hlast]
  rw [hl] at invb
  obtain ⟨inv, bk, n1, _⟩ := runBlocks_spec hfb hnS b _ sb s1 invb h1
  simp only [Nat.zero_add] at inv
  have hbk : s1.blkNo = b := by rw [bk, bkb hrs]; simp
  have hn1 : s1.nblocks = nblocks := by rw [n1, nb]
  obtain ⟨lost, hlo, hc⟩ := listed_complete_inv hfb hnS inv (by rw [hbk, hn1]; exact hbn)
    (by rw [hn1]; exact hN) h2
  refine ⟨lost, hlo, ?_⟩
  intro r hr' facs hf pidx p o hp
  have := hc r hr' facs hf pidx p o hp
  rw [hbk] at this
  exact this

/-- non-vacuity of `listed_complete_rehash`: two `rehash` rounds on a base with a prime of size class 16. -/
example : ((Sieve.new 0 1 (FB.ofPrimes #[2, 5, 32771]) #[0, 3, 7] #[1, 4, 100] none).bind
      (rehashRounds (FB.ofPrimes #[2, 5, 32771]) 1 [(#[0, 0, 10], #[1, 1, 103]), (#[0, 2, 13], #[1, 3, 106])])).map
      (fun s => (s.blkNo, s.lo)) = some (0, #[0, 1, 2, 3])  := by
  decide +kernel

/-- non-vacuity of `listed_complete`: one prime of size class 16 (two roots), one block: position 7 lists
prime index 2 (= 32771, root 7), position 3 lists index 1 (= 5, root 3). -/
example : (do
      let s0 ← Sieve.new 0 1 (FB.ofPrimes #[2, 5, 32771]) #[0, 3, 7] #[1, 4, 100] none
      let s ← sieveBlock (FB.ofPrimes #[2, 5, 32771]) s0
      some (factorsOf (FB.ofPrimes #[2, 5, 32771]) s #[0, 3, 7] #[1, 4, 100] 7,
            factorsOf (FB.ofPrimes #[2, 5, 32771]) s #[0, 3, 7] #[1, 4, 100] 3)) = some (some [0, 2], some [0, 1]) := by
  decide +kernel

example : (FB.ofPrimes #[2, 5, 32771]).WF ∧ RootsOK (FB.ofPrimes #[2, 5, 32771]) #[0, 3, 7] #[1, 4, 100] ∧
    RecycledOK none := by
  refine ⟨FB.ofPrimes_WF _ (by decide) (by decide), ?_, fun _ _ h => by simp at h⟩
  intro i p hp
  have hi : i < 3 := (Array.getElem?_eq_some_iff.1 hp).1
  have : i = 0 ∨ i = 1 ∨ i = 2 := by omega
  rcases this with rfl | rfl | rfl <;> simp [FB.ofPrimes] at hp <;> subst hp <;> simp

/-- `no_panic`. On valid inputs — well-formed non-empty factor base, reduced roots, two different roots for
every prime ≥ 32768 (the debug assertion of `new`), at most 2^17 blocks (interval ≤ 2^32), a start offset
within ±2^62, fresh tables OR recycled tables of a sieve with the same factor base and number of blocks
(arbitrary contents) — no panic site of the modelled code is reached: `Sieve::new` returns, and for every
block `b < nblocks` the `b` rounds `sieve_block(); next_block()`, the next `sieve_block()`, the factor
recovery of `smooths` at EVERY position of the block and the following `next_block()` all return
(no underflow in `len - p - m`, no `u16`/`u32` overflow, every checked index and every `get_unchecked`
index in range, all loops terminate). The tables of every state reached can be recycled again
(`RecycledSized … (some (recycle s2))`), so the statement chains over any number of polynomials. -/
theorem no_panic (fb : FB) (hfb : fb.WF) (hne : fb.primes.size ≠ 0) (r1 r2 : Array Nat)
    (hr : RootsOK fb r1 r2) (hd : RootsDistinct fb r1 r2) (offset : Int) (ho1 : -2 ^ 62 ≤ offset)
    (ho2 : offset ≤ 2 ^ 62) (nblocks : Nat) (hN : nblocks ≤ 2 ^ 17)
    (recycled : Option (Array Table × Array LTable)) (hrec : RecycledSized fb nblocks recycled) :
    ∃ s0, Sieve.new offset nblocks fb r1 r2 recycled = some s0 ∧
      RecycledSized fb nblocks (some (recycle s0)) ∧
      ∀ b, b < nblocks → ∃ s1 s s2, runBlocks fb b s0 = some s1 ∧ sieveBlock fb s1 = some s ∧
        (∀ r, r < 32768 → ∃ facs, factorsOf fb s r1 r2 r = some facs) ∧ nextBlock s = some s2 ∧
        RecycledSized fb nblocks (some (recycle s2)) := by
  obtain ⟨nS, hnS⟩ := hfb.ibl_some 16 (by omega)
  obtain ⟨s0, h0, hsz0, hsk0⟩ := new_total' (offset := offset) hfb hne hr hd hN hnS hrec
  obtain ⟨b0, n0, f0, inv0⟩ := new_spec hfb hr hrec.ok hnS h0
  refine ⟨s0, h0, recycle_sized inv0 hsz0, ?_⟩
  intro b hb
  have hb17 : (b : Int) < 2 ^ 17 := by exact_mod_cast (by omega : b < 2 ^ 17)
  obtain ⟨s1, s, s2, h1, h2, h3, h4, inv2, sz2, _, _⟩ := run_some hfb hnS hr hN b 0 s0 inv0 hsz0 hsk0
    (by rw [b0]; omega) (by rw [f0]; omega)
  exact ⟨s1, s, s2, h1, h2, h4, h3, recycle_sized inv2 sz2⟩

/-- `no_panic` for the classical quadratic sieve, any number of `rehash` calls: after every full interval,
`rehash` with ANY reduced root table returns (it has no assertion on the roots), and so do the blocks of
the following interval, their factor recovery and `next_block`, as long as the running offset stays inside
`i64` (`(rs.length + 1)·nblocks ≤ 2^40` blocks). -/
theorem no_panic_rehash (fb : FB) (hfb : fb.WF) (hne : fb.primes.size ≠ 0) (r1 r2 : Array Nat)
    (hr : RootsOK fb r1 r2) (hd : RootsDistinct fb r1 r2)
    (rs : List (Array Nat × Array Nat)) (hrs : ∀ r ∈ rs, RootsOK fb r.1 r.2)
    (offset : Int) (ho1 : -2 ^ 62 ≤ offset) (ho2 : offset ≤ 2 ^ 62) (nblocks : Nat) (hN : nblocks ≤ 2 ^ 17)
    (hrounds : (rs.length + 1) * nblocks ≤ 2 ^ 40)
    (recycled : Option (Array Table × Array LTable)) (hrec : RecycledSized fb nblocks recycled) :
    ∃ s0 sb, Sieve.new offset nblocks fb r1 r2 recycled = some s0 ∧ rehashRounds fb nblocks rs s0 = some sb ∧
      ∀ b, b < nblocks → ∃ s1 s s2, runBlocks fb b sb = some s1 ∧ sieveBlock fb s1 = some s ∧
        (∀ r, r < 32768 → ∃ facs,
          factorsOf fb s (lastRoots rs (r1, r2)).1 (lastRoots rs (r1, r2)).2 r = some facs) ∧
        nextBlock s = some s2 := by
  obtain ⟨nS, hnS⟩ := hfb.ibl_some 16 (by omega)
  obtain ⟨s0, h0, hsz0, hsk0⟩ := new_total' (offset := offset) hfb hne hr hd hN hnS hrec
  obtain ⟨b0, n0, f0, inv0⟩ := new_spec hfb hr hrec.ok hnS h0
  have hR : ((rs.length * nblocks : Nat) : Int) + (nblocks : Int) ≤ 2 ^ 40 := by
    have : rs.length * nblocks + nblocks ≤ 2 ^ 40 := by
      have e : (rs.length + 1) * nblocks = rs.length * nblocks + nblocks := by ring
      omega
    exact_mod_cast this
  have hnn : (0 : Int) ≤ (nblocks : Int) := by positivity
  obtain ⟨sb, hb, szb, skb, ofb, bkb⟩ := rehashRounds_some hfb hnS rs (r1, r2) 0 s0 hrs inv0 hsz0 hsk0 b0
    (by rw [f0]; omega)
  obtain ⟨invb, _, _, _⟩ := rehashRounds_spec hfb hnS rs (r1, r2) 0 s0 sb inv0 n0 hb
  have hlr : RootsOK fb (lastRoots rs (r1, r2)).1 (lastRoots rs (r1, r2)).2 := by
    unfold lastRoots
    cases hl : rs.getLast? with
    | none => simpa using hr
    | some x => simpa using hrs x (List.mem_of_getLast? hl)
  refine ⟨s0, sb, h0, hb, ?_⟩
  intro b hbn
  have hb17 : (b : Int) < (nblocks : Int) := by exact_mod_cast hbn
  obtain ⟨s1, s, s2, h1, h2, h3, h4, _⟩ := run_some hfb hnS hlr hN b _ sb invb szb (by rw [skb]; exact hsk0)
    (by rw [bkb]; omega) (by rw [ofb, f0]; omega)
  exact ⟨s1, s, s2, h1, h2, h4, h3⟩

/-- `cofactor_no_panic`. `fbase::cofactor` returns (no index panic, no `u64` overflow, the trial-division loop
terminates, the debug assertion `!certainly_composite(cofactor)` holds) when: the value is non-zero and below
`2^256` (`I256`), every listed index is inside the non-empty factor base (primes ≥ 2), `maxlarge < 2^32`
(asserted by the callers), and — the comment "Must be prime" of the code, named hypothesis — every divisor
of the value that is ≤ `maxlarge` and divisible by no listed prime is 1 or a prime (true when the list is
complete, `listed_complete`, and `maxlarge` is below the square of the largest factor-base prime).
For every behaviour of `try_factor64`. (`certainlyComposite_prime`: the Fermat test of
`certainly_composite`, modelled on the Montgomery routines of C07, accepts every prime below 2^64.) -/
theorem cofactor_no_panic (primes : Array Nat) (hp2 : ∀ (i pp : Nat), primes[i]? = some pp → 2 ≤ pp)
    (hne : primes.size ≠ 0) (x : Int) (hx : x ≠ 0) (hx256 : x.natAbs < 2 ^ 256) (facs : List Nat)
    (hfacs : ∀ pidx ∈ facs, pidx < primes.size) (maxlarge : Nat) (hml : maxlarge < 2 ^ 32) (double : Bool)
    (tf : Nat → Option (Nat × Nat))
    (must_be_prime : ∀ c : Nat, c ∣ x.natAbs → c ≤ maxlarge →
      (∀ pidx ∈ facs, ∀ pp, primes[pidx]? = some pp → ¬ pp ∣ c) → c = 1 ∨ c.Prime) :
    ∃ r, cofactor primes x facs maxlarge double tf = some r :=
  cofactor_some hp2 hne hfacs hx hx256 hml must_be_prime

/-- non-vacuity of `cofactor_no_panic`'s arithmetic core: 1009 passes the Fermat test of the model. -/
example : certainlyComposite 1009 = some false ∧ certainlyComposite 1007 = some true := by decide +kernel

/-- `fbase_new_classes`. The `idx_by_log` table as `FBase::new` fills it (incrementally, while pushing the
primes) is the documented one, and it partitions the factor base by bit length: for primes strictly
increasing in `[2, 2^24)` the loop never writes outside its 26 entries, returns `mkIbl`, the result is a
well-formed factor base (`FB.WF`, the hypothesis of the sieve theorems), and prime `i` lies in
`[idx_by_log[l], idx_by_log[l+1])` exactly when its bit length is `l` — in particular
`i < idx_by_log[15] ⇔ p < 2^14`, `i < idx_by_log[16] ⇔ p < 2^15 = BLOCK_SIZE`, size class `l ≥ 16` ⇔
`2^(l-1) ≤ p < 2^l`: the class boundaries `Sieve::new`, `sieve_block` and `smooths` rely on. -/
theorem fbase_new_classes (ps : Array Nat) (hs : ps.toList.Pairwise (· < ·))
    (hr : ∀ p ∈ ps.toList, 2 ≤ p ∧ p < 2 ^ 24) :
    ∃ ibl, fbaseIbl ps.toList = some ibl ∧ ibl = mkIbl ps ∧ FB.WF { primes := ps, ibl := ibl } ∧
      ∀ (l i v v' p : Nat), ibl[l]? = some v → ibl[l + 1]? = some v' → ps[i]? = some p →
        ((v ≤ i ∧ i < v') ↔ bitlen p = l) ∧ (i < v' ↔ p < 2 ^ l) := by
  have h := fbaseIbl_eq ps.toList hs (fun p hp => (hr p hp).2)
  have hwf := fbase_new_WF ps _ hs hr h
  refine ⟨_, h, by simp, hwf, ?_⟩
  intro l i v v' p h1 h2 hp
  refine ⟨hwf.class_of (fb := { primes := ps, ibl := mkIbl ps.toList.toArray }) hp h1 h2, ?_⟩
  rw [hwf.ibl_spec (l + 1) i v' p h2 hp]
  exact bitlen_lt_succ_iff p l

example : fbaseIbl [2, 3, 5, 7, 11, 4099, 65537] =
    some #[0, 0, 0, 2, 4, 5, 5, 5, 5, 5, 5, 5, 5, 5, 6, 6, 6, 6, 7, 7, 7, 7, 7, 7, 7, 7] := by decide +kernel

/-- `log_sum_bound` (about the part that is NOT modelled). The byte `blk[pos]` of `sieve_block` accumulates
the bit length of every factor-base prime with a root at `pos` (at most once per prime: two different
roots, or one cursor when `r1 = r2`); with true roots these primes divide the polynomial value `v ≠ 0`.
For distinct primes dividing `v` the sum of bit lengths is `< bitlen v + (number of primes)`; hence the
`u8` accumulator cannot overflow (no panic with overflow checks, no wrapped value in release) as long as
`bitlen v + #primes ≤ 256`. Above that bound the overflow IS reachable through `factor()` (see the
finding reported with this property: a 398-bit `n`, `Algo::Qs`). -/
theorem log_sum_bound (s : Finset ℕ) (hs : ∀ p ∈ s, p.Prime) (v : ℕ) (hv : v ≠ 0) (hd : ∀ p ∈ s, p ∣ v) :
    (∑ p ∈ s, bitlen p) < bitlen v + s.card ∧ (bitlen v + s.card ≤ 256 → (∑ p ∈ s, bitlen p) ≤ 255) := by
  have := log_sum_lt s hs v hv hd
  exact ⟨this, fun h => by omega⟩

example : (∑ p ∈ ({3, 5, 7} : Finset ℕ), bitlen p) = 8 ∧ bitlen 105 = 7 := by decide

/-- non-vacuity of `no_panic`: the hypotheses hold for a small factor base with a prime of size class 16. -/
example : (FB.ofPrimes #[2, 5, 32771]).WF ∧ (FB.ofPrimes #[2, 5, 32771]).primes.size ≠ 0 ∧
    RecycledSized (FB.ofPrimes #[2, 5, 32771]) 3 none ∧
    RootsDistinct (FB.ofPrimes #[2, 5, 32771]) #[0, 3, 7] #[1, 4, 100] := by
  refine ⟨FB.ofPrimes_WF _ (by decide) (by decide), by decide, fun _ _ h => by simp at h, ?_⟩
  intro i p hp hge
  have hi : i < 3 := (Array.getElem?_eq_some_iff.1 hp).1
  have : i = 0 ∨ i = 1 ∨ i = 2 := by omega
  rcases this with rfl | rfl | rfl <;> simp [FB.ofPrimes] at hp <;> subst hp <;> simp at hge ⊢

/-- `cofactor_spec`. Whenever `fbase::cofactor` returns `Some(((p, q), factors))` for a non-zero value `x`:
the factors (`(-1, 1)` for a negative value, then `(prime, exponent)` with positive exponents, all of them
listed primes) and the cofactor multiply back to `x`; `p·q` is divisible by no listed prime; consequently,
if every prime `≤ bound` dividing `x` is among the listed primes (which `listed_complete` provides for the
factor-base primes, `bound` = largest factor-base prime, the other primes below it do not divide the
polynomial values: property C12), then the cofactor is 1 or has only prime factors above `bound`.
`try_factor64_sound` is the only thing assumed about `try_factor64` (Pollard rho / ECM, not modelled). -/
theorem cofactor_spec (primes : Array Nat) (hp2 : ∀ (i pp : Nat), primes[i]? = some pp → 2 ≤ pp)
    (x : Int) (hx : x ≠ 0) (facs : List Nat) (maxlarge : Nat) (double : Bool)
    (tf : Nat → Option (Nat × Nat)) (try_factor64_sound : ∀ n a b, tf n = some (a, b) → a * b = n)
    (p q : Nat) (factors : List (Int × Nat))
    (h : cofactor primes x facs maxlarge double tf = some (some ((p, q), factors))) :
    fprod factors * ((p * q : Nat) : Int) = x ∧
    (∀ be ∈ factors, be = (-1, 1) ∨ ∃ pidx ∈ facs, primes[pidx]? = some be.1.toNat ∧
      (be.1.toNat : Int) = be.1 ∧ 0 < be.2) ∧
    (∀ pidx ∈ facs, ∀ pp, primes[pidx]? = some pp → ¬ pp ∣ p * q) ∧
    (∀ bound : Nat,
      (∀ l : Nat, l.Prime → l ≤ bound → l ∣ x.natAbs → ∃ pidx ∈ facs, primes[pidx]? = some l) →
      p * q = 1 ∨ ∀ l : Nat, l.Prime → l ∣ p * q → bound < l) := by
  obtain ⟨c1, _, c3, c4, c5⟩ := cofactor_core hp2 hx try_factor64_sound h
  exact ⟨c1, c5, c4, fun bound hc => Or.inr (cofactor_large c3 c4 hc)⟩

/-- non-vacuity: `-(2^3·7·1009)` with factor base `{2, 3, 5, 7}`, list `[3, 0, 1]`: cofactor 1009. -/
example : cofactor #[2, 3, 5, 7] (-56504) [3, 0, 1] 5000 false (fun _ => none) =
    some (some ((1009, 1), [(-1, 1), (7, 1), (2, 3)])) := by decide +kernel

end Ymq.C13
