/-
`HGap` for the first 258 blocks (C17): every block `[65536·c, 65536·(c+1))`, `c ≤ 257`, contains a
prime (one explicit prime per block, checked by the verified Boolean test `isPrimeB` in the kernel).
Covers every `B1 ≤ 2^24` in `smoothbase_divides`.
-/
import Ymq.Lemmas.PrimesCount

namespace Ymq.Primes

/-- `l[i]` is a prime of block `c + i` for every `i` -/
def gapAll : Nat → List Nat → Bool
  | _, [] => true
  | c, p :: ps =>
    Nat.ble (65536 * c) p && Nat.blt p (65536 * c + 65536) && isPrimeB p && gapAll (c + 1) ps

theorem gapAll_spec : ∀ (l : List Nat) (c : Nat), gapAll c l = true →
    ∀ i, i < l.length → primesFrom (65536 * (c + i)) 65536 ≠ [] := by
  intro l
  induction l with
  | nil => intro c _ i hi; simp at hi
  | cons p ps ih =>
    intro c h i hi
    rw [gapAll, Bool.and_eq_true, Bool.and_eq_true, Bool.and_eq_true, nat_ble_iff, nat_blt_iff,
      isPrimeB_iff] at h
    obtain ⟨⟨⟨h1, h2⟩, h3⟩, h4⟩ := h
    cases i with
    | zero =>
      intro hc
      have : p ∈ primesFrom (65536 * (c + 0)) 65536 := by
        rw [mem_primesFrom]; exact ⟨⟨by omega, by omega⟩, h3⟩
      rw [hc] at this; simp at this
    | succ i =>
      have := ih (c + 1) h4 i (by simpa using hi)
      rw [show c + (i + 1) = c + 1 + i by omega]
      exact this

theorem gap_chunk_0 : gapAll 0 [2, 65537, 131101, 196613, 262147, 327689, 393241, 458789, 524309, 589829, 655373, 720899, 786433, 851971, 917513, 983063, 1048583, 1114117, 1179649, 1245187, 1310723, 1376257, 1441807, 1507369, 1572869, 1638431, 1703941, 1769473, 1835017, 1900553, 1966123, 2031671, 2097169, 2162717, 2228243, 2293771, 2359303, 2424833, 2490377, 2555911, 2621447, 2686979, 2752513] = true := by
  decide +kernel

theorem gap_chunk_1 : gapAll 43 [2818103, 2883593, 2949137, 3014659, 3080237, 3145739, 3211279, 3276803, 3342341, 3407881, 3473419, 3538949, 3604481, 3670027, 3735553, 3801097, 3866627, 3932167, 3997723, 4063237, 4128781, 4194319, 4259863, 4325389, 4390921, 4456451, 4522027, 4587533, 4653059, 4718617, 4784141, 4849687, 4915217, 4980749, 5046277, 5111833, 5177351, 5242883, 5308417, 5373971, 5439509, 5505037, 5570567] = true := by
  decide +kernel

theorem gap_chunk_2 : gapAll 86 [5636123, 5701637, 5767169, 5832709, 5898253, 5963791, 6029329, 6094859, 6160391, 6225931, 6291469, 6357011, 6422531, 6488071, 6553621, 6619139, 6684673, 6750209, 6815749, 6881291, 6946817, 7012363, 7077893, 7143439, 7208977, 7274513, 7340033, 7405571, 7471127, 7536647, 7602187, 7667713, 7733251, 7798793, 7864331, 7929863, 7995397, 8060939, 8126473, 8192003, 8257537, 8323099, 8388617] = true := by
  decide +kernel

theorem gap_chunk_3 : gapAll 129 [8454191, 8519681, 8585237, 8650753, 8716289, 8781853, 8847373, 8912921, 8978449, 9043987, 9109519, 9175057, 9240601, 9306119, 9371651, 9437189, 9502721, 9568259, 9633797, 9699331, 9764873, 9830413, 9895939, 9961487, 10027009, 10092547, 10158097, 10223617, 10289161, 10354697, 10420243, 10485767, 10551301, 10616897, 10682387, 10747921, 10813457, 10878979, 10944523, 11010059, 11075609, 11141149, 11206697] = true := by
  decide +kernel

theorem gap_chunk_4 : gapAll 172 [11272193, 11337749, 11403283, 11468801, 11534351, 11599873, 11665429, 11730949, 11796503, 11862029, 11927561, 11993099, 12058679, 12124163, 12189703, 12255259, 12320773, 12386317, 12451841, 12517387, 12582917, 12648451, 12713989, 12779531, 12845069, 12910643, 12976141, 13041673, 13107229, 13172791, 13238273, 13303811, 13369399, 13434887, 13500419, 13565953, 13631489, 13697041, 13762591, 13828109, 13893637, 13959203, 14024707] = true := by
  decide +kernel

theorem gap_chunk_5 : gapAll 215 [14090257, 14155777, 14221321, 14286863, 14352389, 14417927, 14483471, 14548997, 14614559, 14680067, 14745617, 14811143, 14876707, 14942209, 15007781, 15073297, 15138821, 15204391, 15269909, 15335449, 15400969, 15466499, 15532037, 15597577, 15663113, 15728681, 15794203, 15859721, 15925253, 15990791, 16056331, 16121857, 16187399, 16252967, 16318483, 16384001, 16449541, 16515073, 16580609, 16646167, 16711693, 16777259, 16842757] = true := by
  decide +kernel

/-- every block up to index 257 contains a prime -/
theorem gap_257 (c : Nat) (hc : c ≤ 257) : primesFrom (65536 * c) 65536 ≠ [] := by
  have hdm := Nat.div_add_mod c 43
  have hm := Nat.mod_lt c (by decide : 43 > 0)
  have hq : c / 43 ≤ 5 := by omega
  have key : ∀ j l, gapAll (43 * j) l = true → l.length = 43 → c / 43 = j →
      primesFrom (65536 * c) 65536 ≠ [] := by
    intro j l hg hl hj
    have := gapAll_spec l (43 * j) hg (c % 43) (by omega)
    rw [show 43 * j + c % 43 = c by omega] at this
    exact this
  have hcases : c / 43 = 0 ∨ c / 43 = 1 ∨ c / 43 = 2 ∨ c / 43 = 3 ∨ c / 43 = 4 ∨ c / 43 = 5 := by
    omega
  rcases hcases with h | h | h | h | h | h
  · exact key 0 _ gap_chunk_0 rfl h
  · exact key 1 _ gap_chunk_1 rfl h
  · exact key 2 _ gap_chunk_2 rfl h
  · exact key 3 _ gap_chunk_3 rfl h
  · exact key 4 _ gap_chunk_4 rfl h
  · exact key 5 _ gap_chunk_5 rfl h

end Ymq.Primes
