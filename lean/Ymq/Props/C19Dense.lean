/-
C19 — dense part (src/matrix/intdense.rs), second series of property theorems: totality of the
echelon builder for a prime modulus, the full `echelon_det`, the exact determinant without a
hypothesis on the residues. Helper lemmas: Ymq/Lemmas/IntMatEchPTotal.lean.
-/
import Ymq.Props.C19
import Ymq.Lemmas.IntMatEchPTotal
import Ymq.Lemmas.IntMatEchRefA

namespace Ymq.C19
open Ymq.IntMat

/-- **No assertion of `GFpEchelonBuilder::{add, det}` fails for a prime modulus.** For `p` prime,
`p < 2^63` (the code casts `p as i64`), an `n × n` integer matrix (`n > 0`, every row of length `n`) and
an inverse routine meeting `inv_mod64_spec`, the determinant routine of the reference builder
(`add` row by row — `assert_eq!(v.len(), basis[0].len())`, the index accesses of the elimination
loop, `inv_mod64(..).unwrap()`, `assert_eq!(vp[i], self.r)`, `position(..).unwrap()`,
`indices.swap(idx, basis.len())` — then `det()` with `assert!(factors.len() == basis[0].len())` and
the cycle walk) reaches no panic site: it returns a reduced residue. The argument for
`indices.swap`: when the basis already holds `n` rows the eliminated vector vanishes on all `n`
pivot columns, hence no non-zero entry is found and `add` returns `false` before the swap. -/
theorem echelon_total (inv : Inv) (hinv : InvSpec inv) (p n : Nat) (hpr : p.Prime) (hp63 : p < 2 ^ 63)
    (hn : 0 < n) (mat : List (List Int)) (hlen : mat.length = n) (hrows : ∀ r ∈ mat, r.length = n) :
    ∃ d, detModPlain inv p { p := p, indices := [], basis := [], factors := [] } mat = some d ∧ d < p :=
  detModPlain_total inv hinv p n hn hpr (by unfold I63; exact hp63) mat _ [] (EchInv.init p n)
    (by simpa using hlen) hrows

/-- **Determinant modulo a prime `p` = sign · product of the pivots**, full statement for the reference
builder `EchP` (plain residues, sequential elimination; the driver answers `im_detp_plain` /
`im_echelon_plain` with it and the pipeline compares these answers with `GFpEchelonBuilder`): for `p`
prime below 2^63 and an `n × n` integer matrix the routine returns (no panic) the unique residue
`d < p` with `d ≡ det(matrix) (mod p)`. -/
theorem echelon_det (inv : Inv) (hinv : InvSpec inv) (p n : Nat) (hpr : p.Prime) (hp63 : p < 2 ^ 63)
    (hn : 0 < n) (mat : List (List Int)) (hlen : mat.length = n) (hrows : ∀ r ∈ mat, r.length = n) :
    ∃ d, detModPlain inv p { p := p, indices := [], basis := [], factors := [] } mat = some d ∧ d < p ∧
      ((d : Nat) : ZMod p) = (matOf p n mat).det := by
  obtain ⟨d, h, hd⟩ := echelon_total inv hinv p n hpr hp63 hn mat hlen hrows
  exact ⟨d, h, hd, echelon_det_partial inv p n hn mat hlen hrows d h⟩

/-- non-vacuity and use: with the model of `inv_mod64`, `p = 101`, the matrix `[[1, 2], [3, 4]]`;
the residue is the one computed in the example of `echelon_det_partial` -/
example : ∃ d, detModPlain Ymq.Arith.invMod64 101 { p := 101, indices := [], basis := [], factors := [] }
    [[1, 2], [3, 4]] = some d ∧ d < 101 ∧ ((d : Nat) : ZMod 101) = (matOf 101 2 [[1, 2], [3, 4]]).det :=
  echelon_det _ invMod64_invSpec 101 2 (by decide) (by norm_num) (by norm_num) _ rfl
    (by intro r hr; simp at hr; rcases hr with rfl | rfl <;> rfl)

/-- **Exact integer determinant with its sign, residues computed** — PARTIAL only in that (1) it
speaks about the reference builder `EchP` (see `echelon_det`) and (2) the size bound `-P < 2·det ≤ P`
is an input (the code derives it from a rounded `f64` estimate, floating point is not modelled).
Compared with `det_exact_partial` the hypothesis "every modulus yields a residue" is gone: for
pairwise distinct primes below 2^63 every `detModPlain` returns, and the CRT reconstruction of the
returned residues is exactly `det` over `ℤ`. -/
theorem det_exact_total_partial (inv : Inv) (hinv : InvSpec inv) (n : Nat) (hn : 0 < n) (mat : List (List Int))
    (hlen : mat.length = n) (hrows : ∀ r ∈ mat, r.length = n)
    (primes : List Nat) (hpr : ∀ p ∈ primes, p.Prime) (h63 : ∀ p ∈ primes, p < 2 ^ 63) (hnd : primes.Nodup)
    (hfit : (primes.length : Int) * (W64 * ((primes.prod : Nat) : Int)) < I4096LIM)
    (hd1 : -((primes.prod : Nat) : Int) < 2 * (matZ n mat).det)
    (hd2 : 2 * (matZ n mat).det ≤ ((primes.prod : Nat) : Int)) :
    ∃ modp : List Nat, modp.length = primes.length ∧
      (∀ i (h1 : i < modp.length) (h2 : i < primes.length),
        detModPlain inv primes[i] { p := primes[i], indices := [], basis := [], factors := [] } mat = some modp[i]) ∧
      crtDense inv modp primes = some (matZ n mat).det := by
  -- the residues
  have hex : ∀ p ∈ primes, ∃ d, detModPlain inv p { p := p, indices := [], basis := [], factors := [] } mat = some d ∧ d < p :=
    fun p hp => echelon_total inv hinv p n (hpr p hp) (h63 p hp) hn mat hlen hrows
  let f : Nat → Nat := fun p => (detModPlain inv p { p := p, indices := [], basis := [], factors := [] } mat).getD 0
  have hf : ∀ p ∈ primes, detModPlain inv p { p := p, indices := [], basis := [], factors := [] } mat = some (f p) ∧ f p < p := by
    intro p hp
    obtain ⟨d, h1, h2⟩ := hex p hp
    have : f p = d := by simp [f, h1]
    rw [this]; exact ⟨h1, h2⟩
  refine ⟨primes.map f, by simp, ?_, ?_⟩
  · intro i h1 h2
    rw [List.getElem_map]
    exact (hf _ (List.getElem_mem h2)).1
  · apply det_exact_partial inv hinv n hn mat hlen hrows (primes.map f) primes (by simp)
      (fun p hp => (hpr p hp).one_lt)
      (fun p hp => by have := h63 p hp; unfold U64; omega)
      _ _ _ (by simpa using hfit) hd1 hd2
    · -- distinct primes are pairwise coprime
      apply List.Pairwise.imp_of_mem _ (List.nodup_iff_pairwise_ne.mp hnd |> id)
      intro a b ha hb hab
      exact (Nat.coprime_primes (hpr a ha) (hpr b hb)).2 hab
    · intro m hm
      obtain ⟨p, hp, rfl⟩ := List.mem_map.mp hm
      have h1 := (hf p hp).2
      have h2 := h63 p hp
      have : f p < 2 ^ 64 := by omega
      unfold W64
      exact_mod_cast this
    · intro i h1 h2
      rw [List.getElem_map]
      exact (hf _ (List.getElem_mem h2)).1

/-- non-vacuity: two primes `101, 103`, the matrix `[[1, 2], [3, 4]]` of determinant `-2` -/
example : ∃ modp : List Nat, crtDense Ymq.Arith.invMod64 modp [101, 103] = some (-2) := by
  have hdet : (matZ 2 [[1, 2], [3, 4]]).det = -2 := by
    rw [Matrix.det_fin_two]; simp [matZ]
  obtain ⟨modp, _, _, h⟩ := det_exact_total_partial _ invMod64_invSpec 2 (by norm_num) [[1, 2], [3, 4]] rfl
    (by intro r hr; simp at hr; rcases hr with rfl | rfl <;> rfl)
    [101, 103] (by intro p hp; simp at hp; rcases hp with rfl | rfl <;> decide)
    (by intro p hp; simp at hp; rcases hp with rfl | rfl <;> norm_num) (by decide)
    (by
      have h := I4096LIM_ge
      have e : (([101, 103] : List Nat).length : Int) * (W64 * ((([101, 103] : List Nat).prod : Nat) : Int)) < 2 ^ 256 := by
        unfold W64; norm_num
      linarith)
    (by rw [hdet]; decide) (by rw [hdet]; decide)
  rw [hdet] at h
  exact ⟨modp, h⟩

/-! ### towards the refinement `Ech → EchP` (production model in Montgomery form) -/

open Ymq.Mg64 in
/-- **`mg_redc` on the sum of 8 products** (`GFpEchelonBuilder::submul_n`, the block path of `add`).
Beyond its documented domain `x < n·2^64`, for `x < 2·n·2^64` and `n ≤ 2^62` the model of `mg_redc`
reaches no panic site and returns `r < 2n` with `r·2^64 ≡ x (mod n)`: one conditional subtraction
(`if mw >= p { mw - p }`, fix ca90ec8) then gives the reduced residue. The sum of 8 products of residues
is below `8(p-1)^2 ≤ 2·p·2^64` exactly when `p ≤ 2^62`: this is the bound behind fix a30f559 (block
path only for `p < 2^62`). -/
theorem mg_redc_wide (n ninv x : Nat) (hn : 0 < n) (hnW : n ≤ 2 ^ 62) (hninv : (n * ninv + 1) % W = 0)
    (hx : x < 2 * n * W) :
    ∃ r, mgRedc n ninv x = some r ∧ r < 2 * n ∧ r * W % n = x % n :=
  mgRedc_wide n ninv x hn (by have : W = 4 * 2 ^ 62 := by decide
                              omega) hninv hx

open Ymq.Mg64 in
/-- non-vacuity: `n = 7`, `x = 13·2^64 + 5 ≥ n·2^64` -/
example : (7 * 10540996613548315209 + 1) % W = 0 ∧ 7 * W ≤ 13 * W + 5 ∧ 13 * W + 5 < 2 * 7 * W ∧
    ∃ r, mgRedc 7 10540996613548315209 (13 * W + 5) = some r ∧ r < 14 ∧ r * W % 7 = (13 * W + 5) % 7 := by
  refine ⟨by decide, by decide, by decide, ?_⟩
  exact mg_redc_wide 7 _ _ (by decide) (by decide) (by decide) (by decide)

open Ymq.Mg64 in
/-- **One sequential elimination step in Montgomery form is the plain step** — PARTIAL refinement
`Ech → EchP`: for an odd modulus `1 < p < 2^63` with valid Montgomery constants, rows of reduced
residues and a non-zero reduced multiplier, `GFpEchelonBuilder::submul` on the Montgomery forms
returns (no panic) the Montgomery form of `v - m·w mod p` (`rowSubMul`, the step of the reference
builder `EchP`). Also proved as lemmas (Ymq/Lemmas/IntMatEchRefA.lean): `blockVs_spec` — the 8
multipliers of the block path satisfy `u_a = v[c_a] - Σ_{b<a} u_b·basis[i+b][c_a]` and the triangular
update reaches no panic site — and `EchCtx.subMulC_eq` (the closure `submul`). Missing for the full
refinement `detModP = detModPlain`: the column loop of `submul_n` on top of `mg_redc_wide`, the
uniqueness argument "block = 8 sequential steps" from the echelon form, and the bookkeeping of
`add`/`div`/`det` (conversions in and out of Montgomery form). The production model and the
reference model are both compared with the code by the pipeline (ops `im_echelon`, `im_detp`,
`im_echelon_plain`, `im_detp_plain`, `im_ech_raw`). -/
theorem echelon_submul_montgomery_partial (p pinv : Nat) (h : MontOk p pinv) (hp63 : p < 2 ^ 63) (E : Ech)
    (hEp : E.p = p) (hEi : E.pinv = pinv) (v w : List Nat) (m : Nat) (hl : v.length = w.length)
    (hv : ∀ x ∈ v, x < p) (hw : ∀ x ∈ w, x < p) (hm : m < p) (hm0 : m ≠ 0) :
    E.submul (v.map (mform p)) (w.map (mform p)) (mform p m) = some ((rowSubMul p v w m).map (mform p)) :=
  Ech.submul_mform h (by have : W = 2 * 2 ^ 63 := by decide
                         omega) E hEp hEi v w m hl hv hw hm hm0

open Ymq.Mg64 in
/-- non-vacuity: `p = 7` -/
example : ∃ E : Ech, MontOk 7 10540996613548315209 ∧ E.p = 7 ∧
    E.submul ([3, 5].map (mform 7)) ([1, 4].map (mform 7)) (mform 7 2) = some ((rowSubMul 7 [3, 5] [1, 4] 2).map (mform 7)) :=
  ⟨{ p := 7, pinv := 10540996613548315209, r := 2, r2 := 4, indices := [], basis := [], factors := [] },
    ⟨by decide, by decide, by decide, by decide⟩, rfl, by decide⟩

end Ymq.C19
