/- `inv_mod` for moduli `p >= 2` (from the Bezout identity of the loop). -/
import Ymq.Lemmas.GcdLoop

namespace Ymq.Gcd

/-- case `p >= 2` of `inv_mod_spec` -/
theorem invMod_spec_ge2 (N : Nat) (hN : 0 < N) (n p : Nat) (hp : 2 ≤ p) (r : InvRes)
    (h : invMod N n p = some r) :
    match r with
    | .ok x => x < p ∧ n * x % p = 1 % p
    | .err d => d = Nat.gcd n p ∧ d ≠ 1 := by
  have h1p' : 1 % p = 1 := Nat.mod_eq_of_lt (by omega)
  rw [h1p']
  unfold invMod at h
  split at h
  · simp at h
  · split at h
    · rename_i hn
      have hp1 : p ≠ 1 := by omega
      simp [hp1] at h; subst h; subst hn
      simp; omega
    · split at h
      · simp at h
      · rename_i d u v hg
        obtain ⟨hd, hb⟩ := gcdLoop_spec hN _ _ d u v hg (GInv_init true n p)
        have hb := hb rfl
        split at h
        · rename_i hd1
          simp at h; subst h
          exact ⟨hd, hd1⟩
        · rename_i hd1
          have hd1 : d = 1 := by omega
          rw [hd1] at hb
          have hpz : (p : Int) ≠ 0 := by omega
          -- n * u ≡ 1 (mod p)
          have hmod : (n : Int) * u % p = 1 % p := by
            have : (n : Int) * u = 1 + p * (-v) := by push_cast at hb; linarith
            rw [this, Int.add_mul_emod_self_left]
          have h1p : (1 : Int) % p = 1 := Int.emod_eq_of_lt (by omega) (by omega)
          split at h
          · rename_i hneg
            split at h
            · simp at h
            · rename_i ua hua
              simp at h; subst h
              have hua' := (chkB_some hua).1
              subst hua'
              -- p does not divide u
              have hnd : (-u).toNat % p ≠ 0 := by
                intro h0
                have hdvd : (p : Int) ∣ u := by
                  have : p ∣ (-u).toNat := Nat.dvd_of_mod_eq_zero h0
                  have h2 : (p : Int) ∣ ((-u).toNat : Int) := Int.natCast_dvd_natCast.2 this
                  have h3 : ((-u).toNat : Int) = -u := by omega
                  rw [h3] at h2; exact (Int.dvd_neg.1 h2)
                have : (n : Int) * u % p = 0 := Int.emod_eq_zero_of_dvd (Dvd.dvd.mul_left hdvd _)
                rw [this] at hmod; omega
              have hlt : (-u).toNat % p < p := Nat.mod_lt _ (by omega)
              refine ⟨by omega, ?_⟩
              have hx : ((p - (-u).toNat % p : Nat) : Int) = p - (-u) % p := by
                have h3 : ((-u).toNat : Int) = -u := by omega
                rw [Nat.cast_sub (Nat.le_of_lt hlt)]; push_cast; rw [h3]
              have key : ((n * (p - (-u).toNat % p) : Nat) : Int) % p = 1 := by
                push_cast; rw [hx]
                have e : (n : Int) * (p - -u % p) = n * u + p * (n * (1 + (-u) / p)) := by
                  have := Int.emod_add_mul_ediv (-u) p
                  linear_combination (-(n : Int)) * this
                rw [e, Int.add_mul_emod_self_left, hmod, h1p]
              exact_mod_cast key
          · rename_i hneg
            simp at h; subst h
            have hu : (u.toNat : Int) = u := by omega
            refine ⟨Nat.mod_lt _ (by omega), ?_⟩
            have key : ((n * (u.toNat % p) : Nat) : Int) % p = 1 := by
              push_cast; rw [hu, Int.mul_emod, Int.emod_emod_of_dvd _ (dvd_refl _), ← Int.mul_emod, hmod, h1p]
            exact_mod_cast key



end Ymq.Gcd
