/-
C09 (extension) — the cofactor-width statement of the extended Lehmer gcd with a sharper domain, and
the full-correctness form of `inv_mod`.
Only property theorems live here (helper lemmas: Ymq/Lemmas/GcdRow.lean, GcdRow2.lean, GcdEgcd2.lean, GcdCof7.lean).
Same model as Props/C09.lean (Ymq/Model/Gcd.lean: `none` = the real code panics in the checked
profile, or the fuel ran out — excluded by `gcd_terminates`).
-/
import Ymq.Props.C09
import Ymq.Lemmas.GcdCof7
import Mathlib.Data.Nat.ModEq

namespace Ymq.C09
open Ymq.Gcd

/-- `reduce64(x, y)` for **all** pairs of 64-bit words: the FIRST row `(a, b)` of the returned matrix is
below `2^34` in absolute value (the second one is below `2^36`: `reduce64_inv`). Reason: the first row
is the second row of the state before the last continuing iteration, which passed the matrix-size test
`bits(q+1) + bits(max |c| |d|) <= 36` with `q + 1 >= 2`. This is what bounds the error term of a
Lehmer step in `gcd_internal` (the product of the two rows' sizes is below `2^70`, not `2^72`). -/
theorem reduce64_first_row (x y : Nat) (hx : x < 2 ^ 64) (hy : y < 2 ^ 64) (a b c d : Int)
    (h : reduce64 x y = some (a, b, c, d)) : a.natAbs < 2 ^ 34 ∧ b.natAbs < 2 ^ 34 := by
  obtain ⟨ha, hb⟩ := reduce64_row1 (by rw [W_eq]; exact hx) (by rw [W_eq]; exact hy) h
  rw [Int.abs_eq_natAbs] at ha hb
  exact ⟨by exact_mod_cast ha, by exact_mod_cast hb⟩

example : reduce64 18446744073709551615 12345678901234567 =
    some (-3133215, 4681606876, 11521471, -17215223933) ∧ (4681606876 : Int).natAbs < 2 ^ 34 := by
  decide +kernel

/-- `reduce64(x, y)` for **all** pairs of 64-bit words: every product of an entry of the first row by an
entry of the second row of the returned matrix is at most `(11/12) * 2^70` (`3 |e1| |e2| <= 11 * 2^68`).
Reason: nearest-integer quotients keep, in each column, the previous cofactor at most `2/3` of the
current one, so the last step `s' = k s -+ p`, `k <= q + 1`, gives `|s'| <= (q + 5/3) |s| + 1`, and the
matrix-size test that was passed says `(q + 2) * max(|c|, |d|) < 2^36`, `max(|c|, |d|) < 2^34`. The
largest product met by a directed search is `0.90 * 2^70`. -/
theorem reduce64_row_product (x y : Nat) (hx : x < 2 ^ 64) (hy : y < 2 ^ 64) (a b c d : Int)
    (h : reduce64 x y = some (a, b, c, d)) :
    3 * (a.natAbs * c.natAbs) ≤ 11 * 2 ^ 68 ∧ 3 * (a.natAbs * d.natAbs) ≤ 11 * 2 ^ 68 ∧
    3 * (b.natAbs * c.natAbs) ≤ 11 * 2 ^ 68 ∧ 3 * (b.natAbs * d.natAbs) ≤ 11 * 2 ^ 68 := by
  have hR := reduce64_rowprod (by rw [W_eq]; exact hx) (by rw [W_eq]; exact hy) h
  have h1 := hR.pac; have h2 := hR.pad; have h3 := hR.pbc; have h4 := hR.pbd
  simp only [Int.abs_eq_natAbs] at h1 h2 h3 h4
  have e : (11 * 2 ^ 68 : Nat) = 3246626956972881084416 := by norm_num
  rw [e]
  exact ⟨by exact_mod_cast h1, by exact_mod_cast h2, by exact_mod_cast h3, by exact_mod_cast h4⟩

example : reduce64 9252754402567472798 744673999053474881 =
    some (-1376391535, 17101997453, -4964999032, 61691312857) ∧
    10 * (17101997453 * 61691312857) > 8 * 2 ^ 70 := by
  decide +kernel

/-- `num_integer::Integer::extended_gcd(x0, y0)` on i64 in the situation of the `<64`-bit exit of
`gcd_internal` (`0 < y0 <= x0 < 2^63`): no i64 operation overflows, the result is `(g, ex, ey)` with
`g = gcd(x0, y0) = ex * x0 + ey * y0`, and the cofactors are at most HALF the operands:
`2 |ex| <= y0`, `2 |ey| <= x0` (or `x0 = y0`, where `|ey| <= 1`) — the classical bound, from the last
quotient being at least 2. -/
theorem egcd_i64_half (x0 y0 : Nat) (hx : x0 < 2 ^ 63) (hy : 0 < y0) (hyx : y0 ≤ x0) :
    ∃ g ex ey : Int, egcdI64 x0 y0 = some (g, ex, ey) ∧ g = Nat.gcd x0 y0 ∧ ex * x0 + ey * y0 = g ∧
      2 * ex.natAbs ≤ y0 ∧ (2 * ey.natAbs ≤ x0 ∨ (x0 = y0 ∧ ey.natAbs ≤ 1)) := by
  obtain ⟨g, s, t, he, _, _, b3, b4⟩ := egcdI64_total2 (X := x0) (Y := y0) (by norm_num at hx ⊢; exact hx) hy hyx
  obtain ⟨h1, h2⟩ := egcdI64_spec he
  refine ⟨g, s, t, he, ?_, h1.symm, ?_, ?_⟩
  · rw [h2, Int.gcd_natCast_natCast]
  · rw [Int.abs_eq_natAbs] at b3; exact_mod_cast b3
  · rw [Int.abs_eq_natAbs] at b4
    rcases b4 with b4 | ⟨b4, b5⟩
    · left; exact_mod_cast b4
    · right; exact ⟨b4, by exact_mod_cast b5⟩

example : egcdI64 (12 : Nat) (5 : Nat) = some (1, -2, 5) ∧ egcdI64 (7 : Nat) (7 : Nat) = some (7, 0, 1) := by
  decide +kernel

/-- `no_panic`, extended variant with the real cofactor width, on the domain `max(n, p) < 2^(64N-7)`
(1017 bits for N = 16, 505 bits for N = 8, 249 bits for N = 4; `no_panic_ext` had `64N-12`):
`gcd_internal::<N, true>` never panics — no `BInt<N>` cofactor operation overflows, nor any other
site — and it returns the gcd with valid Bezout cofactors; the returned `u` and `v` are at most
`64 * max(n, p) + 1 < 2^(64N-1)` in absolute value (they fit `BInt<N>`). The domain is SHARP: `no_panic_ext_threshold`.
Invariant behind it (Ymq/Lemmas/GcdCof7.lean), for the state after the swap (`y <= x`, rows `(A, B)`
of `x` and `(C, D)` of `y`): `|A| * y <= 121 * max(n, p)`, `|B| * y <= 121 * max(n, p)` and all four
cofactors at most `63 * max(n, p) + 1`. With the determinant identity `x * C - y * A = -+p`, the
half-size bound of the i64 `extended_gcd` cofactors (`egcdI64_total2`) and the bound `(11/12) * 2^70` on
the products of the two rows of a `reduce64` matrix (`reduce64_row_product`), every product and sum
formed by the quotient step, the Lehmer step and the final combination is at most
`64 * max(n, p) + 1 < 2^(64N-1)`.
The classical Euclid bound (constant 1) does not hold for this algorithm: after a Lehmer step the new
pair is `(u, v) * 2^k` plus an error of up to `2^36 * 2^k` that can exceed `u * 2^k` by a factor `2^8`,
and the products `|A| * y` really reach about `115 * max(n, p)` (intermediate values of `57 * max(n, p)`
were found by a directed search: see ADV_TOPS in props/c09.py). -/
theorem no_panic_ext_wide (N : Nat) (hN : 0 < N) (n p : Nat) (hn : n < 2 ^ (64 * N - 7))
    (hp : p < 2 ^ (64 * N - 7)) :
    ∃ (d : Nat) (u v : Int), gcdInternal N true n p = some (d, u, v) ∧
      d = Nat.gcd n p ∧ u * n + v * p = d ∧ u.natAbs ≤ 64 * max n p + 1 ∧ v.natAbs ≤ 64 * max n p + 1 := by
  obtain ⟨d, u, v, hr, hu, hv⟩ := T7.gcdInternal_ext_total hN hn hp
  have hr' := hr
  unfold gcdInternal at hr'
  obtain ⟨h1, h2⟩ := gcdLoop_spec hN _ _ d u v hr' (GInv_init true n p)
  refine ⟨d, u, v, hr, h1, h2 rfl, ?_, ?_⟩
  · rw [Int.abs_eq_natAbs] at hu
    exact_mod_cast hu
  · rw [Int.abs_eq_natAbs] at hv
    exact_mod_cast hv

example : (2 ^ 248 + 12345 : Nat) < 2 ^ (64 * 4 - 7) ∧ ¬ (2 ^ 248 + 12345 : Nat) < 2 ^ (64 * 4 - 12) ∧
    ∃ u v, gcdInternal 4 true (2 ^ 248 + 12345) (2 ^ 247 + 77) = some (1, u, v) := by
  refine ⟨by decide, by decide, ?_⟩
  obtain ⟨d, u, v, h, hd, _⟩ := no_panic_ext_wide 4 (by decide) (2 ^ 248 + 12345) (2 ^ 247 + 77)
    (by decide) (by decide)
  have : d = 1 := by rw [hd]; decide +kernel
  subst this
  exact ⟨u, v, h⟩

/-- the exact threshold of the cofactor width for N = 4 (`BInt<4>`, 256 bits): every pair of operands
below `2^249` (`64N - 7` bits) is handled without panic, and a pair below `2^250` is not. (The lower
side holds for every N: `no_panic_ext_wide`; the witness is `no_panic_ext_domain_sharp`.) -/
theorem no_panic_ext_threshold :
    (∀ n p : Nat, n < 2 ^ 249 → p < 2 ^ 249 → ∃ d u v, gcdInternal 4 true n p = some (d, u, v)) ∧
    (∃ n p : Nat, n < 2 ^ 250 ∧ p < 2 ^ 250 ∧ gcdInternal 4 true n p = none) := by
  refine ⟨fun n p hn hp => ?_, ?_⟩
  · obtain ⟨d, u, v, h, _⟩ := no_panic_ext_wide 4 (by decide) n p hn hp
    exact ⟨d, u, v, h⟩
  · obtain ⟨h1, h2, h3⟩ := no_panic_ext_domain_sharp
    exact ⟨_, _, h1, h2, h3⟩

/-- a modular inverse exists only for coprime operands -/
private theorem coprime_of_mul_mod {n p x : Nat} (h : n * x % p = 1 % p) : Nat.gcd n p = 1 := by
  by_cases hp : p = 1
  · subst hp; simp
  · by_cases hp0 : p = 0
    · subst hp0
      have : n * x = 1 := by simpa using h
      have hn : n = 1 := Nat.eq_one_of_mul_eq_one_right this
      subst hn; simp
    · have h1 : 1 % p = 1 := Nat.mod_eq_of_lt (by omega)
      rw [h1] at h
      have hg : Nat.gcd n p ∣ n * x % p :=
        (Nat.dvd_mod_iff (Nat.gcd_dvd_right n p)).2 (Dvd.dvd.mul_right (Nat.gcd_dvd_left n p) x)
      rw [h] at hg
      exact Nat.dvd_one.1 hg

/-- full-correctness form of `inv_mod::<N>(n, p)` (termination + result, both directions) for a non-zero
modulus and operands below `2^(64N-7)`: it returns (no panic, the loop ends within its fuel), and
* if `gcd(n, p) = 1` the result is `Ok(x)` with `x < p` and `n * x ≡ 1 (mod p)` — the unique such `x`;
* if `gcd(n, p) ≠ 1` the result is `Err(gcd(n, p))`.
Hence `Ok` iff coprime, `Err` iff not coprime. (`p = 0` is refused by the assertion: `inv_mod_spec`.) -/
theorem inv_mod_total (N : Nat) (hN : 0 < N) (n p : Nat) (hp0 : p ≠ 0)
    (hn : n < 2 ^ (64 * N - 7)) (hp : p < 2 ^ (64 * N - 7)) :
    (Nat.gcd n p = 1 → ∃ x, invMod N n p = some (.ok x) ∧ x < p ∧ n * x % p = 1 % p ∧
        ∀ x', x' < p → n * x' % p = 1 % p → x' = x) ∧
    (Nat.gcd n p ≠ 1 → invMod N n p = some (.err (Nat.gcd n p))) := by
  have htot : ∃ r, invMod N n p = some r := by
    unfold invMod
    rw [if_neg hp0]
    split
    · split <;> exact ⟨_, rfl⟩
    · obtain ⟨d, u, v, hr, hu, _⟩ := T7.gcdInternal_ext_total hN hn hp
      rw [hr]
      simp only
      split
      · exact ⟨_, rfl⟩
      · split
        · have hd := (T7.Dom_of_lt hN hn hp).L
          rw [chkB_of_abs hd (by rw [abs_neg]; linarith)]
          exact ⟨_, rfl⟩
        · exact ⟨_, rfl⟩
  obtain ⟨r, hr⟩ := htot
  have hs := inv_mod_spec N hN n p r hr
  cases r with
  | ok x =>
    simp only at hs
    have hg := coprime_of_mul_mod hs.2
    refine ⟨fun _ => ⟨x, hr, hs.1, hs.2, ?_⟩, fun hne => absurd hg hne⟩
    intro x' hx' hm
    -- uniqueness: n is invertible modulo p
    have e : n * x % p = n * x' % p := by rw [hs.2, hm]
    have hmod : x % p = x' % p :=
      Nat.ModEq.cancel_left_of_coprime (m := p) (c := n) (by rw [Nat.gcd_comm]; exact hg) e
    rw [Nat.mod_eq_of_lt hs.1, Nat.mod_eq_of_lt hx'] at hmod
    exact hmod.symm
  | err d =>
    simp only at hs
    refine ⟨fun h1 => absurd (hs.1 ▸ h1) hs.2, fun _ => by rw [hr, hs.1]⟩

example : (Nat.gcd 3 7 = 1 ∧ invMod 8 3 7 = some (.ok 5)) ∧ (Nat.gcd 6 9 ≠ 1 ∧ invMod 8 6 9 = some (.err 3)) ∧
    (7 : Nat) < 2 ^ (64 * 8 - 7) := by
  decide +kernel

end Ymq.C09
