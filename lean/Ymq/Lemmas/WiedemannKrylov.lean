/-
From the list model to matrices over `ZMod p`: `mulpLane` is the matrix–vector product, the
Krylov loop of `_detp4` produces `s_k = (M^k v)_0`.
-/
import Ymq.Lemmas.WiedemannMulp
import Ymq.Lemmas.WiedemannAlg
import Mathlib.Data.ZMod.Basic

namespace Ymq.Wied
open Matrix

variable {p : ℕ}

/-- the matrix of a row list, reduced modulo `p` (duplicate columns add up) -/
def matOf (p n : ℕ) (m : Mat) : Matrix (Fin n) (Fin n) (ZMod p) :=
  fun i j => ((m.getD i []).map (fun je => if je.1 = j.val then (je.2 : ZMod p) else 0)).sum

/-- a word vector as a column over `ZMod p` -/
def colOf (p n : ℕ) (v : List ℕ) : Matrix (Fin n) (Fin 1) (ZMod p) :=
  fun i _ => ((v.getD i.val 0 : ℕ) : ZMod p)

/-- the row vector `e_0` -/
def e0 (p n : ℕ) : Matrix (Fin 1) (Fin n) (ZMod p) := fun _ j => if j.val = 0 then 1 else 0

theorem mapM_eq_map {α β} (f : α → Option β) (g : α → β) :
    ∀ l : List α, (∀ a ∈ l, f a = some (g a)) → l.mapM f = some (l.map g)
  | [], _ => by simp
  | a :: l, h => by
    rw [List.mapM_cons, h a List.mem_cons_self,
      mapM_eq_map f g l (fun b hb => h b (List.mem_cons_of_mem _ hb))]
    rfl

/-- **`mulp`, one lane.** Under the code's assumption (`weight × bound < 2^63` for every row, entries
of `v` at most `Bd`), `mulp` does not panic and returns `(Σ_j M_ij v_j) mod p` row by row. -/
theorem mulpLane_spec (m : Mat) (p : ℕ) (hp0 : 0 < p) (hp : (p : Int) < I63) (v : List ℕ)
    (hlen : v.length = m.length) (Bd : Int) (hB0 : 0 ≤ Bd) (hv : ∀ j, ((v.getD j 0 : ℕ) : Int) ≤ Bd)
    (hw : ∀ r ∈ m, posW r * Bd < I63 ∧ negW r * Bd < I63) :
    mulpLane m p v =
      some (m.map (fun r => (rowDot (fun j => v.getD j 0) r % (p : Int)).toNat)) := by
  unfold mulpLane
  rw [if_neg (by omega)]
  exact mapM_eq_map _ _ m (fun r hr =>
    rowLane_spec (fun j => v.getD j 0) Bd hB0 hv p hp0 hp r (hw r hr).1 (hw r hr).2)

theorem cast_toNat_emod (x : Int) (hp0 : 0 < p) :
    (((x % (p : Int)).toNat : ℕ) : ZMod p) = (x : ZMod p) := by
  have h : 0 ≤ x % (p : Int) := Int.emod_nonneg _ (by exact_mod_cast (Nat.pos_iff_ne_zero.mp hp0))
  have : (((x % (p : Int)).toNat : ℕ) : Int) = x % (p : Int) := Int.toNat_of_nonneg h
  rw [← Int.cast_natCast, this, ZMod.intCast_mod]

/-- `rowDot` in `ZMod p` is the matrix row times the column -/
theorem rowDot_cast (n : ℕ) (col : ℕ → ℕ) : ∀ r : Row, (∀ je ∈ r, je.1 < n) →
    ((rowDot col r : Int) : ZMod p) =
      ∑ j : Fin n, (r.map (fun je => if je.1 = j.val then (je.2 : ZMod p) else 0)).sum *
        ((col j.val : ℕ) : ZMod p)
  | [], _ => by simp [rowDot, sumSel]
  | je :: r, h => by
    have ih := rowDot_cast n col r (fun a ha => h a (List.mem_cons_of_mem _ ha))
    have hj : je.1 < n := h je List.mem_cons_self
    unfold rowDot at ih ⊢
    unfold sumSel
    simp only [if_true, List.map_cons, List.sum_cons, add_mul, Finset.sum_add_distrib]
    rw [Int.cast_add, ih]
    congr 1
    rw [Finset.sum_eq_single (⟨je.1, hj⟩ : Fin n)]
    · simp
    · intro b _ hb
      have : ¬ je.1 = b.val := fun e => hb (Fin.ext e.symm)
      simp [this]
    · intro h'; exact absurd (Finset.mem_univ _) h'


theorem getD_map_zero (g : Row → ℕ) (hg : g [] = 0) (m : Mat) (i : ℕ) :
    (m.map g).getD i 0 = g (m.getD i []) := by
  by_cases hi : i < m.length
  · simp [List.getD_eq_getElem?_getD, List.getElem?_eq_getElem hi]
  · have h1 : m.length ≤ i := by omega
    simp [List.getD_eq_getElem?_getD, List.getElem?_eq_none h1, hg]

theorem mulp_matrix (n : ℕ) (m : Mat) (hcols : ∀ r ∈ m, ∀ je ∈ r, je.1 < n) (v : List ℕ)
    (hp0 : 0 < p) :
    colOf p n (m.map (fun r => (rowDot (fun j => v.getD j 0) r % (p : Int)).toNat)) =
      matOf p n m * colOf p n v := by
  ext i k
  have g0 : (rowDot (fun j => v.getD j 0) [] % (p : Int)).toNat = 0 := by simp [rowDot, sumSel]
  have hrow : ∀ je ∈ m.getD i.val [], je.1 < n := by
    intro je hje
    by_cases hi : i.val < m.length
    · have : m.getD i.val [] = m[i.val] := by
        simp [List.getD_eq_getElem?_getD, List.getElem?_eq_getElem hi]
      rw [this] at hje
      exact hcols _ (List.getElem_mem hi) je hje
    · have : m.getD i.val [] = [] := by
        simp [List.getD_eq_getElem?_getD, List.getElem?_eq_none (by omega : m.length ≤ i.val)]
      rw [this] at hje; simp at hje
  rw [Matrix.mul_apply]
  show (((m.map (fun r => (rowDot (fun j => v.getD j 0) r % (p : Int)).toNat)).getD i.val 0 : ℕ) :
    ZMod p) = ∑ j, matOf p n m i j * colOf p n v j k
  rw [getD_map_zero _ g0, cast_toNat_emod _ hp0, rowDot_cast n _ _ hrow]
  rfl

/-- the Krylov loop, forwards: the `c` terms produced from the vector `v` -/
def fwd (m : Mat) (p : ℕ) : ℕ → List ℕ → Option (List ℕ)
  | 0, _ => some []
  | c + 1, v =>
    match v[0]? with
    | none => none
    | some v0 =>
      if c = 0 then some [v0]
      else
        match mulpLane m p v with
        | none => none
        | some w => (fwd m p c w).map (v0 :: ·)

theorem krylov_eq_fwd (m : Mat) (p : ℕ) : ∀ (f : ℕ) (v seq : List ℕ),
    seq.length < 2 * m.length → 2 * m.length - seq.length ≤ f →
    krylov m p f v seq = (fwd m p (2 * m.length - seq.length) v).map (seq.reverse ++ ·)
  | 0, _, _, h1, h2 => by omega
  | f + 1, v, seq, h1, h2 => by
    obtain ⟨c, hc⟩ : ∃ c, 2 * m.length - seq.length = c + 1 := ⟨2 * m.length - seq.length - 1, by omega⟩
    rw [hc]
    unfold krylov fwd
    cases hv : v[0]? with
    | none => simp
    | some v0 =>
      simp only
      by_cases hl : (v0 :: seq).length = 2 * m.length
      · have hc0 : c = 0 := by simp at hl; omega
        simp [hl, hc0]
      · have hc0 : ¬ c = 0 := by simp at hl; omega
        simp only [hl, hc0, if_false]
        cases hm : mulpLane m p v with
        | none => simp
        | some w =>
          simp only
          rw [krylov_eq_fwd m p f w (v0 :: seq) (by simp at hl ⊢; omega) (by simp; omega)]
          have : 2 * m.length - (v0 :: seq).length = c := by simp; omega
          rw [this]
          cases fwd m p c w with
          | none => simp
          | some l => simp


theorem getD_map_lt (m : Mat) (v : List ℕ) (hp0 : 0 < p) (j : ℕ) :
    (m.map (fun r => (rowDot (fun j => v.getD j 0) r % (p : Int)).toNat)).getD j 0 < p := by
  have g0 : (rowDot (fun j => v.getD j 0) [] % (p : Int)).toNat = 0 := by simp [rowDot, sumSel]
  rw [getD_map_zero _ g0]
  have hp' : (0 : Int) < p := by exact_mod_cast hp0
  have h1 := Int.emod_lt_of_pos (rowDot (fun j => v.getD j 0) (m.getD j [])) hp'
  have h2 := Int.emod_nonneg (rowDot (fun j => v.getD j 0) (m.getD j [])) (ne_of_gt hp')
  omega

theorem fwd_spec (n : ℕ) (hn : 1 ≤ n) (m : Mat) (hm : m.length = n)
    (hcols : ∀ r ∈ m, ∀ je ∈ r, je.1 < n) (hp0 : 0 < p) (hp : (p : Int) < I63)
    (Bd : Int) (hB0 : 0 ≤ Bd) (hBp : (p : Int) ≤ Bd + 1)
    (hw : ∀ r ∈ m, posW r * Bd < I63 ∧ negW r * Bd < I63)
    (V : Matrix (Fin n) (Fin 1) (ZMod p)) :
    ∀ (c : ℕ) (v : List ℕ) (k : ℕ), v.length = n → (∀ j, ((v.getD j 0 : ℕ) : Int) ≤ Bd) →
      v.getD 0 0 < p → colOf p n v = matOf p n m ^ k * V →
      ∃ out, fwd m p c v = some out ∧ out.length = c ∧ (∀ x ∈ out, x < p) ∧
        ∀ t, t < c → ((out.getD t 0 : ℕ) : ZMod p) = (matOf p n m ^ (k + t) * V) ⟨0, hn⟩ 0
  | 0, _, _, _, _, _, _ => ⟨[], rfl, rfl, by simp, fun t ht => by omega⟩
  | c + 1, v, k, hl, hb, h0, hV => by
    have hv0 : v[0]? = some (v.getD 0 0) := by
      have : 0 < v.length := by omega
      simp [List.getD_eq_getElem?_getD, List.getElem?_eq_getElem this]
    have hhead : ((v.getD 0 0 : ℕ) : ZMod p) = (matOf p n m ^ k * V) ⟨0, hn⟩ 0 := by
      rw [← hV]; rfl
    unfold fwd
    rw [hv0]
    simp only
    by_cases hc : c = 0
    · subst hc
      refine ⟨[v.getD 0 0], by simp, rfl, by simpa using h0, fun t ht => ?_⟩
      have : t = 0 := by omega
      subst this
      simpa using hhead
    · rw [if_neg hc, mulpLane_spec m p hp0 hp v (by omega) Bd hB0 hb hw]
      simp only
      obtain ⟨out, e1, e2, e3, e4⟩ := fwd_spec n hn m hm hcols hp0 hp Bd hB0 hBp hw V c
        (m.map (fun r => (rowDot (fun j => v.getD j 0) r % (p : Int)).toNat)) (k + 1)
        (by simp [hm])
        (fun j => by have := getD_map_lt (p := p) m v hp0 j; omega)
        (getD_map_lt m v hp0 0)
        (by rw [mulp_matrix n m hcols v hp0, hV, ← Matrix.mul_assoc, ← pow_succ'])
      refine ⟨v.getD 0 0 :: out, by rw [e1]; rfl, by simp [e2], ?_, ?_⟩
      · intro x hx
        rcases List.mem_cons.mp hx with rfl | hx
        · exact h0
        · exact e3 x hx
      · intro t ht
        cases t with
        | zero => simpa using hhead
        | succ t =>
          have := e4 t (by omega)
          have e : k + (t + 1) = k + 1 + t := by omega
          rw [e]
          simpa using this

theorem startVec_length : ∀ (n x y : ℕ), (startVec n x y).length = n
  | 0, _, _ => rfl
  | n + 1, x, y => by simp [startVec, startVec_length n]

theorem startVec_lt : ∀ (n x y j : ℕ), (startVec n x y).getD j 0 < 65537
  | 0, _, _, _ => by simp [startVec]
  | n + 1, x, y, 0 => by simp [startVec]; omega
  | n + 1, x, y, j + 1 => by
    simp only [startVec, List.getD_cons_succ]
    exact startVec_lt n _ _ j

theorem krylovSeq_e0 (n : ℕ) (hn : 1 ≤ n) (M : Matrix (Fin n) (Fin n) (ZMod p))
    (V : Matrix (Fin n) (Fin 1) (ZMod p)) (t : ℕ) :
    krylovSeq M (e0 p n) V t = (M ^ t * V) ⟨0, hn⟩ 0 := by
  unfold krylovSeq
  rw [Matrix.mul_assoc, Matrix.mul_apply, Finset.sum_eq_single (⟨0, hn⟩ : Fin n)]
  · simp [e0]
  · intro b _ hb
    have : ¬ b.val = 0 := fun e => hb (Fin.ext e)
    simp [e0, this]
  · intro h; exact absurd (Finset.mem_univ _) h

/-- **The Krylov loop of `_detp4`, one lane**: no panic, `2n` reduced terms, and term `t` is
`e_0 · M^t · v` for `M = matOf p n m` and `v` the Fibonacci start vector. -/
theorem krylov_model_spec (n : ℕ) (hn : 1 ≤ n) (m : Mat) (hm : m.length = n)
    (hcols : ∀ r ∈ m, ∀ je ∈ r, je.1 < n) (hp1 : 1 < p) (hp : (p : Int) < I63)
    (Bd : Int) (hBp : (p : Int) ≤ Bd + 1) (hB65 : 65536 ≤ Bd)
    (hw : ∀ r ∈ m, posW r * Bd < I63 ∧ negW r * Bd < I63) :
    ∃ seq, krylov m p (2 * m.length + 1) (startVec m.length 0 1) [] = some seq ∧
      seq.length = 2 * n ∧ (∀ x ∈ seq, x < p) ∧
      ∀ t, t < 2 * n → ((seq.getD t 0 : ℕ) : ZMod p) =
        krylovSeq (matOf p n m) (e0 p n) (colOf p n (startVec n 0 1)) t := by
  have hp0 : 0 < p := by omega
  rw [krylov_eq_fwd m p _ _ [] (by simp; omega) (by simp)]
  have h1 : (startVec n 0 1).getD 0 0 < p := by
    obtain ⟨n', rfl⟩ : ∃ n', n = n' + 1 := ⟨n - 1, by omega⟩
    simp [startVec]; omega
  obtain ⟨out, e1, e2, e3, e4⟩ := fwd_spec n hn m hm hcols hp0 hp Bd (by omega) hBp hw
    (colOf p n (startVec n 0 1)) (2 * n) (startVec n 0 1) 0 (startVec_length n 0 1)
    (fun j => by have := startVec_lt n 0 1 j; omega) h1 (by simp)
  refine ⟨out, ?_, e2, e3, fun t ht => ?_⟩
  · simp [hm, e1]
  · rw [krylovSeq_e0 n hn, e4 t ht, zero_add]

end Ymq.Wied
