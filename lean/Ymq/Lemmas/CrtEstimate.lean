/-
C10: the quotient estimate of `MultiZmodP::_crt` AS THE MODEL READS IT (Ymq/Model/Crt.lean, `qEstimate`:
three branches on the top word of `P`, shifted two-word reads of `crt_p[i]`, 128-bit sums, division
by the truncated top of `P`) returns the CRT quotient (`qEstimate_spec`, on top of the error analysis
`q_estimate'`), and the tables built by `MultiZmodP::new` from the translated prime table meet its
requirements for every admissible number of primes (`new_estOk`, decided on the table).
-/
import Ymq.Lemmas.CrtLemmas
import Ymq.Model.Crt
import Mathlib.Tactic.NormNum

namespace Ymq.Crt
open Finset
open Ymq.Mg64 (W)

/-- what the quotient estimate needs of the tables of a `MultiZmodP` -/
structure EstOk (m : Mzp) : Prop where
  w_le : m.w ≤ 26
  plen2 : 2 ≤ m.plen
  lo : W ^ (m.plen - 1) ≤ m.pprod
  hi : m.pprod < W ^ m.plen
  plen3 : m.pprod < 2 ^ 8 * W ^ (m.plen - 1) → 3 ≤ m.plen
  crt : ∀ i, i < m.w → ∃ p, 2 ^ 58 < p ∧ m.crtP.getD i 0 * p = m.pprod

theorem W_eq : W = 2 ^ 64 := by decide

theorem sumTop_eq (m : Mzp) (xs : List Nat) (f : Nat → Option Nat) (g : Nat → Nat) (B : Nat)
    (hf : ∀ i, i < m.w → f (m.crtP.getD i 0) = some (g i)) (hg : ∀ i, i < m.w → g i ≤ B)
    (hxs : ∀ i, i < m.w → xs.getD i 0 < 2 ^ 59) (hB : m.w * (2 ^ 59 * B) < 2 ^ 128) :
    sumTop m xs f = some (∑ i ∈ range m.w, xs.getD i 0 * g i) := by
  unfold sumTop
  suffices h : ∀ k, k ≤ m.w → (List.range k).foldlM (sumTopStep xs m.crtP f) 0 =
      some (∑ i ∈ range k, xs.getD i 0 * g i) ∧ ∑ i ∈ range k, xs.getD i 0 * g i ≤ k * (2 ^ 59 * B) from
    (h m.w le_rfl).1
  intro k
  induction k with
  | zero => intro _; simp
  | succ k ih =>
    intro hk
    obtain ⟨e, hb⟩ := ih (by omega)
    have hterm : xs.getD k 0 * g k ≤ 2 ^ 59 * B :=
      Nat.mul_le_mul (le_of_lt (hxs k (by omega))) (hg k (by omega))
    have hle : ∑ i ∈ range (k + 1), xs.getD i 0 * g i ≤ (k + 1) * (2 ^ 59 * B) := by
      rw [sum_range_succ, Nat.add_mul, Nat.one_mul]; omega
    refine ⟨?_, hle⟩
    rw [List.range_succ, List.foldlM_append, e]
    simp only [Option.bind_eq_bind, Option.bind_some, List.foldlM_cons, List.foldlM_nil]
    unfold sumTopStep
    rw [hf k (by omega)]
    simp only
    have hlt : ∑ i ∈ range k, xs.getD i 0 * g i + xs.getD k 0 * g k < 2 ^ 128 := by
      rw [← sum_range_succ]
      have : (k + 1) * (2 ^ 59 * B) ≤ m.w * (2 ^ 59 * B) := Nat.mul_le_mul_right _ hk
      omega
    rw [if_neg (by omega), sum_range_succ]
    rfl

theorem two_word_aux (y : Nat) (h : y / 18446744073709551616 < 4294967296) :
    y / 18446744073709551616 % 18446744073709551616 * 4294967296 % 18446744073709551616 +
      y % 18446744073709551616 / 4294967296 = y / 4294967296 := by
  omega

/-- the shifted two-word read `crt[k+1] << 32 | crt[k] >> 32` is `c / (2^32·W^k)` when word `k+1` is
below `2^32` (no bits lost by the 64-bit shift) -/
theorem two_word_read (c k : Nat) (h : c / W ^ (k + 1) < 2 ^ 32) :
    dig c (k + 1) * 2 ^ 32 % W + dig c k / 2 ^ 32 = c / (2 ^ 32 * W ^ k) := by
  unfold dig
  have hy1 : c / W ^ (k + 1) = c / W ^ k / W := by rw [pow_succ, Nat.div_div_eq_div_mul]
  have hy2 : c / (2 ^ 32 * W ^ k) = c / W ^ k / 2 ^ 32 := by
    rw [Nat.mul_comm, Nat.div_div_eq_div_mul]
  rw [hy1] at h ⊢
  rw [hy2]
  have h32 : (2 : Nat) ^ 32 = 4294967296 := by norm_num
  rw [h32] at h ⊢
  exact two_word_aux (c / W ^ k) h


theorem sum_range_le (w : Nat) (f : Nat → Nat) (B : Nat) (h : ∀ i, i < w → f i ≤ B) :
    ∑ i ∈ range w, f i ≤ w * B := by
  induction w with
  | zero => simp
  | succ w ih =>
    rw [sum_range_succ, Nat.add_mul, Nat.one_mul]
    have := ih (fun i hi => h i (by omega))
    have := h w (by omega)
    omega

/-- `P / (W·M)` as truncated top of `P` -/
theorem div_bounds (P D : Nat) (hD : 0 < D) : P / D * D ≤ P ∧ P < (P / D + 1) * D := by
  constructor
  · exact Nat.div_mul_le_self P D
  · rw [Nat.add_mul, Nat.one_mul]
    have h1 := Nat.div_add_mod P D
    have h2 := Nat.mod_lt P hD
    rw [Nat.mul_comm] at h1
    omega

/-- **The quotient estimate of `_crt` as the model reads it is the CRT quotient.** For tables meeting
`EstOk` (`P` of exactly `plen ≥ 2` words, `crt_p[i] = P/p_i` with `p_i > 2^58`, `w ≤ 26`; three words when
the top word of `P` is below `2^8`), `xs_i < 2^59`, `Σ xs_i·crt_p[i] = V + q·P` with `2V < P` and `q ≤ 25`:
`qEstimate` reaches no panic site in any of its three branches (128-bit sums, the shifted two-word
reads lose no bits, non-zero divisor) and returns `q`. -/
theorem qEstimate_spec (m : Mzp) (ok : EstOk m) (xs : List Nat) (hxs : ∀ i, i < m.w → xs.getD i 0 < 2 ^ 59)
    (q V : Nat) (hS : V + q * m.pprod = ∑ i ∈ range m.w, xs.getD i 0 * m.crtP.getD i 0)
    (hV : 2 * V < m.pprod) (hq : q ≤ 25) : qEstimate m xs = some q := by
  obtain ⟨hw, hL2, hPlo, hPhi, hL3, hcrt⟩ := ok
  set P := m.pprod with hP
  set L := m.plen with hL
  have hWv : W = 18446744073709551616 := rfl
  have hWpos : 0 < W := by rw [hWv]; norm_num
  -- W^L = A·W·W, W^(L-1) = A·W with A = W^(L-2)
  set A := W ^ (L - 2) with hA
  have hApos : 0 < A := Nat.pow_pos hWpos
  have hL1 : W ^ (L - 1) = A * W := by rw [hA, ← pow_succ]; congr 1; omega
  have hL0 : W ^ L = A * W * W := by rw [← hL1, ← pow_succ]; congr 1; omega
  rw [hL1] at hPlo
  rw [hL0] at hPhi
  have hdigL : dig P L = 0 := by
    unfold dig; rw [hL0, Nat.div_eq_of_lt hPhi, Nat.zero_mod]
  have hhi : dig P (L - 1) = P / (A * W) := by
    unfold dig; rw [hL1]
    apply Nat.mod_eq_of_lt
    rw [Nat.div_lt_iff_lt_mul (Nat.mul_pos hApos hWpos)]
    calc P < A * W * W := hPhi
      _ = W * (A * W) := by ring
  set hi := P / (A * W) with hhidef
  have hhi1 : 1 ≤ hi := by
    rw [hhidef]; exact (Nat.le_div_iff_mul_le (Nat.mul_pos hApos hWpos)).2 (by omega)
  have hhiW : hi < W := by
    rw [hhidef, Nat.div_lt_iff_lt_mul (Nat.mul_pos hApos hWpos)]
    calc P < A * W * W := hPhi
      _ = W * (A * W) := by ring
  have hsumxs : ∑ i ∈ range m.w, xs.getD i 0 ≤ W := by
    have := sum_range_le m.w (fun i => xs.getD i 0) (2 ^ 59) (fun i hi => le_of_lt (hxs i hi))
    have h2 : m.w * 2 ^ 59 ≤ 26 * 2 ^ 59 := Nat.mul_le_mul_right _ hw
    rw [hWv]; norm_num at this h2 ⊢; omega
  -- the arithmetic theorem on `range`-indexed sums
  have hest : ∀ (M d : Nat), 0 < M → d = P / (W * M) → 53 ≤ d →
      (∑ i ∈ range m.w, xs.getD i 0 * (m.crtP.getD i 0 / M + 1)) / W / d = q := by
    intro M d hM hd h53
    have hWM : 0 < W * M := Nat.mul_pos hWpos hM
    obtain ⟨b1, b2⟩ := div_bounds P (W * M) hWM
    have := q_estimate' (w := m.w) P q V M d W (fun i => xs.getD i.val 0) (fun i => m.crtP.getD i.val 0)
      hM hWpos (by omega)
      (by rw [Fin.sum_univ_eq_sum_range (fun i => xs.getD i 0 * m.crtP.getD i 0)]; exact hS) hV
      (by rw [hd, Nat.mul_assoc]; exact b1) (by rw [hd, Nat.mul_assoc]; exact b2)
      (by rw [Fin.sum_univ_eq_sum_range (fun i => xs.getD i 0)]; exact hsumxs) (by omega)
    rw [Fin.sum_univ_eq_sum_range (fun i => xs.getD i 0 * (m.crtP.getD i 0 / M + 1))] at this
    exact this
  -- every P/p_i is below P/2^58
  have hc58 : ∀ i, i < m.w → m.crtP.getD i 0 * 2 ^ 58 < P := by
    intro i hi
    obtain ⟨p, hp, hcp⟩ := hcrt i hi
    have hc0 : 0 < m.crtP.getD i 0 := by
      rcases Nat.eq_zero_or_pos (m.crtP.getD i 0) with h0 | h0
      · rw [h0, Nat.zero_mul] at hcp; omega
      · exact h0
    rw [← hcp]
    exact Nat.mul_lt_mul_of_pos_left hp hc0
  unfold qEstimate
  simp only
  rw [if_neg (by rw [hdigL]; omega), hhi]
  obtain ⟨hb1, hb2⟩ := div_bounds P (A * W) (Nat.mul_pos hApos hWpos)
  rw [← hhidef] at hb1 hb2
  have htopmod : ∀ top B, top ≤ m.w * (2 ^ 59 * B) → B ≤ W → top / W % W = top / W := by
    intro top B h1 h2
    apply Nat.mod_eq_of_lt
    rw [Nat.div_lt_iff_lt_mul hWpos]
    have h3 : m.w * (2 ^ 59 * B) ≤ 26 * (2 ^ 59 * W) := Nat.mul_le_mul hw (Nat.mul_le_mul_left _ h2)
    have h4 : 26 * (2 ^ 59 * W) < W * W := by rw [hWv]; norm_num
    exact lt_of_le_of_lt (le_trans h1 h3) h4
  by_cases h56 : hi ≥ 2 ^ 56
  · rw [if_pos h56]
    -- 0. P/p_i has bits in word [plen-1]
    have hLs : L - 1 = (L - 2) + 1 := by omega
    have hcA70 : ∀ i, i < m.w → m.crtP.getD i 0 < 2 ^ 70 * A := by
      intro i hi
      have h58 := hc58 i hi
      generalize m.crtP.getD i 0 = cc at h58 ⊢
      rw [hWv] at hPhi
      clear_value P A
      norm_num at h58 ⊢
      omega
    have hc6 : ∀ i, i < m.w → m.crtP.getD i 0 / W ^ ((L - 2) + 1) < 2 ^ 32 := by
      intro i hi
      rw [← hLs, hL1, Nat.div_lt_iff_lt_mul (Nat.mul_pos hApos hWpos)]
      have := hcA70 i hi
      rw [hWv]
      generalize m.crtP.getD i 0 = cc at this ⊢
      clear_value A
      norm_num at this ⊢
      omega
    have hMpos : 0 < 2 ^ 32 * A := Nat.mul_pos (by norm_num) hApos
    have hread : ∀ i, i < m.w → dig (m.crtP.getD i 0) (L - 1) * 2 ^ 32 % W + dig (m.crtP.getD i 0) (L - 2) / 2 ^ 32 =
        m.crtP.getD i 0 / (2 ^ 32 * A) := by
      intro i hi
      have := two_word_read (m.crtP.getD i 0) (L - 2) (hc6 i hi)
      rw [← hLs] at this
      exact this
    have hcM : ∀ i, i < m.w → m.crtP.getD i 0 / (2 ^ 32 * A) < 2 ^ 38 := by
      intro i hi
      rw [Nat.div_lt_iff_lt_mul hMpos]
      have := hcA70 i hi
      generalize m.crtP.getD i 0 = cc at this ⊢
      clear_value A
      norm_num at this ⊢
      omega
    have hf : ∀ i, i < m.w → (fun crt =>
        if dig crt (L - 1) * 2 ^ 32 % W + dig crt (L - 2) / 2 ^ 32 + 1 ≥ W then none
        else some (dig crt (L - 1) * 2 ^ 32 % W + dig crt (L - 2) / 2 ^ 32 + 1)) (m.crtP.getD i 0) =
        some (m.crtP.getD i 0 / (2 ^ 32 * A) + 1) := by
      intro i hi
      simp only [hread i hi]
      rw [if_neg (by have := hcM i hi; rw [hWv]; norm_num at this ⊢; omega)]
    have hB : m.w * (2 ^ 59 * 2 ^ 38) < 2 ^ 128 := by
      have : m.w * (2 ^ 59 * 2 ^ 38) ≤ 26 * (2 ^ 59 * 2 ^ 38) := Nat.mul_le_mul_right _ hw
      norm_num at this ⊢; omega
    rw [sumTop_eq m xs _ (fun i => m.crtP.getD i 0 / (2 ^ 32 * A) + 1) (2 ^ 38) hf
      (fun i hi => by have := hcM i hi; show m.crtP.getD i 0 / (2 ^ 32 * A) + 1 ≤ 2 ^ 38; omega) hxs hB]
    simp only
    have hlo : dig P (L - 2) < W := Nat.mod_lt _ hWpos
    have hd : (hi * W + dig P (L - 2)) / 2 ^ 96 % W = hi / 2 ^ 32 := by
      generalize dig P (L - 2) = lo at hlo ⊢
      rw [hWv] at hhiW hlo ⊢
      clear_value hi
      norm_num
      omega
    rw [hd, if_neg (by norm_num at h56 ⊢; omega)]
    have hle := sum_range_le m.w (fun i => xs.getD i 0 * (m.crtP.getD i 0 / (2 ^ 32 * A) + 1)) (2 ^ 59 * 2 ^ 38)
      (fun i hi => Nat.mul_le_mul (le_of_lt (hxs i hi)) (by have := hcM i hi; omega))
    rw [htopmod _ (2 ^ 38) hle (by rw [hWv]; norm_num),
      hest (2 ^ 32 * A) (hi / 2 ^ 32) hMpos (by
        rw [hhidef, Nat.div_div_eq_div_mul]; congr 1; ring) (by norm_num at h56 ⊢; omega)]
  · rw [if_neg h56]
    by_cases h8 : hi ≥ 2 ^ 8
    · rw [if_pos h8]
      -- 1. top word only
      have hPup : P < 2 ^ 56 * (A * W) :=
        lt_of_lt_of_le hb2 (Nat.mul_le_mul_right _ (by omega))
      have hcA : ∀ i, i < m.w → m.crtP.getD i 0 / A < W := by
        intro i hi
        rw [Nat.div_lt_iff_lt_mul hApos]
        have h58 := hc58 i hi
        rw [Nat.mul_comm W A]
        generalize A * W = AW at hPup ⊢
        generalize m.crtP.getD i 0 = cc at h58 ⊢
        clear_value P
        norm_num at h58 hPup
        omega
      have hf : ∀ i, i < m.w → (fun crt => some (dig crt (L - 2) + 1)) (m.crtP.getD i 0) =
          some (m.crtP.getD i 0 / A + 1) := by
        intro i hi
        simp only [dig, ← hA, Nat.mod_eq_of_lt (hcA i hi)]
      have hB : m.w * (2 ^ 59 * W) < 2 ^ 128 := by
        have : m.w * (2 ^ 59 * W) ≤ 26 * (2 ^ 59 * W) := Nat.mul_le_mul_right _ hw
        rw [hWv] at this ⊢; norm_num at this ⊢; omega
      rw [sumTop_eq m xs _ (fun i => m.crtP.getD i 0 / A + 1) W hf
        (fun i hi => by have := hcA i hi; show m.crtP.getD i 0 / A + 1 ≤ W; omega) hxs hB]
      simp only
      rw [if_neg (by omega)]
      have hle := sum_range_le m.w (fun i => xs.getD i 0 * (m.crtP.getD i 0 / A + 1)) (2 ^ 59 * W)
        (fun i hi => Nat.mul_le_mul (le_of_lt (hxs i hi)) (by have := hcA i hi; omega))
      rw [htopmod _ W hle le_rfl, hest A hi hApos (by rw [hhidef, Nat.mul_comm]) (by norm_num at h8; omega)]
    · rw [if_neg h8]
      -- 2. shift left by 32 bits
      have hP8 : P < 2 ^ 8 * (A * W) :=
        lt_of_lt_of_le hb2 (Nat.mul_le_mul_right _ (by omega))
      have hL3' : 3 ≤ L := hL3 (by rw [hL1]; exact hP8)
      rw [if_neg (by omega)]
      set A3 := W ^ (L - 3) with hA3
      have hA3pos : 0 < A3 := Nat.pow_pos hWpos
      have hAA3 : A = A3 * W := by rw [hA, hA3, ← pow_succ]; congr 1; omega
      have hLs : L - 2 = (L - 3) + 1 := by omega
      have hcA14 : ∀ i, i < m.w → m.crtP.getD i 0 < 2 ^ 14 * A := by
        intro i hi
        have h58 := hc58 i hi
        generalize m.crtP.getD i 0 = cc at h58 ⊢
        rw [hWv, ← Nat.mul_assoc] at hP8
        clear_value P A
        norm_num at h58 hP8 ⊢
        omega
      have hc6 : ∀ i, i < m.w → m.crtP.getD i 0 / W ^ ((L - 3) + 1) < 2 ^ 32 := by
        intro i hi
        rw [← hLs, ← hA, Nat.div_lt_iff_lt_mul hApos]
        have := hcA14 i hi
        generalize m.crtP.getD i 0 = cc at this ⊢
        clear_value A
        norm_num at this ⊢
        omega
      have hMpos : 0 < 2 ^ 32 * A3 := Nat.mul_pos (by norm_num) hA3pos
      have hread : ∀ i, i < m.w → dig (m.crtP.getD i 0) (L - 2) * 2 ^ 32 % W + dig (m.crtP.getD i 0) (L - 3) / 2 ^ 32 =
          m.crtP.getD i 0 / (2 ^ 32 * A3) := by
        intro i hi
        have := two_word_read (m.crtP.getD i 0) (L - 3) (hc6 i hi)
        rw [← hLs] at this
        exact this
      have hcM : ∀ i, i < m.w → m.crtP.getD i 0 / (2 ^ 32 * A3) < 2 ^ 46 := by
        intro i hi
        rw [Nat.div_lt_iff_lt_mul hMpos]
        have := hcA14 i hi
        rw [hAA3, hWv] at this
        generalize m.crtP.getD i 0 = cc at this ⊢
        clear_value A3
        norm_num at this ⊢
        omega
      have hf : ∀ i, i < m.w → (fun crt =>
          if dig crt (L - 2) * 2 ^ 32 % W + dig crt (L - 3) / 2 ^ 32 + 1 ≥ W then none
          else some (dig crt (L - 2) * 2 ^ 32 % W + dig crt (L - 3) / 2 ^ 32 + 1)) (m.crtP.getD i 0) =
          some (m.crtP.getD i 0 / (2 ^ 32 * A3) + 1) := by
        intro i hi
        simp only [hread i hi]
        rw [if_neg (by have := hcM i hi; rw [hWv]; norm_num at this ⊢; omega)]
      have hB : m.w * (2 ^ 59 * 2 ^ 46) < 2 ^ 128 := by
        have : m.w * (2 ^ 59 * 2 ^ 46) ≤ 26 * (2 ^ 59 * 2 ^ 46) := Nat.mul_le_mul_right _ hw
        norm_num at this ⊢; omega
      rw [sumTop_eq m xs _ (fun i => m.crtP.getD i 0 / (2 ^ 32 * A3) + 1) (2 ^ 46) hf
        (fun i hi => by have := hcM i hi; show m.crtP.getD i 0 / (2 ^ 32 * A3) + 1 ≤ 2 ^ 46; omega) hxs hB]
      simp only
      -- hi·W + lo = P / A
      have hptop : hi * W + dig P (L - 2) = P / A := by
        unfold dig
        rw [← hA, hhidef, ← Nat.div_div_eq_div_mul]
        have := Nat.div_add_mod (P / A) W
        rw [Nat.mul_comm] at this
        exact this
      have hPA1 : W ≤ P / A := (Nat.le_div_iff_mul_le hApos).2 (by rw [Nat.mul_comm]; exact hPlo)
      have hPA2 : P / A < 2 ^ 8 * W := by
        rw [Nat.div_lt_iff_lt_mul hApos]
        calc P < 2 ^ 8 * (A * W) := hP8
          _ = 2 ^ 8 * W * A := by ring
      have hd : (hi * W + dig P (L - 2)) / 2 ^ 32 % W = P / A / 2 ^ 32 := by
        rw [hptop]
        apply Nat.mod_eq_of_lt
        rw [hWv] at hPA2 ⊢
        generalize P / A = y at hPA2 ⊢
        norm_num at hPA2 ⊢
        omega
      rw [hd, if_neg (by
        rw [hWv] at hPA1
        generalize P / A = y at hPA1 ⊢
        norm_num
        omega)]
      have hle := sum_range_le m.w (fun i => xs.getD i 0 * (m.crtP.getD i 0 / (2 ^ 32 * A3) + 1)) (2 ^ 59 * 2 ^ 46)
        (fun i hi => Nat.mul_le_mul (le_of_lt (hxs i hi)) (by have := hcM i hi; omega))
      rw [htopmod _ (2 ^ 46) hle (by rw [hWv]; norm_num),
        hest (2 ^ 32 * A3) (P / A / 2 ^ 32) hMpos (by
          have hmul : A * 2 ^ 32 = W * (2 ^ 32 * A3) := by
            rw [hAA3, Nat.mul_assoc, Nat.mul_comm W (2 ^ 32), ← Nat.mul_assoc, Nat.mul_comm A3 (2 ^ 32),
              Nat.mul_comm]
          rw [Nat.div_div_eq_div_mul, hmul]) (by
          rw [hWv] at hPA1
          generalize P / A = y at hPA1 ⊢
          norm_num
          omega)]


/-! ### the tables built by `MultiZmodP::new` meet `EstOk` -/

/-- the part of `EstOk` that depends on the number of primes only, as a decidable check on the
translated prime table -/
def tablesOk (w : Nat) : Bool :=
  let primes := Ymq.Gen.Params.NTT_PRIME_VALUES.take w
  let pprod := primes.foldl (· * ·) 1
  let plen := (Ymq.Checked.bitlen pprod + 63) / 64
  decide (2 ≤ plen) && decide (W ^ (plen - 1) ≤ pprod) && decide (pprod < W ^ plen) &&
    (decide (2 ^ 8 * W ^ (plen - 1) ≤ pprod) || decide (3 ≤ plen)) &&
    (List.range w).all fun i => decide (2 ^ 58 < primes.getD i 1) &&
      decide (prodExcept primes i * primes.getD i 1 = pprod)

theorem tables_ok : ∀ w ∈ List.range 27, 2 ≤ w → tablesOk w = true := by decide +kernel


theorem mzp_w_le (nbits logsize w : Nat) (h : Ymq.Gen.Params.arith_fft.mzp_w nbits logsize = some w) : w ≤ 26 := by
  unfold Ymq.Gen.Params.arith_fft.mzp_w at h
  simp only [Option.bind_eq_some_iff] at h
  obtain ⟨need, _, w', _, h3⟩ := h
  split_ifs at h3 with hle
  · simp only [Option.bind_eq_some_iff] at h3
    obtain ⟨b, _, h4⟩ := h3
    split_ifs at h4
    · simp only [Option.some.injEq] at h4
      rw [← h4]
      simpa [Ymq.Gen.Params.NTT_PRIMES_LEN] using of_decide_eq_true hle

theorem new_fields (n logsize : Nat) (m : Mzp) (h : new n logsize = some m) :
    ∃ w, Ymq.Gen.Params.arith_fft.mzp_w (Ymq.Checked.bitlen n) logsize = some w ∧ m.w = w ∧
      m.pprod = (Ymq.Gen.Params.NTT_PRIME_VALUES.take w).foldl (· * ·) 1 ∧
      m.plen = (Ymq.Checked.bitlen ((Ymq.Gen.Params.NTT_PRIME_VALUES.take w).foldl (· * ·) 1) + 63) / 64 ∧
      m.crtP = (List.range w).map (prodExcept (Ymq.Gen.Params.NTT_PRIME_VALUES.take w)) := by
  unfold new at h
  simp only at h
  repeat' split at h
  all_goals first
    | contradiction
    | (simp only [Option.some.injEq] at h
       subst h
       exact ⟨_, ‹_›, rfl, rfl, rfl, rfl⟩)

/-- **the tables of `MultiZmodP::new` meet the requirements of the quotient estimate** (for `w ≥ 2`
primes; `w = 1` does not use the estimate) -/
theorem new_estOk (n logsize : Nat) (m : Mzp) (h : new n logsize = some m) (hw2 : 2 ≤ m.w) : EstOk m := by
  obtain ⟨w, hw, ew, epp, epl, ecp⟩ := new_fields n logsize m h
  have hwle := mzp_w_le _ _ _ hw
  rw [ew] at hw2
  have hok := tables_ok w (List.mem_range.2 (by omega)) hw2
  unfold tablesOk at hok
  simp only [Bool.and_eq_true, Bool.or_eq_true, decide_eq_true_eq, List.all_eq_true, List.mem_range] at hok
  obtain ⟨⟨⟨⟨k1, k2⟩, k3⟩, k4⟩, k5⟩ := hok
  refine ⟨by omega, by rw [epl]; exact k1, by rw [epl, epp]; exact k2, by rw [epl, epp]; exact k3, ?_, ?_⟩
  · intro hlt
    rw [epl, epp] at hlt
    rw [epl]
    rcases k4 with k4 | k4
    · omega
    · exact k4
  · intro i hi
    rw [ew] at hi
    obtain ⟨k6, k7⟩ := k5 i hi
    refine ⟨_, k6, ?_⟩
    rw [ecp, epp, List.getD_eq_getElem?_getD, List.getElem?_map, List.getElem?_range hi]
    exact k7

end Ymq.Crt
