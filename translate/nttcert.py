#!/usr/bin/env python3
"""Pratt certificates for the NTT moduli of arith_fft.rs (properties C10 / C20): reads `NTT_PRIMES` from the source and emits,
for each modulus p, `(p, a, [(q, e), ...])` with p - 1 = prod q^e and a primitive root a (Ymq/Gen/NttCert.lean). The
certificates are only SUGGESTIONS: Lean re-checks every one in the kernel (`prattTable`, sound by Lucas' criterion); a
modulus that is not prime has no certificate and the translator fails."""
import re, sys, os
sys.path.insert(0, os.path.dirname(os.path.abspath(__file__)))
from common import *


def factor(n):
    fs, d = [], 2
    while d * d <= n:
        e = 0
        while n % d == 0:
            n //= d
            e += 1
        if e:
            fs.append((d, e))
        d += 1 if d == 2 else 2
        if d > 1 << 22:
            raise ExtractError(f"cofactor {n} of p - 1 has no small factor: the certificate generator only does trial division")
    if n > 1:
        fs.append((n, 1))
    return fs


def run():
    s = strip_rust_comments(src("src/arith_fft.rs"))
    m = must(r"const NTT_PRIMES: &\[\(u64, u64\)\] = &\[(.*?)\];", s, "NTT_PRIMES")
    pairs = re.findall(r"\(\s*((?:0x)?[\da-fA-F_]+)\s*,\s*((?:0x)?[\da-fA-F_]+)\s*\)", m.group(1))
    if not pairs:
        raise ExtractError("NTT_PRIMES: no entry read")
    rows = []
    for ps, _ in pairs:
        p = int_lit(ps)
        fs = factor(p - 1)
        if any(q >= 65536 for q, _ in fs):
            raise ExtractError(f"p - 1 of {p} has a prime factor above 2^16: extend the generator with nested certificates")
        a = None
        for g in range(2, 2000):
            if pow(g, p - 1, p) == 1 and all(pow(g, (p - 1) // q, p) != 1 for q, _ in fs):
                a = g
                break
        if a is None:
            raise ExtractError(f"no primitive root below 2000 modulo {p}: is it prime?")
        rows.append(f"  ({p}, {a}, [{', '.join(f'({q}, {e})' for q, e in fs)}])")
    body = ("namespace Ymq.Gen.NttCert\n\n"
            "/-- (p, primitive root a, factorisation of p - 1) for every entry of `arith_fft::NTT_PRIMES`, in table order -/\n"
            "def certs : List (Nat × Nat × List (Nat × Nat)) := [\n" + ",\n".join(rows) + "]\n\n"
            "end Ymq.Gen.NttCert\n")
    write_gen("NttCert", body, ["src/arith_fft.rs"])
    return f"{len(rows)} certificates"


if __name__ == "__main__":
    main(run)
