/-
Totality of the whole-curve model (Model/EcmCurve.lean) over arbitrary point operations: invariants `IP` (projective
points) and `IE` (extended points) preserved by the operations are preserved by the chain multiplications, by stage 1
and hold for every table entry; no index of the `gaps` tables is out of range.
-/
import Ymq.Lemmas.EcmCurveGroup

namespace Ymq.EcmCurve
open Ymq.Chain

section Inv
variable {P E : Type}

/-- the operations preserve the invariants -/
structure OpsInv (o : Ops P E) (IP : P → Prop) (IE : E → Prop) : Prop where
  zero : IP o.zero
  toExt : ∀ p, IP p → IE (o.toExt p)
  toProj : ∀ e, IE e → IP (o.toProj e)
  double : ∀ p, IP p → IP (o.double p)
  dblext : ∀ p, IP p → IE (o.dblext p)
  addext : ∀ a b, IE a → IE b → IE (o.addext a b)
  addp : ∀ a b, IE a → IE b → IP (o.addp a b)
  subp : ∀ a b, IE a → IE b → IP (o.subp a b)

variable {o : Ops P E} {IP : P → Prop} {IE : E → Prop}

theorem mkGaps_inv (hi : OpsInv o IP IE) (p2 : E) (h2 : IE p2) : ∀ (cnt : Nat) (g : E), IE g →
    (mkGaps o.addext p2 cnt g).length = cnt ∧ ∀ e ∈ mkGaps o.addext p2 cnt g, IE e
  | 0, _, _ => by simp [mkGaps]
  | n + 1, g, hg => by
    obtain ⟨h1, h3⟩ := mkGaps_inv hi p2 h2 n (o.addext g p2) (hi.addext _ _ hg h2)
    refine ⟨by simp [mkGaps, h1], ?_⟩
    intro e he
    simp only [mkGaps, List.mem_cons] at he
    rcases he with rfl | he
    · exact hg
    · exact h3 e he

theorem iter_inv (hi : OpsInv o IP IE) : ∀ (n : Nat) (q : P), IP q → IP (iter o.double n q)
  | 0, _, h => h
  | n + 1, q, h => iter_inv hi n _ (hi.double q h)

theorem stepOp_inv (hi : OpsInv o IP IE) (gaps : List E) (hg : ∀ e ∈ gaps, IE e) (m : Int) (hm : m < 2 * gaps.length)
    (q : P) (hq : IP q) (op : Int) (hop : OpOk m op) :
    ∃ q', stepOp o.double o.dblext o.addp o.subp gaps q op = some q' ∧ IP q' := by
  unfold stepOp
  rcases hop with ⟨h1, h2, h3⟩ | ⟨h1, h2, h3⟩
  · have hne : ¬ op % 2 = 0 := by omega
    simp only [hne, if_false]
    by_cases hpos : op > 0
    · simp only [hpos, if_true]
      have hidx : op.toNat / 2 < gaps.length := by omega
      rw [List.getElem?_eq_getElem hidx]
      exact ⟨_, rfl, hi.addp _ _ (hi.dblext q hq) (hg _ (List.getElem_mem hidx))⟩
    · have h128 : ¬ op = -128 := by omega
      simp only [hpos, if_false, h128]
      have hidx : (-op).toNat / 2 < gaps.length := by omega
      rw [List.getElem?_eq_getElem hidx]
      exact ⟨_, rfl, hi.subp _ _ (hi.dblext q hq) (hg _ (List.getElem_mem hidx))⟩
  · simp only [h1, if_true]
    exact ⟨_, rfl, iter_inv hi _ q hq⟩

theorem runChain_inv (hi : OpsInv o IP IE) (gaps : List E) (hg : ∀ e ∈ gaps, IE e) (m : Int)
    (hm : m < 2 * gaps.length) : ∀ (c : List Int), WF m c →
    ∃ q, runChain o.toProj o.double o.dblext o.addp o.subp gaps c = some q ∧ IP q
  | [], h => by simp [WF] at h
  | [i], h => by
    obtain ⟨h1, h2, h3⟩ := h
    have hidx : i.toNat / 2 < gaps.length := by omega
    have hneg : ¬ i < 0 := by omega
    simp only [runChain, List.reverse_cons, List.reverse_nil, List.nil_append, hneg, if_false,
      List.getElem?_eq_getElem hidx, foldOps]
    exact ⟨_, rfl, hi.toProj _ (hg _ (List.getElem_mem hidx))⟩
  | op :: x :: rest, h => by
    obtain ⟨hop, hwf⟩ := h
    obtain ⟨q, hq, hiq⟩ := runChain_inv hi gaps hg m hm (x :: rest) hwf
    rw [runChain_cons _ _ _ _ _ _ _ _ (by simp), hq]
    simp only [Option.bind_some]
    exact stepOp_inv hi gaps hg m hm q hiq op hop

theorem mul64_inv (hi : OpsInv o IP IE) (k : Nat) (hk : k < 2 ^ 64) (p : P) (hp : IP p) :
    ∃ q, o.mul64 k p = some q ∧ IP q := by
  unfold Ops.mul64 scalar64Chainmul
  by_cases h0 : k = 0
  · exact ⟨o.zero, by simp [h0], hi.zero⟩
  · simp only [h0, if_false]
    obtain ⟨c, h1, _, h4⟩ := makeChain_spec k h0 hk
    rw [h1]
    obtain ⟨hl, hall⟩ := mkGaps_inv hi (o.dblext p) (hi.dblext p hp) 4 (o.toExt p) (hi.toExt p hp)
    exact runChain_inv hi _ hall 7 (by rw [hl]; decide) c h4

theorem mul1024_inv (hi : OpsInv o IP IE) (k : Nat) (hk : k < 2 ^ 1024) (p : P) (hp : IP p) :
    ∃ q, o.mul1024 k p = some q ∧ IP q := by
  unfold Ops.mul1024 scalar1024Chainmul
  by_cases h0 : k = 0
  · exact ⟨o.zero, by simp [h0], hi.zero⟩
  · simp only [h0, if_false]
    have hcap : 295 ≤ Ymq.Gen.Curves.chainLongCap := by decide
    obtain ⟨c, h1, _, h3, _⟩ := makeChainLongCap_spec (by omega : 0 < k) hk hcap
    unfold makeChainLong
    rw [h1]
    obtain ⟨hl, hall⟩ := mkGaps_inv hi (o.dblext p) (hi.dblext p hp) 32 (o.toExt p) (hi.toExt p hp)
    exact runChain_inv hi _ hall 63 (by rw [hl]; decide) c h3

theorem mulBlock_inv {X : Type} (mul : Nat → P → Option P) (B : Nat)
    (hmul : ∀ k, k < B → ∀ p, IP p → ∃ q, mul k p = some q ∧ IP q) (xOf : P → X) :
    ∀ (fs : List Nat) (g : P), IP g → (∀ f ∈ fs, f < B) → ∃ g' xs, mulBlock mul xOf fs g = some (g', xs) ∧ IP g'
  | [], g, hg, _ => ⟨g, [], rfl, hg⟩
  | f :: fs, g, hg, h => by
    obtain ⟨q, e, hq⟩ := hmul f (h f List.mem_cons_self) g hg
    obtain ⟨g', xs, e', hg'⟩ := mulBlock_inv mul B hmul xOf fs q hq (fun x hx => h x (List.mem_cons_of_mem _ hx))
    exact ⟨g', xOf q :: xs, by simp [mulBlock, e, e'], hg'⟩

/-- "if the part goes on, it goes on with a value satisfying `I`" -/
def GoesWith {α : Type} (s : Step α) (I : α → Prop) : Prop :=
  match s with
  | .go v => I v
  | _ => True

theorem checked_goesWith {α X : Type} (n : Nat) (check : List X → Option (Option Nat)) (xs : List X) (k : Step α)
    (I : α → Prop) (h : GoesWith k I) : GoesWith (checked n check xs k) I := by
  unfold checked
  split
  · trivial
  · split <;> trivial
  · exact h

theorem stage1Blocks_inv {X : Type} (hi : OpsInv o IP IE) (n : Nat) (xOf : P → X) (check : List X → Option (Option Nat))
    (hc : CheckTotal check) : ∀ (blocks : List (List Nat)) (g : P) (lastx : X), IP g →
    (∀ b ∈ blocks, ∀ f ∈ b, f < 2 ^ 64) →
    NoPanic (stage1Blocks n o.mul64 xOf check blocks g lastx) ∧ GoesWith (stage1Blocks n o.mul64 xOf check blocks g lastx) IP
  | [], g, _, hg, _ => ⟨trivial, hg⟩
  | blk :: rest, g, lastx, hg, h => by
    obtain ⟨g', xs, e, hg'⟩ := mulBlock_inv o.mul64 (2 ^ 64) (fun k hk p hp => mul64_inv hi k hk p hp) xOf blk g hg
      (h blk List.mem_cons_self)
    obtain ⟨ih1, ih2⟩ := stage1Blocks_inv hi n xOf check hc rest g' (xOf g') hg'
      (fun b hb => h b (List.mem_cons_of_mem _ hb))
    simp only [stage1Blocks, e]
    exact ⟨checked_noPanic n check hc _ _ ih1, checked_goesWith n check _ _ IP ih2⟩

theorem stage1_inv {X : Type} (hi : OpsInv o IP IE) (n : Nat) (xOf : P → X) (one : X)
    (check : List X → Option (Option Nat)) (hc : CheckTotal check) (factors larges : List Nat)
    (hf : ∀ f ∈ factors, f < 2 ^ 64) (hl : ∀ f ∈ larges, f < 2 ^ 1024) (g : P) (hg : IP g) :
    NoPanic (stage1 o n xOf one check factors larges g) ∧ GoesWith (stage1 o n xOf one check factors larges g) IP := by
  have hblocks : ∀ b ∈ chunks gcdInterval factors, ∀ f ∈ b, f < 2 ^ 64 := by
    intro b hb f hfb
    apply hf
    rw [← chunks_flatten gcdInterval (by decide) factors]
    exact List.mem_flatten.mpr ⟨b, hb, hfb⟩
  obtain ⟨h1, h2⟩ := stage1Blocks_inv hi n xOf check hc (chunks gcdInterval factors) g one hg hblocks
  unfold stage1
  cases hs : stage1Blocks n o.mul64 xOf check (chunks gcdInterval factors) g one with
  | panic => rw [hs] at h1; exact absurd h1 id
  | ret r => exact ⟨trivial, trivial⟩
  | go g1 =>
    rw [hs] at h2
    obtain ⟨g2, xs, e, hg2⟩ := mulBlock_inv o.mul1024 (2 ^ 1024) (fun k hk p hp => mul1024_inv hi k hk p hp) xOf
      larges g1 h2 hl
    simp only [e]
    exact ⟨checked_noPanic n check hc _ _ trivial, checked_goesWith n check _ _ IP hg2⟩

/-! ### the tables: no index out of range -/

theorem growGaps_total (addext : E → E → E) : ∀ (f : Nat) (gaps : List E) (tgt : Nat), 1 ≤ gaps.length →
    tgt + 1 ≤ f + gaps.length → 1 ≤ f →
    ∃ gaps', growGaps addext f gaps tgt = some gaps' ∧ 1 ≤ gaps'.length ∧ tgt ≤ gaps'.length
  | 0, _, _, _, _, hf => by omega
  | f + 1, gaps, tgt, h1, h, _ => by
    unfold growGaps
    by_cases hlt : gaps.length < tgt
    · simp only [hlt, if_true]
      have hne : gaps ≠ [] := List.ne_nil_of_length_pos (by omega)
      rw [List.head?_eq_some_head hne, List.getLast?_eq_some_getLast hne]
      simp only
      exact growGaps_total addext f _ tgt (by simp) (by simp; omega) (by omega)
    · simp only [hlt, if_false]
      exact ⟨gaps, rfl, h1, by omega⟩

theorem babyLoop_total (o : Ops P E) : ∀ (bs : List Nat) (bexp : Nat) (bg : E) (gaps : List E), bexp % 2 = 1 →
    (∀ b ∈ bs, b % 2 = 1) → bs.Pairwise (· < ·) → (∀ b ∈ bs, bexp < b) → 1 ≤ gaps.length →
    ∃ r, babyLoop o bs bexp bg gaps = some r
  | [], _, _, _, _, _, _, _, _ => ⟨[], rfl⟩
  | b :: bs, bexp, bg, gaps, ho, hodd, hpw, hgt, h1 => by
    have hb : bexp < b := hgt b List.mem_cons_self
    have hbo : b % 2 = 1 := hodd b List.mem_cons_self
    obtain ⟨gaps', e1, h1', hlen⟩ := growGaps_total o.addext ((b - bexp) / 2 + 1) gaps ((b - bexp) / 2) h1
      (by omega) (by omega)
    have hidx : (b - bexp) / 2 - 1 < gaps'.length := by omega
    obtain ⟨r, ih⟩ := babyLoop_total o bs b (o.addext bg gaps'[(b - bexp) / 2 - 1]) gaps' hbo
      (fun x hx => hodd x (List.mem_cons_of_mem _ hx)) (List.Pairwise.of_cons hpw)
      (fun x hx => List.rel_of_pairwise_cons hpw hx) h1'
    unfold babyLoop
    have hnlt : ¬ b < bexp := by omega
    have hne : ¬ (b - bexp) / 2 = 0 := by omega
    simp only [hnlt, if_false, hne, e1, List.getElem?_eq_getElem hidx, ih]
    exact ⟨_, rfl⟩

theorem babySteps_total (o : Ops P E) {d1 : Nat} (hev : 2 ∣ d1) (h4 : 4 ≤ d1) (g : P) :
    ∃ bt, babySteps o d1 g = some bt := by
  obtain ⟨rest, hr⟩ := babyIdx_head h4
  have hs := babyIdx_sorted d1
  have hodd : ∀ b ∈ babyIdx d1, b % 2 = 1 := by
    intro b hb
    have hg := (babyIdx_mem.mp hb).2.2
    by_contra hcon
    have : 2 ∣ Nat.gcd b d1 := Nat.dvd_gcd (by omega) hev
    rw [hg] at this; omega
  unfold babySteps
  rw [hr] at hs hodd ⊢
  simp only [ne_eq, not_true_eq_false, if_false]
  obtain ⟨r, e⟩ := babyLoop_total o rest 1 (o.toExt g) [o.toExt (o.double g), o.toExt (o.double (o.double g))]
    (by decide) (fun b hb => hodd b (List.mem_cons_of_mem _ hb)) (List.Pairwise.of_cons hs)
    (fun x hx => List.rel_of_pairwise_cons hs hx) (by simp)
  rw [e]
  exact ⟨_, rfl⟩

theorem giantSteps_total (hi : OpsInv o IP IE) {d1 : Nat} (hd : d1 < 2 ^ 64) (d2 : Nat) (g : P) (hg : IP g) :
    ∃ gt, giantSteps o d1 d2 g = some gt := by
  obtain ⟨q, e, _⟩ := mul64_inv hi d1 hd g hg
  unfold giantSteps
  rw [e]
  exact ⟨_, rfl⟩

/-- **`ecm_curve` returns.** If the operations preserve invariants that hold for the generator, `is_valid` accepts
every projective point satisfying the invariant, `check_gcd_factor` and `roots_eval` return, the exponent blocks fit
their words and `d1` is even, at least 4 and a `u64`: no assertion fails, no index is out of range, nothing
underflows. -/
theorem ecmCurve_total {X : Type} (env : Env P E X) (hi : OpsInv env.ops IP IE) (hvalid : ∀ p, IP p → env.valid p = true)
    (hc : CheckTotal env.check) (hre : ∀ a b, env.rootsEval a b ≠ none) (factors larges : List Nat)
    (hf : ∀ f ∈ factors, f < 2 ^ 64) (hl : ∀ f ∈ larges, f < 2 ^ 1024) {d1 : Nat} (hev : 2 ∣ d1) (h4 : 4 ≤ d1)
    (hd : d1 < 2 ^ 64) (d2 : Nat) (g : P) (hg : IP g) :
    ecmCurve env factors larges d1 d2 g ≠ none := by
  obtain ⟨h1, h2⟩ := stage1_inv hi env.n env.xOf env.one env.check hc factors larges hf hl g hg
  unfold ecmCurve
  cases hs : stage1 env.ops env.n env.xOf env.one env.check factors larges g with
  | panic => rw [hs] at h1; exact absurd h1 id
  | ret r => simp
  | go g1 =>
    rw [hs] at h2
    have hg1 : IP g1 := h2
    simp only [hvalid g1 hg1, Bool.not_true, Bool.false_eq_true, if_false]
    obtain ⟨bt, eb⟩ := babySteps_total env.ops hev h4 g1
    obtain ⟨gt, eg⟩ := giantSteps_total hi hd d2 g1 hg1
    unfold stage2
    simp only [eb, eg]
    have hcheck : ∀ vals, (match env.check vals with
        | none => (none : Option (Option (Nat × Nat)))
        | some (some d) => if d = 0 then none else some (some (d, env.n / d))
        | some none => some none) ≠ none := by
      intro vals
      have := hc vals
      split
      · rename_i h0; exact absurd h0 this.1
      · rename_i d h0
        split
        · rename_i hd0; subst hd0; exact absurd h0 this.2
        · simp
      · simp
    by_cases hd4 : d1 < 4000
    · simp only [hd4, if_true]
      exact hcheck _
    · simp only [hd4, if_false]
      cases hr : env.rootsEval (List.drop bt.length (normY env.mul (List.map env.yz (bt ++ gt))))
          (List.take bt.length (normY env.mul (List.map env.yz (bt ++ gt)))) with
      | none => exact absurd hr (hre _ _)
      | some vals =>
        simp only [Option.map_some]
        exact hcheck _

end Inv

end Ymq.EcmCurve
