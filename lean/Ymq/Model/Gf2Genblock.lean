/-
Model of the pieces of `kernel_lanczos` (src/matrix/gf2.rs) that drive the 64x64 core:

* `pipeline`   : the selection of a non-degenerate subblock in the main loop (lines 203-239):
  `gram.rank()` / `gram.rank_reverse()`, `gram.mask(mask).pseudoinverse()`,
  `debug_assert!(ginv.rank() == (rk, mask))`.
* `mulAabOpt`  : `mul_aab_opt` (lines 322-335): B·b, dense 64-row part `a.block * tmp[..64]`, then the
  coordinate list transposed.
* `gramOf`     : the Gram matrix tested by `genblock`: `ay = mul_aab_opt(b, y); bay = b * ay; bay * bay`.
* `genblock`   : `genblock` (lines 337-352) with the random blocks `y` as an INPUT STREAM (the list of
  the blocks drawn by `y.try_fill(&mut rng)`, recorded by the hook `verif_hooks_small::record_genblock`):
  the first block whose Gram matrix has rank 64 is returned; `exhausted k` = the `k` blocks of the stream
  were all refused (the real loop would draw another one: it has no other exit).
No Mathlib import.
-/
import Ymq.Model.Gf2
import Ymq.Model.Gf2Small

namespace Ymq.Gf2Genblock
open Ymq.Gf2 Ymq.Gf2Small

def pipeline (n : Nat) (dbg rev : Bool) (m : Mat) : Option (Nat × Nat × Mat) :=
  match (if rev then rankReverse n dbg m else rank n dbg m) with
  | none => none
  | some (rk, mk) =>
    match mask n dbg m mk with
    | none => none
    | some t =>
      match pseudoinverse n dbg t with
      | none => none
      | some w =>
        if dbg && rank n dbg w != some (rk, mk) then none        -- debug_assert!(ginv.rank() == (rk, mask))
        else some (rk, mk, w)

/-- `mul_aab_opt(a, b)` = `Aᵗ A b` for the optimised representation -/
def mulAabOpt (a : SparseOpt) (b : List Nat) : Option (List Nat) :=
  match optMul a b with
  | none => none
  | some tmp =>
    -- `tmp.0[..LSIZE]` exists: `optMul` succeeded only with `nx ≥ 64`
    let dense := tmp.take 64
    -- `&a.block * &tmp_dense`: row `k` = xor of the rows of `tmp_dense` selected by `block[k]`
    let out := a.block.map (fun r => comb r dense 0)
    -- `out.0[k] ^= tmp.0[i]` for every coordinate `(i, k)`
    (applyCoords tmp.toArray (a.xy.map (fun p => (p.2, p.1))) out.toArray).map (·.toList)

/-- Gram matrix of `B·A·y`, `A = BᵗB` (a 64x64 matrix) -/
def gramOf (b : SparseOpt) (y : List Nat) : Option Mat :=
  match mulAabOpt b y with
  | none => none
  | some ay =>
    match optMul b ay with
    | none => none
    | some bay => blockDot bay bay

inductive GenRes where
  | panic
  | exhausted (tried : Nat)
  | accepted (idx : Nat) (y : List Nat)
deriving Repr, DecidableEq

def genblockFrom (dbg : Bool) (b : SparseOpt) : Nat → List (List Nat) → GenRes
  | k, [] => .exhausted k
  | k, y :: ys =>
    match gramOf b y with
    | none => .panic
    | some g =>
      match rank 64 dbg g with
      | none => .panic
      | some (rk, _) => if rk = 64 then .accepted k y else genblockFrom dbg b (k + 1) ys

/-- `genblock(b)` on the stream `ys` of random blocks -/
def genblock (dbg : Bool) (b : SparseOpt) (ys : List (List Nat)) : GenRes := genblockFrom dbg b 0 ys

end Ymq.Gf2Genblock
