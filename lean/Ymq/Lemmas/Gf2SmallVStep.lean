/-
C14 "small", helper lemmas part 20 (Mathlib): a continuing iteration of the checked profile preserves
the extended invariant `VInv` (directions `V_m` in the ghost history).
-/
import Ymq.Lemmas.Gf2SmallThreeTerm

namespace Ymq.Gf2Small
open Ymq.Gf2 Ymq.Gf2Genblock Ymq.Gf2Lanczos
open scoped Matrix

theorem projS_comm (a b : Nat) : projS a * projS b = projS b * projS a := by
  rw [← projS_and, ← projS_and, Nat.and_comm]

theorem cc_algebra {I : Type} [Fintype I] [DecidableEq I] {R : Type} [CommRing R] (Vm Vi N Pc Ci : Matrix I I R) (hcomm : Pc * Ci = Ci * Pc)
    (hcc : Vm * Pc = Vi * Pc) (hcol : N * Ci = Vi * Ci) : Vm * (Pc * Ci) = N * (Pc * Ci) := by
  calc Vm * (Pc * Ci) = (Vm * Pc) * Ci := (mul_assoc _ _ _).symm
    _ = Vi * Pc * Ci := by rw [hcc]
    _ = Vi * (Ci * Pc) := by rw [mul_assoc, hcomm]
    _ = (Vi * Ci) * Pc := (mul_assoc _ _ _).symm
    _ = (N * Ci) * Pc := by rw [hcol]
    _ = N * (Ci * Pc) := mul_assoc _ _ _
    _ = N * (Pc * Ci) := by rw [hcomm]

theorem dd_algebra {I : Type} [Fintype I] [DecidableEq I] {R : Type} [CommRing R] (Vm Vi Pc Pi : Matrix I I R) (hcomm : Pc * Pi = Pi * Pc)
    (hdd : Vm * (1 - Pc) = 0) (hcc : Vm * Pc = Vi * Pc) (hz : Vi * Pi = 0) :
    Vm * (1 - Pc * (1 - Pi)) = 0 := by
  have hsplit : 1 - Pc * (1 - Pi) = (1 - Pc) + Pc * Pi := by
    rw [mul_sub, mul_one]; abel
  rw [hsplit, mul_add, hdd, zero_add, ← mul_assoc, hcc, mul_assoc, hcomm, ← mul_assoc, hz, zero_mul]

theorem VInv_step {k : Nat} {cols : List (List Nat)} (hM : MatOK k cols) (hn0 : 0 < cols.length) {Y0 : List Nat}
    {st st' : LState} {hist vhist : List (List Nat)} {Ss : List Nat} {mk : Nat} {w next next0 : List Nat}
    (hInv : LInv k cols Y0 st hist Ss) (hV : VInv k cols st hist vhist Ss)
    (hF : StepFacts k cols st hist st' mk w next next0) :
    VInv k cols st' (hist ++ [w]) (vhist ++ [next]) (Ss ++ [mk]) := by
  obtain ⟨ws0, hws', hws0l, hpr⟩ := hF.wsEq
  obtain ⟨vs0, hvs'⟩ := hF.vsEq
  have hL1 : 1 ≤ st.ws.length := by
    obtain ⟨wl, hwl, _⟩ := hInv.wf.lastW
    cases hh : st.ws with
    | nil => rw [hh] at hwl; simp at hwl
    | cons a l => simp
  have hlen' : st'.ws.length = st.ws.length + 1 := by rw [hws']; simp [hws0l]
  have hlm1 : st'.ws.length - 1 = st.ws.length := by omega
  have hH := hInv.lenH
  have hS := hInv.lenS
  have hVh := hV.lenVh
  have gH : ∀ j, j < st.ws.length → (hist ++ [w]).getD j [] = hist.getD j [] := fun j hj => by
    rw [getD_append_singleton, if_pos (by omega)]
  have gHl : (hist ++ [w]).getD st.ws.length [] = w := by
    rw [getD_append_singleton, if_neg (by omega), if_pos (by omega)]
  have gV : ∀ j, j < st.ws.length → (vhist ++ [next]).getD j [] = vhist.getD j [] := fun j hj => by
    rw [getD_append_singleton, if_pos (by omega)]
  have gVl : (vhist ++ [next]).getD st.ws.length [] = next := by
    rw [getD_append_singleton, if_neg (by omega), if_pos (by omega)]
  have gS : ∀ j, j < st.ws.length → (Ss ++ [mk]).getD j 0 = Ss.getD j 0 := fun j hj => by
    rw [getD_append_singleton, if_pos (by omega)]
  have gSl : (Ss ++ [mk]).getD st.ws.length 0 = mk := by
    rw [getD_append_singleton, if_neg (by omega), if_pos (by omega)]
  have hwM : CM cols.length w = CM cols.length next * projS mk := by
    rw [hF.wEq]; exact cellMat_mask hF.nextOK.1 mk
  -- the direction
  obtain ⟨wl, pv, nx, hwl, hpv, hnx, hn0eq⟩ := hF.dir
  have ewl : wl = hist.getD (st.ws.length - 1) [] := by
    have := hV.lastW; rw [hwl] at this; injection this
  have epv : pv = vhist.getD (st.ws.length - 1) [] := by
    have := hV.lastV; rw [hpv] at this; injection this
  obtain ⟨wl', hwl', hwlOK⟩ := hInv.wf.lastW
  have : wl' = wl := by rw [hwl] at hwl'; injection hwl' with e; exact e.symm
  subst this
  obtain ⟨pv', hpv', hpvOK⟩ := hInv.wf.lastV
  have : pv' = pv := by rw [hpv] at hpv'; injection hpv' with e; exact e.symm
  subst this
  obtain ⟨nx', hnx', hnxOK⟩ := mulAabOpt_ok hM hwlOK
  have : nx' = nx := by rw [hnx] at hnx'; injection hnx' with e; exact e.symm
  subst this
  have hdir : ∀ X, Q k cols X next0 =
      (CM cols.length X)ᵀ * gramA k cols * (gramA k cols * CM cols.length (hist.getD (st.ws.length - 1) [])) +
        Q k cols X (vhist.getD (st.ws.length - 1) []) := by
    intro X
    show (CM cols.length X)ᵀ * gramA k cols * cellMat next0.toArray cols.length = _
    rw [hn0eq, cellMat_zipWith_xor hnxOK.1 hpvOK.1, cellMat_aab hM hnx, Matrix.mul_add, ← ewl, ← epv]
  -- abbreviations of the last blocks
  have hWV := hV.wvLast
  exact {
    lenVh := by rw [hlen']; simp [hVh]
    lastW := by rw [hlm1, gHl, hws']; simp
    lastV := by rw [hlm1, gVl, hvs']; simp
    wvLast := by rw [hlm1, gHl, gVl, gSl]; exact hwM
    vOrth := by
      intro l hl
      rw [hlm1, gVl, gH l (by omega)]
      exact hF.orthV l (by omega)
    recur := by
      intro j hj X hX hall
      have hj' : j < st.ws.length := by omega
      have hall' : ∀ l, l ≤ j → Q k cols X (hist.getD l []) = 0 := by
        intro l hl
        have := hall l hl
        rwa [gH l (by omega)] at this
      rw [gH j hj', gV j hj']
      by_cases hjl : j + 1 < st.ws.length
      · rw [gV (j + 1) hjl]
        exact hV.recur j hjl X hX hall'
      · have hjeq : j + 1 = st.ws.length := by omega
        have hj1 : j = st.ws.length - 1 := by omega
        rw [hjeq, gVl]
        have hx := hF.xform X hX (fun l hl => hall' l (by omega))
        rw [hx, hdir X, ← hj1, add_assoc, add_self_mat, add_zero]
    cc := by
      intro m hm X hX hall
      rw [hlm1]
      have hall' : ∀ l, l < st.ws.length → Q k cols X (hist.getD l []) = 0 := by
        intro l hl
        have := hall l (by omega)
        rwa [gH l hl] at this
      rw [gVl]
      by_cases hml : m < st.ws.length
      · rw [gV m hml]
        have hpc : pc (Ss ++ [mk]) m st.ws.length =
            pc Ss m (st.ws.length - 1) &&& (M64 ^^^ Ss.getD (st.ws.length - 1) 0) := by
          have := pc_succ (Ss ++ [mk]) (m := m) (t := st.ws.length - 1) (by omega)
          rw [show st.ws.length - 1 + 1 = st.ws.length by omega,
            pc_append Ss mk (m := m) (t := st.ws.length - 1) (by omega), gS _ (by omega)] at this
          exact this
        have hcol : Q k cols X next * projS (M64 ^^^ Ss.getD (st.ws.length - 1) 0) =
            Q k cols X (vhist.getD (st.ws.length - 1) []) * projS (M64 ^^^ Ss.getD (st.ws.length - 1) 0) := by
          rw [hF.xform X hX hall', hdir X, Matrix.add_mul]
          have hz : CM cols.length (hist.getD (st.ws.length - 1) []) *
              projS (M64 ^^^ Ss.getD (st.ws.length - 1) 0) = 0 := by
            rw [hWV, projS_compl, Matrix.mul_assoc, Matrix.mul_sub, Matrix.mul_one, projS_idem, sub_self,
              Matrix.mul_zero]
          have : (CM cols.length X)ᵀ * gramA k cols *
              (gramA k cols * CM cols.length (hist.getD (st.ws.length - 1) [])) *
              projS (M64 ^^^ Ss.getD (st.ws.length - 1) 0) = 0 := by
            rw [Matrix.mul_assoc, Matrix.mul_assoc (gramA k cols), hz, Matrix.mul_zero, Matrix.mul_zero]
          rw [this, zero_add]
        rw [hpc, projS_and]
        exact cc_algebra _ _ _ _ _ (projS_comm _ _) (hV.cc m hml X hX (fun l hl => hall' l (by omega))) hcol
      · have hmeq : m = st.ws.length := by omega
        rw [hmeq, gVl]
    dd := by
      intro m hm X hX hall
      rw [hlm1]
      have hall' : ∀ l, l < st.ws.length → Q k cols X (hist.getD l []) = 0 := by
        intro l hl
        have := hall l (by omega)
        rwa [gH l hl] at this
      by_cases hml : m < st.ws.length
      · rw [gV m hml]
        have hpc : pc (Ss ++ [mk]) m st.ws.length =
            pc Ss m (st.ws.length - 1) &&& (M64 ^^^ Ss.getD (st.ws.length - 1) 0) := by
          have := pc_succ (Ss ++ [mk]) (m := m) (t := st.ws.length - 1) (by omega)
          rw [show st.ws.length - 1 + 1 = st.ws.length by omega,
            pc_append Ss mk (m := m) (t := st.ws.length - 1) (by omega), gS _ (by omega)] at this
          exact this
        have hXW : Q k cols X (vhist.getD (st.ws.length - 1) []) * projS (Ss.getD (st.ws.length - 1) 0) = 0 := by
          have := hall' (st.ws.length - 1) (by omega)
          show (CM cols.length X)ᵀ * gramA k cols * CM cols.length (vhist.getD (st.ws.length - 1) []) * _ = 0
          rw [Matrix.mul_assoc, ← hWV]
          exact this
        rw [hpc, projS_and, projS_compl]
        exact dd_algebra _ _ _ _ (projS_comm _ _) (hV.dd m hml X hX (fun l hl => hall' l (by omega)))
          (hV.cc m hml X hX (fun l hl => hall' l (by omega))) hXW
      · have hmeq : m = st.ws.length := by omega
        rw [hmeq, pc_self, projS_M64, sub_self, Matrix.mul_zero]
    masksRel := by
      intro l hl1 hl
      rw [hF.masksEq]
      by_cases hll : l < st.ws.length
      · rw [getD_append_singleton, if_pos (by rw [hInv.wf.lenM]; exact hll), gS l hll]
        exact hV.masksRel l hl1 hll
      · have : l = st.ws.length := by omega
        subst this
        rw [getD_append_singleton, if_neg (by rw [hInv.wf.lenM]; omega), if_pos (by rw [hInv.wf.lenM]), gSl]
    purged := by
      intro j x hjx hxe
      rw [hws'] at hjx
      by_cases hj : j < ws0.length
      · rw [List.getElem?_append_left hj] at hjx
        have hjL : j < st.ws.length := by omega
        have hnp : ¬ Projected st.ws st.masks st.ws.length j := by
          rintro ⟨hp1, hp2⟩
          rcases hpr j x hjx hxe with ⟨w0, hw0, hw0e⟩ | hm0
          · have : st.ws.getD j [] = w0 := by simp [List.getD_eq_getElem?_getD, hw0]
            rw [this, hw0e] at hp1; exact absurd hp1 (by decide)
          · exact hp2 hm0
        obtain ⟨h1, h2⟩ := hV.notProj hInv.wf.lenM j hjL hnp
        refine ⟨by omega, ?_⟩
        rw [hlm1]
        have := pc_succ (Ss ++ [mk]) (m := j + 1) (t := st.ws.length - 1) (by omega)
        rw [show st.ws.length - 1 + 1 = st.ws.length by omega,
          pc_append Ss mk (m := j + 1) (t := st.ws.length - 1) (by omega), h2] at this
        rw [this, Nat.zero_and]
      · exfalso
        have hjl : j = ws0.length := by
          have := (List.getElem?_eq_some_iff.mp hjx).1
          simp at this; omega
        subst hjl
        rw [List.getElem?_append_right (Nat.le_refl _), Nat.sub_self] at hjx
        simp only [List.getElem?_cons_zero, Option.some.injEq] at hjx
        subst hjx
        have hwl : w.length = cols.length := by rw [hF.wEq]; simp [hF.nextOK.1]
        cases hw : w with
        | nil => rw [hw] at hwl; simp at hwl; omega
        | cons a l => rw [hw] at hxe; simp at hxe }

end Ymq.Gf2Small
